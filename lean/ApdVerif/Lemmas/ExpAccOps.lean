import ApdVerif.Props.RoundCore
import ApdVerif.Props.Mul
import ApdVerif.Props.Quo
import ApdVerif.Props.Rational
import ApdVerif.Lemmas.ExpAccBudget
/-!
# The decimal operations of `Exp`'s working context as perturbed real operations

The working context `nc` of `Exp` has the package's exponent range (`emin = MinExponent`,
`emax = MaxExponent`) and rounds half-even.  In such a context an operation that returns without an
error never delivers an infinity or a subnormal (those exits are system-limit errors), so by C01
(`Agrees`) its result is the exact result times `(1+δ)`, `|δ| ≤ 10^(1-p)/2`.
-/
namespace Apd.ExpAcc
open Apd Apd.Oracle Apd.Props Apd.RatSpec Cond

/-- the package-wide exponent range, precision between 1 and 100000 -/
structure Wide (c : Ctx) : Prop where
  emin : c.emin = MinExponent
  emax : c.emax = MaxExponent
  prec1 : 1 ≤ c.prec
  prec2 : (c.prec : Int) ≤ 100000

theorem Wide.wf {c : Ctx} (h : Wide c) : c.WF := by
  obtain ⟨h1, h2, h3, h4⟩ := h
  unfold Ctx.WF
  rw [h1, h2]
  simp only [MinExponent, MaxExponent]
  omega

/-! ## no infinity, no subnormal in a wide context -/

theorem setExponent_wide (c : Ctx) (hw : Wide c) (d : Dec) (res : Cond) (xs : List Int)
    (h : NoSys (setExponent c d res xs).2) :
    setExponent c d res xs = seFinish d (sumInts xs) res ∧
      MinExponent ≤ sumInts xs + (ndigits d.coeff : Int) - 1 := by
  unfold setExponent at h ⊢
  cases hx : checkXs xs with
  | some fl => rw [hx] at h; exact absurd h (QuoL.checkXs_some xs fl hx)
  | none =>
    rw [hx] at h
    simp only at h ⊢
    by_cases h1 : sumInts xs + (ndigits d.coeff : Int) - 1 > MaxExponent
    · rw [if_pos h1] at h; exfalso; revert h; simp [NoSys, cSysOverflow, cOverflow]
    · rw [if_neg h1] at h ⊢
      by_cases h2 : sumInts xs + (ndigits d.coeff : Int) - 1 < MinExponent
      · rw [if_pos h2] at h; exfalso; revert h; simp [NoSys, cSysUnderflow, cUnderflow]
      · rw [if_neg h2]
        have e1 : ¬ sumInts xs + (ndigits d.coeff : Int) - 1 < c.emin := by rw [hw.emin]; exact h2
        have e2 : ¬ sumInts xs + (ndigits d.coeff : Int) - 1 > c.emax := by rw [hw.emax]; exact h1
        rw [if_neg e1, if_neg e2]
        exact ⟨rfl, by omega⟩

theorem seFinish_form (d : Dec) (r : Int) (res : Cond) : (seFinish d r res).1.form = d.form := rfl

theorem seFinish_subnormal (d : Dec) (r : Int) (res : Cond) : (seFinish d r res).2.subnormal = res.subnormal := by
  unfold seFinish
  simp only
  split <;> simp [cUnderflow]

theorem noSys_left (a b : Cond) (h : NoSys (a ||| b)) : NoSys a := by
  obtain ⟨h1, h2⟩ := h
  simp at h1 h2
  exact ⟨h1.1, h2.1⟩

theorem noSys_right (a b : Cond) (h : NoSys (a ||| b)) : NoSys b := QuoL.noSys_of_or a b h

theorem se_pair_wide (c : Ctx) (hw : Wide c) (d : Dec) (res : Cond) (xs : List Int)
    (hd : d.form = .finite) (hres : res.subnormal = false)
    (h : NoSys (res ||| (setExponent c d res xs).2)) :
    (setExponent c d res xs).1.form = .finite ∧ (res ||| (setExponent c d res xs).2).subnormal = false := by
  have hr := noSys_right _ _ h
  obtain ⟨he, _⟩ := setExponent_wide c hw _ _ _ hr
  rw [he, seFinish_form, QuoL.or_subnormal, seFinish_subnormal, hres]
  exact ⟨hd, rfl⟩

theorem roundXFin_wide (c : Ctx) (hw : Wide c) (x : Dec) (hx : x.form = .finite)
    (h : NoSys (roundXFin c x true).2) :
    (roundXFin c x true).1.form = .finite ∧ (roundXFin c x true).2.subnormal = false := by
  have hp : (c.prec == 0) = false := by have := hw.prec1; simp; omega
  unfold roundXFin at h ⊢
  simp only [hp, Bool.and_false, Bool.false_eq_true, if_false] at h ⊢
  by_cases h1 : (x.sign != 0 && decide (x.exp + (ndigits x.coeff : Int) - 1 < c.emin)) = true
  · -- subnormal entry: impossible
    rw [if_pos h1] at h
    exfalso
    simp only [Bool.and_eq_true, decide_eq_true_eq] at h1
    have hr := noSys_right _ _ h
    obtain ⟨_, hge⟩ := setExponent_wide c hw x cSubnormal [x.exp] hr
    simp only [sumInts] at hge
    rw [hw.emin] at h1
    omega
  · rw [if_neg h1] at h ⊢
    by_cases h2 : (ndigits x.coeff : Int) - (c.prec : Int) > 0
    · rw [if_pos h2] at h ⊢
      by_cases h3 : (ndigits x.coeff : Int) - (c.prec : Int) > MaxExponent
      · rw [if_pos h3] at h; exfalso; revert h; simp [NoSys, cSysOverflow, cOverflow]
      · rw [if_neg h3] at h ⊢
        simp only at h ⊢
        refine se_pair_wide c hw _ _ _ hx ?_ h
        split <;> simp [cRounded, cInexact]
    · rw [if_neg h2] at h ⊢
      obtain ⟨he, _⟩ := setExponent_wide c hw _ _ _ h
      rw [he, seFinish_form, seFinish_subnormal]
      exact ⟨hx, rfl⟩

theorem ctxRound_wide (c : Ctx) (hw : Wide c) (x : Dec) (hx : x.form = .finite)
    (h : NoSys (ctxRound c x).2) :
    (ctxRound c x).1.form = .finite ∧ (ctxRound c x).2.subnormal = false := by
  rw [ctxRound_finite c x hx] at h ⊢
  exact roundXFin_wide c hw x hx h

theorem noSys_of_none (t fl : Cond) (h : goError t fl = .none) : NoSys fl :=
  QuoL.noSys_of_delivered t fl (Or.inl h)

theorem mulOp_wide (c : Ctx) (hw : Wide c) (x y : Dec) (hx : x.form = .finite) (hy : y.form = .finite)
    (he : (mulOp c x y).err = .none) :
    (mulOp c x y).d.form = .finite ∧ (mulOp c x y).fl.subnormal = false := by
  rw [mulOp_finite c x y hx hy] at he ⊢
  simp only [finish] at he ⊢
  have hns := noSys_of_none _ _ he
  have h1 := noSys_left _ _ hns
  have h2 := noSys_right _ _ hns
  obtain ⟨e1, _⟩ := setExponent_wide c hw _ _ _ h1
  have hf : (setExponent c { form := .finite, neg := x.neg != y.neg, exp := 0, coeff := x.coeff * y.coeff } {}
      [x.exp, y.exp]).1.form = .finite := by rw [e1]; rfl
  obtain ⟨r1, r2⟩ := ctxRound_wide c hw _ hf h2
  refine ⟨r1, ?_⟩
  rw [QuoL.or_subnormal, r2, e1, seFinish_subnormal]
  rfl

theorem addOp_wide (c : Ctx) (hw : Wide c) (x y : Dec) (sub : Bool) (hx : x.form = .finite) (hy : y.form = .finite)
    (he : (addOp c x y sub).err = .none) :
    (addOp c x y sub).d.form = .finite ∧ (addOp c x y sub).fl.subnormal = false := by
  rcases add_core c x y sub hx hy with ⟨d, hd, e1, _⟩ | hsys
  · rw [e1] at he ⊢
    simp only [finish] at he ⊢
    exact ctxRound_wide c hw d hd (noSys_of_none _ _ he)
  · rw [hsys] at he; cases he

theorem quoSt_subnormal (c : Ctx) (neg : Bool) (q rem divisor : Nat) (adj : Int) :
    (QuoL.quoSt c neg q rem divisor adj).2.2.subnormal = false := by
  unfold QuoL.quoSt
  split_ifs <;> simp [cInexact, cRounded]

theorem quoOp_wide (c : Ctx) (hw : Wide c) (x y : Dec) (hx : x.form = .finite) (hy : y.form = .finite)
    (hx0 : x.coeff ≠ 0) (hy0 : y.coeff ≠ 0) (he : (quoOp c x y).err = .none) :
    (quoOp c x y).d.form = .finite ∧ (quoOp c x y).fl.subnormal = false := by
  have hp : c.prec ≠ 0 := by have := hw.prec1; omega
  rw [QuoL.quoOp_eq c x y hx hy hy0 hp hx0] at he ⊢
  simp only [finish] at he ⊢
  have hns := noSys_of_none _ _ he
  unfold QuoL.quoFin at hns ⊢
  simp only at hns ⊢
  have h2 := noSys_right _ _ hns
  obtain ⟨e1, _⟩ := setExponent_wide c hw _ _ _ h2
  rw [e1]
  refine ⟨rfl, ?_⟩
  rw [QuoL.or_subnormal, seFinish_subnormal, quoSt_subnormal]
  rfl

/-! ## the value of a delivered result: exact value times `(1+δ)` -/

/-- unit roundoff of nearest rounding at `p` digits -/
noncomputable def uQ (p : Nat) : ℚ := (10 : ℚ) ^ (1 - (p : ℤ)) / 2

theorem agrees_rel (c : Ctx) (hm : c.mode = .halfEven) (ex : Exact) (d : Dec) (fl : Cond)
    (hn : 0 < ex.num) (hd : 0 < ex.den) (hA : Agrees c ex d fl) (hf : d.form = .finite)
    (hsub : fl.subnormal = false) :
    |d.toRat - ex.toRat| ≤ uQ c.prec * |ex.toRat| := by
  have ha := mag_isAdj ex hn hd
  set a : ℤ := adjRat ex.num ex.den + ex.e10 with haDef
  obtain ⟨hval, _, hsubiff, _⟩ := Rat_agrees_finite c ex d fl hn hd ha hA hf
  have ten1 : (1 : ℚ) < 10 := by norm_num
  have hmag : (10 : ℚ) ^ c.emin ≤ ex.mag := by
    by_contra hcon
    have := hsubiff.2 (by rw [Exact.abs_toRat]; exact lt_of_not_ge hcon)
    rw [hsub] at this; cases this
  have hae : c.emin ≤ a := by
    have h1 : (10 : ℚ) ^ c.emin < (10 : ℚ) ^ (a + 1) := lt_of_le_of_lt hmag ha.2
    rw [zpow_lt_zpow_iff_right₀ ten1] at h1
    omega
  have hq : quantum c a = a - (c.prec : ℤ) + 1 := by
    unfold quantum; exact max_eq_left (by omega)
  have hqpos : (0 : ℚ) < (10 : ℚ) ^ (a - (c.prec : ℤ) + 1) := zpow_pos (by norm_num) _
  have hr := Rat_roundInt_half_nearest c.mode (Or.inr (Or.inr hm)) ex.neg (ex.mag / (10 : ℚ) ^ (a - (c.prec : ℤ) + 1))
  have hR : |roundedMag c ex.neg ex.mag a - ex.mag| ≤ (10 : ℚ) ^ (a - (c.prec : ℤ) + 1) / 2 := by
    unfold roundedMag
    rw [hq]
    have e : ((roundInt c.mode ex.neg (ex.mag / (10 : ℚ) ^ (a - (c.prec : ℤ) + 1)) : ℤ) : ℚ) * (10 : ℚ) ^ (a - (c.prec : ℤ) + 1) - ex.mag =
        (((roundInt c.mode ex.neg (ex.mag / (10 : ℚ) ^ (a - (c.prec : ℤ) + 1)) : ℤ) : ℚ) - ex.mag / (10 : ℚ) ^ (a - (c.prec : ℤ) + 1)) *
          (10 : ℚ) ^ (a - (c.prec : ℤ) + 1) := by
      field_simp
    rw [e, abs_mul, abs_of_pos hqpos]
    calc _ ≤ 1 / 2 * (10 : ℚ) ^ (a - (c.prec : ℤ) + 1) := mul_le_mul_of_nonneg_right hr hqpos.le
      _ = _ := by ring
  have hsplit : (10 : ℚ) ^ (a - (c.prec : ℤ) + 1) = (10 : ℚ) ^ a * (10 : ℚ) ^ (1 - (c.prec : ℤ)) := by
    rw [← zpow_add₀ (by norm_num : (10 : ℚ) ≠ 0)]; congr 1; ring
  have hle : (10 : ℚ) ^ (a - (c.prec : ℤ) + 1) / 2 ≤ uQ c.prec * ex.mag := by
    unfold uQ
    rw [hsplit]
    have hp : (0 : ℚ) < (10 : ℚ) ^ (1 - (c.prec : ℤ)) := zpow_pos (by norm_num) _
    have := mul_le_mul_of_nonneg_right ha.1 hp.le
    linarith
  rw [Exact.abs_toRat, hval, Exact.toRat_eq]
  have : (if ex.neg then (-1 : ℚ) else 1) * roundedMag c ex.neg ex.mag a - (if ex.neg then (-1 : ℚ) else 1) * ex.mag =
      (if ex.neg then (-1 : ℚ) else 1) * (roundedMag c ex.neg ex.mag a - ex.mag) := by ring
  rw [this, abs_mul]
  have : |(if ex.neg then (-1 : ℚ) else 1)| = 1 := by cases ex.neg <;> simp
  rw [this, one_mul]
  exact le_trans hR hle

/-- the real value of a finite decimal -/
noncomputable def rv (d : Dec) : ℝ := ((d.toRat : ℚ) : ℝ)

/-- unit roundoff as a real number -/
noncomputable def uR (p : Nat) : ℝ := (10 : ℝ) ^ (1 - (p : ℤ)) / 2

theorem uR_cast (p : Nat) : ((uQ p : ℚ) : ℝ) = uR p := by
  unfold uQ uR; push_cast; rfl

theorem uR_pos (p : Nat) : 0 < uR p := by unfold uR; positivity

theorem rv_eq_zero_iff (d : Dec) : rv d = 0 ↔ d.coeff = 0 := by
  unfold rv Dec.toRat
  have hp : (10 : ℚ) ^ d.exp ≠ 0 := (zpow_pos (by norm_num) _).ne'
  constructor
  · intro h
    have h' : (if d.neg then (-1 : ℚ) else 1) * (d.coeff : ℚ) * (10 : ℚ) ^ d.exp = 0 := by exact_mod_cast h
    rcases mul_eq_zero.1 h' with h1 | h1
    · rcases mul_eq_zero.1 h1 with h2 | h2
      · split_ifs at h2 <;> norm_num at h2
      · exact_mod_cast h2
    · exact absurd h1 hp
  · intro h; simp [h]

/-- from an absolute bound relative to a non-zero exact value to a factor `(1+δ)` -/
theorem exists_delta (v e u : ℝ) (he : e ≠ 0) (h : |v - e| ≤ u * |e|) : ∃ δ : ℝ, |δ| ≤ u ∧ v = e * (1 + δ) := by
  refine ⟨(v - e) / e, ?_, by field_simp; ring⟩
  rw [abs_div, div_le_iff₀ (abs_pos.2 he)]; exact h

theorem num_pos_of_toRat_ne (ex : Exact) (h : ex.toRat ≠ 0) : 0 < ex.num := by
  rcases Nat.eq_zero_or_pos ex.num with h0 | h0
  · exfalso; apply h; unfold Exact.toRat; simp [h0]
  · exact h0

/-- the generic statement: a delivered finite non-subnormal result of a half-even operation -/
theorem rel_of_agrees (c : Ctx) (hm : c.mode = .halfEven) (ex : Exact) (d : Dec) (fl : Cond) (e : ℝ)
    (hd : 0 < ex.den) (hA : Agrees c ex d fl) (hf : d.form = .finite) (hsub : fl.subnormal = false)
    (hev : ((ex.toRat : ℚ) : ℝ) = e) (he : e ≠ 0) :
    ∃ δ : ℝ, |δ| ≤ uR c.prec ∧ rv d = e * (1 + δ) := by
  have hne : ex.toRat ≠ 0 := by
    intro h0; apply he; rw [← hev, h0]; simp
  have h := agrees_rel c hm ex d fl (num_pos_of_toRat_ne ex hne) hd hA hf hsub
  apply exists_delta _ _ _ he
  have hc : (((|d.toRat - ex.toRat| : ℚ)) : ℝ) ≤ ((uQ c.prec * |ex.toRat| : ℚ) : ℝ) := by exact_mod_cast h
  rw [Rat.cast_abs, Rat.cast_sub, Rat.cast_mul, Rat.cast_abs, uR_cast, hev] at hc
  exact hc

theorem mul_rel (c : Ctx) (hw : Wide c) (hm : c.mode = .halfEven) (x y : Dec)
    (hx : x.form = .finite) (hy : y.form = .finite) (hx0 : rv x ≠ 0) (hy0 : rv y ≠ 0)
    (he : (mulOp c x y).err = .none) :
    (mulOp c x y).d.form = .finite ∧ ∃ δ : ℝ, |δ| ≤ uR c.prec ∧ rv (mulOp c x y).d = rv x * rv y * (1 + δ) := by
  obtain ⟨hf, hs⟩ := mulOp_wide c hw x y hx hy he
  refine ⟨hf, ?_⟩
  have hA := C01_mul c hw.wf x y hx hy (Or.inl he)
  apply rel_of_agrees c hm (exactMul x y) _ _ _ (by simp [exactMul]) hA hf hs
  · rw [Rat_exactMul_toRat]; unfold rv; push_cast; rfl
  · exact mul_ne_zero hx0 hy0

theorem quo_rel (c : Ctx) (hw : Wide c) (hm : c.mode = .halfEven) (x y : Dec)
    (hx : x.form = .finite) (hy : y.form = .finite) (hx0 : rv x ≠ 0) (hy0 : rv y ≠ 0)
    (he : (quoOp c x y).err = .none) :
    (quoOp c x y).d.form = .finite ∧ ∃ δ : ℝ, |δ| ≤ uR c.prec ∧ rv (quoOp c x y).d = rv x / rv y * (1 + δ) := by
  have hxc : x.coeff ≠ 0 := fun h => hx0 ((rv_eq_zero_iff x).2 h)
  have hyc : y.coeff ≠ 0 := fun h => hy0 ((rv_eq_zero_iff y).2 h)
  obtain ⟨hf, hs⟩ := quoOp_wide c hw x y hx hy hxc hyc he
  refine ⟨hf, ?_⟩
  have hA := C01_quo c hw.wf x y hx hy hyc (Or.inl he)
  apply rel_of_agrees c hm (exactQuo x y) _ _ _ (by simp [exactQuo]; omega) hA hf hs
  · rw [Rat_exactQuo_toRat]; unfold rv; push_cast; rfl
  · exact div_ne_zero hx0 hy0

theorem add_rel (c : Ctx) (hw : Wide c) (hm : c.mode = .halfEven) (x y : Dec)
    (hx : x.form = .finite) (hy : y.form = .finite) (h0 : rv x + rv y ≠ 0)
    (he : (addOp c x y false).err = .none) :
    (addOp c x y false).d.form = .finite ∧
      ∃ δ : ℝ, |δ| ≤ uR c.prec ∧ rv (addOp c x y false).d = (rv x + rv y) * (1 + δ) := by
  obtain ⟨hf, hs⟩ := addOp_wide c hw x y false hx hy he
  refine ⟨hf, ?_⟩
  have hA := C01_add c hw.wf x y false hx hy (Or.inl he)
  apply rel_of_agrees c hm (exactAdd c x y false) _ _ _ (by rw [(Rat_exactAdd_shape c x y false).1]; exact Nat.one_pos) hA hf hs
  · rw [Rat_exactAdd_toRat]; unfold rv; simp
  · exact h0

/-! ## division by one is exact (the last Horner round) -/

theorem quo_one_exact (c : Ctx) (hw : Wide c) (x : Dec) (hx : x.form = .finite) (hx0 : rv x ≠ 0)
    (hnd : ndigits x.coeff ≤ c.prec) (he : (quoOp c x { coeff := 1 }).err = .none) :
    (quoOp c x { coeff := 1 }).d.form = .finite ∧ rv (quoOp c x { coeff := 1 }).d = rv x := by
  have hxc : x.coeff ≠ 0 := fun h => hx0 ((rv_eq_zero_iff x).2 h)
  have hxpos : 0 < x.coeff := Nat.pos_of_ne_zero hxc
  have hone : ({ coeff := 1 } : Dec).form = .finite := rfl
  obtain ⟨hf, hsub⟩ := quoOp_wide c hw x { coeff := 1 } hx hone hxc (by decide) he
  refine ⟨hf, ?_⟩
  have hA := C01_quo c hw.wf x { coeff := 1 } hx hone (by decide) (Or.inl he)
  set ex := exactQuo x { coeff := 1 } with hex
  have hn : 0 < ex.num := hxpos
  have hd : 0 < ex.den := Nat.one_pos
  have ha := mag_isAdj ex hn hd
  have hadj : adjRat ex.num ex.den + ex.e10 = (ndigits x.coeff : ℤ) - 1 + x.exp := by
    show adjRat x.coeff 1 + (x.exp - 0) = _
    rw [adjRat_one x.coeff hxpos]; ring
  rw [hadj] at ha
  set a : ℤ := (ndigits x.coeff : ℤ) - 1 + x.exp with haDef
  obtain ⟨hval, _, hsubiff, _⟩ := Rat_agrees_finite c ex _ _ hn hd ha hA hf
  have ten1 : (1 : ℚ) < 10 := by norm_num
  have hmag : (10 : ℚ) ^ c.emin ≤ ex.mag := by
    by_contra hcon
    have := hsubiff.2 (by rw [Exact.abs_toRat]; exact lt_of_not_ge hcon)
    rw [hsub] at this; cases this
  have hae : c.emin ≤ a := by
    have h1 : (10 : ℚ) ^ c.emin < (10 : ℚ) ^ (a + 1) := lt_of_le_of_lt hmag ha.2
    rw [zpow_lt_zpow_iff_right₀ ten1] at h1
    omega
  have hq : quantum c a = a - (c.prec : ℤ) + 1 := by
    unfold quantum; exact max_eq_left (by omega)
  have hmagv : ex.mag = (x.coeff : ℚ) * (10 : ℚ) ^ x.exp := by
    show ((x.coeff : ℚ) / ((1 : ℕ) : ℚ)) * (10 : ℚ) ^ (x.exp - 0) = _
    simp
  have hk : ex.mag = (((x.coeff * 10 ^ (c.prec - ndigits x.coeff) : ℕ) : ℤ) : ℚ) * (10 : ℚ) ^ quantum c a := by
    rw [hq, hmagv]
    push_cast
    rw [mul_assoc, ← zpow_natCast (10 : ℚ) (c.prec - ndigits x.coeff), ← zpow_add₀ (by norm_num : (10 : ℚ) ≠ 0)]
    congr 2
    rw [Nat.cast_sub hnd]
    omega
  have hexact := (Rat_roundedMag_bracket c ex.neg ex.mag a).2.2.2.2 _ hk
  rw [hexact, ← Exact.toRat_eq, Rat_exactQuo_toRat] at hval
  unfold rv
  rw [hval]
  have : ({ coeff := 1 } : Dec).toRat = 1 := by simp [Dec.toRat]
  rw [this, div_one]

end Apd.ExpAcc
