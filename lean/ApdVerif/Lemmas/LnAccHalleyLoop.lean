import ApdVerif.Lemmas.LnAccSeriesLoop
import ApdVerif.Oracle.LnTapeOK
/-!
# Halley's iteration `lnHalley` of `Ln` on the model: the last round and the stopping rule
-/
namespace Apd.LnAcc
open Apd Apd.Oracle Apd.ExpAcc Apd.C12IL Cond

theorem lnHalley_succ (nc : Ctx) (prec : Int) (maxIter : Nat) (z : Dec) (fuel : Nat) (e : ED) (tmp1 : Dec)
    (l : LoopSt) (tape : Tape) :
    lnHalley nc prec maxIter z (fuel + 1) e tmp1 l tape =
      match hE e tmp1 tape with
      | none => none
      | some (e1, tmp2, tape) =>
        match loopDone nc prec maxIter l (hR6 z e1 tmp1 tmp2).2 with
        | .error er => some ((hR6 z e1 tmp1 tmp2).1, .inl er, tape)
        | .done => some ((hR6 z e1 tmp1 tmp2).1, .inr (hR6 z e1 tmp1 tmp2).2, tape)
        | .continue l' =>
          if (hR6 z e1 tmp1 tmp2).1.failed then some ((hR6 z e1 tmp1 tmp2).1, .inl (hR6 z e1 tmp1 tmp2).1.errOf, tape)
          else lnHalley nc prec maxIter z fuel (hR6 z e1 tmp1 tmp2).1 (hR6 z e1 tmp1 tmp2).2 l' tape := rfl

/-- the inner `Exp` call -/
theorem hE_ok (nc : Ctx) (hw : Wide nc) (e : ED) (hc : e.c = nc) (tmp1 : Dec) (cp : Nat) (n : Int) (rest : Tape)
    (e1 : ED) (tmp2 : Dec) (tape' : Tape) (hnf : e.failed = false) (hok : ExpTapeOK nc tmp1 cp n = true)
    (h : hE e tmp1 (.cp cp :: .n n :: rest) = some (e1, tmp2, tape')) (h1 : e1.failed = false) :
    e1.c = nc ∧ tmp1.form = .finite ∧ tmp2.form = .finite ∧
      LogNear (omegaE nc.prec) (Real.exp (rv tmp1)) (rv tmp2) := by
  unfold hE at h
  rw [hnf] at h
  simp only [Bool.false_eq_true, if_false] at h
  rw [hc] at h
  cases hx : expT nc tmp1 (.cp cp :: .n n :: rest) with
  | none => rw [hx] at h; cases h
  | some p =>
    obtain ⟨o, tp⟩ := p
    rw [hx] at h
    simp only [Option.some.injEq, Prod.mk.injEq] at h
    obtain ⟨rfl, rfl, rfl⟩ := h
    have hoe : o.err = .none := by
      unfold ED.failed at h1
      simp only [Bool.or_eq_false_iff, bne_eq_false_iff_eq] at h1
      exact h1.1
    obtain ⟨f, L⟩ := exp_wide_near nc hw tmp1 cp n rest tp o hok hx hoe
    have hxf : tmp1.form = .finite := by
      unfold ExpTapeOK at hok
      simp only [Bool.and_eq_true, beq_iff_eq] at hok
      exact hok.1.1.1.1.1.1
    exact ⟨rfl, hxf, f, L⟩

/-- the five decimal operations of one round -/
theorem halley_round (nc : Ctx) (hw : Wide nc) (hm : nc.mode = .halfEven) (z : Dec) (hzf : z.form = .finite)
    (hz0 : 0 < rv z) (e1 : ED) (hc : e1.c = nc) (tmp1 tmp2 : Dec) (h1f : tmp1.form = .finite)
    (h2f : tmp2.form = .finite) (h20 : 0 < rv tmp2) (hu : uR nc.prec < 1)
    (hfail : (hR6 z e1 tmp1 tmp2).1.failed = false) :
    (hR6 z e1 tmp1 tmp2).1.c = nc ∧ (hR6 z e1 tmp1 tmp2).2.form = .finite ∧
    ∃ δ1 δ2 δ3 δ4 δ5 : ℝ, |δ1| ≤ uR nc.prec ∧ |δ2| ≤ uR nc.prec ∧ |δ3| ≤ uR nc.prec ∧ |δ4| ≤ uR nc.prec ∧
      |δ5| ≤ uR nc.prec ∧
      rv (hR6 z e1 tmp1 tmp2).2 =
        (rv tmp1 - ((rv tmp2 - rv z) * (1 + δ1) + (rv tmp2 - rv z) * (1 + δ1)) * (1 + δ2) /
          ((rv tmp2 + rv z) * (1 + δ3)) * (1 + δ4)) * (1 + δ5) := by
  obtain ⟨f5, a6, v6, c6⟩ := step_ok _ _ _ hfail
  obtain ⟨f4, a5, v5, c5⟩ := step_ok _ _ _ f5
  obtain ⟨f3, a4, v4, c4⟩ := step_ok _ _ _ f4
  obtain ⟨f2, a3, v3, c3⟩ := step_ok _ _ _ f3
  obtain ⟨_, a2, v2, c2⟩ := step_ok _ _ _ f2
  have C2 : (hR2 z e1 tmp2).1.c = nc := by rw [← hc]; exact c2
  have C3 : (hR3 z e1 tmp2).1.c = nc := by rw [← C2]; exact c3
  have C4 : (hR4 z e1 tmp2).1.c = nc := by rw [← C3]; exact c4
  have C5 : (hR5 z e1 tmp2).1.c = nc := by rw [← C4]; exact c5
  have C6 : (hR6 z e1 tmp1 tmp2).1.c = nc := by rw [← C5]; exact c6
  simp only [hc] at a2 v2
  rw [C2] at a3 v3
  rw [C3] at a4 v4
  rw [C4] at a5 v5
  rw [C5] at a6 v6
  change (hR2 z e1 tmp2).2 = _ at v2
  change (hR3 z e1 tmp2).2 = _ at v3
  change (hR4 z e1 tmp2).2 = _ at v4
  change (hR5 z e1 tmp2).2 = _ at v5
  change (hR6 z e1 tmp1 tmp2).2 = _ at v6
  have m2 := add_rel_gen nc hw hm tmp2 z true h2f hzf a2
  rw [← v2] at m2
  obtain ⟨p2f, δ1, hδ1, p2v⟩ := m2
  have m3 := add_rel_gen nc hw hm (hR2 z e1 tmp2).2 (hR2 z e1 tmp2).2 false p2f p2f a3
  rw [← v3] at m3
  obtain ⟨p3f, δ2, hδ2, p3v⟩ := m3
  have m4 := add_rel_gen nc hw hm tmp2 z false h2f hzf a4
  rw [← v4] at m4
  obtain ⟨p4f, δ3, hδ3, p4v⟩ := m4
  have h3pos : 0 < 1 + δ3 := by have := abs_le.1 hδ3; linarith
  have p40 : rv (hR4 z e1 tmp2).2 ≠ 0 := by
    rw [p4v]; simp only [Bool.false_eq_true, if_false]
    exact (mul_pos (by linarith) h3pos).ne'
  have m5 := quo_rel_gen nc hw hm (hR3 z e1 tmp2).2 (hR4 z e1 tmp2).2 p3f p4f p40 a5
  rw [← v5] at m5
  obtain ⟨p5f, δ4, hδ4, p5v⟩ := m5
  have m6 := add_rel_gen nc hw hm tmp1 (hR5 z e1 tmp2).2 true h1f p5f a6
  rw [← v6] at m6
  obtain ⟨p6f, δ5, hδ5, p6v⟩ := m6
  refine ⟨C6, p6f, δ1, δ2, δ3, δ4, δ5, hδ1, hδ2, hδ3, hδ4, hδ5, ?_⟩
  rw [p6v, p5v, p4v, p3v, p2v]
  simp only [if_true, Bool.false_eq_true, if_false]
  ring

/-! ## `loop.done` -/

theorem sign_neg_abs (d : Dec) (hd : d.form = .finite) :
    (if d.sign < 0 then d.negD else d).toRat = |d.toRat| := by
  unfold Dec.sign
  rw [hd]
  simp only [beq_self_eq_true, Bool.true_and]
  have hp : (0 : ℚ) ≤ (d.coeff : ℚ) * (10 : ℚ) ^ d.exp := by
    have : (0 : ℚ) < (10 : ℚ) ^ d.exp := zpow_pos (by norm_num) _
    positivity
  by_cases h0 : d.coeff = 0
  · simp [h0, Dec.toRat]
  · have hb : (d.coeff == 0) = false := by simpa using h0
    rw [hb]
    simp only [Bool.false_eq_true, if_false]
    cases hn : d.neg
    · simp only [Bool.false_eq_true, if_false]
      have : ¬ ((1 : Int) < 0) := by decide
      rw [if_neg this]
      unfold Dec.toRat; rw [hn]
      simp only [Bool.false_eq_true, if_false, one_mul]
      rw [abs_of_nonneg hp]
    · simp only [if_true]
      have : ((-1 : Int) < 0) := by decide
      rw [if_pos this]
      unfold Dec.negD Dec.isZero Dec.toRat
      rw [hd, hb, hn]
      simp only [beq_self_eq_true, Bool.and_false, Bool.false_eq_true, if_false, Bool.not_true, if_true, one_mul]
      rw [mul_assoc, neg_one_mul, abs_neg, abs_of_nonneg hp]

theorem sign_neg_finite (d : Dec) (hd : d.form = .finite) : (if d.sign < 0 then d.negD else d).form = .finite := by
  split
  · unfold Dec.negD; split <;> exact hd
  · exact hd

/-- `loop.done` answered "done": the (rounded) difference of the last two iterates is at most one unit of the
`prec`-th digit of the new iterate -/
theorem loopDone_done (nc : Ctx) (hw : Wide nc) (hm : nc.mode = .halfEven) (prec : Int) (maxIter : Nat)
    (l : LoopSt) (z' : Dec) (hpf : l.prevZ.form = .finite) (hzf : z'.form = .finite) (hz0 : z'.coeff ≠ 0)
    (h : loopDone nc prec maxIter l z' = .done) :
    ∃ δ6 : ℝ, |δ6| ≤ uR nc.prec ∧
      |(rv l.prevZ - rv z') * (1 + δ6)| ≤ (10 : ℝ) ^ (1 - prec) * |rv z'| := by
  unfold loopDone at h
  simp only [] at h
  by_cases he : (addOp nc l.prevZ z' true).err = .none
  · have hb : ((addOp nc l.prevZ z' true).err != ErrKind.none) = false := by simp [he]
    rw [hb] at h
    simp only [Bool.false_eq_true, if_false] at h
    obtain ⟨df, δ6, hδ6, dv⟩ := add_rel_gen nc hw hm l.prevZ z' true hpf hzf he
    simp only [if_true] at dv
    refine ⟨δ6, hδ6, ?_⟩
    have hzpos : 0 ≤ (10 : ℝ) ^ (1 - prec) * |rv z'| := by positivity
    have e1 : rv l.prevZ - rv z' = rv l.prevZ + -rv z' := by ring
    rw [e1, ← dv]
    by_cases hs : ((addOp nc l.prevZ z' true).d.sign == 0) = true
    · -- delta = 0
      have : (addOp nc l.prevZ z' true).d.coeff = 0 := by
        unfold Dec.sign at hs
        rw [df] at hs
        simp only [beq_self_eq_true, Bool.true_and] at hs
        by_contra hne
        have hb2 : ((addOp nc l.prevZ z' true).d.coeff == 0) = false := by simpa using hne
        rw [hb2] at hs
        simp only [Bool.false_eq_true, if_false] at hs
        split at hs <;> simp at hs
      rw [(rv_eq_zero_iff _).2 this, abs_zero]; exact hzpos
    · rw [if_neg hs] at h
      by_cases hcmp : (if (addOp nc l.prevZ z' true).d.sign < 0 then (addOp nc l.prevZ z' true).d.negD
          else (addOp nc l.prevZ z' true).d).cmp
            { coeff := 1, exp := -prec + (ndigits z'.coeff : Int) + z'.exp } ≤ 0
      · have hle := cmp_le_toRat _ _ (sign_neg_finite _ df) rfl hcmp
        rw [sign_neg_abs _ df] at hle
        have hle' : |rv (addOp nc l.prevZ z' true).d| ≤ (10 : ℝ) ^ (-prec + (ndigits z'.coeff : ℤ) + z'.exp) := by
          unfold rv
          have : ((|(addOp nc l.prevZ z' true).d.toRat| : ℚ) : ℝ) ≤
              ((({ coeff := 1, exp := -prec + (ndigits z'.coeff : Int) + z'.exp } : Dec).toRat : ℚ) : ℝ) := by
            exact_mod_cast hle
          rw [Rat.cast_abs] at this
          refine le_trans this (le_of_eq ?_)
          unfold Dec.toRat; push_cast; simp
        refine le_trans hle' ?_
        -- 10^(-prec + nd + exp) ≤ 10^(1-prec) |z'|
        have hzabs : (10 : ℝ) ^ ((ndigits z'.coeff : ℤ) - 1 + z'.exp) ≤ |rv z'| := by
          rw [abs_rv]
          have hc : (10 : ℝ) ^ (ndigits z'.coeff - 1) ≤ (z'.coeff : ℝ) := by
            exact_mod_cast (ndigits_spec z'.coeff (Nat.pos_of_ne_zero hz0)).1
          have hp : (0 : ℝ) < (10 : ℝ) ^ z'.exp := zpow_pos (by norm_num) _
          have hnd := ndigits_pos z'.coeff
          have e : (10 : ℝ) ^ ((ndigits z'.coeff : ℤ) - 1 + z'.exp) = (10 : ℝ) ^ (ndigits z'.coeff - 1) * (10 : ℝ) ^ z'.exp := by
            rw [zpow_add₀ (by norm_num : (10 : ℝ) ≠ 0), ← zpow_natCast]
            congr 2
            rw [Nat.cast_sub hnd]; simp
          rw [e]
          exact mul_le_mul_of_nonneg_right hc hp.le
        have e2 : (10 : ℝ) ^ (-prec + (ndigits z'.coeff : ℤ) + z'.exp) =
            (10 : ℝ) ^ (1 - prec) * (10 : ℝ) ^ ((ndigits z'.coeff : ℤ) - 1 + z'.exp) := by
          rw [← zpow_add₀ (by norm_num : (10 : ℝ) ≠ 0)]; congr 1; ring
        rw [e2]
        exact mul_le_mul_of_nonneg_left hzabs (by positivity)
      · rw [if_neg hcmp] at h
        split at h <;> cases h
  · have hb : ((addOp nc l.prevZ z' true).err != ErrKind.none) = true := by simpa using he
    rw [hb] at h
    simp at h

theorem loopDone_continue (nc : Ctx) (prec : Int) (maxIter : Nat) (l l' : LoopSt) (z' : Dec)
    (h : loopDone nc prec maxIter l z' = .continue l') : l' = { i := l.i + 1, prevZ := z' } := by
  unfold loopDone at h
  simp only [] at h
  split_ifs at h <;> first | (cases h; rfl) | cases h

theorem hR6_e1 (z : Dec) (e1 : ED) (tmp1 tmp2 : Dec) (h : (hR6 z e1 tmp1 tmp2).1.failed = false) :
    e1.failed = false := by
  obtain ⟨f5, _⟩ := step_ok _ _ _ h
  obtain ⟨f4, _⟩ := step_ok _ _ _ f5
  obtain ⟨f3, _⟩ := step_ok _ _ _ f4
  obtain ⟨f2, _⟩ := step_ok _ _ _ f3
  obtain ⟨f1, _⟩ := step_ok _ _ _ f2
  exact f1

/-- the bound on the last Halley iterate -/
noncomputable def halB (p : Nat) (a : ℝ) : ℝ :=
  omegaE p + uR p * (100503 / 100000 * |a| + 266 * uR p + 23300 * uR p ^ 2)

/-- L3 on the model: whatever the starting estimate, an adequate run of Halley's iteration that ends with
`loop.done` returns an iterate within `halB` of `ln z` -/
theorem halley_loop (nc : Ctx) (hw : Wide nc) (hm : nc.mode = .halfEven) (hp : 3 ≤ nc.prec)
    (prec : Int) (hprec : prec = (nc.prec : Int) - 1) (maxIter : Nat) (z : Dec) (hzf : z.form = .finite)
    (hz0 : 0 < rv z) :
    ∀ (fuel : Nat) (e : ED) (tmp1 : Dec) (l : LoopSt) (tape : Tape), e.c = nc → (1 ≤ l.i → l.prevZ = tmp1) →
      lnHalleyOK nc prec maxIter z fuel e tmp1 l tape = true →
      ∀ (e' : ED) (t : Dec) (tape' : Tape),
        lnHalley nc prec maxIter z fuel e tmp1 l tape = some (e', .inr t, tape') → e'.failed = false →
        e'.c = nc ∧ t.form = .finite ∧ |rv t| ≤ 3 ∧ |rv t - Real.log (rv z)| ≤ halB nc.prec (rv t) := by
  have hu1 : uR nc.prec ≤ 1 / 200 := uR_small _ hp
  have hu0 : 0 < uR nc.prec := uR_pos _
  have hult : uR nc.prec < 1 := by linarith
  intro fuel
  induction fuel with
  | zero => intro e tmp1 l tape _ _ hok; simp [lnHalleyOK] at hok
  | succ fuel ih =>
    intro e tmp1 l tape hc hinv hok e' t tape' h hnf'
    unfold lnHalleyOK at hok
    simp only [Bool.and_eq_true, Bool.not_eq_true'] at hok
    obtain ⟨henf, hok⟩ := hok
    match tape, hok with
    | .cp cp :: .n n :: rest, hok =>
      simp only [Bool.and_eq_true] at hok
      obtain ⟨hexp, hok⟩ := hok
      rw [hc] at hexp
      rw [lnHalley_succ] at h
      cases hEv : hE e tmp1 (.cp cp :: .n n :: rest) with
      | none => rw [hEv] at h; cases h
      | some q =>
        obtain ⟨e1, tmp2, tp⟩ := q
        rw [hEv] at h hok
        simp only [] at h hok
        cases hld : loopDone nc prec maxIter l (hR6 z e1 tmp1 tmp2).2 with
        | error er => rw [hld] at h; simp at h
        | done =>
          rw [hld] at h hok
          simp only [Option.some.injEq, Prod.mk.injEq, Sum.inr.injEq, Bool.and_eq_true, decide_eq_true_eq,
            bne_iff_ne, ne_eq] at h hok
          obtain ⟨rfl, rfl, rfl⟩ := h
          obtain ⟨⟨hli, hcoeff⟩, h3⟩ := hok
          have he1 := hR6_e1 z e1 tmp1 tmp2 hnf'
          obtain ⟨c1, t1f, t2f, L⟩ := hE_ok nc hw e hc tmp1 cp n rest e1 tmp2 tp henf hexp hEv he1
          have t2pos : 0 < rv tmp2 := L.pos (Real.exp_pos _)
          obtain ⟨c6, r6f, δ1, δ2, δ3, δ4, δ5, h1, h2, h3', h4, h5, hv⟩ :=
            halley_round nc hw hm z hzf hz0 e1 c1 tmp1 tmp2 t1f t2f t2pos hult hnf'
          have hpz : l.prevZ = tmp1 := hinv hli
          obtain ⟨δ6, h6, hst⟩ := loopDone_done nc hw hm prec maxIter l _ (by rw [hpz]; exact t1f) r6f hcoeff hld
          rw [hpz] at hst
          have hpow : (10 : ℝ) ^ (1 - prec) = 20 * uR nc.prec := by
            rw [hprec, uR_eq]
            have : (1 : ℤ) - ((nc.prec : ℤ) - 1) = 2 - (nc.prec : ℤ) := by ring
            rw [this, zpow_sub₀ (by norm_num : (10 : ℝ) ≠ 0), zpow_natCast]
            norm_num; ring
          rw [hpow] at hst
          have hb3 : |rv (hR6 z e1 tmp1 tmp2).2| ≤ 3 := by
            have hle := cmp_le_toRat _ _ (by exact r6f) rfl h3
            rw [absD_toRat] at hle
            unfold rv
            have : ((|(hR6 z e1 tmp1 tmp2).2.toRat| : ℚ) : ℝ) ≤ ((({ coeff := 3 } : Dec).toRat : ℚ) : ℝ) := by
              exact_mod_cast hle
            rw [Rat.cast_abs] at this
            refine le_trans this (le_of_eq ?_)
            unfold Dec.toRat; simp
          refine ⟨c6, r6f, hb3, ?_⟩
          unfold halB
          exact halley_stop (rv z) (rv tmp1) (rv tmp2) (omegaE nc.prec) δ1 δ2 δ3 δ4 δ5 δ6 (uR nc.prec) hz0 hu0.le hu1
            L h1 h2 h3' h4 h5 h6 _ hv hst hb3
        | «continue» l' =>
          rw [hld] at h hok
          simp only [] at h hok
          by_cases hf6 : (hR6 z e1 tmp1 tmp2).1.failed = true
          · rw [if_pos hf6] at h; simp at h
          · rw [if_neg hf6] at h hok
            have hf6' : (hR6 z e1 tmp1 tmp2).1.failed = false := by simpa using hf6
            have he1 := hR6_e1 z e1 tmp1 tmp2 hf6'
            obtain ⟨c1, t1f, t2f, L⟩ := hE_ok nc hw e hc tmp1 cp n rest e1 tmp2 tp henf hexp hEv he1
            have t2pos : 0 < rv tmp2 := L.pos (Real.exp_pos _)
            obtain ⟨c6, _⟩ := halley_round nc hw hm z hzf hz0 e1 c1 tmp1 tmp2 t1f t2f t2pos hult hf6'
            have hl' := loopDone_continue nc prec maxIter l l' _ hld
            exact ih _ _ l' tp c6 (by intro _; rw [hl']) hok e' t tape' h hnf'
    | [], hok => simp at hok
    | .cp _ :: [], hok => simp at hok
    | .cp _ :: .cp _ :: _, hok => simp at hok
    | .cp _ :: .est _ :: _, hok => simp at hok
    | .n _ :: _, hok => simp at hok
    | .est _ :: _, hok => simp at hok

end Apd.LnAcc
