import ApdVerif.Props.C05
import ApdVerif.Imp.TransOps
/-!
# Run lemmas for the store-level programs of `Imp/TransOps.lean`
-/
set_option linter.unusedSimpArgs false
namespace Apd.Imp
open Apd Apd.Cond Prog

/-! ## Go locals as virtual cells -/

theorem upd_set_comm (h : Heap) {c L : Cell} (hne : c ≠ L) (g : Dec → Dec) (v : Dec) :
    (upd h c g).set L v = upd (h.set L v) c g := by
  funext c'
  unfold upd Heap.set
  by_cases h1 : c' = L
  · have : c' ≠ c := fun e => hne (e ▸ h1)
    simp [h1, this]
    intro e; exact absurd e.symm hne
  · by_cases h2 : c' = c
    · subst h2; simp [h1]
    · simp [h1, h2]

theorem upd_self_set (h : Heap) (L : Cell) (g : Dec → Dec) (v : Dec) :
    upd (h.set L v) L g = h.set L (g v) := by
  rw [upd_eq_set]; simp

theorem upd_other (h : Heap) {c L : Cell} (hne : c ≠ L) (g : Dec → Dec) : (upd h c g) L = h L := by
  unfold upd; simp [Ne.symm hne]

/-- running a program with the cell `L` virtualised: the same as running it on the heap in which `L` holds the
local's value, and restoring `L` afterwards -/
theorem run_localize (L : Cell) (p : Prog α) (v : Dec) (h : Heap) :
    run (localize L p v) h =
      (((run p (h.set L v)).1, (run p (h.set L v)).2 L), ((run p (h.set L v)).2).set L (h L)) := by
  induction p generalizing v h with
  | ret a => simp [localize, run]
  | getForm c k ih =>
    simp only [localize]
    by_cases hc : c = L
    · subst hc; simp only [if_true, run, Heap.set_same]; exact ih _ _ _
    · simp only [hc, if_false, run, Heap.set_other _ _ hc]; exact ih _ _ _
  | getNeg c k ih =>
    simp only [localize]
    by_cases hc : c = L
    · subst hc; simp only [if_true, run, Heap.set_same]; exact ih _ _ _
    · simp only [hc, if_false, run, Heap.set_other _ _ hc]; exact ih _ _ _
  | getExp c k ih =>
    simp only [localize]
    by_cases hc : c = L
    · subst hc; simp only [if_true, run, Heap.set_same]; exact ih _ _ _
    · simp only [hc, if_false, run, Heap.set_other _ _ hc]; exact ih _ _ _
  | getCoeff c k ih =>
    simp only [localize]
    by_cases hc : c = L
    · subst hc; simp only [if_true, run, Heap.set_same]; exact ih _ _ _
    · simp only [hc, if_false, run, Heap.set_other _ _ hc]; exact ih _ _ _
  | setForm c f p ih =>
    simp only [localize]
    by_cases hc : c = L
    · subst hc; simp only [if_true, run, upd_self_set]; exact ih _ _
    · simp only [hc, if_false, run]; rw [ih, upd_set_comm h hc, upd_other h hc]
  | setNeg c f p ih =>
    simp only [localize]
    by_cases hc : c = L
    · subst hc; simp only [if_true, run, upd_self_set]; exact ih _ _
    · simp only [hc, if_false, run]; rw [ih, upd_set_comm h hc, upd_other h hc]
  | setExp c f p ih =>
    simp only [localize]
    by_cases hc : c = L
    · subst hc; simp only [if_true, run, upd_self_set]; exact ih _ _
    · simp only [hc, if_false, run]; rw [ih, upd_set_comm h hc, upd_other h hc]
  | setCoeff c f p ih =>
    simp only [localize]
    by_cases hc : c = L
    · subst hc; simp only [if_true, run, upd_self_set]; exact ih _ _
    · simp only [hc, if_false, run]; rw [ih, upd_set_comm h hc, upd_other h hc]

@[simp] theorem run_snapP (x : Src) (h : Heap) : run (snapP x) h = (x.val h, h) := by
  unfold snapP
  simp only [run_bind, run_rdForm, run_rdNeg, run_rdExp, run_rdCoeff, run_pure]

@[simp] theorem run_retErr (fl : Cond) (e : ErrKind) (h : Heap) : run (retErr fl e) h = ((fl, e, 0), h) := rfl

end Apd.Imp

namespace Apd.Imp
open Apd Apd.Cond Prog

/-! ## `rootSpecials` -/

/-- `Context.rootSpecials` for every `d`, `x`: the special cases write the value-level result exactly -/
theorem run_rootSpecialsP (c : Ctx) (d : Cell) (x : Src) (factor : Int) (h : Heap) :
    (rootSpecials c (x.val h) factor = none ∧ run (rootSpecialsP c d x factor) h = (none, h)) ∨
    ∃ o, rootSpecials c (x.val h) factor = some o ∧
      run (rootSpecialsP c d x factor) h = (some (o.fl, o.err), h.set d o.d) ∧ o.aux = 0 := by
  unfold rootSpecialsP
  simp only [run_bind, run_shouldSetAsNaNP, Option.map_none, run_ite, run_pure, run_rdForm, run_rdNeg, run_signP]
  by_cases hn : shouldSetAsNaN (x.val h) none = true
  · right
    refine ⟨setAsNaN c (x.val h) none, ?_, ?_, by simp⟩
    · unfold rootSpecials; rw [if_pos hn]
    · simp only [hn, if_true, run_setAsNaNP c d x none h hn, Option.map_none]
  · bsimp [hn]
    cases hi : ((x.val h).form == Form.infinite) <;> bsimp [hi]
    · cases hs1 : ((x.val h).sign == -1) <;> bsimp [hs1]
      · cases hs0 : ((x.val h).sign == 0) <;> bsimp [hs0]
        · left; unfold rootSpecials; bsimp [hn, hi, hs1, hs0]; exact ⟨trivial, trivial⟩
        · right
          refine ⟨finish c (ctxRound c { (x.val h) with exp := Int.tdiv (x.val h).exp factor }), ?_, ?_, rfl⟩
          · unfold rootSpecials; bsimp [hn, hi, hs1, hs0]
          · simp only [run_bind, run_setDec, run_rdExp, run_wrExp, run_roundP, run_pure, Heap.set_same, Heap.set_set,
              Src.val_cell, finish, ctxRound]
      · cases hf : (factor % 2 == 0) <;> bsimp [hf]
        · left; unfold rootSpecials; bsimp [hn, hi, hs1, hf]; exact ⟨trivial, trivial⟩
        · right
          refine ⟨invalidNaN c, ?_, ?_, rfl⟩
          · unfold rootSpecials; bsimp [hn, hi, hs1, hf]
          · simp only [run_bind, run_setDec, run_pure, Src.val_const]; rfl
    · cases hnf : ((x.val h).neg && factor % 2 == 0) <;> bsimp [hnf]
      · right
        refine ⟨{ d := x.val h }, ?_, ?_, rfl⟩
        · unfold rootSpecials; bsimp [hn, hi, hnf]
        · simp only [run_bind, run_setDec, run_pure]
      · right
        refine ⟨invalidNaN c, ?_, ?_, rfl⟩
        · unfold rootSpecials; bsimp [hn, hi, hnf]
        · simp only [run_bind, run_setDec, run_pure, Src.val_const]; rfl

end Apd.Imp

namespace Apd
/-- The value-level models describe a call on a FRESH destination.  When a composite function gives up because its
internal `ErrDecimal` holds an error (`return 0, err`), the model's outcome is `failOut err`: flags 0 and the
zero-valued destination.  If that error is a trapped condition the outcome counts as delivered, but the model's
destination is only the placeholder: what the cell holds is whatever it held when the function gave up. -/
def Out.Aborted (m : Out) : Prop := m.fl = {} ∧ m.err = .trap

instance (m : Out) : Decidable m.Aborted := by unfold Out.Aborted; exact inferInstance

theorem goError_empty (t : Cond) : goError t {} = .none := by
  unfold goError
  simp [HAnd.hAnd, AndOp.and, Cond.and, Cond.any]

/-- an outcome whose error class is `goError` of its flags is never the placeholder -/
theorem Out.not_aborted_of_goError {m : Out} {t : Cond} (hm : m.err = goError t m.fl) : ¬ m.Aborted := by
  intro ⟨h1, h2⟩
  rw [h1, goError_empty] at hm
  rw [hm] at h2; cases h2

theorem failOut_aborted_iff (e : ErrKind) : (failOut e).Aborted ↔ e = .trap := by
  unfold Out.Aborted failOut; simp
end Apd

namespace Apd.Imp
open Apd Apd.Cond Prog

/-! ## the contract of a composite function -/

/-- as `OpRun`, except that the destination is compared only when the model's outcome is not the placeholder of
an aborted call -/
def TRes (r : Res × Heap) (d : Cell) (h : Heap) (m : Out) : Prop :=
  ∃ fl aux v, r = ((fl, m.err, aux), h.set d v) ∧
    (Delivered m.err → fl = m.fl ∧ aux = m.aux ∧ (¬ m.Aborted → v = m.d))

def TOpRun (p : Prog Res) (d : Cell) (h : Heap) (m : Out) : Prop := TRes (run p h) d h m

/-- a result pair that is syntactically the model's outcome -/
theorem TRes.exact (d : Cell) (h : Heap) (m : Out) : TRes ((m.fl, m.err, m.aux), h.set d m.d) d h m :=
  ⟨_, _, _, rfl, fun _ => ⟨rfl, rfl, fun _ => rfl⟩⟩

theorem TRes.ofOp {r : Res × Heap} {d : Cell} {h : Heap} {m : Out}
    (hr : ∃ fl aux v, r = ((fl, m.err, aux), h.set d v) ∧ (Delivered m.err → fl = m.fl ∧ aux = m.aux ∧ v = m.d)) :
    TRes r d h m := by
  obtain ⟨fl, aux, v, hv, hd⟩ := hr
  exact ⟨fl, aux, v, hv, fun hdel => ⟨(hd hdel).1, (hd hdel).2.1, fun _ => (hd hdel).2.2⟩⟩

theorem OpRun.toT {p : Prog Res} {d : Cell} {h : Heap} {m : Out} (hr : OpRun p d h m) : TOpRun p d h m := by
  obtain ⟨fl, aux, v, hv, hd⟩ := hr
  exact ⟨fl, aux, v, hv, fun hdel => ⟨(hd hdel).1, (hd hdel).2.1, fun _ => (hd hdel).2.2⟩⟩

/-- the statement of C05 for one run of a composite function -/
def TOpSpec (p : Prog Res) (d : Cell) (h : Heap) (m : Out) : Prop :=
  (run p h).1.2.1 = m.err ∧
  (Delivered (run p h).1.2.1 →
    (run p h).1.1 = m.fl ∧ (¬ m.Aborted → (run p h).2 d = m.d) ∧ (run p h).1.2.2 = m.aux) ∧
  ∀ cell, cell ≠ d → (run p h).2 cell = h cell

theorem TOpRun.spec {p : Prog Res} {d : Cell} {h : Heap} {m : Out} (hr : TOpRun p d h m) : TOpSpec p d h m := by
  obtain ⟨fl, aux, v, hv, hd⟩ := hr
  unfold TOpSpec
  rw [hv]
  refine ⟨rfl, fun hdel => ?_, fun cell hc => Heap.set_other _ _ hc⟩
  obtain ⟨h1, h2, h3⟩ := hd hdel
  exact ⟨h1, fun hna => by simp [h3 hna], h2⟩

/-- `ErrDecimal.Err() != nil`: the error it returns is not nil -/
theorem ED.errOf_ne_none {e : ED} (hf : e.failed = true) : e.errOf ≠ .none := by
  unfold ED.failed at hf
  unfold ED.errOf
  by_cases h1 : (e.err != ErrKind.none) = true
  · simp only [h1, if_true]; simpa using h1
  · simp only [h1, if_false, Bool.false_eq_true]
    simp only [h1, Bool.false_or] at hf
    simpa using hf

/-- an aborted call that has not touched the destination -/
theorem TRes.abort (d : Cell) (h : Heap) {e : ErrKind} (he : e ≠ .none) :
    TRes (({}, e, 0), h) d h (failOut e) := by
  refine ⟨{}, 0, h d, by simp [failOut], fun hdel => ⟨rfl, rfl, fun hna => ?_⟩⟩
  have ht : e = .trap := by
    rcases hdel with h1 | h1
    · exact absurd h1 he
    · exact h1
  exact absurd ((failOut_aborted_iff e).2 ht) hna

end Apd.Imp

namespace Apd.Imp
open Apd Apd.Cond Prog

/-! ## Sqrt -/

/-- everything `Context.Sqrt` does after `ed.Err()`, at the value level (the text of `sqrtOp`) -/
def sqrtTailV (c : Ctx) (x approx : Dec) (e : Int) : Out :=
  let d : Dec := { approx with exp := approx.exp + Int.tdiv e 2 }
  let nc2 : Ctx := { c with prec := c.prec, mode := .halfEven }
  let ncw : Ctx := { nc2 with emax := MaxExponent }
  let r0 := ctxRound ncw d
  let r1 := if r0.2.inexact && r0.1.form == .finite then
             let st := sqrtSettle ncw r0.1 d x
             (st.1, r0.2 ||| st.2)
           else r0
  let r2 := ctxRound nc2 r1.1
  let r : Dec × Cond := (r2.1, r1.2 ||| r2.2)
  let res :=
    if !r.2.inexact && r.1.form == .finite then
      let sq : Dec := { coeff := r.1.coeff * r.1.coeff, exp := 2 * r.1.exp }
      if sq.cmp x != 0 then r.2 ||| cInexact ||| cRounded else r.2
    else r.2
  finish nc2 (r.1, res)

/-- `sqrtOp` is `sqrtNewton` on the fields of `x` followed by `sqrtTailV` -/
theorem sqrtOp_eq (c : Ctx) (x : Dec) (hs : rootSpecials c x 2 = none) :
    sqrtOp c x =
      if (sqrtNewton c (ndigits x.coeff) x (ndigits x.coeff) x.exp).1.failed then
        failOut (sqrtNewton c (ndigits x.coeff) x (ndigits x.coeff) x.exp).1.errOf
      else sqrtTailV c x (sqrtNewton c (ndigits x.coeff) x (ndigits x.coeff) x.exp).2.1
             (sqrtNewton c (ndigits x.coeff) x (ndigits x.coeff) x.exp).2.2.1 := by
  unfold sqrtOp
  rw [hs]
  rfl

/-- `f.Exponent += int32(e)` restores `x` -/
theorem sqrtNewton_fx (c : Ctx) (x : Dec) :
    ({ (sqrtNewton c (ndigits x.coeff) x (ndigits x.coeff) x.exp).2.2.2 with
        exp := (sqrtNewton c (ndigits x.coeff) x (ndigits x.coeff) x.exp).2.2.2.exp +
               (sqrtNewton c (ndigits x.coeff) x (ndigits x.coeff) x.exp).2.2.1 } : Dec) = x := by
  unfold sqrtNewton
  simp only []
  cases hev : (Int.tmod ((ndigits x.coeff : Int) + x.exp) 2 == 0) <;> bsimp [hev]
  · cases x; simp; omega
  · cases x; simp; omega

/-- `sqrtSettle` in terms of its local part -/
theorem sqrtSettle_eq (nc : Ctx) (d approx x : Dec) :
    sqrtSettle nc d approx x =
      match sqrtSettleT nc approx x with
      | none => (d, {})
      | some t => if t.cmp d == 0 then (d, {}) else ctxRound nc t := by
  unfold sqrtSettle sqrtSettleT
  simp only []
  split
  · rfl
  · rfl

theorem run_sqrtSettleP (nc : Ctx) (d : Cell) (approx x : Dec) (h : Heap) :
    run (sqrtSettleP nc d approx x) h =
      ((sqrtSettle nc (h d) approx x).2, h.set d (sqrtSettle nc (h d) approx x).1) := by
  rw [sqrtSettle_eq]
  unfold sqrtSettleP
  cases sqrtSettleT nc approx x with
  | none => simp
  | some t =>
    simp only [run_bind, run_cmpP, run_ite, run_pure, run_roundP, Src.val_const, Src.val_cell, ctxRound]
    split_ifs <;> simp

end Apd.Imp

namespace Apd.Imp
open Apd Apd.Cond Prog

@[simp] theorem run_andFiniteP (b : Bool) (d : Cell) (h : Heap) :
    run (andFiniteP b d) h = (b && (h d).form == .finite, h) := by
  unfold andFiniteP
  cases b <;> simp

theorem run_sqrtSettleIfP (ncw : Ctx) (d : Cell) (approx fx : Dec) (res : Cond) (h : Heap) :
    run (sqrtSettleIfP ncw d approx fx res) h =
      ((if res.inexact && (h d).form == .finite then
          ((sqrtSettle ncw (h d) approx fx).1, res ||| (sqrtSettle ncw (h d) approx fx).2)
        else (h d, res)).2,
       h.set d (if res.inexact && (h d).form == .finite then
          ((sqrtSettle ncw (h d) approx fx).1, res ||| (sqrtSettle ncw (h d) approx fx).2)
        else (h d, res)).1) := by
  unfold sqrtSettleIfP
  simp only [run_bind, run_andFiniteP, run_ite, run_sqrtSettleP, run_pure]
  cases hb : (res.inexact && (h d).form == Form.finite) <;> bsimp [hb]
  simp

theorem run_sqrtExactP (nc2 : Ctx) (d : Cell) (fx : Dec) (res : Cond) (h : Heap) :
    run (sqrtExactP nc2 d fx res) h =
      (((if !res.inexact && (h d).form == .finite then
          (if ({ coeff := (h d).coeff * (h d).coeff, exp := 2 * (h d).exp } : Dec).cmp fx != 0 then
            res ||| cInexact ||| cRounded else res)
         else res),
        goError nc2.traps (if !res.inexact && (h d).form == .finite then
          (if ({ coeff := (h d).coeff * (h d).coeff, exp := 2 * (h d).exp } : Dec).cmp fx != 0 then
            res ||| cInexact ||| cRounded else res)
         else res), 0), h) := by
  unfold sqrtExactP
  simp only [run_bind, run_andFiniteP, run_ite, run_rdCoeff, run_rdExp, run_retFlags, Src.val_cell]
  cases hb : (!res.inexact && (h d).form == Form.finite) <;> bsimp [hb]
  split_ifs <;> rfl

theorem run_sqrtFinishP (c : Ctx) (d : Cell) (approx : Dec) (e : Int) (f x : Dec) (h : Heap)
    (hfx : ({ f with exp := f.exp + e } : Dec) = x) :
    run (sqrtFinishP c d approx e f) h =
      (((sqrtTailV c x approx e).fl, (sqrtTailV c x approx e).err, 0), h.set d (sqrtTailV c x approx e).d) := by
  unfold sqrtFinishP sqrtTailV
  simp only [run_bind, run_setDec, run_rdExp, run_wrExp, run_snapP, run_roundP, run_sqrtSettleIfP, run_sqrtExactP,
    Heap.set_same, Heap.set_set, Src.val_cell, Src.val_const, hfx, ctxRound, finish]
  rfl

theorem sqrtP_run (c : Ctx) (d : Cell) (x : Src) (h : Heap) :
    TOpRun (sqrtP c d x) d h (sqrtOp c (x.val h)) := by
  unfold TOpRun sqrtP
  rcases run_rootSpecialsP c d x 2 h with ⟨hs, hr⟩ | ⟨o, hs, hr, ha⟩
  · rw [sqrtOp_eq c _ hs]
    have hfx := sqrtNewton_fx c (x.val h)
    simp only [run_bind, hr, run_numDigitsP, run_snapP, run_rdExp, run_ite]
    generalize sqrtNewton c (ndigits (x.val h).coeff) (x.val h) (ndigits (x.val h).coeff) (x.val h).exp = it at hfx ⊢
    by_cases hf : it.1.failed = true
    · simp only [hf, if_true, run_retErr]
      exact TRes.abort d h (ED.errOf_ne_none hf)
    · simp only [hf, if_false, Bool.false_eq_true, run_sqrtFinishP c d _ _ _ _ h hfx]
      exact TRes.exact d h _
  · have hm : sqrtOp c (x.val h) = o := by unfold sqrtOp; simp only [hs]
    simp only [run_bind, hr, run_pure, hm]
    exact ⟨_, _, _, rfl, fun _ => ⟨rfl, ha.symm, fun _ => rfl⟩⟩

end Apd.Imp

namespace Apd.Imp
open Apd Apd.Cond Prog

/-! ## `ErrDecimal` calls that touch the heap -/

theorem freshCell_ne1 (a b c : Nat) : freshCell a b c ≠ a := by
  show (a + b + c + 1 : Nat) ≠ a; omega
theorem freshCell_ne2 (a b c : Nat) : freshCell a b c ≠ b := by
  show (a + b + c + 1 : Nat) ≠ b; omega
theorem freshCell_ne3 (a b c : Nat) : freshCell a b c ≠ c := by
  show (a + b + c + 1 : Nat) ≠ c; omega

/-- a `Context` method with contract `OpRun` whose destination is a virtualised local: the heap is unchanged and
the local receives the result -/
theorem OpRun.localize {p : Prog Res} {L : Cell} {h : Heap} {v : Dec} {m : Out} (hr : OpRun p L (h.set L v) m) :
    ∃ fl aux w, run (Imp.localize L p v) h = (((fl, m.err, aux), w), h) ∧
      (Delivered m.err → fl = m.fl ∧ aux = m.aux ∧ w = m.d) := by
  obtain ⟨fl, aux, w, hv, hd⟩ := hr
  refine ⟨fl, aux, w, ?_, hd⟩
  rw [run_localize, hv]
  simp

/-- the store-level `ErrDecimal` and local (`e'`, `z'`) against the value-level ones (`em`, `zm`): equal, or both hold
the same undelivered error (after which every call is skipped and only the error is ever looked at) -/
def EDSim (e' : ED) (z' : Dec) (em : ED) (zm : Dec) : Prop :=
  (e' = em ∧ z' = zm) ∨ (¬ Delivered em.err ∧ e'.err = em.err ∧ e'.c = em.c)

theorem EDSim.refl (e : ED) (z : Dec) : EDSim e z e z := Or.inl ⟨rfl, rfl⟩

theorem ED.failed_of_not_delivered {e : ED} (h : ¬ Delivered e.err) : e.failed = true := by
  unfold ED.failed
  have : e.err ≠ .none := fun e0 => h (Or.inl e0)
  simp [this]

theorem ED.errOf_of_err_ne {e : ED} (h : e.err ≠ .none) : e.errOf = e.err := by
  unfold ED.errOf; simp [h]

theorem EDSim.failed {e' em : ED} {z' zm : Dec} (hs : EDSim e' z' em zm) : e'.failed = em.failed := by
  rcases hs with ⟨rfl, _⟩ | ⟨hnd, he, _⟩
  · rfl
  · rw [ED.failed_of_not_delivered hnd, ED.failed_of_not_delivered (by rw [he]; exact hnd)]

theorem EDSim.errOf {e' em : ED} {z' zm : Dec} (hs : EDSim e' z' em zm) : e'.errOf = em.errOf := by
  rcases hs with ⟨rfl, _⟩ | ⟨hnd, he, _⟩
  · rfl
  · have h1 : em.err ≠ .none := fun e0 => hnd (Or.inl e0)
    rw [ED.errOf_of_err_ne h1, ED.errOf_of_err_ne (by rw [he]; exact h1), he]

/-- one `ed.Op(&z, …)` whose call reads the heap, against `ED.step` -/
theorem edStepP_sim {e' em : ED} {z' zm : Dec} (hs : EDSim e' z' em zm) (p : Ctx → Prog (Res × Dec))
    (op : Ctx → Out) (h : Heap)
    (hp : e' = em → z' = zm → ∃ fl aux w, run (p em.c) h = (((fl, (op em.c).err, aux), w), h) ∧
      (Delivered (op em.c).err → fl = (op em.c).fl ∧ aux = (op em.c).aux ∧ w = (op em.c).d)) :
    ∃ e2 z2, run (edStepP e' z' p) h = ((e2, z2), h) ∧ EDSim e2 z2 (em.step zm op).1 (em.step zm op).2 := by
  unfold edStepP ED.step
  rw [hs.failed]
  by_cases hf : em.failed = true
  · simp only [hf, if_true, run_pure]
    exact ⟨_, _, rfl, hs⟩
  · simp only [hf, if_false, Bool.false_eq_true, run_bind, run_pure]
    rcases hs with ⟨rfl, rfl⟩ | ⟨hnd, _, _⟩
    · obtain ⟨fl, aux, w, hv, hd⟩ := hp rfl rfl
      rw [hv]
      refine ⟨_, _, rfl, ?_⟩
      by_cases hdel : Delivered (op e'.c).err
      · obtain ⟨h1, _, h3⟩ := hd hdel
        left; simp [h1, h3]
      · right; exact ⟨hdel, rfl, rfl⟩
    · exact absurd (ED.failed_of_not_delivered hnd) hf

end Apd.Imp

namespace Apd.Imp
open Apd Apd.Cond Prog

/-! ## Cbrt -/

/-- everything `Context.Cbrt` does after the Newton loop, at the value level (the text of `cbrtOp`) -/
def cbrtTailV (c : Ctx) (x z : Dec) (fl : Cond) : Out :=
  let nc : Ctx := { baseCtx with prec := c.prec * 2 + 2 }
  let r := ctxRound { c with mode := .halfEven } z
  let res := r.2
  let err := goError c.traps res
  let d : Dec := { r.1 with neg := x.neg }
  let e : ED := { c := { nc with prec := c.prec * 3 }, fl := fl, err := .none }
  let q1 := e.step z (fun c => mulOp c d d)
  let q2 := q1.1.step q1.2 (fun c => mulOp c q1.2 d)
  if q2.1.failed then failOut q2.1.errOf else
  if x.cmp q2.2 == 0 then { d := d } else { d := d, fl := res, err := err }

/-- the two multiplications of the exactness check: `ed.Mul(&z, d, d); ed.Mul(&z, &z, d)` with `d = D` -/
def cbrtQ2 (c : Ctx) (D z : Dec) (fl : Cond) : ED × Dec :=
  let e : ED := { c := { baseCtx with prec := c.prec * 3 }, fl := fl, err := .none }
  let q1 := e.step z (fun cc => mulOp cc D D)
  q1.1.step q1.2 (fun cc => mulOp cc q1.2 D)

theorem cbrtTailV_eq (c : Ctx) (x z : Dec) (fl : Cond) :
    cbrtTailV c x z fl =
      if (cbrtQ2 c { (roundX { c with mode := .halfEven } z true).1 with neg := x.neg } z fl).1.failed then
        failOut (cbrtQ2 c { (roundX { c with mode := .halfEven } z true).1 with neg := x.neg } z fl).1.errOf
      else if x.cmp (cbrtQ2 c { (roundX { c with mode := .halfEven } z true).1 with neg := x.neg } z fl).2 == 0 then
        { d := { (roundX { c with mode := .halfEven } z true).1 with neg := x.neg } }
      else { d := { (roundX { c with mode := .halfEven } z true).1 with neg := x.neg },
             fl := (roundX { c with mode := .halfEven } z true).2,
             err := goError c.traps (roundX { c with mode := .halfEven } z true).2 } := rfl

/-- `cbrtOp` is `cbrtNewton` on `|x|` followed by `cbrtTailV` -/
theorem cbrtOp_eq (c : Ctx) (x : Dec) (hs : rootSpecials c x 3 = none) :
    cbrtOp c x =
      match cbrtNewton c x.absD with
      | none => none
      | some (.inl er) => some (failOut er)
      | some (.inr zf) => some (cbrtTailV c x zf.1 zf.2) := by
  unfold cbrtOp cbrtNewton
  rw [hs]
  simp only []
  generalize scaleLoop (fun z => decide (z.cmp decOneEighth < 0)) decEight 400000 _ x.absD 0 = s1
  cases s1 with
  | none => rfl
  | some t0 =>
    cases t0 with
    | inl er => rfl
    | inr t =>
    obtain ⟨ed, z, down⟩ := t
    simp only []
    generalize scaleLoop (fun z => decide (z.cmp decOne > 0)) decOneEighth 400000 ed z 0 = s2
    cases s2 with
    | none => rfl
    | some t1 =>
      cases t1 with
      | inl er => rfl
      | inr t2 =>
      obtain ⟨ed2, z2, up⟩ := t2
      simp only []
      generalize cbrtIter _ _ _ _ _ _ _ _ = s3
      cases s3 with
      | none => rfl
      | some r =>
        cases r with
        | inl er => rfl
        | inr zz =>
          simp only []
          unfold cbrtTailV
          simp only []
          split_ifs <;> rfl

end Apd.Imp

namespace Apd.Imp
open Apd Apd.Cond Prog

/-- `ed.Mul(&z, x, y)` with the local `z` at the virtual address `L` -/
theorem run_mulLoc (cc : Ctx) (L : Cell) (x y : Src) (z : Dec) (h : Heap) :
    ∃ fl aux w, run (localize L (mulP cc L x y) z) h =
        (((fl, (mulOp cc (x.val (h.set L z)) (y.val (h.set L z))).err, aux), w), h) ∧
      (Delivered (mulOp cc (x.val (h.set L z)) (y.val (h.set L z))).err →
        fl = (mulOp cc (x.val (h.set L z)) (y.val (h.set L z))).fl ∧
        aux = (mulOp cc (x.val (h.set L z)) (y.val (h.set L z))).aux ∧
        w = (mulOp cc (x.val (h.set L z)) (y.val (h.set L z))).d) :=
  (mulP_run cc L x y (h.set L z)).localize

/-- the exactness check of `Cbrt` against the value-level text -/
theorem run_cbrtCheckP (c : Ctx) (d : Cell) (z0 z : Dec) (fl res : Cond) (err : ErrKind) (h : Heap) :
    ∃ r, run (cbrtCheckP c d z0 z fl res err) h = (r, h) ∧
      r = if (cbrtQ2 c (h d) z fl).1.failed then ({}, (cbrtQ2 c (h d) z fl).1.errOf, 0)
          else if z0.cmp (cbrtQ2 c (h d) z fl).2 == 0 then ({}, .none, 0) else (res, err, 0) := by
  unfold cbrtQ2
  have hL : freshCell d d d ≠ d := freshCell_ne1 d d d
  have hdL : d ≠ freshCell d d d := Ne.symm hL
  unfold cbrtCheckP
  simp only [run_bind]
  obtain ⟨e2, z2, hr1, hs1⟩ := edStepP_sim
    (EDSim.refl { c := { baseCtx with prec := c.prec * 3 }, fl := fl, err := .none } z)
    (fun cc => localize (freshCell d d d) (mulP cc (freshCell d d d) (.cell d) (.cell d)) z)
    (fun cc => mulOp cc (h d) (h d)) h
    (fun _ _ => by
      have := run_mulLoc { baseCtx with prec := c.prec * 3 } (freshCell d d d) (.cell d) (.cell d) z h
      simpa [Heap.set_other _ _ hdL] using this)
  rw [hr1]
  simp only []
  obtain ⟨e3, z3, hr2, hs2⟩ := edStepP_sim hs1
    (fun cc => localize (freshCell d d d) (mulP cc (freshCell d d d) (.cell (freshCell d d d)) (.cell d)) z2)
    (fun cc => mulOp cc
      (({ c := { baseCtx with prec := c.prec * 3 }, fl := fl, err := .none } : ED).step z
        (fun cc => mulOp cc (h d) (h d))).2 (h d)) h
    (fun he hz => by
      have := run_mulLoc (({ c := { baseCtx with prec := c.prec * 3 }, fl := fl, err := .none } : ED).step z
        (fun cc => mulOp cc (h d) (h d))).1.c (freshCell d d d) (.cell (freshCell d d d)) (.cell d) z2 h
      simpa [Heap.set_other _ _ hdL, hz] using this)
  rw [hr2]
  simp only [run_ite, run_retErr, hs2.failed, hs2.errOf, ite_pair_heap]
  refine ⟨_, rfl, ?_⟩
  rcases hs2 with ⟨_, hz3⟩ | ⟨hnd, _, _⟩
  · rw [hz3]
  · have := ED.failed_of_not_delivered hnd
    simp only [this, if_true]

end Apd.Imp

namespace Apd.Imp
open Apd Apd.Cond Prog

/-- an aborted call that has left `v` in the destination -/
theorem TRes.abort' (d : Cell) (h : Heap) (v : Dec) {e : ErrKind} (he : e ≠ .none) :
    TRes (({}, e, 0), h.set d v) d h (failOut e) := by
  refine ⟨{}, 0, v, by simp [failOut], fun hdel => ⟨rfl, rfl, fun hna => ?_⟩⟩
  have ht : e = .trap := by
    rcases hdel with h1 | h1
    · exact absurd h1 he
    · exact h1
  exact absurd ((failOut_aborted_iff e).2 ht) hna

theorem cbrtFinishP_run (c : Ctx) (d : Cell) (x : Src) (neg : Bool) (z : Dec) (fl : Cond) (h : Heap)
    (hneg : neg = (x.val h).neg) :
    TRes (run (cbrtFinishP c d x neg z fl) h) d h (cbrtTailV c (x.val h) z fl) := by
  unfold cbrtFinishP
  simp only [run_bind, run_snapP, run_roundP, run_wrNeg, Heap.set_same, Heap.set_set, Src.val_const]
  obtain ⟨r, hr, hrv⟩ := run_cbrtCheckP c d (x.val h) z fl
    (roundX { c with mode := .halfEven } z true).2 (goError c.traps (roundX { c with mode := .halfEven } z true).2)
    (h.set d { (roundX { c with mode := .halfEven } z true).1 with neg := neg })
  rw [hr, cbrtTailV_eq]
  simp only [Heap.set_same, Heap.set_set] at hrv ⊢
  subst hrv
  subst hneg
  generalize cbrtQ2 c _ z fl = q2
  split_ifs with h1 h2
  · exact TRes.abort' d h _ (ED.errOf_ne_none h1)
  · exact TRes.exact d h { d := _ }
  · exact TRes.exact d h { d := _, fl := _, err := _ }

theorem TRes.spec {r : Res × Heap} {d : Cell} {h : Heap} {m : Out} (hr : TRes r d h m) :
    r.1.2.1 = m.err ∧
    (Delivered r.1.2.1 → r.1.1 = m.fl ∧ (¬ m.Aborted → r.2 d = m.d) ∧ r.1.2.2 = m.aux) ∧
    ∀ cell, cell ≠ d → r.2 cell = h cell := by
  obtain ⟨fl, aux, v, hv, hd⟩ := hr
  subst hv
  refine ⟨rfl, fun hdel => ?_, fun cell hc => Heap.set_other _ _ hc⟩
  obtain ⟨h1, h2, h3⟩ := hd hdel
  exact ⟨h1, fun hna => by simp [h3 hna], h2⟩

theorem loopDone_error_ne {c : Ctx} {prec : Int} {maxIter : Nat} {l : LoopSt} {z : Dec} {e : ErrKind}
    (hl : loopDone c prec maxIter l z = .error e) : e ≠ .none := by
  unfold loopDone at hl
  simp only [] at hl
  split_ifs at hl with h1 <;> cases hl
  · simpa using h1
  all_goals simp

theorem cbrtIter_inl_ne (c : Ctx) (prec : Int) (maxIter : Nat) (ax : Dec) (fuel : Nat) (e : ED) (z : Dec)
    (l : LoopSt) {er : ErrKind} (hi : cbrtIter c prec maxIter ax fuel e z l = some (.inl er)) : er ≠ .none := by
  induction fuel generalizing e z l with
  | zero => simp [cbrtIter] at hi
  | succ n ih =>
    unfold cbrtIter at hi
    simp only [] at hi
    split at hi
    · next hf => cases hi; exact ED.errOf_ne_none hf
    · split at hi
      · next hl => cases hi; exact loopDone_error_ne hl
      · cases hi
      · exact ih _ _ _ hi

theorem scaleLoop_inl_ne (test : Dec → Bool) (k : Dec) (fuel : Nat) :
    ∀ (e : ED) (z : Dec) (n : Nat) {er : ErrKind}, scaleLoop test k fuel e z n = some (.inl er) → er ≠ .none := by
  induction fuel with
  | zero => intro e z n er hs; simp [scaleLoop] at hs
  | succ f ih =>
    intro e z n er hs
    unfold scaleLoop at hs
    simp only [] at hs
    split at hs
    · split at hs
      · next hf => cases hs; exact ED.errOf_ne_none hf
      · exact ih _ _ _ hs
    · cases hs

theorem cbrtNewton_inl_ne {c : Ctx} {ax : Dec} {er : ErrKind} (hn : cbrtNewton c ax = some (.inl er)) :
    er ≠ .none := by
  unfold cbrtNewton at hn
  simp only [] at hn
  split at hn
  · cases hn
  · next h1 => cases hn; exact scaleLoop_inl_ne _ _ _ _ _ _ h1
  · split at hn
    · cases hn
    · next h2 => cases hn; exact scaleLoop_inl_ne _ _ _ _ _ _ h2
    · split at hn
      · cases hn
      · next hi => cases hn; exact cbrtIter_inl_ne _ _ _ _ _ _ _ _ hi
      · cases hn

/-- the contract of `Cbrt` (whose model takes fuel): if the model runs out of fuel so does the program, without
having written anything; otherwise the program returns a result with the contract `TRes` -/
def TOptRun (p : Prog (Option Res)) (d : Cell) (h : Heap) (m : Option Out) : Prop :=
  match m with
  | none => run p h = (none, h)
  | some m => ∃ r, (run p h).1 = some r ∧ TRes (r, (run p h).2) d h m

theorem cbrtP_run (c : Ctx) (d : Cell) (x : Src) (h : Heap) :
    TOptRun (cbrtP c d x) d h (cbrtOp c (x.val h)) := by
  unfold cbrtP TOptRun
  rcases run_rootSpecialsP c d x 3 h with ⟨hs, hr⟩ | ⟨o, hs, hr, ha⟩
  · rw [cbrtOp_eq c _ hs]
    simp only [run_bind, hr, run_snapP, run_rdNeg]
    have hax : ({ form := (x.val h).form, neg := false, exp := (x.val h).exp, coeff := (x.val h).coeff } : Dec) =
        (x.val h).absD := rfl
    simp only [hax]
    cases hn : cbrtNewton c (x.val h).absD with
    | none => simp
    | some r =>
      cases r with
      | inl er =>
        simp only [run_bind, run_pure, run_retErr]
        exact ⟨_, rfl, TRes.abort d h (cbrtNewton_inl_ne hn)⟩
      | inr zf =>
        simp only [run_bind, run_pure]
        exact ⟨_, rfl, cbrtFinishP_run c d x _ _ _ h rfl⟩
  · have hm : cbrtOp c (x.val h) = some o := by unfold cbrtOp; simp only [hs]
    simp only [run_bind, hr, run_pure, hm]
    exact ⟨_, rfl, _, _, _, rfl, fun _ => ⟨rfl, ha.symm, fun _ => rfl⟩⟩

end Apd.Imp

namespace Apd.Imp
open Apd Apd.Cond Prog

/-! ## `integerPower` -/

/-- a pure `ErrDecimal` step on another local (`n`) keeps the simulation and produces the same `n` -/
theorem EDSim.pure_step {e' em : ED} {v zm : Dec} (hs : EDSim e' v em zm) (n : Dec) (op : Ctx → Out) :
    (e'.step n op).2 = (em.step n op).2 ∧ EDSim (e'.step n op).1 v (em.step n op).1 zm := by
  rcases hs with ⟨rfl, rfl⟩ | ⟨hnd, he, hc⟩
  · exact ⟨rfl, Or.inl ⟨rfl, rfl⟩⟩
  · have h1 : em.failed = true := ED.failed_of_not_delivered hnd
    have h2 : e'.failed = true := ED.failed_of_not_delivered (by rw [he]; exact hnd)
    unfold ED.step
    simp only [h1, h2, if_true]
    exact ⟨trivial, Or.inr ⟨hnd, he, hc⟩⟩

/-- one `ed.Op(z, …)` whose destination is the cell `d`, against `ED.step` on the value of `d` -/
theorem edStepCellP_sim {e' em : ED} {zm : Dec} {d : Cell} {h' : Heap} (hs : EDSim e' (h' d) em zm)
    (p : Ctx → Prog Res) (op : Ctx → Out)
    (hp : e' = em → h' d = zm → OpRun (p em.c) d h' (op em.c)) :
    ∃ e2 v2, run (edStepCellP e' p) h' = (e2, h'.set d v2) ∧
      EDSim e2 v2 (em.step zm op).1 (em.step zm op).2 := by
  unfold edStepCellP ED.step
  rw [hs.failed]
  by_cases hf : em.failed = true
  · simp only [hf, if_true, run_pure]
    exact ⟨e', h' d, by simp, hs⟩
  · simp only [hf, if_false, Bool.false_eq_true, run_bind, run_pure]
    rcases hs with ⟨rfl, hz⟩ | ⟨hnd, _, _⟩
    · obtain ⟨fl, aux, w, hv, hd⟩ := hp rfl hz
      rw [hv]
      refine ⟨_, w, rfl, ?_⟩
      by_cases hdel : Delivered (op e'.c).err
      · obtain ⟨h1, _, h3⟩ := hd hdel
        left; simp [h1, h3]
      · right; exact ⟨hdel, rfl, rfl⟩
    · exact absurd (ED.failed_of_not_delivered hnd) hf

/-- the square-and-multiply loop on the cell `d` against `intPowLoop` on the value of `d` -/
theorem intPowLoopP_sim (d : Cell) (fuel : Nat) :
    ∀ (e' em : ED) (b : Nat) (zm n : Dec) (h' : Heap), EDSim e' (h' d) em zm →
    ∃ e2 v2, run (intPowLoopP fuel e' b d n) h' = (e2, h'.set d v2) ∧
      EDSim e2 v2 (intPowLoop fuel em b zm n).1 (intPowLoop fuel em b zm n).2 := by
  induction fuel with
  | zero =>
    intro e' em b zm n h' hs
    exact ⟨e', h' d, by simp [intPowLoopP], by simpa [intPowLoop] using hs⟩
  | succ k ih =>
    intro e' em b zm n h' hs
    unfold intPowLoopP intPowLoop
    by_cases hb : (b == 0) = true
    · simp only [hb, if_true, run_pure]
      exact ⟨e', h' d, by simp, hs⟩
    · simp only [hb, if_false, Bool.false_eq_true, run_bind]
      -- the multiplication into `z`
      have key : ∃ e1 v1, run (if (b % 2 == 1) = true then
              edStepCellP e' (fun cc => mulP cc d (.cell d) (.const n)) else pure e') h' = (e1, h'.set d v1) ∧
            EDSim e1 v1 (if (b % 2 == 1) = true then em.step zm (fun c => mulOp c zm n) else (em, zm)).1
              (if (b % 2 == 1) = true then em.step zm (fun c => mulOp c zm n) else (em, zm)).2 := by
        by_cases hodd : (b % 2 == 1) = true
        · simp only [hodd, if_true]
          exact edStepCellP_sim hs _ (fun c => mulOp c zm n) (fun _ hz => by
            have := mulP_run em.c d (.cell d) (.const n) h'
            simpa [hz] using this)
        · simp only [hodd, if_false, Bool.false_eq_true, run_pure]
          exact ⟨e', h' d, by simp, hs⟩
      obtain ⟨e1, v1, hr1, hs1⟩ := key
      rw [hr1]
      simp only []
      generalize (if (b % 2 == 1) = true then em.step zm (fun c => mulOp c zm n) else (em, zm)) = r1 at hs1 ⊢
      -- the squaring of `n`
      have key2 : (if b / 2 > 0 then e1.step n (fun cc => mulOp cc n n) else (e1, n)).2 =
            (if b / 2 > 0 then r1.1.step n (fun c => mulOp c n n) else (r1.1, n)).2 ∧
          EDSim (if b / 2 > 0 then e1.step n (fun cc => mulOp cc n n) else (e1, n)).1 v1
            (if b / 2 > 0 then r1.1.step n (fun c => mulOp c n n) else (r1.1, n)).1 r1.2 := by
        by_cases hpos : b / 2 > 0
        · simp only [hpos, if_true]; exact hs1.pure_step n _
        · simp only [hpos, if_false]; exact ⟨trivial, hs1⟩
      obtain ⟨hn2, hs2⟩ := key2
      rw [hs2.failed, hn2]
      by_cases hf : (if b / 2 > 0 then r1.1.step n (fun c => mulOp c n n) else (r1.1, n)).1.failed = true
      · simp only [hf, if_true, run_pure]
        exact ⟨_, v1, rfl, hs2⟩
      · simp only [hf, if_false, Bool.false_eq_true]
        obtain ⟨e3, v3, hr3, hs3⟩ := ih _ _ (b / 2) r1.2
          (if b / 2 > 0 then r1.1.step n (fun c => mulOp c n n) else (r1.1, n)).2 (h'.set d v1)
          (by rw [Heap.set_same]; exact hs2)
        rw [hr3]
        exact ⟨e3, v3, by simp, hs3⟩

end Apd.Imp

namespace Apd.Imp
open Apd Apd.Cond Prog

/-- when the value-level `ErrDecimal` reports a delivered error class (nil or a trapped condition), the
store-level state is equal to it -/
theorem EDSim.eq_of_delivered {e' em : ED} {v zm : Dec} (hs : EDSim e' v em zm) (hd : Delivered em.errOf) :
    e' = em ∧ v = zm := by
  rcases hs with h1 | ⟨hnd, _, _⟩
  · exact h1
  · have h1 : em.err ≠ .none := fun e0 => hnd (Or.inl e0)
    rw [ED.errOf_of_err_ne h1] at hd
    exact absurd hd hnd

theorem EDSim.eq_of_not_failed {e' em : ED} {v zm : Dec} (hs : EDSim e' v em zm) (hf : ¬ em.failed = true) :
    e' = em ∧ v = zm := by
  rcases hs with h1 | ⟨hnd, _, _⟩
  · exact h1
  · exact absurd (ED.failed_of_not_delivered hnd) hf

/-- `Context.integerPower(d, x, y)` for every `d`, `x`: the error class of the value-level `integerPower` on the
prior value of `x`; if delivered, its flags and result -/
theorem integerPowerP_run (c : Ctx) (d : Cell) (x : Src) (y : Int) (h : Heap) :
    ∃ fl v, run (integerPowerP c d x y) h = ((fl, (integerPower c (x.val h) y).2.2), h.set d v) ∧
      (Delivered (integerPower c (x.val h) y).2.2 →
        fl = (integerPower c (x.val h) y).2.1 ∧ v = (integerPower c (x.val h) y).1) := by
  unfold integerPowerP integerPower
  simp only [run_bind, run_snapP, run_setDec, Src.val_const]
  obtain ⟨e2, v2, hr, hs⟩ := intPowLoopP_sim d (Nat.log2 y.natAbs + 2) { c := c } { c := c } y.natAbs decOne
    (x.val h) (h.set d decOne) (by rw [Heap.set_same]; exact EDSim.refl _ _)
  rw [hr]
  simp only [Heap.set_set, run_ite, run_pure, hs.failed]
  generalize intPowLoop (Nat.log2 y.natAbs + 2) { c := c } y.natAbs decOne (x.val h) = r at hs ⊢
  by_cases hf : r.1.failed = true
  · simp only [hf, if_true]
    refine ⟨_, v2, by rw [hs.errOf], fun hd => ?_⟩
    obtain ⟨rfl, rfl⟩ := hs.eq_of_delivered hd
    exact ⟨rfl, rfl⟩
  · simp only [hf, if_false, Bool.false_eq_true, run_bind, run_pure]
    obtain ⟨rfl, rfl⟩ := hs.eq_of_not_failed hf
    by_cases hneg : decide (y < 0) = true
    · simp only [hneg, if_true]
      obtain ⟨e3, v3, hr3, hs3⟩ := edStepCellP_sim (e' := r.1) (em := r.1) (zm := r.2) (d := d)
        (h' := h.set d r.2) (by rw [Heap.set_same]; exact EDSim.refl _ _)
        (fun cc => quoP cc d (.const decOne) (.cell d)) (fun cc => quoOp cc decOne r.2)
        (fun _ _ => by
          have := quoP_run r.1.c d (.const decOne) (.cell d) (h.set d r.2)
          simpa using this)
      rw [hr3]
      simp only [Heap.set_set]
      refine ⟨_, v3, by rw [hs3.errOf], fun hd => ?_⟩
      obtain ⟨rfl, rfl⟩ := hs3.eq_of_delivered hd
      exact ⟨rfl, rfl⟩
    · simp only [hneg, if_false, Bool.false_eq_true, run_pure]
      exact ⟨_, _, rfl, fun _ => ⟨rfl, rfl⟩⟩

end Apd.Imp

namespace Apd.Imp
open Apd Apd.Cond Prog

/-! ## programs steered by a decision tape -/

/-- the contract of a composite function whose model takes a decision tape: if the model rejects the tape (`none`)
so does the program, having written at most `d`; otherwise the program returns a result with the contract `TRes`
and the same remaining tape -/
def TTRes (r : Option (Res × Tape) × Heap) (d : Cell) (h : Heap) (m : Option (Out × Tape)) : Prop :=
  match m with
  | none => r.1 = none ∧ ∃ v, r.2 = h.set d v
  | some (m, t) => ∃ res, r.1 = some (res, t) ∧ TRes (res, r.2) d h m

theorem TTRes.mk {res : Res} {t : Tape} {hp : Heap} {d : Cell} {h : Heap} {m : Out}
    (hr : TRes (res, hp) d h m) : TTRes (Option.some (res, t), hp) d h (Option.some (m, t)) := ⟨res, rfl, hr⟩

theorem TTRes.reject (d : Cell) (h : Heap) : TTRes (Option.none, h) d h Option.none := ⟨rfl, h d, by simp⟩

theorem TTRes.reject' (d : Cell) (h : Heap) (v : Dec) : TTRes (Option.none, h.set d v) d h Option.none :=
  ⟨rfl, v, rfl⟩

@[simp] theorem run_retT (r : Res) (t : Tape) (h : Heap) : run (retT r t) h = (some (r, t), h) := rfl

theorem Src.ne_cell_fresh (x : Src) (a b : Cell) : x ≠ .cell (freshCell a x.addr b) := by
  cases x with
  | const v => intro e; cases e
  | cell c =>
    intro e
    have : c = freshCell a c b := by injection e
    exact freshCell_ne2 a c b this.symm

theorem Src.ne_cell_fresh3 (x : Src) (a b : Cell) : x ≠ .cell (freshCell a b x.addr) := by
  cases x with
  | const v => intro e; cases e
  | cell c =>
    intro e
    have : c = freshCell a b c := by injection e
    exact freshCell_ne3 a b c this.symm

/-! ## Exp -/

/-- `Context.Exp` from the integer power on, at the value level (the text of `expT`) -/
def expTailV (c nc : Ctx) (sum : Dec) (t : Nat) : Out :=
  let ip := integerPower nc sum ((10 : Int) ^ t)
  if ip.2.2 != .none then failOut ip.2.2 else
  let res := (cInexact ||| cRounded) ||| ip.2.1
  let rr := ctxRound { c with mode := .halfEven } ip.1
  let res := res ||| rr.2
  { d := rr.1, fl := res, err := goError c.traps res }

theorem run_expFinishP (c nc : Ctx) (d : Cell) (sum : Dec) (t : Nat) (h : Heap) :
    TRes (run (expFinishP c nc d sum t) h) d h (expTailV c nc sum t) := by
  unfold expFinishP expTailV
  obtain ⟨fl, v, hr, hd⟩ := integerPowerP_run nc d (.const sum) ((10 : Int) ^ t) h
  simp only [Src.val_const] at hr hd
  simp only [run_bind, hr, run_ite]
  generalize integerPower nc sum ((10 : Int) ^ t) = ip at hr hd ⊢
  by_cases he : (ip.2.2 != ErrKind.none) = true
  · simp only [he, if_true, run_retErr]
    exact TRes.abort' d h v (by simpa using he)
  · simp only [he, if_false, Bool.false_eq_true]
    have hnone : ip.2.2 = .none := by simpa using he
    obtain ⟨rfl, rfl⟩ := hd (Or.inl hnone)
    simp only [run_bind, run_roundP, run_retFlags, Heap.set_same, Heap.set_set, Src.val_cell, ctxRound]
    exact TRes.exact d h { d := _, fl := _, err := _ }

end Apd.Imp
