import Mathlib.Analysis.SpecialFunctions.Pow.Real
import Mathlib.Analysis.SpecialFunctions.Sqrt
import Mathlib.Tactic.Linarith
import Mathlib.Tactic.Positivity
import Mathlib.Tactic.Ring
import Mathlib.Tactic.NormNum
/-!
# Newton's iteration for the square root with rounded operations — the numerical core (over ℝ)

`Context.Sqrt` scales its operand to `f ∈ [0.01, 1)`, starts from the linear estimate of Hull and
Abrham and repeats `a ← ½·(a + f/a)` with the working precision `p` roughly doubling (3, 4, 6, 10, 18, …,
capped at `maxp`), every operation rounded half-even to `p` digits.  A half-even rounding to `p` digits of
a value in the normal range changes it by a relative error of at most `5·10^(-p)`.  This file is about
real numbers only: `e1 e2 e3` are the three relative rounding errors of one round.

Invariant carried through the loop: after the round at precision `p`, `|a - √f| ≤ 10^(2-p) · √f`.
-/
namespace Apd.SqrtN

/-- two successive relative perturbations of `t + B` with `t, B ≥ 0` -/
theorem perturb (t B e1 e2 u : ℝ) (ht : 0 ≤ t) (hB : 0 ≤ B) (hu : 0 ≤ u) (hu1 : u ≤ 1)
    (h1 : |e1| ≤ u) (h2 : |e2| ≤ u) :
    (t * (1 - u) + B) * (1 - u) ≤ (t * (1 + e1) + B) * (1 + e2) ∧
    (t * (1 + e1) + B) * (1 + e2) ≤ (t * (1 + u) + B) * (1 + u) := by
  obtain ⟨h1a, h1b⟩ := abs_le.mp h1
  obtain ⟨h2a, h2b⟩ := abs_le.mp h2
  have hw1 : t * (1 - u) + B ≤ t * (1 + e1) + B := by nlinarith
  have hw2 : t * (1 + e1) + B ≤ t * (1 + u) + B := by nlinarith
  have hw0 : 0 ≤ t * (1 - u) + B := by nlinarith
  constructor
  · calc (t * (1 - u) + B) * (1 - u) ≤ (t * (1 + e1) + B) * (1 - u) :=
          mul_le_mul_of_nonneg_right hw1 (by linarith)
      _ ≤ (t * (1 + e1) + B) * (1 + e2) :=
          mul_le_mul_of_nonneg_left (by linarith) (by linarith)
  · calc (t * (1 + e1) + B) * (1 + e2) ≤ (t * (1 + e1) + B) * (1 + u) :=
          mul_le_mul_of_nonneg_left (by linarith) (by linarith)
      _ ≤ (t * (1 + u) + B) * (1 + u) :=
          mul_le_mul_of_nonneg_right hw2 (by linarith)

/-- first guess, even case: `f ∈ [0.1, 1]`, `a = (0.819·f)(1+e1) + 0.259` rounded again -/
theorem init_even (f e1 e2 : ℝ) (hf : 1 / 10 ≤ f) (hf1 : f ≤ 1)
    (h1 : |e1| ≤ 1 / 1000000) (h2 : |e2| ≤ 1 / 1000000) :
    |((819 / 1000 * f) * (1 + e1) + 259 / 1000) * (1 + e2) - Real.sqrt f| ≤ (1 / 10) * Real.sqrt f := by
  have hf0 : 0 ≤ f := by linarith
  have hrr : Real.sqrt f * Real.sqrt f = f := Real.mul_self_sqrt hf0
  have hr0 : 0 ≤ Real.sqrt f := Real.sqrt_nonneg f
  generalize Real.sqrt f = r at *
  subst hrr
  have hrlo : 316 / 1000 ≤ r := by nlinarith
  have hrhi : r ≤ 1 := by nlinarith
  obtain ⟨hlo, hhi⟩ := perturb (819 / 1000 * (r * r)) (259 / 1000) e1 e2 (1 / 1000000)
    (by positivity) (by norm_num) (by norm_num) (by norm_num) h1 h2
  rw [abs_le]
  constructor
  · nlinarith [sq_nonneg (r - 55 / 100)]
  · nlinarith [mul_nonneg (sub_nonneg.mpr hrlo) (sub_nonneg.mpr hrhi)]

/-- first guess, odd case: `f ∈ [0.01, 0.1]`, `a = (2.59·f)(1+e1) + 0.0819` rounded again -/
theorem init_odd (f e1 e2 : ℝ) (hf : 1 / 100 ≤ f) (hf1 : f ≤ 1 / 10)
    (h1 : |e1| ≤ 1 / 1000000) (h2 : |e2| ≤ 1 / 1000000) :
    |((259 / 100 * f) * (1 + e1) + 819 / 10000) * (1 + e2) - Real.sqrt f| ≤ (1 / 10) * Real.sqrt f := by
  have hf0 : 0 ≤ f := by linarith
  have hrr : Real.sqrt f * Real.sqrt f = f := Real.mul_self_sqrt hf0
  have hr0 : 0 ≤ Real.sqrt f := Real.sqrt_nonneg f
  generalize Real.sqrt f = r at *
  subst hrr
  have hrlo : 1 / 10 ≤ r := by nlinarith
  have hrhi : r ≤ 3163 / 10000 := by nlinarith
  obtain ⟨hlo, hhi⟩ := perturb (259 / 100 * (r * r)) (819 / 10000) e1 e2 (1 / 1000000)
    (by positivity) (by norm_num) (by norm_num) (by norm_num) h1 h2
  rw [abs_le]
  constructor
  · nlinarith [sq_nonneg (r - 174 / 1000)]
  · nlinarith [mul_nonneg (sub_nonneg.mpr hrlo) (sub_nonneg.mpr hrhi)]

/-- one round: `q = (f/a)(1+e1)`, `s = (q + a)(1+e2)`, `a' = (s·½)(1+e3)` -/
theorem newton_step (f a e1 e2 e3 H ε : ℝ) (hf : 0 < f) (hH : 0 ≤ H) (hH1 : H ≤ 1 / 10)
    (hε : 0 ≤ ε) (hε1 : ε ≤ 1 / 2000)
    (ha : |a - Real.sqrt f| ≤ H * Real.sqrt f)
    (h1 : |e1| ≤ ε) (h2 : |e2| ≤ ε) (h3 : |e3| ≤ ε) :
    |(((f / a) * (1 + e1) + a) * (1 + e2) * (1 / 2)) * (1 + e3) - Real.sqrt f|
      ≤ ((5 / 9) * H ^ 2 + 3 * ε) * Real.sqrt f := by
  have hrr : Real.sqrt f * Real.sqrt f = f := Real.mul_self_sqrt hf.le
  have hr0 : 0 < Real.sqrt f := Real.sqrt_pos.mpr hf
  generalize Real.sqrt f = r at *
  subst hrr
  obtain ⟨ha1, ha2⟩ := abs_le.mp ha
  obtain ⟨h1a, h1b⟩ := abs_le.mp h1
  obtain ⟨h2a, h2b⟩ := abs_le.mp h2
  obtain ⟨h3a, h3b⟩ := abs_le.mp h3
  have hHr : H * r ≤ 1 / 10 * r := mul_le_mul_of_nonneg_right hH1 hr0.le
  have hHr0 : 0 ≤ H * r := mul_nonneg hH hr0.le
  have halo : 9 / 10 * r ≤ a := by linarith
  have hahi : a ≤ 11 / 10 * r := by linarith
  have ha0 : 0 < a := by linarith
  -- the exact quotient
  obtain ⟨q, hq⟩ : ∃ q, q = r * r / a := ⟨_, rfl⟩
  have hqa : q * a = r * r := by rw [hq]; field_simp
  rw [← hq]
  have hq0 : 0 < q := by rw [hq]; positivity
  have hqhi : 9 / 10 * q ≤ r := by
    have : q * (9 / 10 * r) ≤ r * r := by rw [← hqa]; exact mul_le_mul_of_nonneg_left halo hq0.le
    nlinarith
  have hqlo : r ≤ 11 / 10 * q := by
    have : r * r ≤ q * (11 / 10 * r) := by rw [← hqa]; exact mul_le_mul_of_nonneg_left hahi hq0.le
    nlinarith
  -- exact Newton step
  have hN0 : 0 ≤ (q + a) / 2 - r := by
    have : 2 * a * ((q + a) / 2 - r) = (a - r) ^ 2 := by ring_nf; nlinarith
    have h2 : 0 ≤ 2 * a * ((q + a) / 2 - r) := by rw [this]; positivity
    by_contra hneg
    rw [not_le] at hneg
    nlinarith
  have hN1 : (q + a) / 2 - r ≤ 5 / 9 * H ^ 2 * r := by
    have : 2 * a * ((q + a) / 2 - r) = (a - r) ^ 2 := by ring_nf; nlinarith
    have hsq : (a - r) ^ 2 ≤ (H * r) ^ 2 := by
      apply sq_le_sq'
      · linarith
      · linarith
    have h3 : 2 * (9 / 10 * r) * ((q + a) / 2 - r) ≤ 2 * a * ((q + a) / 2 - r) := by
      apply mul_le_mul_of_nonneg_right _ hN0
      linarith
    have h4 : 2 * (9 / 10 * r) * ((q + a) / 2 - r) ≤ (H * r) ^ 2 := by linarith
    have h5 : r * (9 / 5 * ((q + a) / 2 - r)) ≤ r * (H ^ 2 * r) := by nlinarith
    have := le_of_mul_le_mul_left h5 hr0
    linarith
  -- the perturbed value
  have hqe : |q * e1 / 2| ≤ 5 / 9 * ε * r := by
    have hqε : q * |e1| ≤ (10 / 9 * r) * ε :=
      mul_le_mul (by linarith) h1 (abs_nonneg _) (by linarith)
    rw [abs_div, abs_mul, abs_of_pos hq0, abs_of_pos (by norm_num : (0 : ℝ) < 2)]
    linarith
  obtain ⟨hqe1, hqe2⟩ := abs_le.mp hqe
  obtain ⟨M, hM⟩ : ∃ M, M = (q + a) / 2 + q * e1 / 2 := ⟨_, rfl⟩
  obtain ⟨T, hT⟩ : ∃ T, T = e2 + e3 + e2 * e3 := ⟨_, rfl⟩
  have hexpr : (q * (1 + e1) + a) * (1 + e2) * (1 / 2) * (1 + e3) - r = (M - r) + M * T := by
    rw [hM, hT]; ring
  rw [hexpr]
  have hεr : 0 ≤ ε * r := mul_nonneg hε hr0.le
  have hH2 : H ^ 2 ≤ 1 / 100 := by
    have := mul_le_mul hH1 hH1 hH (by norm_num : (0 : ℝ) ≤ 1 / 10)
    rw [sq]; linarith
  have hH2r : H ^ 2 * r ≤ 1 / 100 * r := mul_le_mul_of_nonneg_right hH2 hr0.le
  have hεr1 : ε * r ≤ 1 / 2000 * r := mul_le_mul_of_nonneg_right hε1 hr0.le
  have hMlo : -(5 / 9 * ε * r) ≤ M - r := by rw [hM]; linarith
  have hMhi : M - r ≤ 5 / 9 * H ^ 2 * r + 5 / 9 * ε * r := by rw [hM]; linarith
  have hM0 : 0 ≤ M := by linarith
  have hM1 : M ≤ 1006 / 1000 * r := by linarith
  have hTabs : |T| ≤ 20005 / 10000 * ε := by
    have h23 : |e2 * e3| ≤ ε * ε := by
      rw [abs_mul]; exact mul_le_mul h2 h3 (abs_nonneg _) hε
    obtain ⟨h23a, h23b⟩ := abs_le.mp h23
    have hεε : ε * ε ≤ 1 / 2000 * ε := mul_le_mul_of_nonneg_right hε1 hε
    rw [hT, abs_le]
    constructor <;> linarith
  have hMT : |M * T| ≤ (1006 / 1000 * r) * (20005 / 10000 * ε) := by
    rw [abs_mul, abs_of_nonneg hM0]
    exact mul_le_mul hM1 hTabs (abs_nonneg _) (by linarith)
  obtain ⟨hMT1, hMT2⟩ := abs_le.mp hMT
  have hH2r0 : 0 ≤ H ^ 2 * r := mul_nonneg (sq_nonneg H) hr0.le
  rw [abs_le]
  constructor <;> linarith

/-- the invariant is reproduced: from `H = 10^(2-p)` at precision `p ≥ 3` to `10^(2-p')` at the next
precision `4 ≤ p' ≤ 2p-2`, the rounding unit of that round being `ε = 5·10^(-p')` -/
theorem bound_step (p p' : ℕ) (hp : 3 ≤ p) (hp' : 4 ≤ p') (hle : p' ≤ 2 * p - 2) :
    (5 / 9 : ℝ) * ((10 : ℝ) ^ (2 - (p : ℤ))) ^ 2 + 3 * (5 * (10 : ℝ) ^ (-(p' : ℤ))) ≤ (10 : ℝ) ^ (2 - (p' : ℤ)) := by
  have _ := hp'
  have h10 : (0 : ℝ) < 10 := by norm_num
  have hsq : ((10 : ℝ) ^ (2 - (p : ℤ))) ^ 2 = (10 : ℝ) ^ (2 * (2 - (p : ℤ))) := by
    rw [← zpow_natCast, ← zpow_mul]; congr 1; push_cast; ring
  have hmono : (10 : ℝ) ^ (2 * (2 - (p : ℤ))) ≤ (10 : ℝ) ^ (2 - (p' : ℤ)) :=
    zpow_le_zpow_right₀ (by norm_num) (by omega)
  have hsplit : (10 : ℝ) ^ (2 - (p' : ℤ)) = 100 * (10 : ℝ) ^ (-(p' : ℤ)) := by
    rw [show (2 - (p' : ℤ)) = 2 + (-(p' : ℤ)) by ring, zpow_add₀ h10.ne']; norm_num
  have hpos : 0 < (10 : ℝ) ^ (-(p' : ℤ)) := zpow_pos h10 _
  rw [hsq]
  rw [hsplit] at hmono ⊢
  nlinarith

/-- side facts the model needs about the iterate: it stays within 10 % of the root, hence positive and
inside a fixed decade range -/
theorem close_bounds (f a H : ℝ) (hf : 1 / 100 ≤ f) (hf1 : f ≤ 1) (hH : 0 ≤ H) (hH1 : H ≤ 1 / 10)
    (ha : |a - Real.sqrt f| ≤ H * Real.sqrt f) :
    9 / 100 ≤ a ∧ a ≤ 11 / 10 ∧ 1 / 10 ≤ Real.sqrt f ∧ Real.sqrt f ≤ 1 := by
  have hf0 : 0 ≤ f := by linarith
  have hrr : Real.sqrt f * Real.sqrt f = f := Real.mul_self_sqrt hf0
  have hr0 : 0 ≤ Real.sqrt f := Real.sqrt_nonneg f
  generalize Real.sqrt f = r at *
  subst hrr
  have _ := hH
  have hrlo : 1 / 10 ≤ r := by nlinarith
  have hrhi : r ≤ 1 := by nlinarith
  obtain ⟨h1, h2⟩ := abs_le.mp ha
  have : H * r ≤ 1 / 10 * r := mul_le_mul_of_nonneg_right hH1 hr0
  refine ⟨by linarith, by linarith, hrlo, hrhi⟩

/-- from closeness to the root to a statement without square roots: the interface to the rational world -/
theorem close_to_squares (f a δ : ℝ) (hf : 0 < f) (hδ : 0 < δ) (ha : |a - Real.sqrt f| < δ) (had : δ ≤ a) :
    (a - δ) ^ 2 < f ∧ f < (a + δ) ^ 2 := by
  have hrr : Real.sqrt f * Real.sqrt f = f := Real.mul_self_sqrt hf.le
  have hr0 : 0 ≤ Real.sqrt f := Real.sqrt_nonneg f
  generalize Real.sqrt f = r at *
  subst hrr
  obtain ⟨h1, h2⟩ := abs_lt.mp ha
  constructor
  · nlinarith
  · nlinarith

end Apd.SqrtN

#print axioms Apd.SqrtN.init_even
#print axioms Apd.SqrtN.init_odd
#print axioms Apd.SqrtN.newton_step
#print axioms Apd.SqrtN.bound_step
#print axioms Apd.SqrtN.close_bounds
#print axioms Apd.SqrtN.close_to_squares
