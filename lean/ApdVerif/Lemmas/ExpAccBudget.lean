import ApdVerif.Lemmas.ExpAccLog
/-!
# The error budget of `Exp`: Horner + truncation, argument reduction, power, in one relative bound
-/
namespace Apd.ExpAcc
open Real Finset

theorem exp_one_inv_gt : (1 : ℝ) / 2.7182818286 < exp (-1) := by
  rw [exp_neg, one_div]
  exact (inv_lt_inv₀ (by norm_num) (exp_pos 1)).2 exp_one_lt_d9

theorem exp_three_quarters_lt : exp (3 / 4 : ℝ) < 2.2 := by
  by_contra h
  have h1 : (2.2 : ℝ) ≤ exp (3 / 4) := not_lt.1 h
  have h2 : (2.2 : ℝ) ^ 4 ≤ exp (3 / 4) ^ 4 := pow_le_pow_left₀ (by norm_num) h1 4
  have h3 : exp (3 / 4 : ℝ) ^ 4 = exp 1 ^ 3 := by
    rw [← exp_nat_mul, ← exp_nat_mul]; norm_num
  have h4 : exp 1 ^ 3 < (2.7182818286 : ℝ) ^ 3 := pow_lt_pow_left₀ exp_one_lt_d9 (exp_pos 1).le (by norm_num)
  rw [h3] at h2
  norm_num at h2 h4
  linarith

/-- Horner rounding error + truncation error, relative to `exp r`, negative argument.  The truncation term may be
as large as `6·10^-p = 1.2u` for `|r| ≤ 3/4` and `2·10^-p = 0.4u` beyond. -/
theorem exp_near_neg (r u sh : ℝ) (n : ℕ) (hn : 1 ≤ n) (hr0 : r ≤ 0) (hr1 : -1 ≤ r) (hu : 0 ≤ u)
    (hE : |sh - ∑ j ∈ range n, r ^ j / (j.factorial : ℝ)| ≤
      u * (1 + 10151 / 10000 * (-r) + 15656 / 10000 * (-r) ^ 2))
    (htr : (-r ≤ 3 / 4 ∧ |r| ^ n / (n.factorial : ℝ) * (((n : ℝ) + 1) / (n : ℝ)) ≤ 6 / 5 * u) ∨
      |r| ^ n / (n.factorial : ℝ) * (((n : ℝ) + 1) / (n : ℝ)) ≤ 2 / 5 * u) :
    |sh - exp r| ≤ (1083 / 100 * u) * exp r := by
  have habs : |r| ≤ 1 := by rw [abs_le]; constructor <;> linarith
  have tr := exp_series_trunc r habs n hn
  rw [abs_sub_comm] at tr
  have tri : |sh - exp r| ≤ |sh - ∑ j ∈ range n, r ^ j / (j.factorial : ℝ)| +
      |∑ j ∈ range n, r ^ j / (j.factorial : ℝ) - exp r| := by
    have : sh - exp r = (sh - ∑ j ∈ range n, r ^ j / (j.factorial : ℝ)) +
      (∑ j ∈ range n, r ^ j / (j.factorial : ℝ) - exp r) := by ring
    rw [this]; exact abs_add_le _ _
  set a : ℝ := -r with ha
  have ha0 : 0 ≤ a := by linarith
  have ha1 : a ≤ 1 := by linarith
  have er : r = -a := by rw [ha]; ring
  rcases htr with ⟨h34, ht⟩ | ht
  · -- |r| ≤ 3/4
    have hex : (1 : ℝ) / 2.2 ≤ exp r := by
      have h1 : exp (-(3 / 4 : ℝ)) ≤ exp r := exp_le_exp.2 (by linarith)
      have h2 : (1 : ℝ) / 2.2 ≤ exp (-(3 / 4 : ℝ)) := by
        rw [exp_neg, one_div]
        exact (inv_le_inv₀ (by norm_num) (exp_pos _)).2 exp_three_quarters_lt.le
      linarith
    have hG : u * (1 + 10151 / 10000 * a + 15656 / 10000 * a ^ 2) + 6 / 5 * u ≤ (1083 / 100 * u) * (1 / 2.2) := by
      have h2 : a ^ 2 ≤ (3 / 4) ^ 2 := pow_le_pow_left₀ ha0 h34 2
      have : 1 + 10151 / 10000 * a + 15656 / 10000 * a ^ 2 + 6 / 5 ≤ 1083 / 100 * (1 / 2.2) := by
        norm_num at h2 ⊢; linarith
      nlinarith
    have : (1083 / 100 * u) * (1 / 2.2) ≤ (1083 / 100 * u) * exp r :=
      mul_le_mul_of_nonneg_left hex (by positivity)
    linarith
  · have hex : (1 : ℝ) / 2.7182818286 ≤ exp r := by
      have h1 : exp (-1 : ℝ) ≤ exp r := exp_le_exp.2 hr1
      linarith [exp_one_inv_gt]
    have hG : u * (1 + 10151 / 10000 * a + 15656 / 10000 * a ^ 2) + 2 / 5 * u ≤
        (1083 / 100 * u) * (1 / 2.7182818286) := by
      have h2 : a ^ 2 ≤ 1 := by nlinarith
      have : 1 + 10151 / 10000 * a + 15656 / 10000 * a ^ 2 + 2 / 5 ≤ 1083 / 100 * (1 / 2.7182818286) := by
        norm_num; linarith
      nlinarith
    have : (1083 / 100 * u) * (1 / 2.7182818286) ≤ (1083 / 100 * u) * exp r :=
      mul_le_mul_of_nonneg_left hex (by positivity)
    linarith

/-- the same for a positive argument (a cruder constant suffices) -/
theorem exp_near_pos (r u sh : ℝ) (n : ℕ) (hn : 1 ≤ n) (hr0 : 0 ≤ r) (hr1 : r ≤ 1) (hu : 0 ≤ u)
    (hE : |sh - ∑ j ∈ range n, r ^ j / (j.factorial : ℝ)| ≤
      u * (1 + 30151 / 10000 * r + 70552 / 10000 * r ^ 2))
    (htr : |r| ^ n / (n.factorial : ℝ) * (((n : ℝ) + 1) / (n : ℝ)) ≤ 6 / 5 * u) :
    |sh - exp r| ≤ (1083 / 100 * u) * exp r := by
  have habs : |r| ≤ 1 := by rw [abs_le]; constructor <;> linarith
  have tr := exp_series_trunc r habs n hn
  rw [abs_sub_comm] at tr
  have tri : |sh - exp r| ≤ |sh - ∑ j ∈ range n, r ^ j / (j.factorial : ℝ)| +
      |∑ j ∈ range n, r ^ j / (j.factorial : ℝ) - exp r| := by
    have : sh - exp r = (sh - ∑ j ∈ range n, r ^ j / (j.factorial : ℝ)) +
      (∑ j ∈ range n, r ^ j / (j.factorial : ℝ) - exp r) := by ring
    rw [this]; exact abs_add_le _ _
  have hex : 1 + r ≤ exp r := by linarith [add_one_le_exp r]
  have hG : u * (1 + 30151 / 10000 * r + 70552 / 10000 * r ^ 2) + 6 / 5 * u ≤ (1083 / 100 * u) * (1 + r) := by
    have : 1 + 30151 / 10000 * r + 70552 / 10000 * r ^ 2 + 6 / 5 ≤ 1083 / 100 * (1 + r) := by nlinarith
    nlinarith
  have : (1083 / 100 * u) * (1 + r) ≤ (1083 / 100 * u) * exp r :=
    mul_le_mul_of_nonneg_left hex (by positivity)
  linarith

/-- argument reduction + series + power: the value `z` handed to the final rounding -/
theorem exp_total (x rh sh z u : ℝ) (K : ℕ) (hK : 1 ≤ K) (hu : 0 ≤ u) (hν : (K : ℝ) * u ≤ 1 / 200)
    (hr : |(K : ℝ) * rh - x| ≤ (K : ℝ) * u)
    (hs : |sh - exp rh| ≤ (1083 / 100 * u) * exp rh)
    (hz : LogNear ((K : ℝ) * (u / (1 - u))) (sh ^ K) z) :
    LogNear (134551 / 10000 * ((K : ℝ) * u)) (exp x) z := by
  have hK' : (1 : ℝ) ≤ K := by exact_mod_cast hK
  have hu1 : u ≤ 1 / 200 := by nlinarith
  have hρ : 1083 / 100 * u ≤ 5415 / 100000 := by linarith
  -- series
  have h1 : LogNear ((1083 / 100 * u) / (1 - 1083 / 100 * u)) (exp rh) sh :=
    LogNear.of_abs (exp rh) sh _ (exp_pos _) (by linarith) hs
  have h2 := h1.pow (exp_pos _).le K
  rw [← exp_nat_mul] at h2
  -- argument reduction
  have h3 : LogNear ((K : ℝ) * u) (exp x) (exp ((K : ℝ) * rh)) := by
    obtain ⟨d1, d2⟩ := abs_le.1 hr
    constructor
    · rw [← exp_add]; exact exp_le_exp.2 (by linarith)
    · rw [← exp_add]; exact exp_le_exp.2 (by linarith)
  have h4 := (h3.trans h2).trans hz
  refine h4.mono (exp_pos _).le ?_
  have b1 : (1083 / 100 * u) / (1 - 1083 / 100 * u) ≤ 1145003 / 100000 * u := by
    rw [div_le_iff₀ (by linarith)]
    nlinarith
  have b2 : u / (1 - u) ≤ 1005026 / 1000000 * u := by
    rw [div_le_iff₀ (by linarith)]
    nlinarith
  have hK0 : (0 : ℝ) ≤ K := by linarith
  have c1 := mul_le_mul_of_nonneg_left b1 hK0
  have c2 := mul_le_mul_of_nonneg_left b2 hK0
  nlinarith

/-- the budget in units of `10^-cp`: `y = 10^-cp ≤ 1/10`, `K·u = y/20` -/
theorem exp_budget (Ω y : ℝ) (hΩ0 : 0 ≤ Ω) (hy : y ≤ 1 / 10) (hΩ : Ω ≤ 134551 / 10000 * (y / 20)) :
    exp Ω - 1 ≤ 7 / 10 * y := by
  have hy0 : 0 ≤ y := by nlinarith
  have hΩ1 : Ω ≤ 1 := by nlinarith
  have h := Real.exp_bound' hΩ0 hΩ1 (n := 3) (by norm_num)
  simp only [Finset.sum_range_succ, Finset.sum_range_zero, Nat.factorial] at h
  norm_num at h
  set c : ℝ := 134551 / 200000 * y with hc
  have hΩc : Ω ≤ c := by rw [hc]; linarith
  have hc0 : 0 ≤ c := by rw [hc]; positivity
  have p2 : Ω ^ 2 ≤ c ^ 2 := pow_le_pow_left₀ hΩ0 hΩc 2
  have p3 : Ω ^ 3 ≤ c ^ 3 := pow_le_pow_left₀ hΩ0 hΩc 3
  have q2 : c ^ 2 ≤ (134551 / 200000) ^ 2 * (1 / 10) * y := by
    rw [hc]; nlinarith
  have q3 : c ^ 3 ≤ (134551 / 200000) ^ 3 * (1 / 100) * y := by
    have : y ^ 3 ≤ 1 / 100 * y := by nlinarith [sq_nonneg y]
    rw [hc]; nlinarith
  nlinarith

/-! ## the same with the constants as parameters (a sharper budget for positive arguments) -/

/-- positive argument, with its own constant -/
theorem exp_near_pos' (r u sh : ℝ) (n : ℕ) (hn : 1 ≤ n) (hr0 : 0 ≤ r) (hr1 : r ≤ 1) (hu : 0 ≤ u)
    (hE : |sh - ∑ j ∈ range n, r ^ j / (j.factorial : ℝ)| ≤
      u * (1 + 30151 / 10000 * r + 70552 / 10000 * r ^ 2))
    (htr : |r| ^ n / (n.factorial : ℝ) * (((n : ℝ) + 1) / (n : ℝ)) ≤ 6 / 5 * u) :
    |sh - exp r| ≤ (62 / 10 * u) * exp r := by
  have habs : |r| ≤ 1 := by rw [abs_le]; constructor <;> linarith
  have tr := exp_series_trunc r habs n hn
  rw [abs_sub_comm] at tr
  have tri : |sh - exp r| ≤ |sh - ∑ j ∈ range n, r ^ j / (j.factorial : ℝ)| +
      |∑ j ∈ range n, r ^ j / (j.factorial : ℝ) - exp r| := by
    have : sh - exp r = (sh - ∑ j ∈ range n, r ^ j / (j.factorial : ℝ)) +
      (∑ j ∈ range n, r ^ j / (j.factorial : ℝ) - exp r) := by ring
    rw [this]; exact abs_add_le _ _
  have hex : 1 + r ≤ exp r := by linarith [add_one_le_exp r]
  have hG : u * (1 + 30151 / 10000 * r + 70552 / 10000 * r ^ 2) + 6 / 5 * u ≤ (62 / 10 * u) * (1 + r) := by
    have : 1 + 30151 / 10000 * r + 70552 / 10000 * r ^ 2 + 6 / 5 ≤ 62 / 10 * (1 + r) := by nlinarith
    nlinarith
  have : (62 / 10 * u) * (1 + r) ≤ (62 / 10 * u) * exp r :=
    mul_le_mul_of_nonneg_left hex (by positivity)
  linarith

/-- `exp_total` for a series constant `A ≤ 11` and any `B ≥ 1 + A/(1 - A/200) + 1.005026` -/
theorem exp_total_gen (A B x rh sh z u : ℝ) (K : ℕ) (hA0 : 0 ≤ A) (hA : A ≤ 11)
    (hB : 1 + A / (1 - A / 200) + 1005026 / 1000000 ≤ B)
    (hK : 1 ≤ K) (hu : 0 ≤ u) (hν : (K : ℝ) * u ≤ 1 / 200)
    (hr : |(K : ℝ) * rh - x| ≤ (K : ℝ) * u)
    (hs : |sh - exp rh| ≤ (A * u) * exp rh)
    (hz : LogNear ((K : ℝ) * (u / (1 - u))) (sh ^ K) z) :
    LogNear (B * ((K : ℝ) * u)) (exp x) z := by
  have hK' : (1 : ℝ) ≤ K := by exact_mod_cast hK
  have hu1 : u ≤ 1 / 200 := by nlinarith
  have hρ : A * u ≤ A / 200 := by nlinarith
  have hA200 : A / 200 ≤ 11 / 200 := by linarith
  have h1 : LogNear ((A * u) / (1 - A * u)) (exp rh) sh :=
    LogNear.of_abs (exp rh) sh _ (exp_pos _) (by linarith) hs
  have h2 := h1.pow (exp_pos _).le K
  rw [← exp_nat_mul] at h2
  have h3 : LogNear ((K : ℝ) * u) (exp x) (exp ((K : ℝ) * rh)) := by
    obtain ⟨d1, d2⟩ := abs_le.1 hr
    constructor
    · rw [← exp_add]; exact exp_le_exp.2 (by linarith)
    · rw [← exp_add]; exact exp_le_exp.2 (by linarith)
  have h4 := (h3.trans h2).trans hz
  refine h4.mono (exp_pos _).le ?_
  have hden : 0 < 1 - A / 200 := by linarith
  have b1 : (A * u) / (1 - A * u) ≤ A / (1 - A / 200) * u := by
    rw [div_le_iff₀ (by linarith)]
    have e : A / (1 - A / 200) * u * (1 - A * u) = (A * u) * ((1 - A * u) / (1 - A / 200)) := by
      field_simp
    rw [e]
    have : 1 ≤ (1 - A * u) / (1 - A / 200) := by
      rw [le_div_iff₀ hden]; linarith
    have hAu : 0 ≤ A * u := mul_nonneg hA0 hu
    nlinarith
  have b2 : u / (1 - u) ≤ 1005026 / 1000000 * u := by
    rw [div_le_iff₀ (by linarith)]
    nlinarith
  have hK0 : (0 : ℝ) ≤ K := by linarith
  have c1 := mul_le_mul_of_nonneg_left b1 hK0
  have c2 := mul_le_mul_of_nonneg_left b2 hK0
  have hKu0 : 0 ≤ (K : ℝ) * u := mul_nonneg hK0 hu
  have c3 : (1 + A / (1 - A / 200) + 1005026 / 1000000) * ((K : ℝ) * u) ≤ B * ((K : ℝ) * u) :=
    mul_le_mul_of_nonneg_right hB hKu0
  nlinarith

/-- `exp_budget` with parameters: `Ω ≤ B·y/20`, `c = B/20 ≤ 1`, and `c + c²/20 + (2/9)c³/100 ≤ η` -/
theorem exp_budget_gen (B η Ω y : ℝ) (hB0 : 0 ≤ B) (hB : B ≤ 20)
    (hη : B / 20 + (B / 20) ^ 2 / 20 + 2 / 9 * (B / 20) ^ 3 / 100 ≤ η)
    (hΩ0 : 0 ≤ Ω) (hy0' : 0 ≤ y) (hy : y ≤ 1 / 10) (hΩ : Ω ≤ B * (y / 20)) :
    exp Ω - 1 ≤ η * y := by
  set c : ℝ := B / 20 with hc
  have hc0 : 0 ≤ c := by rw [hc]; positivity
  have hc1 : c ≤ 1 := by rw [hc]; linarith
  have hΩc : Ω ≤ c * y := by rw [hc]; linarith
  have hcy : c * y ≤ 1 / 10 := by nlinarith
  have hΩ1 : Ω ≤ 1 := by linarith
  have h := Real.exp_bound' hΩ0 hΩ1 (n := 3) (by norm_num)
  simp only [Finset.sum_range_succ, Finset.sum_range_zero, Nat.factorial] at h
  norm_num at h
  have hcy0 : 0 ≤ c * y := mul_nonneg hc0 hy0'
  have p2 : Ω ^ 2 ≤ (c * y) ^ 2 := pow_le_pow_left₀ hΩ0 hΩc 2
  have p3 : Ω ^ 3 ≤ (c * y) ^ 3 := pow_le_pow_left₀ hΩ0 hΩc 3
  have q2 : (c * y) ^ 2 ≤ c ^ 2 * (1 / 10) * y := by
    have : y ^ 2 ≤ 1 / 10 * y := by nlinarith
    have hc2 : 0 ≤ c ^ 2 := sq_nonneg c
    calc (c * y) ^ 2 = c ^ 2 * y ^ 2 := by ring
      _ ≤ c ^ 2 * (1 / 10 * y) := mul_le_mul_of_nonneg_left this hc2
      _ = _ := by ring
  have q3 : (c * y) ^ 3 ≤ c ^ 3 * (1 / 100) * y := by
    have : y ^ 3 ≤ 1 / 100 * y := by nlinarith [sq_nonneg y]
    have hc3 : 0 ≤ c ^ 3 := by positivity
    calc (c * y) ^ 3 = c ^ 3 * y ^ 3 := by ring
      _ ≤ c ^ 3 * (1 / 100 * y) := mul_le_mul_of_nonneg_left this hc3
      _ = _ := by ring
  have hfin : c * y + c ^ 2 * (1 / 10) * y / 2 + 2 / 9 * (c ^ 3 * (1 / 100) * y) ≤ η * y := by
    have : (c + c ^ 2 / 20 + 2 / 9 * c ^ 3 / 100) * y ≤ η * y := mul_le_mul_of_nonneg_right hη hy0'
    nlinarith
  nlinarith

end Apd.ExpAcc
