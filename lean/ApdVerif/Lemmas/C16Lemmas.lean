import ApdVerif.Model.BigInt
import Mathlib.Tactic.Ring
import Mathlib.Tactic.Linarith
import Mathlib.Tactic.NormNum
import Mathlib.Tactic.SplitIfs
import Mathlib.Tactic.Tauto
/-!
# Helper lemmas for C16 (apd.BigInt refines math/big.Int)
-/
namespace Apd.BigInt

/-- signed value of a (magnitude, neg) pair -/
def sgn (n : Bool) (v : Nat) : Int := if n then -(v : Int) else (v : Int)

@[simp] theorem sgn_false (v : Nat) : sgn false v = v := rfl
@[simp] theorem sgn_true (v : Nat) : sgn true v = -(v : Int) := rfl

/-! ### plumbing -/

theorem inner_eq_abs (z : Rep) : inner z = z.abs := by
  rcases z with ⟨t, w0, w1, b⟩
  cases t <;> simp [inner, Rep.abs, Rep.mag]

theorem abs_zero : zero.abs = 0 := by simp [zero, Rep.abs, Rep.mag]
theorem canon_zero : zero.Canon := by simp [zero, Rep.Canon]

theorem isInline_iff (z : Rep) : isInline z = true ↔ z.tag ≠ .heap := by
  rcases z with ⟨t, w0, w1, b⟩
  cases t <;> simp [isInline]

theorem updateInnerWith_heap {ra : Bool} {z : Rep} {v : Int} (h : z.tag = .heap) :
    updateInnerWith ra z v = { z with big := v } := by
  simp [updateInnerWith, h]

theorem updateInnerWith_toHeap {ra : Bool} {z : Rep} {v : Int} (h : z.tag ≠ .heap) (hv : v ≠ 0)
    (h2 : ra = true ∨ 2 ^ 128 ≤ v.natAbs) :
    updateInnerWith ra z v = { z with tag := .heap, big := v } := by
  have : v.natAbs ≠ 0 := by omega
  rcases h2 with h2 | h2 <;> simp [-Nat.reducePow, updateInnerWith, h, hv, h2]

theorem updateInnerWith_inline {ra : Bool} {z : Rep} {v : Int} (h : z.tag ≠ .heap)
    (h2 : v = 0 ∨ (ra = false ∧ v.natAbs < 2 ^ 128)) :
    updateInnerWith ra z v =
      { tag := if v < 0 then .inlineNeg else .inlinePos,
        w0 := v.natAbs % 2 ^ 64, w1 := v.natAbs / 2 ^ 64, big := 0 } := by
  rcases h2 with h2 | ⟨h2, h3⟩
  · subst h2; simp [updateInnerWith, h]
  · have h4 : ¬ (2 ^ 128 ≤ v.natAbs) := by omega
    simp [-Nat.reducePow, updateInnerWith, h, h2, h4]

/-- the three cases of `updateInner` -/
theorem updateInnerWith_cases (ra : Bool) (z : Rep) (v : Int) :
    (z.tag = .heap ∧ updateInnerWith ra z v = { z with big := v }) ∨
    (z.tag ≠ .heap ∧ v ≠ 0 ∧ (ra = true ∨ 2 ^ 128 ≤ v.natAbs) ∧
      updateInnerWith ra z v = { z with tag := .heap, big := v }) ∨
    (z.tag ≠ .heap ∧ v.natAbs < 2 ^ 128 ∧ updateInnerWith ra z v =
      { tag := if v < 0 then .inlineNeg else .inlinePos,
        w0 := v.natAbs % 2 ^ 64, w1 := v.natAbs / 2 ^ 64, big := 0 }) := by
  by_cases h : z.tag = .heap
  · exact Or.inl ⟨h, updateInnerWith_heap h⟩
  · by_cases hv : v = 0
    · refine Or.inr (Or.inr ⟨h, ?_, updateInnerWith_inline h (Or.inl hv)⟩)
      subst hv; norm_num
    · by_cases h2 : ra = true ∨ 2 ^ 128 ≤ v.natAbs
      · exact Or.inr (Or.inl ⟨h, hv, h2, updateInnerWith_toHeap h hv h2⟩)
      · simp only [not_or, not_le, Bool.not_eq_true] at h2
        exact Or.inr (Or.inr ⟨h, h2.2, updateInnerWith_inline h (Or.inr h2)⟩)

theorem updateInnerWith_abs (ra : Bool) (z : Rep) (v : Int) : (updateInnerWith ra z v).abs = v := by
  rcases updateInnerWith_cases ra z v with ⟨h, e⟩ | ⟨h, _, _, e⟩ | ⟨h, _, e⟩ <;> rw [e]
  · simp [Rep.abs, h]
  · simp [Rep.abs]
  · have := Nat.div_add_mod v.natAbs (2 ^ 64)
    by_cases hv : v < 0 <;> simp only [Rep.abs, Rep.mag, hv, if_true, if_false] <;> omega

theorem updateInnerWith_canon (ra : Bool) (z : Rep) (v : Int) (hz : z.Canon) :
    (updateInnerWith ra z v).Canon := by
  obtain ⟨h0, h1, _⟩ := hz
  rcases updateInnerWith_cases ra z v with ⟨h, e⟩ | ⟨h, _, _, e⟩ | ⟨h, hlt, e⟩ <;> rw [e]
  · exact ⟨h0, h1, by simp [h]⟩
  · exact ⟨h0, h1, by simp⟩
  · have hm := Nat.div_add_mod v.natAbs (2 ^ 64)
    refine ⟨Nat.mod_lt _ (by norm_num), by simp only; omega, ?_⟩
    by_cases hv : v < 0
    · intro _
      simp only [Rep.mag]
      omega
    · simp [hv]

/-- which representation `updateInner` chooses -/
theorem updateInnerWith_tag (ra : Bool) (z : Rep) (v : Int) :
    (updateInnerWith ra z v).tag =
      if z.tag = .heap ∨ (v ≠ 0 ∧ (ra = true ∨ 2 ^ 128 ≤ v.natAbs)) then .heap
      else if v < 0 then .inlineNeg else .inlinePos := by
  rcases updateInnerWith_cases ra z v with ⟨h, e⟩ | ⟨h, hv, h2, e⟩ | ⟨h, hlt, e⟩ <;> rw [e]
  · simp [h]
  · rw [if_pos (Or.inr ⟨hv, h2⟩)]
  · by_cases h3 : v ≠ 0 ∧ (ra = true ∨ 2 ^ 128 ≤ v.natAbs)
    · rw [if_pos (Or.inr h3)]
      rw [updateInnerWith_toHeap h h3.1 h3.2] at e
      have := congrArg Rep.tag e
      simp only at this
      exact this.symm
    · have h5 : ¬ (z.tag = .heap ∨ (v ≠ 0 ∧ (ra = true ∨ 2 ^ 128 ≤ v.natAbs))) := by tauto
      simp only [if_neg h5]

theorem updateInnerFromUint64_abs (z : Rep) (v : Nat) (n : Bool) :
    (updateInnerFromUint64 z v n).abs = sgn n v := by
  unfold updateInnerFromUint64
  cases n
  · simp [Rep.abs, Rep.mag]
  · by_cases hv : v = 0 <;> simp [Rep.abs, Rep.mag, hv]

theorem updateInnerFromUint64_canon (z : Rep) (v : Nat) (n : Bool) (hv : v < 2 ^ 64) :
    (updateInnerFromUint64 z v n).Canon := by
  unfold updateInnerFromUint64
  refine ⟨hv, by norm_num, ?_⟩
  simp only [Rep.mag]
  intro h
  split_ifs at h with h2
  simp only [Bool.and_eq_true, bne_iff_ne, ne_eq] at h2
  omega

theorem updateInnerFromUint64_tag (z : Rep) (v : Nat) (n : Bool) :
    (updateInnerFromUint64 z v n).tag ≠ .heap := by
  unfold updateInnerFromUint64
  simp only
  split_ifs <;> simp

theorem innerAsUint64_some {z : Rep} {v : Nat} {n : Bool} (h : innerAsUint64 z = some (v, n))
    (hz : z.Canon) : z.abs = sgn n v ∧ v < 2 ^ 64 ∧ (n = true → v ≠ 0) ∧ z.tag ≠ .heap ∧
      v = z.w0 ∧ z.w1 = 0 := by
  obtain ⟨h0, h1, h2⟩ := hz
  rcases z with ⟨t, w0, w1, b⟩
  unfold innerAsUint64 at h
  cases t <;> simp [isInline] at h
  · obtain ⟨hw1, rfl, rfl⟩ := h
    simp_all [Rep.abs, Rep.mag, (by decide : (Tag.inlinePos == Tag.inlineNeg) = false)]
  · obtain ⟨hw1, rfl, rfl⟩ := h
    simp_all [Rep.abs, Rep.mag]

theorem innerAsUint64_none {z : Rep} (h : innerAsUint64 z = none) : z.tag = .heap ∨ z.w1 ≠ 0 := by
  rcases z with ⟨t, w0, w1, b⟩
  unfold innerAsUint64 at h
  cases t <;> simp [isInline] at h ⊢
  · exact h
  · exact h

/-! ### the inline helpers compute the signed operations -/

theorem addInline_same (xv yv : Nat) (n : Bool) :
    addInline xv yv n n = ((xv + yv) % 2 ^ 64, n, decide (xv + yv < 2 ^ 64)) := by
  simp [addInline]

theorem addInline_diff_lt {xv yv : Nat} {xn yn : Bool} (h : xn ≠ yn) (hlt : xv < yv) :
    addInline xv yv xn yn = (yv - xv, !xn, true) := by
  simp [addInline, h, hlt]

theorem addInline_diff_ge {xv yv : Nat} {xn yn : Bool} (h : xn ≠ yn) (hge : ¬ xv < yv) :
    addInline xv yv xn yn = (xv - yv, if xv = yv then false else xn, true) := by
  simp [addInline, h, hge]

theorem addInline_ok {xv yv zv : Nat} {xn yn zn : Bool} (hx : xv < 2 ^ 64) (hy : yv < 2 ^ 64)
    (h : addInline xv yv xn yn = (zv, zn, true)) :
    sgn zn zv = sgn xn xv + sgn yn yv ∧ zv < 2 ^ 64 := by
  by_cases hs : xn = yn
  · subst hs
    rw [addInline_same] at h
    simp only [Prod.mk.injEq, decide_eq_true_eq] at h
    obtain ⟨h1, h2, h3⟩ := h
    subst h2
    have : zv = xv + yv := by omega
    subst this
    cases xn <;> simp <;> omega
  · by_cases hlt : xv < yv
    · rw [addInline_diff_lt hs hlt] at h
      simp only [Prod.mk.injEq, and_true] at h
      obtain ⟨rfl, rfl⟩ := h
      cases xn <;> cases yn <;> simp at hs ⊢ <;> omega
    · rw [addInline_diff_ge hs hlt] at h
      simp only [Prod.mk.injEq, and_true] at h
      obtain ⟨rfl, rfl⟩ := h
      by_cases he : xv = yv
      · subst he; cases yn <;> simp at hs ⊢ <;> simp [hs]
      · cases xn <;> cases yn <;> simp [he] at hs ⊢ <;> omega

theorem mulInline_ok {xv yv zv : Nat} {xn yn zn : Bool}
    (h : mulInline xv yv xn yn = (zv, zn, true)) :
    sgn zn zv = sgn xn xv * sgn yn yv ∧ zv < 2 ^ 64 := by
  unfold mulInline at h
  simp only [Prod.mk.injEq, decide_eq_true_eq] at h
  obtain ⟨h1, h2, h3⟩ := h
  have hz : zv = xv * yv := by rw [← h1]; exact Nat.mod_eq_of_lt h3
  subst hz; subst h2
  refine ⟨?_, h3⟩
  cases xn <;> cases yn <;> simp [sgn]

theorem quoInline_ok {xv yv zv : Nat} {xn yn zn : Bool} (hx : xv < 2 ^ 64)
    (h : quoInline xv yv xn yn = (zv, zn, true)) :
    sgn zn zv = Int.tdiv (sgn xn xv) (sgn yn yv) ∧ zv < 2 ^ 64 ∧ yv ≠ 0 := by
  unfold quoInline at h
  split_ifs at h with hy
  · simp at h
  · simp only [beq_iff_eq] at hy
    simp only [Prod.mk.injEq, and_true] at h
    obtain ⟨h1, h2⟩ := h
    subst h1; subst h2
    refine ⟨?_, lt_of_le_of_lt (Nat.div_le_self _ _) hx, hy⟩
    cases xn <;> cases yn <;> simp [sgn]

theorem remInline_ok {xv yv zv : Nat} {xn yn zn : Bool} (hx : xv < 2 ^ 64)
    (h : remInline xv yv xn yn = (zv, zn, true)) :
    sgn zn zv = Int.tmod (sgn xn xv) (sgn yn yv) ∧ zv < 2 ^ 64 ∧ yv ≠ 0 := by
  unfold remInline at h
  split_ifs at h with hy
  · simp at h
  · simp only [beq_iff_eq] at hy
    simp only [Prod.mk.injEq, and_true] at h
    obtain ⟨h1, h2⟩ := h
    subst h1; subst h2
    refine ⟨?_, lt_of_le_of_lt (Nat.mod_le _ _) hx, hy⟩
    cases xn <;> cases yn <;>
      simp [sgn, Int.tmod_eq_emod_of_nonneg (Int.natCast_nonneg xv)]

theorem quoInline_fail {xv yv : Nat} {xn yn : Bool} {a : Nat} {b : Bool}
    (h : quoInline xv yv xn yn = (a, b, false)) : yv = 0 := by
  unfold quoInline at h
  split_ifs at h with hy
  · simpa using hy
  · simp at h

theorem remInline_fail {xv yv : Nat} {xn yn : Bool} {a : Nat} {b : Bool}
    (h : remInline xv yv xn yn = (a, b, false)) : yv = 0 := by
  unfold remInline at h
  split_ifs at h with hy
  · simpa using hy
  · simp at h

/-! ### the common fast-path prefix -/

theorem fast2_some {f : Nat → Nat → Bool → Bool → Nat × Bool × Bool} {x y : Rep} {flip : Bool}
    {zv : Nat} {zn : Bool} (h : fast2 f x y flip = some (zv, zn)) :
    ∃ xv xn yv yn, innerAsUint64 x = some (xv, xn) ∧ innerAsUint64 y = some (yv, yn) ∧
      f xv yv xn (if flip then !yn else yn) = (zv, zn, true) := by
  unfold fast2 at h
  split at h
  · simp at h
  · rename_i xv xn hx
    split at h
    · simp at h
    · rename_i yv yn hy
      split at h
      · rename_i a b hf
        simp only [Option.some.injEq, Prod.mk.injEq] at h
        obtain ⟨rfl, rfl⟩ := h
        exact ⟨xv, xn, yv, yn, hx, hy, hf⟩
      · simp at h

/-- when the fast path is not taken: an operand is not a uint64, or the helper said "not ok" -/
theorem fast2_none {f : Nat → Nat → Bool → Bool → Nat × Bool × Bool} {x y : Rep} {flip : Bool}
    (h : fast2 f x y flip = none) :
    innerAsUint64 x = none ∨ innerAsUint64 y = none ∨
    ∃ xv xn yv yn a b, innerAsUint64 x = some (xv, xn) ∧ innerAsUint64 y = some (yv, yn) ∧
      f xv yv xn (if flip then !yn else yn) = (a, b, false) := by
  unfold fast2 at h
  split at h
  · left; assumption
  · rename_i xv xn hx
    split at h
    · right; left; assumption
    · rename_i yv yn hy
      split at h
      · simp at h
      · rename_i a b hf
        right; right
        exact ⟨xv, xn, yv, yn, a, b, hx, hy, hf⟩

end Apd.BigInt
