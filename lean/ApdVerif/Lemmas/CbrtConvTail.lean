import ApdVerif.Lemmas.CbrtConvEst
import ApdVerif.Lemmas.CbrtExact
/-!
# `Context.Cbrt` converges — the tail: final rounding and exactness re-check, forwards
-/
set_option linter.unusedVariables false

namespace Apd.CbrtC
open Apd Apd.Oracle Apd.RatSpec Apd.C20L Apd.SqrtL Apd.CbrtL Apd.CbrtT Apd.CbrtR Apd.C11Q Cond

/-- `ErrDecimal` step from outcome facts only -/
theorem step_fw0 {cc : Ctx} (ht : cc.traps = defaultTraps) (e : ED) (cur : Dec) (op : Ctx → Out) (he : EDg cc e)
    (herr : (op cc).err = .none) (hflg : goError defaultTraps (op cc).fl = .none) :
    EDg cc (e.step cur op).1 ∧ (e.step cur op).2 = (op cc).d := by
  unfold ED.step
  rw [he.not_failed ht]
  simp only [Bool.false_eq_true, if_false]
  rw [he.c]
  exact ⟨⟨herr, goError_or_none _ _ he.flg hflg, rfl⟩, rfl⟩

theorem goError_default_empty : goError defaultTraps {} = .none := by decide

/-- a product that fits the precision and the exponent range is delivered exactly, with no flag -/
theorem mul_exact_fw (cc : Ctx) (p : Nat) (hw : NCtx cc p) (hp1 : 1 ≤ p) (hp2 : p ≤ 100000)
    (x y : Dec) (hx : x.form = .finite) (hy : y.form = .finite)
    (e1 : -100000 ≤ x.exp) (e2 : x.exp ≤ 100000) (e3 : -100000 ≤ y.exp) (e4 : y.exp ≤ 100000)
    (e5 : -100000 ≤ x.exp + y.exp)
    (hnd : ndigits (x.coeff * y.coeff) ≤ p)
    (hadj : x.exp + y.exp + (ndigits (x.coeff * y.coeff) : ℤ) - 1 ≤ 100000) :
    mulOp cc x y = { d := { form := .finite, neg := x.neg != y.neg, exp := x.exp + y.exp, coeff := x.coeff * y.coeff },
                     fl := {}, err := .none } := by
  have hnp := ndigits_pos (x.coeff * y.coeff)
  rw [Props.mulOp_finite cc x y hx hy]
  have hck : checkXs [x.exp, y.exp] = none := by
    rw [checkXs_none_iff]; simp; omega
  have hsum : sumInts [x.exp, y.exp] = x.exp + y.exp := by simp [sumInts]
  have hemin := hw.hemin
  have hemax := hw.hemax
  have hprec := hw.hp
  rw [setExponent_normal cc _ {} _ hck (by simp only [seAdj, hsum]; omega) (by simp only [seAdj, hsum]; omega)
    (by simp only [seAdj, hsum]; omega) (by omega), hsum, seFinish_empty]
  simp only []
  rw [ctxRound_finite cc _ rfl]
  unfold ctxRoundFin
  rw [roundX_id cc _ true rfl (by omega) (by simp only []; omega) (by omega)
    (by omega) (by simp only []; omega) (by simp only []; omega)
    (by simp only []; omega)]
  unfold finish
  simp only []
  have h0 : (({} : Cond) ||| ({} : Cond)) = {} := by decide
  rw [h0, hw.ht, goError_default_empty]

/-! ## the re-check -/

theorem cube_digits (cf P : ℕ) (hP : 1 ≤ P) (h : ndigits cf ≤ P) :
    ndigits (cf * cf) ≤ P * 3 ∧ ndigits (cf * cf * cf) ≤ P * 3 := by
  have hC : cf < 10 ^ P := lt_pow_of_ndigits_le _ _ h
  constructor
  · apply ndigits_le_of_lt_pow _ _ (by omega)
    calc cf * cf < 10 ^ P * 10 ^ P := Nat.mul_lt_mul'' hC hC
      _ = 10 ^ (P * 2) := by rw [← Nat.pow_add]; congr 1; omega
      _ ≤ 10 ^ (P * 3) := Nat.pow_le_pow_right (by decide) (by omega)
  · apply ndigits_le_of_lt_pow _ _ (by omega)
    calc cf * cf * cf < 10 ^ P * 10 ^ P * 10 ^ P := Nat.mul_lt_mul'' (Nat.mul_lt_mul'' hC hC) hC
      _ = 10 ^ (P * 3) := by rw [← Nat.pow_add, ← Nat.pow_add]; congr 1; omega

/-- the re-check of a finite result whose cube stays inside the package limits does not fail -/
theorem recheck_fw_fin (c : Ctx) (hP1 : 1 ≤ c.prec) (hP2 : c.prec ≤ 24999) (fl0 : Cond)
    (hfl0 : goError defaultTraps fl0 = .none) (z d : Dec)
    (hd : d.form = .finite) (hdn : ndigits d.coeff ≤ c.prec)
    (E1 : -100000 ≤ 3 * d.exp) (E2 : d.exp ≤ 33333)
    (A2 : 2 * d.exp + (ndigits (d.coeff * d.coeff) : ℤ) - 1 ≤ 100000)
    (A3 : 3 * d.exp + (ndigits (d.coeff * d.coeff * d.coeff) : ℤ) - 1 ≤ 100000) :
    (recheck c fl0 z d).1.failed = false := by
  have hw := CbrtE.nc3_nctx c
  have hp1 : 1 ≤ c.prec * 3 := by omega
  have hp2 : c.prec * 3 ≤ 100000 := by omega
  obtain ⟨hm1, hm2⟩ := cube_digits d.coeff c.prec hP1 hdn
  have M1 := mul_exact_fw _ _ hw hp1 hp2 d d hd hd (by omega) (by omega) (by omega) (by omega) (by omega) hm1
    (by omega)
  unfold recheck
  dsimp only
  have he0 : EDg { nc c with prec := c.prec * 3 }
      ({ c := { nc c with prec := c.prec * 3 }, fl := fl0, err := .none } : ED) := ⟨rfl, hfl0, rfl⟩
  obtain ⟨g1, v1⟩ := step_fw0 hw.ht _ z (fun cc => mulOp cc d d) he0 (by rw [M1]) (by rw [M1]; exact goError_default_empty)
  generalize ({ c := { nc c with prec := c.prec * 3 }, fl := fl0, err := .none } : ED).step z
    (fun cc => mulOp cc d d) = q1 at g1 v1 ⊢
  rw [M1] at v1
  simp only [] at v1
  have M2 := mul_exact_fw _ _ hw hp1 hp2 q1.2 d (by rw [v1]) hd (by rw [v1]; simp only []; omega)
    (by rw [v1]; simp only []; omega) (by omega) (by omega) (by rw [v1]; simp only []; omega)
    (by rw [v1]; exact hm2) (by rw [v1]; simp only []; omega)
  obtain ⟨g2, v2⟩ := step_fw0 hw.ht q1.1 q1.2 (fun cc => mulOp cc q1.2 d) g1 (by rw [M2])
    (by rw [M2]; exact goError_default_empty)
  exact g2.not_failed hw.ht

theorem mul_inf (cc : Ctx) (x y : Dec) (hx : x.form = .infinite) (hy : y.form = .infinite) :
    (mulOp cc x y).err = .none ∧ (mulOp cc x y).fl = {} ∧ (mulOp cc x y).d.form = .infinite := by
  simp [mulOp, shouldSetAsNaN, Dec.isNaN, Dec.isZero, hx, hy, decInf]

theorem recheck_fw_inf (c : Ctx) (fl0 : Cond) (hfl0 : goError defaultTraps fl0 = .none) (z d : Dec)
    (hd : d.form = .infinite) : (recheck c fl0 z d).1.failed = false := by
  have hw := CbrtE.nc3_nctx c
  unfold recheck
  dsimp only
  have he0 : EDg { nc c with prec := c.prec * 3 }
      ({ c := { nc c with prec := c.prec * 3 }, fl := fl0, err := .none } : ED) := ⟨rfl, hfl0, rfl⟩
  obtain ⟨m1, m2, m3⟩ := mul_inf { nc c with prec := c.prec * 3 } d d hd hd
  obtain ⟨g1, v1⟩ := step_fw0 hw.ht _ z (fun cc => mulOp cc d d) he0 m1 (by rw [m2]; exact goError_default_empty)
  generalize ({ c := { nc c with prec := c.prec * 3 }, fl := fl0, err := .none } : ED).step z
    (fun cc => mulOp cc d d) = q1 at g1 v1 ⊢
  obtain ⟨n1, n2, n3⟩ := mul_inf { nc c with prec := c.prec * 3 } q1.2 d (by rw [v1]; exact m3) hd
  obtain ⟨g2, v2⟩ := step_fw0 hw.ht q1.1 q1.2 (fun cc => mulOp cc q1.2 d) g1 n1 (by rw [n2]; exact goError_default_empty)
  exact g2.not_failed hw.ht

/-! ## the tail -/

/-- the caller's traps do not include a condition the final rounding can raise -/
structure TrapsOK (t : Cond) : Prop where
  inexact : t.inexact = false
  rounded : t.rounded = false
  subnormal : t.subnormal = false
  underflow : t.underflow = false
  overflow : t.overflow = false
  clamped : t.clamped = false

theorem goError_untrapped (t fl : Cond) (ht : TrapsOK t) (h : NoSys fl) (f7 : fl.divUndefined = false)
    (f8 : fl.divByZero = false) (f9 : fl.divImpossible = false) (f10 : fl.invalidOp = false) :
    goError t fl = .none := by
  obtain ⟨s1, s2⟩ := h
  obtain ⟨t1, t2, t3, t4, t5, t6⟩ := ht
  simp [goError, HAnd.hAnd, AndOp.and, Cond.and, Cond.any, s1, s2, f7, f8, f9, f10, t1, t2, t3, t4, t5, t6]

theorem near_int (n : ℤ) (t : ℚ) (hn : 1 ≤ n) (h : |(n : ℚ) - t| ≤ 1 / 2) : t / 2 ≤ (n : ℚ) ∧ (n : ℚ) ≤ 2 * t := by
  obtain ⟨l, u⟩ := abs_le.mp h
  have hn' : (1 : ℚ) ≤ (n : ℚ) := by exact_mod_cast hn
  constructor
  · rcases le_or_gt t 2 with h2 | h2 <;> linarith
  · linarith

/-- **the tail returns without error**: the final rounding raises no system flag, and neither multiplication of
the exactness re-check fails, as long as the cube of the result stays inside the package limits -/
theorem tail_fw (c : Ctx) (hc : c.WF) (ht : TrapsOK c.traps) (x : Dec) (fl0 : Cond)
    (hfl0 : goError defaultTraps fl0 = .none) (zf : Dec) (a : ℤ) (hz : Pos zf)
    (hnd : ndigits zf.coeff ≤ c.prec * 2 + 2) (hr : Rng zf.toRat (a - 1) (a + 2))
    (hr2 : zf.toRat < 2 * (10 : ℚ) ^ (a + 1)) (hr1 : (10 : ℚ) ^ a ≤ 2 * zf.toRat)
    (hP2 : c.prec ≤ 24999) (H1 : -50000 ≤ a - (2 * (c.prec : ℤ) + 2)) (H2 : a ≤ 33331)
    (C5 : -100000 ≤ 3 * (a - (c.prec : ℤ))) : (tail c x fl0 zf).err = .none := by
  obtain ⟨hP1, hPe, hemax, hemin, hemin0⟩ := hc
  have hc : c.WF := ⟨hP1, hPe, hemax, hemin, hemin0⟩
  have hcH : (cH c).WF := hc
  obtain ⟨ze1, ze2⟩ := hr.exp hz hnd
  have hnp := ndigits_pos zf.coeff
  have hadjz := adj_le hz hr.2
  have hns : NoSys (ctxRound (cH c) zf).2 :=
    round_noSys (cH c) hcH zf hz.hf (by omega) (by omega) (by omega) (by omega)
  have hA := Props.C01_roundCore (cH c) hcH zf hz.hf hns
  rw [tail_eq]
  have hfailed : (recheck c fl0 zf (resD c x zf)).1.failed = false := by
    cases hf : (ctxRound (cH c) zf).1.form with
    | infinite => exact recheck_fw_inf c fl0 hfl0 zf _ hf
    | nan =>
      exfalso
      have := Rat_matches_nan (specRound (cH c) (exactRound zf)) _ (by rw [hf]; decide) (by rw [hf]; decide)
      rw [hA.1] at this; exact Bool.noConfusion this
    | nanSignaling =>
      exfalso
      have := Rat_matches_nan (specRound (cH c) (exactRound zf)) _ (by rw [hf]; decide) (by rw [hf]; decide)
      rw [hA.1] at this; exact Bool.noConfusion this
    | finite =>
      obtain ⟨az, q, n, had, hqd, ha, hn0, hv, hnear, hneg, hDnd, het, -⟩ := round_facts c hc zf hz _ _ hA hf
      have hzp := hz.toRat_pos
      have hq := tp q
      -- the adjusted exponent of the iterate
      have haz1 : a - 1 ≤ az := by
        have := lt_of_le_of_lt hr.1 ha.2
        rw [zpow_lt_zpow_iff_right₀ ten_gt] at this
        omega
      have haz2 : az ≤ a + 1 := by
        have := lt_of_le_of_lt ha.1 hr.2
        rw [zpow_lt_zpow_iff_right₀ ten_gt] at this
        omega
      have hshape : (ctxRound (cH c) zf).1.coeff = 0 → (ctxRound (cH c) zf).1.exp = c.emin - (c.prec : ℤ) + 1 ∧
          az < c.emin - (c.prec : ℤ) + 1 := by
        intro hD0
        have hDv : (ctxRound (cH c) zf).1.toRat = 0 := by unfold Dec.toRat; rw [hD0]; simp
        have hn : n = 0 := by
          rw [hDv] at hv
          rcases mul_eq_zero.1 hv.symm with h1 | h1
          · exact_mod_cast h1
          · exact absurd h1 hq.ne'
        rw [hn] at hnear
        simp only [Int.cast_zero, zero_sub, abs_neg] at hnear
        have hzq : zf.toRat < (10 : ℚ) ^ q := by
          rw [abs_of_pos (div_pos hzp hq), div_le_iff₀ hq] at hnear
          linarith
        have haq := lt_of_le_of_lt ha.1 hzq
        rw [zpow_lt_zpow_iff_right₀ ten_gt] at haq
        have := round_sub_shape (cH c) zf hP1 (by show c.emin ≤ 100000; omega) hz.hf (by have := hz.h0; omega)
          (by omega) (by omega) (by show _ < c.emin; omega) (by omega) (by show _ < c.emin - (c.prec : ℤ) + 1; omega)
        exact ⟨this.2.2.2.1, by omega⟩
      generalize hDdef : (ctxRound (cH c) zf).1 = D at hf hv hneg hDnd het hshape
      have hres : resD c x zf = ⟨D.form, x.neg, D.exp, D.coeff⟩ := by unfold resD; rw [hDdef]
      rw [hres]
      by_cases hD0 : D.coeff = 0
      · obtain ⟨s1, s2⟩ := hshape hD0
        apply recheck_fw_fin c hP1 hP2 fl0 hfl0 zf ⟨D.form, x.neg, D.exp, D.coeff⟩ hf hDnd
        · show -100000 ≤ 3 * D.exp; omega
        · show D.exp ≤ 33333; omega
        · show 2 * D.exp + (ndigits (D.coeff * D.coeff) : ℤ) - 1 ≤ 100000
          rw [hD0]; simp only [Nat.mul_zero, MulL.ndigits_zero]; omega
        · show 3 * D.exp + (ndigits (D.coeff * D.coeff * D.coeff) : ℤ) - 1 ≤ 100000
          rw [hD0]; simp only [Nat.mul_zero, MulL.ndigits_zero]; omega
      · have hDpos : Pos D := ⟨hf, hneg, Nat.pos_of_ne_zero hD0⟩
        have hn1 : 1 ≤ n := by
          rcases lt_or_ge n 1 with hlt | hge
          · exfalso
            have : n = 0 := by omega
            rw [this] at hv
            simp only [Int.cast_zero, zero_mul] at hv
            have := hDpos.toRat_pos
            linarith
          · exact hge
        obtain ⟨k1, k2⟩ := near_int n (zf.toRat / (10 : ℚ) ^ q) hn1 hnear
        have hDlo : zf.toRat / 2 ≤ D.toRat := by
          rw [hv]
          have := mul_le_mul_of_nonneg_right k1 hq.le
          have e : zf.toRat / (10 : ℚ) ^ q / 2 * (10 : ℚ) ^ q = zf.toRat / 2 := by field_simp
          linarith
        have hDhi : D.toRat ≤ 2 * zf.toRat := by
          rw [hv]
          have := mul_le_mul_of_nonneg_right k2 hq.le
          have e : 2 * (zf.toRat / (10 : ℚ) ^ q) * (10 : ℚ) ^ q = 2 * zf.toRat := by field_simp
          linarith
        have hDr : Rng D.toRat (a - 1) (a + 2) := by
          constructor
          · rw [zpow_sub_one₀ ten_ne]
            have := tp a
            linarith
          · rw [show a + 2 = a + 1 + 1 by ring, zpow_add_one₀ ten_ne]
            have := tp (a + 1)
            linarith
        obtain ⟨x1, x2⟩ := hDr.exp hDpos hDnd
        have hDadj := adj_le hDpos hDr.2
        have hDnp := ndigits_pos D.coeff
        have m2 := ndigits_mul_le D.coeff D.coeff hDpos.h0 hDpos.h0
        have m3 := ndigits_mul_le (D.coeff * D.coeff) D.coeff (Nat.mul_pos hDpos.h0 hDpos.h0) hDpos.h0
        apply recheck_fw_fin c hP1 hP2 fl0 hfl0 zf ⟨D.form, x.neg, D.exp, D.coeff⟩ hf hDnd
        · show -100000 ≤ 3 * D.exp; omega
        · show D.exp ≤ 33333; omega
        · show 2 * D.exp + (ndigits (D.coeff * D.coeff) : ℤ) - 1 ≤ 100000; omega
        · show 3 * D.exp + (ndigits (D.coeff * D.coeff * D.coeff) : ℤ) - 1 ≤ 100000; omega
  rw [if_neg (by rw [hfailed]; exact Bool.false_ne_true)]
  split_ifs
  · rfl
  · show goError c.traps (ctxRound (cH c) zf).2 = .none
    obtain ⟨-, -, -, -, -, -, f7, f8, f9, f10⟩ := hA.2.1
    exact goError_untrapped _ _ ht hns f7 f8 f9 f10

/-! ## backwards: what a non-failed re-check says about the exponent of the result -/

/-- a multiplication under the working context that returned no error, with a product of at most `p` digits, was
exact — and the sum of the operands' exponents is at least -100000 -/
theorem mul_err_shape (cc : Ctx) (p : Nat) (hw : NCtx cc p) (hp1 : 1 ≤ p) (hp2 : p ≤ 100000)
    (x y : Dec) (hx : x.form = .finite) (hy : y.form = .finite) (hnd : ndigits (x.coeff * y.coeff) ≤ p)
    (he : (mulOp cc x y).err = .none) :
    -100000 ≤ x.exp + y.exp ∧
    mulOp cc x y = { d := { form := .finite, neg := x.neg != y.neg, exp := x.exp + y.exp, coeff := x.coeff * y.coeff },
                     fl := {}, err := .none } := by
  have hemin := hw.hemin
  have hemax := hw.hemax
  have hprec := hw.hp
  have herr : (mulOp cc x y).err = goError cc.traps (mulOp cc x y).fl := by
    rw [Props.mulOp_finite cc x y hx hy]; rfl
  rw [he, hw.ht] at herr
  have hns := (goError_default _ herr.symm).1
  rw [Props.mulOp_finite cc x y hx hy] at hns
  simp only [finish] at hns
  obtain ⟨n1, n2⟩ := MulL.noSys_or.1 hns
  obtain ⟨k1, k2, k3⟩ := MulL.setExponent_noSys n1
  obtain ⟨a1, a2, k4⟩ := MulL.checkXs_cons k1
  obtain ⟨b1, b2, -⟩ := MulL.checkXs_cons k4
  have hsum : sumInts [x.exp, y.exp] = x.exp + y.exp := by simp [sumInts]
  rw [hsum] at k2 k3
  simp only [] at k2 k3
  have hnorm := setExponent_normal cc { form := .finite, neg := x.neg != y.neg, exp := 0, coeff := x.coeff * y.coeff }
    {} [x.exp, y.exp] k1 (by simp only [seAdj, hsum]; omega) (by simp only [seAdj, hsum]; omega)
    (by simp only [seAdj, hsum]; omega) (by omega)
  rw [hnorm, hsum, seFinish_empty] at n2
  simp only [] at n2
  rw [ctxRound_finite cc _ rfl] at n2
  have := (MulL.roundX_noSys_exp cc _ (by omega) n2).1
  simp only [] at this
  exact ⟨this, mul_exact_fw cc p hw hp1 hp2 x y hx hy a1 a2 b1 b2 this hnd (by omega)⟩

end Apd.CbrtC

#print axioms Apd.CbrtC.tail_fw
