import ApdVerif.Lemmas.SqrtExactInv
import ApdVerif.Lemmas.SqrtIter
import Mathlib.Data.Nat.Prime.Basic
/-!
# The Sqrt loop locks onto a terminating decimal root
-/
namespace Apd.SqrtX
open Apd Apd.Oracle Apd.RatSpec Apd.C20L Apd.SqrtD Apd.SqrtL Apd.SqrtI

/-- strip the trailing zeros of a positive natural number -/
theorem strip10 : ∀ n : ℕ, 0 < n → ∃ j m : ℕ, n = m * 10 ^ j ∧ ¬ 10 ∣ m := by
  intro n
  induction n using Nat.strong_induction_on with
  | _ n ih =>
    intro hn
    by_cases h : 10 ∣ n
    · obtain ⟨t, ht⟩ := h
      have ht0 : 0 < t := by omega
      obtain ⟨j, m, e, hm⟩ := ih t (by omega) ht0
      exact ⟨j + 1, m, by rw [ht, e, pow_succ]; ring, hm⟩
    · exact ⟨0, n, by simp, h⟩

theorem ten_dvd_of_sq (m : ℕ) (h : 10 ∣ m ^ 2) : 10 ∣ m := by
  have h2 : 2 ∣ m := Nat.prime_two.dvd_of_dvd_pow (dvd_trans (by norm_num) h)
  have h5 : 5 ∣ m := Nat.prime_five.dvd_of_dvd_pow (dvd_trans (by norm_num) h)
  omega

/-- a decimal `X·10^ex` that is the square of `m·10^(-g)` with `10 ∤ m` has `ex ≤ -2g` -/
theorem sq_exp (X m g : ℕ) (ex : ℤ) (hm : ¬ 10 ∣ m)
    (h : (X : ℚ) * (10 : ℚ) ^ ex = ((m : ℚ) * (10 : ℚ) ^ (-(g : ℤ))) ^ 2) : ex ≤ -(2 * g : ℤ) := by
  by_contra hc
  rw [not_le] at hc
  obtain ⟨n, hn⟩ : ∃ n : ℕ, ex = -(2 * g : ℤ) + (n + 1 : ℕ) := ⟨(ex + 2 * g - 1).toNat, by omega⟩
  have h1 : (X : ℚ) * (10 : ℚ) ^ (n + 1) = (m : ℚ) ^ 2 := by
    have e : ((m : ℚ) * (10 : ℚ) ^ (-(g : ℤ))) ^ 2 = (m : ℚ) ^ 2 * (10 : ℚ) ^ (-(2 * g : ℤ)) := by
      have e2 : ((10 : ℚ) ^ (-(g : ℤ))) ^ 2 = (10 : ℚ) ^ (-(2 * g : ℤ)) := by
        rw [← zpow_natCast, ← zpow_mul]; congr 1; push_cast; ring
      rw [mul_pow, e2]
    rw [e, hn, zpow_add₀ ten_ne, zpow_natCast] at h
    have hp := tp (-(2 * g : ℤ))
    have : (X : ℚ) * (10 : ℚ) ^ (n + 1) * (10 : ℚ) ^ (-(2 * g : ℤ)) = (m : ℚ) ^ 2 * (10 : ℚ) ^ (-(2 * g : ℤ)) := by
      rw [← h]; ring
    exact mul_right_cancel₀ hp.ne' this
  have h2 : X * 10 ^ (n + 1) = m ^ 2 := by exact_mod_cast h1
  apply hm
  apply ten_dvd_of_sq
  rw [← h2, pow_succ]
  exact ⟨X * 10 ^ n, by ring⟩

/-- the root of the scaled operand, when it is a decimal, is `m·10^(-g)` with `2g + 4 ≤ workp + 5`: the
operand itself has at least `2g - 1` digits -/
theorem root_grid (c : Ctx) (x : Dec) (h : Dom c x) (R : ℕ) (k : ℤ)
    (hsq : (f x).toRat = ((R : ℚ) * (10 : ℚ) ^ k) ^ 2) :
    ∃ g m : ℕ, (R : ℚ) * (10 : ℚ) ^ k = (m : ℚ) * (10 : ℚ) ^ (-(g : ℤ)) ∧ 2 * g + 4 ≤ workp c x + 5 ∧
      1 / 10 ≤ (R : ℚ) * (10 : ℚ) ^ k ∧ (R : ℚ) * (10 : ℚ) ^ k < 1 := by
  obtain ⟨F1, F2⟩ := F_range c x h
  obtain ⟨f1, f2, f3, f4, f5, f6⟩ := f_facts c x h
  obtain ⟨w1, w2, w3⟩ := SqrtL.workp_facts c x
  have hk := tp k
  have hR : 0 < R := by
    rcases Nat.eq_zero_or_pos R with h0 | h0
    · rw [h0] at hsq; simp at hsq; rw [hsq] at F1; norm_num at F1
    · exact h0
  have hRq : (0 : ℚ) < R := by exact_mod_cast hR
  have hr0 : 0 < (R : ℚ) * (10 : ℚ) ^ k := by positivity
  rw [hsq] at F1 F2
  have hr1 : 1 / 10 ≤ (R : ℚ) * (10 : ℚ) ^ k := by nlinarith
  have hr2 : (R : ℚ) * (10 : ℚ) ^ k < 1 := by nlinarith
  obtain ⟨j, m, hjm, hm⟩ := strip10 R hR
  have hm0 : 0 < m := by
    rcases Nat.eq_zero_or_pos m with h0 | h0
    · exact absurd (h0 ▸ dvd_zero 10) hm
    · exact h0
  have hm1 : (1 : ℚ) ≤ m := by exact_mod_cast hm0
  have e1 : (R : ℚ) * (10 : ℚ) ^ k = (m : ℚ) * (10 : ℚ) ^ ((j : ℤ) + k) := by
    rw [hjm, zpow_add₀ ten_ne, zpow_natCast]; push_cast; ring
  have ht : (j : ℤ) + k < 0 := by
    by_contra hc
    rw [not_lt] at hc
    have : (1 : ℚ) ≤ (10 : ℚ) ^ ((j : ℤ) + k) := one_le_zpow₀ ten_ge hc
    have : (1 : ℚ) ≤ (m : ℚ) * (10 : ℚ) ^ ((j : ℤ) + k) := by nlinarith
    rw [← e1] at this; linarith
  obtain ⟨g, hg⟩ : ∃ g : ℕ, (j : ℤ) + k = -(g : ℤ) := ⟨(-((j : ℤ) + k)).toNat, by omega⟩
  rw [hg] at e1
  refine ⟨g, m, e1, ?_, hr1, hr2⟩
  rw [e1, f1.toRat_eq] at hsq
  have := sq_exp _ m g _ hm hsq
  have hexp : -(ndigits x.coeff : ℤ) - 1 ≤ (f x).exp := by
    unfold f; simp only []; split_ifs <;> omega
  omega

/-- the closeness clause of `Inv`, read over `ℚ` when the root is rational -/
theorem inv_rat (c : Ctx) (x : Dec) (e : ED) (A : Dec) (p : ℕ) (hI : Inv c x e A p) (r : ℚ) (hr : 0 ≤ r)
    (hF : (f x).toRat = r ^ 2) : |A.toRat - r| ≤ r / 10 := by
  have hs : Real.sqrt (((f x).toRat : ℚ) : ℝ) = (r : ℝ) := by
    rw [hF]; push_cast; exact Real.sqrt_sq (by exact_mod_cast hr)
  have hc := hI.close
  rw [hs] at hc
  have hH1 : (10 : ℝ) ^ (2 - (p : ℤ)) ≤ 1 / 10 := by
    have : (10 : ℝ) ^ (2 - (p : ℤ)) ≤ (10 : ℝ) ^ (-1 : ℤ) :=
      zpow_le_zpow_right₀ (by norm_num) (by have := hI.p3; omega)
    have e : (10 : ℝ) ^ (-1 : ℤ) = 1 / 10 := by norm_num
    rw [e] at this; exact this
  have hr' : (0 : ℝ) ≤ (r : ℝ) := by exact_mod_cast hr
  have h2 : |((A.toRat : ℚ) : ℝ) - (r : ℝ)| ≤ (r : ℝ) / 10 := by
    have := mul_le_mul_of_nonneg_right hH1 hr'
    linarith
  have h3 : ((|A.toRat - r| : ℚ) : ℝ) ≤ ((r / 10 : ℚ) : ℝ) := by push_cast; exact h2
  exact_mod_cast h3

/-- the sharp invariant of the loop, on top of `Inv` -/
structure SInv (c : Ctx) (x : Dec) (r : ℚ) (g : ℕ) (e : ED) (A : Dec) (p : ℕ) : Prop where
  inv : Inv c x e A p
  sharp : |A.toRat - r| ≤ Bd r g p * (10 : ℚ) ^ (-(p : ℤ))
  nd : 4 ≤ p → ndigits A.coeff ≤ p
  pv : p = 3 ∨ p = 4 ∨ p = 6 ∨ 10 ≤ p
  fin : p = workp c x + 5 → A.toRat = r

theorem sinv_init (c : Ctx) (x : Dec) (h : Dom c x) (r : ℚ) (g : ℕ) (hr : 0 ≤ r) (hF : (f x).toRat = r ^ 2) :
    SInv c x r g (init c x).1 (init c x).2 3 := by
  have hI := inv_init c x h
  obtain ⟨w1, w2, w3⟩ := SqrtL.workp_facts c x
  refine ⟨hI, ?_, by omega, Or.inl rfl, by omega⟩
  have := inv_rat c x _ _ 3 hI r hr hF
  have e : Bd r g 3 * (10 : ℚ) ^ (-((3 : ℕ) : ℤ)) = r / 10 := by
    unfold Bd; norm_num; ring
  rw [e]; exact this

/-- an iterate of at most `n < P` digits is a multiple of `10^(-P)` -/
theorem dec_grid (A : Dec) (hA : Pos A) (n P : ℕ) (hn : ndigits A.coeff ≤ n) (hlo : 9 / 100 ≤ A.toRat)
    (hP : n + 1 ≤ P) : ∃ m : ℤ, A.toRat = (m : ℚ) * (10 : ℚ) ^ (-(P : ℤ)) := by
  have h1 := adj_gt hA (k := -2) (by rw [tm2]; linarith)
  obtain ⟨t, ht⟩ : ∃ t : ℕ, A.exp = -(P : ℤ) + (t : ℤ) := ⟨(A.exp + P).toNat, by omega⟩
  refine ⟨A.coeff * 10 ^ t, ?_⟩
  rw [hA.toRat_eq, ht, zpow_add₀ ten_ne, zpow_natCast]; push_cast; ring

theorem nextP_gt (p maxp : ℕ) (hp : 3 ≤ p) (hm : p ≤ maxp) (hne : p ≠ maxp) : p < nextP p maxp := by
  unfold nextP; split_ifs <;> omega

/-- the fixed data of the lock-in proof: the root `r = m·10^(-g)` of the scaled operand -/
structure Root (c : Ctx) (x : Dec) (r : ℚ) (g : ℕ) : Prop where
  dom : Dom c x
  hF : (f x).toRat = r ^ 2
  hr1 : 1 / 10 ≤ r
  hr2 : r < 1
  grid : ∃ m : ℤ, r = (m : ℚ) * (10 : ℚ) ^ (-(g : ℤ))
  hg : 2 * g + 4 ≤ workp c x + 5

theorem sinv_step (c : Ctx) (x : Dec) (r : ℚ) (g : ℕ) (hR : Root c x r g) (e : ED) (A : Dec) (p : ℕ)
    (hS : SInv c x r g e A p) (hne : p ≠ workp c x + 5) :
    SInv c x r g (round1 e (f x) A (nextP p (workp c x + 5))).1 (round1 e (f x) A (nextP p (workp c x + 5))).2
      (nextP p (workp c x + 5)) := by
  have h := hR.dom
  have hI := hS.inv
  have hInext := inv_step c x h e A p hI
  obtain ⟨w1, w2, w3⟩ := SqrtL.workp_facts c x
  have hd := h.hd
  have hp3 := hI.p3
  have hpm := hI.pm
  obtain ⟨n1, n2, n3⟩ := nextP_facts p (workp c x + 5) hI.p3 (by omega)
  have ngt := nextP_gt p (workp c x + 5) hp3 hpm hne
  obtain ⟨f1, f2, f3, f4, f5, f6⟩ := f_facts c x h
  have hr1 := hR.hr1
  have hr2 := hR.hr2
  have hcl := inv_rat c x e A p hI r (by linarith) hR.hF
  obtain ⟨c1, c2⟩ := abs_le.1 hcl
  have q1 : 9 / 100 ≤ A.toRat := by linarith
  have q2 : A.toRat ≤ 11 / 10 := by linarith
  have q3 : A.toRat ≤ 11 * (f x).toRat := by rw [hR.hF]; nlinarith
  have q4 : (f x).toRat ≤ 2 * A.toRat := by rw [hR.hF]; nlinarith
  -- the level facts of nextP
  have hlv : (p < 4 → nextP p (workp c x + 5) < 6) ∧ (p < 6 → nextP p (workp c x + 5) < 10) ∧
      (4 ≤ p → 6 ≤ nextP p (workp c x + 5)) ∧ (6 ≤ p → 10 ≤ nextP p (workp c x + 5)) ∧
      (nextP p (workp c x + 5) = 3 ∨ nextP p (workp c x + 5) = 4 ∨ nextP p (workp c x + 5) = 6 ∨
        10 ≤ nextP p (workp c x + 5)) ∧
      (nextP p (workp c x + 5) = workp c x + 5 → 10 ≤ p ∧ g + 3 ≤ p) := by
    have hg := hR.hg
    have pv := hS.pv
    unfold nextP
    split_ifs <;> omega
  obtain ⟨l1, l2, l3, l4, l5, l6⟩ := hlv
  generalize hP : nextP p (workp c x + 5) = P at *
  obtain ⟨r1, r2, r3, r4, -⟩ :=
    round1_ok e hI.ed (f x) A P n1 (by omega) f1 (by omega) (by omega) (by omega) hI.pos (by have := hI.nd; omega)
      q1 q2 q3 q4
  obtain ⟨qh, sh, R1, R2, R3⟩ :=
    round1_rnd e hI.ed (f x) A P n1 (by omega) f1 (by omega) (by omega) (by omega) hI.pos (by have := hI.nd; omega)
      q1 q2 q3 q4
  rw [hR.hF] at R1
  have hSt : StepHyp r g p P A.toRat qh sh (round1 e (f x) A P).2.toRat :=
    ⟨hr1, hr2, hp3, ngt, n2, l1, l2, l3, l4, by linarith, by linarith, ⟨R1, R2, R3⟩, hS.sharp⟩
  obtain ⟨m, hm⟩ := hR.grid
  refine ⟨hInext, hSt.step m hm, fun _ => r4, l5, ?_⟩
  intro hfin
  obtain ⟨p10, pg⟩ := l6 hfin
  obtain ⟨mA, hmA⟩ := dec_grid A hI.pos p P (hS.nd (by omega)) q1 (by omega)
  exact hSt.lock m hm p10 pg mA hmA

theorem sloop_inv (c : Ctx) (x : Dec) (r : ℚ) (g : ℕ) (hR : Root c x r g) : ∀ (fuel : Nat) (e : ED) (A : Dec) (p : Nat),
    SInv c x r g e A p → workp c x + 5 - 2 ≤ 2 ^ fuel * (p - 2) →
    SInv c x r g (sqrtLoop fuel e (f x) A p (workp c x + 5)).1 (sqrtLoop fuel e (f x) A p (workp c x + 5)).2
      (workp c x + 5) := by
  intro fuel
  induction fuel with
  | zero =>
    intro e A p hS hm
    have h3 := hS.inv.p3
    have hpm := hS.inv.pm
    have hp : p = workp c x + 5 := by simp only [Nat.pow_zero, Nat.one_mul] at hm; omega
    have e0 : sqrtLoop 0 e (f x) A p (workp c x + 5) = (e, A) := rfl
    rw [e0, ← hp]; exact hS
  | succ fuel ih =>
    intro e A p hS hm
    rw [sqrtLoop_succ]
    by_cases hp : p = workp c x + 5
    · have : (p == workp c x + 5) = true := by simpa using hp
      rw [this, if_pos rfl, ← hp]; exact hS
    · have : (p == workp c x + 5) = false := by simpa using hp
      rw [this]
      simp only [Bool.false_eq_true, if_false]
      apply ih _ _ _ (sinv_step c x r g hR e A p hS hp)
      have h3 := hS.inv.p3
      have hpm := hS.inv.pm
      have hk : 1 ≤ 2 ^ fuel := Nat.one_le_two_pow
      unfold nextP
      split_ifs with hgt
      · calc workp c x + 5 - 2 = 1 * (workp c x + 5 - 2) := by omega
          _ ≤ 2 ^ fuel * (workp c x + 5 - 2) := Nat.mul_le_mul_right _ hk
      · have e1 : 2 * p - 2 - 2 = 2 * (p - 2) := by omega
        rw [e1, ← Nat.mul_assoc, ← Nat.pow_succ]
        exact hm

/-- **lock-in**: the iterate the loop ends with is the root, when that is a decimal fraction `m·10^(-g)` -/
theorem iter_root (c : Ctx) (x : Dec) (r : ℚ) (g : ℕ) (hR : Root c x r g) : (iter c x).2.toRat = r := by
  obtain ⟨w1, w2, w3⟩ := SqrtL.workp_facts c x
  have hd := hR.dom.hd
  have hS : SInv c x r g (iter c x).1 (iter c x).2 (workp c x + 5) := by
    apply sloop_inv c x r g hR 64 _ _ 3 (sinv_init c x hR.dom r g (by linarith [hR.hr1]) hR.hF)
    have : workp c x + 5 - 2 ≤ 2 ^ 17 := by norm_num; omega
    calc workp c x + 5 - 2 ≤ 2 ^ 17 := this
      _ ≤ 2 ^ 64 * (3 - 2) := by norm_num
  exact hS.fin rfl

end Apd.SqrtX

#print axioms Apd.SqrtX.iter_root
