import ApdVerif.Lemmas.CbrtLemmas
/-!
# `Context.Cbrt`: the final rounding of the last iterate, against the specification

The last iterate `z` has `(z(1-τ))³ ≤ |x| ≤ (z(1+τ))³`, `τ = 3·10^(-2P)` (`Lemmas/CbrtLemmas.lean`, `last_iter`).
`Cbrt` rounds it half-even to `P` digits (`C01_roundCore`: the result is the specification's rounding of `z`).
-/
set_option linter.unusedVariables false

namespace Apd.CbrtT
open Apd Apd.Oracle Apd.RatSpec Apd.C20L Apd.SqrtL Apd.CbrtL Apd.C11Q Cond

/-- the context of the final rounding -/
def cH (c : Ctx) : Ctx := { c with mode := .halfEven }

theorem cube_zpow (k : ℤ) : ((10 : ℚ) ^ k) ^ 3 = (10 : ℚ) ^ (3 * k) := by
  rw [← zpow_natCast, ← zpow_mul]; congr 1; ring

theorem tau_le (P : ℕ) (hP : 1 ≤ P) :
    0 < 3 * ((10 : ℚ) ^ (-(P : ℤ))) ^ 2 ∧ 3 * ((10 : ℚ) ^ (-(P : ℤ))) ^ 2 ≤ 3 / 100 := by
  have h1 := ten_negP P hP
  have h0 := tp (-(P : ℤ))
  constructor
  · positivity
  · nlinarith

/-- the last iterate lies well inside the package's exponent range -/
theorem z_range (P : ℕ) (hP : 1 ≤ P) (z X : ℚ) (hz : 0 < z)
    (hX1 : (10 : ℚ) ^ (-100000 : ℤ) ≤ X) (hX2 : X < (10 : ℚ) ^ (100001 : ℤ))
    (c1 : (z * (1 - 3 * ((10 : ℚ) ^ (-(P : ℤ))) ^ 2)) ^ 3 ≤ X)
    (c2 : X ≤ (z * (1 + 3 * ((10 : ℚ) ^ (-(P : ℤ))) ^ 2)) ^ 3) :
    (10 : ℚ) ^ (-33335 : ℤ) ≤ z ∧ z < (10 : ℚ) ^ (33335 : ℤ) := by
  obtain ⟨t0, t1⟩ := tau_le P hP
  generalize 3 * ((10 : ℚ) ^ (-(P : ℤ))) ^ 2 = τ at *
  constructor
  · by_contra h
    have h := lt_of_not_ge h
    have e1 : (10 : ℚ) ^ (-33334 : ℤ) = (10 : ℚ) ^ (-33335 : ℤ) * 10 := by
      rw [show (-33334 : ℤ) = -33335 + 1 by norm_num, zpow_add₀ ten_ne]; norm_num
    have h2 : z * (1 + τ) < (10 : ℚ) ^ (-33334 : ℤ) := by
      rw [e1]
      have hB := tp (-33335 : ℤ)
      have h5 : z * τ ≤ z * (3 / 100) := mul_le_mul_of_nonneg_left t1 hz.le
      generalize (10 : ℚ) ^ (-33335 : ℤ) = B at h hB ⊢
      have e : z * (1 + τ) = z + z * τ := by ring
      rw [e]; linarith only [h, hB, h5]
    have h3 : (z * (1 + τ)) ^ 3 < ((10 : ℚ) ^ (-33334 : ℤ)) ^ 3 :=
      pow_lt_pow_left₀ h2 (by positivity) (by norm_num)
    rw [cube_zpow] at h3
    have h4 : (10 : ℚ) ^ (3 * (-33334) : ℤ) ≤ (10 : ℚ) ^ (-100000 : ℤ) :=
      zpow_le_zpow_right₀ ten_gt.le (by norm_num)
    linarith
  · by_contra h
    have h := le_of_not_gt h
    have e1 : (10 : ℚ) ^ (33335 : ℤ) = (10 : ℚ) ^ (33334 : ℤ) * 10 := by
      rw [show (33335 : ℤ) = 33334 + 1 by norm_num, zpow_add₀ ten_ne]; norm_num
    have h2 : (10 : ℚ) ^ (33334 : ℤ) ≤ z * (1 - τ) := by
      rw [e1] at h
      have hB := tp (33334 : ℤ)
      have h5 : z * τ ≤ z * (3 / 100) := mul_le_mul_of_nonneg_left t1 hz.le
      generalize (10 : ℚ) ^ (33334 : ℤ) = B at h hB ⊢
      have e : z * (1 - τ) = z - z * τ := by ring
      rw [e]; linarith only [h, hB, h5]
    have h3 : ((10 : ℚ) ^ (33334 : ℤ)) ^ 3 ≤ (z * (1 - τ)) ^ 3 :=
      pow_le_pow_left₀ (tp _).le h2 3
    rw [cube_zpow] at h3
    have h4 : (10 : ℚ) ^ (100001 : ℤ) ≤ (10 : ℚ) ^ (3 * 33334 : ℤ) :=
      zpow_le_zpow_right₀ ten_gt.le (by norm_num)
    linarith

theorem magQ_range (x : Dec) (hx : x.form = .finite) (h0 : x.coeff ≠ 0) (hw : x.WF) :
    (10 : ℚ) ^ (-100000 : ℤ) ≤ magQ x ∧ magQ x < (10 : ℚ) ^ (100001 : ℤ) := by
  obtain ⟨w1, w2, w3, w4⟩ := hw
  have hP := absD_pos x hx h0
  obtain ⟨b1, b2⟩ := toRat_bounds hP
  rw [absD_toRat] at b1 b2
  have e1 : x.absD.exp = x.exp := rfl
  have e2 : x.absD.coeff = x.coeff := rfl
  rw [e1, e2] at b1 b2
  constructor
  · exact le_trans (zpow_le_zpow_right₀ ten_gt.le (by omega)) b1
  · exact lt_of_lt_of_le b2 (zpow_le_zpow_right₀ ten_gt.le (by omega))

/-- what is known about the iterate that `Cbrt` rounds -/
structure Iter (c : Ctx) (x z : Dec) : Prop where
  pos : Pos z
  nd : ndigits z.coeff ≤ c.prec * 2 + 2
  lo : (z.toRat * (1 - 3 * ((10 : ℚ) ^ (-(c.prec : ℤ))) ^ 2)) ^ 3 ≤ magQ x
  hi : magQ x ≤ (z.toRat * (1 + 3 * ((10 : ℚ) ^ (-(c.prec : ℤ))) ^ 2)) ^ 3

theorem Iter.exp_range {c : Ctx} {x z : Dec} (h : Iter c x z) (hc : c.WF) (hp : c.prec * 3 + 2 ≤ 100000)
    (hx : x.form = .finite) (h0 : x.coeff ≠ 0) (hw : x.WF) :
    -100000 ≤ z.exp ∧ z.exp + (ndigits z.coeff : ℤ) ≤ 33335 := by
  obtain ⟨m1, m2⟩ := magQ_range x hx h0 hw
  obtain ⟨r1, r2⟩ := z_range c.prec hc.1 z.toRat (magQ x) h.pos.toRat_pos m1 m2 h.lo h.hi
  have a1 := adj_gt h.pos r1
  have a2 := adj_le h.pos r2
  have := h.nd
  constructor <;> omega

/-- the final rounding agrees with the specification -/
theorem final_agrees (c : Ctx) (hc : c.WF) (hp : c.prec * 3 + 2 ≤ 100000)
    (x : Dec) (hx : x.form = .finite) (h0 : x.coeff ≠ 0) (hw : x.WF) (z : Dec) (h : Iter c x z) :
    NoSys (ctxRound (cH c) z).2 ∧
    Agrees (cH c) (exactRound z) (ctxRound (cH c) z).1 (ctxRound (cH c) z).2 := by
  obtain ⟨e1, e2⟩ := h.exp_range hc hp hx h0 hw
  have hnp := ndigits_pos z.coeff
  have hcH : (cH c).WF := hc
  have hns : NoSys (ctxRound (cH c) z).2 :=
    round_noSys (cH c) hcH z h.pos.hf e1 (by omega) (by have := h.nd; omega) (by omega)
  exact ⟨hns, Props.C01_roundCore (cH c) hcH z h.pos.hf hns⟩


/-! ## within one unit in the last place -/

/-- the arithmetic of "within one ulp": `Dv = M·10^u` is the rounding of `z` to a quantum `10^q ≤ 10^u`, and the
cube root of `X` is within `3·10^(-2P)·z` of `z` -/
theorem ulp_core (P : ℕ) (hP : 1 ≤ P) (z X Dv : ℚ) (a q u : ℤ) (M : ℕ) (hz : IsAdj z a)
    (hq : q ≤ u) (hqa : a - (P : ℤ) + 1 ≤ q) (hD : Dv = (M : ℚ) * (10 : ℚ) ^ u)
    (hr : |Dv - z| ≤ (10 : ℚ) ^ q / 2) (hX : 0 ≤ X)
    (c1 : (z * (1 - 3 * ((10 : ℚ) ^ (-(P : ℤ))) ^ 2)) ^ 3 ≤ X)
    (c2 : X ≤ (z * (1 + 3 * ((10 : ℚ) ^ (-(P : ℤ))) ^ 2)) ^ 3) :
    ((((M - 1 : ℕ) : ℕ) : ℚ) * (10 : ℚ) ^ u) ^ 3 ≤ X ∧ X ≤ (((M : ℚ) + 1) * (10 : ℚ) ^ u) ^ 3 := by
  obtain ⟨z1, z2⟩ := hz
  have hz0 : 0 < z := lt_of_lt_of_le (tp a) z1
  have ht1 := ten_negP P hP
  have ht0 := tp (-(P : ℤ))
  have hU := tp u
  have hQ := tp q
  have hQU : (10 : ℚ) ^ q ≤ (10 : ℚ) ^ u := zpow_le_zpow_right₀ ten_gt.le hq
  have hW := tp (a - (P : ℤ) + 1)
  have hWQ : (10 : ℚ) ^ (a - (P : ℤ) + 1) ≤ (10 : ℚ) ^ q := zpow_le_zpow_right₀ ten_gt.le hqa
  have ea : (10 : ℚ) ^ (a + 1) * (10 : ℚ) ^ (-(P : ℤ)) = (10 : ℚ) ^ (a - (P : ℤ) + 1) := by
    rw [← zpow_add₀ ten_ne]; congr 1; ring
  generalize (10 : ℚ) ^ (-(P : ℤ)) = t at *
  generalize (10 : ℚ) ^ u = U at *
  generalize (10 : ℚ) ^ q = Q at *
  generalize (10 : ℚ) ^ (a - (P : ℤ) + 1) = W at *
  generalize (10 : ℚ) ^ (a + 1) = Z at *
  -- z·τ ≤ 0.3·U
  have h1 : z * t < W := by rw [← ea]; exact mul_lt_mul_of_pos_right z2 ht0
  have h2 : z * (3 * t ^ 2) ≤ 3 / 10 * U := by
    have : z * (3 * t ^ 2) = 3 * t * (z * t) := by ring
    rw [this]
    have h3 : 3 * t * (z * t) ≤ 3 * t * W := mul_le_mul_of_nonneg_left h1.le (by positivity)
    have h4 : 3 * t * W ≤ 3 * (1 / 10) * W := by
      apply mul_le_mul_of_nonneg_right _ hW.le; linarith
    linarith
  obtain ⟨r1, r2⟩ := abs_le.1 hr
  constructor
  · rcases Nat.eq_zero_or_pos M with hM | hM
    · rw [hM]; simp; exact hX
    · have hc : (((M - 1 : ℕ) : ℕ) : ℚ) = (M : ℚ) - 1 := by
        rw [Nat.cast_sub hM]; simp
      rw [hc]
      have hM1 : (1 : ℚ) ≤ (M : ℚ) := by exact_mod_cast hM
      have hb : ((M : ℚ) - 1) * U ≤ z * (1 - 3 * t ^ 2) := by
        have : z * (1 - 3 * t ^ 2) = z - z * (3 * t ^ 2) := by ring
        rw [this]
        have : ((M : ℚ) - 1) * U = Dv - U := by rw [hD]; ring
        rw [this]; linarith
      have h0 : 0 ≤ ((M : ℚ) - 1) * U := mul_nonneg (by linarith) hU.le
      exact le_trans (pow_le_pow_left₀ h0 hb 3) c1
  · have hb : z * (1 + 3 * t ^ 2) ≤ ((M : ℚ) + 1) * U := by
      have : z * (1 + 3 * t ^ 2) = z + z * (3 * t ^ 2) := by ring
      rw [this]
      have : ((M : ℚ) + 1) * U = Dv + U := by rw [hD]; ring
      rw [this]; linarith
    have h0 : 0 ≤ z * (1 + 3 * t ^ 2) := by positivity
    exact le_trans c2 (pow_le_pow_left₀ h0 hb 3)

/-- from the rational inequalities to the oracle's integer test -/
theorem within_of_rat (c : Ctx) (x d : Dec) (u : ℤ) (M : ℕ)
    (hud : u = max ((ndigits d.coeff : Int) - 1 + d.exp - (c.prec : Int) + 1) (c.emin - (c.prec : Int) + 1))
    (hu : u ≤ d.exp) (hM : M = d.coeff * 10 ^ (d.exp - u).toNat)
    (h1 : ((((M - 1 : ℕ) : ℕ) : ℚ) * (10 : ℚ) ^ u) ^ 3 ≤ magQ x)
    (h2 : magQ x ≤ (((M : ℚ) + 1) * (10 : ℚ) ^ u) ^ 3) :
    cbrtWithinUlp c x d = true := by
  unfold cbrtWithinUlp
  dsimp only
  rw [← hud, if_neg (not_lt.2 hu), ← hM]
  unfold magQ at h1 h2
  rw [mul_pow, cube_zpow] at h1 h2
  have hp3 := tp (3 * u)
  have hpe := tp x.exp
  have e3 : (M - 1) * (M - 1) * (M - 1) = (M - 1) ^ 3 := by ring
  have e4 : (M + 1) * (M + 1) * (M + 1) = (M + 1) ^ 3 := by ring
  by_cases hs : x.exp - 3 * u ≥ 0
  · rw [if_pos hs]
    have e : (10 : ℚ) ^ x.exp = (10 : ℚ) ^ (x.exp - 3 * u) * (10 : ℚ) ^ (3 * u) := by
      rw [← zpow_add₀ ten_ne]; congr 1; ring
    rw [e, ← mul_assoc] at h1 h2
    have k1 := le_of_mul_le_mul_right h1 hp3
    have k2 := le_of_mul_le_mul_right h2 hp3
    rw [← zpow_toNat _ hs] at k1 k2
    simp only [Bool.and_eq_true, decide_eq_true_eq]
    rw [e3, e4]
    constructor
    · exact_mod_cast k1
    · exact_mod_cast k2
  · rw [if_neg hs]
    have hs' : 0 ≤ -(x.exp - 3 * u) := by omega
    have e : (10 : ℚ) ^ (3 * u) = (10 : ℚ) ^ (-(x.exp - 3 * u)) * (10 : ℚ) ^ x.exp := by
      rw [← zpow_add₀ ten_ne]; congr 1; ring
    rw [e, ← mul_assoc] at h1 h2
    have k1 := le_of_mul_le_mul_right h1 hpe
    have k2 := le_of_mul_le_mul_right h2 hpe
    rw [← zpow_toNat _ hs'] at k1 k2
    simp only [Bool.and_eq_true, decide_eq_true_eq]
    rw [e3, e4]
    constructor
    · exact_mod_cast k1
    · exact_mod_cast k2

/-- what `Agrees` says about the half-even rounding `D` of a positive decimal `z`, when `D` is finite -/
theorem round_facts (c : Ctx) (hc : c.WF) (z : Dec) (hz : Pos z) (D : Dec) (fl : Cond)
    (hA : Agrees (cH c) (exactRound z) D fl) (hf : D.form = .finite) :
    ∃ (a q n : ℤ), a = (ndigits z.coeff : ℤ) - 1 + z.exp ∧
      q = max (a - (c.prec : ℤ) + 1) (c.emin - (c.prec : ℤ) + 1) ∧
      IsAdj z.toRat a ∧ 0 ≤ n ∧ D.toRat = (n : ℚ) * (10 : ℚ) ^ q ∧
      |(n : ℚ) - z.toRat / (10 : ℚ) ^ q| ≤ 1 / 2 ∧
      D.neg = false ∧ ndigits D.coeff ≤ c.prec ∧ (D.coeff ≠ 0 → c.emin - (c.prec : ℤ) + 1 ≤ D.exp) ∧
      D.toRat = roundedMag (cH c) false z.toRat a := by
  have hn : 0 < (exactRound z).num := hz.h0
  have hd : 0 < (exactRound z).den := Nat.one_pos
  have hneg : (exactRound z).neg = false := hz.hn
  have hmag : (exactRound z).mag = z.toRat := by
    unfold Exact.mag exactRound; rw [hz.toRat_eq]; simp
  have ha := mag_isAdj (exactRound z) hn hd
  have hadj : adjRat (exactRound z).num (exactRound z).den + (exactRound z).e10 =
      (ndigits z.coeff : ℤ) - 1 + z.exp := by
    show adjRat z.coeff 1 + z.exp = _
    rw [adjRat_one z.coeff hz.h0]
  rw [hadj] at ha
  obtain ⟨hval, -, -, -⟩ := Rat_agrees_finite (cH c) (exactRound z) D fl hn hd ha hA hf
  rw [hmag] at ha
  rw [hneg, hmag] at hval
  simp only [Bool.false_eq_true, if_false, one_mul] at hval
  have hzp := hz.toRat_pos
  have hq := tp (quantum (cH c) ((ndigits z.coeff : ℤ) - 1 + z.exp))
  refine ⟨_, quantum (cH c) ((ndigits z.coeff : ℤ) - 1 + z.exp),
    roundInt (cH c).mode false (z.toRat / (10 : ℚ) ^ (quantum (cH c) ((ndigits z.coeff : ℤ) - 1 + z.exp))),
    rfl, rfl, ha, roundInt_nonneg _ _ _ (by positivity), ?_, ?_, ?_, ?_, ?_, hval⟩
  · rw [hval]; rfl
  · exact Rat_roundInt_half_nearest _ (Or.inr (Or.inr rfl)) _ _
  · obtain ⟨-, h2, -⟩ := (Rat_matches_iff _ D hf).1 hA.1
    rw [h2, Rat_specRound_neg, hneg]
  · have hfit := hA.2.2
    unfold fits at hfit
    rw [hf] at hfit
    simp only [Bool.and_eq_true, Bool.or_eq_true, beq_iff_eq, decide_eq_true_eq] at hfit
    have hp := hc.1
    rcases hfit.1.1 with h | h
    · have : (cH c).prec = c.prec := rfl
      omega
    · exact_mod_cast h
  · intro h0
    have hfit := hA.2.2
    unfold fits at hfit
    rw [hf] at hfit
    simp only [Bool.and_eq_true, Bool.or_eq_true, beq_iff_eq, decide_eq_true_eq] at hfit
    have hp := hc.1
    have e1 : (cH c).prec = c.prec := rfl
    have e2 : (cH c).emin = c.emin := rfl
    rcases hfit.2 with (h | h) | h
    · omega
    · exact absurd h h0
    · rw [e1, e2] at h; exact h

/-- **the rounded iterate is within one unit in the last place of the cube root** -/
theorem tail_within (c : Ctx) (hc : c.WF) (hp : c.prec * 3 + 2 ≤ 100000)
    (x : Dec) (hx : x.form = .finite) (h0 : x.coeff ≠ 0) (hw : x.WF) (z : Dec) (h : Iter c x z)
    (hf : (ctxRound (cH c) z).1.form = .finite) (b : Bool) :
    cbrtWithinUlp c x ⟨(ctxRound (cH c) z).1.form, b, (ctxRound (cH c) z).1.exp, (ctxRound (cH c) z).1.coeff⟩ = true := by
  obtain ⟨hns, hA⟩ := final_agrees c hc hp x hx h0 hw z h
  obtain ⟨e1, e2⟩ := h.exp_range hc hp hx h0 hw
  obtain ⟨hP1, hPe, hemax, hemin, hemin0⟩ := hc
  have hnz := ndigits_pos z.coeff
  obtain ⟨a, q, n, had, hqd, ha, hn0, hv, hnear, hneg, hnd, het, -⟩ :=
    round_facts c ⟨hP1, hPe, hemax, hemin, hemin0⟩ z h.pos _ _ hA hf
  have hshape : (ctxRound (cH c) z).1.coeff = 0 → (ctxRound (cH c) z).1.exp = c.emin - (c.prec : ℤ) + 1 := by
    intro hD0
    have hq := tp q
    have hDv : (ctxRound (cH c) z).1.toRat = 0 := by unfold Dec.toRat; rw [hD0]; simp
    have hn : n = 0 := by
      rw [hDv] at hv
      rcases mul_eq_zero.1 hv.symm with h1 | h1
      · exact_mod_cast h1
      · exact absurd h1 hq.ne'
    rw [hn] at hnear
    simp only [Int.cast_zero, zero_sub, abs_neg] at hnear
    have hzq : z.toRat < (10 : ℚ) ^ q := by
      rw [abs_of_pos (div_pos h.pos.toRat_pos hq), div_le_iff₀ hq] at hnear
      linarith
    have haq := lt_of_le_of_lt ha.1 hzq
    rw [zpow_lt_zpow_iff_right₀ ten_gt] at haq
    have := round_sub_shape (cH c) z hP1 (by show c.emin ≤ 100000; omega) h.pos.hf (by have := h.pos.h0; omega)
      e1 (by omega) (by show _ < c.emin; omega) (by omega) (by show _ < c.emin - (c.prec : ℤ) + 1; omega)
    exact this.2.2.2.1
  generalize (ctxRound (cH c) z).1 = D at hf hv hneg hnd het hshape ⊢
  -- the value as coefficient × power of ten
  have hDv : D.toRat = (D.coeff : ℚ) * (10 : ℚ) ^ D.exp := by
    unfold Dec.toRat; rw [hneg]; simp
  have hX : 0 ≤ magQ x := (magQ_pos x h0).le
  have hzp := h.pos.toRat_pos
  have hq := tp q
  have hr : |D.toRat - z.toRat| ≤ (10 : ℚ) ^ q / 2 := by
    rw [hv]
    generalize (10 : ℚ) ^ q = Q at hq hnear ⊢
    have e : (n : ℚ) * Q - z.toRat = ((n : ℚ) - z.toRat / Q) * Q := by field_simp
    rw [e, abs_mul, abs_of_pos hq]
    calc _ ≤ 1 / 2 * Q := mul_le_mul_of_nonneg_right hnear hq.le
      _ = Q / 2 := by ring
  -- `u`, and the two facts about it
  obtain ⟨u, hud⟩ : ∃ u : ℤ, u = max ((ndigits D.coeff : Int) - 1 + D.exp - (c.prec : Int) + 1)
      (c.emin - (c.prec : Int) + 1) := ⟨_, rfl⟩
  have hnpD := ndigits_pos D.coeff
  have hu : u ≤ D.exp := by
    by_cases hD0 : D.coeff = 0
    · have := hshape hD0
      rw [hD0] at hud; simp only [ndigits_zero] at hud; omega
    · have := het hD0; omega
  have hqu : q ≤ u := by
    by_cases hD0 : D.coeff = 0
    · -- zero result: `q` is `Etiny`
      have hDz : D.toRat = 0 := by unfold Dec.toRat; rw [hD0]; simp
      have hn : n = 0 := by
        rw [hDz] at hv
        rcases mul_eq_zero.1 hv.symm with h1 | h1
        · exact_mod_cast h1
        · exact absurd h1 hq.ne'
      rw [hn] at hnear
      simp only [Int.cast_zero, zero_sub, abs_neg] at hnear
      have hzq : z.toRat < (10 : ℚ) ^ q := by
        rw [abs_of_pos (div_pos hzp hq), div_le_iff₀ hq] at hnear
        linarith
      have haq := lt_of_le_of_lt ha.1 hzq
      rw [zpow_lt_zpow_iff_right₀ ten_gt] at haq
      omega
    · have hPD : Pos D := ⟨hf, hneg, Nat.pos_of_ne_zero hD0⟩
      have hge : (10 : ℚ) ^ a ≤ D.toRat := by
        have hn1 : 1 ≤ n := by
          rcases lt_or_ge n 1 with hlt | hge
          · exfalso
            have : n = 0 := by omega
            rw [this] at hv
            simp only [Int.cast_zero, zero_mul] at hv
            have := hPD.toRat_pos
            linarith
          · exact hge
        rw [hv]
        by_cases hqa : q ≤ a
        · have hW : ((10 ^ (a - q).toNat : ℕ) : ℚ) = (10 : ℚ) ^ (a - q) := zpow_toNat _ (by omega)
          have e : (10 : ℚ) ^ a = (10 : ℚ) ^ (a - q) * (10 : ℚ) ^ q := by
            rw [← zpow_add₀ ten_ne]; congr 1; ring
          have h1 : (10 : ℚ) ^ (a - q) ≤ z.toRat / (10 : ℚ) ^ q := by
            rw [le_div_iff₀ hq, ← e]; exact ha.1
          obtain ⟨k1, k2⟩ := abs_le.1 hnear
          have h2 : (((10 ^ (a - q).toNat : ℕ) : ℤ) : ℚ) - 1 < (n : ℚ) := by
            rw [Int.cast_natCast, hW]; linarith
          have h3 : ((10 ^ (a - q).toNat : ℕ) : ℤ) - 1 < n := by exact_mod_cast h2
          have h4 : ((10 ^ (a - q).toNat : ℕ) : ℤ) ≤ n := by omega
          have h5 : (((10 ^ (a - q).toNat : ℕ) : ℤ) : ℚ) ≤ (n : ℚ) := by exact_mod_cast h4
          rw [Int.cast_natCast, hW] at h5
          rw [e]
          exact mul_le_mul_of_nonneg_right h5 hq.le
        · have hqa' := lt_of_not_ge hqa
          have h1 : (10 : ℚ) ^ a ≤ (10 : ℚ) ^ q := zpow_le_zpow_right₀ ten_gt.le hqa'.le
          have h2 : (1 : ℚ) ≤ (n : ℚ) := by exact_mod_cast hn1
          calc _ ≤ _ := h1
            _ = 1 * _ := (one_mul _).symm
            _ ≤ _ := mul_le_mul_of_nonneg_right h2 hq.le
      have := adj_gt hPD hge
      omega
  have hal := align D.coeff D.exp u hu
  have hcore := ulp_core c.prec hP1 z.toRat (magQ x) D.toRat a q u (D.coeff * 10 ^ (D.exp - u).toNat) ha hqu
    (by omega) (by rw [hDv, ← hal]) hr hX h.lo h.hi
  exact within_of_rat c x _ u _ hud hu rfl hcore.1 hcore.2


/-! ## the shape of the tail -/

/-- the result decimal: the rounded iterate with the operand's sign -/
def resD (c : Ctx) (x z : Dec) : Dec :=
  ⟨(ctxRound (cH c) z).1.form, x.neg, (ctxRound (cH c) z).1.exp, (ctxRound (cH c) z).1.coeff⟩

/-- the exactness re-check: the cube of the result at `3·Precision` digits -/
def recheck (c : Ctx) (fl0 : Cond) (z d : Dec) : ED × Dec :=
  let e : ED := { c := { nc c with prec := c.prec * 3 }, fl := fl0, err := .none }
  let q1 := e.step z (fun cc => mulOp cc d d)
  q1.1.step q1.2 (fun cc => mulOp cc q1.2 d)

theorem tail_eq (c : Ctx) (x : Dec) (fl0 : Cond) (z : Dec) :
    tail c x fl0 z =
      if (recheck c fl0 z (resD c x z)).1.failed then failOut (recheck c fl0 z (resD c x z)).1.errOf else
      if x.cmp (recheck c fl0 z (resD c x z)).2 == 0 then { d := resD c x z }
      else { d := resD c x z, fl := (ctxRound (cH c) z).2, err := goError c.traps (ctxRound (cH c) z).2 } := rfl

theorem tail_ok (c : Ctx) (x : Dec) (fl0 : Cond) (z : Dec) (he : (tail c x fl0 z).err = .none) :
    (recheck c fl0 z (resD c x z)).1.failed = false ∧ (tail c x fl0 z).d = resD c x z := by
  rw [tail_eq] at he ⊢
  by_cases hf : (recheck c fl0 z (resD c x z)).1.failed = true
  · rw [if_pos hf] at he
    exact absurd he (errOf_ne _ hf)
  · rw [if_neg hf]
    refine ⟨by simpa using hf, ?_⟩
    split_ifs <;> rfl

end Apd.CbrtT

#print axioms Apd.CbrtT.tail_within
