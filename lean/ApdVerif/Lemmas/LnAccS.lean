import ApdVerif.Lemmas.LnAccTail
/-!
# The series branch of `Ln` on the model: from `w = z - 1` to the sum, against `ln z`
-/
namespace Apd.LnAcc
open Apd Apd.Oracle Apd.ExpAcc Apd.C12IL Apd.Props Cond

theorem lnSeries_inr_nf (eps tmp2 : Dec) (fuel n : Nat) (e : ED) (t1 t3 : Dec) (e' : ED) (t : Dec)
    (h : lnSeries eps tmp2 fuel n e t1 t3 = some (e', .inr t)) : e.failed = false := by
  cases fuel with
  | zero => simp [lnSeries] at h
  | succ fuel =>
    rw [lnSeries_succ] at h
    by_cases hf : (lR4 tmp2 n e t1 t3).1.failed = true
    · rw [if_pos hf] at h; simp at h
    · have hf' : (lR4 tmp2 n e t1 t3).1.failed = false := by simpa using hf
      obtain ⟨f3, _⟩ := step_ok _ _ _ hf'
      obtain ⟨f2, _⟩ := step_ok _ _ _ f3
      obtain ⟨f1, _⟩ := step_ok _ _ _ f2
      obtain ⟨f0, _⟩ := step_ok _ _ _ f1
      exact f0

theorem lnSeriesN_le (eps tmp2 : Dec) : ∀ (fuel n : Nat) (e : ED) (t1 t3 : Dec),
    lnSeriesN eps tmp2 fuel n e t1 t3 ≤ n + fuel := by
  intro fuel
  induction fuel with
  | zero => intro n e t1 t3; simp [lnSeriesN]
  | succ fuel ih =>
    intro n e t1 t3
    unfold lnSeriesN
    split_ifs
    · omega
    · omega
    · have := ih (n + 1) (lR4 tmp2 n e t1 t3).1 (lR4 tmp2 n e t1 t3).2 (lR2 tmp2 e t3).2
      omega

theorem rv_decTwo : rv decTwo = 2 := by unfold rv Dec.toRat decTwo; simp

/-- relative error of the series branch against `ln z`, in units of `u` -/
noncomputable def serE (u : ℝ) (N : Nat) : ℝ := 1017 / 1000 * serG u N + 338 / 100

/-- the series branch from a rounded `w = (z-1)(1+δ)`, `|w| ≤ 1/10`: the sum is within `u·serE·|ln z|` of `ln z` -/
theorem ser_from_w (c : Ctx) (hc1 : 1 ≤ c.prec) (hc2 : c.prec + 2 ≤ 100000) (ed : ED) (hed : ed.c = lnNc c)
    (w : Dec) (hwf : w.form = .finite) (hw0 : rv w ≠ 0) (hw10 : |rv w| ≤ 1 / 10) (zr δw : ℝ)
    (hδw : |δw| ≤ uR (c.prec + 2)) (hwz : rv w = (zr - 1) * (1 + δw))
    (e' : ED) (t : Dec) (h : lnSer c ed w = some (e', .inr t)) :
    e'.c = lnNc c ∧ e'.failed = false ∧ t.form = .finite ∧
      |rv t - Real.log zr| ≤ uR (c.prec + 2) * |Real.log zr| * serE (uR (c.prec + 2)) (lnSerN c ed w) := by
  have hw := lnNc_wide c hc1 hc2
  have hm : (lnNc c).mode = .halfEven := rfl
  have hp3 : 3 ≤ (lnNc c).prec := by show 3 ≤ c.prec + 2; omega
  have hprec : (lnNc c).prec = c.prec + 2 := rfl
  set u := uR (c.prec + 2) with hu
  have hu1 : u ≤ 1 / 200 := uR_small _ (by omega)
  have hu0 : 0 < u := uR_pos _
  unfold lnSer at h
  unfold lnSerN
  simp only [] at h ⊢
  set b1 := ed.step lnTenth (fun k => addOp k w decTwo false) with hb1
  set b2 := b1.1.step w.absD (fun k => quoOp k w b1.2) with hb2
  set b3 := b2.1.step b1.2 (fun k => addOp k b2.2 b2.2 false) with hb3
  have nf3 := lnSeries_inr_nf _ _ _ _ _ _ _ _ _ h
  obtain ⟨nf2, a3, v3, c3⟩ := step_ok _ _ _ nf3
  obtain ⟨nf1, a2, v2, c2⟩ := step_ok _ _ _ nf2
  obtain ⟨_, a1, v1, c1⟩ := step_ok _ _ _ nf1
  have C1 : b1.1.c = lnNc c := by rw [← hed]; exact c1
  have C2 : b2.1.c = lnNc c := by rw [← C1]; exact c2
  have C3 : b3.1.c = lnNc c := by rw [← C2]; exact c3
  rw [hed] at a1 v1
  rw [C1] at a2 v2
  rw [C2] at a3 v3
  change b1.2 = _ at v1
  change b2.2 = _ at v2
  change b3.2 = _ at v3
  -- w + 2
  obtain ⟨p1f, δa, hδa, p1v⟩ := add_rel_gen (lnNc c) hw hm w decTwo false hwf rfl a1
  rw [← v1] at p1f p1v
  simp only [Bool.false_eq_true, if_false, rv_decTwo] at p1v
  rw [hprec] at hδa
  have hwb := abs_le.1 hw10
  have hda := abs_le.1 hδa
  have p10 : rv b1.2 ≠ 0 := by
    rw [p1v]; exact (mul_pos (by linarith [hwb.1]) (by linarith [hda.1])).ne'
  -- y
  obtain ⟨p2f, δq, hδq, p2v⟩ := quo_rel_gen (lnNc c) hw hm w b1.2 hwf p1f p10 a2
  rw [← v2] at p2f p2v
  rw [hprec] at hδq
  -- 2y
  obtain ⟨p3f, δ0, hδ0, p3v⟩ := add_rel_gen (lnNc c) hw hm b2.2 b2.2 false p2f p2f a3
  rw [← v3] at p3f p3v
  simp only [Bool.false_eq_true, if_false] at p3v
  rw [hprec] at hδ0
  -- the argument
  obtain ⟨hy18, hL2, hL2abs⟩ := series_arg zr (rv w) (rv b1.2) (rv b2.2) δw δa δq u hu0.le hu1 hδw hδa hδq hwz p1v p2v hw10
  have hdq := abs_le.1 hδq
  have hy0 : rv b2.2 ≠ 0 := by
    rw [p2v]
    exact mul_ne_zero (div_ne_zero hw0 p10) (by linarith [hdq.1])
  have p3v' : rv b3.2 = 2 * rv b2.2 * (1 + δ0) := by rw [p3v]; ring
  obtain ⟨hT0, hs0⟩ := series_start (rv b2.2) u δ0 hy18 hu0.le hu1 hδ0
  rw [← p3v'] at hT0 hs0
  have hloop := lnSeries_loop (lnNc c) hw hm hp3 b2.2 p2f hy0 hy18 (c.prec + 2 + 10) 0 b3.1 b3.2 b3.2 C3 p3f p3f
    (by rw [hprec]; omega) (by rw [hprec]; exact hT0) (by rw [hprec]; exact_mod_cast hs0) e' t h
  obtain ⟨ec, enf, tf, tb⟩ := hloop
  rw [hprec] at tb
  refine ⟨ec, enf, tf, ?_⟩
  have tb' : |rv t - L2 (rv b2.2)| ≤ u * |L2 (rv b2.2)| *
      serG u (lnSeriesN { coeff := 1, exp := -((c.prec + 2 : ℕ) : ℤ) } b2.2 (c.prec + 2 + 10) 1 b3.1 b3.2 b3.2) := tb
  clear tb
  generalize lnSeriesN { coeff := 1, exp := -((c.prec + 2 : ℕ) : ℤ) } b2.2 (c.prec + 2 + 10) 1 b3.1 b3.2 b3.2 = N at tb' ⊢
  have hG0 : 0 ≤ serG u N := by unfold serG; positivity
  have hlz := abs_nonneg (Real.log zr)
  have h1 : u * |L2 (rv b2.2)| * serG u N ≤ u * (1017 / 1000 * |Real.log zr|) * serG u N := by
    apply mul_le_mul_of_nonneg_right _ hG0
    exact mul_le_mul_of_nonneg_left hL2abs hu0.le
  have tri : |rv t - Real.log zr| ≤ |rv t - L2 (rv b2.2)| + |L2 (rv b2.2) - Real.log zr| := by
    have : rv t - Real.log zr = (rv t - L2 (rv b2.2)) + (L2 (rv b2.2) - Real.log zr) := by ring
    rw [this]; exact abs_add_le _ _
  unfold serE
  calc |rv t - Real.log zr| ≤ |rv t - L2 (rv b2.2)| + |L2 (rv b2.2) - Real.log zr| := tri
    _ ≤ u * (1017 / 1000 * |Real.log zr|) * serG u N + 338 / 100 * u * |Real.log zr| := by linarith [tb']
    _ = u * |Real.log zr| * (1017 / 1000 * serG u N + 338 / 100) := by ring

theorem lnSer_nf (c : Ctx) (ed : ED) (w : Dec) (e' : ED) (t : Dec) (h : lnSer c ed w = some (e', .inr t)) :
    ed.failed = false := by
  unfold lnSer at h
  simp only [] at h
  have nf3 := lnSeries_inr_nf _ _ _ _ _ _ _ _ _ h
  obtain ⟨nf2, _⟩ := step_ok _ _ _ nf3
  obtain ⟨nf1, _⟩ := step_ok _ _ _ nf2
  obtain ⟨nf0, _⟩ := step_ok _ _ _ nf1
  exact nf0

theorem lnSerN_le (c : Ctx) (ed : ED) (w : Dec) : lnSerN c ed w ≤ c.prec + 2 + 11 := by
  unfold lnSerN
  simp only []
  refine le_trans (lnSeriesN_le _ _ _ _ _ _ _) ?_
  omega

theorem budget_u (p : Nat) (hp : 3 ≤ p) : ((2 * p + 22 : ℕ) : ℝ) * uR p ≤ 14 / 100 := by
  have key : ∀ q : ℕ, ((2 * (q + 3) + 22 : ℕ) : ℝ) * (5 / (10 : ℝ) ^ (q + 3)) ≤ 14 / 100 := by
    intro q
    induction q with
    | zero => norm_num
    | succ q ih =>
      have hpos : (0 : ℝ) < (10 : ℝ) ^ (q + 3) := by positivity
      have e : (10 : ℝ) ^ (q + 1 + 3) = 10 * (10 : ℝ) ^ (q + 3) := by rw [pow_succ]; ring
      rw [e]
      have : ((2 * (q + 1 + 3) + 22 : ℕ) : ℝ) * (5 / (10 * (10 : ℝ) ^ (q + 3))) ≤
          ((2 * (q + 3) + 22 : ℕ) : ℝ) * (5 / (10 : ℝ) ^ (q + 3)) := by
        rw [mul_div_assoc', mul_div_assoc', div_le_div_iff₀ (by positivity) hpos]
        push_cast
        have hq : (0 : ℝ) ≤ q := by positivity
        nlinarith
      linarith
  obtain ⟨q, rfl⟩ : ∃ q, p = q + 3 := ⟨p - 3, by omega⟩
  rw [uR_eq]; exact key q

/-- `(1+u)^N ≤ 100/93` when `N·u ≤ 7/100` -/
theorem pow_small (u : ℝ) (N : ℕ) (hu0 : 0 ≤ u) (hNu : (N : ℝ) * u ≤ 7 / 100) : (1 + u) ^ N ≤ 100 / 93 := by
  have h1 : (1 + u) ^ N ≤ Real.exp u ^ N := pow_le_pow_left₀ (by linarith) (by linarith [Real.add_one_le_exp u]) N
  rw [← Real.exp_nat_mul] at h1
  have h2 : Real.exp ((N : ℝ) * u) ≤ Real.exp (7 / 100) := Real.exp_le_exp.2 hNu
  have h3 : Real.exp (7 / 100 : ℝ) ≤ 100 / 93 := by
    have := Real.exp_bound_div_one_sub_of_interval (x := 7 / 100) (by norm_num) (by norm_num)
    norm_num at this ⊢; linarith
  linarith

/-- the constant of the unscaled series branch: `10^P · ε/(1-ε) ≤ (N+5)/16` -/
theorem serK (u : ℝ) (N : ℕ) (hu0 : 0 ≤ u) (hu1 : u ≤ 1 / 200) (hNu : (N : ℝ) * u ≤ 7 / 100) :
    u * ((1 + u) * serE u N + 1) ≤ 21 / 200 ∧
    u * ((1 + u) * serE u N + 1) / (1 - u * ((1 + u) * serE u N + 1)) ≤ ((N : ℝ) + 5) / 16 * (20 * u) := by
  have hpow := pow_small u N hu0 hNu
  have hN0 : (0 : ℝ) ≤ N := by positivity
  have hG : serG u N ≤ 100 / 93 * ((N : ℝ) + 1 + 1 / 99) + 7 / 1000 := by
    unfold serG
    have : (1 + u) ^ N * ((N : ℝ) + 1 + 1 / 99) ≤ 100 / 93 * ((N : ℝ) + 1 + 1 / 99) :=
      mul_le_mul_of_nonneg_right hpow (by positivity)
    linarith
  have hG0 : 0 ≤ serG u N := by unfold serG; positivity
  have hE : serE u N ≤ 10936 / 10000 * (N : ℝ) + 44918 / 10000 := by unfold serE; linarith
  have hE0 : 0 ≤ serE u N := by unfold serE; positivity
  have hA : (1 + u) * serE u N + 1 ≤ 11 / 10 * (N : ℝ) + 552 / 100 := by
    have : (1 + u) * serE u N ≤ (1 + 1 / 200) * (10936 / 10000 * (N : ℝ) + 44918 / 10000) :=
      mul_le_mul (by linarith) hE hE0 (by norm_num)
    linarith
  have hA0 : 0 ≤ (1 + u) * serE u N + 1 := by positivity
  set A := (1 + u) * serE u N + 1 with hAdef
  have hε : u * A ≤ 21 / 200 := by
    have : u * A ≤ u * (11 / 10 * (N : ℝ) + 552 / 100) := mul_le_mul_of_nonneg_left hA hu0
    nlinarith
  refine ⟨hε, ?_⟩
  rw [div_le_iff₀ (by linarith)]
  -- u A ≤ (N+5)/16 · 20u · (1 - uA) ⟸ A ≤ 1.25 (N+5) · 0.895
  have h1 : ((N : ℝ) + 5) / 16 * (20 * u) * (1 - u * A) ≥ ((N : ℝ) + 5) / 16 * (20 * u) * (179 / 200) := by
    apply mul_le_mul_of_nonneg_left (by linarith) (by positivity)
  have h2 : u * A ≤ u * (11 / 10 * (N : ℝ) + 552 / 100) := mul_le_mul_of_nonneg_left hA hu0
  have h3 : u * (11 / 10 * (N : ℝ) + 552 / 100) ≤ ((N : ℝ) + 5) / 16 * (20 * u) * (179 / 200) := by
    have : (0 : ℝ) ≤ u * N := by positivity
    nlinarith
  linarith

end Apd.LnAcc
