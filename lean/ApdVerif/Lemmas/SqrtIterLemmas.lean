import ApdVerif.Lemmas.SqrtDefs
import ApdVerif.Props.Rational
import ApdVerif.Props.RoundCore
import ApdVerif.Props.Mul
import ApdVerif.Props.Quo
import Mathlib.Tactic.Ring
import Mathlib.Tactic.Linarith
import Mathlib.Tactic.NormNum
import Mathlib.Tactic.Positivity
import Mathlib.Tactic.SplitIfs
/-!
# One rounded operation of the Sqrt iteration, over `ℚ`

Under a working context (`halfEven`, the package's exponent limits, no traps) `mulOp`, `addOp`, `quoOp` on
positive finite operands of harmless size return a positive finite decimal of at most `prec` digits whose
value is the exact result times `1 + ε`, `|ε| ≤ 5·10^(-prec)`; no system flag is raised.
-/
namespace Apd.SqrtL
open Apd Apd.Oracle Apd.RatSpec Apd.C20L

/-! ## the adjusted exponent of a positive decimal -/

/-- a positive finite decimal -/
structure Pos (d : Dec) : Prop where
  hf : d.form = .finite
  hn : d.neg = false
  h0 : 0 < d.coeff

theorem Pos.toRat_eq {d : Dec} (h : Pos d) : d.toRat = (d.coeff : ℚ) * (10 : ℚ) ^ d.exp := by
  unfold Dec.toRat; rw [h.hn]; simp

theorem Pos.toRat_pos {d : Dec} (h : Pos d) : 0 < d.toRat := by
  rw [h.toRat_eq]
  have : (0 : ℚ) < d.coeff := by exact_mod_cast h.h0
  have := tp d.exp
  positivity

theorem natpow_cast (k : ℕ) : (((10 ^ k : ℕ)) : ℚ) = (10 : ℚ) ^ (k : ℤ) := by
  push_cast; rw [zpow_natCast]

/-- `toRat < 10^k` bounds exponent + digits from above -/
theorem adj_le {d : Dec} (h : Pos d) {k : ℤ} (hk : d.toRat < (10 : ℚ) ^ k) :
    d.exp + (ndigits d.coeff : ℤ) ≤ k := by
  obtain ⟨a, -⟩ := ndigits_spec d.coeff h.h0
  have hp := ndigits_pos d.coeff
  have a' : ((10 : ℚ) ^ ((ndigits d.coeff - 1 : ℕ) : ℤ)) ≤ (d.coeff : ℚ) := by
    rw [← natpow_cast]; exact_mod_cast a
  have h1 : (10 : ℚ) ^ (((ndigits d.coeff - 1 : ℕ) : ℤ) + d.exp) ≤ d.toRat := by
    rw [h.toRat_eq, zpow_add₀ ten_ne]
    exact mul_le_mul_of_nonneg_right a' (tp _).le
  have h2 := lt_of_le_of_lt h1 hk
  rw [zpow_lt_zpow_iff_right₀ ten_gt] at h2
  omega

/-- `10^k ≤ toRat` bounds exponent + digits from below -/
theorem adj_gt {d : Dec} (h : Pos d) {k : ℤ} (hk : (10 : ℚ) ^ k ≤ d.toRat) :
    k < d.exp + (ndigits d.coeff : ℤ) := by
  obtain ⟨-, b⟩ := ndigits_spec d.coeff h.h0
  have b' : (d.coeff : ℚ) < ((10 : ℚ) ^ ((ndigits d.coeff : ℕ) : ℤ)) := by
    rw [← natpow_cast]; exact_mod_cast b
  have h1 : d.toRat < (10 : ℚ) ^ (((ndigits d.coeff : ℕ) : ℤ) + d.exp) := by
    rw [h.toRat_eq, zpow_add₀ ten_ne]
    exact mul_lt_mul_of_pos_right b' (tp _)
  have h2 := lt_of_le_of_lt hk h1
  rw [zpow_lt_zpow_iff_right₀ ten_gt] at h2
  omega

/-! ## from `Agrees` to a relative error bound -/

/-- the working contexts of the iteration -/
structure WCtx (cc : Ctx) (p : Nat) : Prop where
  hp : cc.prec = p
  hm : cc.mode = .halfEven
  hemin : cc.emin = -100000
  hemax : cc.emax = 100000
  ht : cc.traps = {}

theorem WCtx.wf {cc : Ctx} {p : Nat} (h : WCtx cc p) (h1 : 1 ≤ p) (h2 : p ≤ 100000) : cc.WF := by
  unfold Ctx.WF
  rw [h.hp, h.hemin, h.hemax]
  omega

theorem agrees_pos (cc : Ctx) (p : Nat) (hw : WCtx cc p) (hp1 : 1 ≤ p)
    (ex : Exact) (hn : 0 < ex.num) (hd : 0 < ex.den) (hneg : ex.neg = false)
    (d : Dec) (fl : Cond) (hA : Agrees cc ex d fl)
    (hlo : (10 : ℚ) ^ (-100000 : ℤ) ≤ ex.toRat) (hhi : ex.toRat < (10 : ℚ) ^ (99999 : ℤ)) :
    Pos d ∧ ndigits d.coeff ≤ p ∧
    |d.toRat - ex.toRat| ≤ 5 * (10 : ℚ) ^ (-(p : ℤ)) * ex.toRat := by
  have hmag : ex.toRat = ex.mag := by rw [Exact.toRat_eq, hneg]; simp
  rw [hmag] at hlo hhi ⊢
  have ha := mag_isAdj ex hn hd
  generalize adjRat ex.num ex.den + ex.e10 = a at ha
  obtain ⟨a1, a2⟩ := ha
  have alo : (-100000 : ℤ) ≤ a := by
    have := lt_of_le_of_lt hlo a2
    rw [zpow_lt_zpow_iff_right₀ ten_gt] at this
    omega
  have ahi : a ≤ 99998 := by
    have := lt_of_le_of_lt a1 hhi
    rw [zpow_lt_zpow_iff_right₀ ten_gt] at this
    omega
  have hq : quantum cc a = a - (p : ℤ) + 1 := by
    unfold quantum; rw [hw.hp, hw.hemin]; omega
  have hmagpos : 0 < ex.mag := lt_of_lt_of_le (tp _) a1
  -- the rounding error
  have herr : |roundedMag cc ex.neg ex.mag a - ex.mag| ≤ 5 * (10 : ℚ) ^ (-(p : ℤ)) * ex.mag := by
    unfold roundedMag
    rw [hq]
    have hQ := tp (a - (p : ℤ) + 1)
    have hn := Rat_roundInt_half_nearest cc.mode (Or.inr (Or.inr hw.hm)) ex.neg
      (ex.mag / (10 : ℚ) ^ (a - (p : ℤ) + 1))
    have e : ((roundInt cc.mode ex.neg (ex.mag / (10 : ℚ) ^ (a - (p : ℤ) + 1)) : ℤ) : ℚ) *
        (10 : ℚ) ^ (a - (p : ℤ) + 1) - ex.mag =
        (((roundInt cc.mode ex.neg (ex.mag / (10 : ℚ) ^ (a - (p : ℤ) + 1)) : ℤ) : ℚ) -
          ex.mag / (10 : ℚ) ^ (a - (p : ℤ) + 1)) * (10 : ℚ) ^ (a - (p : ℤ) + 1) := by
      field_simp
    rw [e, abs_mul, abs_of_pos hQ]
    have e2 : (10 : ℚ) ^ (a - (p : ℤ) + 1) = 10 * (10 : ℚ) ^ (-(p : ℤ)) * (10 : ℚ) ^ a := by
      rw [show a - (p : ℤ) + 1 = 1 + (-(p : ℤ)) + a by ring, zpow_add₀ ten_ne, zpow_add₀ ten_ne]
      simp
    have hP := tp (-(p : ℤ))
    calc _ ≤ (1 / 2) * (10 : ℚ) ^ (a - (p : ℤ) + 1) := mul_le_mul_of_nonneg_right hn hQ.le
      _ = 5 * (10 : ℚ) ^ (-(p : ℤ)) * (10 : ℚ) ^ a := by rw [e2]; ring
      _ ≤ 5 * (10 : ℚ) ^ (-(p : ℤ)) * ex.mag := by
          apply mul_le_mul_of_nonneg_left a1; positivity
  have hP1 : (10 : ℚ) ^ (-(p : ℤ)) ≤ (10 : ℚ) ^ (-1 : ℤ) :=
    zpow_le_zpow_right₀ ten_gt.le (by omega)
  have hP1' : (10 : ℚ) ^ (-1 : ℤ) = 1 / 10 := by norm_num
  have hrm := abs_le.1 herr
  have hhalf : 5 * (10 : ℚ) ^ (-(p : ℤ)) * ex.mag ≤ (1 / 2) * ex.mag := by
    apply mul_le_mul_of_nonneg_right _ hmagpos.le
    rw [hP1'] at hP1; linarith
  -- the form
  have hform : d.form = .finite := by
    cases hf : d.form with
    | finite => rfl
    | infinite =>
      exfalso
      obtain ⟨h1, -⟩ := Rat_agrees_infinite cc ex d fl hn hd ⟨a1, a2⟩ hA hf
      rw [hw.hemax] at h1
      have : (10 : ℚ) ^ (99999 : ℤ) ≤ (10 : ℚ) ^ ((100000 : ℤ) + 1) := zpow_le_zpow_right₀ ten_gt.le (by omega)
      have h3 : (10 : ℚ) ^ ((100000 : ℤ) + 1) = 100 * (10 : ℚ) ^ (99999 : ℤ) := by
        rw [show (100000 : ℤ) + 1 = 2 + 99999 by norm_num, zpow_add₀ ten_ne]; norm_num
      have h4 := tp (99999 : ℤ)
      have h5 := hrm.2
      generalize (10 : ℚ) ^ ((100000 : ℤ) + 1) = T at h1 h3 this
      generalize (10 : ℚ) ^ (99999 : ℤ) = U at h3 h4 hhi this
      linarith
    | nan =>
      exfalso
      have := Rat_matches_nan (specRound cc ex) d (by rw [hf]; decide) (by rw [hf]; decide)
      rw [hA.1] at this; exact Bool.noConfusion this
    | nanSignaling =>
      exfalso
      have := Rat_matches_nan (specRound cc ex) d (by rw [hf]; decide) (by rw [hf]; decide)
      rw [hA.1] at this; exact Bool.noConfusion this
  obtain ⟨hval, -, -, -⟩ := Rat_agrees_finite cc ex d fl hn hd ⟨a1, a2⟩ hA hform
  rw [hneg] at hval
  simp only [Bool.false_eq_true, if_false, one_mul] at hval
  have hdneg : d.neg = false := by
    obtain ⟨-, h2, -⟩ := (Rat_matches_iff _ d hform).1 hA.1
    rw [h2, Rat_specRound_neg, hneg]
  have hdpos : 0 < d.toRat := by
    rw [hval, ← hneg]; linarith [hrm.1]
  have hcoeff : 0 < d.coeff := by
    rcases Nat.eq_zero_or_pos d.coeff with h0 | h0
    · exfalso; unfold Dec.toRat at hdpos; rw [h0] at hdpos; simp at hdpos
    · exact h0
  refine ⟨⟨hform, hdneg, hcoeff⟩, ?_, ?_⟩
  · have hfit := hA.2.2
    unfold fits at hfit
    rw [hform] at hfit
    simp only [Bool.and_eq_true, Bool.or_eq_true, beq_iff_eq, decide_eq_true_eq] at hfit
    rw [hw.hp] at hfit
    rcases hfit.1.1 with h | h
    · omega
    · exact_mod_cast h
  · rw [hval, ← hneg]; exact herr

/-! ## no system flag inside the package limits -/
open Cond

theorem noSys_or' {a b : Cond} (ha : NoSys a) (hb : NoSys b) : NoSys (a ||| b) := by
  obtain ⟨a1, a2⟩ := ha
  obtain ⟨b1, b2⟩ := hb
  exact ⟨by rw [Cond.or_sysOverflow, a1, b1]; rfl, by rw [Cond.or_sysUnderflow, a2, b2]; rfl⟩

theorem noSys_empty : NoSys ({} : Cond) := ⟨rfl, rfl⟩

/-- `roundCore_noSys` with the digit bound that `Rounder.Round` really needs (`diff ≤ MaxExponent`) -/
theorem round_noSys (c : Ctx) (hc : c.WF) (x : Dec) (hx : x.form = .finite)
    (w1 : -100000 ≤ x.exp) (w2 : x.exp ≤ 100000)
    (h1 : ndigits x.coeff ≤ 99999 + c.prec) (h2 : x.exp + (ndigits x.coeff : Int) - 1 < 100000) :
    NoSys (ctxRound c x).2 := by
  obtain ⟨hp1, hpe, hemax, hemin, hemin0⟩ := hc
  have hnp := ndigits_pos x.coeff
  rw [ctxRound_finite c x hx]
  unfold ctxRoundFin
  have hck : checkXs [x.exp, 0] = none := by
    rw [checkXs_none_iff]; simp; omega
  have hck1 : checkXs [x.exp] = none := by
    rw [checkXs_none_iff]; simp; omega
  have hsum : sumInts [x.exp, 0] = x.exp := by simp [sumInts]
  have hsum1 : sumInts [x.exp] = x.exp := by simp [sumInts]
  have hshort : NoSys (setExponent c x {} [x.exp, 0]).2 :=
    setExponent_noSys_of c x {} _ hck (by simp [seAdj, hsum]; omega) (by simp [seAdj, hsum]; omega) noSys_empty
  by_cases hn : x.coeff = 0
  · rw [roundX_short c x true hx hp1 (by rw [hn]; exact hp1) (Or.inl hn)]
    exact hshort
  · by_cases hadj : x.exp + (ndigits x.coeff : Int) - 1 < c.emin
    · rw [roundX_subnormal c x true hx hp1 hn hadj]
      have := setExponent_noSys_of c x cSubnormal _ hck1 (by simp [seAdj, hsum1]; omega)
        (by simp [seAdj, hsum1]; omega) ⟨rfl, rfl⟩
      exact noSys_or' ⟨rfl, rfl⟩ this
    · by_cases hnd : ndigits x.coeff ≤ c.prec
      · rw [roundX_short c x true hx hp1 hnd (Or.inr (by omega))]
        exact hshort
      · have hpos : 0 < x.coeff := Nat.pos_of_ne_zero hn
        rw [roundX_long c x true hx hp1 (by omega) (by omega) (by omega)]
        obtain ⟨D, hD⟩ : ∃ D : Nat, D = ndigits x.coeff - c.prec := ⟨_, rfl⟩
        have hDi : (ndigits x.coeff : Int) - (c.prec : Int) = (D : Int) := by omega
        have hDn : ((D : Int)).toNat = D := by omega
        simp only [hDi, hDn]
        have hyd : ndigits (x.coeff / 10 ^ D) = c.prec := by
          rw [hD]; exact ndigits_div_pow _ _ hpos hp1 (by omega)
        have hy : 0 < x.coeff / 10 ^ D := by
          apply Nat.div_pos _ (Nat.pow_pos (by decide))
          calc 10 ^ D ≤ 10 ^ (ndigits x.coeff - 1) := Nat.pow_le_pow_right (by decide) (by omega)
            _ ≤ x.coeff := (ndigits_spec _ hpos).1
        have hstep := roundStep_spec c.mode x.neg x.coeff D x.exp hy
        simp only [] at hstep
        rw [hyd] at hstep
        generalize (if x.coeff % 10 ^ D != 0 && shouldAddOne c.mode (x.coeff / 10 ^ D) x.neg (cmpNat (2 * (x.coeff % 10 ^ D)) (10 ^ D))
              then roundAddOne (x.coeff / 10 ^ D) (D : Int) else (x.coeff / 10 ^ D, (D : Int))) = yd at hstep ⊢
        obtain ⟨y1, d1⟩ := yd
        simp only [] at hstep ⊢
        obtain ⟨s1, s2, s3, s4, s5, s6, s7⟩ := hstep
        have hres : NoSys (if (x.coeff % 10 ^ D != 0) = true then cRounded ||| cInexact else cRounded) := by
          split_ifs <;> exact ⟨rfl, rfl⟩
        have hckd : checkXs [x.exp, d1] = none := by
          rw [checkXs_none_iff]; simp; omega
        have hsumd : sumInts [x.exp, d1] = x.exp + d1 := by simp [sumInts]
        have := setExponent_noSys_of c { form := x.form, neg := x.neg, exp := x.exp, coeff := y1 }
          (if (x.coeff % 10 ^ D != 0) = true then cRounded ||| cInexact else cRounded) _ hckd
          (by simp [seAdj, hsumd]; omega) (by simp [seAdj, hsumd]; omega) hres
        exact noSys_or' hres this

theorem seFinish_empty (d : Dec) (r : Int) : seFinish d r {} = ({ d with exp := r }, {}) := by
  simp [seFinish]

theorem mul_noSys (c : Ctx) (hc : c.WF) (hemin : c.emin = -100000) (hemax : c.emax = 100000)
    (x y : Dec) (hx : x.form = .finite) (hy : y.form = .finite)
    (e1 : -100000 ≤ x.exp) (e2 : x.exp ≤ 100000) (e3 : -100000 ≤ y.exp) (e4 : y.exp ≤ 100000)
    (e5 : -100000 ≤ x.exp + y.exp)
    (h1 : ndigits (x.coeff * y.coeff) ≤ 99999 + c.prec)
    (h2 : x.exp + y.exp + (ndigits (x.coeff * y.coeff) : Int) - 1 < 100000) :
    NoSys (mulOp c x y).fl := by
  have hnp := ndigits_pos (x.coeff * y.coeff)
  rw [Props.mulOp_finite c x y hx hy]
  simp only [finish]
  have hck : checkXs [x.exp, y.exp] = none := by
    rw [checkXs_none_iff]; simp; omega
  have hsum : sumInts [x.exp, y.exp] = x.exp + y.exp := by simp [sumInts]
  rw [setExponent_normal c _ {} _ hck (by simp [seAdj, hsum]; omega) (by simp [seAdj, hsum]; omega)
    (by simp [seAdj, hsum]; omega) (by omega), hsum, seFinish_empty]
  simp only []
  apply noSys_or' noSys_empty
  apply round_noSys c hc _ rfl
  · simp only []; omega
  · simp only []; omega
  · exact h1
  · simp only []; omega

/-- the exact sum of two non-negative finite decimals, as the decimal `Context.add` rounds -/
def sumDec (x y : Dec) : Dec :=
  { form := .finite, neg := false, exp := min x.exp y.exp,
    coeff := x.coeff * 10 ^ (x.exp - min x.exp y.exp).toNat + y.coeff * 10 ^ (y.exp - min x.exp y.exp).toNat }

theorem addOp_pos (c : Ctx) (x y : Dec) (hx : x.form = .finite) (hy : y.form = .finite)
    (hxn : x.neg = false) (hyn : y.neg = false)
    (g1 : x.exp - y.exp ≤ 100000) (g2 : y.exp - x.exp ≤ 100000) :
    addOp c x y false = finish c (ctxRound c (sumDec x y)) := by
  have hu : upscale x y = some (x.coeff * 10 ^ (x.exp - min x.exp y.exp).toNat,
      y.coeff * 10 ^ (y.exp - min x.exp y.exp).toNat, min x.exp y.exp) := by
    unfold upscale
    by_cases h1 : x.exp = y.exp
    · simp [h1]
    · have h1' : (x.exp == y.exp) = false := by simpa using h1
      simp only [h1', Bool.false_eq_true, if_false]
      by_cases h2 : x.exp < y.exp
      · have hm : min x.exp y.exp = x.exp := by omega
        have h3 : ¬ (y.exp - x.exp > MaxExponent) := by simp only [MaxExponent]; omega
        simp only [h2, if_true, h3, if_false, hm]
        simp
      · have hm : min x.exp y.exp = y.exp := by omega
        have h3 : ¬ (x.exp - y.exp > MaxExponent) := by simp only [MaxExponent]; omega
        simp only [h2, if_false, h3, hm]
        simp
  unfold addOp
  rw [Props.notNaN2_of_finite x y hx hy, hu]
  simp [hx, hy, hxn, hyn, sumDec]

theorem sumDec_toRat (x y : Dec) (hxn : x.neg = false) (hyn : y.neg = false) :
    (sumDec x y).toRat = x.toRat + y.toRat := by
  have hx := align x.coeff x.exp (min x.exp y.exp) (min_le_left _ _)
  have hy := align y.coeff y.exp (min x.exp y.exp) (min_le_right _ _)
  unfold Dec.toRat sumDec
  rw [hxn, hyn]
  simp only [Bool.false_eq_true, if_false, one_mul]
  push_cast at hx hy ⊢
  rw [add_mul, hx, hy]

theorem add_noSys (c : Ctx) (hc : c.WF) (x y : Dec) (hx : x.form = .finite) (hy : y.form = .finite)
    (hxn : x.neg = false) (hyn : y.neg = false)
    (e1 : -100000 ≤ x.exp) (e2 : x.exp ≤ 0) (e3 : -100000 ≤ y.exp) (e4 : y.exp ≤ 0)
    (h1 : ndigits (sumDec x y).coeff ≤ 99999 + c.prec)
    (h2 : (sumDec x y).exp + (ndigits (sumDec x y).coeff : Int) - 1 < 100000) :
    NoSys (addOp c x y false).fl := by
  rw [addOp_pos c x y hx hy hxn hyn (by omega) (by omega)]
  simp only [finish]
  apply round_noSys c hc _ rfl
  · show -100000 ≤ min x.exp y.exp; omega
  · show min x.exp y.exp ≤ 100000; omega
  · exact h1
  · exact h2

open Apd.QuoL in
theorem quo_noSys (c : Ctx) (hc : c.WF) (hemin : c.emin = -100000)
    (x y : Dec) (hx : x.form = .finite) (hy : y.form = .finite) (hX : 0 < x.coeff) (hY : 0 < y.coeff)
    (e1 : -100000 ≤ x.exp - y.exp) (e2 : x.exp - y.exp ≤ 100000)
    (d1 : ndigits x.coeff ≤ 100000) (d2 : ndigits y.coeff ≤ 100000)
    (a1 : -100000 ≤ adjRat x.coeff y.coeff + (x.exp - y.exp))
    (a2 : adjRat x.coeff y.coeff + (x.exp - y.exp) < 100000) :
    NoSys (quoOp c x y).fl := by
  obtain ⟨hP, hPmax, hmax, hmin, hmin0⟩ := hc
  rw [quoOp_eq c x y hx hy (by omega) (by omega) (by omega)]
  simp only [finish]
  obtain ⟨s1, s2, s3, s4, s5⟩ := quo_scale x.coeff y.coeff hX hY
  have eP : ((c.prec : Int) - 1).toNat = c.prec - 1 := by omega
  have hlo : qDivisor x.coeff y.coeff * 10 ^ (c.prec - 1) ≤ qDividend c.prec x.coeff y.coeff := by
    unfold qDividend; rw [eP]; exact Nat.mul_le_mul_right _ s2
  have hhi : qDividend c.prec x.coeff y.coeff < qDivisor x.coeff y.coeff * 10 ^ c.prec := by
    unfold qDividend; rw [eP, pow_pred_mul c.prec hP]
    have := Nat.mul_lt_mul_of_pos_right s3 (Nat.pow_pos (n := c.prec - 1) (show 0 < 10 by decide))
    calc qDividend1 x.coeff y.coeff * 10 ^ (c.prec - 1)
        < 10 * qDivisor x.coeff y.coeff * 10 ^ (c.prec - 1) := this
      _ = qDivisor x.coeff y.coeff * (10 * 10 ^ (c.prec - 1)) := by ring
  have hd1 := ndigits_pos x.coeff
  have hd2 := ndigits_pos y.coeff
  have ha : -100000 ≤ -(qAdjCoeffs x.coeff y.coeff) ∧ -(qAdjCoeffs x.coeff y.coeff) ≤ 100000 := by
    unfold qAdjCoeffs qNdDiff; split_ifs <;> omega
  rw [s4] at a1 a2
  generalize -(qAdjCoeffs x.coeff y.coeff) = a at ha a1 a2 ⊢
  generalize qDividend c.prec x.coeff y.coeff = N at hlo hhi ⊢
  generalize qDivisor x.coeff y.coeff = D at hlo hhi s1 ⊢
  have hq1 : 10 ^ (c.prec - 1) ≤ N / D := by
    rw [Nat.le_div_iff_mul_le s1, Nat.mul_comm]; exact hlo
  have hq2 : N / D < 10 ^ c.prec := by
    rw [Nat.div_lt_iff_lt_mul s1, Nat.mul_comm]; exact hhi
  have hqd : ndigits (N / D) = c.prec := ndigits_unique _ _ hP hq1 hq2
  have hqpos : 0 < N / D := Nat.lt_of_lt_of_le (Nat.pow_pos (by decide)) hq1
  rw [hqd]
  generalize N / D = q at hqd hqpos ⊢
  generalize N % D = rem
  unfold quoFin quoSt
  have key : ∀ (cf : Nat) (δ : Int) (res : Cond), NoSys res → -1 ≤ δ → δ ≤ 1 →
      δ + (ndigits cf : Int) = (c.prec : Int) ∨ δ + (ndigits cf : Int) = (c.prec : Int) + 1 →
      NoSys (res ||| (setExponent c { form := .finite, neg := (x.neg != y.neg), exp := 0, coeff := cf } res
        [x.exp - y.exp, a, -((c.prec : Int) - 1), δ]).2) := by
    intro cf δ res hres hδ1 hδ2 hnd
    apply noSys_or' hres
    have hck : checkXs [x.exp - y.exp, a, -((c.prec : Int) - 1), δ] = none := by
      rw [checkXs_none_iff]; simp; omega
    have hsum : sumInts [x.exp - y.exp, a, -((c.prec : Int) - 1), δ] =
        x.exp - y.exp + a - ((c.prec : Int) - 1) + δ := by simp only [sumInts]; omega
    apply Apd.setExponent_noSys_of c _ res _ hck _ _ hres
    · simp only [seAdj, hsum]; omega
    · simp only [seAdj, hsum]; omega
  by_cases hr : (rem != 0) = true
  · simp only [hr, if_true]
    by_cases hadj : x.exp - y.exp + a + -((c.prec : Int) - 1) + (c.prec : Int) - 1 ≥ c.emin
    · simp only [hadj, if_true]
      by_cases hs : shouldAddOne c.mode q (x.neg != y.neg) (cmpNat (2 * rem) D) = true
      · simp only [hs, if_true]
        obtain ⟨r1, r2, r3, r4, -⟩ := Apd.roundAddOne_spec q 0 hqpos
        apply key _ _ _ ⟨rfl, rfl⟩ (by omega) (by omega)
        rw [r2, hqd]; omega
      · simp only [hs, Bool.false_eq_true, if_false]
        apply key _ _ _ ⟨rfl, rfl⟩ (by omega) (by omega)
        rw [hqd]; omega
    · exfalso; omega
  · simp only [hr, Bool.false_eq_true, if_false]
    apply key _ _ _ ⟨rfl, rfl⟩ (by omega) (by omega)
    rw [hqd]; omega

/-! ## the three operations -/

/-- what one operation of the iteration delivers: a positive decimal of at most `p` digits within
relative error `5·10^(-p)` of the exact value `v`, no error, no system flag -/
structure OpRes (p : Nat) (v : ℚ) (o : Out) : Prop where
  pos : Pos o.d
  nd : ndigits o.d.coeff ≤ p
  err : o.err = .none
  ns : NoSys o.fl
  val : |o.d.toRat - v| ≤ 5 * (10 : ℚ) ^ (-(p : ℤ)) * v

theorem goError_empty (fl : Cond) (h : NoSys fl) : goError {} fl = .none := by
  obtain ⟨h1, h2⟩ := h
  simp [goError, h1, h2, HAnd.hAnd, AndOp.and, Cond.and, Cond.any]

theorem widen_lo {v : ℚ} (h : (10 : ℚ) ^ (-3 : ℤ) ≤ v) : (10 : ℚ) ^ (-100000 : ℤ) ≤ v :=
  le_trans (zpow_le_zpow_right₀ ten_gt.le (by norm_num)) h

theorem widen_hi {v : ℚ} (h : v < (10 : ℚ) ^ (2 : ℤ)) : v < (10 : ℚ) ^ (99999 : ℤ) :=
  lt_of_lt_of_le h (zpow_le_zpow_right₀ ten_gt.le (by norm_num))

theorem mul_ok (cc : Ctx) (p : Nat) (hw : WCtx cc p) (hp3 : 3 ≤ p) (hp2 : p ≤ 100000)
    (x y : Dec) (hx : Pos x) (hy : Pos y)
    (e1 : -100000 ≤ x.exp) (e2 : x.exp ≤ 100000) (e3 : -100000 ≤ y.exp) (e4 : y.exp ≤ 100000)
    (e5 : -100000 ≤ x.exp + y.exp)
    (hlo : (10 : ℚ) ^ (-3 : ℤ) ≤ x.toRat * y.toRat) (hhi : x.toRat * y.toRat < (10 : ℚ) ^ (2 : ℤ)) :
    OpRes p (x.toRat * y.toRat) (mulOp cc x y) := by
  have hc := hw.wf (by omega) hp2
  have hP : Pos ({ form := .finite, neg := false, exp := x.exp + y.exp, coeff := x.coeff * y.coeff } : Dec) :=
    ⟨rfl, rfl, Nat.mul_pos hx.h0 hy.h0⟩
  have hPv : ({ form := .finite, neg := false, exp := x.exp + y.exp, coeff := x.coeff * y.coeff } : Dec).toRat =
      x.toRat * y.toRat := by
    rw [hP.toRat_eq, hx.toRat_eq, hy.toRat_eq]
    simp only [Nat.cast_mul, zpow_add₀ ten_ne]; ring
  have hadj := adj_le hP (k := 2) (by rw [hPv]; exact hhi)
  simp only [] at hadj
  have hns : NoSys (mulOp cc x y).fl :=
    mul_noSys cc hc hw.hemin hw.hemax x y hx.hf hy.hf e1 e2 e3 e4 e5 (by rw [hw.hp]; omega) (by omega)
  have herr : (mulOp cc x y).err = goError cc.traps (mulOp cc x y).fl := by
    rw [Props.mulOp_finite cc x y hx.hf hy.hf]; rfl
  rw [hw.ht, goError_empty _ hns] at herr
  have hA := Props.C01_mul cc hc x y hx.hf hy.hf (Or.inl herr)
  have hex : (exactMul x y).toRat = x.toRat * y.toRat := Rat_exactMul_toRat x y
  obtain ⟨r1, r2, r3⟩ := agrees_pos cc p hw (by omega) (exactMul x y) (Nat.mul_pos hx.h0 hy.h0) (show 0 < 1 by decide)
    (by simp [exactMul, hx.hn, hy.hn]) _ _ hA (by rw [hex]; exact widen_lo hlo) (by rw [hex]; exact widen_hi hhi)
  rw [hex] at r3
  exact ⟨r1, r2, herr, hns, r3⟩

theorem add_ok (cc : Ctx) (p : Nat) (hw : WCtx cc p) (hp3 : 3 ≤ p) (hp2 : p ≤ 100000)
    (x y : Dec) (hx : Pos x) (hy : Pos y)
    (e1 : -100000 ≤ x.exp) (e2 : x.exp ≤ 0) (e3 : -100000 ≤ y.exp) (e4 : y.exp ≤ 0)
    (hlo : (10 : ℚ) ^ (-3 : ℤ) ≤ x.toRat + y.toRat) (hhi : x.toRat + y.toRat < (10 : ℚ) ^ (2 : ℤ)) :
    OpRes p (x.toRat + y.toRat) (addOp cc x y false) := by
  have hc := hw.wf (by omega) hp2
  have hP : Pos (sumDec x y) := by
    refine ⟨rfl, rfl, ?_⟩
    show 0 < x.coeff * 10 ^ (x.exp - min x.exp y.exp).toNat + y.coeff * 10 ^ (y.exp - min x.exp y.exp).toNat
    have := Nat.mul_pos hx.h0 (Nat.pow_pos (n := (x.exp - min x.exp y.exp).toNat) (show 0 < 10 by decide))
    omega
  have hPv := sumDec_toRat x y hx.hn hy.hn
  have hadj := adj_le hP (k := 2) (by rw [hPv]; exact hhi)
  have hmin : (sumDec x y).exp = min x.exp y.exp := rfl
  have hns : NoSys (addOp cc x y false).fl :=
    add_noSys cc hc x y hx.hf hy.hf hx.hn hy.hn e1 e2 e3 e4 (by rw [hw.hp]; omega) (by omega)
  have heq := addOp_pos cc x y hx.hf hy.hf hx.hn hy.hn (by omega) (by omega)
  have herr : (addOp cc x y false).err = goError cc.traps (addOp cc x y false).fl := by
    rw [heq]; rfl
  rw [hw.ht, goError_empty _ hns] at herr
  have hns' : NoSys (ctxRound cc (sumDec x y)).2 := by rw [heq] at hns; exact hns
  have hA := Props.C01_roundCore cc hc (sumDec x y) rfl hns'
  have hex : (exactRound (sumDec x y)).toRat = x.toRat + y.toRat := by
    rw [Rat_exactRound_toRat, hPv]
  obtain ⟨r1, r2, r3⟩ := agrees_pos cc p hw (by omega) (exactRound (sumDec x y)) hP.h0 (show 0 < 1 by decide)
    rfl _ _ hA (by rw [hex]; exact widen_lo hlo) (by rw [hex]; exact widen_hi hhi)
  rw [hex] at r3
  rw [heq]
  exact ⟨r1, r2, by rw [← heq]; exact herr, hns', r3⟩

theorem quo_ok (cc : Ctx) (p : Nat) (hw : WCtx cc p) (hp3 : 3 ≤ p) (hp2 : p ≤ 100000)
    (x y : Dec) (hx : Pos x) (hy : Pos y)
    (e1 : -100000 ≤ x.exp - y.exp) (e2 : x.exp - y.exp ≤ 100000)
    (d1 : ndigits x.coeff ≤ 100000) (d2 : ndigits y.coeff ≤ 100000)
    (hlo : (10 : ℚ) ^ (-3 : ℤ) ≤ x.toRat / y.toRat) (hhi : x.toRat / y.toRat < (10 : ℚ) ^ (2 : ℤ)) :
    OpRes p (x.toRat / y.toRat) (quoOp cc x y) := by
  have hc := hw.wf (by omega) hp2
  have hex : (exactQuo x y).toRat = x.toRat / y.toRat := Rat_exactQuo_toRat x y
  have hneg : (exactQuo x y).neg = false := by simp [exactQuo, hx.hn, hy.hn]
  have hmag : (exactQuo x y).mag = x.toRat / y.toRat := by
    rw [← hex, Exact.toRat_eq, hneg]; simp
  have ha := mag_isAdj (exactQuo x y) hx.h0 hy.h0
  rw [hmag] at ha
  obtain ⟨a1, a2⟩ := ha
  have alo : (-3 : ℤ) ≤ adjRat x.coeff y.coeff + (x.exp - y.exp) := by
    have := lt_of_le_of_lt hlo a2
    rw [zpow_lt_zpow_iff_right₀ ten_gt] at this
    simp only [exactQuo] at this
    omega
  have ahi : adjRat x.coeff y.coeff + (x.exp - y.exp) < 2 := by
    have := lt_of_le_of_lt a1 hhi
    rw [zpow_lt_zpow_iff_right₀ ten_gt] at this
    simpa only [exactQuo] using this
  have hns : NoSys (quoOp cc x y).fl :=
    quo_noSys cc hc hw.hemin x y hx.hf hy.hf hx.h0 hy.h0 e1 e2 d1 d2 (by omega) (by omega)
  have herr : (quoOp cc x y).err = goError cc.traps (quoOp cc x y).fl := by
    rw [QuoL.quoOp_eq cc x y hx.hf hy.hf (by have := hy.h0; omega) (by rw [hw.hp]; omega) (by have := hx.h0; omega)]; rfl
  rw [hw.ht, goError_empty _ hns] at herr
  have hA := Props.C01_quo cc hc x y hx.hf hy.hf (by have := hy.h0; omega) (Or.inl herr)
  obtain ⟨r1, r2, r3⟩ := agrees_pos cc p hw (by omega) (exactQuo x y) hx.h0 hy.h0
    hneg _ _ hA (by rw [hex]; exact widen_lo hlo) (by rw [hex]; exact widen_hi hhi)
  rw [hex] at r3
  exact ⟨r1, r2, herr, hns, r3⟩

/-! ## `ErrDecimal` bookkeeping -/

/-- the state of the `ErrDecimal` while nothing has failed -/
structure EDok (e : ED) : Prop where
  err : e.err = .none
  ns : NoSys e.fl
  tr : e.c.traps = {}
  md : e.c.mode = .halfEven
  emin : e.c.emin = -100000
  emax : e.c.emax = 100000

theorem EDok.not_failed {e : ED} (h : EDok e) : e.failed = false := by
  unfold ED.failed; rw [h.err, h.tr, goError_empty _ h.ns]; rfl

theorem EDok.wctx {e : ED} (h : EDok e) : WCtx e.c e.c.prec := ⟨rfl, h.md, h.emin, h.emax, h.tr⟩

theorem EDok.setPrec {e : ED} (h : EDok e) (p : Nat) : EDok { e with c := { e.c with prec := p } } :=
  ⟨h.err, h.ns, h.tr, h.md, h.emin, h.emax⟩

theorem step_ok (e : ED) (cur : Dec) (op : Ctx → Out) (he : EDok e) (p : Nat) (v : ℚ)
    (ho : OpRes p v (op e.c)) :
    EDok (e.step cur op).1 ∧ (e.step cur op).1.c = e.c ∧ (e.step cur op).2 = (op e.c).d := by
  unfold ED.step
  rw [he.not_failed]
  exact ⟨⟨ho.err, noSys_or' he.ns ho.ns, he.tr, he.md, he.emin, he.emax⟩, rfl, rfl⟩

/-! ## relative errors and exponent ranges -/

theorem rel_of_val {r v ε : ℚ} (hv : 0 < v) (h : |r - v| ≤ ε * v) : ∃ e : ℚ, |e| ≤ ε ∧ r = v * (1 + e) := by
  refine ⟨(r - v) / v, ?_, ?_⟩
  · rw [abs_div, abs_of_pos hv, div_le_iff₀ hv]; exact h
  · field_simp; ring

theorem OpRes.rel {p : Nat} {v : ℚ} {o : Out} (h : OpRes p v o) (hv : 0 < v) :
    ∃ e : ℚ, |e| ≤ 5 * (10 : ℚ) ^ (-(p : ℤ)) ∧ o.d.toRat = v * (1 + e) := rel_of_val hv h.val

theorem exp_bounds {d : Dec} (h : Pos d) {n : Nat} (hn : ndigits d.coeff ≤ n) {k m : ℤ}
    (lo : (10 : ℚ) ^ k ≤ d.toRat) (hi : d.toRat < (10 : ℚ) ^ m) : k - (n : ℤ) < d.exp ∧ d.exp ≤ m - 1 := by
  have h1 := adj_gt h lo
  have h2 := adj_le h hi
  have := ndigits_pos d.coeff
  omega

theorem eps_le (P : Nat) (hP : 4 ≤ P) : 5 * (10 : ℚ) ^ (-(P : ℤ)) ≤ 1 / 2000 := by
  have : (10 : ℚ) ^ (-(P : ℤ)) ≤ (10 : ℚ) ^ (-4 : ℤ) := zpow_le_zpow_right₀ ten_gt.le (by omega)
  have e : (10 : ℚ) ^ (-4 : ℤ) = 1 / 10000 := by norm_num
  rw [e] at this; linarith

theorem mul_bounds {t u lo hi lo' hi' : ℚ} (h0 : 0 ≤ lo) (h0' : 0 ≤ lo') (a1 : lo ≤ t) (a2 : t ≤ hi)
    (b1 : lo' ≤ u) (b2 : u ≤ hi') : lo * lo' ≤ t * u ∧ t * u ≤ hi * hi' :=
  ⟨mul_le_mul a1 b1 h0' (le_trans h0 a1), mul_le_mul a2 b2 (le_trans h0' b1) (le_trans (le_trans h0 a1) a2)⟩

theorem one_add_bounds {e ε : ℚ} (h : |e| ≤ ε) (hε : ε ≤ 1 / 2000) : 1999 / 2000 ≤ 1 + e ∧ 1 + e ≤ 2001 / 2000 := by
  obtain ⟨h1, h2⟩ := abs_le.1 h
  constructor <;> linarith

theorem decHalf_pos : Pos decHalf := ⟨rfl, rfl, by decide⟩
theorem decHalf_toRat : decHalf.toRat = 1 / 2 := by
  norm_num [Dec.toRat, decHalf]

theorem t3 : (10 : ℚ) ^ (-3 : ℤ) = 1 / 1000 := by norm_num
theorem t2 : (10 : ℚ) ^ (2 : ℤ) = 100 := by norm_num
theorem tm2 : (10 : ℚ) ^ (-2 : ℤ) = 1 / 100 := by norm_num
theorem tm1 : (10 : ℚ) ^ (-1 : ℤ) = 1 / 10 := by norm_num
theorem t1 : (10 : ℚ) ^ (1 : ℤ) = 10 := by norm_num
theorem t0 : (10 : ℚ) ^ (0 : ℤ) = 1 := by norm_num

/-! ## one round of the loop -/
open Apd.SqrtD

theorem round1_ok (e : ED) (he : EDok e) (fx A : Dec) (P : Nat) (hP4 : 4 ≤ P) (hP : P ≤ 99999)
    (hf : Pos fx) (hfd : ndigits fx.coeff ≤ 100000) (hfe1 : -100000 ≤ fx.exp) (hfe2 : fx.exp ≤ 0)
    (hA : Pos A) (hAd : ndigits A.coeff ≤ 99999)
    (hA1 : 9 / 100 ≤ A.toRat) (hA2 : A.toRat ≤ 11 / 10)
    (h11 : A.toRat ≤ 11 * fx.toRat) (h2 : fx.toRat ≤ 2 * A.toRat) :
    EDok (round1 e fx A P).1 ∧ (round1 e fx A P).1.c = { e.c with prec := P } ∧
    Pos (round1 e fx A P).2 ∧ ndigits (round1 e fx A P).2.coeff ≤ P ∧
    ∃ e1 e2 e3 : ℚ, |e1| ≤ 5 * (10 : ℚ) ^ (-(P : ℤ)) ∧ |e2| ≤ 5 * (10 : ℚ) ^ (-(P : ℤ)) ∧
      |e3| ≤ 5 * (10 : ℚ) ^ (-(P : ℤ)) ∧
      (round1 e fx A P).2.toRat =
        (((fx.toRat / A.toRat) * (1 + e1) + A.toRat) * (1 + e2) * (1 / 2)) * (1 + e3) := by
  have hε := eps_le P hP4
  have hAe := exp_bounds hA hAd (k := -2) (m := 1) (by rw [tm2]; linarith) (by rw [t1]; linarith)
  have hApos := hA.toRat_pos
  have hFpos := hf.toRat_pos
  -- the quotient
  have hdiv1 : 9 / 100 ≤ fx.toRat / A.toRat := by rw [le_div_iff₀ hApos]; linarith
  have hdiv2 : fx.toRat / A.toRat ≤ 2 := by rw [div_le_iff₀ hApos]; linarith
  have he0 := he.setPrec P
  generalize he0def : ({ e with c := { e.c with prec := P } } : ED) = e0 at he0
  have hcP : e0.c = { e.c with prec := P } := by rw [← he0def]
  have hw : WCtx e0.c P := by have := he0.wctx; rw [hcP] at this ⊢; exact this
  have hq := quo_ok e0.c P hw (by omega) (by omega) fx A hf hA (by omega) (by omega) hfd (by omega)
    (by rw [t3]; linarith) (by rw [t2]; linarith)
  obtain ⟨e1, he1, hqv⟩ := hq.rel (by linarith)
  obtain ⟨b1, b2⟩ := one_add_bounds he1 hε
  obtain ⟨q1, q2⟩ := mul_bounds (by norm_num) (by norm_num) hdiv1 hdiv2 b1 b2
  rw [← hqv] at q1 q2
  have hqe := exp_bounds hq.pos hq.nd (k := -2) (m := 1) (by rw [tm2]; linarith) (by rw [t1]; linarith)
  -- the sum
  dsimp only [round1]
  rw [he0def]
  obtain ⟨k1, k2, k3⟩ := step_ok e0 {} (fun cc => quoOp cc fx A) he0 _ _ hq
  generalize ED.step e0 {} (fun cc => quoOp cc fx A) = r1 at k1 k2 k3 ⊢
  replace k3 : r1.2 = (quoOp e0.c fx A).d := k3
  have hs : OpRes P ((quoOp e0.c fx A).d.toRat + A.toRat) (addOp e0.c r1.2 A false) := by
    rw [k3]
    exact add_ok e0.c P hw (by omega) (by omega) _ A hq.pos hA (by omega) (by omega) (by omega) (by omega)
      (by rw [t3]; linarith) (by rw [t2]; linarith)
  obtain ⟨e2, he2, hsv⟩ := hs.rel (by linarith)
  obtain ⟨c1, c2⟩ := one_add_bounds he2 hε
  obtain ⟨s1, s2⟩ := mul_bounds (lo := 17 / 100) (hi := 5) (by norm_num) (by norm_num)
    (show 17 / 100 ≤ (quoOp e0.c fx A).d.toRat + A.toRat by linarith)
    (show (quoOp e0.c fx A).d.toRat + A.toRat ≤ 5 by linarith) c1 c2
  rw [← hsv] at s1 s2
  have hse := exp_bounds hs.pos hs.nd (k := -1) (m := 1) (by rw [tm1]; linarith) (by rw [t1]; linarith)
  obtain ⟨l1, l2, l3⟩ := step_ok r1.1 r1.2 (fun cc => addOp cc r1.2 A false) k1 P _
    (by show OpRes P _ (addOp r1.1.c r1.2 A false); rw [k2]; exact hs)
  generalize ED.step r1.1 r1.2 (fun cc => addOp cc r1.2 A false) = r2 at l1 l2 l3 ⊢
  replace l3 : r2.2 = (addOp r1.1.c r1.2 A false).d := l3
  rw [k2] at l2 l3
  -- the half
  have hh : OpRes P ((addOp e0.c r1.2 A false).d.toRat * decHalf.toRat) (mulOp e0.c r2.2 decHalf) := by
    rw [l3]
    exact mul_ok e0.c P hw (by omega) (by omega) _ decHalf hs.pos decHalf_pos (by omega) (by omega)
      (by decide) (by decide) (by show (-100000 : ℤ) ≤ _ + (-1); omega)
      (by rw [t3, decHalf_toRat]; linarith) (by rw [t2, decHalf_toRat]; linarith)
  obtain ⟨e3, he3, hhv⟩ := hh.rel (by rw [decHalf_toRat]; linarith)
  obtain ⟨m1, m2, m3⟩ := step_ok r2.1 A (fun cc => mulOp cc r2.2 decHalf) l1 P _
    (by show OpRes P _ (mulOp r2.1.c r2.2 decHalf); rw [l2]; exact hh)
  replace m3 : (ED.step r2.1 A (fun cc => mulOp cc r2.2 decHalf)).2 = (mulOp r2.1.c r2.2 decHalf).d := m3
  rw [l2] at m2 m3
  refine ⟨m1, by rw [m2, hcP], by rw [m3]; exact hh.pos, by rw [m3]; exact hh.nd,
    e1, e2, e3, he1, he2, he3, ?_⟩
  rw [m3, hhv, hsv, hqv, decHalf_toRat]

/-! ## the first guess -/

theorem init_core (e : ED) (he : EDok e) (p : Nat) (hp : e.c.prec = p) (hp7 : 7 ≤ p) (hp2 : p ≤ 99999)
    (a0 k0 fx : Dec) (ha : Pos a0) (hk : Pos k0) (hf : Pos fx)
    (ae1 : -100000 ≤ a0.exp) (ae2 : a0.exp ≤ 0) (ke1 : -100000 ≤ k0.exp) (ke2 : k0.exp ≤ 0)
    (fe1 : -100000 ≤ fx.exp) (fe2 : fx.exp ≤ 0) (afe : -100000 ≤ a0.exp + fx.exp)
    (v1 : 259 / 10000 ≤ a0.toRat * fx.toRat) (v2 : a0.toRat * fx.toRat ≤ 819 / 1000)
    (k1 : 819 / 10000 ≤ k0.toRat) (k2 : k0.toRat ≤ 259 / 1000) :
    EDok ((e.step a0 (fun cc => mulOp cc a0 fx)).1.step (e.step a0 (fun cc => mulOp cc a0 fx)).2
      (fun cc => addOp cc (e.step a0 (fun cc => mulOp cc a0 fx)).2 k0 false)).1 ∧
    ((e.step a0 (fun cc => mulOp cc a0 fx)).1.step (e.step a0 (fun cc => mulOp cc a0 fx)).2
      (fun cc => addOp cc (e.step a0 (fun cc => mulOp cc a0 fx)).2 k0 false)).1.c = e.c ∧
    Pos ((e.step a0 (fun cc => mulOp cc a0 fx)).1.step (e.step a0 (fun cc => mulOp cc a0 fx)).2
      (fun cc => addOp cc (e.step a0 (fun cc => mulOp cc a0 fx)).2 k0 false)).2 ∧
    ndigits ((e.step a0 (fun cc => mulOp cc a0 fx)).1.step (e.step a0 (fun cc => mulOp cc a0 fx)).2
      (fun cc => addOp cc (e.step a0 (fun cc => mulOp cc a0 fx)).2 k0 false)).2.coeff ≤ p ∧
    ∃ e1 e2 : ℚ, |e1| ≤ 5 * (10 : ℚ) ^ (-(p : ℤ)) ∧ |e2| ≤ 5 * (10 : ℚ) ^ (-(p : ℤ)) ∧
      ((e.step a0 (fun cc => mulOp cc a0 fx)).1.step (e.step a0 (fun cc => mulOp cc a0 fx)).2
        (fun cc => addOp cc (e.step a0 (fun cc => mulOp cc a0 fx)).2 k0 false)).2.toRat =
        ((a0.toRat * fx.toRat) * (1 + e1) + k0.toRat) * (1 + e2) := by
  have hε := eps_le p (by omega)
  have hw : WCtx e.c p := by have := he.wctx; rw [hp] at this; exact this
  have hm := mul_ok e.c p hw (by omega) (by omega) a0 fx ha hf ae1 (by omega) fe1 (by omega) afe
    (by rw [t3]; linarith) (by rw [t2]; linarith)
  obtain ⟨e1, he1, hmv⟩ := hm.rel (by linarith)
  obtain ⟨b1, b2⟩ := one_add_bounds he1 hε
  obtain ⟨q1, q2⟩ := mul_bounds (by norm_num) (by norm_num) v1 v2 b1 b2
  rw [← hmv] at q1 q2
  have hme := exp_bounds hm.pos hm.nd (k := -2) (m := 0) (by rw [tm2]; linarith) (by rw [t0]; linarith)
  obtain ⟨k1', k2', k3'⟩ := step_ok e a0 (fun cc => mulOp cc a0 fx) he _ _ hm
  generalize ED.step e a0 (fun cc => mulOp cc a0 fx) = r1 at k1' k2' k3' ⊢
  replace k3' : r1.2 = (mulOp e.c a0 fx).d := k3'
  have hs : OpRes p ((mulOp e.c a0 fx).d.toRat + k0.toRat) (addOp e.c r1.2 k0 false) := by
    rw [k3']
    exact add_ok e.c p hw (by omega) (by omega) _ k0 hm.pos hk (by omega) (by omega) ke1 ke2
      (by rw [t3]; linarith) (by rw [t2]; linarith)
  obtain ⟨e2, he2, hsv⟩ := hs.rel (by linarith)
  obtain ⟨l1, l2, l3⟩ := step_ok r1.1 r1.2 (fun cc => addOp cc r1.2 k0 false) k1' p _
    (by show OpRes p _ (addOp r1.1.c r1.2 k0 false); rw [k2']; exact hs)
  replace l3 : (ED.step r1.1 r1.2 (fun cc => addOp cc r1.2 k0 false)).2 = (addOp r1.1.c r1.2 k0 false).d := l3
  rw [k2'] at l2 l3
  refine ⟨l1, l2, by rw [l3]; exact hs.pos, by rw [l3]; exact hs.nd, e1, e2, he1, he2, ?_⟩
  rw [l3, hsv, hmv]

/-- value bracket of a positive decimal by its adjusted exponent -/
theorem toRat_bounds {d : Dec} (h : Pos d) :
    (10 : ℚ) ^ (d.exp + (ndigits d.coeff : ℤ) - 1) ≤ d.toRat ∧ d.toRat < (10 : ℚ) ^ (d.exp + (ndigits d.coeff : ℤ)) := by
  obtain ⟨a, b⟩ := ndigits_spec d.coeff h.h0
  have hp := ndigits_pos d.coeff
  have a' : ((10 : ℚ) ^ ((ndigits d.coeff - 1 : ℕ) : ℤ)) ≤ (d.coeff : ℚ) := by
    rw [← natpow_cast]; exact_mod_cast a
  have b' : (d.coeff : ℚ) < ((10 : ℚ) ^ ((ndigits d.coeff : ℕ) : ℤ)) := by
    rw [← natpow_cast]; exact_mod_cast b
  rw [h.toRat_eq]
  constructor
  · rw [show d.exp + (ndigits d.coeff : ℤ) - 1 = ((ndigits d.coeff - 1 : ℕ) : ℤ) + d.exp by omega, zpow_add₀ ten_ne]
    exact mul_le_mul_of_nonneg_right a' (tp _).le
  · rw [show d.exp + (ndigits d.coeff : ℤ) = ((ndigits d.coeff : ℕ) : ℤ) + d.exp by omega, zpow_add₀ ten_ne]
    exact mul_lt_mul_of_pos_right b' (tp _)

theorem workp_facts (c : Ctx) (x : Dec) :
    7 ≤ workp c x ∧ ndigits x.coeff ≤ workp c x ∧ c.prec + 1 ≤ workp c x := by
  unfold workp; simp only []; split_ifs <;> omega

/-- the scaled operand -/
theorem f_facts (c : Ctx) (x : Dec) (h : Dom c x) :
    Pos (f x) ∧ ndigits (f x).coeff ≤ workp c x ∧ -100000 + 4 ≤ (f x).exp ∧ (f x).exp ≤ -1 ∧
    (even x = true → 1 / 10 ≤ (f x).toRat ∧ (f x).toRat < 1) ∧
    (even x = false → 1 / 100 ≤ (f x).toRat ∧ (f x).toRat < 1 / 10) := by
  obtain ⟨w1, w2, w3⟩ := workp_facts c x
  have hd := h.hd
  have hnp := ndigits_pos x.coeff
  have hP : Pos (f x) := ⟨h.hx, h.hn, Nat.pos_of_ne_zero h.h0⟩
  have hb := toRat_bounds hP
  have hc : (f x).coeff = x.coeff := rfl
  rw [hc] at hb
  refine ⟨hP, w2, ?_, ?_, ?_, ?_⟩
  · unfold f; simp only []; split_ifs <;> omega
  · unfold f; simp only []; split_ifs <;> omega
  · intro he
    have hexp : (f x).exp = -(ndigits x.coeff : ℤ) := by unfold f; simp [he]
    rw [hexp] at hb
    rw [show -(ndigits x.coeff : ℤ) + (ndigits x.coeff : ℤ) - 1 = -1 by omega,
      show -(ndigits x.coeff : ℤ) + (ndigits x.coeff : ℤ) = 0 by omega, tm1, t0] at hb
    exact hb
  · intro he
    have hexp : (f x).exp = -(ndigits x.coeff : ℤ) - 1 := by unfold f; simp [he]
    rw [hexp] at hb
    rw [show -(ndigits x.coeff : ℤ) - 1 + (ndigits x.coeff : ℤ) - 1 = -2 by omega,
      show -(ndigits x.coeff : ℤ) - 1 + (ndigits x.coeff : ℤ) = -1 by omega, tm1, tm2] at hb
    exact hb

theorem a0_toRat (x : Dec) : (a0 x).toRat = if even x then 819 / 1000 else 259 / 100 := by
  unfold a0; split_ifs <;> norm_num [Dec.toRat]
theorem k0_toRat (x : Dec) : (k0 x).toRat = if even x then 259 / 1000 else 819 / 10000 := by
  unfold k0; split_ifs <;> norm_num [Dec.toRat]

theorem nc_ok (c : Ctx) (x : Dec) (h : Dom c x) : EDok ({ c := nc c x } : ED) :=
  ⟨rfl, ⟨rfl, rfl⟩, h.ht, rfl, rfl, rfl⟩

theorem init_ok (c : Ctx) (x : Dec) (h : Dom c x) :
    EDok (init c x).1 ∧ (init c x).1.c = nc c x ∧ Pos (init c x).2 ∧
    ndigits (init c x).2.coeff ≤ workp c x ∧
    ∃ e1 e2 : ℚ, |e1| ≤ 5 * (10 : ℚ) ^ (-(workp c x : ℤ)) ∧ |e2| ≤ 5 * (10 : ℚ) ^ (-(workp c x : ℤ)) ∧
      (init c x).2.toRat = (((a0 x).toRat * (f x).toRat) * (1 + e1) + (k0 x).toRat) * (1 + e2) := by
  obtain ⟨w1, w2, w3⟩ := workp_facts c x
  have hd := h.hd
  obtain ⟨f1, f2, f3, f4, f5, f6⟩ := f_facts c x h
  have ha : Pos (a0 x) := by unfold a0; split_ifs <;> exact ⟨rfl, rfl, by decide⟩
  have hk : Pos (k0 x) := by unfold k0; split_ifs <;> exact ⟨rfl, rfl, by decide⟩
  have hae : -3 ≤ (a0 x).exp ∧ (a0 x).exp ≤ -2 := by unfold a0; split_ifs <;> simp
  have hke : -4 ≤ (k0 x).exp ∧ (k0 x).exp ≤ -3 := by unfold k0; split_ifs <;> simp
  have hav := a0_toRat x
  have hkv := k0_toRat x
  have hvals : 259 / 10000 ≤ (a0 x).toRat * (f x).toRat ∧ (a0 x).toRat * (f x).toRat ≤ 819 / 1000 ∧
      819 / 10000 ≤ (k0 x).toRat ∧ (k0 x).toRat ≤ 259 / 1000 := by
    cases he : even x
    · obtain ⟨g1, g2⟩ := f6 he
      rw [hav, hkv, he]; simp only [Bool.false_eq_true, if_false]
      refine ⟨?_, ?_, ?_, ?_⟩ <;> linarith
    · obtain ⟨g1, g2⟩ := f5 he
      rw [hav, hkv, he]; simp only [if_true]
      refine ⟨?_, ?_, ?_, ?_⟩ <;> linarith
  obtain ⟨v1, v2, v3, v4⟩ := hvals
  exact init_core ({ c := nc c x } : ED) (nc_ok c x h) (workp c x) rfl w1 (by omega) (a0 x) (k0 x) (f x) ha hk f1
    (by omega) (by omega) (by omega) (by omega) (by omega) (by omega) (by omega) v1 v2 v3 v4

end Apd.SqrtL

#print axioms Apd.SqrtL.init_ok
#print axioms Apd.SqrtL.round1_ok
#print axioms Apd.SqrtL.mul_ok
#print axioms Apd.SqrtL.add_ok
#print axioms Apd.SqrtL.quo_ok
