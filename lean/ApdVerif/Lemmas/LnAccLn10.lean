import ApdVerif.Lemmas.LnAccOps
import ApdVerif.Lemmas.C12IntervalLn
import Mathlib.Tactic.IntervalCases
/-!
# L1: the `ln 10` table of `Ln`

`ln10Coeff · 10^-3010` (the digit string of const.go, `GenTie_ln10`) agrees with `Real.log 10` to 95 digits
(kernel evaluation of the verified enclosure `ln10I 100`), and the table entry `ln10At p` is that string
rounded half-up to `2^⌈log2 p⌉ ≥ p` digits.
-/
namespace Apd.LnAcc
open Apd Apd.Oracle.Iv Apd.C12IL Apd.ExpAcc

/-- the check evaluated by the kernel: `hi - 10^-95 ≤ v ≤ lo + 10^-95` for the enclosure `[lo, hi] = ln10I 100` -/
def ln10Check : Bool :=
  let enc := ln10I 100
  let v : BF := ⟨ln10Coeff, ln10Exp⟩
  (addDir 3200 false enc.hi ⟨-1, -95⟩).le v && v.le (addDir 3200 true enc.lo ⟨1, -95⟩)

set_option maxRecDepth 100000 in
theorem ln10Check_true : ln10Check = true := by decide +kernel

/-- the digit string against the real logarithm -/
theorem ln10_cert : |(ln10Coeff : ℝ) * (10 : ℝ) ^ ln10Exp - Real.log 10| ≤ (10 : ℝ) ^ (-(95 : ℤ)) := by
  have h := ln10Check_true
  unfold ln10Check at h
  simp only [Bool.and_eq_true] at h
  obtain ⟨h1, h2⟩ := h
  rw [le_iff _ _ (fd _) (fd _)] at h1 h2
  obtain ⟨e1, e2⟩ := ln10I_sound 100
  have a1 := (addDir_sound 3200 (ln10I 100).hi ⟨-1, -95⟩).2
  have a2 := (addDir_sound 3200 (ln10I 100).lo ⟨1, -95⟩).1
  have t1 : bv ⟨-1, -95⟩ = -(10 : ℝ) ^ (-(95 : ℤ)) := by unfold bv; simp
  have t2 : bv ⟨1, -95⟩ = (10 : ℝ) ^ (-(95 : ℤ)) := by unfold bv; simp
  have hv : bv ⟨(ln10Coeff : ℤ), ln10Exp⟩ = (ln10Coeff : ℝ) * (10 : ℝ) ^ ln10Exp := by unfold bv; simp
  rw [t1] at a1
  rw [t2] at a2
  rw [hv] at h1 h2
  rw [abs_le]
  constructor <;> linarith

/-- the table entry of index `i` -/
def constAt (coeff : Nat) (exp : Int) (strLen : Nat) (i : Nat) : Dec :=
  if i ≥ constVals strLen then { coeff := coeff, exp := exp }
  else (ctxRound { prec := 2 ^ i, mode := .halfUp, emax := MaxExponent, emin := MinExponent } { coeff := coeff, exp := exp }).1

theorem constGet_eq (coeff : Nat) (exp : Int) (strLen p : Nat) :
    constGet coeff exp strLen p = constAt coeff exp strLen (constIdx p) := rfl

/-- the eight entries for `p ≤ 128`: finite, positive, `2^i` digits with exponent `-(2^i - 1)`, and within half a unit of
the last digit of the digit string -/
theorem ln10_table8 (i : Nat) (hi : i < 8) :
    let d := constAt ln10Coeff ln10Exp ln10StrLen i
    d.form = .finite ∧ d.neg = false ∧ d.exp = -((2 ^ i : Nat) : Int) + 1 ∧
    2 * (d.coeff * 10 ^ (3011 - 2 ^ i)) ≤ 2 * ln10Coeff + 10 ^ (3011 - 2 ^ i) ∧
    2 * ln10Coeff ≤ 2 * (d.coeff * 10 ^ (3011 - 2 ^ i)) + 10 ^ (3011 - 2 ^ i) := by
  interval_cases i <;> decide +kernel

theorem constIdx_bounds (p : Nat) (hp1 : 1 ≤ p) (hp : p ≤ 128) : constIdx p < 8 ∧ p ≤ 2 ^ constIdx p := by
  unfold constIdx
  by_cases h : p > 1
  · rw [if_pos h]
    have hne : p - 1 ≠ 0 := by omega
    constructor
    · have : Nat.log2 (p - 1) < 7 := (Nat.log2_lt hne).2 (by omega)
      omega
    · have := @Nat.lt_log2_self (p - 1)
      have e : 2 ^ (1 + Nat.log2 (p - 1)) = 2 ^ (Nat.log2 (p - 1) + 1) := by rw [Nat.add_comm]
      rw [e]; omega
  · rw [if_neg h]
    constructor
    · omega
    · simp; omega

/-- L1. The table value used at working precision `p ≤ 90` is within `1.001·u` of `ln 10` -/
theorem ln10At_near (p : Nat) (hp1 : 3 ≤ p) (hp : p ≤ 90) :
    (ln10At p).form = .finite ∧ |rv (ln10At p) - Real.log 10| ≤ 1001 / 1000 * uR p := by
  unfold ln10At
  rw [constGet_eq]
  obtain ⟨hi8, hpi⟩ := constIdx_bounds p (by omega) (by omega)
  obtain ⟨hf, hn, he, hlo, hhi⟩ := ln10_table8 (constIdx p) hi8
  set i := constIdx p with hidef
  set d := constAt ln10Coeff ln10Exp ln10StrLen i with hd
  refine ⟨hf, ?_⟩
  have hcert := ln10_cert
  -- 2^i ≤ 128 < 3011
  have hpow : 2 ^ i ≤ 128 := by
    have : 2 ^ i ≤ 2 ^ 7 := Nat.pow_le_pow_right (by decide) (by omega)
    simpa using this
  -- rv d = d.coeff * 10^(1 - 2^i)
  have hrv : rv d = (d.coeff : ℝ) * (10 : ℝ) ^ (-((2 ^ i : ℕ) : ℤ) + 1) := by
    unfold rv Dec.toRat
    rw [hn, he]; push_cast; simp
  -- the integer inequalities, as reals, scaled by 10^-3010
  have hk : (0 : ℝ) < (10 : ℝ) ^ (3011 - 2 ^ i) := by positivity
  have hloR : (2 : ℝ) * ((d.coeff : ℝ) * (10 : ℝ) ^ (3011 - 2 ^ i)) ≤ 2 * (ln10Coeff : ℝ) + (10 : ℝ) ^ (3011 - 2 ^ i) := by
    exact_mod_cast hlo
  have hhiR : (2 : ℝ) * (ln10Coeff : ℝ) ≤ 2 * ((d.coeff : ℝ) * (10 : ℝ) ^ (3011 - 2 ^ i)) + (10 : ℝ) ^ (3011 - 2 ^ i) := by
    exact_mod_cast hhi
  have hs : (0 : ℝ) < (10 : ℝ) ^ ln10Exp := zpow_pos (by norm_num) _
  have escale : (10 : ℝ) ^ (3011 - 2 ^ i) * (10 : ℝ) ^ ln10Exp = (10 : ℝ) ^ (-((2 ^ i : ℕ) : ℤ) + 1) := by
    rw [← zpow_natCast (10 : ℝ) (3011 - 2 ^ i), ← zpow_add₀ (by norm_num : (10 : ℝ) ≠ 0)]
    congr 1
    rw [Nat.cast_sub (by omega)]
    unfold ln10Exp
    push_cast; ring
  have hd1 : |rv d - (ln10Coeff : ℝ) * (10 : ℝ) ^ ln10Exp| ≤ (10 : ℝ) ^ (-((2 ^ i : ℕ) : ℤ) + 1) / 2 := by
    rw [hrv, ← escale]
    rw [abs_le]
    constructor <;> nlinarith
  -- 10^(1-2^i) ≤ 10^(1-p)
  have hmono : (10 : ℝ) ^ (-((2 ^ i : ℕ) : ℤ) + 1) ≤ (10 : ℝ) ^ (1 - (p : ℤ)) := by
    apply zpow_le_zpow_right₀ (by norm_num)
    have : (p : ℤ) ≤ ((2 ^ i : ℕ) : ℤ) := by exact_mod_cast hpi
    omega
  have hu : uR p = (10 : ℝ) ^ (1 - (p : ℤ)) / 2 := rfl
  have hA0 : (0 : ℝ) < (10 : ℝ) ^ (1 - (p : ℤ)) := zpow_pos (by norm_num) _
  have h91 : (10 : ℝ) ^ (-(91 : ℤ)) ≤ (10 : ℝ) ^ (1 - (p : ℤ)) :=
    zpow_le_zpow_right₀ (by norm_num) (by omega)
  have e95 : (10 : ℝ) ^ (-(95 : ℤ)) = (10 : ℝ) ^ (-(91 : ℤ)) / 10000 := by
    rw [show (-(95 : ℤ)) = -(91 : ℤ) - 4 by norm_num, zpow_sub₀ (by norm_num : (10 : ℝ) ≠ 0)]
    norm_num
  have tri : |rv d - Real.log 10| ≤ |rv d - (ln10Coeff : ℝ) * (10 : ℝ) ^ ln10Exp| +
      |(ln10Coeff : ℝ) * (10 : ℝ) ^ ln10Exp - Real.log 10| := by
    have : rv d - Real.log 10 = (rv d - (ln10Coeff : ℝ) * (10 : ℝ) ^ ln10Exp) +
      ((ln10Coeff : ℝ) * (10 : ℝ) ^ ln10Exp - Real.log 10) := by ring
    rw [this]; exact abs_add_le _ _
  rw [e95] at hcert
  rw [hu]
  generalize (10 : ℝ) ^ (1 - (p : ℤ)) = A at *
  generalize (10 : ℝ) ^ (-(91 : ℤ)) = B at *
  generalize (10 : ℝ) ^ (-((2 ^ i : ℕ) : ℤ) + 1) = C at *
  linarith

end Apd.LnAcc
