import ApdVerif.Lemmas.C05TransPowLemmas
import ApdVerif.Imp.ReadOps
/-!
# Run lemmas for the read-only `Decimal` methods of `Imp/ReadOps.lean`: the heap is returned unchanged and the result
is the value-level model's (`Dec.cmpTotal`, `Text.append`, `int64Op`)
-/
set_option linter.unusedSimpArgs false
namespace Apd.Imp
open Apd Apd.Cond Prog

@[simp] theorem run_cmpOrderP (s : Src) (h : Heap) : run (cmpOrderP s) h = ((s.val h).cmpOrder, h) := by
  unfold cmpOrderP Dec.cmpOrder
  simp only [run_bind, run_rdForm, run_rdNeg, run_pure]
  cases (s.val h).form <;> rfl

@[simp] theorem run_cmpTotalP (d x : Src) (h : Heap) :
    run (cmpTotalP d x) h = ((d.val h).cmpTotal (x.val h), h) := by
  unfold cmpTotalP Dec.cmpTotal
  simp only [run_bind, run_cmpOrderP, run_ite, run_pure, run_rdForm]
  by_cases h1 : (d.val h).cmpOrder < (x.val h).cmpOrder
  · simp only [h1, if_true]
  simp only [h1, if_false]
  by_cases h2 : (d.val h).cmpOrder > (x.val h).cmpOrder
  · simp only [h2, if_true]
  simp only [h2, if_false]
  cases hf : (d.val h).form <;>
    simp only [run_bind, run_cmpP, run_ite, run_pure, run_rdNeg, run_rdExp, run_rdCoeff]
  split_ifs <;> rfl

/-- the zero-appending loop of `fmtF` counts up to the exponent -/
theorem run_zerosLoopP (d : Src) (h : Heap) (fuel : Nat) :
    ∀ i : Int, i ≤ (d.val h).exp → ((d.val h).exp - i).toNat < fuel →
      run (zerosLoopP d fuel i) h = ((d.val h).exp, h) := by
  induction fuel with
  | zero => intro i _ hf; omega
  | succ k ih =>
    intro i hi hf
    unfold zerosLoopP
    simp only [run_bind, run_rdExp, run_ite, run_pure]
    by_cases hlt : i < (d.val h).exp
    · simp only [hlt, if_true]
      exact ih (i + 1) (by omega) (by omega)
    · simp only [hlt, if_false]
      have : i = (d.val h).exp := by omega
      rw [this]

@[simp] theorem run_fmtFP (d : Src) (digits : List Char) (h : Heap) :
    run (fmtFP d digits) h = (Text.fmtF (d.val h) digits, h) := by
  unfold fmtFP Text.fmtF
  simp only [run_bind, run_rdExp, run_ite, run_pure]
  by_cases h1 : (d.val h).exp < 0
  · simp only [h1, if_true]
    split_ifs <;> rfl
  · simp only [h1, if_false]
    have h2 : (d.val h).exp ≥ 0 := by omega
    simp only [h2, if_true, run_bind, run_pure]
    rw [run_zerosLoopP d h _ 0 h2 (by omega)]

@[simp] theorem run_fmtEP (fmt : Char) (d : Src) (digits : List Char) (h : Heap) :
    run (fmtEP fmt d digits) h = (Text.fmtE fmt (d.val h) digits, h) := by
  unfold fmtEP
  simp only [run_bind, run_rdExp, run_pure]
  rfl

@[simp] theorem run_appendLP (d : Src) (verb : Char) (h : Heap) :
    run (appendLP d verb) h = (Text.appendL (d.val h) verb, h) := by
  unfold appendLP Text.appendL
  simp only [run_bind, run_rdNeg, run_rdForm]
  cases hf : (d.val h).form <;> simp only [run_pure]
  simp only [run_bind, run_rdCoeff, run_ite, run_fmtEP, run_fmtFP, run_pure, run_rdExp, run_rdNeg]
  by_cases h1 : verb = 'e' ∨ verb = 'E'
  · simp only [h1, if_true]
  simp only [h1, if_false]
  by_cases h2 : verb = 'f'
  · simp only [h2, if_true]
  simp only [h2, if_false]
  by_cases h3 : verb = 'g' ∨ verb = 'G'
  · simp only [h3, if_true]
    by_cases h4 : (d.val h).coeff = 0
    · simp only [h4, if_true, true_and]
      by_cases h5 : (d.val h).exp ≥ Text.lowestZeroNegativeCoefficientCockroach
      · simp only [h5, if_true, true_and, run_bind, run_rdExp, run_ite, run_pure]
        by_cases h6 : (d.val h).exp < 0
        · simp only [h6, if_true, run_bind, run_rdExp, run_pure]
          split_ifs <;> rfl
        · simp only [h6, if_false, run_pure]
          split_ifs <;> rfl
      · simp only [h5, if_false, false_and, run_pure]
        split_ifs <;> rfl
    · simp only [h4, if_false, false_and, run_pure]
      split_ifs <;> rfl
  · simp only [h3, if_false]

@[simp] theorem run_textP (d : Src) (verb : Char) (h : Heap) :
    run (textP d verb) h = (Text.append (d.val h) verb, h) := by
  unfold textP Text.append
  simp only [run_bind, run_appendLP, run_pure]

@[simp] theorem run_stringP (d : Src) (h : Heap) : run (stringP d) h = (Text.string (d.val h), h) := by
  unfold stringP Text.string; simp only [run_textP]

@[simp] theorem run_float64P (d : Src) (h : Heap) : run (float64P d) h = (Text.string (d.val h), h) := by
  unfold float64P; simp only [run_stringP]

@[simp] theorem run_int64P (d : Src) (h : Heap) : run (int64P d) h = (int64Op (d.val h), h) := by
  unfold int64P int64Op
  simp only [run_bind, run_rdForm, run_ite, run_stringP, run_pure, run_modfLoc2, run_rdNeg]
  split_ifs <;> rfl

end Apd.Imp
