import ApdVerif.Spec.Agrees
import ApdVerif.Lemmas.Digits
import Mathlib.Tactic.SplitIfs
import Mathlib.Tactic.Ring
import Mathlib.Tactic.Linarith
import Mathlib.Tactic.Positivity
import Mathlib.Tactic.FieldSimp
import Mathlib.Tactic.NormNum
import Mathlib.Algebra.Order.Field.Power
import Mathlib.Algebra.Order.Field.Rat
/-!
# Helper lemmas for C20
-/
namespace Apd.C20L
open Apd Apd.Oracle

/-! ## factoring `specRound` through `roundAt` -/

/-- the quantum chosen by `specRound` (mode independent) -/
def specQ (c : Ctx) (v : Exact) : Int :=
  max (adjRat v.num v.den + v.e10 - (c.prec : Int) + 1) (c.emin - (c.prec : Int) + 1)

/-- the part of `specRound` after `roundAt` -/
def specCore (c : Ctx) (v : Exact) (r : Nat × Bool) : SpecOut :=
  if r.1 != 0 && specQ c v + (ndigits r.1 : Int) - 1 > c.emax then
    { inf := true, neg := v.neg, inexact := true,
      subnormal := decide (adjRat v.num v.den + v.e10 < c.emin), overflow := true }
  else { neg := v.neg, m := r.1, q := specQ c v, inexact := r.2,
         subnormal := decide (adjRat v.num v.den + v.e10 < c.emin) }

theorem specRound_eq (c : Ctx) (v : Exact) :
    specRound c v = if v.num == 0 then { neg := v.neg, m := 0, q := v.e10 }
      else specCore c v (roundAt c.mode v.neg v.num v.den v.e10 (specQ c v)) := rfl

theorem specCore_mode (c : Ctx) (m : Mode) (v : Exact) (r : Nat × Bool) :
    specCore { c with mode := m } v r = specCore c v r := rfl

theorem specQ_mode (c : Ctx) (m : Mode) (v : Exact) :
    specQ { c with mode := m } v = specQ c v := rfl

/-- numerator and denominator used by `roundAt` -/
def rN (num : Nat) (e10 q : Int) : Nat := if q - e10 ≥ 0 then num else num * 10 ^ (-(q - e10)).toNat
def rD (den : Nat) (e10 q : Int) : Nat := if q - e10 ≥ 0 then den * 10 ^ (q - e10).toNat else den

theorem roundAt_eq (mode : Mode) (neg : Bool) (num den : Nat) (e10 q : Int) :
    roundAt mode neg num den e10 q =
      if rN num e10 q % rD den e10 q == 0 then (rN num e10 q / rD den e10 q, false)
      else (if specAddOne mode (rN num e10 q / rD den e10 q) neg
                (compare (2 * (rN num e10 q % rD den e10 q)) (rD den e10 q))
            then rN num e10 q / rD den e10 q + 1 else rN num e10 q / rD den e10 q, true) := rfl

theorem roundAt_exact (mode : Mode) (neg : Bool) (num den : Nat) (e10 q : Int)
    (h : rN num e10 q % rD den e10 q = 0) :
    roundAt mode neg num den e10 q = (rN num e10 q / rD den e10 q, false) := by
  rw [roundAt_eq]; simp [h]

theorem roundAt_down (neg : Bool) (num den : Nat) (e10 q : Int)
    (h : rN num e10 q % rD den e10 q ≠ 0) :
    roundAt .down neg num den e10 q = (rN num e10 q / rD den e10 q, true) := by
  rw [roundAt_eq]; simp [h, specAddOne]

theorem roundAt_up (neg : Bool) (num den : Nat) (e10 q : Int)
    (h : rN num e10 q % rD den e10 q ≠ 0) :
    roundAt .up neg num den e10 q = (rN num e10 q / rD den e10 q + 1, true) := by
  rw [roundAt_eq]; simp [h, specAddOne]

theorem roundAt_down_or_up (mode : Mode) (neg : Bool) (num den : Nat) (e10 q : Int) :
    roundAt mode neg num den e10 q = roundAt .down neg num den e10 q ∨
    roundAt mode neg num den e10 q = roundAt .up neg num den e10 q := by
  by_cases h : rN num e10 q % rD den e10 q = 0
  · left; rw [roundAt_exact _ _ _ _ _ _ h, roundAt_exact _ _ _ _ _ _ h]
  · rw [roundAt_down _ _ _ _ _ h, roundAt_up _ _ _ _ _ h, roundAt_eq]
    simp only [beq_iff_eq, h, if_false]
    cases specAddOne mode (rN num e10 q / rD den e10 q) neg
        (compare (2 * (rN num e10 q % rD den e10 q)) (rD den e10 q)) <;> simp

theorem roundAt_inexact (mode : Mode) (neg : Bool) (num den : Nat) (e10 q : Int) :
    (roundAt mode neg num den e10 q).2 = !(rN num e10 q % rD den e10 q == 0) := by
  rw [roundAt_eq]; split <;> simp_all

theorem specAddOne_mirror (m : Mode) (n : Nat) (neg : Bool) (half : Ordering) (m' : Mode)
    (hm : m' = match m with | .floor => .ceiling | .ceiling => .floor | m => m) :
    specAddOne m' n (!neg) half = specAddOne m n neg half := by
  subst hm; cases m <;> simp [specAddOne]

/-! ## rational-number view of `adjRat` and `roundAt` -/

/-- the magnitude `num/den × 10^e10` as a rational -/
def qval (num den : Nat) (e10 : Int) : ℚ := (num : ℚ) / (den : ℚ) * (10 : ℚ) ^ e10

theorem ten_ne : (10 : ℚ) ≠ 0 := by norm_num
theorem ten_gt : (1 : ℚ) < 10 := by norm_num
theorem ten_ge : (1 : ℚ) ≤ 10 := by norm_num
theorem tp (z : Int) : (0 : ℚ) < (10 : ℚ) ^ z := zpow_pos (by norm_num) z

theorem zpow_toNat (z : Int) (hz : 0 ≤ z) : ((10 ^ z.toNat : ℕ) : ℚ) = (10 : ℚ) ^ z := by
  conv_rhs => rw [← Int.toNat_of_nonneg hz]
  rw [zpow_natCast]; push_cast; rfl

theorem zpow_ofNat (k : ℕ) : ((10 ^ k : ℕ) : ℚ) = (10 : ℚ) ^ (k : Int) := by
  rw [zpow_natCast]; push_cast; rfl

theorem rD_pos (den : Nat) (e10 q : Int) (hd : den ≠ 0) : 0 < rD den e10 q := by
  unfold rD
  split
  · exact Nat.mul_pos (by omega) (Nat.pow_pos (by decide))
  · omega

theorem rN_rD (num den : Nat) (e10 q : Int) (hd : den ≠ 0) :
    ((rN num e10 q : ℕ) : ℚ) / ((rD den e10 q : ℕ) : ℚ) = qval num den e10 / (10 : ℚ) ^ q := by
  have hdq : (den : ℚ) ≠ 0 := by exact_mod_cast hd
  unfold rN rD qval
  by_cases h : q - e10 ≥ 0
  · simp only [h, if_true]
    rw [Nat.cast_mul, zpow_toNat _ h, zpow_sub₀ ten_ne]
    have := (tp q).ne'; have := (tp e10).ne'
    field_simp
  · simp only [h, if_false]
    rw [Nat.cast_mul, zpow_toNat _ (by omega), neg_sub, zpow_sub₀ ten_ne]
    have := (tp q).ne'; have := (tp e10).ne'
    field_simp

theorem nat_floor (N D : Nat) (hD : 0 < D) :
    ((N / D : ℕ) : ℚ) ≤ (N : ℚ) / D ∧ (N : ℚ) / D < ((N / D : ℕ) : ℚ) + 1 := by
  have hDq : (0 : ℚ) < D := by exact_mod_cast hD
  have e : (N : ℚ) = D * ((N / D : ℕ) : ℚ) + ((N % D : ℕ) : ℚ) := by
    exact_mod_cast (Nat.div_add_mod N D).symm
  have hr : ((N % D : ℕ) : ℚ) < D := by exact_mod_cast Nat.mod_lt N hD
  have hr0 : (0 : ℚ) ≤ ((N % D : ℕ) : ℚ) := Nat.cast_nonneg _
  constructor
  · rw [le_div_iff₀ hDq]; nlinarith
  · rw [div_lt_iff₀ hDq]; nlinarith

theorem ndigits_q (n : Nat) (hn : 0 < n) :
    (10 : ℚ) ^ ((ndigits n : Int) - 1) ≤ n ∧ (n : ℚ) < (10 : ℚ) ^ (ndigits n : Int) := by
  obtain ⟨h1, h2⟩ := ndigits_spec n hn
  have hp := ndigits_pos n
  constructor
  · have : ((ndigits n : Int) - 1) = ((ndigits n - 1 : ℕ) : Int) := by omega
    rw [this, ← zpow_ofNat]; exact_mod_cast h1
  · rw [← zpow_ofNat]; exact_mod_cast h2

/-- `adjRat` is the floor of the decimal logarithm -/
theorem adjRat_spec (num den : Nat) (hn : 0 < num) (hd : 0 < den) :
    (10 : ℚ) ^ (adjRat num den) ≤ (num : ℚ) / den ∧ (num : ℚ) / den < (10 : ℚ) ^ (adjRat num den + 1) := by
  obtain ⟨n1, n2⟩ := ndigits_q num hn
  obtain ⟨d1, d2⟩ := ndigits_q den hd
  have hdq : (0 : ℚ) < den := by exact_mod_cast hd
  have hnq : (0 : ℚ) < num := by exact_mod_cast hn
  -- coarse bounds
  have lo : (10 : ℚ) ^ ((ndigits num : Int) - (ndigits den : Int) - 1) < (num : ℚ) / den := by
    rw [lt_div_iff₀ hdq]
    have : (10 : ℚ) ^ ((ndigits num : Int) - (ndigits den : Int) - 1) * (10 : ℚ) ^ (ndigits den : Int)
        = (10 : ℚ) ^ ((ndigits num : Int) - 1) := by
      rw [← zpow_add₀ ten_ne]; congr 1; omega
    have h3 := tp ((ndigits num : Int) - (ndigits den : Int) - 1)
    nlinarith
  have hi : (num : ℚ) / den < (10 : ℚ) ^ ((ndigits num : Int) - (ndigits den : Int) + 1) := by
    rw [div_lt_iff₀ hdq]
    have : (10 : ℚ) ^ ((ndigits num : Int) - (ndigits den : Int) + 1) * (10 : ℚ) ^ ((ndigits den : Int) - 1)
        = (10 : ℚ) ^ (ndigits num : Int) := by
      rw [← zpow_add₀ ten_ne]; congr 1; omega
    have h3 := tp ((ndigits num : Int) - (ndigits den : Int) + 1)
    nlinarith
  -- the test
  have test : (if (ndigits num : Int) - (ndigits den : Int) ≥ 0
        then decide (num ≥ den * 10 ^ ((ndigits num : Int) - (ndigits den : Int)).toNat)
        else decide (num * 10 ^ (-((ndigits num : Int) - (ndigits den : Int))).toNat ≥ den)) = true ↔
      (10 : ℚ) ^ ((ndigits num : Int) - (ndigits den : Int)) ≤ (num : ℚ) / den := by
    rw [le_div_iff₀ hdq]
    split
    · rename_i h
      rw [decide_eq_true_eq, ← zpow_toNat _ h, mul_comm]
      exact_mod_cast Iff.rfl
    · rename_i h
      rw [decide_eq_true_eq]
      have e : (10 : ℚ) ^ ((ndigits num : Int) - (ndigits den : Int)) =
          ((10 : ℚ) ^ (-((ndigits num : Int) - (ndigits den : Int))))⁻¹ := by
        rw [zpow_neg, inv_inv]
      rw [e, ← zpow_toNat _ (by omega), inv_mul_le_iff₀ (by positivity), mul_comm]
      exact_mod_cast Iff.rfl
  have hadj : adjRat num den =
      if (if (ndigits num : Int) - (ndigits den : Int) ≥ 0
        then decide (num ≥ den * 10 ^ ((ndigits num : Int) - (ndigits den : Int)).toNat)
        else decide (num * 10 ^ (-((ndigits num : Int) - (ndigits den : Int))).toNat ≥ den)) = true
      then (ndigits num : Int) - (ndigits den : Int) else (ndigits num : Int) - (ndigits den : Int) - 1 := rfl
  rw [hadj]
  generalize (if (ndigits num : Int) - (ndigits den : Int) ≥ 0
        then decide (num ≥ den * 10 ^ ((ndigits num : Int) - (ndigits den : Int)).toNat)
        else decide (num * 10 ^ (-((ndigits num : Int) - (ndigits den : Int))).toNat ≥ den)) = ge at test
  cases ge
  · have h : (num : ℚ) / den < (10 : ℚ) ^ ((ndigits num : Int) - (ndigits den : Int)) := by
      rw [← not_le, ← test]; simp
    simp only [Bool.false_eq_true, if_false]
    constructor
    · exact lo.le
    · rw [sub_add_cancel]; exact h
  · simp only [if_true]
    exact ⟨test.1 rfl, hi⟩

/-- bounds on the scaled value in terms of the adjusted exponent -/
theorem qval_bounds (num den : Nat) (e10 : Int) (hn : num ≠ 0) (hd : den ≠ 0) :
    (10 : ℚ) ^ (adjRat num den + e10) ≤ qval num den e10 ∧
    qval num den e10 < (10 : ℚ) ^ (adjRat num den + e10 + 1) := by
  obtain ⟨h1, h2⟩ := adjRat_spec num den (by omega) (by omega)
  unfold qval
  have hp := tp e10
  constructor
  · rw [zpow_add₀ ten_ne]; exact mul_le_mul_of_nonneg_right h1 hp.le
  · rw [show adjRat num den + e10 + 1 = (adjRat num den + 1) + e10 by ring, zpow_add₀ ten_ne]
    exact mul_lt_mul_of_pos_right h2 hp

/-- the truncated quotient is below `10^k` when the quantum is at least `adj + 1 - k` -/
theorem floor_lt (num den : Nat) (e10 q : Int) (k : Nat) (hn : num ≠ 0) (hd : den ≠ 0)
    (h : adjRat num den + e10 + 1 - k ≤ q) :
    rN num e10 q / rD den e10 q < 10 ^ k := by
  obtain ⟨f1, _⟩ := nat_floor (rN num e10 q) (rD den e10 q) (rD_pos den e10 q hd)
  rw [rN_rD num den e10 q hd] at f1
  obtain ⟨_, b2⟩ := qval_bounds num den e10 hn hd
  have : qval num den e10 / (10 : ℚ) ^ q < (10 : ℚ) ^ (k : Int) := by
    rw [div_lt_iff₀ (tp q), ← zpow_add₀ ten_ne]
    exact lt_of_lt_of_le b2 (zpow_le_zpow_right₀ ten_ge (by omega))
  have : ((rN num e10 q / rD den e10 q : ℕ) : ℚ) < ((10 ^ k : ℕ) : ℚ) := by
    rw [zpow_ofNat]; linarith
  exact_mod_cast this

/-- the truncated quotient is at least `10^k` when the quantum is at most `adj - k` -/
theorem floor_ge (num den : Nat) (e10 q : Int) (k : Nat) (hn : num ≠ 0) (hd : den ≠ 0)
    (h : q + k ≤ adjRat num den + e10) :
    10 ^ k ≤ rN num e10 q / rD den e10 q := by
  obtain ⟨_, f2⟩ := nat_floor (rN num e10 q) (rD den e10 q) (rD_pos den e10 q hd)
  rw [rN_rD num den e10 q hd] at f2
  obtain ⟨b1, _⟩ := qval_bounds num den e10 hn hd
  have : (10 : ℚ) ^ (k : Int) ≤ qval num den e10 / (10 : ℚ) ^ q := by
    rw [le_div_iff₀ (tp q), ← zpow_add₀ ten_ne]
    exact le_trans (zpow_le_zpow_right₀ ten_ge (by omega)) b1
  have : ((10 ^ k : ℕ) : ℚ) < ((rN num e10 q / rD den e10 q + 1 : ℕ) : ℚ) := by
    rw [zpow_ofNat]; push_cast; linarith
  have : 10 ^ k < rN num e10 q / rD den e10 q + 1 := by exact_mod_cast this
  omega

/-- the adjusted exponent is monotone in the value -/
theorem adj_mono (n1 d1 n2 d2 : Nat) (e1 e2 : Int) (h1 : n1 ≠ 0) (hd1 : d1 ≠ 0) (h2 : n2 ≠ 0) (hd2 : d2 ≠ 0)
    (h : qval n1 d1 e1 ≤ qval n2 d2 e2) : adjRat n1 d1 + e1 ≤ adjRat n2 d2 + e2 := by
  obtain ⟨a, _⟩ := qval_bounds n1 d1 e1 h1 hd1
  obtain ⟨_, b⟩ := qval_bounds n2 d2 e2 h2 hd2
  have : (10 : ℚ) ^ (adjRat n1 d1 + e1) < (10 : ℚ) ^ (adjRat n2 d2 + e2 + 1) := by linarith
  rw [zpow_lt_zpow_iff_right₀ ten_gt] at this
  omega

/-- overflow test of `specCore` in terms of the rounded value -/
theorem inf_iff (m : Nat) (q emax : Int) :
    (m ≠ 0 ∧ q + (ndigits m : Int) - 1 > emax) ↔ (10 : ℚ) ^ (emax + 1) ≤ (m : ℚ) * (10 : ℚ) ^ q := by
  by_cases hm : m = 0
  · subst hm; simp; exact tp _
  · obtain ⟨a, b⟩ := ndigits_q m (by omega)
    have hq := tp q
    constructor
    · rintro ⟨_, h⟩
      calc (10 : ℚ) ^ (emax + 1) ≤ (10 : ℚ) ^ (((ndigits m : Int) - 1) + q) :=
            zpow_le_zpow_right₀ ten_ge (by omega)
        _ = (10 : ℚ) ^ ((ndigits m : Int) - 1) * (10 : ℚ) ^ q := zpow_add₀ ten_ne _ _
        _ ≤ (m : ℚ) * (10 : ℚ) ^ q := mul_le_mul_of_nonneg_right a hq.le
    · intro h
      refine ⟨hm, ?_⟩
      have : (10 : ℚ) ^ (emax + 1) < (10 : ℚ) ^ ((ndigits m : Int) + q) := by
        rw [zpow_add₀ ten_ne (ndigits m : Int) q]
        exact lt_of_le_of_lt h (mul_lt_mul_of_pos_right b hq)
      rw [zpow_lt_zpow_iff_right₀ ten_gt] at this
      omega

/-- the comparison used in C20_round_monotone is the comparison of the rounded values -/
theorem cmp_iff (m1 m2 : Nat) (q1 q2 : Int) :
    (if q1 ≤ q2 then m1 ≤ m2 * 10 ^ (q2 - q1).toNat else m1 * 10 ^ (q1 - q2).toNat ≤ m2) ↔
    (m1 : ℚ) * (10 : ℚ) ^ q1 ≤ (m2 : ℚ) * (10 : ℚ) ^ q2 := by
  split
  · rename_i h
    have e : (10 : ℚ) ^ q2 = ((10 ^ (q2 - q1).toNat : ℕ) : ℚ) * (10 : ℚ) ^ q1 := by
      rw [zpow_toNat _ (by omega), ← zpow_add₀ ten_ne]; congr 1; omega
    rw [e, ← mul_assoc, mul_le_mul_iff_left₀ (tp q1)]
    exact_mod_cast Iff.rfl
  · rename_i h
    have e : (10 : ℚ) ^ q1 = ((10 ^ (q1 - q2).toNat : ℕ) : ℚ) * (10 : ℚ) ^ q2 := by
      rw [zpow_toNat _ (by omega), ← zpow_add₀ ten_ne]; congr 1; omega
    rw [e, ← mul_assoc, mul_le_mul_iff_left₀ (tp q2)]
    exact_mod_cast Iff.rfl

/-- `roundAt` on an explicit fraction `N / D` -/
def rnd (mode : Mode) (neg : Bool) (N D : Nat) : Nat × Bool :=
  if N % D == 0 then (N / D, false)
  else (if specAddOne mode (N / D) neg (compare (2 * (N % D)) D) then N / D + 1 else N / D, true)

theorem roundAt_rnd (mode : Mode) (neg : Bool) (num den : Nat) (e10 q : Int) :
    roundAt mode neg num den e10 q = rnd mode neg (rN num e10 q) (rD den e10 q) := rfl

theorem rnd_bounds (mode : Mode) (neg : Bool) (N D : Nat) :
    N / D ≤ (rnd mode neg N D).1 ∧ (rnd mode neg N D).1 ≤ N / D + 1 := by
  unfold rnd
  split
  · simp
  · split <;> simp

theorem specAddOne_mono (m : Mode) (n : Nat) (neg : Bool) (x y D : Nat) (h : x ≤ y)
    (h1 : specAddOne m n neg (compare x D) = true) : specAddOne m n neg (compare y D) = true := by
  rcases Nat.lt_trichotomy x D with hx | hx | hx <;> rcases Nat.lt_trichotomy y D with hy | hy | hy
  all_goals first
    | (exfalso; omega)
    | (have cx := Nat.compare_eq_lt.2 hx
       have cy := Nat.compare_eq_lt.2 hy
       rw [cx] at h1; rw [cy]; exact h1)
    | (have cx := Nat.compare_eq_eq.2 hx
       have cy := Nat.compare_eq_eq.2 hy
       rw [cx] at h1; rw [cy]; exact h1)
    | (have cx := Nat.compare_eq_gt.2 hx
       have cy := Nat.compare_eq_gt.2 hy
       rw [cx] at h1; rw [cy]; exact h1)
    | (have cx := Nat.compare_eq_lt.2 hx
       have cy := Nat.compare_eq_eq.2 hy
       rw [cx] at h1; rw [cy]; cases m <;> simp_all [specAddOne])
    | (have cx := Nat.compare_eq_lt.2 hx
       have cy := Nat.compare_eq_gt.2 hy
       rw [cx] at h1; rw [cy]; cases m <;> simp_all [specAddOne])
    | (have cx := Nat.compare_eq_eq.2 hx
       have cy := Nat.compare_eq_gt.2 hy
       rw [cx] at h1; rw [cy]; cases m <;> simp_all [specAddOne])

theorem rnd_mono (mode : Mode) (neg : Bool) (N1 N2 D : Nat) (h : N1 ≤ N2) :
    (rnd mode neg N1 D).1 ≤ (rnd mode neg N2 D).1 := by
  have hdiv : N1 / D ≤ N2 / D := Nat.div_le_div_right h
  obtain ⟨a1, a2⟩ := rnd_bounds mode neg N1 D
  obtain ⟨b1, b2⟩ := rnd_bounds mode neg N2 D
  by_cases hlt : N1 / D < N2 / D
  · omega
  · have heq : N1 / D = N2 / D := by omega
    have e1 := Nat.div_add_mod N1 D
    have e2 := Nat.div_add_mod N2 D
    have hr : N1 % D ≤ N2 % D := by
      rw [heq] at e1
      omega
    by_cases hr1 : N1 % D = 0
    · have : (rnd mode neg N1 D).1 = N1 / D := by unfold rnd; simp [hr1]
      omega
    · have hr2 : N2 % D ≠ 0 := by omega
      unfold rnd
      simp only [beq_iff_eq, hr1, hr2, if_false]
      rw [heq]
      by_cases hs : specAddOne mode (N2 / D) neg (compare (2 * (N1 % D)) D) = true
      · have := specAddOne_mono mode (N2 / D) neg (2 * (N1 % D)) (2 * (N2 % D)) D (by omega) hs
        simp [hs, this]
      · simp only [hs, Bool.false_eq_true, if_false]
        split <;> simp

theorem rN_mono (n1 n2 : Nat) (e q : Int) (h : n1 ≤ n2) : rN n1 e q ≤ rN n2 e q := by
  unfold rN; split
  · exact h
  · exact Nat.mul_le_mul_right _ h

theorem specCore_inf (c : Ctx) (v : Exact) (r : Nat × Bool) :
    (specCore c v r).inf = true ↔ (r.1 ≠ 0 ∧ specQ c v + (ndigits r.1 : Int) - 1 > c.emax) := by
  unfold specCore
  split
  · rename_i h; simpa using h
  · rename_i h; simpa using h

theorem specCore_fin (c : Ctx) (v : Exact) (r : Nat × Bool)
    (h : ¬ (r.1 ≠ 0 ∧ specQ c v + (ndigits r.1 : Int) - 1 > c.emax)) :
    (specCore c v r).inf = false ∧ (specCore c v r).m = r.1 ∧ (specCore c v r).q = specQ c v ∧
    (specCore c v r).inexact = r.2 := by
  have : ¬ ((r.1 != 0 && decide (specQ c v + (ndigits r.1 : Int) - 1 > c.emax)) = true) := by
    simpa using h
  unfold specCore
  rw [if_neg this]
  exact ⟨rfl, rfl, rfl, rfl⟩

theorem ndigits_pow (k : Nat) : ndigits (10 ^ k) = k + 1 :=
  ndigits_unique _ _ (by omega) (by simp) (Nat.pow_lt_pow_right (by decide) (by omega))

/-- rounding (to the context's precision / Etiny) is monotone in the rounded VALUE -/
theorem round_mono_val (c : Ctx) (hc : c.WF) (neg : Bool) (n1 n2 : Nat) (e : Int) (h : n1 ≤ n2)
    (h1 : n1 ≠ 0) :
    ((roundAt c.mode neg n1 1 e (specQ c { neg := neg, num := n1, den := 1, e10 := e })).1 : ℚ) *
        (10 : ℚ) ^ (specQ c { neg := neg, num := n1, den := 1, e10 := e }) ≤
    ((roundAt c.mode neg n2 1 e (specQ c { neg := neg, num := n2, den := 1, e10 := e })).1 : ℚ) *
        (10 : ℚ) ^ (specQ c { neg := neg, num := n2, den := 1, e10 := e }) := by
  obtain ⟨hp1, hpe, hemax, hemin, hemin0⟩ := hc
  have h2 : n2 ≠ 0 := by omega
  have hv : qval n1 1 e ≤ qval n2 1 e := by
    unfold qval
    have : (n1 : ℚ) ≤ n2 := by exact_mod_cast h
    simp only [Nat.cast_one, div_one]
    exact mul_le_mul_of_nonneg_right this (tp e).le
  have hadj := adj_mono n1 1 n2 1 e e h1 (by decide) h2 (by decide) hv
  have hQ1 : specQ c { neg := neg, num := n1, den := 1, e10 := e } =
      max (adjRat n1 1 + e - (c.prec : Int) + 1) (c.emin - (c.prec : Int) + 1) := rfl
  have hQ2 : specQ c { neg := neg, num := n2, den := 1, e10 := e } =
      max (adjRat n2 1 + e - (c.prec : Int) + 1) (c.emin - (c.prec : Int) + 1) := rfl
  generalize specQ c { neg := neg, num := n1, den := 1, e10 := e } = Q1 at *
  generalize specQ c { neg := neg, num := n2, den := 1, e10 := e } = Q2 at *
  have hQ : Q1 ≤ Q2 := by omega
  rw [roundAt_rnd, roundAt_rnd]
  by_cases hQe : Q1 = Q2
  · subst hQe
    have := rnd_mono c.mode neg _ _ (rD 1 e Q1) (rN_mono n1 n2 e Q1 h)
    exact mul_le_mul_of_nonneg_right (by exact_mod_cast this) (tp Q1).le
  · have hlt : Q1 < Q2 := by omega
    have hQ2' : Q2 = adjRat n2 1 + e - (c.prec : Int) + 1 := by omega
    -- the grid point G = 10^(adj2) separates the two roundings
    have hk : 0 ≤ adjRat n2 1 + e - Q1 := by omega
    have f1 : rN n1 e Q1 / rD 1 e Q1 < 10 ^ (adjRat n2 1 + e - Q1).toNat :=
      floor_lt n1 1 e Q1 _ h1 (by decide) (by omega)
    have f2 : 10 ^ (c.prec - 1) ≤ rN n2 e Q2 / rD 1 e Q2 :=
      floor_ge n2 1 e Q2 _ h2 (by decide) (by omega)
    obtain ⟨-, a2⟩ := rnd_bounds c.mode neg (rN n1 e Q1) (rD 1 e Q1)
    obtain ⟨b1, -⟩ := rnd_bounds c.mode neg (rN n2 e Q2) (rD 1 e Q2)
    have g1 : ((rnd c.mode neg (rN n1 e Q1) (rD 1 e Q1)).1 : ℚ) ≤ (10 : ℚ) ^ (adjRat n2 1 + e - Q1) := by
      rw [← zpow_toNat _ hk]
      have : (rnd c.mode neg (rN n1 e Q1) (rD 1 e Q1)).1 ≤ 10 ^ (adjRat n2 1 + e - Q1).toNat := by omega
      exact_mod_cast this
    have g2 : (10 : ℚ) ^ (((c.prec - 1 : ℕ) : Int)) ≤ ((rnd c.mode neg (rN n2 e Q2) (rD 1 e Q2)).1 : ℚ) := by
      rw [← zpow_ofNat]
      have : 10 ^ (c.prec - 1) ≤ (rnd c.mode neg (rN n2 e Q2) (rD 1 e Q2)).1 := by omega
      exact_mod_cast this
    calc ((rnd c.mode neg (rN n1 e Q1) (rD 1 e Q1)).1 : ℚ) * (10 : ℚ) ^ Q1
        ≤ (10 : ℚ) ^ (adjRat n2 1 + e - Q1) * (10 : ℚ) ^ Q1 := mul_le_mul_of_nonneg_right g1 (tp Q1).le
      _ = (10 : ℚ) ^ (adjRat n2 1 + e) := by rw [← zpow_add₀ ten_ne]; congr 1; omega
      _ = (10 : ℚ) ^ (((c.prec - 1 : ℕ) : Int)) * (10 : ℚ) ^ Q2 := by
          rw [← zpow_add₀ ten_ne]; congr 1; omega
      _ ≤ _ := mul_le_mul_of_nonneg_right g2 (tp Q2).le

/-! ## model-side helpers (Add/Mul/Sub laws) -/

theorem isNaN_of_finite (x : Dec) (hx : x.form = .finite) : x.isNaN = false := by
  simp [Dec.isNaN, hx]

theorem upscale_swap (x y : Dec) :
    upscale y x = (upscale x y).map (fun t => (t.2.1, t.1, t.2.2)) := by
  unfold upscale
  by_cases h1 : x.exp = y.exp
  · simp [h1]
  · have h1' : ¬ y.exp = x.exp := fun h => h1 h.symm
    by_cases h2 : x.exp < y.exp
    · have h3 : ¬ y.exp < x.exp := by omega
      simp only [beq_iff_eq, h1, h1', h2, h3, if_true, if_false]
      split <;> simp
    · have h3 : y.exp < x.exp := by omega
      simp only [beq_iff_eq, h1, h1', h2, h3, if_true, if_false]
      split <;> simp

theorem checkXs2_none (a b : Int) (h : checkXs [a, b] = none) : checkXs [b, a] = none := by
  by_cases h1 : a > 100000 <;> by_cases h2 : a < -100000 <;> by_cases h3 : b > 100000 <;>
    by_cases h4 : b < -100000 <;> simp [checkXs, MaxExponent, MinExponent, h1,h2,h3,h4] at h ⊢

theorem checkXs2_comm (a b : Int)
    (h : ¬ (a > MaxExponent ∧ b < MinExponent) ∧ ¬ (b > MaxExponent ∧ a < MinExponent)) :
    checkXs [a, b] = checkXs [b, a] := by
  simp only [MaxExponent, MinExponent] at h
  by_cases h1 : a > 100000 <;> by_cases h2 : a < -100000 <;> by_cases h3 : b > 100000 <;>
    by_cases h4 : b < -100000 <;> simp [checkXs, MaxExponent, MinExponent, h1,h2,h3,h4] <;> omega

theorem setExponent2_comm (c : Ctx) (d : Dec) (res : Cond) (a b : Int)
    (h : checkXs [a, b] = checkXs [b, a]) :
    setExponent c d res [a, b] = setExponent c d res [b, a] := by
  unfold setExponent
  rw [h]
  have : sumInts [a, b] = sumInts [b, a] := by simp only [sumInts]; omega
  rw [this]

/-- the destination of a system-limit exit of `setExponent` is the input -/
theorem setExponent2_fst (c : Ctx) (d : Dec) (res : Cond) (a b : Int) :
    (setExponent c d res [a, b]).1 = (setExponent c d res [b, a]).1 := by
  by_cases h : checkXs [a, b] = checkXs [b, a]
  · rw [setExponent2_comm c d res a b h]
  · have h1 : checkXs [a, b] ≠ none := fun hn => h (by rw [hn, checkXs2_none a b hn])
    have h2 : checkXs [b, a] ≠ none := fun hn => h (by rw [hn, checkXs2_none b a hn])
    unfold setExponent
    cases h3 : checkXs [a, b] with
    | none => exact absurd h3 h1
    | some f =>
      cases h4 : checkXs [b, a] with
      | none => exact absurd h4 h2
      | some g => rfl

theorem setExponent2_swap (c : Ctx) (d : Dec) (res : Cond) (a b : Int) :
    setExponent c d res [a, b] = setExponent c d res [b, a] ∨
    ((setExponent c d res [a, b]).1 = d ∧ (setExponent c d res [b, a]).1 = d ∧
     ((setExponent c d res [a, b]).2.sysOverflow || (setExponent c d res [a, b]).2.sysUnderflow) = true ∧
     ((setExponent c d res [b, a]).2.sysOverflow || (setExponent c d res [b, a]).2.sysUnderflow) = true) := by
  by_cases h : ¬ (a > MaxExponent ∧ b < MinExponent) ∧ ¬ (b > MaxExponent ∧ a < MinExponent)
  · left; exact setExponent2_comm c d res a b (checkXs2_comm a b h)
  · right
    simp only [MaxExponent, MinExponent] at h
    have h' : (a > 100000 ∧ b < -100000) ∨ (b > 100000 ∧ a < -100000) := by omega
    rcases h' with ⟨h1, h2⟩ | ⟨h1, h2⟩
    · have h3 : ¬ b > 100000 := by omega
      simp [setExponent, checkXs, MaxExponent, MinExponent, h1, h2, h3, HOr.hOr, OrOp.or, Cond.or,
        Cond.cSysOverflow, Cond.cSysUnderflow]
    · have h3 : ¬ a > 100000 := by omega
      simp [setExponent, checkXs, MaxExponent, MinExponent, h1, h2, h3, HOr.hOr, OrOp.or, Cond.or,
        Cond.cSysOverflow, Cond.cSysUnderflow]

theorem goError_sys (t f g : Cond) (h : (f.sysOverflow || f.sysUnderflow) = true) :
    goError t (f ||| g) = .sys := by
  unfold goError
  have : ((f ||| g).sysOverflow || (f ||| g).sysUnderflow) = true := by
    show ((Cond.or f g).sysOverflow || (Cond.or f g).sysUnderflow) = true
    simp only [Cond.or]
    revert h
    cases f.sysOverflow <;> cases f.sysUnderflow <;> simp
  rw [if_pos this]

end Apd.C20L
