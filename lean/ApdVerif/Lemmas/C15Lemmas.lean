import ApdVerif.Spec.Order
import ApdVerif.Lemmas.Digits
/-!
# Helper lemmas for C15 (Cmp / CmpTotal)
-/
namespace Apd.C15L
theorem cmpNat_range (a b : Nat) : cmpNat a b = -1 ∨ cmpNat a b = 0 ∨ cmpNat a b = 1 := by
  unfold cmpNat; split
  · simp
  · split <;> simp

theorem cmpInt_range (a b : Int) : cmpInt a b = -1 ∨ cmpInt a b = 0 ∨ cmpInt a b = 1 := by
  unfold cmpInt; split
  · simp
  · split <;> simp

theorem cmpInt_lt {a b : Int} (h : a < b) : cmpInt a b = -1 := by
  unfold cmpInt; simp [h]

theorem cmpInt_gt {a b : Int} (h : b < a) : cmpInt a b = 1 := by
  unfold cmpInt
  have : ¬ a < b := by omega
  simp [this, h]

theorem cmpInt_eq {a b : Int} (h : a = b) : cmpInt a b = 0 := by
  unfold cmpInt; subst h; simp

theorem cmpInt_eq_neg_one_iff (a b : Int) : cmpInt a b = -1 ↔ a < b := by
  unfold cmpInt; split
  · simp [*]
  · split <;> simp [*]

theorem cmpInt_eq_zero_iff (a b : Int) : cmpInt a b = 0 ↔ a = b := by
  unfold cmpInt; split
  · simp; omega
  · split
    · simp; omega
    · simp; omega

theorem cmpInt_eq_one_iff (a b : Int) : cmpInt a b = 1 ↔ b < a := by
  unfold cmpInt; split
  · simp; omega
  · split
    · simp [*]
    · simp; omega

theorem cmpInt_le_zero_iff (a b : Int) : cmpInt a b ≤ 0 ↔ a ≤ b := by
  unfold cmpInt; split
  · simp; omega
  · split
    · simp; omega
    · simp; omega

theorem cmpInt_antisymm (a b : Int) : cmpInt b a = - cmpInt a b := by
  rcases Int.lt_trichotomy a b with h | h | h
  · rw [cmpInt_lt h, cmpInt_gt h]; rfl
  · rw [cmpInt_eq h, cmpInt_eq h.symm]; rfl
  · rw [cmpInt_gt h, cmpInt_lt h]

theorem cmpNat_eq_cmpInt (a b : Nat) : cmpNat a b = cmpInt (a : Int) (b : Int) := by
  unfold cmpNat cmpInt
  simp only [Int.ofNat_lt, gt_iff_lt]

theorem cmpInt_neg (a b : Int) : cmpInt (-a) (-b) = - cmpInt a b := by
  rcases Int.lt_trichotomy a b with h | h | h
  · rw [cmpInt_lt h, cmpInt_gt (by omega)]; rfl
  · rw [cmpInt_eq h, cmpInt_eq (by omega)]; rfl
  · rw [cmpInt_gt h, cmpInt_lt (by omega)]

/-- scaling both sides by a positive factor does not change the comparison -/
theorem cmpInt_mul_pos (a b p : Int) (hp : 0 < p) : cmpInt (a * p) (b * p) = cmpInt a b := by
  rcases Int.lt_trichotomy a b with h | h | h
  · rw [cmpInt_lt h, cmpInt_lt (Int.mul_lt_mul_of_pos_right h hp)]
  · rw [cmpInt_eq h, cmpInt_eq (by rw [h])]
  · rw [cmpInt_gt h, cmpInt_gt (Int.mul_lt_mul_of_pos_right h hp)]

/-! ## the digit-count shortcut -/

theorem mag_lt (dc xc : Nat) (de xe : Int) (hd : 0 < dc) (hx : 0 < xc)
    (h : (ndigits dc : Int) + de < (ndigits xc : Int) + xe) (e : Int) (he1 : e ≤ de) (he2 : e ≤ xe) :
    dc * 10 ^ (de - e).toNat < xc * 10 ^ (xe - e).toNat := by
  obtain ⟨_, a2⟩ := ndigits_spec dc hd
  obtain ⟨b1, _⟩ := ndigits_spec xc hx
  have hp := ndigits_pos xc
  calc dc * 10 ^ (de - e).toNat
      < 10 ^ ndigits dc * 10 ^ (de - e).toNat :=
        Nat.mul_lt_mul_of_pos_right a2 (Nat.pow_pos (by decide))
    _ = 10 ^ (ndigits dc + (de - e).toNat) := (Nat.pow_add ..).symm
    _ ≤ 10 ^ (ndigits xc - 1 + (xe - e).toNat) := Nat.pow_le_pow_right (by decide) (by omega)
    _ = 10 ^ (ndigits xc - 1) * 10 ^ (xe - e).toNat := Nat.pow_add ..
    _ ≤ xc * 10 ^ (xe - e).toNat := Nat.mul_le_mul_right _ b1

/-- the magnitude comparison performed by `Decimal.Cmp` on two non-zero finite operands of equal sign
(result for positive operands) -/
def magCmp (dc xc : Nat) (de xe : Int) : Int :=
  if de == xe then cmpNat dc xc
  else
    let dn : Int := (ndigits dc : Int) + de
    let xn : Int := (ndigits xc : Int) + xe
    if dn < xn then -1 else if dn > xn then 1 else
    if de < xe then cmpNat dc (xc * 10 ^ (xe - de).toNat)
    else cmpNat (dc * 10 ^ (de - xe).toNat) xc

theorem magCmp_spec (dc xc : Nat) (de xe : Int) (hd : 0 < dc) (hx : 0 < xc) :
    magCmp dc xc de xe =
      cmpNat (dc * 10 ^ (de - min de xe).toNat) (xc * 10 ^ (xe - min de xe).toNat) := by
  unfold magCmp
  by_cases he : de = xe
  · subst he; simp
  · simp only [beq_iff_eq, he, if_false]
    by_cases h1 : (ndigits dc : Int) + de < (ndigits xc : Int) + xe
    · simp only [h1, if_true]
      have := mag_lt dc xc de xe hd hx h1 (min de xe) (Int.min_le_left ..) (Int.min_le_right ..)
      rw [cmpNat_eq_cmpInt, cmpInt_lt (by exact_mod_cast this)]
    · simp only [h1, if_false]
      by_cases h2 : (ndigits dc : Int) + de > (ndigits xc : Int) + xe
      · simp only [h2, if_true]
        have := mag_lt xc dc xe de hx hd h2 (min de xe) (Int.min_le_right ..) (Int.min_le_left ..)
        rw [cmpNat_eq_cmpInt, cmpInt_gt (by exact_mod_cast this)]
      · simp only [h2, if_false]
        by_cases h3 : de < xe
        · simp only [h3, if_true]
          have hm : min de xe = de := by omega
          rw [hm]; simp
        · simp only [h3, if_false]
          have hm : min de xe = xe := by omega
          rw [hm]; simp

/-! ## signs -/

theorem sign_finite (d : Dec) (h : d.form = .finite) :
    d.sign = if d.coeff = 0 then 0 else if d.neg then -1 else 1 := by
  unfold Dec.sign; simp [h]

theorem sign_infinite (d : Dec) (h : d.form = .infinite) :
    d.sign = if d.neg then -1 else 1 := by
  unfold Dec.sign; simp [h]

theorem signedScaled_cases (d : Dec) (e : Int) (h : d.form = .finite) :
    (d.sign = -1 ∧ signedScaled d e < 0 ∧ d.neg = true ∧ 0 < d.coeff) ∨
    (d.sign = 0 ∧ signedScaled d e = 0 ∧ d.coeff = 0) ∨
    (d.sign = 1 ∧ 0 < signedScaled d e ∧ d.neg = false ∧ 0 < d.coeff) := by
  rw [sign_finite d h]
  unfold signedScaled
  by_cases hc : d.coeff = 0
  · right; left; simp [hc]
  · have hc' : 0 < d.coeff := Nat.pos_of_ne_zero hc
    have hp : 0 < d.coeff * 10 ^ (d.exp - e).toNat := Nat.mul_pos hc' (Nat.pow_pos (by decide))
    generalize d.coeff * 10 ^ (d.exp - e).toNat = q at hp ⊢
    cases hn : d.neg
    · right; right; simp [hc, hc']; omega
    · left; simp [hc, hc']; omega

theorem cmp_of_sign_lt (d x : Dec) (h : d.sign < x.sign) : d.cmp x = -1 := by
  unfold Dec.cmp; simp [h]

theorem cmp_of_sign_gt (d x : Dec) (h : d.sign > x.sign) : d.cmp x = 1 := by
  unfold Dec.cmp
  have : ¬ d.sign < x.sign := by omega
  simp [this, h]

theorem cmp_of_sign_zero (d x : Dec) (h1 : d.sign = 0) (h2 : x.sign = 0) : d.cmp x = 0 := by
  unfold Dec.cmp; simp [h1, h2]

/-- the two interesting cases: finite non-zero operands of equal sign -/
theorem cmp_pos (d x : Dec) (hd : d.form = .finite) (hx : x.form = .finite)
    (hdn : d.neg = false) (hxn : x.neg = false) (hdc : 0 < d.coeff) (hxc : 0 < x.coeff) :
    d.cmp x = magCmp d.coeff x.coeff d.exp x.exp := by
  have h1 : d.sign = 1 := by rw [sign_finite d hd]; simp [hdn]; omega
  have h2 : x.sign = 1 := by rw [sign_finite x hx]; simp [hxn]; omega
  unfold Dec.cmp magCmp
  simp [h1, h2, hd, hx]

theorem cmp_neg (d x : Dec) (hd : d.form = .finite) (hx : x.form = .finite)
    (hdn : d.neg = true) (hxn : x.neg = true) (hdc : 0 < d.coeff) (hxc : 0 < x.coeff) :
    d.cmp x = - magCmp d.coeff x.coeff d.exp x.exp := by
  have h1 : d.sign = -1 := by rw [sign_finite d hd]; simp [hdn]; omega
  have h2 : x.sign = -1 := by rw [sign_finite x hx]; simp [hxn]; omega
  unfold Dec.cmp magCmp
  simp [h1, h2, hd, hx]
  split
  · rfl
  · split
    · rfl
    · split
      · rfl
      · rfl

/-! ## Cmp on finite operands -/

theorem specCmp_finite (d x : Dec) (hd : d.form = .finite) (hx : x.form = .finite) :
    specCmp d x = cmpInt (signedScaled d (min d.exp x.exp)) (signedScaled x (min d.exp x.exp)) := by
  unfold specCmp; rw [hd, hx]

theorem cmp_finite (d x : Dec) (hd : d.form = .finite) (hx : x.form = .finite) :
    d.cmp x = cmpInt (signedScaled d (min d.exp x.exp)) (signedScaled x (min d.exp x.exp)) := by
  rcases signedScaled_cases d (min d.exp x.exp) hd with ⟨s1, v1, n1, c1⟩ | ⟨s1, v1, c1⟩ | ⟨s1, v1, n1, c1⟩ <;>
  rcases signedScaled_cases x (min d.exp x.exp) hx with ⟨s2, v2, n2, c2⟩ | ⟨s2, v2, c2⟩ | ⟨s2, v2, n2, c2⟩
  · rw [cmp_neg d x hd hx n1 n2 c1 c2, magCmp_spec _ _ _ _ c1 c2, cmpNat_eq_cmpInt]
    unfold signedScaled; simp only [n1, n2, if_true]
    rw [← cmpInt_neg]; simp
  · rw [cmp_of_sign_lt d x (by omega), cmpInt_lt (by omega)]
  · rw [cmp_of_sign_lt d x (by omega), cmpInt_lt (by omega)]
  · rw [cmp_of_sign_gt d x (by omega), cmpInt_gt (by omega)]
  · rw [cmp_of_sign_zero d x s1 s2, cmpInt_eq (by omega)]
  · rw [cmp_of_sign_lt d x (by omega), cmpInt_lt (by omega)]
  · rw [cmp_of_sign_gt d x (by omega), cmpInt_gt (by omega)]
  · rw [cmp_of_sign_gt d x (by omega), cmpInt_gt (by omega)]
  · rw [cmp_pos d x hd hx n1 n2 c1 c2, magCmp_spec _ _ _ _ c1 c2, cmpNat_eq_cmpInt]
    unfold signedScaled; simp [n1, n2]

/-- rescaling to a smaller common exponent multiplies by a positive power of ten -/
theorem signedScaled_scale (d : Dec) (e e' : Int) (h1 : e' ≤ e) (h2 : e ≤ d.exp) :
    signedScaled d e' = signedScaled d e * ((10 ^ (e - e').toNat : Nat) : Int) := by
  unfold signedScaled
  have : (d.exp - e').toNat = (d.exp - e).toNat + (e - e').toNat := by omega
  rw [this, Nat.pow_add, ← Nat.mul_assoc, Int.natCast_mul (d.coeff * 10 ^ (d.exp - e).toNat), Int.mul_assoc]

theorem specCmp_finite_at (d x : Dec) (hd : d.form = .finite) (hx : x.form = .finite) (e : Int)
    (h1 : e ≤ d.exp) (h2 : e ≤ x.exp) :
    specCmp d x = cmpInt (signedScaled d e) (signedScaled x e) := by
  rw [specCmp_finite d x hd hx,
    signedScaled_scale d (min d.exp x.exp) e (by omega) (by omega),
    signedScaled_scale x (min d.exp x.exp) e (by omega) (by omega), cmpInt_mul_pos]
  have : 0 < 10 ^ (min d.exp x.exp - e).toNat := Nat.pow_pos (by decide)
  exact_mod_cast this

/-! ## CmpTotal -/

theorem cmpOrder_eq_iff (d x : Dec) : d.cmpOrder = x.cmpOrder ↔ d.form = x.form ∧ d.neg = x.neg := by
  obtain ⟨df, dn, de, dc⟩ := d
  obtain ⟨xf, xn, xe, xc⟩ := x
  cases df <;> cases dn <;> cases xf <;> cases xn <;> simp [Dec.cmpOrder]

theorem cmpTotal_of_lt (d x : Dec) (h : d.cmpOrder < x.cmpOrder) : d.cmpTotal x = -1 := by
  unfold Dec.cmpTotal; simp [h]

theorem cmpTotal_of_gt (d x : Dec) (h : x.cmpOrder < d.cmpOrder) : d.cmpTotal x = 1 := by
  unfold Dec.cmpTotal
  have : ¬ d.cmpOrder < x.cmpOrder := by omega
  simp [this, h]

/-- explicit description of `CmpTotal` on two finite operands of the same sign bit, at any common
scale `e` -/
theorem cmpTotal_finite (d x : Dec) (hd : d.form = .finite) (hx : x.form = .finite)
    (hn : d.neg = x.neg) (e : Int) (h1 : e ≤ d.exp) (h2 : e ≤ x.exp) :
    d.cmpTotal x =
      if signedScaled d e < signedScaled x e then -1
      else if signedScaled x e < signedScaled d e then 1
      else if d.exp < x.exp then (if d.neg then 1 else -1)
      else if x.exp < d.exp then (if d.neg then -1 else 1)
      else 0 := by
  have ho : d.cmpOrder = x.cmpOrder := (cmpOrder_eq_iff d x).2 ⟨by rw [hd, hx], hn⟩
  have hc : d.cmp x = cmpInt (signedScaled d e) (signedScaled x e) := by
    rw [cmp_finite d x hd hx, ← specCmp_finite d x hd hx, specCmp_finite_at d x hd hx e h1 h2]
  unfold Dec.cmpTotal
  simp only [ho, Int.lt_irrefl, if_false, hd, hc]
  rcases Int.lt_trichotomy (signedScaled d e) (signedScaled x e) with h | h | h
  · have h' : ¬ signedScaled x e < signedScaled d e := by omega
    simp [cmpInt_lt h, h]
  · rw [cmpInt_eq h]; simp [h]
  · have h' : ¬ signedScaled d e < signedScaled x e := by omega
    simp [cmpInt_gt h, h, h']

theorem cmpTotal_infinite (d x : Dec) (hd : d.form = .infinite) (hx : x.form = .infinite)
    (hn : d.neg = x.neg) : d.cmpTotal x = 0 := by
  have ho : d.cmpOrder = x.cmpOrder := (cmpOrder_eq_iff d x).2 ⟨by rw [hd, hx], hn⟩
  unfold Dec.cmpTotal
  simp [ho, hd]

theorem cmpTotal_nan (d x : Dec) (hd : d.form ≠ .finite) (hd' : d.form ≠ .infinite)
    (hf : d.form = x.form) (hn : d.neg = x.neg) : d.cmpTotal x = cmpNat d.coeff x.coeff := by
  have ho : d.cmpOrder = x.cmpOrder := (cmpOrder_eq_iff d x).2 ⟨hf, hn⟩
  unfold Dec.cmpTotal
  simp only [ho, Int.lt_irrefl, if_false]

theorem cmpNat_antisymm (a b : Nat) : cmpNat b a = - cmpNat a b := by
  rw [cmpNat_eq_cmpInt, cmpNat_eq_cmpInt, cmpInt_antisymm]

theorem cmpNat_eq_zero_iff (a b : Nat) : cmpNat a b = 0 ↔ a = b := by
  rw [cmpNat_eq_cmpInt, cmpInt_eq_zero_iff]; omega

theorem cmpNat_le_zero_iff (a b : Nat) : cmpNat a b ≤ 0 ↔ a ≤ b := by
  rw [cmpNat_eq_cmpInt, cmpInt_le_zero_iff]; omega

theorem signedScaled_inj (d x : Dec) (e : Int) (hn : d.neg = x.neg) (he : d.exp = x.exp)
    (h : signedScaled d e = signedScaled x e) : d.coeff = x.coeff := by
  unfold signedScaled at h
  rw [hn, he] at h
  have hp : 0 < 10 ^ (x.exp - e).toNat := Nat.pow_pos (by decide)
  generalize 10 ^ (x.exp - e).toNat = p at h hp
  have h'' : d.coeff * p = x.coeff * p := by
    generalize d.coeff * p = a at h ⊢
    generalize x.coeff * p = b at h ⊢
    cases hb : x.neg <;> simp [hb] at h <;> omega
  exact Nat.eq_of_mul_eq_mul_right hp h''

theorem signedScaled_congr (d x : Dec) (e : Int) (hn : d.neg = x.neg) (he : d.exp = x.exp)
    (hc : d.coeff = x.coeff) : signedScaled d e = signedScaled x e := by
  unfold signedScaled; rw [hn, he, hc]

theorem cmpTotal_finite_le (d x : Dec) (hd : d.form = .finite) (hx : x.form = .finite)
    (hn : d.neg = x.neg) (e : Int) (h1 : e ≤ d.exp) (h2 : e ≤ x.exp) :
    d.cmpTotal x ≤ 0 ↔
      (signedScaled d e < signedScaled x e ∨
        (signedScaled d e = signedScaled x e ∧ (if d.neg then x.exp ≤ d.exp else d.exp ≤ x.exp))) := by
  rw [cmpTotal_finite d x hd hx hn e h1 h2]
  generalize signedScaled d e = A
  generalize signedScaled x e = B
  cases d.neg <;> simp only [if_true, if_false, Bool.false_eq_true] <;> (repeat' split) <;> omega

theorem signedScaled_nonpos (d : Dec) (e : Int) (h : d.neg = true) : signedScaled d e ≤ 0 := by
  unfold signedScaled; rw [h]
  generalize d.coeff * 10 ^ (d.exp - e).toNat = q
  simp only [if_true]; omega

theorem signedScaled_nonneg (d : Dec) (e : Int) (h : d.neg = false) : 0 ≤ signedScaled d e := by
  unfold signedScaled; rw [h]
  generalize d.coeff * 10 ^ (d.exp - e).toNat = q
  simp only [Bool.false_eq_true, if_false]; omega

end Apd.C15L
