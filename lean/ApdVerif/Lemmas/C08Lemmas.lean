import ApdVerif.Model.Dispatch
import ApdVerif.Spec.Specials
import ApdVerif.Spec.Defs
import ApdVerif.Lemmas.RoundCoreLemmas
import ApdVerif.Lemmas.C15Lemmas
/-!
# Lemmas for `Props/C08.lean` (special values)
-/
set_option linter.unusedSimpArgs false
namespace Apd.C08L
open Apd Apd.Spec Cond

/-- none of the conditions the special-value table forbids -/
def Clean (fl : Cond) : Prop :=
  fl.invalidOp = false ∧ fl.divByZero = false ∧ fl.divUndefined = false ∧ fl.divImpossible = false ∧
  fl.inexact = false ∧ fl.overflow = false ∧ fl.underflow = false

theorem clean_empty : Clean {} := by simp [Clean]
theorem clean_subnormal : Clean cSubnormal := by simp [Clean, cSubnormal]

theorem clean_or {a b : Cond} (ha : Clean a) (hb : Clean b) : Clean (a ||| b) := by
  obtain ⟨a1, a2, a3, a4, a5, a6, a7⟩ := ha
  obtain ⟨b1, b2, b3, b4, b5, b6, b7⟩ := hb
  simp [Clean, *]

theorem noSys_or {a b : Cond} (h : NoSys (a ||| b)) : NoSys a ∧ NoSys b := by
  simp only [NoSys, Cond.or_sysOverflow, Cond.or_sysUnderflow, Bool.or_eq_false_iff] at h
  exact ⟨⟨h.1.1, h.2.1⟩, ⟨h.1.2, h.2.2⟩⟩

/-- `setExponent` on a zero coefficient (finite zero, or an infinity whose exponent does not exceed `emax`):
form, sign and the zero coefficient are kept and no forbidden condition is raised -/
theorem setExponent_coeff0 (c : Ctx) (d : Dec) (res : Cond) (xs : List Int)
    (h0 : d.coeff = 0) (hb : Clean res) (hns : NoSys (setExponent c d res xs).2)
    (hov : d.form = .finite ∨ sumInts xs ≤ c.emax) :
    (setExponent c d res xs).1.form = d.form ∧ (setExponent c d res xs).1.coeff = 0 ∧
    (setExponent c d res xs).1.neg = d.neg ∧ Clean (setExponent c d res xs).2 := by
  obtain ⟨b1, b2, b3, b4, b5, b6, b7⟩ := hb
  obtain ⟨f, n, e, co⟩ := d
  simp only at h0 hov
  subst h0
  unfold setExponent at hns ⊢
  cases hx : checkXs xs with
  | some fl =>
    rw [hx] at hns
    rcases checkXs_some_sys hx with t | t <;> simp [NoSys, t] at hns
  | none =>
    rw [hx] at hns
    simp only [ndigits_zero] at hns ⊢
    simp only [Nat.zero_mod, Nat.zero_div, bne_self_eq_false, Bool.false_and, Bool.false_eq_true, if_false,
      beq_self_eq_true, if_true, Nat.cast_one] at hns ⊢
    have hz : f = .finite ∨ ¬ (sumInts xs + 1 - 1 > c.emax) := by
      rcases hov with h | h
      · left; exact h
      · right; omega
    split_ifs at hns ⊢ <;>
      simp [seFinish, Clean, NoSys, cSysOverflow, cSysUnderflow, cSubnormal, cClamped, cRounded, *] at hns ⊢
    rename_i h1 h2
    exfalso
    rcases hz with h | h
    · simp [Dec.isZero, h] at h2
    · exact h h1

/-- `Context.round` on a finite zero: a finite zero of the same sign, no forbidden condition -/
theorem ctxRound_coeff0 (c : Ctx) (d : Dec) (hf : d.form = .finite) (h0 : d.coeff = 0)
    (hns : NoSys (ctxRound c d).2) :
    (ctxRound c d).1.form = d.form ∧ (ctxRound c d).1.coeff = 0 ∧
    (ctxRound c d).1.neg = d.neg ∧ Clean (ctxRound c d).2 := by
  rw [ctxRound_finite c d hf] at hns ⊢
  have hov : d.form = .finite ∨ d.exp ≤ c.emax := Or.inl hf
  unfold ctxRoundFin roundXFin at hns ⊢
  simp only [h0, ndigits_zero, Bool.true_and] at hns ⊢
  by_cases hp : c.prec = 0
  · simp only [hp, beq_self_eq_true, if_true] at hns ⊢
    exact setExponent_coeff0 c d {} [d.exp] h0 clean_empty hns (by simpa [sumInts] using hov)
  · have hp' : (c.prec == 0) = false := by simpa using hp
    simp only [hp', Bool.false_eq_true, if_false] at hns ⊢
    have hd : ¬ ((1 : Nat) : Int) - (c.prec : Int) > 0 := by omega
    by_cases h1 : (d.sign != 0 && decide (d.exp + ((1 : Nat) : Int) - 1 < c.emin)) = true
    · simp only [h1, if_true] at hns ⊢
      have hn2 := (noSys_or hns).2
      obtain ⟨a1, a2, a3, a4⟩ := setExponent_coeff0 c d cSubnormal [d.exp] h0 clean_subnormal hn2
        (by simpa [sumInts] using hov)
      exact ⟨a1, a2, a3, clean_or clean_subnormal a4⟩
    · simp only [h1, hd, if_false] at hns ⊢
      exact setExponent_coeff0 c d {} [d.exp, 0] h0 clean_empty hns (by simpa [sumInts] using hov)

/-- `Context.round` copies an infinity -/
theorem ctxRound_inf (c : Ctx) (n : Bool) (e : Int) (co : Nat) :
    ctxRound c { form := .infinite, neg := n, exp := e, coeff := co } =
      ({ form := .infinite, neg := n, exp := e, coeff := co }, {}) :=
  ctxRound_nonfinite c _ (by simp)

/-! ## meeting the expectation -/

theorem meets_inf (n : Bool) (d : Dec) (fl : Cond) (hf : d.form = .infinite) (hn : d.neg = n) (hc : Clean fl) :
    (inf n).meets d fl = true := by
  obtain ⟨c1, c2, c3, c4, c5, c6, c7⟩ := hc
  simp [Expect.meets, inf, *]

theorem meets_zero (n : Bool) (d : Dec) (fl : Cond) (hf : d.form = .finite) (hn : d.neg = n) (h0 : d.coeff = 0)
    (hc : Clean fl) : (Spec.zero (some n)).meets d fl = true := by
  obtain ⟨c1, c2, c3, c4, c5, c6, c7⟩ := hc
  simp [Expect.meets, Spec.zero, *]

theorem form_beq (a b : Form) : (a == b) = decide (a = b) := by cases a <;> cases b <;> rfl

/-- finishing tactic: split the table's `if`s in `h`, identify `e`, evaluate the model -/
macro "c08_fin" h:ident : tactic => `(tactic| (
  (repeat' split at $h:ident) <;> (try simp at $h:ident) <;>
  (first | subst $h:ident | (obtain ⟨_, hq⟩ := $h:ident; subst hq) | (obtain ⟨_, _, hq⟩ := $h:ident; subst hq) | skip) <;>
  simp_all [Expect.meets, shouldSetAsNaN, setAsNaN, Dec.isNaN, Dec.isZero, Dec.sign, invalidNaN, decNaN, decInf,
    decZero, decOne, cInvalidOp, cDivUndefined, cDivByZero, cClamped, failWith, finish, form_beq]))

/-! ## one lemma per operation -/

theorem C08_addsub (c : Ctx) (x y : Dec) (e : Expect) (sub : Bool)
    (h : specials (if sub then "sub" else "add") x y = some e)  :
    e.meets (addOp c x y sub).d (addOp c x y sub).fl = true := by
  obtain ⟨xf, xn, xe, xc⟩ := x
  obtain ⟨yf, yn, ye, yc⟩ := y
  cases sub <;> cases xf <;> cases yf <;>
    simp [specials, nanRule, nanOf, isInf, Spec.invalid, inf] at h <;>
    unfold addOp <;> c08_fin h

theorem C08_mul (c : Ctx) (x y : Dec) (e : Expect) (h : specials "mul" x y = some e) :
    e.meets (mulOp c x y).d (mulOp c x y).fl = true := by
  obtain ⟨xf, xn, xe, xc⟩ := x
  obtain ⟨yf, yn, ye, yc⟩ := y
  cases xf <;> cases yf <;>
    simp [specials, nanRule, nanOf, isInf, Spec.isZero, Spec.invalid, inf] at h <;>
    unfold mulOp <;> c08_fin h

theorem C08_quo (c : Ctx) (x y : Dec) (e : Expect) (h : specials "quo" x y = some e) :
    e.meets (quoOp c x y).d (quoOp c x y).fl = true := by
  obtain ⟨xf, xn, xe, xc⟩ := x
  obtain ⟨yf, yn, ye, yc⟩ := y
  cases xf <;> cases yf <;>
    simp [specials, nanRule, nanOf, isInf, Spec.isZero, Spec.invalid, inf, Spec.zero] at h <;>
    unfold quoOp quoSpecials <;> c08_fin h

theorem C08_quoint (c : Ctx) (x y : Dec) (e : Expect) (h : specials "quoint" x y = some e) :
    e.meets (quoIntegerOp c x y).d (quoIntegerOp c x y).fl = true := by
  obtain ⟨xf, xn, xe, xc⟩ := x
  obtain ⟨yf, yn, ye, yc⟩ := y
  cases xf <;> cases yf <;>
    simp [specials, nanRule, nanOf, isInf, Spec.isZero, Spec.invalid, inf, Spec.zero] at h <;>
    unfold quoIntegerOp quoSpecials <;> c08_fin h

theorem C08_rem (c : Ctx) (x y : Dec) (e : Expect) (h : specials "rem" x y = some e) :
    e.meets (remOp c x y).d (remOp c x y).fl = true := by
  obtain ⟨xf, xn, xe, xc⟩ := x
  obtain ⟨yf, yn, ye, yc⟩ := y
  cases xf <;> cases yf <;>
    simp [specials, nanRule, nanOf, isInf, Spec.isZero, Spec.invalid, inf, Spec.zero] at h <;>
    unfold remOp <;> c08_fin h

theorem C08_cmp (c : Ctx) (x y : Dec) (e : Expect) (h : specials "cmp" x y = some e) :
    e.meets (cmpOp c x y).d (cmpOp c x y).fl = true := by
  obtain ⟨xf, xn, xe, xc⟩ := x
  obtain ⟨yf, yn, ye, yc⟩ := y
  cases xf <;> cases yf <;>
    simp [specials, nanRule, nanOf, isInf, Spec.isZero, Spec.invalid, inf, Spec.zero] at h <;>
    unfold cmpOp <;> c08_fin h

theorem C08_quantize (c : Ctx) (x y : Dec) (i : Int) (e : Expect) (h : specials "quantize" x y = some e) :
    e.meets (quantizeOp c x i).d (quantizeOp c x i).fl = true := by
  obtain ⟨xf, xn, xe, xc⟩ := x
  cases xf <;>
    simp [specials, nanRule, nanOf, isInf, Spec.isZero, Spec.invalid, inf, Spec.zero] at h <;>
    unfold quantizeOp <;> c08_fin h

theorem C08_rtie (c : Ctx) (x y : Dec) (e : Expect) (h : specials "rtie" x y = some e) :
    e.meets (roundToIntegralExactOp c x).d (roundToIntegralExactOp c x).fl = true := by
  obtain ⟨xf, xn, xe, xc⟩ := x
  cases xf <;>
    simp [specials, nanRule, nanOf, isInf, Spec.isZero, Spec.invalid, inf, Spec.zero] at h <;>
    unfold roundToIntegralExactOp toIntegralSpecials <;> c08_fin h

theorem C08_rtiv (c : Ctx) (x y : Dec) (e : Expect) (h : specials "rtiv" x y = some e) :
    e.meets (roundToIntegralValueOp c x).d (roundToIntegralValueOp c x).fl = true := by
  obtain ⟨xf, xn, xe, xc⟩ := x
  cases xf <;>
    simp [specials, nanRule, nanOf, isInf, Spec.isZero, Spec.invalid, inf, Spec.zero] at h <;>
    unfold roundToIntegralValueOp toIntegralSpecials <;> c08_fin h

theorem C08_ceil (c : Ctx) (x y : Dec) (e : Expect) (h : specials "ceil" x y = some e) :
    e.meets (ceilOp c x).d (ceilOp c x).fl = true := by
  obtain ⟨xf, xn, xe, xc⟩ := x
  cases xf <;>
    simp [specials, nanRule, nanOf, isInf, Spec.isZero, Spec.invalid, inf, Spec.zero] at h <;>
    unfold ceilOp toIntegralSpecials <;> c08_fin h

theorem C08_floor (c : Ctx) (x y : Dec) (e : Expect) (h : specials "floor" x y = some e) :
    e.meets (floorOp c x).d (floorOp c x).fl = true := by
  obtain ⟨xf, xn, xe, xc⟩ := x
  cases xf <;>
    simp [specials, nanRule, nanOf, isInf, Spec.isZero, Spec.invalid, inf, Spec.zero] at h <;>
    unfold floorOp toIntegralSpecials <;> c08_fin h

/-! ## operations that pass an infinity to `Context.round` (`Abs`, `Neg`, `Round`, `Reduce`) -/

theorem finish_noSys (c : Ctx) (r : Dec × Cond) (hd : Delivered (finish c r).err) : NoSys r.2 :=
  noSys_of_delivered c.traps r.2 hd

theorem C08_abs (c : Ctx) (x y : Dec) (e : Expect) (h : specials "abs" x y = some e) :
    e.meets (absOp c x).d (absOp c x).fl = true := by
  obtain ⟨xf, xn, xe, xc⟩ := x
  cases xf <;>
    simp [specials, nanRule, nanOf, isInf, Spec.isZero, Spec.invalid, Spec.zero] at h
  · subst h
    simp [absOp, shouldSetAsNaN, Dec.isNaN, Dec.absD, ctxRound_inf, finish, Expect.meets, inf]
  all_goals (unfold absOp; c08_fin h)

theorem C08_neg (c : Ctx) (x y : Dec) (e : Expect) (h : specials "neg" x y = some e) :
    e.meets (negOp c x).d (negOp c x).fl = true := by
  obtain ⟨xf, xn, xe, xc⟩ := x
  cases xf <;>
    simp [specials, nanRule, nanOf, isInf, Spec.isZero, Spec.invalid, Spec.zero] at h
  · subst h
    simp [negOp, shouldSetAsNaN, Dec.isNaN, Dec.negD, Dec.isZero, ctxRound_inf, finish, Expect.meets, inf]
  all_goals (unfold negOp; c08_fin h)

theorem C08_round (c : Ctx) (x y : Dec) (e : Expect) (h : specials "round" x y = some e) :
    e.meets (roundOp c x).d (roundOp c x).fl = true := by
  obtain ⟨xf, xn, xe, xc⟩ := x
  cases xf <;>
    simp [specials, nanRule, nanOf, isInf, Spec.isZero, Spec.invalid, Spec.zero] at h
  · subst h
    simp [roundOp, shouldSetAsNaN, Dec.isNaN, ctxRound_inf, finish, Expect.meets, inf]
  all_goals (unfold roundOp; c08_fin h)

theorem C08_reduce (c : Ctx) (x y : Dec) (e : Expect) (h : specials "reduce" x y = some e) :
    e.meets (reduceOp c x).d (reduceOp c x).fl = true := by
  obtain ⟨xf, xn, xe, xc⟩ := x
  cases xf <;>
    simp [specials, nanRule, nanOf, isInf, Spec.isZero, Spec.invalid, Spec.zero] at h
  · subst h
    simp [reduceOp, shouldSetAsNaN, Dec.isNaN, ctxRound_inf, reduceD, Expect.meets, inf]
  all_goals (unfold reduceOp; c08_fin h)

/-! ## comparison with one, integrality -/

theorem cmp_one (x : Dec) (hf : x.form = .finite) (hn : x.neg = false) : x.cmp decOne = cmpOne x := by
  rw [C15L.cmp_finite x decOne hf rfl]
  obtain ⟨f, n, e, co⟩ := x
  simp only at hf hn; subst hf hn
  unfold cmpOne signedScaled cmpInt decOne
  simp only [Bool.false_eq_true, if_false, Int.one_mul, Nat.one_mul]
  by_cases he : e ≥ 0
  · have h1 : min e 0 = 0 := by omega
    simp only [he, h1, if_true, Int.sub_zero, Int.toNat_zero, Nat.pow_zero, Nat.cast_one, beq_iff_eq]
    generalize co * 10 ^ e.toNat = A
    split_ifs <;> omega
  · have h1 : min e 0 = e := by omega
    have h2 : (0 - e).toNat = (-e).toNat := by congr 1; omega
    simp only [he, h1, if_false, Int.sub_self, Int.toNat_zero, Nat.pow_zero, Nat.mul_one, h2, beq_iff_eq]
    generalize 10 ^ (-e).toNat = P
    split_ifs <;> omega

theorem modf_facts (y : Dec) (hf : y.form = .finite) :
    (modf y).2.isZero = isInt y ∧
    isOddInt y = (isInt y && ((modf y).1.coeff % 2 == 1) && ((modf y).1.exp == 0)) := by
  obtain ⟨f, n, e, co⟩ := y
  simp only at hf; subst hf
  unfold modf isInt isOddInt Dec.isZero
  by_cases he : e > 0
  · have h1 : e ≥ 0 := by omega
    have h2 : ¬ e = 0 := by omega
    simp [he, h1, h2]
  · simp only [he, if_false]
    by_cases hnd : -e > (ndigits co : Int)
    · have hlt : co < 10 ^ (-e).toNat := lt_pow_of_ndigits_le co (-e).toNat (by omega)
      have h1 : ¬ e ≥ 0 := by have := ndigits_pos co; omega
      simp [hnd, h1, Nat.mod_eq_of_lt hlt, Nat.div_eq_of_lt hlt]
    · simp only [hnd, if_false]
      by_cases h0 : e = 0
      · subst h0; simp [Nat.mod_one]
      · have h1 : ¬ e ≥ 0 := by omega
        simp [h1]


/-! ## roots -/

theorem C08_sqrt (c : Ctx) (x y : Dec) (e : Expect) (h : specials "sqrt" x y = some e)
    (hd : Delivered (sqrtOp c x).err) :
    e.meets (sqrtOp c x).d (sqrtOp c x).fl = true := by
  obtain ⟨xf, xn, xe, xc⟩ := x
  cases xf
  · by_cases hx0 : xc = 0
    · subst hx0
      simp [specials, nanRule, isInf, Spec.isZero] at h
      subst h
      have hE : sqrtOp c { form := .finite, neg := xn, exp := xe, coeff := 0 } =
          finish c (ctxRound c { form := .finite, neg := xn, exp := Int.tdiv xe 2, coeff := 0 }) := by
        simp [sqrtOp, rootSpecials, shouldSetAsNaN, Dec.isNaN, Dec.sign]
      rw [hE] at hd ⊢
      obtain ⟨a1, a2, a3, a4⟩ := ctxRound_coeff0 c { form := .finite, neg := xn, exp := Int.tdiv xe 2, coeff := 0 } rfl rfl
        (finish_noSys c _ hd)
      exact meets_zero xn _ _ a1 a3 a2 a4
    · cases xn <;>
        simp [specials, nanRule, nanOf, isInf, Spec.isZero, Spec.invalid, Spec.zero, hx0] at h
      subst h
      simp [sqrtOp, rootSpecials, shouldSetAsNaN, Dec.isNaN, Dec.sign, hx0, invalidNaN, Expect.meets, decNaN, cInvalidOp]
  all_goals
    simp [specials, nanRule, nanOf, isInf, Spec.isZero, Spec.invalid, inf, Spec.zero] at h <;>
    unfold sqrtOp rootSpecials <;> c08_fin h

theorem C08_cbrt (c : Ctx) (x y : Dec) (e : Expect) (h : specials "cbrt" x y = some e) :
    ∃ o, cbrtOp c x = some o ∧ (Delivered o.err → e.meets o.d o.fl = true) := by
  obtain ⟨xf, xn, xe, xc⟩ := x
  cases xf
  · by_cases hx0 : xc = 0
    · subst hx0
      simp [specials, nanRule, isInf, Spec.isZero] at h
      subst h
      have hE : cbrtOp c { form := .finite, neg := xn, exp := xe, coeff := 0 } =
          some (finish c (ctxRound c { form := .finite, neg := xn, exp := Int.tdiv xe 3, coeff := 0 })) := by
        simp [cbrtOp, rootSpecials, shouldSetAsNaN, Dec.isNaN, Dec.sign]
      refine ⟨_, hE, fun hd => ?_⟩
      obtain ⟨a1, a2, a3, a4⟩ := ctxRound_coeff0 c { form := .finite, neg := xn, exp := Int.tdiv xe 3, coeff := 0 } rfl rfl
        (finish_noSys c _ hd)
      exact meets_zero xn _ _ a1 a3 a2 a4
    · simp [specials, nanRule, nanOf, isInf, Spec.isZero, Spec.invalid, Spec.zero, hx0] at h
  all_goals
    simp [specials, nanRule, nanOf, isInf, Spec.isZero, Spec.invalid, inf, Spec.zero] at h <;>
    unfold cbrtOp rootSpecials <;> c08_fin h

theorem C08_exp (c : Ctx) (x y : Dec) (e : Expect) (h : specials "exp" x y = some e) :
    ∃ o, expSpecials c x = some o ∧ e.meets o.d o.fl = true := by
  obtain ⟨xf, xn, xe, xc⟩ := x
  cases xf <;>
    simp [specials, nanRule, nanOf, isInf, Spec.isZero, Spec.invalid, inf, Spec.zero, Spec.one] at h <;>
    unfold expSpecials <;> c08_fin h

/-! ## logarithms and powers -/

theorem C08_log (c : Ctx) (x y : Dec) (e : Expect) (b : Bool)
    (h : specials (if b then "ln" else "log10") x y = some e) :
    ∃ o, logSpecials c x = some o ∧ e.meets o.d o.fl = true := by
  obtain ⟨xf, xn, xe, xc⟩ := x
  cases xf
  · by_cases hx0 : xc = 0
    · subst hx0
      cases b <;> cases xn <;>
      simp [specials, nanRule, isInf, Spec.isZero] at h <;>
      subst h <;>
      simp [logSpecials, shouldSetAsNaN, Dec.isNaN, Dec.sign, Dec.cmp, decZero, decInf, Expect.meets, inf]
    · cases xn
      · have hc := cmp_one { form := .finite, neg := false, exp := xe, coeff := xc } rfl rfl
        have hz : Dec.cmp { form := .finite, neg := false, exp := xe, coeff := xc } decZero = 1 := by
          simp [Dec.cmp, Dec.sign, decZero, hx0]
        unfold logSpecials
        rw [hc, hz]
        clear hc hz
        cases b <;>
        simp [specials, nanRule, isInf, Spec.isZero, hx0, Spec.zero] at h <;>
        generalize cmpOne { form := .finite, neg := false, exp := xe, coeff := xc } = k at h ⊢ <;>
        c08_fin h
      · cases b <;>
        simp [specials, nanRule, isInf, Spec.isZero, hx0, Spec.invalid] at h <;>
        subst h <;>
        simp [logSpecials, shouldSetAsNaN, Dec.isNaN, Dec.sign, hx0, invalidNaN, Expect.meets, decNaN, cInvalidOp]
  all_goals
    cases b <;> cases xn <;>
    simp [specials, nanRule, nanOf, isInf, Spec.isZero, Spec.invalid, inf, Spec.zero] at h <;>
    unfold logSpecials <;> c08_fin h

theorem C08_pow (c : Ctx) (x y : Dec) (e : Expect)
    (h : specials "pow" x y = some e) :
    ∃ o, powSpecials c x y = some o ∧ e.meets o.d o.fl = true := by
  have hM := modf_facts y
  have hC := cmp_one x
  obtain ⟨xf, xn, xe, xc⟩ := x
  obtain ⟨yf, yn, ye, yc⟩ := y
  cases yf
  · -- y finite
    obtain ⟨hI, hO⟩ := hM rfl
    cases xf <;>
    simp [specials, nanRule, nanOf, isInf, Spec.isZero, Spec.invalid, inf, Spec.zero, Spec.one, hO] at h <;>
    unfold powSpecials <;>
    simp only [hI] <;>
    generalize isInt { form := .finite, neg := yn, exp := ye, coeff := yc } = I at h ⊢ <;>
    generalize ((modf { form := .finite, neg := yn, exp := ye, coeff := yc }).1.coeff % 2 == 1) = A at h ⊢ <;>
    generalize ((modf { form := .finite, neg := yn, exp := ye, coeff := yc }).1.exp == 0) = B at h ⊢ <;>
    cases xn <;> cases yn <;> by_cases hx0 : xc = 0 <;> by_cases hy0 : yc = 0 <;>
    (try simp [hx0, hy0] at h) <;>
    c08_fin h
  · -- y infinite
    cases xf
    · cases xn
      · have hc := hC rfl rfl
        unfold powSpecials
        rw [hc]
        clear hc hC hM
        simp [specials, nanRule, nanOf, isInf, Spec.isZero, Spec.invalid, inf, Spec.zero, Spec.one, isOddInt, isInt] at h
        generalize cmpOne { form := .finite, neg := false, exp := xe, coeff := xc } = k at h ⊢
        have hk : (k < 0 ∧ ¬ 0 < k ∧ ¬ k = 0) ∨ k = 0 ∨ (0 < k ∧ ¬ k = 0) := by omega
        rcases hk with ⟨hk1, hk2, hk3⟩ | hk | ⟨hk1, hk2⟩ <;>
        cases yn <;> by_cases hx0 : xc = 0 <;> (try simp [hx0] at h) <;> c08_fin h <;>
        first | omega | (rw [if_neg (by omega)]; simp)
      · clear hC hM
        simp [specials, nanRule, nanOf, isInf, Spec.isZero, Spec.invalid, inf, Spec.zero, Spec.one, isOddInt, isInt] at h
        unfold powSpecials
        cases yn <;> by_cases hx0 : xc = 0 <;> (try simp [hx0] at h) <;> c08_fin h
    all_goals
      clear hC hM
      simp [specials, nanRule, nanOf, isInf, Spec.isZero, Spec.invalid, inf, Spec.zero, Spec.one, isOddInt, isInt] at h
      unfold powSpecials
      cases xn <;> cases yn <;> c08_fin h
  all_goals
    clear hC hM
    cases xf <;>
    simp [specials, nanRule, nanOf, isInf, Spec.isZero, Spec.invalid, inf, Spec.zero, Spec.one, isOddInt, isInt] at h <;>
    unfold powSpecials <;> c08_fin h


/-- `Context.Pow` decides every case of its special-value prologue as the prologue does -/
theorem powIntOp_of_specials {c : Ctx} {x y : Dec} {o : Out} (h : powSpecials c x y = some o) :
    powIntOp c x y = some o := by
  simp [powIntOp, h]

end Apd.C08L
