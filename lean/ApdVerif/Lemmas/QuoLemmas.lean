import ApdVerif.Spec.Agrees
import ApdVerif.Lemmas.Digits
import Mathlib.Tactic.Ring
import Mathlib.Tactic.Linarith
import Mathlib.Tactic.NormNum
import Mathlib.Tactic.SplitIfs
import Mathlib.Tactic.LinearCombination
/-!
# Helper lemmas for `Context.Quo`
-/
set_option linter.unusedSimpArgs false
set_option linter.unusedVariables false
namespace Apd.QuoL
open Apd Apd.Oracle Cond

/-! ## flag projections -/
section cond
variable (a b : Cond)
@[simp] theorem or_sysOverflow : (a ||| b).sysOverflow = (a.sysOverflow || b.sysOverflow) := rfl
@[simp] theorem or_sysUnderflow : (a ||| b).sysUnderflow = (a.sysUnderflow || b.sysUnderflow) := rfl
@[simp] theorem or_overflow : (a ||| b).overflow = (a.overflow || b.overflow) := rfl
@[simp] theorem or_underflow : (a ||| b).underflow = (a.underflow || b.underflow) := rfl
@[simp] theorem or_inexact : (a ||| b).inexact = (a.inexact || b.inexact) := rfl
@[simp] theorem or_subnormal : (a ||| b).subnormal = (a.subnormal || b.subnormal) := rfl
@[simp] theorem or_rounded : (a ||| b).rounded = (a.rounded || b.rounded) := rfl
@[simp] theorem or_divUndefined : (a ||| b).divUndefined = (a.divUndefined || b.divUndefined) := rfl
@[simp] theorem or_divByZero : (a ||| b).divByZero = (a.divByZero || b.divByZero) := rfl
@[simp] theorem or_divImpossible : (a ||| b).divImpossible = (a.divImpossible || b.divImpossible) := rfl
@[simp] theorem or_invalidOp : (a ||| b).invalidOp = (a.invalidOp || b.invalidOp) := rfl
@[simp] theorem or_clamped : (a ||| b).clamped = (a.clamped || b.clamped) := rfl
end cond

/-! ## cross-multiplied division -/

/-- if `A/B = N/D` as fractions, the floor quotients agree and the remainders are proportional -/
theorem cross_div_mod (A B N D : Nat) (hB : 0 < B) (hD : 0 < D) (h : A * D = B * N) :
    A / B = N / D ∧ (A % B) * D = (N % D) * B := by
  have hN := Nat.div_add_mod N D
  have hr := Nat.mod_lt N hD
  -- A * D = B * (D * (N/D) + N % D)
  have h1 : A * D = (B * (N / D)) * D + B * (N % D) := by
    rw [h]; conv_lhs => rw [← hN]
    ring
  have hge : B * (N / D) ≤ A := by
    by_contra hlt
    have hlt : A < B * (N / D) := Nat.lt_of_not_le hlt
    have : A * D < (B * (N / D)) * D := Nat.mul_lt_mul_of_pos_right hlt hD
    omega
  obtain ⟨r', hr'⟩ := Nat.exists_eq_add_of_le hge
  have h2 : r' * D = B * (N % D) := by
    have : A * D = (B * (N / D)) * D + r' * D := by rw [hr']; ring
    omega
  have h3 : r' < B := by
    by_contra hge'
    have hge' : B ≤ r' := Nat.le_of_not_lt hge'
    have h4 : B * D ≤ r' * D := Nat.mul_le_mul_right D hge'
    have h5 : B * (N % D) < B * D := Nat.mul_lt_mul_of_pos_left hr hB
    omega
  have hq : A / B = N / D := by
    rw [hr', Nat.add_comm, Nat.add_mul_div_left _ _ hB, Nat.div_eq_of_lt h3]; simp
  have hm : A % B = r' := by
    rw [hr', Nat.add_comm, Nat.add_mul_mod_self_left, Nat.mod_eq_of_lt h3]
  refine ⟨hq, ?_⟩
  rw [hm, h2]; ring

theorem compare_cross (a b B D : Nat) (hB : 0 < B) (hD : 0 < D) (h : a * B = b * D) :
    compare a D = compare b B := by
  rcases Nat.lt_trichotomy a D with h1 | h1 | h1
  · have : b < B := by
      by_contra h2
      have h2 : B ≤ b := Nat.le_of_not_lt h2
      have h3 : a * B < D * B := Nat.mul_lt_mul_of_pos_right h1 hB
      have h4 : B * D ≤ b * D := Nat.mul_le_mul_right D h2
      have : D * B = B * D := Nat.mul_comm _ _
      omega
    rw [compare_lt_iff_lt.2 h1, compare_lt_iff_lt.2 this]
  · have : b = B := by
      subst h1
      have : b * a = B * a := by rw [← h]; ring
      exact Nat.eq_of_mul_eq_mul_right hD this
    rw [compare_eq_iff_eq.2 h1, compare_eq_iff_eq.2 this]
  · have : B < b := by
      by_contra h2
      have h2 : b ≤ B := Nat.le_of_not_lt h2
      have h3 : D * B < a * B := Nat.mul_lt_mul_of_pos_right h1 hB
      have h4 : b * D ≤ B * D := Nat.mul_le_mul_right D h2
      have : D * B = B * D := Nat.mul_comm _ _
      omega
    rw [compare_gt_iff_gt.2 h1, compare_gt_iff_gt.2 this]

/-! ## the oracle's scaled numerator / denominator -/

/-- numerator of `X/Y × 10^(-t)` -/
def Nt (X : Nat) (t : Int) : Nat := if t ≥ 0 then X else X * 10 ^ (-t).toNat
/-- denominator of `X/Y × 10^(-t)` -/
def Dt (Y : Nat) (t : Int) : Nat := if t ≥ 0 then Y * 10 ^ t.toNat else Y

theorem Dt_pos (Y : Nat) (hY : 0 < Y) (t : Int) : 0 < Dt Y t := by
  unfold Dt; split
  · exact Nat.mul_pos hY (Nat.pow_pos (by decide))
  · exact hY

theorem Nt_pos (X : Nat) (hX : 0 < X) (t : Int) : 0 < Nt X t := by
  unfold Nt; split
  · exact hX
  · exact Nat.mul_pos hX (Nat.pow_pos (by decide))

/-- `X/Y × 10^(-t) = (X/Y × 10^(-(t+j))) × 10^j`, cross-multiplied -/
theorem ratShift (X Y : Nat) (t : Int) (j : Nat) :
    Nt X t * Dt Y (t + j) = Nt X (t + j) * 10 ^ j * Dt Y t := by
  unfold Nt Dt
  by_cases h1 : t ≥ 0
  · have h2 : t + j ≥ 0 := by omega
    rw [if_pos h1, if_pos h2, if_pos h2, if_pos h1]
    have e : (t + j).toNat = t.toNat + j := by omega
    rw [e, pow_add]; ring
  · by_cases h2 : t + (j : Int) ≥ 0
    · rw [if_neg h1, if_pos h2, if_pos h2, if_neg h1]
      have e : j = (-t).toNat + (t + j).toNat := by omega
      conv_rhs => rw [e]
      rw [pow_add]; ring
    · rw [if_neg h1, if_neg h2, if_neg h2, if_neg h1]
      have e : (-t).toNat = (-(t + j)).toNat + j := by omega
      rw [e, pow_add]; ring

/-- `roundAt` in terms of any fraction `A/B` equal to `num/den × 10^(e10-q)` -/
theorem roundAt_of_cross (mode : Mode) (neg : Bool) (num den : Nat) (e10 q : Int) (A B : Nat)
    (hB : 0 < B) (hden : 0 < den) (h : A * Dt den (q - e10) = B * Nt num (q - e10)) :
    roundAt mode neg num den e10 q =
      if A % B = 0 then (A / B, false)
      else (if specAddOne mode (A / B) neg (compare (2 * (A % B)) B) then A / B + 1 else A / B, true) := by
  have hD := Dt_pos den hden (q - e10)
  obtain ⟨hq, hm⟩ := cross_div_mod A B _ _ hB hD h
  have hz : (Nt num (q - e10) % Dt den (q - e10) = 0) ↔ (A % B = 0) := by
    constructor
    · intro h0; rw [h0] at hm; simp at hm; omega
    · intro h0; rw [h0] at hm; simp at hm; omega
  have hc : compare (2 * (Nt num (q - e10) % Dt den (q - e10))) (Dt den (q - e10))
      = compare (2 * (A % B)) B := by
    apply compare_cross _ _ _ _ hB hD
    calc 2 * (Nt num (q - e10) % Dt den (q - e10)) * B
        = 2 * ((Nt num (q - e10) % Dt den (q - e10)) * B) := by ring
      _ = 2 * ((A % B) * Dt den (q - e10)) := by rw [hm]
      _ = 2 * (A % B) * Dt den (q - e10) := by ring
  show (let N := Nt num (q - e10); let D := Dt den (q - e10);
        if (N % D == 0) = true then (N / D, false)
        else (if specAddOne mode (N / D) neg (compare (2 * (N % D)) D) then N / D + 1 else N / D, true)) = _
  simp only [beq_iff_eq]
  by_cases h0 : A % B = 0
  · rw [if_pos h0, if_pos (hz.2 h0), hq]
  · rw [if_neg h0, if_neg (fun h' => h0 (hz.1 h')), hq, hc]

/-! ## rounding decisions -/

theorem shouldAddOne_eq_spec (m : Mode) (n : Nat) (neg : Bool) (a b : Nat) :
    shouldAddOne m n neg (cmpNat a b) = specAddOne m n neg (compare a b) := by
  rcases Nat.lt_trichotomy a b with h | h | h
  · have e : cmpNat a b = -1 := by simp [cmpNat, h]
    rw [e, compare_lt_iff_lt.2 h]
    cases m <;> simp [shouldAddOne, specAddOne]
    rw [Bool.eq_iff_iff]; simp; omega
  · have e : cmpNat a b = 0 := by simp [cmpNat, h]
    rw [e, compare_eq_iff_eq.2 h]
    cases m <;> simp [shouldAddOne, specAddOne]
    rw [Bool.eq_iff_iff]; simp; omega
  · have e : cmpNat a b = 1 := by
      have : ¬ a < b := by omega
      simp [cmpNat, this, h]
    rw [e, compare_gt_iff_gt.2 h]
    cases m <;> simp [shouldAddOne, specAddOne]
    rw [Bool.eq_iff_iff]; simp; omega

/-! ## the scaling step of `Quo` -/

def qNdDiff (X Y : Nat) : Int := (ndigits X : Int) - (ndigits Y : Int)
def qDividend0 (X Y : Nat) : Nat := if qNdDiff X Y < 0 then X * 10 ^ (-(qNdDiff X Y)).toNat else X
def qDivisor (X Y : Nat) : Nat := if qNdDiff X Y > 0 then Y * 10 ^ (qNdDiff X Y).toNat else Y
def qLt (X Y : Nat) : Bool := decide (qDividend0 X Y < qDivisor X Y)
def qDividend1 (X Y : Nat) : Nat := if qLt X Y then qDividend0 X Y * 10 else qDividend0 X Y
def qAdjCoeffs (X Y : Nat) : Int := if qLt X Y then -qNdDiff X Y + 1 else -qNdDiff X Y
def qDividend (P X Y : Nat) : Nat := qDividend1 X Y * 10 ^ ((P : Int) - 1).toNat

theorem qDividend0_eq (X Y : Nat) : qDividend0 X Y = Nt X (qNdDiff X Y) := by
  unfold qDividend0 Nt
  by_cases h : qNdDiff X Y < 0
  · rw [if_pos h, if_neg (by omega)]
  · rw [if_neg h, if_pos (by omega)]

theorem qDivisor_eq (X Y : Nat) : qDivisor X Y = Dt Y (qNdDiff X Y) := by
  unfold qDivisor Dt
  by_cases h : qNdDiff X Y > 0
  · rw [if_pos h, if_pos (by omega)]
  · by_cases h2 : qNdDiff X Y = 0
    · rw [if_neg h, if_pos (by omega), h2]; simp
    · rw [if_neg h, if_neg (by omega)]

theorem adjRat_eq (X Y : Nat) :
    adjRat X Y = if qLt X Y then qNdDiff X Y - 1 else qNdDiff X Y := by
  unfold qLt
  rw [qDividend0_eq, qDivisor_eq]
  unfold adjRat Nt Dt
  simp only [← qNdDiff.eq_1]
  by_cases h : qNdDiff X Y ≥ 0
  · simp only [if_pos h, ge_iff_le, decide_eq_true_eq]
    by_cases h2 : X < Y * 10 ^ (qNdDiff X Y).toNat
    · rw [if_pos h2, if_neg (by omega)]
    · rw [if_neg h2, if_pos (by omega)]
  · simp only [if_neg h, ge_iff_le, decide_eq_true_eq]
    by_cases h2 : X * 10 ^ (-(qNdDiff X Y)).toNat < Y
    · rw [if_pos h2, if_neg (by omega)]
    · rw [if_neg h2, if_pos (by omega)]

theorem pow_pred_mul (k : Nat) (hk : 1 ≤ k) : 10 ^ k = 10 * 10 ^ (k - 1) := by
  have : k = (k - 1) + 1 := by omega
  conv_lhs => rw [this]
  rw [Nat.pow_succ]; ring

theorem Nt_bounds (X Y : Nat) (hX : 0 < X) :
    10 ^ (max (ndigits X) (ndigits Y) - 1) ≤ Nt X (qNdDiff X Y) ∧
    Nt X (qNdDiff X Y) < 10 ^ (max (ndigits X) (ndigits Y)) := by
  obtain ⟨h1, h2⟩ := ndigits_spec X hX
  have hp := ndigits_pos X
  unfold Nt
  by_cases h : qNdDiff X Y ≥ 0
  · have e : max (ndigits X) (ndigits Y) = ndigits X := by unfold qNdDiff at h; omega
    rw [if_pos h, e]; exact ⟨h1, h2⟩
  · have e : max (ndigits X) (ndigits Y) = ndigits Y := by unfold qNdDiff at h; omega
    have e2 : ndigits Y - 1 = (ndigits X - 1) + (-(qNdDiff X Y)).toNat := by unfold qNdDiff at h ⊢; omega
    have e3 : ndigits Y = ndigits X + (-(qNdDiff X Y)).toNat := by unfold qNdDiff at h ⊢; omega
    rw [if_neg h, e]
    constructor
    · rw [e2, pow_add]; exact Nat.mul_le_mul_right _ h1
    · conv_rhs => rw [e3, pow_add]
      exact Nat.mul_lt_mul_of_pos_right h2 (Nat.pow_pos (by decide))

theorem Dt_bounds (X Y : Nat) (hY : 0 < Y) :
    10 ^ (max (ndigits X) (ndigits Y) - 1) ≤ Dt Y (qNdDiff X Y) ∧
    Dt Y (qNdDiff X Y) < 10 ^ (max (ndigits X) (ndigits Y)) := by
  obtain ⟨h1, h2⟩ := ndigits_spec Y hY
  have hp := ndigits_pos Y
  unfold Dt
  by_cases h : qNdDiff X Y ≥ 0
  · have e : max (ndigits X) (ndigits Y) = ndigits X := by unfold qNdDiff at h; omega
    have e2 : ndigits X - 1 = (ndigits Y - 1) + (qNdDiff X Y).toNat := by unfold qNdDiff at h ⊢; omega
    have e3 : ndigits X = ndigits Y + (qNdDiff X Y).toNat := by unfold qNdDiff at h ⊢; omega
    rw [if_pos h, e]
    constructor
    · rw [e2, pow_add]; exact Nat.mul_le_mul_right _ h1
    · conv_rhs => rw [e3, pow_add]
      exact Nat.mul_lt_mul_of_pos_right h2 (Nat.pow_pos (by decide))
  · have e : max (ndigits X) (ndigits Y) = ndigits Y := by unfold qNdDiff at h; omega
    rw [if_neg h, e]; exact ⟨h1, h2⟩

theorem quo_scale (X Y : Nat) (hX : 0 < X) (hY : 0 < Y) :
    0 < qDivisor X Y ∧ qDivisor X Y ≤ qDividend1 X Y ∧ qDividend1 X Y < 10 * qDivisor X Y ∧
    adjRat X Y = -(qAdjCoeffs X Y) ∧
    qDividend1 X Y * Dt Y (-(qAdjCoeffs X Y)) = qDivisor X Y * Nt X (-(qAdjCoeffs X Y)) := by
  obtain ⟨n1, n2⟩ := Nt_bounds X Y hX
  obtain ⟨d1, d2⟩ := Dt_bounds X Y hY
  have hk : 1 ≤ max (ndigits X) (ndigits Y) := by have := ndigits_pos X; omega
  have hpw := pow_pred_mul _ hk
  have hpos : 0 < 10 ^ (max (ndigits X) (ndigits Y) - 1) := Nat.pow_pos (by decide)
  rw [adjRat_eq]
  unfold qDividend1 qAdjCoeffs
  have hlt : qLt X Y = decide (Nt X (qNdDiff X Y) < Dt Y (qNdDiff X Y)) := by
    unfold qLt; rw [qDividend0_eq, qDivisor_eq]
  rw [qDividend0_eq, qDivisor_eq]
  by_cases h : Nt X (qNdDiff X Y) < Dt Y (qNdDiff X Y)
  · have : qLt X Y = true := by rw [hlt]; simpa using h
    simp only [this, if_true]
    refine ⟨by omega, by omega, by omega, by omega, ?_⟩
    have := ratShift X Y (qNdDiff X Y - 1) 1
    have e : qNdDiff X Y - 1 + ((1 : Nat) : Int) = qNdDiff X Y := by omega
    rw [e] at this
    have e2 : -(-qNdDiff X Y + 1) = qNdDiff X Y - 1 := by omega
    rw [e2]
    linarith
  · have : qLt X Y = false := by rw [hlt]; simpa using h
    simp only [this, Bool.false_eq_true, if_false]
    refine ⟨by omega, by omega, by omega, by omega, ?_⟩
    rw [neg_neg]; ring

/-! ## `setExponent` after the system checks; the two regimes -/

/-- the body of `setExponent` after the system-limit checks -/
def seCore (c : Ctx) (d : Dec) (res : Cond) (r : Int) : Dec × Cond :=
  let adj := r + (ndigits d.coeff : Int) - 1
  if adj < c.emin then
    let res := if !d.isZero then res ||| cSubnormal else res
    let etiny : Int := c.emin - ((c.prec : Int) - 1)
    if r < etiny then
      let k := (etiny - r).toNat
      let integ := d.coeff / 10 ^ k
      let frac := d.coeff % 10 ^ k
      let res := if frac != 0 then res ||| cInexact else res
      let integ := if frac != 0 && shouldAddOne c.mode integ d.neg (cmpNat (2 * frac) (10 ^ k)) then integ + 1 else integ
      let res := if integ == 0 then res ||| cClamped else res
      seFinish { d with coeff := integ } etiny (res ||| cRounded)
    else seFinish d r res
  else if adj > c.emax then
    if d.isZero then seFinish d c.emax (res ||| cClamped)
    else seFinish { d with form := .infinite } r (res ||| cOverflow ||| cInexact)
  else seFinish d r res

theorem checkXs_some (xs : List Int) (fl : Cond) (h : checkXs xs = some fl) : ¬ NoSys fl := by
  induction xs with
  | nil => simp [checkXs] at h
  | cons x xs ih =>
    unfold checkXs at h
    split_ifs at h with h1 h2
    · cases h; simp [NoSys, cSysOverflow, cOverflow]
    · cases h; simp [NoSys, cSysUnderflow, cUnderflow]
    · exact ih h

theorem setExponent_noSys (c : Ctx) (d : Dec) (res : Cond) (xs : List Int)
    (h : NoSys (setExponent c d res xs).2) : setExponent c d res xs = seCore c d res (sumInts xs) := by
  unfold setExponent at h ⊢
  cases hx : checkXs xs with
  | some fl => rw [hx] at h; exact absurd h (checkXs_some xs fl hx)
  | none =>
    rw [hx] at h
    simp only at h ⊢
    by_cases h1 : sumInts xs + (ndigits d.coeff : Int) - 1 > MaxExponent
    · rw [if_pos h1] at h; exfalso; revert h; simp [NoSys, cSysOverflow, cOverflow]
    · rw [if_neg h1] at h ⊢
      by_cases h2 : sumInts xs + (ndigits d.coeff : Int) - 1 < MinExponent
      · rw [if_pos h2] at h; exfalso; revert h; simp [NoSys, cSysUnderflow, cUnderflow]
      · rw [if_neg h2]; rfl


/-- `Agrees` for an explicit specification outcome -/
def AgreesS (c : Ctx) (s : SpecOut) (d : Dec) (fl : Cond) : Prop :=
  s.matches d = true ∧ FlagsOK s d fl ∧ fits c d = true

theorem quo_normal (c : Ctx) (hc : c.WF) (neg : Bool) (E : Int) (m cf δ : Nat) (inex : Bool)
    (hcf : cf * 10 ^ δ = m) (hnd : ndigits cf = c.prec) (hndm : ndigits m = c.prec + δ) (hcf0 : cf ≠ 0)
    (hadj : c.emin ≤ E + c.prec - 1)
    (res0 : Cond) (hres : res0 = if inex then cInexact ||| cRounded else {}) :
    AgreesS c (if m != 0 && E + (ndigits m : Int) - 1 > c.emax then
        { inf := true, neg := neg, inexact := true, subnormal := false, overflow := true }
      else { neg := neg, m := m, q := E, inexact := inex, subnormal := false })
      (seCore c ⟨.finite, neg, 0, cf⟩ res0 (E + δ)).1
      (res0 ||| (seCore c ⟨.finite, neg, 0, cf⟩ res0 (E + δ)).2) := by
  obtain ⟨hP, hPmax, hmax, hmin, hmin0⟩ := hc
  have hm0 : m ≠ 0 := by
    rw [← hcf]; exact Nat.mul_ne_zero hcf0 (Nat.pos_iff_ne_zero.1 (Nat.pow_pos (by decide)))
  have hz : ({ form := .finite, neg := neg, exp := 0, coeff := cf } : Dec).isZero = false := by
    simp [Dec.isZero, hcf0]
  unfold seCore
  simp only [hnd, hndm, hz]
  have h1 : ¬ (E + (δ : Int) + (c.prec : Int) - 1 < c.emin) := by omega
  rw [if_neg h1]
  by_cases h2 : E + (δ : Int) + (c.prec : Int) - 1 > c.emax
  · have h3 : (m != 0 && decide (E + ((c.prec + δ : Nat) : Int) - 1 > c.emax)) = true := by
      simp [hm0]; omega
    rw [if_pos h2, if_pos h3]
    subst hres
    cases inex <;>
      simp [AgreesS, SpecOut.matches, FlagsOK, fits, seFinish, SpecOut.underflow, cInexact, cRounded, cOverflow, cUnderflow]
  · have h3 : ¬ ((m != 0 && decide (E + ((c.prec + δ : Nat) : Int) - 1 > c.emax)) = true) := by
      simp [hm0]; omega
    rw [if_neg h2, if_neg h3]
    subst hres
    have e1 : (E + (δ : Int) - E).toNat = δ := by omega
    cases inex <;>
      simp [AgreesS, SpecOut.matches, FlagsOK, fits, seFinish, SpecOut.underflow, cInexact, cRounded, cOverflow, cUnderflow, hnd, e1, hcf]
    all_goals omega


theorem ndigits_le_of_le_pow (n P : Nat) (hP : 1 ≤ P) (h : n ≤ 10 ^ (P - 1)) : ndigits n ≤ P := by
  by_cases h0 : n = 0
  · subst h0; have : ndigits 0 = 1 := by decide
    omega
  · rw [ndigits_le_iff n P (by omega) hP]
    have : 10 ^ (P - 1) < 10 ^ P := Nat.pow_lt_pow_right (by decide) (by omega)
    omega

theorem quo_sub (c : Ctx) (hc : c.WF) (neg : Bool) (r : Int) (cf K n R B : Nat)
    (hcf0 : cf ≠ 0) (hK : (K : Int) = c.emin - ((c.prec : Int) - 1) - r) (hKpos : 1 ≤ K)
    (hadj : r + (ndigits cf : Int) - 1 < c.emin)
    (hn : cf / 10 ^ K = n) (hnlt : n < 10 ^ (c.prec - 1))
    (hR : cf % 10 ^ K = 0 ↔ R = 0)
    (hadd : shouldAddOne c.mode n neg (cmpNat (2 * (cf % 10 ^ K)) (10 ^ K))
              = specAddOne c.mode n neg (compare (2 * R) B)) :
    AgreesS c { neg := neg,
                m := (if R = 0 then (n, false)
                      else (if specAddOne c.mode n neg (compare (2 * R) B) then n + 1 else n, true)).1,
                q := c.emin - (c.prec : Int) + 1,
                inexact := (if R = 0 then (n, false)
                      else (if specAddOne c.mode n neg (compare (2 * R) B) then n + 1 else n, true)).2,
                subnormal := true }
      (seCore c ⟨.finite, neg, 0, cf⟩ {} r).1
      (({} : Cond) ||| (seCore c ⟨.finite, neg, 0, cf⟩ {} r).2) := by
  obtain ⟨hP, hPmax, hmax, hmin, hmin0⟩ := hc
  have hz : ({ form := .finite, neg := neg, exp := 0, coeff := cf } : Dec).isZero = false := by
    simp [Dec.isZero, hcf0]
  have hk : (c.emin - ((c.prec : Int) - 1) - r).toNat = K := by omega
  have hlt : r < c.emin - ((c.prec : Int) - 1) := by omega
  unfold seCore
  simp only [hz, hk, hn]
  rw [if_pos hadj, if_pos hlt]
  have hd1 : ndigits n ≤ c.prec := ndigits_le_of_le_pow n c.prec hP (by omega)
  have hd2 : ndigits (n + 1) ≤ c.prec := ndigits_le_of_le_pow (n + 1) c.prec hP (by omega)
  have he : c.emin - ((c.prec : Int) - 1) = c.emin - (c.prec : Int) + 1 := by omega
  have hd0 : ndigits 0 = 1 := by decide
  by_cases hR0 : R = 0
  · have hf : cf % 10 ^ K = 0 := hR.2 hR0
    simp [AgreesS, SpecOut.matches, FlagsOK, fits, seFinish, SpecOut.underflow, cInexact, cRounded,
      cSubnormal, cClamped, cUnderflow, hR0, hf, he]
    by_cases hn0 : n = 0 <;> simp [hn0] <;> omega
  · have hf : cf % 10 ^ K ≠ 0 := fun h => hR0 (hR.1 h)
    rw [hadd]
    by_cases hs : specAddOne c.mode n neg (compare (2 * R) B) = true
    · simp [AgreesS, SpecOut.matches, FlagsOK, fits, seFinish, SpecOut.underflow, cInexact, cRounded,
        cSubnormal, cClamped, cUnderflow, hR0, hf, he, hs]
      omega
    · simp [AgreesS, SpecOut.matches, FlagsOK, fits, seFinish, SpecOut.underflow, cInexact, cRounded,
        cSubnormal, cClamped, cUnderflow, hR0, hf, he, hs]
      by_cases hn0 : n = 0 <;> simp [hn0] <;> omega


/-! ## the model of `Quo` in structured form, and the core agreement theorem -/

def quoSt (c : Ctx) (neg : Bool) (q rem divisor : Nat) (adj : Int) : Nat × Int × Cond :=
  if rem != 0 then
    if adj ≥ c.emin then
      if shouldAddOne c.mode q neg (cmpNat (2 * rem) divisor) then
        ((roundAddOne q 0).1, (roundAddOne q 0).2, cInexact ||| cRounded)
      else (q, 0, cInexact ||| cRounded)
    else (q * 10 + 1, -1, {})
  else (q, 0, {})

def quoFin (c : Ctx) (neg : Bool) (shift a : Int) (st : Nat × Int × Cond) : Dec × Cond :=
  let r := setExponent c { form := .finite, neg := neg, exp := 0, coeff := st.1 } st.2.2
             [shift, a, -((c.prec : Int) - 1), st.2.1]
  (r.1, st.2.2 ||| r.2)

theorem quoOp_eq (c : Ctx) (x y : Dec) (hx : x.form = .finite) (hy : y.form = .finite)
    (hy0 : y.coeff ≠ 0) (hp : c.prec ≠ 0) (hx0 : x.coeff ≠ 0) :
    quoOp c x y = finish c (quoFin c (x.neg != y.neg) (x.exp - y.exp) (-(qAdjCoeffs x.coeff y.coeff))
      (quoSt c (x.neg != y.neg) (qDividend c.prec x.coeff y.coeff / qDivisor x.coeff y.coeff)
        (qDividend c.prec x.coeff y.coeff % qDivisor x.coeff y.coeff) (qDivisor x.coeff y.coeff)
        (x.exp - y.exp + (-(qAdjCoeffs x.coeff y.coeff)) + (-((c.prec : Int) - 1)) +
          (ndigits (qDividend c.prec x.coeff y.coeff / qDivisor x.coeff y.coeff) : Int) - 1))) := by
  have hs : quoSpecials c x y true = none := by
    simp [quoSpecials, shouldSetAsNaN, Dec.isNaN, Dec.isZero, hx, hy, hy0, hp]
  have hz : x.isZero = false := by simp [Dec.isZero, hx0]
  unfold quoOp
  rw [hs]
  simp only [hz, Bool.false_eq_true, ↓reduceIte]
  rfl

theorem quoOp_zero (c : Ctx) (x y : Dec) (hx : x.form = .finite) (hy : y.form = .finite)
    (hy0 : y.coeff ≠ 0) (hp : c.prec ≠ 0) (hx0 : x.coeff = 0) :
    quoOp c x y = finish c (setExponent c { form := .finite, neg := (x.neg != y.neg), exp := 0, coeff := 0 } {} [x.exp - y.exp]) := by
  have hs : quoSpecials c x y true = none := by
    simp [quoSpecials, shouldSetAsNaN, Dec.isNaN, Dec.isZero, hx, hy, hy0, hp]
  have hz : x.isZero = true := by simp [Dec.isZero, hx0, hx]
  unfold quoOp
  rw [hs]
  simp only [hz, ↓reduceIte]

theorem noSys_of_or (a b : Cond) (h : NoSys (a ||| b)) : NoSys b := by
  obtain ⟨h1, h2⟩ := h
  simp at h1 h2
  exact ⟨h1.2, h2.2⟩

theorem noSys_of_delivered (t fl : Cond) (h : Delivered (goError t fl)) : NoSys fl := by
  unfold goError at h
  by_cases h1 : (fl.sysOverflow || fl.sysUnderflow) = true
  · rw [if_pos h1] at h; rcases h with h | h <;> cases h
  · simp at h1; exact ⟨by simpa using h1.1, by simpa using h1.2⟩

theorem quoFin_eq (c : Ctx) (neg : Bool) (shift a : Int) (cf : Nat) (δ : Int) (res0 : Cond)
    (hns : NoSys (quoFin c neg shift a (cf, δ, res0)).2) :
    quoFin c neg shift a (cf, δ, res0) =
      ((seCore c ⟨.finite, neg, 0, cf⟩ res0 (shift + a - ((c.prec : Int) - 1) + δ)).1,
       res0 ||| (seCore c ⟨.finite, neg, 0, cf⟩ res0 (shift + a - ((c.prec : Int) - 1) + δ)).2) := by
  unfold quoFin at hns ⊢
  simp only at hns ⊢
  have h2 := noSys_of_or _ _ hns
  rw [setExponent_noSys _ _ _ _ h2]
  have e : sumInts [shift, a, -((c.prec : Int) - 1), δ] = shift + a - ((c.prec : Int) - 1) + δ := by
    simp only [sumInts]; omega
  rw [e]

theorem specRound_pos (c : Ctx) (neg : Bool) (X Y : Nat) (shift : Int) (hX : X ≠ 0) :
    specRound c { neg := neg, num := X, den := Y, e10 := shift } =
      (if (roundAt c.mode neg X Y shift (max (adjRat X Y + shift - (c.prec : Int) + 1) (c.emin - (c.prec : Int) + 1))).1 != 0 &&
          (max (adjRat X Y + shift - (c.prec : Int) + 1) (c.emin - (c.prec : Int) + 1)) +
            (ndigits (roundAt c.mode neg X Y shift (max (adjRat X Y + shift - (c.prec : Int) + 1) (c.emin - (c.prec : Int) + 1))).1 : Int) - 1 > c.emax then
        { inf := true, neg := neg, inexact := true, subnormal := decide (adjRat X Y + shift < c.emin), overflow := true }
      else { neg := neg, m := (roundAt c.mode neg X Y shift (max (adjRat X Y + shift - (c.prec : Int) + 1) (c.emin - (c.prec : Int) + 1))).1,
             q := max (adjRat X Y + shift - (c.prec : Int) + 1) (c.emin - (c.prec : Int) + 1),
             inexact := (roundAt c.mode neg X Y shift (max (adjRat X Y + shift - (c.prec : Int) + 1) (c.emin - (c.prec : Int) + 1))).2,
             subnormal := decide (adjRat X Y + shift < c.emin) }) := by
  unfold specRound
  have : ((X == 0) = true) = False := by simp [hX]
  simp only [this, if_false]

theorem normal_finish (c : Ctx) (hc : c.WF) (neg : Bool) (shift a : Int) (X Y : Nat) (hX : X ≠ 0)
    (ha : adjRat X Y = a) (hreg : c.emin ≤ shift + a) (m cf δ : Nat) (inex : Bool)
    (hcf : cf * 10 ^ δ = m) (hnd : ndigits cf = c.prec) (hndm : ndigits m = c.prec + δ) (hcf0 : cf ≠ 0)
    (hround : roundAt c.mode neg X Y shift (a + shift - (c.prec : Int) + 1) = (m, inex))
    (hns : NoSys (quoFin c neg shift a (cf, (δ : Int), if inex then cInexact ||| cRounded else {})).2) :
    Agrees c { neg := neg, num := X, den := Y, e10 := shift }
      (quoFin c neg shift a (cf, (δ : Int), if inex then cInexact ||| cRounded else {})).1
      (quoFin c neg shift a (cf, (δ : Int), if inex then cInexact ||| cRounded else {})).2 := by
  rw [quoFin_eq _ _ _ _ _ _ _ hns]
  unfold Agrees
  rw [specRound_pos c neg X Y shift hX, ha]
  have e1 : max (a + shift - (c.prec : Int) + 1) (c.emin - (c.prec : Int) + 1) = a + shift - (c.prec : Int) + 1 := by
    omega
  have e2 : decide (a + shift < c.emin) = false := by simp; omega
  have e3 : shift + a - ((c.prec : Int) - 1) + (δ : Int) = (a + shift - (c.prec : Int) + 1) + (δ : Int) := by omega
  rw [e1, e2, e3, hround]
  exact quo_normal c hc neg _ m cf δ inex hcf hnd hndm hcf0 (by omega) _ rfl


theorem sub_finish (c : Ctx) (hc : c.WF) (neg : Bool) (shift a : Int) (X Y : Nat) (hX : X ≠ 0)
    (ha : adjRat X Y = a) (hreg : shift + a < c.emin) (cf K n R B : Nat) (δ : Int)
    (hcf0 : cf ≠ 0)
    (hK : (K : Int) = c.emin - ((c.prec : Int) - 1) - (shift + a - ((c.prec : Int) - 1) + δ))
    (hKpos : 1 ≤ K)
    (hadj : (shift + a - ((c.prec : Int) - 1) + δ) + (ndigits cf : Int) - 1 < c.emin)
    (hn : cf / 10 ^ K = n) (hnlt : n < 10 ^ (c.prec - 1))
    (hR : cf % 10 ^ K = 0 ↔ R = 0)
    (hadd : shouldAddOne c.mode n neg (cmpNat (2 * (cf % 10 ^ K)) (10 ^ K))
              = specAddOne c.mode n neg (compare (2 * R) B))
    (hround : roundAt c.mode neg X Y shift (c.emin - (c.prec : Int) + 1) =
      if R = 0 then (n, false)
      else (if specAddOne c.mode n neg (compare (2 * R) B) then n + 1 else n, true))
    (hns : NoSys (quoFin c neg shift a (cf, δ, {})).2) :
    Agrees c { neg := neg, num := X, den := Y, e10 := shift }
      (quoFin c neg shift a (cf, δ, {})).1 (quoFin c neg shift a (cf, δ, {})).2 := by
  rw [quoFin_eq _ _ _ _ _ _ _ hns]
  unfold Agrees
  rw [specRound_pos c neg X Y shift hX, ha]
  have hP := hc.1
  have e1 : max (a + shift - (c.prec : Int) + 1) (c.emin - (c.prec : Int) + 1) = c.emin - (c.prec : Int) + 1 := by
    omega
  have e2 : decide (a + shift < c.emin) = true := by simp; omega
  rw [e1, e2, hround]
  have hd1 : ndigits n ≤ c.prec := ndigits_le_of_le_pow n c.prec hP (by omega)
  have hd2 : ndigits (n + 1) ≤ c.prec := ndigits_le_of_le_pow (n + 1) c.prec hP (by omega)
  have hm : ndigits (if R = 0 then (n, false)
      else (if specAddOne c.mode n neg (compare (2 * R) B) then n + 1 else n, true)).1 ≤ c.prec := by
    split
    · exact hd1
    · simp only; split <;> assumption
  have hno : ¬ (((if R = 0 then (n, false)
      else (if specAddOne c.mode n neg (compare (2 * R) B) then n + 1 else n, true)).1 != 0 &&
      decide (c.emin - (c.prec : Int) + 1 + (ndigits (if R = 0 then (n, false)
      else (if specAddOne c.mode n neg (compare (2 * R) B) then n + 1 else n, true)).1 : Int) - 1 > c.emax)) = true) := by
    have := hc.2.1; have := hc.2.2.2.2
    simp only [Bool.and_eq_true, decide_eq_true_eq, not_and]
    intro _; omega
  rw [if_neg hno]
  exact quo_sub c hc neg _ cf K n R B hcf0 hK hKpos hadj hn hnlt hR hadd


theorem sticky_div (q k : Nat) : (q * 10 + 1) / 10 ^ (k + 1) = q / 10 ^ k := by
  rw [Nat.pow_succ, Nat.mul_comm (10 ^ k) 10, ← Nat.div_div_eq_div_mul]
  congr 1; omega

theorem sticky_mod (q k : Nat) : (q * 10 + 1) % 10 ^ (k + 1) = 1 + 10 * (q % 10 ^ k) := by
  rw [Nat.pow_succ, Nat.mul_comm (10 ^ k) 10, Nat.mod_mul]
  have e1 : (q * 10 + 1) / 10 = q := by omega
  have e2 : (q * 10 + 1) % 10 = 1 := by omega
  rw [e1, e2]

theorem sticky_cmp (dv rem s k : Nat) (hk : 1 ≤ k) (hs : s < 10 ^ k) (hr0 : 0 < rem) (hr : rem < dv) :
    compare (2 * (1 + 10 * s)) (10 ^ (k + 1)) = compare (2 * (rem + dv * s)) (dv * 10 ^ k) := by
  have e := pow_pred_mul k hk
  have e' : 10 ^ (k + 1) = 10 * 10 ^ k := by rw [Nat.pow_succ]; ring
  rw [e', e]
  generalize 10 ^ (k - 1) = T0 at *
  have ev : dv * (10 * T0) = 10 * (dv * T0) := by ring
  rw [ev]
  by_cases h : s < 5 * T0
  · have h1 : dv * (s + 1) ≤ dv * (5 * T0) := Nat.mul_le_mul_left dv (by omega)
    have h2 : dv * (s + 1) = dv * s + dv := by ring
    have h3 : dv * (5 * T0) = 5 * (dv * T0) := by ring
    rw [h2, h3] at h1
    generalize dv * s = u at *
    generalize dv * T0 = v at *
    rw [compare_lt_iff_lt.2 (by omega), compare_lt_iff_lt.2 (by omega)]
  · have h1 : dv * (5 * T0) ≤ dv * s := Nat.mul_le_mul_left dv (by omega)
    have h3 : dv * (5 * T0) = 5 * (dv * T0) := by ring
    rw [h3] at h1
    generalize dv * s = u at *
    generalize dv * T0 = v at *
    rw [compare_gt_iff_gt.2 (by omega), compare_gt_iff_gt.2 (by omega)]


theorem quo_core (c : Ctx) (hc : c.WF) (neg : Bool) (shift a : Int) (X Y dividend divisor : Nat)
    (hX : X ≠ 0) (hY : 0 < Y) (hdv : 0 < divisor)
    (hlo : divisor * 10 ^ (c.prec - 1) ≤ dividend) (hhi : dividend < divisor * 10 ^ c.prec)
    (ha : adjRat X Y = a)
    (hcross : ∀ k : Nat, dividend * Dt Y (a - ((c.prec : Int) - 1) + k)
                = divisor * 10 ^ k * Nt X (a - ((c.prec : Int) - 1) + k))
    (hns : NoSys (quoFin c neg shift a (quoSt c neg (dividend / divisor) (dividend % divisor) divisor
             (shift + a + (-((c.prec : Int) - 1)) + (ndigits (dividend / divisor) : Int) - 1))).2) :
    Agrees c { neg := neg, num := X, den := Y, e10 := shift }
      (quoFin c neg shift a (quoSt c neg (dividend / divisor) (dividend % divisor) divisor
             (shift + a + (-((c.prec : Int) - 1)) + (ndigits (dividend / divisor) : Int) - 1))).1
      (quoFin c neg shift a (quoSt c neg (dividend / divisor) (dividend % divisor) divisor
             (shift + a + (-((c.prec : Int) - 1)) + (ndigits (dividend / divisor) : Int) - 1))).2 := by
  have hP := hc.1
  have hq1 : 10 ^ (c.prec - 1) ≤ dividend / divisor :=
    (Nat.le_div_iff_mul_le hdv).2 (by rw [Nat.mul_comm]; exact hlo)
  have hq2 : dividend / divisor < 10 ^ c.prec :=
    (Nat.div_lt_iff_lt_mul hdv).2 (by rw [Nat.mul_comm]; exact hhi)
  have hndq : ndigits (dividend / divisor) = c.prec := ndigits_unique _ _ hP hq1 hq2
  have hrem := Nat.mod_lt dividend hdv
  rw [hndq] at hns ⊢
  have eadj : shift + a + -((c.prec : Int) - 1) + (c.prec : Int) - 1 = shift + a := by omega
  rw [eadj] at hns ⊢
  by_cases hreg : c.emin ≤ shift + a
  · -- normal range
    have hcr : dividend * Dt Y (a + shift - (c.prec : Int) + 1 - shift)
        = divisor * Nt X (a + shift - (c.prec : Int) + 1 - shift) := by
      have := hcross 0
      have e : a - ((c.prec : Int) - 1) + ((0 : Nat) : Int) = a + shift - (c.prec : Int) + 1 - shift := by omega
      rw [e] at this; simpa using this
    have hround := roundAt_of_cross c.mode neg X Y shift (a + shift - (c.prec : Int) + 1)
      dividend divisor hdv hY hcr
    generalize dividend / divisor = q at *
    generalize dividend % divisor = rem at *
    have hq0 : q ≠ 0 := by
      have := Nat.pow_pos (n := c.prec - 1) (show 0 < 10 by decide); omega
    by_cases hr0 : rem = 0
    · have hst : quoSt c neg q rem divisor (shift + a)
          = (q, ((0 : Nat) : Int), if false then cInexact ||| cRounded else {}) := by
        simp [quoSt, hr0]
      rw [hst] at hns ⊢
      rw [if_pos hr0] at hround
      exact normal_finish c hc neg shift a X Y hX ha hreg q q 0 false (by simp) hndq
        (by simpa using hndq) hq0 hround hns
    · rw [if_neg hr0] at hround
      by_cases hadd : specAddOne c.mode q neg (compare (2 * rem) divisor) = true
      · rw [if_pos hadd] at hround
        by_cases hcarry : ndigits (q + 1) > ndigits q
        · have hst : quoSt c neg q rem divisor (shift + a)
              = ((q + 1) / 10, ((1 : Nat) : Int), if true then cInexact ||| cRounded else {}) := by
            simp [quoSt, hr0, hreg, shouldAddOne_eq_spec, hadd, roundAddOne, hcarry]
          rw [hst] at hns ⊢
          obtain ⟨cv1, cv2⟩ := carry_value q (by omega) hcarry
          have hc10 := carry q (by omega) hcarry
          have hnd1 : ndigits (q + 1) = c.prec + 1 := by
            apply ndigits_unique _ _ (by omega)
            · rw [hc10, hndq]; simp
            · rw [hc10, hndq]; exact Nat.pow_lt_pow_right (by decide) (by omega)
          have hcf0 : (q + 1) / 10 ≠ 0 := by
            intro h0; rw [h0] at cv1; omega
          exact normal_finish c hc neg shift a X Y hX ha hreg (q + 1) ((q + 1) / 10) 1 true
            (by simpa using cv1) (by rw [cv2, hndq]) hnd1 hcf0 hround hns
        · have hst : quoSt c neg q rem divisor (shift + a)
              = (q + 1, ((0 : Nat) : Int), if true then cInexact ||| cRounded else {}) := by
            simp [quoSt, hr0, hreg, shouldAddOne_eq_spec, hadd, roundAddOne, hcarry]
          rw [hst] at hns ⊢
          have hm := ndigits_mono (m := q) (n := q + 1) (by omega) (by omega)
          have hnd1 : ndigits (q + 1) = c.prec := by omega
          exact normal_finish c hc neg shift a X Y hX ha hreg (q + 1) (q + 1) 0 true
            (by simp) hnd1 (by simpa using hnd1) (by omega) hround hns
      · rw [if_neg hadd] at hround
        have hst : quoSt c neg q rem divisor (shift + a)
            = (q, ((0 : Nat) : Int), if true then cInexact ||| cRounded else {}) := by
          simp [quoSt, hr0, hreg, shouldAddOne_eq_spec, hadd]
        rw [hst] at hns ⊢
        exact normal_finish c hc neg shift a X Y hX ha hreg q q 0 true (by simp) hndq
          (by simpa using hndq) hq0 hround hns
  · -- subnormal range
    have hreg' : shift + a < c.emin := by omega
    obtain ⟨k, hk⟩ : ∃ k : Nat, (k : Int) = c.emin - (shift + a) := ⟨(c.emin - (shift + a)).toNat, by omega⟩
    have hk1 : 1 ≤ k := by omega
    have hT : 0 < 10 ^ k := Nat.pow_pos (by decide)
    have hcr : dividend * Dt Y (c.emin - (c.prec : Int) + 1 - shift)
        = (divisor * 10 ^ k) * Nt X (c.emin - (c.prec : Int) + 1 - shift) := by
      have := hcross k
      have e : a - ((c.prec : Int) - 1) + (k : Int) = c.emin - (c.prec : Int) + 1 - shift := by omega
      rw [e] at this; exact this
    have hround := roundAt_of_cross c.mode neg X Y shift (c.emin - (c.prec : Int) + 1)
      dividend (divisor * 10 ^ k) (Nat.mul_pos hdv hT) hY hcr
    rw [← Nat.div_div_eq_div_mul, Nat.mod_mul] at hround
    generalize dividend / divisor = q at *
    generalize dividend % divisor = rem at *
    have hq0 : q ≠ 0 := by
      have := Nat.pow_pos (n := c.prec - 1) (show 0 < 10 by decide); omega
    have hnlt : q / 10 ^ k < 10 ^ (c.prec - 1) := by
      have h10 : 10 ≤ 10 ^ k := by
        calc 10 = 10 ^ 1 := by decide
          _ ≤ 10 ^ k := Nat.pow_le_pow_right (by decide) hk1
      have h1 : q / 10 ^ k ≤ q / 10 := Nat.div_le_div_left h10 (by decide)
      have h2 := pow_pred_mul c.prec hP
      omega
    by_cases hr0 : rem = 0
    · have hst : quoSt c neg q rem divisor (shift + a) = (q, (0 : Int), {}) := by
        simp [quoSt, hr0]
      rw [hst] at hns ⊢
      refine sub_finish c hc neg shift a X Y hX ha hreg' q k (q / 10 ^ k) (rem + divisor * (q % 10 ^ k))
        (divisor * 10 ^ k) 0 hq0 (by omega) hk1 (by omega) rfl hnlt ?_ ?_ hround hns
      · subst hr0
        constructor
        · intro h; rw [h]; simp
        · intro h
          have : divisor * (q % 10 ^ k) = 0 := by omega
          rcases Nat.mul_eq_zero.1 this with h' | h'
          · omega
          · exact h'
      · rw [shouldAddOne_eq_spec]
        congr 1
        subst hr0
        apply (compare_cross _ _ _ _ hT (Nat.mul_pos hdv hT) _).symm
        ring
    · have hst : quoSt c neg q rem divisor (shift + a) = (q * 10 + 1, (-1 : Int), {}) := by
        simp [quoSt, hr0, hreg']
      rw [hst] at hns ⊢
      have hnd10 : ndigits (q * 10 + 1) = c.prec + 1 := by
        apply ndigits_unique _ _ (by omega)
        · have : c.prec + 1 - 1 = (c.prec - 1) + 1 := by omega
          rw [this, Nat.pow_succ]; omega
        · rw [Nat.pow_succ]; omega
      refine sub_finish c hc neg shift a X Y hX ha hreg' (q * 10 + 1) (k + 1) (q / 10 ^ k)
        (rem + divisor * (q % 10 ^ k)) (divisor * 10 ^ k) (-1) (by omega) (by push_cast; omega) (by omega)
        (by rw [hnd10]; push_cast; omega) (sticky_div q k) hnlt ?_ ?_ hround hns
      · rw [sticky_mod]
        constructor <;> intro h <;> omega
      · rw [shouldAddOne_eq_spec, sticky_mod]
        congr 1
        exact sticky_cmp divisor rem (q % 10 ^ k) k hk1 (Nat.mod_lt _ hT) (by omega) hrem


theorem quo_cross (P X Y : Nat) (hP : 1 ≤ P) (hX : 0 < X) (hY : 0 < Y) (k : Nat) :
    qDividend P X Y * Dt Y (-(qAdjCoeffs X Y) - ((P : Int) - 1) + k)
      = qDivisor X Y * 10 ^ k * Nt X (-(qAdjCoeffs X Y) - ((P : Int) - 1) + k) := by
  obtain ⟨s1, s2, s3, s4, s5⟩ := quo_scale X Y hX hY
  unfold qDividend
  have eP : ((P : Int) - 1).toNat = P - 1 := by omega
  rw [eP]
  generalize -(qAdjCoeffs X Y) = a at *
  have H1 := ratShift X Y (a - ((P : Int) - 1)) (P - 1)
  have e1 : a - ((P : Int) - 1) + ((P - 1 : Nat) : Int) = a := by omega
  rw [e1] at H1
  have H2 := ratShift X Y (a - ((P : Int) - 1)) k
  have hpos : 0 < Nt X (a - ((P : Int) - 1)) * Dt Y a :=
    Nat.mul_pos (Nt_pos X hX _) (Dt_pos Y hY _)
  apply Nat.eq_of_mul_eq_mul_right hpos
  generalize Nt X (a - ((P : Int) - 1)) = n0 at *
  generalize Dt Y (a - ((P : Int) - 1)) = d0 at *
  generalize Nt X (a - ((P : Int) - 1) + k) = nk at *
  generalize Dt Y (a - ((P : Int) - 1) + k) = dk at *
  generalize Nt X a = na at *
  generalize Dt Y a = da at *
  generalize qDividend1 X Y = d1 at *
  generalize qDivisor X Y = dv at *
  zify at H1 H2 s5 ⊢
  linear_combination ((d1 : Int) * 10 ^ (P - 1) * da) * H2 + ((10 : Int) ^ (P - 1) * nk * 10 ^ k * d0) * s5
    - ((dv : Int) * nk * 10 ^ k) * H1


end Apd.QuoL
