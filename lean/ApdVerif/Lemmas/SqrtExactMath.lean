import ApdVerif.Lemmas.SqrtExactRnd
/-!
# One round of the Sqrt loop with nearest roundings: absolute error analysis over `ℚ`
-/
namespace Apd.SqrtX
open Apd Apd.Oracle Apd.RatSpec Apd.C20L

theorem Rnd.adj_le {p : ℕ} {v w : ℚ} {a b : ℤ} (ha : IsAdj v a) (hv : v < (10 : ℚ) ^ (b + 1)) : a ≤ b := by
  have := lt_of_le_of_lt ha.1 hv
  rw [zpow_lt_zpow_iff_right₀ ten_gt] at this
  omega

/-- error bound from an upper bound of the value -/
theorem Rnd.err_le {p : ℕ} {v w : ℚ} (h : Rnd p v w) {b : ℤ} (hv : v < (10 : ℚ) ^ (b + 1)) :
    |w - v| ≤ (10 : ℚ) ^ (b - (p : ℤ) + 1) / 2 := by
  obtain ⟨a, ha, -, he, -⟩ := h
  have hab : a ≤ b := Rnd.adj_le (p := p) (w := w) ha hv
  have : (10 : ℚ) ^ (a - (p : ℤ) + 1) ≤ (10 : ℚ) ^ (b - (p : ℤ) + 1) :=
    zpow_le_zpow_right₀ ten_ge (by omega)
  linarith

/-- a value on a grid at least as coarse as the quantum is returned unchanged -/
theorem Rnd.exact {p : ℕ} {v w : ℚ} (h : Rnd p v w) {b z : ℤ} (hv : v < (10 : ℚ) ^ (b + 1))
    (k : ℤ) (hk : v = (k : ℚ) * (10 : ℚ) ^ z) (hz : b - (p : ℤ) + 1 ≤ z) : w = v := by
  obtain ⟨a, ha, -, -, hs⟩ := h
  have hab : a ≤ b := Rnd.adj_le (p := p) (w := w) ha hv
  have hQ := tp (a - (p : ℤ) + 1)
  obtain ⟨m, hm⟩ : ∃ m : ℕ, z = (a - (p : ℤ) + 1) + (m : ℤ) := ⟨(z - (a - (p : ℤ) + 1)).toNat, by omega⟩
  have e : v = ((k * 10 ^ m : ℤ) : ℚ) * (10 : ℚ) ^ (a - (p : ℤ) + 1) := by
    rw [hk, hm, zpow_add₀ ten_ne, zpow_natCast]; push_cast; ring
  have := hs (k * 10 ^ m) (by rw [← e, sub_self, abs_zero]; linarith)
  rw [this, ← e]

/-- snapping to a grid point when the decade of the value is known -/
theorem Rnd.snap {p : ℕ} {v w : ℚ} (h : Rnd p v w) {b z : ℤ} (hlo : (10 : ℚ) ^ b ≤ v)
    (hv : v < (10 : ℚ) ^ (b + 1)) (g : ℚ) (k : ℤ) (hk : g = (k : ℚ) * (10 : ℚ) ^ z)
    (hz : b - (p : ℤ) + 1 ≤ z) (hg : |v - g| < (10 : ℚ) ^ (b - (p : ℤ) + 1) / 2) : w = g := by
  obtain ⟨a, ha, -, -, hs⟩ := h
  have hab : a = b := IsAdj_unique ha ⟨hlo, hv⟩
  subst hab
  obtain ⟨m, hm⟩ : ∃ m : ℕ, z = (a - (p : ℤ) + 1) + (m : ℤ) := ⟨(z - (a - (p : ℤ) + 1)).toNat, by omega⟩
  have e : g = ((k * 10 ^ m : ℤ) : ℚ) * (10 : ℚ) ^ (a - (p : ℤ) + 1) := by
    rw [hk, hm, zpow_add₀ ten_ne, zpow_natCast]; push_cast; ring
  have := hs (k * 10 ^ m) (by rw [← e]; exact hg)
  rw [this, ← e]

/-- the rounded value is a multiple of the quantum of any lower decade -/
theorem Rnd.mult {p : ℕ} {v w : ℚ} (h : Rnd p v w) {b : ℤ} (hlo : (10 : ℚ) ^ b ≤ v) :
    ∃ n : ℤ, w = (n : ℚ) * (10 : ℚ) ^ (b - (p : ℤ) + 1) := by
  obtain ⟨a, ha, ⟨n, hn⟩, -, -⟩ := h
  have hba : b ≤ a := by
    have := lt_of_le_of_lt hlo ha.2
    rw [zpow_lt_zpow_iff_right₀ ten_gt] at this
    omega
  obtain ⟨m, hm⟩ : ∃ m : ℕ, a - (p : ℤ) + 1 = (b - (p : ℤ) + 1) + (m : ℤ) := ⟨(a - b).toNat, by omega⟩
  refine ⟨n * 10 ^ m, ?_⟩
  rw [hn, hm, zpow_add₀ ten_ne, zpow_natCast]; push_cast; ring

/-! ## the three roundings of one round -/

theorem q1 (p : ℕ) : (10 : ℚ) ^ ((-1 : ℤ) - (p : ℤ) + 1) = (10 : ℚ) ^ (-(p : ℤ)) := by
  congr 1; ring
theorem q0 (p : ℕ) : (10 : ℚ) ^ ((0 : ℤ) - (p : ℤ) + 1) = 10 * (10 : ℚ) ^ (-(p : ℤ)) := by
  rw [show (0 : ℤ) - (p : ℤ) + 1 = 1 + (-(p : ℤ)) by ring, zpow_add₀ ten_ne]; norm_num
theorem q2 (p : ℕ) : (10 : ℚ) ^ ((-2 : ℤ) - (p : ℤ) + 1) = (10 : ℚ) ^ (-(p : ℤ)) / 10 := by
  rw [show (-2 : ℤ) - (p : ℤ) + 1 = -1 + (-(p : ℤ)) by ring, zpow_add₀ ten_ne]; norm_num; ring

theorem Rnd.err1 {p : ℕ} {v w : ℚ} (h : Rnd p v w) (hv : v < 1) : |w - v| ≤ (10 : ℚ) ^ (-(p : ℤ)) / 2 := by
  have := h.err_le (b := -1) (by norm_num; exact hv)
  rwa [q1] at this
theorem Rnd.err10 {p : ℕ} {v w : ℚ} (h : Rnd p v w) (hv : v < 10) : |w - v| ≤ 5 * (10 : ℚ) ^ (-(p : ℤ)) := by
  have := h.err_le (b := 0) (by norm_num; exact hv)
  rw [q0] at this; linarith
theorem Rnd.err01 {p : ℕ} {v w : ℚ} (h : Rnd p v w) (hv : v < 1 / 10) : |w - v| ≤ (10 : ℚ) ^ (-(p : ℤ)) / 20 := by
  have := h.err_le (b := -2) (by norm_num; linarith)
  rw [q2] at this; linarith

theorem newton_id (r A : ℚ) (hA : A ≠ 0) : r ^ 2 / A + A - 2 * r = (A - r) ^ 2 / A := by
  field_simp; ring

theorem round_split (r A qh sh A' : ℚ) (hA : A ≠ 0) :
    A' - r = ((A - r) ^ 2 / A + (qh - r ^ 2 / A) + (sh - (qh + A))) / 2 + (A' - sh * (1 / 2)) := by
  rw [← newton_id r A hA]; ring

/-- the Newton term under the invariant of `SqrtI.Inv` -/
theorem theta_inv (r A : ℚ) (hr : 0 < r) (h1 : 9 / 10 * r ≤ A) (h2 : A ≤ 11 / 10 * r) :
    (A - r) ^ 2 / A ≤ r / 90 := by
  have hA : 0 < A := by linarith
  rw [div_le_iff₀ hA]
  nlinarith [mul_nonneg (sub_nonneg.2 h1) (sub_nonneg.2 h2)]

theorem theta_nonneg (r A : ℚ) (hA : 0 < A) : 0 ≤ (A - r) ^ 2 / A := by positivity

/-- the roundings of one round at precision `p` from the iterate `A`, `F = r²` -/
structure Rd (p : ℕ) (r A qh sh A' : ℚ) : Prop where
  rq : Rnd p (r ^ 2 / A) qh
  rs : Rnd p (qh + A) sh
  rh : Rnd p (sh * (1 / 2)) A'

/-- the quotient is below `r / 0.9` -/
theorem quo_le (r A : ℚ) (hr : 0 < r) (h1 : 9 / 10 * r ≤ A) : r ^ 2 / A ≤ 10 / 9 * r := by
  have hA : 0 < A := by linarith
  rw [div_le_iff₀ hA]; nlinarith

theorem err_c10 {p : ℕ} {r A qh sh A' : ℚ} (h : Rd p r A qh sh A') (hr1 : 1 / 10 ≤ r) (hr2 : r < 1)
    (hA1 : 9 / 10 * r ≤ A) (hA2 : A ≤ 11 / 10 * r) (hu0 : 0 < (10 : ℚ) ^ (-(p : ℤ)))
    (hu : (10 : ℚ) ^ (-(p : ℤ)) ≤ 1 / 10000) :
    |A' - r| ≤ (A - r) ^ 2 / A / 2 + 41 / 4 * (10 : ℚ) ^ (-(p : ℤ)) := by
  have hA : 0 < A := by linarith
  have hq := quo_le r A (by linarith) hA1
  have e1 := h.rq.err10 (by linarith)
  obtain ⟨e1a, e1b⟩ := abs_le.1 e1
  have e2 := h.rs.err10 (by linarith)
  obtain ⟨e2a, e2b⟩ := abs_le.1 e2
  have e3 := h.rh.err10 (by linarith)
  obtain ⟨e3a, e3b⟩ := abs_le.1 e3
  rw [round_split r A qh sh A' hA.ne', abs_le]
  constructor <;> nlinarith [theta_nonneg r A hA]

theorem err_c3 {p : ℕ} {r A qh sh A' : ℚ} (h : Rd p r A qh sh A') (hr1 : 1 / 10 ≤ r) (hr2 : r ≤ 89 / 100)
    (hA1 : 9 / 10 * r ≤ A) (hA2 : A ≤ 11 / 10 * r) (hu0 : 0 < (10 : ℚ) ^ (-(p : ℤ)))
    (hu : (10 : ℚ) ^ (-(p : ℤ)) ≤ 1 / 10000) :
    |A' - r| ≤ (A - r) ^ 2 / A / 2 + 13 / 4 * (10 : ℚ) ^ (-(p : ℤ)) := by
  have hA : 0 < A := by linarith
  have hq := quo_le r A (by linarith) hA1
  have hth := theta_inv r A (by linarith) hA1 hA2
  have hid := newton_id r A hA.ne'
  have e1 := h.rq.err1 (by linarith)
  obtain ⟨e1a, e1b⟩ := abs_le.1 e1
  have e2 := h.rs.err10 (by linarith)
  obtain ⟨e2a, e2b⟩ := abs_le.1 e2
  have e3 := h.rh.err1 (by linarith)
  obtain ⟨e3a, e3b⟩ := abs_le.1 e3
  rw [round_split r A qh sh A' hA.ne', abs_le]
  constructor <;> nlinarith [theta_nonneg r A hA]

theorem err_c1 {p : ℕ} {r A qh sh A' : ℚ} (h : Rd p r A qh sh A') (hr1 : 1 / 10 ≤ r) (hr2 : r ≤ 89 / 100)
    (hA1 : 9 / 10 * r ≤ A) (hu0 : 0 < (10 : ℚ) ^ (-(p : ℤ)))
    (hu : (10 : ℚ) ^ (-(p : ℤ)) ≤ 1 / 10000)
    (hs : 2 * r + (A - r) ^ 2 / A + (10 : ℚ) ^ (-(p : ℤ)) / 2 < 1) :
    |A' - r| ≤ (A - r) ^ 2 / A / 2 + (10 : ℚ) ^ (-(p : ℤ)) := by
  have hA : 0 < A := by linarith
  have hq := quo_le r A (by linarith) hA1
  have hid := newton_id r A hA.ne'
  have e1 := h.rq.err1 (by linarith)
  obtain ⟨e1a, e1b⟩ := abs_le.1 e1
  have e2 := h.rs.err1 (by linarith)
  obtain ⟨e2a, e2b⟩ := abs_le.1 e2
  have e3 := h.rh.err1 (by linarith)
  obtain ⟨e3a, e3b⟩ := abs_le.1 e3
  rw [round_split r A qh sh A' hA.ne', abs_le]
  constructor <;> nlinarith [theta_nonneg r A hA]

/-! ## helpers for the lock-in round -/

theorem theta_le (r A D κ v u : ℚ) (hr : 0 < r) (hκ : 0 < κ) (hA : κ * r ≤ A) (hD : 0 ≤ D) (hv : 0 ≤ v)
    (hd : |A - r| ≤ D * v) (hvu : v ^ 2 ≤ u / 100) :
    (A - r) ^ 2 / A ≤ D ^ 2 / (100 * κ * r) * u := by
  have hA0 : 0 < A := lt_of_lt_of_le (mul_pos hκ hr) hA
  have h1 : (A - r) ^ 2 ≤ (D * v) ^ 2 := by
    rw [← sq_abs (A - r)]
    exact pow_le_pow_left₀ (abs_nonneg _) hd 2
  have h2 : (D * v) ^ 2 ≤ D ^ 2 * (u / 100) := by
    rw [mul_pow]; exact mul_le_mul_of_nonneg_left hvu (sq_nonneg D)
  have hu0 : 0 ≤ u := by nlinarith [sq_nonneg v]
  rw [div_le_iff₀ hA0]
  have h3 : D ^ 2 / (100 * κ * r) * u * (κ * r) = D ^ 2 * (u / 100) := by
    field_simp
  have h4 : 0 ≤ D ^ 2 / (100 * κ * r) * u := by positivity
  calc (A - r) ^ 2 ≤ D ^ 2 * (u / 100) := le_trans h1 h2
    _ = D ^ 2 / (100 * κ * r) * u * (κ * r) := h3.symm
    _ ≤ D ^ 2 / (100 * κ * r) * u * A := mul_le_mul_of_nonneg_left hA h4

/-- two multiples of `u` closer than `u` are equal -/
theorem grid_eq (u : ℚ) (hu : 0 < u) (a b : ℤ) (h : |(a : ℚ) * u - (b : ℚ) * u| < u) : a = b := by
  rw [← sub_mul, abs_mul, abs_of_pos hu] at h
  have h1 : |((a - b : ℤ) : ℚ)| < 1 := by
    push_cast
    by_contra hc
    rw [not_lt] at hc
    have := mul_le_mul_of_nonneg_right hc hu.le
    linarith
  have h2 : |a - b| < 1 := by exact_mod_cast h1
  rw [abs_lt] at h2
  omega

/-- `10^(-g)` as a multiple of `10^(-p)` -/
theorem pow_split (g p : ℕ) (h : g ≤ p) :
    (10 : ℚ) ^ (-(g : ℤ)) = ((10 ^ (p - g) : ℤ) : ℚ) * (10 : ℚ) ^ (-(p : ℤ)) := by
  push_cast
  rw [← zpow_natCast, ← zpow_add₀ ten_ne]
  congr 1
  push_cast [Nat.cast_sub h]
  ring

/-- a decimal fraction `k·10^(-g)` below 1 is at most `1 - 10^(-g)` -/
theorem frac_le (g : ℕ) (k : ℤ) (h : (k : ℚ) * (10 : ℚ) ^ (-(g : ℤ)) < 1) :
    (k : ℚ) * (10 : ℚ) ^ (-(g : ℤ)) ≤ 1 - (10 : ℚ) ^ (-(g : ℤ)) := by
  have hG := tp (-(g : ℤ))
  have e1 : (1 : ℚ) = ((10 ^ g : ℤ) : ℚ) * (10 : ℚ) ^ (-(g : ℤ)) := by
    push_cast
    rw [← zpow_natCast, ← zpow_add₀ ten_ne]; simp
  have h1 : (k : ℚ) < ((10 ^ g : ℤ) : ℚ) := by
    by_contra hc
    rw [not_lt] at hc
    have := mul_le_mul_of_nonneg_right hc hG.le
    rw [← e1] at this
    linarith
  have h2 : k < 10 ^ g := by exact_mod_cast h1
  have h3 : (k : ℚ) ≤ ((10 ^ g - 1 : ℤ) : ℚ) := by exact_mod_cast (by omega : k ≤ 10 ^ g - 1)
  have := mul_le_mul_of_nonneg_right h3 hG.le
  push_cast at this e1
  rw [sub_mul, ← e1] at this
  linarith

/-! ## the lock-in round -/

theorem pow_gap (g p : ℕ) (h : g + 3 ≤ p) : (10 : ℚ) ^ (-(p : ℤ)) ≤ (10 : ℚ) ^ (-(g : ℤ)) / 1000 := by
  have h1 : (10 : ℚ) ^ (-(p : ℤ)) ≤ (10 : ℚ) ^ (-(g : ℤ) - 3) := zpow_le_zpow_right₀ ten_ge (by omega)
  have h2 : (10 : ℚ) ^ (-(g : ℤ) - 3) = (10 : ℚ) ^ (-(g : ℤ)) / 1000 := by
    rw [zpow_sub₀ ten_ne]; norm_num
  linarith

/-- in a round whose grid contains `r` and `2r`, from an iterate on the grid close enough to `r`, the rounded
sum is exactly `2r` -/
theorem lock_sum {p g : ℕ} {r A qh sh A' : ℚ} (h : Rd p r A qh sh A') (k : ℤ)
    (hk : r = (k : ℚ) * (10 : ℚ) ^ (-(g : ℤ))) (hg : g + 3 ≤ p) (hr1 : 1 / 10 ≤ r) (hr2 : r < 1)
    (m : ℤ) (hm : A = (m : ℚ) * (10 : ℚ) ^ (-(p : ℤ))) (hd : |A - r| ≤ (10 : ℚ) ^ (-(g : ℤ)) / 20)
    (hθ1 : r < 1 / 2 → (A - r) ^ 2 / A ≤ 2 / 5 * (10 : ℚ) ^ (-(p : ℤ)))
    (hθ2 : (A - r) ^ 2 / A ≤ 22 / 5 * (10 : ℚ) ^ (-(p : ℤ))) : sh = 2 * r := by
  have hu0 := tp (-(p : ℤ))
  have hG0 := tp (-(g : ℤ))
  have hGu := pow_gap g p hg
  have hG1 : (10 : ℚ) ^ (-(g : ℤ)) ≤ 1 := zpow_le_one_of_nonpos₀ ten_ge (by omega)
  obtain ⟨d1, d2⟩ := abs_le.1 hd
  have hr3 : r ≤ 1 - (10 : ℚ) ^ (-(g : ℤ)) := by rw [hk]; apply frac_le; rw [← hk]; exact hr2
  have hA : 0 < A := by linarith
  have hth0 := theta_nonneg r A hA
  have hid := newton_id r A hA.ne'
  -- the quotient is below 1
  have hq1 : r ^ 2 / A < 1 := by
    rw [div_lt_one hA]; nlinarith
  have e1 := h.rq.err1 hq1
  obtain ⟨e1a, e1b⟩ := abs_le.1 e1
  -- 2r on the grids
  have h2r : 2 * r = ((2 * k : ℤ) : ℚ) * (10 : ℚ) ^ (-(g : ℤ)) := by rw [hk]; push_cast; ring
  have h2ru : 2 * r = ((2 * k * 10 ^ (p - g) : ℤ) : ℚ) * (10 : ℚ) ^ (-(p : ℤ)) := by
    rw [h2r, pow_split g p (by omega)]; push_cast; ring
  by_cases hq01 : r ^ 2 / A < 1 / 10
  · -- only possible for r < 1/2
    have hrs : r < 1 / 2 := by
      by_contra hc; rw [not_lt] at hc
      have : 1 / 10 ≤ r ^ 2 / A := by rw [le_div_iff₀ hA]; nlinarith
      linarith
    have e1' := h.rq.err01 hq01
    obtain ⟨f1, f2⟩ := abs_le.1 e1'
    have hθ := hθ1 hrs
    have hr4 : 2 * r ≤ 1 - (10 : ℚ) ^ (-(g : ℤ)) := by
      rw [h2r]; apply frac_le; rw [← h2r]; linarith
    apply h.rs.snap (b := -1) (z := -(g : ℤ)) (by norm_num; linarith) (by norm_num; linarith) _ _ h2r (by omega)
    rw [q1, abs_lt]
    constructor <;> linarith
  · rw [not_lt] at hq01
    obtain ⟨n, hn⟩ := h.rq.mult (b := -1) (by norm_num; linarith)
    rw [q1] at hn
    have hs : qh + A = ((n + m : ℤ) : ℚ) * (10 : ℚ) ^ (-(p : ℤ)) := by rw [hn, hm]; push_cast; ring
    by_cases hs1 : qh + A < 1
    · -- the sum is exactly 2r
      have hclose : |qh + A - 2 * r| < (10 : ℚ) ^ (-(p : ℤ)) := by
        rw [abs_lt]
        by_cases hrs : r < 1 / 2
        · have hθ := hθ1 hrs
          constructor <;> linarith
        · rw [not_lt] at hrs
          constructor <;> linarith
      rw [hs, h2ru] at hclose
      have := grid_eq _ hu0 _ _ hclose
      have hs2 : qh + A = 2 * r := by rw [hs, h2ru, this]
      have := h.rs.exact (b := -1) (z := -(g : ℤ)) (by norm_num; exact hs1) (2 * k) (by rw [hs2, h2r]) (by omega)
      rw [this, hs2]
    · rw [not_lt] at hs1
      apply h.rs.snap (b := 0) (z := -(g : ℤ)) (by norm_num; exact hs1) (by norm_num; linarith) _ _ h2r (by omega)
      rw [q0, abs_lt]
      constructor <;> linarith

theorem lock {p g : ℕ} {r A qh sh A' : ℚ} (h : Rd p r A qh sh A') (k : ℤ)
    (hk : r = (k : ℚ) * (10 : ℚ) ^ (-(g : ℤ))) (hg : g + 3 ≤ p) (hr1 : 1 / 10 ≤ r) (hr2 : r < 1)
    (m : ℤ) (hm : A = (m : ℚ) * (10 : ℚ) ^ (-(p : ℤ))) (hd : |A - r| ≤ (10 : ℚ) ^ (-(g : ℤ)) / 20)
    (hθ1 : r < 1 / 2 → (A - r) ^ 2 / A ≤ 2 / 5 * (10 : ℚ) ^ (-(p : ℤ)))
    (hθ2 : (A - r) ^ 2 / A ≤ 22 / 5 * (10 : ℚ) ^ (-(p : ℤ))) : A' = r := by
  have hs := lock_sum h k hk hg hr1 hr2 m hm hd hθ1 hθ2
  have e : sh * (1 / 2) = r := by rw [hs]; ring
  have := h.rh.exact (b := -1) (z := -(g : ℤ)) (by norm_num; rw [e]; exact hr2) k (by rw [e]; exact hk) (by omega)
  rw [this, e]

end Apd.SqrtX
