import ApdVerif.Lemmas.C12IntervalLemmas
import Mathlib.Analysis.Complex.Exponential
import Mathlib.Tactic.FieldSimp
/-!
# Soundness of `expTaylor` / `expPoint` (C12)
-/
namespace Apd.C12IL
open Apd Apd.Oracle.Iv

theorem bv_ofInt (n : ℤ) : bv (BF.ofInt n) = (n : ℝ) := by simp [bv, BF.ofInt]

theorem enc_ofInt (n : ℤ) : Enc (I.ofInt n) (n : ℝ) := by
  unfold Enc I.ofInt I.point
  simp only [bv_ofInt]
  exact ⟨le_refl _, le_refl _⟩

theorem enc_one : Enc (I.ofInt 1) 1 := by simpa using enc_ofInt 1

theorem enc_point (x : BF) : Enc (I.point x) (bv x) := ⟨le_refl _, le_refl _⟩

theorem divNat_sound (W : Nat) (a : I) (n : Nat) (hn : 0 < n) (r : ℝ) (hr : Enc a r) :
    Enc (I.divNat W a n) (r / (n : ℝ)) := by
  unfold I.divNat
  have he : Enc (I.ofInt (n : ℤ)) ((n : ℤ) : ℝ) := enc_ofInt _
  have hpos : 0 < bv (I.ofInt (n : ℤ)).lo := by
    show 0 < bv (BF.ofInt (n : ℤ))
    rw [bv_ofInt]; exact_mod_cast hn
  have := divPos_sound W a _ r _ hr he hpos
  simpa using this

open Finset in
/-- invariant of the Horner loop -/
theorem horner_inv (W : Nat) (r : BF) :
    ∀ (i : Nat) (s : I) (y : ℝ), Enc s y →
      Enc (expTaylor.horner W (I.point r) i s)
        (∑ j ∈ range i, (bv r) ^ j / (j.factorial : ℝ) + (bv r) ^ i / (i.factorial : ℝ) * y) := by
  intro i
  induction i with
  | zero =>
    intro s y hs
    rw [expTaylor.horner.eq_1]
    simpa using hs
  | succ i ih =>
    intro s y hs
    rw [expTaylor.horner.eq_2]
    have m1 := mul_sound W (I.point r) s (bv r) y (enc_point r) hs
    have d1 := divNat_sound W _ (i + 1) (by omega) _ m1
    have a1 := add_sound W (I.ofInt 1) _ _ _ enc_one d1
    have e1 := ih _ _ a1
    convert e1 using 1
    rw [sum_range_succ, Nat.factorial_succ]
    have h1 : ((i.factorial : ℕ) : ℝ) ≠ 0 := by positivity
    have h2 : (((i + 1 : ℕ)) : ℝ) ≠ 0 := by positivity
    push_cast
    field_simp
    ring

theorem bv_absr (r : BF) : bv ⟨(r.m.natAbs : ℤ), r.e⟩ = |bv r| := by
  rw [← mag_eq_abs]; unfold bv mag; simp

/-- invariant of the `|r|^k / k!` loop -/
theorem powfact_inv (W : Nat) (r : BF) (k : Nat) :
    ∀ (i : Nat), i ≤ k → ∀ (t : BF) (T : ℝ), 0 ≤ T → T ≤ bv t →
      T * |bv r| ^ i / (k.descFactorial i : ℝ) ≤
        bv (expTaylor.powfact W k ⟨(r.m.natAbs : ℤ), r.e⟩ i t) := by
  intro i
  induction i with
  | zero =>
    intro _ t T hT0 hT
    rw [expTaylor.powfact.eq_1]
    simpa using hT
  | succ i ih =>
    intro hi t T hT0 hT
    rw [expTaylor.powfact.eq_2]
    have hne : (BF.ofInt ((k : ℤ) - (i : ℤ))).m ≠ 0 := by
      show (k : ℤ) - (i : ℤ) ≠ 0
      omega
    have hd := divDir_up W (mulDir W false t ⟨(r.m.natAbs : ℤ), r.e⟩) (BF.ofInt ((k : ℤ) - (i : ℤ))) hne
    have hm := mulDir_up W t ⟨(r.m.natAbs : ℤ), r.e⟩
    rw [bv_absr] at hm
    rw [bv_ofInt] at hd
    have hki : (0:ℝ) < (k : ℝ) - (i : ℝ) := by
      have : (i : ℝ) + 1 ≤ (k : ℝ) := by exact_mod_cast hi
      linarith
    rw [Int.cast_sub, Int.cast_natCast, Int.cast_natCast] at hd
    have habs : 0 ≤ |bv r| := abs_nonneg _
    have hT' : T * |bv r| / ((k : ℝ) - (i : ℝ)) ≤ bv (divDir W false (mulDir W false t ⟨(r.m.natAbs : ℤ), r.e⟩)
        (BF.ofInt ((k : ℤ) - (i : ℤ)))) := by
      refine le_trans ?_ hd
      apply div_le_div_of_nonneg_right _ hki.le
      exact le_trans (mul_le_mul_of_nonneg_right hT habs) hm
    have e1 := ih (by omega) _ _ (by positivity) hT'
    refine le_trans (le_of_eq ?_) e1
    rw [Nat.descFactorial_succ]
    have hD : ((k.descFactorial i : ℕ) : ℝ) ≠ 0 := by
      have := Nat.descFactorial_pos (n := k) (k := i) |>.2 (by omega)
      positivity
    have hc : ((k - i : ℕ) : ℝ) = (k : ℝ) - (i : ℝ) := by
      rw [Nat.cast_sub (by omega)]
    push_cast
    rw [hc]
    have := hki.ne'
    field_simp
    ring

theorem expTaylor_sound (W : Nat) (r : BF) (k : Nat) (hk : 1 ≤ k) (hx : |bv r| ≤ 1) :
    Enc (expTaylor W r k) (Real.exp (bv r)) := by
  unfold expTaylor
  simp only []
  -- the polynomial
  have s1 := horner_inv W r (k - 1) (I.ofInt 1) 1 enc_one
  generalize expTaylor.horner W (I.point r) (k - 1) (I.ofInt 1) = s at s1
  have hsum : ∑ j ∈ Finset.range (k - 1), (bv r) ^ j / (j.factorial : ℝ) +
      (bv r) ^ (k - 1) / ((k - 1).factorial : ℝ) * 1 =
      ∑ j ∈ Finset.range k, (bv r) ^ j / (j.factorial : ℝ) := by
    have : k = (k - 1) + 1 := by omega
    conv_rhs => rw [this, Finset.sum_range_succ]
    rw [mul_one]
  rw [hsum] at s1
  -- the remainder
  have t1 := powfact_inv W r k k (le_refl _) (BF.ofInt 1) 1 (by norm_num)
    (by rw [bv_ofInt]; norm_num)
  generalize expTaylor.powfact W k ⟨(r.m.natAbs : ℤ), r.e⟩ k (BF.ofInt 1) = t at t1
  rw [Nat.descFactorial_self, one_mul] at t1
  have w1 := mulDir_up W t (BF.ofInt 2)
  rw [bv_ofInt] at w1
  generalize mulDir W false t (BF.ofInt 2) = w at w1
  have hrem := Real.exp_bound hx (n := k) (by omega)
  have hk0 : (0:ℝ) < (k : ℝ) := by exact_mod_cast hk
  have hf0 : (0:ℝ) < (k.factorial : ℝ) := by exact_mod_cast Nat.factorial_pos k
  have hbound : |bv r| ^ k * ((k.succ : ℝ) / ((k.factorial : ℝ) * (k : ℝ))) ≤
      2 * (|bv r| ^ k / (k.factorial : ℝ)) := by
    have h1 : ((k.succ : ℝ) / ((k.factorial : ℝ) * (k : ℝ))) ≤ 2 / (k.factorial : ℝ) := by
      rw [div_le_div_iff₀ (by positivity) hf0]
      have : (k.succ : ℝ) = (k : ℝ) + 1 := by push_cast; ring
      rw [this]
      have : (1:ℝ) ≤ (k : ℝ) := by exact_mod_cast hk
      nlinarith
    calc |bv r| ^ k * ((k.succ : ℝ) / ((k.factorial : ℝ) * (k : ℝ)))
        ≤ |bv r| ^ k * (2 / (k.factorial : ℝ)) :=
          mul_le_mul_of_nonneg_left h1 (by positivity)
      _ = 2 * (|bv r| ^ k / (k.factorial : ℝ)) := by ring
  have hw : |Real.exp (bv r) - ∑ j ∈ Finset.range k, (bv r) ^ j / (j.factorial : ℝ)| ≤ bv w := by
    refine le_trans hrem (le_trans hbound ?_)
    push_cast at w1
    linarith
  obtain ⟨hw1, hw2⟩ := abs_le.1 hw
  unfold I.widen
  have ol := addDir_sound W s.lo w.neg
  have oh := addDir_sound W s.hi w
  rw [bv_neg] at ol
  refine ⟨?_, ?_⟩
  · show bv (addDir W true s.lo w.neg) ≤ _
    have := s1.1; linarith [ol.1]
  · show _ ≤ bv (addDir W false s.hi w)
    have := s1.2; linarith [oh.2]

/-! ## expPoint -/

theorem sq_inv (W : Nat) : ∀ (i : Nat) (s : I) (y : ℝ), Enc s y →
    Enc (expPoint.sq W i s) (y ^ (2 ^ i)) := by
  intro i
  induction i with
  | zero => intro s y hs; rw [expPoint.sq.eq_1]; simpa using hs
  | succ i ih =>
    intro s y hs
    rw [expPoint.sq.eq_2]
    have e1 := ih _ _ (mul_sound W s s y y hs hs)
    convert e1 using 1
    rw [pow_succ, pow_mul', ← pow_two]

theorem bv_halved (x : BF) (m : Nat) : bv ⟨x.m * 5 ^ m, x.e - m⟩ = bv x / 2 ^ m := by
  unfold bv
  simp only []
  rw [zpow_sub₀ h10, zpow_natCast]
  have h1 : ((10:ℝ) ^ m) = 2 ^ m * 5 ^ m := by rw [← mul_pow]; norm_num
  have h2 : ((2:ℝ) ^ m) ≠ 0 := by positivity
  have h5 : ((5:ℝ) ^ m) ≠ 0 := by positivity
  push_cast
  rw [h1]
  field_simp

theorem halvings_small (x : BF) (h0 : x.m ≠ 0) :
    |bv x| / 2 ^ (halvings x) ≤ 1 / 2 := by
  obtain ⟨_, hm⟩ := mag_bounds x h0 (fd x)
  rw [← mag_eq_abs]
  unfold halvings
  have hne : ¬ (x.m == 0) = true := by simpa using h0
  rw [if_neg hne]
  simp only []
  by_cases ha : x.adj < -3
  · rw [if_pos ha]
    simp only [pow_zero, div_one]
    refine le_trans hm.le ?_
    calc (10:ℝ) ^ (x.adj + 1) ≤ (10:ℝ) ^ (-1:ℤ) := zpow_le_zpow_right₀ (by norm_num) (by omega)
      _ ≤ 1 / 2 := by norm_num
  · rw [if_neg ha]
    have h2 : (0:ℝ) < 2 ^ (4 * (x.adj + 1) + 8).toNat := by positivity
    rw [div_le_iff₀ h2]
    refine le_trans hm.le ?_
    have e : ((2:ℝ) ^ (4 * (x.adj + 1) + 8).toNat) = (16:ℝ) ^ (x.adj + 3) := by
      rw [← zpow_natCast]
      have : (((4 * (x.adj + 1) + 8).toNat : ℕ) : ℤ) = 4 * (x.adj + 3) := by omega
      rw [this, zpow_mul]
      norm_num
    rw [e]
    have e16 : (16:ℝ) ^ (x.adj + 3) = 16 * (16:ℝ) ^ (x.adj + 2) := by
      rw [show x.adj + 3 = 1 + (x.adj + 2) by ring, zpow_add₀ (by norm_num), zpow_one]
    rw [e16]
    have hmain : (10:ℝ) ^ (x.adj + 1) ≤ (16:ℝ) ^ (x.adj + 2) := by
      by_cases hp : 0 ≤ x.adj + 1
      · calc (10:ℝ) ^ (x.adj + 1) ≤ (16:ℝ) ^ (x.adj + 1) :=
              zpow_le_zpow_left₀ hp (by norm_num) (by norm_num)
          _ ≤ (16:ℝ) ^ (x.adj + 2) := zpow_le_zpow_right₀ (by norm_num) (by omega)
      · by_cases hq : x.adj = -3
        · rw [hq]; norm_num
        · calc (10:ℝ) ^ (x.adj + 1) ≤ (10:ℝ) ^ (0:ℤ) := zpow_le_zpow_right₀ (by norm_num) (by omega)
            _ = (16:ℝ) ^ (0:ℤ) := by simp
            _ ≤ (16:ℝ) ^ (x.adj + 2) := zpow_le_zpow_right₀ (by norm_num) (by omega)
    linarith

theorem expPoint_sound (W : Nat) (x : BF) : Enc (expPoint W x) (Real.exp (bv x)) := by
  unfold expPoint
  by_cases h0 : x.m = 0
  · have : (x.m == 0) = true := by simpa using h0
    rw [if_pos this, bv_eq_zero_of_m x h0, Real.exp_zero]
    exact enc_one
  · have hne : ¬ (x.m == 0) = true := by simpa using h0
    rw [if_neg hne]
    simp only [ite_self]
    have hsmall : |bv (⟨x.m * 5 ^ halvings x, x.e - halvings x⟩ : BF)| ≤ 1 := by
      rw [bv_halved, abs_div, abs_of_pos (by positivity : (0:ℝ) < 2 ^ halvings x)]
      have := halvings_small x h0
      linarith
    have t1 := expTaylor_sound W ⟨x.m * 5 ^ halvings x, x.e - halvings x⟩
      (taylorTerms W 8 + 1) (by omega) hsmall
    have e1 := sq_inv W (halvings x) _ _ t1
    convert e1 using 1
    rw [← Real.exp_nat_mul, bv_halved]
    congr 1
    push_cast
    field_simp

end Apd.C12IL
