import ApdVerif.Props.RoundCore
import ApdVerif.Props.C08
import ApdVerif.Model.Dispatch
import ApdVerif.Lemmas.C03Lemmas
import Mathlib.Tactic.SplitIfs
/-!
# Lemmas for `Props/TransLog.lean`: the shape of every outcome of Exp, Ln, Log10, Pow on the tape model
-/
namespace Apd.TL
open Apd Apd.Oracle Apd.Spec Cond Apd.C03L

/-! ## flags -/

@[simp] theorem tor_sysOverflow (a b : Cond) : (a ||| b).sysOverflow = (a.sysOverflow || b.sysOverflow) := rfl
@[simp] theorem tor_sysUnderflow (a b : Cond) : (a ||| b).sysUnderflow = (a.sysUnderflow || b.sysUnderflow) := rfl
@[simp] theorem tor_inexact (a b : Cond) : (a ||| b).inexact = (a.inexact || b.inexact) := rfl
@[simp] theorem tor_rounded (a b : Cond) : (a ||| b).rounded = (a.rounded || b.rounded) := rfl

theorem noSys_or_iff (a b : Cond) : NoSys (a ||| b) ↔ NoSys a ∧ NoSys b := by
  simp only [NoSys, tor_sysOverflow, tor_sysUnderflow, Bool.or_eq_false_iff]
  constructor
  · rintro ⟨⟨h1, h2⟩, h3, h4⟩; exact ⟨⟨h1, h3⟩, h2, h4⟩
  · rintro ⟨⟨h1, h3⟩, h2, h4⟩; exact ⟨⟨h1, h2⟩, h3, h4⟩

theorem empty_and_any (t : Cond) : (({} : Cond) &&& t).any = false := by
  show (Cond.and {} t).any = false
  simp [Cond.and, Cond.any]

/-- a delivered outcome whose error is `goError` of its flags raised no system-limit condition -/
theorem noSys_of_deliv (t fl : Cond) (h : goError t fl = .none ∨ goError t fl = .trap) : NoSys fl :=
  noSys_of_delivered t fl h

/-! ## `fits` -/

theorem fits_nonfinite (c : Ctx) (d : Dec) (h : d.form ≠ .finite) : fits c d = true := by
  unfold fits
  cases hf : d.form <;> simp_all

theorem fits_congr (c c' : Ctx) (hp : c'.prec = c.prec) (he : c'.emax = c.emax) (hm : c'.emin = c.emin) (d : Dec) :
    fits c' d = fits c d := by
  unfold fits
  rw [hp, he, hm]

theorem fits_neg (c : Ctx) (d : Dec) (b : Bool) : fits c { d with neg := b } = fits c d := rfl

/-- the result of `Context.round` fits, whatever the rounding mode, when no system limit was hit -/
theorem fits_ctxRound (c c' : Ctx) (hc : c.WF) (hp : c'.prec = c.prec) (he : c'.emax = c.emax) (hm : c'.emin = c.emin)
    (v : Dec) (h : NoSys (ctxRound c' v).2) : fits c (ctxRound c' v).1 = true := by
  have hc' : c'.WF := by
    unfold Ctx.WF at hc ⊢
    rw [hp, he, hm]; exact hc
  rw [← fits_congr c c' hp he hm]
  by_cases hv : v.form = .finite
  · exact (Props.C01_roundCore c' hc' v hv h).2.2
  · rw [ctxRound_nonfinite c' v hv]
    exact fits_nonfinite c' v hv

theorem fits_empty (c : Ctx) (hc : c.WF) : fits c {} = true := by
  obtain ⟨h1, h2, h3, h4, h5⟩ := hc
  simp [fits, ndigits_zero]
  omega

theorem fits_decOne (c : Ctx) (hc : c.WF) : fits c decOne = true := by
  obtain ⟨h1, h2, h3, h4, h5⟩ := hc
  simp [fits, decOne, ndigits_one]
  omega

theorem fits_zero_any (c : Ctx) (hc : c.WF) (n : Bool) (e : Int) (he : e ≤ c.emax) :
    fits c { form := .finite, neg := n, exp := e, coeff := 0 } = true := by
  obtain ⟨h1, h2, h3, h4, h5⟩ := hc
  simp [fits, ndigits_zero]
  omega

/-! ## outcome shapes -/

/-- internal failure: an error and an untouched destination -/
def Failed (o : Out) : Prop := ∃ e, e ≠ ErrKind.none ∧ o = failOut e

/-- a computed outcome: the error is the class of the returned flags -/
def Computed (c : Ctx) (P : Dec → Cond → Prop) (o : Out) : Prop :=
  ∃ d res, o = { d := d, fl := res, err := goError c.traps res } ∧ P d res

/-- a prologue outcome -/
def SpecialOK (c : Ctx) (o : Out) : Prop :=
  (o.err = goError c.traps o.fl ∨ (o.err ≠ .none ∧ o = failWith o.err)) ∧ (c.WF → fits c o.d = true)

theorem setAsNaN_ok (c : Ctx) (x : Dec) (y : Option Dec) (h : shouldSetAsNaN x y = true) :
    (setAsNaN c x y).err = goError c.traps (setAsNaN c x y).fl ∧ (setAsNaN c x y).d.form ≠ .finite := by
  obtain ⟨xf, xn, xe, xc⟩ := x
  cases y with
  | none =>
    cases xf <;> simp [shouldSetAsNaN, setAsNaN, Dec.isNaN, goError_zero] at h ⊢
  | some y =>
    obtain ⟨yf, yn, ye, yc⟩ := y
    cases xf <;> cases yf <;> simp [shouldSetAsNaN, setAsNaN, Dec.isNaN, goError_zero] at h ⊢

theorem special_setAsNaN (c : Ctx) (x : Dec) (y : Option Dec) (h : shouldSetAsNaN x y = true) :
    SpecialOK c (setAsNaN c x y) :=
  ⟨Or.inl (setAsNaN_ok c x y h).1, fun _ => fits_nonfinite c _ (setAsNaN_ok c x y h).2⟩

theorem special_invalidNaN (c : Ctx) : SpecialOK c (invalidNaN c) :=
  ⟨Or.inl rfl, fun _ => rfl⟩

theorem special_plain (c : Ctx) (d : Dec) (h : c.WF → fits c d = true) : SpecialOK c { d := d } :=
  ⟨Or.inl (goError_zero c.traps).symm, h⟩

theorem expSpecials_ok (c : Ctx) (x : Dec) (o : Out) (h : expSpecials c x = some o) : SpecialOK c o := by
  unfold expSpecials at h
  split_ifs at h with h1 h2 h3 h4 h5 <;> simp only [Option.some.injEq] at h <;> subst h
  · exact special_setAsNaN c x none h1
  · exact special_plain c _ (fun hc => fits_zero_any c hc _ 0 (by obtain ⟨h1, h2, _⟩ := hc; omega))
  · exact special_plain c _ (fun _ => rfl)
  · exact special_plain c _ (fits_decOne c)
  · exact ⟨Or.inr ⟨by simp [failWith], rfl⟩, fun hc => fits_empty c hc⟩

theorem logSpecials_ok (c : Ctx) (x : Dec) (o : Out) (h : logSpecials c x = some o) : SpecialOK c o := by
  unfold logSpecials at h
  split_ifs at h with h1 h2 h3 h4 h5 <;> simp only [Option.some.injEq] at h <;> subst h
  · exact special_setAsNaN c x none h1
  · exact special_invalidNaN c
  · exact special_plain c _ (fun _ => rfl)
  · exact special_plain c _ (fun _ => rfl)
  · exact special_plain c _ (fun hc => fits_zero_any c hc _ 0 (by obtain ⟨h1, h2, _⟩ := hc; omega))

theorem special_flag (c : Ctx) (d : Dec) (fl : Cond) (h : d.form ≠ .finite) :
    SpecialOK c { d := d, fl := fl, err := goError c.traps fl } :=
  ⟨Or.inl rfl, fun _ => fits_nonfinite c d h⟩

theorem powSpecials_ok (c : Ctx) (x y : Dec) (o : Out) (h : powSpecials c x y = some o) : SpecialOK c o := by
  unfold powSpecials at h
  simp only [] at h
  split_ifs at h <;> simp only [Option.some.injEq] at h <;> subst h
  all_goals first
    | exact special_setAsNaN c x (some y) (by assumption)
    | exact special_invalidNaN c
    | exact special_plain c _ (fun _ => rfl)
    | exact special_plain c _ (fits_decOne c)
    | exact special_plain c _ (fun hc => fits_zero_any c hc _ 0 (by obtain ⟨h1, h2, _⟩ := hc; omega))
    | exact special_plain c _ (fun hc => by
        have := fits_decOne c hc
        simpa [fits, decOne] using this)
    | exact special_flag c _ _ (by simp [decNaN])

/-! ## Exp -/

theorem failed_mk (e : ErrKind) (h : e ≠ .none) : Failed (failOut e) := ⟨e, h, rfl⟩

theorem failed_of_bne (e : ErrKind) (h : (e != ErrKind.none) = true) : Failed (failOut e) :=
  ⟨e, by simpa using h, rfl⟩

theorem failed_of_ed (e : ED) (h : e.failed = true) : Failed (failOut e.errOf) :=
  ⟨_, errOf_ne_of_failed e h, rfl⟩

theorem computed_mk (c : Ctx) (P : Dec → Cond → Prop) (d : Dec) (res : Cond) (h : P d res) :
    Computed c P { d := d, fl := res, err := goError c.traps res } := ⟨d, res, rfl, h⟩

/-- what a non-special delivered outcome of Exp satisfies -/
def ExpP (c : Ctx) (d : Dec) (res : Cond) : Prop :=
  res.inexact = true ∧ res.rounded = true ∧ (c.WF → NoSys res → fits c d = true)

macro "fin_some " h:ident : tactic =>
  `(tactic| (simp only [Option.some.injEq, Prod.mk.injEq] at $h:ident; have hfs := And.left $h; subst hfs))

theorem expT_shape (c : Ctx) (x : Dec) (tp r : Tape) (o : Out) (h : expT c x tp = some (o, r)) :
    expSpecials c x = some o ∨ (expSpecials c x = none ∧ (Failed o ∨ Computed c (ExpP c) o)) := by
  unfold expT at h
  split at h
  · rename_i o' hs
    simp only [Option.some.injEq, Prod.mk.injEq] at h
    rw [hs, h.1]; exact Or.inl rfl
  · rename_i hs
    refine Or.inr ⟨hs, ?_⟩
    split at h
    · rename_i tape0 cp0 tape1
      simp only [] at h
      generalize (if x.exp + (ndigits x.coeff : Int) < 0 then 0 else (x.exp + (ndigits x.coeff : Int)).toNat) = t at h
      -- the adjusted cp (one more when the float-derived cp is one too small) is just some number
      generalize (if (decide (cp0 < 999) && decide (x.absD.cmp { coeff := (cp0 + 1) * 23 } ≤ 0) &&
        decide (x.absD.cmp { coeff := cp0 * 23 } > 0)) = true then cp0 + 1 else cp0) = cp at h
      split at h
      · split at h
        · fin_some h
          refine Or.inr (computed_mk c (ExpP c) _ _ ⟨rfl, rfl, fun hc _ => ?_⟩)
          exact fits_zero_any c hc _ _ (by obtain ⟨h1, h2, h3, h4, h5⟩ := hc; omega)
        · fin_some h
          exact Or.inr (computed_mk c (ExpP c) _ _ ⟨rfl, rfl, fun _ _ => rfl⟩)
      · split at h
        · fin_some h
          exact Or.inr (computed_mk c (ExpP c) _ _ ⟨rfl, rfl, fun hc _ => fits_decOne c hc⟩)
        · split at h
          · rename_i hq
            fin_some h
            exact Or.inl (failed_of_bne _ hq)
          · split at h
            · split at h
              · fin_some h
                exact Or.inl (failed_mk _ (by simp))
              · split at h
                · rename_i hf
                  fin_some h
                  exact Or.inl (failed_of_ed _ hf)
                · split at h
                  · rename_i hq
                    fin_some h
                    exact Or.inl (failed_of_bne _ hq)
                  · fin_some h
                    refine Or.inr (computed_mk c (ExpP c) _ _ ⟨?_, ?_, fun hc hn => ?_⟩)
                    · simp [cInexact]
                    · simp [cRounded]
                    · rw [noSys_or_iff] at hn
                      exact fits_ctxRound c { c with mode := .halfEven } hc rfl rfl rfl _ hn.2
            · cases h
    · cases h

/-! ## Ln -/

theorem lnSeries_inl (eps tmp2 : Dec) : ∀ (fuel n : Nat) (e : ED) (tmp1 tmp3 : Dec) (e' : ED) (er : ErrKind),
    lnSeries eps tmp2 fuel n e tmp1 tmp3 = some (e', .inl er) → er ≠ .none := by
  intro fuel
  induction fuel with
  | zero => intro n e tmp1 tmp3 e' er h; simp [lnSeries] at h
  | succ fuel ih =>
    intro n e tmp1 tmp3 e' er h
    simp only [lnSeries] at h
    split at h
    · rename_i hf
      simp only [Option.some.injEq, Prod.mk.injEq, Sum.inl.injEq] at h
      rw [← h.2]
      exact errOf_ne_of_failed _ hf
    · split at h
      · simp at h
      · exact ih _ _ _ _ _ _ h

theorem loopDone_error (nc : Ctx) (prec : Int) (maxIter : Nat) (l : LoopSt) (z : Dec) (er : ErrKind)
    (h : loopDone nc prec maxIter l z = .error er) : er ≠ .none := by
  unfold loopDone at h
  simp only [] at h
  split_ifs at h with h1 <;> cases h
  · simpa using h1
  all_goals simp

theorem lnHalley_inl (nc : Ctx) (prec : Int) (maxIter : Nat) (z : Dec) :
    ∀ (fuel : Nat) (e : ED) (tmp1 : Dec) (l : LoopSt) (tape : Tape) (e' : ED) (er : ErrKind) (tape' : Tape),
    lnHalley nc prec maxIter z fuel e tmp1 l tape = some (e', .inl er, tape') → er ≠ .none := by
  intro fuel
  induction fuel with
  | zero => intro e tmp1 l tape e' er tape' h; simp [lnHalley] at h
  | succ fuel ih =>
    intro e tmp1 l tape e' er tape' h
    simp only [lnHalley] at h
    split at h
    · cases h
    · split at h
      · rename_i hl
        simp only [Option.some.injEq, Prod.mk.injEq, Sum.inl.injEq] at h
        rw [← h.2.1]
        exact loopDone_error _ _ _ _ _ _ hl
      · simp at h
      · split at h
        · rename_i hf
          simp only [Option.some.injEq, Prod.mk.injEq, Sum.inl.injEq] at h
          rw [← h.2.1]
          exact errOf_ne_of_failed _ hf
        · exact ih _ _ _ _ _ _ _ h

def LnP (c : Ctx) (d : Dec) (res : Cond) : Prop :=
  res.inexact = true ∧ res.rounded = true ∧ (c.WF → NoSys res → fits c d = true)

theorem lnT_shape (c : Ctx) (x : Dec) (tp r : Tape) (o : Out) (h : lnT c x tp = some (o, r)) :
    logSpecials c x = some o ∨ (logSpecials c x = none ∧ (Failed o ∨ Computed c (LnP c) o)) := by
  unfold lnT at h
  split at h
  · rename_i o' hs
    simp only [Option.some.injEq, Prod.mk.injEq] at h
    rw [hs, h.1]; exact Or.inl rfl
  · rename_i hs
    refine Or.inr ⟨hs, ?_⟩
    simp only [] at h
    split at h
    · cases h
    · rename_i ed z tmp1 resAdjust series tape hpre
      clear hpre
      split at h
      · cases h
      · rename_i e' er tape' hbody
        fin_some h
        refine Or.inl (failed_mk _ ?_)
        split at hbody
        · split at hbody
          · cases hbody
          · rename_i e2 r2 hser
            simp only [Option.some.injEq, Prod.mk.injEq] at hbody
            rw [hbody.2.1] at hser
            exact lnSeries_inl _ _ _ _ _ _ _ _ _ hser
        · exact lnHalley_inl _ _ _ _ _ _ _ _ _ _ _ _ hbody
      · rename_i ed' tmp1' tape' hbody
        clear hbody
        split at h
        · rename_i hf
          fin_some h
          exact Or.inl (failed_of_ed _ hf)
        · fin_some h
          refine Or.inr (computed_mk c (LnP c) _ _ ⟨?_, ?_, fun hc hn => ?_⟩)
          · simp [cInexact]
          · simp [cRounded]
          · rw [noSys_or_iff, noSys_or_iff] at hn
            exact fits_ctxRound c c hc rfl rfl rfl _ hn.1.1

/-! ## Log10 -/

def FitP (c : Ctx) (d : Dec) (res : Cond) : Prop := c.WF → NoSys res → fits c d = true

theorem log10T_shape (c : Ctx) (x : Dec) (tp r : Tape) (o : Out) (h : log10T c x tp = some (o, r)) :
    logSpecials c x = some o ∨ (logSpecials c x = none ∧ (Failed o ∨ Computed c (LnP c) o)) := by
  unfold log10T at h
  split at h
  · rename_i o' hs
    simp only [Option.some.injEq, Prod.mk.injEq] at h
    rw [hs, h.1]; exact Or.inl rfl
  · rename_i hs
    refine Or.inr ⟨hs, ?_⟩
    simp only [] at h
    split at h
    · cases h
    · rename_i l tape hl
      clear hl
      split at h
      · rename_i hq
        fin_some h
        exact Or.inl (failed_of_bne _ hq)
      · split at h
        · rename_i hq
          fin_some h
          exact Or.inl (failed_of_bne _ hq)
        · fin_some h
          refine Or.inr (computed_mk c (LnP c) _ _ ⟨?_, ?_, fun hc hn => ?_⟩)
          · simp [cInexact]
          · simp [cRounded]
          · rw [noSys_or_iff] at hn
            exact fits_ctxRound c c hc rfl rfl rfl _ hn.2

/-! ## Pow -/

theorem powIntOp_shape (c : Ctx) (x y : Dec) (o : Out) (h : powIntOp c x y = some o) :
    powSpecials c x y = some o ∨ o.err ≠ .none ∨ Computed c (FitP c) o := by
  unfold powIntOp at h
  split at h
  · rename_i o' hs
    rw [hs]; exact Or.inl h
  · dsimp only at h
    generalize (if c.prec < ndigits x.coeff then ndigits x.coeff else c.prec) = p at h
    generalize (if (quantizeCore c (modf y).1 0).1.neg then -(((quantizeCore c (modf y).1 0).1.coeff : Nat) : Int)
      else (((quantizeCore c (modf y).1 0).1.coeff : Nat) : Int)) = integ at h
    split at h
    · cases h
    · split at h
      · rename_i hq
        simp only [Option.some.injEq] at h
        subst h
        exact Or.inr (Or.inl (by simpa using hq))
      · simp only [Option.some.injEq] at h
        subst h
        refine Or.inr (Or.inr (computed_mk c (FitP c) _ _ (fun hc hn => ?_)))
        rw [noSys_or_iff] at hn
        exact fits_ctxRound c c hc rfl rfl rfl _ hn.2

theorem powT_shape (c : Ctx) (x y : Dec) (tp r : Tape) (o : Out) (h : powT c x y tp = some (o, r)) :
    powSpecials c x y = some o ∨ o.err ≠ .none ∨ Computed c (FitP c) o := by
  unfold powT at h
  split at h
  · rename_i o' hs
    simp only [Option.some.injEq, Prod.mk.injEq] at h
    rw [hs, h.1]; exact Or.inl rfl
  · dsimp only at h
    generalize (if c.prec < ndigits x.coeff then ndigits x.coeff else c.prec) = p at h
    generalize (if (quantizeCore c (modf y).1 0).1.neg then -(((quantizeCore c (modf y).1 0).1.coeff : Nat) : Int)
      else (((quantizeCore c (modf y).1 0).1.coeff : Nat) : Int)) = integ at h
    split at h
    · cases hp : powIntOp c x y with
      | none => rw [hp] at h; cases h
      | some o' =>
        rw [hp] at h
        simp only [Option.map_some, Option.some.injEq, Prod.mk.injEq] at h
        rw [← h.1]
        exact powIntOp_shape c x y o' hp
    · split at h
      · rename_i hq
        fin_some h
        exact Or.inr (Or.inl (by simpa using hq))
      · split at h
        · cases h
        · rename_i e2 tmp tape hs2
          clear hs2
          split at h
          · cases h
          · rename_i e4 tmp' tape' hs4
            clear hs4
            split at h
            · rename_i hf
              fin_some h
              exact Or.inr (Or.inl (errOf_ne_of_failed _ hf))
            · fin_some h
              refine Or.inr (Or.inr (computed_mk c (FitP c) _ _ (fun hc hn => ?_)))
              rw [noSys_or_iff, noSys_or_iff, noSys_or_iff] at hn
              have := fits_ctxRound c c hc rfl rfl rfl _ hn.1.1.2
              rw [← this]
              rfl

/-! ## consequences of the shapes -/

theorem nil_of_special {c : Ctx} {o : Out} (h : SpecialOK c o) (he : o.err = .none) : goError c.traps o.fl = .none := by
  rcases h.1 with h1 | ⟨h1, _⟩
  · rw [← h1]; exact he
  · exact absurd he h1

theorem err_of_special {c : Ctx} {o : Out} (h : SpecialOK c o) :
    o.err = goError c.traps o.fl ∨ o = failOut o.err := by
  rcases h.1 with h1 | ⟨_, h2⟩
  · exact Or.inl h1
  · exact Or.inr h2

theorem not_nil_of_failed {o : Out} (h : Failed o) : o.err ≠ .none := by
  obtain ⟨e, he, rfl⟩ := h
  exact he

theorem err_of_failed {o : Out} (h : Failed o) : o = failOut o.err := by
  obtain ⟨e, _, rfl⟩ := h
  rfl

theorem err_of_computed {c : Ctx} {P : Dec → Cond → Prop} {o : Out} (h : Computed c P o) :
    o.err = goError c.traps o.fl := by
  obtain ⟨d, res, rfl, _⟩ := h
  rfl

/-- an internal failure is never "delivered": its error is not nil, and it is not the trap of its (empty) flags -/
theorem not_deliv_of_failed {c : Ctx} {o : Out} (h : Failed o)
    (hd : o.err = .none ∨ (o.err = .trap ∧ (o.fl &&& c.traps).any = true)) : False := by
  obtain ⟨e, he, rfl⟩ := h
  rcases hd with hd | ⟨_, hd⟩
  · exact he hd
  · have : ((failOut e).fl &&& c.traps).any = false := empty_and_any c.traps
    rw [this] at hd; cases hd

theorem deliv_computed {c : Ctx} {P : Dec → Cond → Prop} {o : Out} (h : Computed c P o)
    (hd : o.err = .none ∨ (o.err = .trap ∧ (o.fl &&& c.traps).any = true)) :
    P o.d o.fl ∧ NoSys o.fl := by
  obtain ⟨d, res, rfl, hP⟩ := h
  refine ⟨hP, noSys_of_deliv c.traps res ?_⟩
  rcases hd with hd | ⟨hd, _⟩
  · exact Or.inl hd
  · exact Or.inr hd

end Apd.TL
