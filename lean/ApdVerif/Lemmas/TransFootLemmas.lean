import ApdVerif.Lemmas.FootLemmas
import ApdVerif.Imp.TransOps
/-!
# Footprints of the store-level programs of `Imp/TransOps.lean` (core Lean only)
-/
namespace Apd.Imp
open Apd Apd.Cond Prog

variable {R W : Cell → Prop}

/-- virtualising the cell `L` removes it from the footprint -/
theorem Foot_localize {α : Type} (L : Cell) {p : Prog α}
    (hp : Foot (fun c => R c ∨ c = L) (fun c => W c ∨ c = L) p) (v : Dec) : Foot R W (localize L p v) := by
  induction hp generalizing v with
  | ret a => exact .ret _
  | getForm c k hc _ ih =>
    simp only [localize]; split
    · exact ih _ _
    · next hne => exact .getForm _ _ (by rcases hc with (h | h) | (h | h) <;> first | exact Or.inl h | exact Or.inr h | exact absurd h hne) (fun f => ih f v)
  | getNeg c k hc _ ih =>
    simp only [localize]; split
    · exact ih _ _
    · next hne => exact .getNeg _ _ (by rcases hc with (h | h) | (h | h) <;> first | exact Or.inl h | exact Or.inr h | exact absurd h hne) (fun f => ih f v)
  | getExp c k hc _ ih =>
    simp only [localize]; split
    · exact ih _ _
    · next hne => exact .getExp _ _ (by rcases hc with (h | h) | (h | h) <;> first | exact Or.inl h | exact Or.inr h | exact absurd h hne) (fun f => ih f v)
  | getCoeff c k hc _ ih =>
    simp only [localize]; split
    · exact ih _ _
    · next hne => exact .getCoeff _ _ (by rcases hc with (h | h) | (h | h) <;> first | exact Or.inl h | exact Or.inr h | exact absurd h hne) (fun f => ih f v)
  | setForm c f p hc _ ih =>
    simp only [localize]; split
    · exact ih _
    · next hne => exact .setForm _ _ _ (hc.resolve_right hne) (ih v)
  | setNeg c f p hc _ ih =>
    simp only [localize]; split
    · exact ih _
    · next hne => exact .setNeg _ _ _ (hc.resolve_right hne) (ih v)
  | setExp c f p hc _ ih =>
    simp only [localize]; split
    · exact ih _
    · next hne => exact .setExp _ _ _ (hc.resolve_right hne) (ih v)
  | setCoeff c f p hc _ ih =>
    simp only [localize]; split
    · exact ih _
    · next hne => exact .setCoeff _ _ _ (hc.resolve_right hne) (ih v)

/-- operand pointers stay covered when the footprint grows by a local's address -/
theorem SrcOK.addLocal {s : Src} (L : Cell) (hs : SrcOK R W s) :
    SrcOK (fun c => R c ∨ c = L) (fun c => W c ∨ c = L) s :=
  fun c e => (hs c e).elim (fun h => Or.inl (Or.inl h)) (fun h => Or.inr (Or.inl h))

theorem SrcOK.local (L : Cell) : SrcOK (fun c => R c ∨ c = L) (fun c => W c ∨ c = L) (.cell L) :=
  fun c e => by cases e; exact Or.inr (Or.inr rfl)

/-- as `foot`, but sub-program lemmas are tried before `Foot.bind` (which would unfold a tail call) -/
macro "tfoot" : tactic =>
  `(tactic| repeat' (first
    | exact Foot.pure _
    | exact Foot.ret _
    | foot_call
    | apply Foot.bind
    | intro _
    | apply Foot.ite
    | (apply Foot_rdForm; foot_side)
    | (apply Foot_rdNeg; foot_side)
    | (apply Foot_rdExp; foot_side)
    | (apply Foot_rdCoeff; foot_side)
    | (apply Foot_wrForm; foot_side)
    | (apply Foot_wrNeg; foot_side)
    | (apply Foot_wrExp; foot_side)
    | (apply Foot_wrCoeff; foot_side)
    | split))

theorem Foot_snapP {s : Src} (hs : SrcOK R W s) : Foot R W (snapP s) := by unfold snapP; foot
macro_rules | `(tactic| foot_call) => `(tactic| (apply Foot_snapP; foot_side))

theorem Foot_retErr (fl : Cond) (e : ErrKind) : Foot R W (retErr fl e) := Foot.ret _
macro_rules | `(tactic| foot_call) => `(tactic| exact Foot_retErr _ _)

theorem Foot_rootSpecialsP {d : Cell} {x : Src} (hd : W d) (hx : SrcOK R W x) (c : Ctx) (f : Int) :
    Foot R W (rootSpecialsP c d x f) := by
  unfold rootSpecialsP; foot
macro_rules | `(tactic| foot_call) => `(tactic| (apply Foot_rootSpecialsP <;> foot_side))

theorem Foot_andFiniteP {d : Cell} (hd : W d) (b : Bool) : Foot R W (andFiniteP b d) := by
  unfold andFiniteP; foot
macro_rules | `(tactic| foot_call) => `(tactic| (apply Foot_andFiniteP; foot_side))

theorem Foot_sqrtSettleP {d : Cell} (hd : W d) (nc : Ctx) (a x : Dec) : Foot R W (sqrtSettleP nc d a x) := by
  unfold sqrtSettleP; foot
macro_rules | `(tactic| foot_call) => `(tactic| (apply Foot_sqrtSettleP; foot_side))

theorem Foot_sqrtSettleIfP {d : Cell} (hd : W d) (nc : Ctx) (a x : Dec) (res : Cond) :
    Foot R W (sqrtSettleIfP nc d a x res) := by
  unfold sqrtSettleIfP; foot
macro_rules | `(tactic| foot_call) => `(tactic| (apply Foot_sqrtSettleIfP; foot_side))

theorem Foot_sqrtExactP {d : Cell} (hd : W d) (nc : Ctx) (x : Dec) (res : Cond) :
    Foot R W (sqrtExactP nc d x res) := by
  unfold sqrtExactP; foot
macro_rules | `(tactic| foot_call) => `(tactic| (apply Foot_sqrtExactP; foot_side))

theorem Foot_sqrtFinishP {d : Cell} (hd : W d) (c : Ctx) (a : Dec) (e : Int) (f : Dec) :
    Foot R W (sqrtFinishP c d a e f) := by
  unfold sqrtFinishP; foot
macro_rules | `(tactic| foot_call) => `(tactic| (apply Foot_sqrtFinishP; foot_side))

theorem Foot_sqrtP {d : Cell} {x : Src} (hd : W d) (hx : SrcOK R W x) (c : Ctx) : Foot R W (sqrtP c d x) := by
  unfold sqrtP; foot

theorem Foot_edStepP (e : ED) (cur : Dec) {p : Ctx → Prog (Res × Dec)} (hp : ∀ cc, Foot R W (p cc)) :
    Foot R W (edStepP e cur p) := by
  unfold edStepP; foot; exact hp _

/-- `c.Mul(&z, x, y)` with the local `z` at the virtual address `L`; the operands are covered cells, constants or
the local itself -/
theorem Foot_mulLoc (cc : Ctx) (L : Cell) {x y : Src}
    (hx : SrcOK (fun c => R c ∨ c = L) (fun c => W c ∨ c = L) x)
    (hy : SrcOK (fun c => R c ∨ c = L) (fun c => W c ∨ c = L) y) (z : Dec) :
    Foot R W (localize L (mulP cc L x y) z) :=
  Foot_localize L (Foot_mulP (Or.inr rfl) hx hy cc) z

theorem Foot_cbrtCheckP {d : Cell} (hd : W d) (c : Ctx) (z0 z : Dec) (fl res : Cond) (err : ErrKind) :
    Foot R W (cbrtCheckP c d z0 z fl res err) := by
  have hdl : SrcOK (fun c => R c ∨ c = freshCell d d d) (fun c => W c ∨ c = freshCell d d d) (.cell d) :=
    (SrcOK.dest hd).addLocal _
  unfold cbrtCheckP
  apply Foot.bind
  · exact Foot_edStepP _ _ (fun cc => Foot_mulLoc cc _ hdl hdl _)
  · intro q1
    apply Foot.bind
    · exact Foot_edStepP _ _ (fun cc => Foot_mulLoc cc _ (SrcOK.local _) hdl _)
    · intro q2; foot
macro_rules | `(tactic| foot_call) => `(tactic| (apply Foot_cbrtCheckP; foot_side))

theorem Foot_cbrtFinishP {d : Cell} {x : Src} (hd : W d) (hx : SrcOK R W x) (c : Ctx) (neg : Bool) (z : Dec)
    (fl : Cond) : Foot R W (cbrtFinishP c d x neg z fl) := by
  unfold cbrtFinishP; tfoot
macro_rules | `(tactic| foot_call) => `(tactic| (apply Foot_cbrtFinishP <;> foot_side))

theorem Foot_cbrtP {d : Cell} {x : Src} (hd : W d) (hx : SrcOK R W x) (c : Ctx) : Foot R W (cbrtP c d x) := by
  unfold cbrtP; tfoot

/-! ## `integerPower`, `Exp` -/

theorem Foot_edStepCellP (e : ED) {p : Ctx → Prog Res} (hp : ∀ cc, Foot R W (p cc)) :
    Foot R W (edStepCellP e p) := by
  unfold edStepCellP; foot; exact hp _

theorem Foot_intPowLoopP {d : Cell} (hd : W d) (fuel : Nat) :
    ∀ (e : ED) (b : Nat) (n : Dec), Foot R W (intPowLoopP fuel e b d n) := by
  induction fuel with
  | zero => intro e b n; exact Foot.pure _
  | succ k ih =>
    intro e b n
    unfold intPowLoopP
    apply Foot.ite (Foot.pure _)
    apply Foot.bind
    · apply Foot.ite
      · exact Foot_edStepCellP _ (fun cc => Foot_mulP hd (SrcOK.dest hd) (SrcOK.const _) cc)
      · exact Foot.pure _
    · intro e1
      apply Foot.ite (Foot.pure _)
      exact ih _ _ _

theorem Foot_integerPowerP {d : Cell} {x : Src} (hd : W d) (hx : SrcOK R W x) (c : Ctx) (y : Int) :
    Foot R W (integerPowerP c d x y) := by
  unfold integerPowerP
  refine Foot.bind (Foot_snapP hx) (fun n => ?_)
  refine Foot.bind (Foot_setDec hd (SrcOK.const _)) (fun _ => ?_)
  refine Foot.bind (Foot_intPowLoopP hd _ _ _ _) (fun e => ?_)
  apply Foot.ite (Foot.pure _)
  apply Foot.bind
  · apply Foot.ite
    · exact Foot_edStepCellP _ (fun cc => Foot_quoP hd (SrcOK.const _) (SrcOK.dest hd) cc)
    · exact Foot.pure _
  · intro q; exact Foot.pure _
macro_rules | `(tactic| foot_call) => `(tactic| (apply Foot_integerPowerP <;> foot_side))

theorem Foot_setFiniteP {d : Cell} (hd : W d) (v e : Int) : Foot R W (setFiniteP d v e) := by
  unfold setFiniteP; foot
macro_rules | `(tactic| foot_call) => `(tactic| (apply Foot_setFiniteP; foot_side))

theorem Foot_retT (r : Res) (t : Tape) : Foot R W (retT r t) := Foot.ret _
macro_rules | `(tactic| foot_call) => `(tactic| exact Foot_retT _ _)

theorem Foot_expFinishP {d : Cell} (hd : W d) (c nc : Ctx) (sum : Dec) (t : Nat) :
    Foot R W (expFinishP c nc d sum t) := by
  unfold expFinishP; tfoot
macro_rules | `(tactic| foot_call) => `(tactic| (apply Foot_expFinishP; foot_side))

theorem Foot_expSeriesP {d : Cell} (hd : W d) (c nc : Ctx) (r : Dec) (t : Nat) (tape : Tape) :
    Foot R W (expSeriesP c nc d r t tape) := by
  unfold expSeriesP; tfoot
macro_rules | `(tactic| foot_call) => `(tactic| (apply Foot_expSeriesP; foot_side))

/-- `c.Quo(&r, x, y)` with the local `r` at the virtual address `L` -/
theorem Foot_quoLoc (cc : Ctx) (L : Cell) {x y : Src}
    (hx : SrcOK (fun c => R c ∨ c = L) (fun c => W c ∨ c = L) x)
    (hy : SrcOK (fun c => R c ∨ c = L) (fun c => W c ∨ c = L) y) (z : Dec) :
    Foot R W (localize L (quoP cc L x y) z) :=
  Foot_localize L (Foot_quoP (Or.inr rfl) hx hy cc) z

theorem Foot_expMainP {d : Cell} {x : Src} (hd : W d) (hx : SrcOK R W x) (c : Ctx) (ax : Dec) (cp : Nat)
    (tape : Tape) : Foot R W (expMainP c d x ax cp tape) := by
  unfold expMainP
  simp only []
  apply Foot.ite
  · tfoot
  apply Foot.ite
  · tfoot
  refine Foot.bind (Foot_rdExp hx) (fun xe => ?_)
  refine Foot.bind (Foot_numDigitsP hx) (fun nd => ?_)
  refine Foot.bind (Foot_quoLoc _ _ (hx.addLocal _) (SrcOK.const _) _) (fun qr => ?_)
  apply Foot.ite
  · exact Foot_retT _ _
  · exact Foot_expSeriesP hd _ _ _ _ _
macro_rules | `(tactic| foot_call) => `(tactic| (apply Foot_expMainP <;> foot_side))

theorem Foot_expP {d : Cell} {x : Src} (hd : W d) (hx : SrcOK R W x) (c : Ctx) (tape : Tape) :
    Foot R W (expP c d x tape) := by
  unfold expP; tfoot

/-! ## `Ln`, `Log10` -/

theorem Foot_logSpecialsP {d : Cell} {x : Src} (hd : W d) (hx : SrcOK R W x) (c : Ctx) :
    Foot R W (logSpecialsP c d x) := by
  unfold logSpecialsP; foot
macro_rules | `(tactic| foot_call) => `(tactic| (apply Foot_logSpecialsP <;> foot_side))

theorem Foot_lnFinishP {d : Cell} (hd : W d) (c : Ctx) (ed : ED) (t ra : Dec) :
    Foot R W (lnFinishP c d ed t ra) := by
  unfold lnFinishP; simp only []; tfoot
macro_rules | `(tactic| foot_call) => `(tactic| (apply Foot_lnFinishP; foot_side))

theorem Foot_lnP {d : Cell} {x : Src} (hd : W d) (hx : SrcOK R W x) (c : Ctx) (tape : Tape) :
    Foot R W (lnP c d x tape) := by
  unfold lnP; tfoot

theorem Foot_log10P {d : Cell} {x : Src} (hd : W d) (hx : SrcOK R W x) (c : Ctx) (tape : Tape) :
    Foot R W (log10P c d x tape) := by
  unfold log10P
  refine Foot.bind (Foot_logSpecialsP hd hx c) (fun sp => ?_)
  cases sp with
  | some r => exact Foot_retT _ _
  | none =>
    simp only []
    refine Foot.bind (Foot_localize _ (Foot_lnP (Or.inr rfl) (hx.addLocal _) _ tape) _) (fun lr => ?_)
    generalize lr.1 = l1
    cases l1 with
    | none => exact Foot.pure _
    | some lt =>
      obtain ⟨l, tp⟩ := lt
      simp only []
      apply Foot.ite (Foot_retT _ _)
      refine Foot.bind (Foot_mulP hd (SrcOK.const _) (SrcOK.const _) _) (fun m => ?_)
      apply Foot.ite (Foot_retT _ _)
      exact Foot.bind (Foot_roundP hd (SrcOK.dest hd) _ _) (fun rr => Foot_retT _ _)

/-! ## `Pow` -/

theorem Foot_modfLoc2 {y : Src} (hy : SrcOK R W y) : Foot R W (modfLoc2 y) := by unfold modfLoc2; tfoot
macro_rules | `(tactic| foot_call) => `(tactic| (apply Foot_modfLoc2; foot_side))

theorem Foot_powFracP {d : Cell} {x zs : Src} (hd : W d) (hx : SrcOK R W x) (hz : SrcOK R W zs) (c nc : Ctx)
    (frac tmp0 : Dec) (neg : Bool) (res : Cond) (tape : Tape) :
    Foot R W (powFracP c nc d x zs frac tmp0 neg res tape) := by
  unfold powFracP
  simp only []
  refine Foot.bind (Foot_edStepP _ _ (fun cc => Foot_localize _ (Foot_absP (Or.inr rfl) (hx.addLocal _) cc) _))
    (fun s1 => ?_)
  generalize powMid nc s1 frac tape = pm
  cases pm with
  | none => exact Foot.pure _
  | some r =>
    obtain ⟨e4, tmp, tp⟩ := r
    simp only []
    refine Foot.bind (Foot_edStepP _ _ (fun cc => Foot_mulLoc cc _ (hz.addLocal _) (SrcOK.local _) _)) (fun s5 => ?_)
    tfoot

theorem Foot_powRestP {d : Cell} {x zs : Src} (hd : W d) (hx : SrcOK R W x) (hz : SrcOK R W zs) (c nc : Ctx)
    (ip : Cond × ErrKind) (qfl : Cond) (frac tmp0 : Dec) (yi neg : Bool) (tape : Tape) :
    Foot R W (powRestP c nc d x zs ip qfl frac tmp0 yi neg tape) := by
  unfold powRestP
  simp only []
  apply Foot.ite
  · tfoot
  apply Foot.ite
  · tfoot
  · exact Foot_powFracP hd hx hz _ _ _ _ _ _ _

theorem Foot_powMainP {d : Cell} {x : Src} (hd : W d) (hx : SrcOK R W x) (c : Ctx) (i f t0 : Dec)
    (yi neg : Bool) (tape : Tape) : Foot R W (powMainP c d x i f t0 yi neg tape) := by
  unfold powMainP
  refine Foot.bind (Foot_numDigitsP hx) (fun nd => ?_)
  simp only []
  apply Foot.ite
  · refine Foot.bind (Foot_localize _ (Foot_integerPowerP (Or.inr rfl) (hx.addLocal _) _ _) _) (fun r => ?_)
    exact Foot_powRestP hd hx (SrcOK.const _) _ _ _ _ _ _ _ _ _
  · refine Foot.bind (Foot_integerPowerP hd hx _ _) (fun r => ?_)
    exact Foot_powRestP hd hx (SrcOK.dest hd) _ _ _ _ _ _ _ _ _
macro_rules | `(tactic| foot_call) => `(tactic| (apply Foot_powMainP <;> foot_side))

theorem Foot_powP {d : Cell} {x y : Src} (hd : W d) (hx : SrcOK R W x) (hy : SrcOK R W y) (c : Ctx) (tape : Tape) :
    Foot R W (powP c d x y tape) := by
  unfold powP; tfoot

end Apd.Imp
