import ApdVerif.Lemmas.LnAccSeries
/-!
# L1/L2 (series branch): the series argument `y = w/(w+2)`, `w = z - 1`, computed with three rounded operations
-/
namespace Apd.LnAcc
open Real Apd.ExpAcc Apd.C12IL

theorem abs_log_sub_le (p q m : ℝ) (hm : 0 < m) (hp : m ≤ p) (hq : m ≤ q) :
    |log p - log q| ≤ |p - q| / m := by
  have hp0 : 0 < p := lt_of_lt_of_le hm hp
  have hq0 : 0 < q := lt_of_lt_of_le hm hq
  rw [← Real.log_div hp0.ne' hq0.ne']
  have h1 : log (p / q) ≤ p / q - 1 := Real.log_le_sub_one_of_pos (div_pos hp0 hq0)
  have h2 : log (q / p) ≤ q / p - 1 := Real.log_le_sub_one_of_pos (div_pos hq0 hp0)
  have h3 : log (q / p) = - log (p / q) := by
    rw [Real.log_div hq0.ne' hp0.ne', Real.log_div hp0.ne' hq0.ne']; ring
  have e1 : p / q - 1 = (p - q) / q := by field_simp
  have e2 : q / p - 1 = (q - p) / p := by field_simp
  have b1 : (p - q) / q ≤ |p - q| / m := by
    calc (p - q) / q ≤ |p - q| / q := div_le_div_of_nonneg_right (le_abs_self _) hq0.le
      _ ≤ |p - q| / m := div_le_div_of_nonneg_left (abs_nonneg _) hm hq
  have b2 : (q - p) / p ≤ |p - q| / m := by
    calc (q - p) / p ≤ |p - q| / p := by
          apply div_le_div_of_nonneg_right _ hp0.le
          rw [abs_sub_comm]; exact le_abs_self _
      _ ≤ |p - q| / m := div_le_div_of_nonneg_left (abs_nonneg _) hm hp
  rw [abs_le]
  constructor <;> linarith

/-- `L2 = 2 atanh` is Lipschitz with constant `2/(1-τ)` on `[-τ, τ]` -/
theorem L2_lipschitz (a b τ : ℝ) (hτ : τ < 1) (ha : |a| ≤ τ) (hb : |b| ≤ τ) :
    |L2 a - L2 b| ≤ 2 * |a - b| / (1 - τ) := by
  obtain ⟨a1, a2⟩ := abs_le.1 ha
  obtain ⟨b1, b2⟩ := abs_le.1 hb
  have hm : 0 < 1 - τ := by linarith
  unfold L2
  have h1 := abs_log_sub_le (1 + a) (1 + b) (1 - τ) hm (by linarith) (by linarith)
  have h2 := abs_log_sub_le (1 - a) (1 - b) (1 - τ) hm (by linarith) (by linarith)
  have e1 : 1 + a - (1 + b) = a - b := by ring
  have e2 : 1 - a - (1 - b) = -(a - b) := by ring
  rw [e1] at h1
  rw [e2, abs_neg] at h2
  have : log (1 + a) - log (1 - a) - (log (1 + b) - log (1 - b)) =
      (log (1 + a) - log (1 + b)) - (log (1 - a) - log (1 - b)) := by ring
  rw [this]
  calc _ ≤ |log (1 + a) - log (1 + b)| + |log (1 - a) - log (1 - b)| := abs_sub _ _
    _ ≤ |a - b| / (1 - τ) + |a - b| / (1 - τ) := add_le_add h1 h2
    _ = _ := by ring

/-- `|log(1+t)| ≥ |t|/(1+|t|)`-type lower bound in the form needed: `|t| ≤ (1+|t|)·|log(1+t)|` for `t > -1` -/
theorem abs_le_log (t : ℝ) (ht : -1 < t) : |t| ≤ (1 + |t|) * |log (1 + t)| := by
  have hp : 0 < 1 + t := by linarith
  rcases le_total 0 t with h | h
  · -- log(1+t) ≥ t/(1+t)
    have h1 : log (1 / (1 + t)) ≤ 1 / (1 + t) - 1 := Real.log_le_sub_one_of_pos (by positivity)
    rw [Real.log_div one_ne_zero hp.ne', Real.log_one, zero_sub] at h1
    have e : 1 / (1 + t) - 1 = -(t / (1 + t)) := by field_simp; ring
    rw [e] at h1
    have h2 : t / (1 + t) ≤ log (1 + t) := by linarith
    have h3 : 0 ≤ log (1 + t) := Real.log_nonneg (by linarith)
    rw [abs_of_nonneg h, abs_of_nonneg h3]
    have := mul_le_mul_of_nonneg_left h2 hp.le
    rw [mul_div_cancel₀ _ hp.ne'] at this
    exact this
  · have h1 : log (1 + t) ≤ (1 + t) - 1 := Real.log_le_sub_one_of_pos hp
    have h3 : log (1 + t) ≤ 0 := Real.log_nonpos hp.le (by linarith)
    rw [abs_of_nonpos h, abs_of_nonpos h3]
    nlinarith

theorem arith_arg1 (u L : ℝ) (hu : 0 ≤ u) (hu1 : u ≤ 1 / 200) (hL : 0 ≤ L) :
    214 / 100 * u * ((1 + 1225 / 1000 * u) * L) + 1225 / 1000 * u * L ≤ 338 / 100 * u * L := by
  have hX : 0 ≤ u * L := mul_nonneg hu hL
  have hX2 : u * (u * L) ≤ 1 / 200 * (u * L) := mul_le_mul_of_nonneg_right hu1 hX
  nlinarith

theorem arith_arg2 (u L : ℝ) (hu : 0 ≤ u) (hu1 : u ≤ 1 / 200) (hL : 0 ≤ L) :
    L + 338 / 100 * u * L ≤ 1017 / 1000 * L := by
  have : u * L ≤ 1 / 200 * L := mul_le_mul_of_nonneg_right hu1 hL
  nlinarith

/-- the quotient `ŷ = w/((w+2)(1+δa))·(1+δq)` against `log(1+w)` -/
theorem series_arg_y (w t3 yh δa δq u : ℝ) (hu : 0 ≤ u) (hu1 : u ≤ 1 / 200)
    (hδa : |δa| ≤ u) (hδq : |δq| ≤ u)
    (ht3 : t3 = (w + 2) * (1 + δa)) (hyh : yh = w / t3 * (1 + δq)) (hw10 : |w| ≤ 1 / 10) :
    |yh| ≤ 1 / 18 ∧ |L2 yh - log (1 + w)| ≤ 214 / 100 * u * |log (1 + w)| := by
  obtain ⟨w1, w2⟩ := abs_le.1 hw10
  obtain ⟨da1, da2⟩ := abs_le.1 hδa
  obtain ⟨dq1, dq2⟩ := abs_le.1 hδq
  have hw2 : 0 < w + 2 := by linarith
  have hL0 : L2 (w / (w + 2)) = log (1 + w) := by
    have := log_eq_L2 (1 + w) (by linarith)
    rw [this]; congr 1
    have : 1 + w + 1 = w + 2 := by ring
    rw [this]; congr 1; ring
  have hy0_abs : |w / (w + 2)| ≤ 1 / 19 := by
    rw [abs_div, abs_of_pos hw2, div_le_iff₀ hw2]
    rcases le_total 0 w with h | h
    · rw [abs_of_nonneg h]; linarith
    · rw [abs_of_nonpos h]; linarith
  have h1a : 0 < 1 + δa := by linarith
  have hyh' : yh = w / (w + 2) * ((1 + δq) / (1 + δa)) := by
    rw [hyh, ht3]; field_simp
  have hr1 : |(1 + δq) / (1 + δa) - 1| ≤ 202 / 100 * u := by
    have e : (1 + δq) / (1 + δa) - 1 = (δq - δa) / (1 + δa) := by field_simp; ring
    rw [e, abs_div, abs_of_pos h1a, div_le_iff₀ h1a]
    have : |δq - δa| ≤ 2 * u := by
      calc |δq - δa| ≤ |δq| + |δa| := abs_sub _ _
        _ ≤ 2 * u := by linarith
    nlinarith
  have hr_abs : |(1 + δq) / (1 + δa)| ≤ 1 + 202 / 100 * u := by
    have : (1 + δq) / (1 + δa) = 1 + ((1 + δq) / (1 + δa) - 1) := by ring
    rw [this]
    calc |1 + ((1 + δq) / (1 + δa) - 1)| ≤ |(1 : ℝ)| + |(1 + δq) / (1 + δa) - 1| := abs_add_le _ _
      _ ≤ 1 + 202 / 100 * u := by rw [abs_one]; linarith
  have hyh_abs : |yh| ≤ 1 / 18 := by
    rw [hyh', abs_mul]
    calc |w / (w + 2)| * |(1 + δq) / (1 + δa)| ≤ (1 / 19) * (1 + 202 / 100 * u) :=
          mul_le_mul hy0_abs hr_abs (abs_nonneg _) (by norm_num)
      _ ≤ 1 / 18 := by nlinarith
  refine ⟨hyh_abs, ?_⟩
  have hlip := L2_lipschitz yh (w / (w + 2)) (1 / 18) (by norm_num) hyh_abs (by linarith)
  have hdiff : |yh - w / (w + 2)| ≤ |w / (w + 2)| * (202 / 100 * u) := by
    have : yh - w / (w + 2) = w / (w + 2) * ((1 + δq) / (1 + δa) - 1) := by rw [hyh']; ring
    rw [this, abs_mul]
    exact mul_le_mul_of_nonneg_left hr1 (abs_nonneg _)
  have hM0 := two_abs_le_L2 (w / (w + 2)) (by linarith)
  rw [hL0] at hlip hM0
  have e : 2 * |yh - w / (w + 2)| / (1 - 1 / 18) = 36 / 17 * |yh - w / (w + 2)| := by ring
  rw [e] at hlip
  have h3 : |w / (w + 2)| * (202 / 100 * u) ≤ (|log (1 + w)| / 2) * (202 / 100 * u) :=
    mul_le_mul_of_nonneg_right (by linarith) (by positivity)
  have hX : 0 ≤ u * |log (1 + w)| := mul_nonneg hu (abs_nonneg _)
  nlinarith

/-- the rounding of `w = z - 1` -/
theorem series_arg_w (zr w δw u : ℝ) (hu : 0 ≤ u) (hu1 : u ≤ 1 / 200) (hδw : |δw| ≤ u)
    (hw : w = (zr - 1) * (1 + δw)) (hw10 : |w| ≤ 1 / 10) :
    |log (1 + w) - log zr| ≤ 1225 / 1000 * u * |log zr| := by
  obtain ⟨w1, w2⟩ := abs_le.1 hw10
  obtain ⟨dw1, dw2⟩ := abs_le.1 hδw
  have hws_abs : |zr - 1| ≤ 1006 / 10000 := by
    have h1 : |w| = |zr - 1| * |1 + δw| := by rw [hw, abs_mul]
    have h2 : 1 - u ≤ |1 + δw| := by rw [abs_of_nonneg (by linarith)]; linarith
    have h3 : |zr - 1| * (1 - u) ≤ 1 / 10 := by
      calc |zr - 1| * (1 - u) ≤ |zr - 1| * |1 + δw| := mul_le_mul_of_nonneg_left h2 (abs_nonneg _)
        _ = |w| := h1.symm
        _ ≤ 1 / 10 := hw10
    nlinarith [abs_nonneg (zr - 1)]
  obtain ⟨s1, s2⟩ := abs_le.1 hws_abs
  have hzpos : 8994 / 10000 ≤ zr := by linarith
  have h1 := abs_log_sub_le (1 + w) zr (8994 / 10000) (by norm_num) (by linarith) hzpos
  have e : 1 + w - zr = (zr - 1) * δw := by rw [hw]; ring
  rw [e, abs_mul] at h1
  have h2 := abs_le_log (zr - 1) (by linarith)
  have ez : 1 + (zr - 1) = zr := by ring
  rw [ez] at h2
  have h3 : |zr - 1| ≤ 11006 / 10000 * |log zr| := by
    have : (1 + |zr - 1|) * |log zr| ≤ (1 + 1006 / 10000) * |log zr| :=
      mul_le_mul_of_nonneg_right (by linarith) (abs_nonneg _)
    linarith
  have h4 : |zr - 1| * |δw| ≤ (11006 / 10000 * |log zr|) * u :=
    mul_le_mul h3 hδw (abs_nonneg _) (by positivity)
  have h5 : |zr - 1| * |δw| / (8994 / 10000) ≤ 1225 / 1000 * u * |log zr| := by
    rw [div_le_iff₀ (by norm_num)]
    have hX : 0 ≤ u * |log zr| := mul_nonneg hu (abs_nonneg _)
    nlinarith
  linarith

/-- L1 (series branch): with `w = (z-1)(1+δw)`, `|w| ≤ 1/10`, `t3 = (w+2)(1+δa)`, `ŷ = w/t3·(1+δq)`:
`|ŷ| ≤ 1/18`, and `2 atanh ŷ` is within `3.38 u` (relative) of `ln z`. -/
theorem series_arg (zr w t3 yh δw δa δq u : ℝ) (hu : 0 ≤ u) (hu1 : u ≤ 1 / 200)
    (hδw : |δw| ≤ u) (hδa : |δa| ≤ u) (hδq : |δq| ≤ u)
    (hw : w = (zr - 1) * (1 + δw)) (ht3 : t3 = (w + 2) * (1 + δa)) (hyh : yh = w / t3 * (1 + δq))
    (hw10 : |w| ≤ 1 / 10) :
    |yh| ≤ 1 / 18 ∧ |L2 yh - log zr| ≤ 338 / 100 * u * |log zr| ∧ |L2 yh| ≤ 1017 / 1000 * |log zr| := by
  obtain ⟨hyh_abs, hA⟩ := series_arg_y w t3 yh δa δq u hu hu1 hδa hδq ht3 hyh hw10
  have hB := series_arg_w zr w δw u hu hu1 hδw hw hw10
  refine ⟨hyh_abs, ?_⟩
  have hlz := abs_nonneg (log zr)
  have hL0z : |log (1 + w)| ≤ (1 + 1225 / 1000 * u) * |log zr| := by
    have : log (1 + w) = log zr + (log (1 + w) - log zr) := by ring
    rw [this]
    calc |log zr + (log (1 + w) - log zr)| ≤ |log zr| + |log (1 + w) - log zr| := abs_add_le _ _
      _ ≤ |log zr| + 1225 / 1000 * u * |log zr| := by linarith
      _ = _ := by ring
  have hC : |L2 yh - log zr| ≤ 338 / 100 * u * |log zr| := by
    have : L2 yh - log zr = (L2 yh - log (1 + w)) + (log (1 + w) - log zr) := by ring
    rw [this]
    have h0 : (0 : ℝ) ≤ 214 / 100 * u := by positivity
    have hA' : |L2 yh - log (1 + w)| ≤ 214 / 100 * u * ((1 + 1225 / 1000 * u) * |log zr|) :=
      le_trans hA (mul_le_mul_of_nonneg_left hL0z h0)
    calc _ ≤ |L2 yh - log (1 + w)| + |log (1 + w) - log zr| := abs_add_le _ _
      _ ≤ 214 / 100 * u * ((1 + 1225 / 1000 * u) * |log zr|) + 1225 / 1000 * u * |log zr| := add_le_add hA' hB
      _ ≤ _ := arith_arg1 u _ hu hu1 hlz
  refine ⟨hC, ?_⟩
  have : L2 yh = log zr + (L2 yh - log zr) := by ring
  rw [this]
  calc |log zr + (L2 yh - log zr)| ≤ |log zr| + |L2 yh - log zr| := abs_add_le _ _
    _ ≤ |log zr| + 338 / 100 * u * |log zr| := by linarith
    _ ≤ _ := arith_arg2 u _ hu hu1 hlz

end Apd.LnAcc
