import ApdVerif.Lemmas.LnAccOps
import ApdVerif.Oracle.LnTapeOK
/-!
# The power-series loop `lnSeries` of `Ln` on the model
-/
namespace Apd.LnAcc
open Apd Apd.Oracle Apd.ExpAcc Apd.C12IL Cond

theorem lnSeries_succ (eps tmp2 : Dec) (fuel n : Nat) (e : ED) (tmp1 tmp3 : Dec) :
    lnSeries eps tmp2 (fuel + 1) n e tmp1 tmp3 =
      if (lR4 tmp2 n e tmp1 tmp3).1.failed then
        some ((lR4 tmp2 n e tmp1 tmp3).1, .inl (lR4 tmp2 n e tmp1 tmp3).1.errOf)
      else if (lR3 tmp2 n e tmp3).2.absD.cmp eps ≤ 0 then some ((lR4 tmp2 n e tmp1 tmp3).1, .inr (lR4 tmp2 n e tmp1 tmp3).2)
      else lnSeries eps tmp2 fuel (n + 1) (lR4 tmp2 n e tmp1 tmp3).1 (lR4 tmp2 n e tmp1 tmp3).2 (lR2 tmp2 e tmp3).2 := rfl

/-- one round on the model -/
theorem lnSeries_round (nc : Ctx) (hw : Wide nc) (hm : nc.mode = .halfEven) (hu : uR nc.prec < 1)
    (tmp2 : Dec) (h2f : tmp2.form = .finite) (h20 : rv tmp2 ≠ 0)
    (n : Nat) (e : ED) (hc : e.c = nc) (tmp1 tmp3 : Dec) (h1f : tmp1.form = .finite)
    (h3f : tmp3.form = .finite) (h30 : rv tmp3 ≠ 0)
    (hfail : (lR4 tmp2 n e tmp1 tmp3).1.failed = false) :
    (lR4 tmp2 n e tmp1 tmp3).1.c = nc ∧ (lR2 tmp2 e tmp3).2.form = .finite ∧
    (lR3 tmp2 n e tmp3).2.form = .finite ∧ (lR4 tmp2 n e tmp1 tmp3).2.form = .finite ∧
    ∃ α β γ ε : ℝ, |α| ≤ uR nc.prec ∧ |β| ≤ uR nc.prec ∧ |γ| ≤ uR nc.prec ∧ |ε| ≤ uR nc.prec ∧
      rv (lR2 tmp2 e tmp3).2 = rv tmp3 * rv tmp2 * (1 + α) * rv tmp2 * (1 + β) ∧
      rv (lR3 tmp2 n e tmp3).2 = rv (lR2 tmp2 e tmp3).2 / ((2 * n + 1 : ℕ) : ℝ) * (1 + γ) ∧
      rv (lR4 tmp2 n e tmp1 tmp3).2 = (rv tmp1 + rv (lR3 tmp2 n e tmp3).2) * (1 + ε) := by
  obtain ⟨f3, a4, v4, c4⟩ := step_ok _ _ _ hfail
  obtain ⟨f2, a3, v3, c3⟩ := step_ok _ _ _ f3
  obtain ⟨f1, a2, v2, c2⟩ := step_ok _ _ _ f2
  obtain ⟨_, a1, v1, c1⟩ := step_ok _ _ _ f1
  have C1 : (lR1 tmp2 e tmp3).1.c = nc := by rw [← hc]; exact c1
  have C2 : (lR2 tmp2 e tmp3).1.c = nc := by rw [← C1]; exact c2
  have C3 : (lR3 tmp2 n e tmp3).1.c = nc := by rw [← C2]; exact c3
  have C4 : (lR4 tmp2 n e tmp1 tmp3).1.c = nc := by rw [← C3]; exact c4
  simp only [hc] at a1 v1
  rw [C1] at a2 v2
  rw [C2] at a3 v3
  rw [C3] at a4 v4
  change (lR1 tmp2 e tmp3).2 = _ at v1
  change (lR2 tmp2 e tmp3).2 = _ at v2
  change (lR3 tmp2 n e tmp3).2 = _ at v3
  change (lR4 tmp2 n e tmp1 tmp3).2 = _ at v4
  -- first product
  have m1 := mul_rel nc hw hm tmp3 tmp2 h3f h2f h30 h20 a1
  rw [← v1] at m1
  obtain ⟨p1f, α, hα, p1v⟩ := m1
  have hα1 : 1 + α ≠ 0 := by have := abs_le.1 hα; intro h; linarith
  have p10 : rv (lR1 tmp2 e tmp3).2 ≠ 0 := by
    rw [p1v]; exact mul_ne_zero (mul_ne_zero h30 h20) hα1
  -- second product
  have m2 := mul_rel nc hw hm (lR1 tmp2 e tmp3).2 tmp2 p1f h2f p10 h20 a2
  rw [← v2] at m2
  obtain ⟨p2f, β, hβ, p2v⟩ := m2
  -- quotient
  have hdf : ({ coeff := 2 * n + 1 } : Dec).form = .finite := rfl
  have hdv : rv ({ coeff := 2 * n + 1 } : Dec) = ((2 * n + 1 : ℕ) : ℝ) := rv_natDec _
  have hd0 : rv ({ coeff := 2 * n + 1 } : Dec) ≠ 0 := by rw [hdv]; positivity
  have m3 := quo_rel_gen nc hw hm (lR2 tmp2 e tmp3).2 _ p2f hdf hd0 a3
  rw [← v3, hdv] at m3
  obtain ⟨p3f, γ, hγ, p3v⟩ := m3
  -- sum
  have m4 := add_rel_gen nc hw hm tmp1 (lR3 tmp2 n e tmp3).2 false h1f p3f a4
  rw [← v4] at m4
  obtain ⟨p4f, ε, hε, p4v⟩ := m4
  refine ⟨C4, p2f, p3f, p4f, α, β, γ, ε, hα, hβ, hγ, hε, ?_, p3v, ?_⟩
  · rw [p2v, p1v]
  · simpa using p4v

/-- `(2p+22)·v ≤ 1/5` for `p ≥ 3`: the accumulated relative error of a term stays small for all rounds the fuel allows -/
theorem budget_v (p : Nat) (hp : 3 ≤ p) : ((2 * p + 22 : ℕ) : ℝ) * (uR p / (1 - uR p)) ≤ 1 / 5 := by
  have hu1 := uR_small p hp
  have hu0 := uR_pos p
  have hv := (v_bounds (uR p) hu0.le hu1).2
  have key : ∀ q : ℕ, ((2 * (q + 3) + 22 : ℕ) : ℝ) * (5 / (10 : ℝ) ^ (q + 3)) ≤ 14 / 100 := by
    intro q
    induction q with
    | zero => norm_num
    | succ q ih =>
      have hpos : (0 : ℝ) < (10 : ℝ) ^ (q + 3) := by positivity
      have e : (10 : ℝ) ^ (q + 1 + 3) = 10 * (10 : ℝ) ^ (q + 3) := by rw [pow_succ]; ring
      rw [e]
      have : ((2 * (q + 1 + 3) + 22 : ℕ) : ℝ) * (5 / (10 * (10 : ℝ) ^ (q + 3))) ≤
          ((2 * (q + 3) + 22 : ℕ) : ℝ) * (5 / (10 : ℝ) ^ (q + 3)) := by
        rw [mul_div_assoc', mul_div_assoc', div_le_div_iff₀ (by positivity) hpos]
        push_cast
        have hq : (0 : ℝ) ≤ q := by positivity
        nlinarith
      linarith
  obtain ⟨q, rfl⟩ : ∃ q, p = q + 3 := ⟨p - 3, by omega⟩
  have k := key q
  rw [← uR_eq] at k
  have hn : (0 : ℝ) ≤ ((2 * (q + 3) + 22 : ℕ) : ℝ) := by positivity
  calc ((2 * (q + 3) + 22 : ℕ) : ℝ) * (uR (q + 3) / (1 - uR (q + 3)))
      ≤ ((2 * (q + 3) + 22 : ℕ) : ℝ) * (200 / 199 * uR (q + 3)) := mul_le_mul_of_nonneg_left hv hn
    _ = 200 / 199 * (((2 * (q + 3) + 22 : ℕ) : ℝ) * uR (q + 3)) := by ring
    _ ≤ 200 / 199 * (14 / 100) := by linarith
    _ ≤ 1 / 5 := by norm_num

/-- the bound of the series branch after the term of index `N` -/
noncomputable def serG (u : ℝ) (N : Nat) : ℝ := (1 + u) ^ N * ((N : ℝ) + 1 + 1 / 99) + 7 / 1000

theorem lnSeries_loop (nc : Ctx) (hw : Wide nc) (hm : nc.mode = .halfEven) (hp : 3 ≤ nc.prec)
    (tmp2 : Dec) (h2f : tmp2.form = .finite) (h20 : rv tmp2 ≠ 0) (hy : |rv tmp2| ≤ 1 / 18) :
    ∀ (fuel m : Nat) (e : ED) (tmp1 tmp3 : Dec), e.c = nc → tmp1.form = .finite → tmp3.form = .finite →
      m + 1 + fuel ≤ nc.prec + 11 →
      RelW (((2 * m + 1 : ℕ) : ℝ) * (uR nc.prec / (1 - uR nc.prec))) (2 * rv tmp2 ^ (2 * m + 1)) (rv tmp3) →
      |rv tmp1 - lsum (rv tmp2) (m + 1)| ≤
        uR nc.prec * |L2 (rv tmp2)| * (1 + uR nc.prec) ^ m * ((m : ℝ) + 1 + cc m) →
      ∀ (e' : ED) (t : Dec),
        lnSeries { coeff := 1, exp := -(nc.prec : Int) } tmp2 fuel (m + 1) e tmp1 tmp3 = some (e', .inr t) →
        e'.c = nc ∧ e'.failed = false ∧ t.form = .finite ∧
        |rv t - L2 (rv tmp2)| ≤ uR nc.prec * |L2 (rv tmp2)| *
          serG (uR nc.prec) (lnSeriesN { coeff := 1, exp := -(nc.prec : Int) } tmp2 fuel (m + 1) e tmp1 tmp3) := by
  set u := uR nc.prec with hudef
  set y := rv tmp2 with hydef
  have hu1 : u ≤ 1 / 200 := uR_small _ hp
  have hu0 : 0 < u := uR_pos _
  have hult : u < 1 := by linarith
  intro fuel
  induction fuel with
  | zero =>
    intro m e tmp1 tmp3 _ _ _ _ _ _ e' t h
    simp [lnSeries] at h
  | succ fuel ih =>
    intro m e tmp1 tmp3 hc h1f h3f hbud hT hs e' t h
    rw [lnSeries_succ] at h
    unfold lnSeriesN
    by_cases hfail : (lR4 tmp2 (m + 1) e tmp1 tmp3).1.failed = true
    · rw [if_pos hfail] at h; simp at h
    · have hfail' : (lR4 tmp2 (m + 1) e tmp1 tmp3).1.failed = false := by simpa using hfail
      rw [if_neg hfail] at h ⊢
      have h30 : rv tmp3 ≠ 0 := hT.ne_zero (by
        have : y ^ (2 * m + 1) ≠ 0 := pow_ne_zero _ h20
        exact mul_ne_zero two_ne_zero this)
      obtain ⟨C4, p2f, p3f, p4f, α, β, γ, ε, hα, hβ, hγ, hε, v2, v3, v4⟩ :=
        lnSeries_round nc hw hm hult tmp2 h2f h20 (m + 1) e hc tmp1 tmp3 h1f h3f h30 hfail'
      obtain ⟨T', Q', S'⟩ := series_step y u (rv tmp3) (rv tmp1) α β γ ε m hy hu0.le hu1 hα hβ hγ hε hT hs
      rw [← v2] at T' Q' S'
      rw [← v3] at Q' S'
      rw [← v4] at S'
      by_cases hstop : (lR3 tmp2 (m + 1) e tmp3).2.absD.cmp { coeff := 1, exp := -(nc.prec : Int) } ≤ 0
      · rw [if_pos hstop] at h ⊢
        simp only [Option.some.injEq, Prod.mk.injEq, Sum.inr.injEq] at h
        obtain ⟨rfl, rfl⟩ := h
        refine ⟨C4, hfail', p4f, ?_⟩
        -- |q| ≤ 10^-p = u/5
        have hq : |rv (lR3 tmp2 (m + 1) e tmp3).2| ≤ u / 5 := by
          have hle := cmp_le_toRat _ _ (by exact p3f) rfl hstop
          rw [absD_toRat] at hle
          unfold rv
          have : ((|(lR3 tmp2 (m + 1) e tmp3).2.toRat| : ℚ) : ℝ) ≤
              ((({ coeff := 1, exp := -(nc.prec : Int) } : Dec).toRat : ℚ) : ℝ) := by exact_mod_cast hle
          rw [Rat.cast_abs] at this
          refine le_trans this (le_of_eq ?_)
          rw [hudef, uR_eq]
          unfold Dec.toRat; push_cast; simp [zpow_neg]; ring
        have hk : ((2 * m + 4 : ℕ) : ℝ) * (u / (1 - u)) ≤ 1 / 5 := by
          have hb := budget_v nc.prec hp
          have hv0 : 0 ≤ u / (1 - u) := div_nonneg hu0.le (by linarith)
          have : ((2 * m + 4 : ℕ) : ℝ) ≤ ((2 * nc.prec + 22 : ℕ) : ℝ) := by
            have : 2 * m + 4 ≤ 2 * nc.prec + 22 := by omega
            exact_mod_cast this
          calc ((2 * m + 4 : ℕ) : ℝ) * (u / (1 - u)) ≤ ((2 * nc.prec + 22 : ℕ) : ℝ) * (u / (1 - u)) :=
                mul_le_mul_of_nonneg_right this hv0
            _ ≤ 1 / 5 := hb
        have := series_final y u _ _ m hy hu0.le hu1 hk Q' hq S'
        unfold serG
        have e1 : (((m + 1 : ℕ)) : ℝ) + 1 + 1 / 99 = (m : ℝ) + 2 + 1 / 99 := by push_cast; ring
        rw [e1]
        exact this
      · rw [if_neg hstop] at h ⊢
        have e1 : (2 * m + 3 : ℕ) = 2 * (m + 1) + 1 := by ring
        have e2 : ((m : ℝ) + 2 + cc (m + 1)) = (((m + 1 : ℕ) : ℝ) + 1 + cc (m + 1)) := by push_cast; ring
        rw [e1] at T'
        rw [e2] at S'
        exact ih (m + 1) _ _ _ C4 p4f p2f (by omega) T' S' e' t h

end Apd.LnAcc
