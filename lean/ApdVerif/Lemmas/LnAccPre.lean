import ApdVerif.Lemmas.LnAccH
/-!
# `Ln` before its final rounding (used by `Log10`, whose inner `Ln` runs in a wide half-even context):
the three paths once more, stopped at the sum `F = tmp1 + resAdjust`
-/
namespace Apd.LnAcc
open Apd Apd.Oracle Apd.ExpAcc Apd.C12IL Apd.Props Cond

/-- path S0 before the final rounding: the sum `F` with `|F - ln x| ≤ ε|ln x|` -/
theorem ln_pre_S0 (c : Ctx) (hc : c.WF) (x : Dec) (hx : PosFin x) (hp2 : c.prec + 2 ≤ 100000)
    (hsp : logSpecials c x = none) (h0 : (lnA1 c x).2.absD.cmp lnTenth ≤ 0)
    (tape r' : Tape) (o : Out) (h : lnT c x tape = some (o, r'))
    (hd : o.err = .none ∨ (o.err = .trap ∧ (o.fl &&& c.traps).any = true)) :
    ∃ (F : Dec) (ε : ℝ), F.form = .finite ∧ o.d = (ctxRound c F).1 ∧ NoSys (ctxRound c F).2 ∧
      |rv F - Real.log (rv x)| ≤ ε * |Real.log (rv x)| ∧ 0 ≤ ε ∧ ε ≤ 21 / 200 ∧
      ε / (1 - ε) ≤ ((lnSerN c (lnA1 c x).1 (lnA1 c x).2 : ℕ) + 5 : ℝ) / 16 * (20 * uR (c.prec + 2)) := by
  have hc1 : 1 ≤ c.prec := hc.1
  have hw := lnNc_wide c hc1 hp2
  rw [lnT_S0 c x tape hsp h0] at h
  obtain ⟨e', t, hser, htail⟩ := ser_body_cases c _ _ _ tape r' o h hd
  -- w = x - 1
  have nf1 := lnSer_nf c _ _ e' t hser
  obtain ⟨_, a1, v1, c1⟩ := step_ok _ _ _ nf1
  have hed : (lnA1 c x).1.c = lnNc c := c1
  have a1' : (addOp (lnNc c) x decOne true).err = .none := a1
  have v1' : (lnA1 c x).2 = (addOp (lnNc c) x decOne true).d := v1
  obtain ⟨wf, δw, hδw, wv⟩ := add_rel_gen (lnNc c) hw rfl x decOne true hx.fin rfl a1'
  rw [← v1'] at wf wv
  simp only [if_true, rv_decOne] at wv
  have hprec : (lnNc c).prec = c.prec + 2 := rfl
  rw [hprec] at hδw
  have hx1 := rv_ne_one_of_specials c x hx hsp
  have hxpos := hx.rv_pos
  set u := uR (c.prec + 2) with hu
  have hu1 : u ≤ 1 / 200 := uR_small _ (by omega)
  have hu0 : 0 < u := uR_pos _
  have hdw := abs_le.1 hδw
  have hw0 : rv (lnA1 c x).2 ≠ 0 := by
    rw [wv]; exact mul_ne_zero (by intro h; apply hx1; linarith) (by linarith [hdw.1])
  have hw10 : |rv (lnA1 c x).2| ≤ 1 / 10 := by
    have hle := cmp_le_toRat _ _ (by exact wf) rfl h0
    rw [absD_toRat] at hle
    unfold rv
    have : ((|(lnA1 c x).2.toRat| : ℚ) : ℝ) ≤ ((lnTenth.toRat : ℚ) : ℝ) := by exact_mod_cast hle
    push_cast at this
    refine le_trans this (le_of_eq ?_)
    unfold lnTenth Dec.toRat; norm_num
  have wv' : rv (lnA1 c x).2 = (rv x - 1) * (1 + δw) := by rw [wv]; ring
  obtain ⟨ec, enf, tf, tb⟩ := ser_from_w c hc1 hp2 _ hed _ wf hw0 hw10 (rv x) δw hδw wv' e' t hser
  have hle := lnSerN_le c (lnA1 c x).1 (lnA1 c x).2
  generalize lnSerN c (lnA1 c x).1 (lnA1 c x).2 = N at tb hle ⊢
  -- the tail
  obtain ⟨F, Ff, ⟨δf, hδf, Fv⟩, hod, hns⟩ := lnTail_ok c hc hp2 e' ec t decZero tf rfl tape r' o htail hd
  have hz : rv decZero = 0 := by unfold rv Dec.toRat decZero; simp
  rw [hz, add_zero] at Fv
  set L := Real.log (rv x) with hL
  have hL0 : L ≠ 0 := by
    intro h
    rcases Real.log_eq_zero.1 h with h | h | h
    · linarith
    · exact hx1 h
    · linarith
  have hNu : ((N : ℕ) : ℝ) * u ≤ 7 / 100 := by
    have hb := budget_u (c.prec + 2) (by omega)
    have : ((N : ℕ) : ℝ) ≤ ((c.prec + 2 + 11 : ℕ) : ℝ) := by exact_mod_cast hle
    have e : ((2 * (c.prec + 2) + 22 : ℕ) : ℝ) = 2 * ((c.prec + 2 + 11 : ℕ) : ℝ) := by push_cast; ring
    rw [e] at hb
    nlinarith
  obtain ⟨hεF, hK⟩ := serK u N hu0.le hu1 hNu
  set εF := u * ((1 + u) * serE u N + 1) with hεFdef
  have hE0 : 0 ≤ serE u N := by unfold serE serG; positivity
  -- |F - L| ≤ εF |L|
  have hFL : |rv F - L| ≤ εF * |L| := by
    have id : rv F - L = (rv t - L) * (1 + δf) + δf * L := by rw [Fv]; ring
    rw [id]
    have h1 : |(rv t - L) * (1 + δf)| ≤ (u * |L| * serE u N) * (1 + u) := by
      rw [abs_mul]
      have : |1 + δf| ≤ 1 + u := by
        calc |1 + δf| ≤ |(1 : ℝ)| + |δf| := abs_add_le _ _
          _ ≤ 1 + u := by rw [abs_one]; linarith
      exact mul_le_mul tb this (abs_nonneg _) (by positivity)
    have h2 : |δf * L| ≤ u * |L| := by rw [abs_mul]; exact mul_le_mul_of_nonneg_right hδf (abs_nonneg _)
    calc _ ≤ |(rv t - L) * (1 + δf)| + |δf * L| := abs_add_le _ _
      _ ≤ (u * |L| * serE u N) * (1 + u) + u * |L| := add_le_add h1 h2
      _ = εF * |L| := by rw [hεFdef]; ring
  have hεF0 : 0 ≤ εF := by rw [hεFdef]; positivity
  exact ⟨F, εF, Ff, hod, hns, hFL, hεF0, hεF, hK⟩

/-- path S1 before the final rounding -/
theorem ln_pre_S1 (c : Ctx) (hc : c.WF) (x : Dec) (hx : PosFin x) (hp2 : c.prec + 2 ≤ 100000)
    (hp90 : lnExpDelta x = 0 ∨ c.prec + 2 ≤ 90)
    (hsp : logSpecials c x = none) (h0 : ¬ (lnA1 c x).2.absD.cmp lnTenth ≤ 0)
    (h1 : (lnA3 c x).2.absD.cmp lnTenth ≤ 0)
    (tape r' : Tape) (o : Out) (h : lnT c x tape = some (o, r'))
    (hd : o.err = .none ∨ (o.err = .trap ∧ (o.fl &&& c.traps).any = true)) :
    ∃ (F : Dec) (ε : ℝ), F.form = .finite ∧ o.d = (ctxRound c F).1 ∧ NoSys (ctxRound c F).2 ∧
      |rv F - Real.log (rv x)| ≤ ε * |Real.log (rv x)| ∧ 0 ≤ ε ∧ ε ≤ 21 / 200 ∧
      ε / (1 - ε) ≤ ((lnSerN c (lnA3 c x).1 (lnA3 c x).2 : ℕ) + 5 : ℝ) / 16 * (20 * uR (c.prec + 2)) := by
  have hc1 : 1 ≤ c.prec := hc.1
  rw [lnT_S1 c x tape hsp h0 h1] at h
  obtain ⟨e', t, hser, htail⟩ := ser_body_cases c _ _ _ tape r' o h hd
  have nf3 := lnSer_nf c _ _ e' t hser
  obtain ⟨C3, wf, Af, ⟨δw, hδw, wv⟩, ⟨δm, hδm, Av⟩⟩ := pre_ok c hc1 hp2 x hx nf3
  set u := uR (c.prec + 2) with hu
  have hu1 : u ≤ 1 / 200 := uR_small _ (by omega)
  have hu0 : 0 < u := uR_pos _
  obtain ⟨z1, z2⟩ := lnZ_range x hx
  have hzpos := (lnZ_posFin x hx).rv_pos
  have hdw := abs_le.1 hδw
  have hw0 : rv (lnA3 c x).2 ≠ 0 := by
    rw [wv]; exact mul_ne_zero (by linarith) (by linarith [hdw.1])
  have hw10 : |rv (lnA3 c x).2| ≤ 1 / 10 := by
    have hle := cmp_le_toRat _ _ (by exact wf) rfl h1
    rw [absD_toRat] at hle
    unfold rv
    have : ((|(lnA3 c x).2.toRat| : ℚ) : ℝ) ≤ ((lnTenth.toRat : ℚ) : ℝ) := by exact_mod_cast hle
    push_cast at this
    refine le_trans this (le_of_eq ?_)
    unfold lnTenth Dec.toRat; norm_num
  obtain ⟨ec, enf, tf, tb⟩ := ser_from_w c hc1 hp2 _ C3 _ wf hw0 hw10 (rv (lnZ x)) δw hδw wv e' t hser
  have hle := lnSerN_le c (lnA3 c x).1 (lnA3 c x).2
  generalize lnSerN c (lnA3 c x).1 (lnA3 c x).2 = N at tb hle ⊢
  obtain ⟨F, Ff, ⟨δf, hδf, Fv⟩, hod, hns⟩ := lnTail_ok c hc hp2 e' ec t _ tf Af tape r' o htail hd
  set L := Real.log (rv (lnZ x)) with hL
  set R := Real.log (rv x) with hR
  have hRL : R = L + (lnExpDelta x : ℝ) * Real.log 10 := log_scale x hx
  -- |L| ≤ 0.112
  have hLabs : |L| ≤ 112 / 1000 := by
    have hz1 : |rv (lnZ x) - 1| ≤ 1006 / 10000 := by
      have e1 : |rv (lnA3 c x).2| = |rv (lnZ x) - 1| * |1 + δw| := by rw [wv, abs_mul]
      have e2 : 1 - u ≤ |1 + δw| := by rw [abs_of_nonneg (by linarith [hdw.1])]; linarith [hdw.1]
      have e3 : |rv (lnZ x) - 1| * (1 - u) ≤ 1 / 10 := by
        calc |rv (lnZ x) - 1| * (1 - u) ≤ |rv (lnZ x) - 1| * |1 + δw| :=
              mul_le_mul_of_nonneg_left e2 (abs_nonneg _)
          _ = |rv (lnA3 c x).2| := e1.symm
          _ ≤ 1 / 10 := hw10
      nlinarith [abs_nonneg (rv (lnZ x) - 1)]
    obtain ⟨s1, s2⟩ := abs_le.1 hz1
    have := abs_log_sub_le (rv (lnZ x)) 1 (8994 / 10000) (by norm_num) (by linarith) (by norm_num)
    rw [Real.log_one, sub_zero] at this
    calc |L| ≤ |rv (lnZ x) - 1| / (8994 / 10000) := this
      _ ≤ (1006 / 10000) / (8994 / 10000) := div_le_div_of_nonneg_right hz1 (by norm_num)
      _ ≤ 112 / 1000 := by norm_num
  -- the adjustment
  have hA : |rv (lnA2 c x).2 - (lnExpDelta x : ℝ) * Real.log 10| ≤ 33142 / 10000 * |(lnExpDelta x : ℝ)| * u := by
    rw [Av]
    rcases hp90 with he0 | h90
    · rw [he0]; simp
    · exact adjust_err _ _ δm u hu0.le hu1 hδm (ln10At_near _ (by omega) h90).2
  have her : (lnExpDelta x : ℝ) = 0 ∨ 1 ≤ |(lnExpDelta x : ℝ)| := by
    by_cases he0 : lnExpDelta x = 0
    · left; exact_mod_cast he0
    · right
      have : (1 : ℤ) ≤ |lnExpDelta x| := Int.one_le_abs he0
      exact_mod_cast this
  have hNu : ((N : ℕ) : ℝ) * u ≤ 7 / 100 := by
    have hb := budget_u (c.prec + 2) (by omega)
    have : ((N : ℕ) : ℝ) ≤ ((c.prec + 2 + 11 : ℕ) : ℝ) := by exact_mod_cast hle
    have e : ((2 * (c.prec + 2) + 22 : ℕ) : ℝ) = 2 * ((c.prec + 2 + 11 : ℕ) : ℝ) := by push_cast; ring
    rw [e] at hb
    nlinarith
  obtain ⟨hεF, hK⟩ := serK u N hu0.le hu1 hNu
  have hE338 : 338 / 100 ≤ serE u N := by unfold serE serG; have : (0:ℝ) ≤ (1 + u) ^ N * ((N : ℝ) + 1 + 1 / 99) := by positivity
                                          linarith
  have hFL := s1_bound L R (lnExpDelta x : ℝ) (rv t) (rv (lnA2 c x).2) (rv F) (serE u N) u δf hu0.le hE338 hRL
    hLabs her tb hA hδf Fv
  set εF := u * ((1 + u) * serE u N + 1) with hεFdef
  have hE0 : 0 ≤ serE u N := by linarith
  have hεF0 : 0 ≤ εF := by rw [hεFdef]; positivity
  exact ⟨F, εF, Ff, hod, hns, hFL, hεF0, hεF, hK⟩

/-- path H before the final rounding: `|F - ln x| ≤ C·u + (5/2)·u·|F|` -/
theorem ln_pre_H (c : Ctx) (hc : c.WF) (x : Dec) (hx : PosFin x) (hp2 : c.prec + 2 ≤ 100000)
    (hp90 : lnExpDelta x = 0 ∨ c.prec + 2 ≤ 90)
    (hsp : logSpecials c x = none) (h0 : ¬ (lnA1 c x).2.absD.cmp lnTenth ≤ 0)
    (h1 : ¬ (lnA3 c x).2.absD.cmp lnTenth ≤ 0) (d : Dec) (tape r' : Tape) (o : Out)
    (hOK : lnHalleyOK (lnNc c) ((c.prec : Int) + 1) (10 + (c.prec + 1)) (lnZ x) (10 + (c.prec + 1) + 2)
      (lnA3 c x).1 d {} tape = true)
    (h : lnT c x (.est d :: tape) = some (o, r'))
    (hd : o.err = .none ∨ (o.err = .trap ∧ (o.fl &&& c.traps).any = true))
    (ξb C : ℝ) (hξ : 266 * uR (c.prec + 2) + 23300 * uR (c.prec + 2) ^ 2 ≤ ξb) (hξb : ξb ≤ 2)
    (hC : 10124 / 10000 * (68582 / 10000 + 1005 / 1000 * ξb) ≤ C) :
    ∃ F : Dec, F.form = .finite ∧ o.d = (ctxRound c F).1 ∧ NoSys (ctxRound c F).2 ∧
      |rv F - Real.log (rv x)| ≤ C * uR (c.prec + 2) + 5 / 2 * uR (c.prec + 2) * |rv F| := by
  have hc1 : 1 ≤ c.prec := hc.1
  have hw := lnNc_wide c hc1 hp2
  rw [lnT_H c x d tape hsp h0 h1] at h
  unfold lnFinish at h
  cases hH : lnHalley (lnNc c) ((c.prec : Int) + 1) (10 + (c.prec + 1)) (lnZ x) (10 + (c.prec + 1) + 2)
      (lnA3 c x).1 d {} tape with
  | none => rw [hH] at h; simp at h
  | some q =>
    obtain ⟨e', r, tp⟩ := q
    rw [hH] at h
    cases r with
    | inl er =>
      simp only [Option.some.injEq, Prod.mk.injEq] at h
      obtain ⟨rfl, _⟩ := h
      have hne := TL.lnHalley_inl _ _ _ _ _ _ _ _ _ _ _ _ hH
      exact (TL.not_deliv_of_failed (TL.failed_mk _ hne) hd).elim
    | inr t =>
      simp only [] at h
      have enf := lnTail_nf c e' t _ tp r' o h hd
      have nf3 := lnHalleyOK_nf _ _ _ _ _ _ _ _ _ hOK
      obtain ⟨C3, _, Af, _, ⟨δm, hδm, Av⟩⟩ := pre_ok c hc1 hp2 x hx nf3
      have hzp := lnZ_posFin x hx
      have hprec : ((c.prec : Int) + 1) = (((lnNc c).prec : ℕ) : Int) - 1 := by
        show ((c.prec : Int) + 1) = ((c.prec + 2 : ℕ) : Int) - 1
        push_cast; ring
      obtain ⟨ec, tf, t3, tb⟩ := halley_loop (lnNc c) hw rfl (by show 3 ≤ c.prec + 2; omega) _ hprec
        (10 + (c.prec + 1)) (lnZ x) hzp.fin hzp.rv_pos _ _ d {} tape C3 (by intro hh; simp at hh) hOK e' t tp hH enf
      obtain ⟨F, Ff, ⟨δf, hδf, Fv⟩, hod, hns⟩ := lnTail_ok c hc hp2 e' ec t _ tf Af tp r' o h hd
      set u := uR (c.prec + 2) with hu
      have hu1 : u ≤ 1 / 200 := uR_small _ (by omega)
      have hu0 : 0 < u := uR_pos _
      set L := Real.log (rv (lnZ x)) with hL
      set R := Real.log (rv x) with hR
      have hRL : R = L + (lnExpDelta x : ℝ) * Real.log 10 := log_scale x hx
      obtain ⟨z1, z2⟩ := lnZ_range x hx
      obtain ⟨l1, l2⟩ := log10_bounds
      have hLabs : |L| ≤ 23081 / 10000 := by
        have hneg : L ≤ 0 := Real.log_nonpos hzp.rv_pos.le z2.le
        have hge : -Real.log 10 ≤ L := by
          have : Real.log (1 / 10) ≤ L := Real.log_le_log (by norm_num) z1
          rw [one_div, Real.log_inv] at this; exact this
        rw [abs_of_nonpos hneg]; linarith
      have hA : |rv (lnA2 c x).2 - (lnExpDelta x : ℝ) * Real.log 10| ≤ 33142 / 10000 * |(lnExpDelta x : ℝ)| * u := by
        rw [Av]
        rcases hp90 with he0 | h90
        · rw [he0]; simp
        · exact adjust_err _ _ δm u hu0.le hu1 hδm (ln10At_near _ (by omega) h90).2
      have hω : omegaE (c.prec + 2) ≤ 114 / 100 * u := omegaE_le _ (by omega)
      have tb' : |rv t - L| ≤ omegaE (c.prec + 2) + u * (100503 / 100000 * |rv t| + 266 * u + 23300 * u ^ 2) := tb
      have hFR := h_real L R (lnExpDelta x : ℝ) (rv t) (rv (lnA2 c x).2) (rv F) u (omegaE (c.prec + 2)) δf ξb C
        hu0.le hu1 hξ hξb hω tb' t3 hLabs hRL hA hδf Fv hC
      exact ⟨F, Ff, hod, hns, hFR⟩

end Apd.LnAcc
