import ApdVerif.Lemmas.LnAccS0
/-!
# `Ln`: the rescaled series path S1 (`x = z·10^e`, `|z - 1| ≤ 0.1`) and the `e·ln 10` adjustment
-/
namespace Apd.LnAcc
open Apd Apd.Oracle Apd.ExpAcc Apd.C12IL Apd.Props Cond

/-- the twelve rounded table entries are finite -/
theorem ln10_table_finite (i : Nat) (hi : i < 12) : (constAt ln10Coeff ln10Exp ln10StrLen i).form = .finite := by
  interval_cases i <;> decide +kernel

theorem ln10At_finite (p : Nat) : (ln10At p).form = .finite := by
  unfold ln10At
  rw [constGet_eq]
  by_cases h : constIdx p < 12
  · exact ln10_table_finite _ h
  · unfold constAt
    have : constVals ln10StrLen = 12 := by decide
    rw [this, if_pos (by omega)]

theorem ln10At_three : ln10At 3 = { coeff := 2303, exp := -3 } := by decide +kernel

/-- `2.2979 ≤ ln 10 ≤ 2.3081` -/
theorem log10_bounds : 22979 / 10000 ≤ Real.log 10 ∧ Real.log 10 ≤ 23081 / 10000 := by
  obtain ⟨_, h⟩ := ln10At_near 3 (by norm_num) (by norm_num)
  rw [ln10At_three] at h
  have hv : rv ({ coeff := 2303, exp := -3 } : Dec) = 2303 / 1000 := by
    unfold rv Dec.toRat; norm_num
  rw [hv] at h
  have hu : uR 3 = 1 / 200 := by rw [uR_eq]; norm_num
  rw [hu] at h
  obtain ⟨h1, h2⟩ := abs_le.1 h
  constructor <;> linarith

/-- the adjustment `A = e·T10·(1+δ)` against `e·ln 10`, with `|T10 - ln 10| ≤ 1.001u` -/
theorem adjust_err (er T10 δm u : ℝ) (hu0 : 0 ≤ u) (hu1 : u ≤ 1 / 200) (hδ : |δm| ≤ u)
    (hT : |T10 - Real.log 10| ≤ 1001 / 1000 * u) :
    |er * T10 * (1 + δm) - er * Real.log 10| ≤ 33142 / 10000 * |er| * u := by
  obtain ⟨l1, l2⟩ := log10_bounds
  have id : er * T10 * (1 + δm) - er * Real.log 10 = er * ((T10 - Real.log 10) * (1 + δm) + Real.log 10 * δm) := by ring
  rw [id, abs_mul]
  have h1 : |(T10 - Real.log 10) * (1 + δm)| ≤ (1001 / 1000 * u) * (1 + u) := by
    rw [abs_mul]
    have : |1 + δm| ≤ 1 + u := by
      calc |1 + δm| ≤ |(1 : ℝ)| + |δm| := abs_add_le _ _
        _ ≤ 1 + u := by rw [abs_one]; linarith
    exact mul_le_mul hT this (abs_nonneg _) (by positivity)
  have h2 : |Real.log 10 * δm| ≤ 23081 / 10000 * u := by
    rw [abs_mul, abs_of_nonneg (by linarith)]
    exact mul_le_mul l2 hδ (abs_nonneg _) (by norm_num)
  have h3 : |(T10 - Real.log 10) * (1 + δm) + Real.log 10 * δm| ≤ 33142 / 10000 * u := by
    calc _ ≤ |(T10 - Real.log 10) * (1 + δm)| + |Real.log 10 * δm| := abs_add_le _ _
      _ ≤ (1001 / 1000 * u) * (1 + u) + 23081 / 10000 * u := add_le_add h1 h2
      _ ≤ 33142 / 10000 * u := by nlinarith
  calc |er| * |(T10 - Real.log 10) * (1 + δm) + Real.log 10 * δm| ≤ |er| * (33142 / 10000 * u) :=
        mul_le_mul_of_nonneg_left h3 (abs_nonneg _)
    _ = _ := by ring

/-- the sum `F = (t + A)(1+δf)` of the rescaled series path against `R = L + e·ln 10`:
relative error at most `u((1+u)E + 1)`, as in the unscaled path -/
theorem s1_bound (L R er t A F E u δf : ℝ) (hu0 : 0 ≤ u) (hE : 338 / 100 ≤ E)
    (hR : R = L + er * Real.log 10) (hL : |L| ≤ 112 / 1000) (her : er = 0 ∨ 1 ≤ |er|)
    (ht : |t - L| ≤ u * |L| * E) (hA : |A - er * Real.log 10| ≤ 33142 / 10000 * |er| * u)
    (hδf : |δf| ≤ u) (hF : F = (t + A) * (1 + δf)) :
    |F - R| ≤ u * ((1 + u) * E + 1) * |R| := by
  obtain ⟨l1, l2⟩ := log10_bounds
  have id : F - R = ((t - L) + (A - er * Real.log 10)) * (1 + δf) + δf * R := by rw [hF, hR]; ring
  have h1f : |1 + δf| ≤ 1 + u := by
    calc |1 + δf| ≤ |(1 : ℝ)| + |δf| := abs_add_le _ _
      _ ≤ 1 + u := by rw [abs_one]; linarith
  have hb1 : |F - R| ≤ (u * |L| * E + 33142 / 10000 * |er| * u) * (1 + u) + u * |R| := by
    rw [id]
    have a1 : |((t - L) + (A - er * Real.log 10)) * (1 + δf)| ≤ (u * |L| * E + 33142 / 10000 * |er| * u) * (1 + u) := by
      rw [abs_mul]
      exact mul_le_mul (le_trans (abs_add_le _ _) (add_le_add ht hA)) h1f (abs_nonneg _) (by positivity)
    have a2 : |δf * R| ≤ u * |R| := by rw [abs_mul]; exact mul_le_mul_of_nonneg_right hδf (abs_nonneg _)
    exact le_trans (abs_add_le _ _) (add_le_add a1 a2)
  -- E|L| + 3.3141|er| ≤ E|R|
  have key : |L| * E + 33142 / 10000 * |er| ≤ E * |R| := by
    rcases her with h0 | h1
    · rw [hR, h0]; simp; linarith
    · have hRge : |er| * Real.log 10 - |L| ≤ |R| := by
        have : |er * Real.log 10| = |er| * Real.log 10 := by rw [abs_mul, abs_of_nonneg (by linarith : (0:ℝ) ≤ Real.log 10)]
        have h3 : |er * Real.log 10| - |L| ≤ |er * Real.log 10 + L| := by
          have := abs_sub_abs_le_abs_sub (er * Real.log 10) (-L)
          rw [abs_neg, sub_neg_eq_add] at this; exact this
        rw [this] at h3
        rw [hR, add_comm]; exact h3
      have hL0 := abs_nonneg L
      have : E * (|er| * (22979 / 10000) - 112 / 1000) ≤ E * |R| := by
        apply mul_le_mul_of_nonneg_left _ (by linarith)
        have : |er| * (22979 / 10000) ≤ |er| * Real.log 10 := mul_le_mul_of_nonneg_left l1 (abs_nonneg _)
        linarith
      nlinarith
  have h2 : (u * |L| * E + 33142 / 10000 * |er| * u) * (1 + u) ≤ u * (1 + u) * (E * |R|) := by
    have : u * |L| * E + 33142 / 10000 * |er| * u = u * (|L| * E + 33142 / 10000 * |er|) := by ring
    rw [this]
    have := mul_le_mul_of_nonneg_left key hu0
    nlinarith
  calc |F - R| ≤ (u * |L| * E + 33142 / 10000 * |er| * u) * (1 + u) + u * |R| := hb1
    _ ≤ u * (1 + u) * (E * |R|) + u * |R| := by linarith
    _ = _ := by ring

/-- the rescaling prologue: `resAdjust = e·ln10At(p)·(1+δ)` and `w = (z-1)(1+δ)` -/
theorem pre_ok (c : Ctx) (hc1 : 1 ≤ c.prec) (hp2 : c.prec + 2 ≤ 100000) (x : Dec) (hx : PosFin x)
    (hnf : (lnA3 c x).1.failed = false) :
    (lnA3 c x).1.c = lnNc c ∧ (lnA3 c x).2.form = .finite ∧ (lnA2 c x).2.form = .finite ∧
    (∃ δw : ℝ, |δw| ≤ uR (c.prec + 2) ∧ rv (lnA3 c x).2 = (rv (lnZ x) - 1) * (1 + δw)) ∧
    (∃ δm : ℝ, |δm| ≤ uR (c.prec + 2) ∧
      rv (lnA2 c x).2 = (lnExpDelta x : ℝ) * rv (ln10At (c.prec + 2)) * (1 + δm)) := by
  have hw := lnNc_wide c hc1 hp2
  obtain ⟨nf2, a3, v3, c3⟩ := step_ok _ _ _ hnf
  obtain ⟨nf1, a2, v2, c2⟩ := step_ok _ _ _ nf2
  obtain ⟨_, _, _, c1⟩ := step_ok _ _ _ nf1
  have C1 : (lnA1 c x).1.c = lnNc c := c1
  have C2 : (lnA2 c x).1.c = lnNc c := by rw [← C1]; exact c2
  have C3 : (lnA3 c x).1.c = lnNc c := by rw [← C2]; exact c3
  rw [C1] at a2 v2
  rw [C2] at a3 v3
  change (lnA2 c x).2 = _ at v2
  change (lnA3 c x).2 = _ at v3
  obtain ⟨Af, δm, hδm, Av⟩ := mul_rel_gen (lnNc c) hw rfl (lnRa0 x) (ln10At (c.prec + 2)) rfl (ln10At_finite _) a2
  rw [← v2] at Af Av
  obtain ⟨wf, δw, hδw, wv⟩ := add_rel_gen (lnNc c) hw rfl (lnZ x) decOne true hx.fin rfl a3
  rw [← v3] at wf wv
  simp only [if_true, rv_decOne] at wv
  refine ⟨C3, wf, Af, ⟨δw, hδw, by rw [wv]; ring⟩, ⟨δm, hδm, by rw [Av, rv_lnRa0]⟩⟩

/-- path S1 (rescaled, `|z - 1| ≤ 0.1`): the same bound `ρ + (N+5)/16` -/
theorem ln_path_S1 (c : Ctx) (hc : c.WF) (x : Dec) (hx : PosFin x) (hp2 : c.prec + 2 ≤ 100000)
    (hp90 : lnExpDelta x = 0 ∨ c.prec + 2 ≤ 90)
    (hsp : logSpecials c x = none) (h0 : ¬ (lnA1 c x).2.absD.cmp lnTenth ≤ 0)
    (h1 : (lnA3 c x).2.absD.cmp lnTenth ≤ 0)
    (tape r' : Tape) (o : Out) (h : lnT c x tape = some (o, r'))
    (hd : o.err = .none ∨ (o.err = .trap ∧ (o.fl &&& c.traps).any = true)) (hf : o.d.form = .finite) :
    |rv o.d - Real.log (rv x)| ≤
      (((rhoMode c.mode : ℚ) : ℝ) + ((lnSerN c (lnA3 c x).1 (lnA3 c x).2 : ℕ) + 5 : ℝ) / 16) *
        (10 : ℝ) ^ (ulpExp c o.d) := by
  have hc1 : 1 ≤ c.prec := hc.1
  rw [lnT_S1 c x tape hsp h0 h1] at h
  obtain ⟨e', t, hser, htail⟩ := ser_body_cases c _ _ _ tape r' o h hd
  have nf3 := lnSer_nf c _ _ e' t hser
  obtain ⟨C3, wf, Af, ⟨δw, hδw, wv⟩, ⟨δm, hδm, Av⟩⟩ := pre_ok c hc1 hp2 x hx nf3
  set u := uR (c.prec + 2) with hu
  have hu1 : u ≤ 1 / 200 := uR_small _ (by omega)
  have hu0 : 0 < u := uR_pos _
  obtain ⟨z1, z2⟩ := lnZ_range x hx
  have hzpos := (lnZ_posFin x hx).rv_pos
  have hdw := abs_le.1 hδw
  have hw0 : rv (lnA3 c x).2 ≠ 0 := by
    rw [wv]; exact mul_ne_zero (by linarith) (by linarith [hdw.1])
  have hw10 : |rv (lnA3 c x).2| ≤ 1 / 10 := by
    have hle := cmp_le_toRat _ _ (by exact wf) rfl h1
    rw [absD_toRat] at hle
    unfold rv
    have : ((|(lnA3 c x).2.toRat| : ℚ) : ℝ) ≤ ((lnTenth.toRat : ℚ) : ℝ) := by exact_mod_cast hle
    push_cast at this
    refine le_trans this (le_of_eq ?_)
    unfold lnTenth Dec.toRat; norm_num
  obtain ⟨ec, enf, tf, tb⟩ := ser_from_w c hc1 hp2 _ C3 _ wf hw0 hw10 (rv (lnZ x)) δw hδw wv e' t hser
  have hle := lnSerN_le c (lnA3 c x).1 (lnA3 c x).2
  generalize lnSerN c (lnA3 c x).1 (lnA3 c x).2 = N at tb hle ⊢
  obtain ⟨F, Ff, ⟨δf, hδf, Fv⟩, hod, hns⟩ := lnTail_ok c hc hp2 e' ec t _ tf Af tape r' o htail hd
  set L := Real.log (rv (lnZ x)) with hL
  set R := Real.log (rv x) with hR
  have hRL : R = L + (lnExpDelta x : ℝ) * Real.log 10 := log_scale x hx
  -- |L| ≤ 0.112
  have hLabs : |L| ≤ 112 / 1000 := by
    have hz1 : |rv (lnZ x) - 1| ≤ 1006 / 10000 := by
      have e1 : |rv (lnA3 c x).2| = |rv (lnZ x) - 1| * |1 + δw| := by rw [wv, abs_mul]
      have e2 : 1 - u ≤ |1 + δw| := by rw [abs_of_nonneg (by linarith [hdw.1])]; linarith [hdw.1]
      have e3 : |rv (lnZ x) - 1| * (1 - u) ≤ 1 / 10 := by
        calc |rv (lnZ x) - 1| * (1 - u) ≤ |rv (lnZ x) - 1| * |1 + δw| :=
              mul_le_mul_of_nonneg_left e2 (abs_nonneg _)
          _ = |rv (lnA3 c x).2| := e1.symm
          _ ≤ 1 / 10 := hw10
      nlinarith [abs_nonneg (rv (lnZ x) - 1)]
    obtain ⟨s1, s2⟩ := abs_le.1 hz1
    have := abs_log_sub_le (rv (lnZ x)) 1 (8994 / 10000) (by norm_num) (by linarith) (by norm_num)
    rw [Real.log_one, sub_zero] at this
    calc |L| ≤ |rv (lnZ x) - 1| / (8994 / 10000) := this
      _ ≤ (1006 / 10000) / (8994 / 10000) := div_le_div_of_nonneg_right hz1 (by norm_num)
      _ ≤ 112 / 1000 := by norm_num
  -- the adjustment
  have hA : |rv (lnA2 c x).2 - (lnExpDelta x : ℝ) * Real.log 10| ≤ 33142 / 10000 * |(lnExpDelta x : ℝ)| * u := by
    rw [Av]
    rcases hp90 with he0 | h90
    · rw [he0]; simp
    · exact adjust_err _ _ δm u hu0.le hu1 hδm (ln10At_near _ (by omega) h90).2
  have her : (lnExpDelta x : ℝ) = 0 ∨ 1 ≤ |(lnExpDelta x : ℝ)| := by
    by_cases he0 : lnExpDelta x = 0
    · left; exact_mod_cast he0
    · right
      have : (1 : ℤ) ≤ |lnExpDelta x| := Int.one_le_abs he0
      exact_mod_cast this
  have hNu : ((N : ℕ) : ℝ) * u ≤ 7 / 100 := by
    have hb := budget_u (c.prec + 2) (by omega)
    have : ((N : ℕ) : ℝ) ≤ ((c.prec + 2 + 11 : ℕ) : ℝ) := by exact_mod_cast hle
    have e : ((2 * (c.prec + 2) + 22 : ℕ) : ℝ) = 2 * ((c.prec + 2 + 11 : ℕ) : ℝ) := by push_cast; ring
    rw [e] at hb
    nlinarith
  obtain ⟨hεF, hK⟩ := serK u N hu0.le hu1 hNu
  have hE338 : 338 / 100 ≤ serE u N := by unfold serE serG; have : (0:ℝ) ≤ (1 + u) ^ N * ((N : ℝ) + 1 + 1 / 99) := by positivity
                                          linarith
  have hFL := s1_bound L R (lnExpDelta x : ℝ) (rv t) (rv (lnA2 c x).2) (rv F) (serE u N) u δf hu0.le hE338 hRL
    hLabs her tb hA hδf Fv
  set εF := u * ((1 + u) * serE u N + 1) with hεFdef
  have hx1 := rv_ne_one_of_specials c x hx hsp
  have hxpos := hx.rv_pos
  have hR0 : R ≠ 0 := by
    intro h
    rcases Real.log_eq_zero.1 h with h | h | h
    · linarith
    · exact hx1 h
    · linarith
  have hRpos : 0 < |R| := abs_pos.2 hR0
  have hF0 : rv F ≠ 0 := by
    intro h
    rw [h, zero_sub, abs_neg] at hFL
    nlinarith
  have hLF : |R| ≤ |rv F| / (1 - εF) := by
    rw [le_div_iff₀ (by linarith)]
    have : |R| ≤ |rv F| + |rv F - R| := by
      have := abs_sub_abs_le_abs_sub R (rv F)
      rw [abs_sub_comm] at this
      linarith
    nlinarith
  have hE0 : 0 ≤ serE u N := by linarith
  have hεF0 : 0 ≤ εF := by rw [hεFdef]; positivity
  have hrel : |rv F - R| ≤ εF / (1 - εF) * |rv F| := by
    calc |rv F - R| ≤ εF * |R| := hFL
      _ ≤ εF * (|rv F| / (1 - εF)) := mul_le_mul_of_nonneg_left hLF hεF0
      _ = _ := by ring
  rw [hod] at hf ⊢
  have hfin := ln_final_rel c hc F Ff hF0 R (εF / (1 - εF)) (div_nonneg hεF0 (by linarith)) hrel hns hf
  refine le_trans hfin ?_
  apply mul_le_mul_of_nonneg_right _ (by positivity)
  have hup := uR_pow c.prec
  have : εF / (1 - εF) * (10 : ℝ) ^ c.prec ≤ ((N : ℝ) + 5) / 16 := by
    calc εF / (1 - εF) * (10 : ℝ) ^ c.prec ≤ (((N : ℝ) + 5) / 16 * (20 * u)) * (10 : ℝ) ^ c.prec :=
          mul_le_mul_of_nonneg_right hK (by positivity)
      _ = ((N : ℝ) + 5) / 16 * (20 * (u * (10 : ℝ) ^ c.prec)) := by ring
      _ = ((N : ℝ) + 5) / 16 := by rw [hup]; ring
  linarith

end Apd.LnAcc
