import ApdVerif.Lemmas.SqrtDefs
import ApdVerif.Props.C11Settle
import ApdVerif.Props.RoundCore
import ApdVerif.Props.Rational
import ApdVerif.Props.Mul
import Mathlib.Tactic.Ring
import Mathlib.Tactic.Linarith
import Mathlib.Tactic.NormNum
import Mathlib.Tactic.Positivity
import Mathlib.Tactic.FieldSimp
import Mathlib.Tactic.SplitIfs
/-!
# Helper lemmas for `C11_sqrt_correct` (Props/C11Sqrt.lean)

* `Near Y m`: `m` is the natural number nearest to `√Y`, ties to even — stated on squares; it has at most
  one solution (`Near_unique`).  The specification's coefficient satisfies it (`sM_facts`), and so does the
  coefficient the settling step selects, in each of the positions the truncated iterate can have relative to
  the root (`settle_math`: same quantum `caseS`, iterate in the decade above `caseU` / below `caseL` the root;
  `exact_math` when the iterate is itself on its grid).
* the shape of `ctxRound` on a non-zero decimal inside the package's exponent limits (`shape_exact`,
  `shape_round`), on a decimal that is already on the result grid (`grid_round_id`, `grid_final`).
* `tail_core`: the value between the two roundings of the tail of `Context.Sqrt` is the specification's;
  `tail_final`: final rounding, exactness re-check and packaging.
-/
set_option linter.unusedVariables false

namespace Apd.C11Q
open Apd Apd.Oracle Apd.C20L Apd.RatSpec

/-! ## nearest natural number to a square root, on squares -/

/-- `m` is the natural number nearest to `√Y`, ties to even -/
def Near (Y : ℚ) (m : ℕ) : Prop :=
  (m = 0 ∨ (2 * (m : ℚ) - 1) ^ 2 ≤ 4 * Y) ∧ 4 * Y ≤ (2 * (m : ℚ) + 1) ^ 2 ∧
  (4 * Y = (2 * (m : ℚ) + 1) ^ 2 → m % 2 = 0) ∧ (m ≠ 0 → (2 * (m : ℚ) - 1) ^ 2 = 4 * Y → m % 2 = 0)

theorem Near_lt_absurd {Y : ℚ} {m1 m2 : ℕ} (h1 : Near Y m1) (h2 : Near Y m2) (hlt : m1 < m2) : False := by
  obtain ⟨-, a2, a3, -⟩ := h1
  obtain ⟨b1, -, -, b4⟩ := h2
  have hm2 : m2 ≠ 0 := by omega
  have b1' : (2 * (m2 : ℚ) - 1) ^ 2 ≤ 4 * Y := by
    rcases b1 with h | h
    · exact absurd h hm2
    · exact h
  have hc : (m1 : ℚ) + 1 ≤ m2 := by exact_mod_cast hlt
  have hm1 : (0 : ℚ) ≤ m1 := Nat.cast_nonneg _
  have hsq : (2 * (m1 : ℚ) + 1) ^ 2 ≤ (2 * (m2 : ℚ) - 1) ^ 2 :=
    pow_le_pow_left₀ (by linarith) (by linarith) 2
  have e1 : 4 * Y = (2 * (m1 : ℚ) + 1) ^ 2 := by linarith
  have e2 : (2 * (m2 : ℚ) - 1) ^ 2 = 4 * Y := by linarith
  have p1 := a3 e1
  have p2 := b4 hm2 e2
  have hprod : ((2 * (m2 : ℚ) - 1) - (2 * (m1 : ℚ) + 1)) * ((2 * (m2 : ℚ) - 1) + (2 * (m1 : ℚ) + 1)) = 0 := by
    have : (2 * (m2 : ℚ) - 1) ^ 2 = (2 * (m1 : ℚ) + 1) ^ 2 := by linarith
    ring_nf; ring_nf at this; linarith
  rcases mul_eq_zero.1 hprod with h | h
  · have : (m2 : ℚ) = m1 + 1 := by linarith
    have : m2 = m1 + 1 := by exact_mod_cast this
    omega
  · linarith

theorem Near_unique {Y : ℚ} {m1 m2 : ℕ} (h1 : Near Y m1) (h2 : Near Y m2) : m1 = m2 := by
  rcases Nat.lt_trichotomy m1 m2 with h | h | h
  · exact (Near_lt_absurd h1 h2 h).elim
  · exact h
  · exact (Near_lt_absurd h2 h1 h).elim

/-- a natural number within `δ ≤ 1/2` of the root is the nearest one (no tie) -/
theorem Near_of_close (m : ℕ) (δ Y : ℚ) (hδ0 : 0 ≤ δ) (hδ : δ ≤ 1 / 2)
    (hlo : ((m : ℚ) - δ) ^ 2 < Y) (hhi : Y < ((m : ℚ) + δ) ^ 2) : Near Y m ∧ ((m : ℚ) ^ 2 = Y → δ ≠ 0) := by
  have hm0 : (0 : ℚ) ≤ m := Nat.cast_nonneg _
  have hm : 1 ≤ m := by
    rcases Nat.eq_zero_or_pos m with h | h
    · subst h; simp at hlo hhi; linarith
    · exact h
  have hm1 : (1 : ℚ) ≤ m := by exact_mod_cast hm
  have l1 : ((m : ℚ) - 1 / 2) ^ 2 ≤ ((m : ℚ) - δ) ^ 2 := pow_le_pow_left₀ (by linarith) (by linarith) 2
  have l2 : ((m : ℚ) + δ) ^ 2 ≤ ((m : ℚ) + 1 / 2) ^ 2 := pow_le_pow_left₀ (by linarith) (by linarith) 2
  have a1 : (2 * (m : ℚ) - 1) ^ 2 < 4 * Y := by nlinarith
  have a2 : 4 * Y < (2 * (m : ℚ) + 1) ^ 2 := by nlinarith
  refine ⟨⟨Or.inr a1.le, a2.le, fun h => absurd h (ne_of_lt a2), fun _ h => absurd h (ne_of_lt a1)⟩, ?_⟩
  intro h hd
  subst hd; simp at hlo; linarith

/-- the choice made by the settling step, as a function of the comparison of `(2T+1)²` with `4Y` -/
def choice (T : ℕ) (Y : ℚ) : ℕ :=
  if (2 * (T : ℚ) + 1) ^ 2 < 4 * Y ∨ ((2 * (T : ℚ) + 1) ^ 2 = 4 * Y ∧ T % 2 = 1) then T + 1 else T

/-- same quantum: the truncated iterate `T ≤ D < T+1` is within `δ ≤ 1/2` of the root; the comparison with
the midpoint selects the nearest natural number -/
theorem Near_choice (T : ℕ) (D δ Y : ℚ) (hT1 : (T : ℚ) ≤ D) (hT2 : D < (T : ℚ) + 1)
    (hδ0 : 0 ≤ δ) (hδ : δ ≤ 1 / 2) (hDδ : δ ≤ D)
    (hlo : (D - δ) ^ 2 < Y) (hhi : Y < (D + δ) ^ 2) : Near Y (choice T Y) := by
  have hT0 : (0 : ℚ) ≤ T := Nat.cast_nonneg _
  -- T = 0 or (2T-1)² < 4Y
  have F1 : T = 0 ∨ (2 * (T : ℚ) - 1) ^ 2 < 4 * Y := by
    rcases Nat.eq_zero_or_pos T with h | h
    · exact Or.inl h
    · right
      have h1 : (1 : ℚ) ≤ T := by exact_mod_cast h
      have : ((T : ℚ) - 1 / 2) ^ 2 ≤ (D - δ) ^ 2 := pow_le_pow_left₀ (by linarith) (by linarith) 2
      nlinarith
  have F2 : 4 * Y < (2 * (T : ℚ) + 3) ^ 2 := by
    have : (D + δ) ^ 2 ≤ ((T : ℚ) + 3 / 2) ^ 2 := pow_le_pow_left₀ (by linarith) (by linarith) 2
    nlinarith
  unfold choice
  split_ifs with hc
  · -- T + 1
    have e : (2 * ((T + 1 : ℕ) : ℚ) - 1) = 2 * (T : ℚ) + 1 := by push_cast; ring
    have e' : (2 * ((T + 1 : ℕ) : ℚ) + 1) = 2 * (T : ℚ) + 3 := by push_cast; ring
    refine ⟨Or.inr ?_, ?_, ?_, ?_⟩
    · rw [e]; rcases hc with h | h
      · exact h.le
      · exact h.1.le
    · rw [e']; exact F2.le
    · rw [e']; intro h; exact absurd h (ne_of_lt F2)
    · intro _; rw [e]; intro h
      rcases hc with h' | h'
      · exact absurd h (ne_of_lt h')
      · omega
  · -- T
    have hc' : 4 * Y ≤ (2 * (T : ℚ) + 1) ^ 2 := by
      by_contra hh
      exact hc (Or.inl (not_le.1 hh))
    refine ⟨?_, hc', ?_, ?_⟩
    · rcases F1 with h | h
      · exact Or.inl h
      · exact Or.inr h.le
    · intro h
      by_contra hodd
      exact hc (Or.inr ⟨h.symm, by omega⟩)
    · intro hT h
      rcases F1 with h' | h'
      · exact absurd h' hT
      · exact absurd h (ne_of_lt h')

/-- iterate in the decade above the root: the root is just below the power of ten `M` -/
theorem Near_above (M : ℕ) (D δ Y : ℚ) (hM : 1 ≤ M) (hY : Y < (M : ℚ) ^ 2) (hD : (M : ℚ) ≤ D)
    (hδ0 : 0 ≤ δ) (hδ : δ ≤ 1 / 2) (hlo : (D - δ) ^ 2 < Y) : Near Y M := by
  have h1 : (1 : ℚ) ≤ M := by exact_mod_cast hM
  have l1 : ((M : ℚ) - 1 / 2) ^ 2 ≤ (D - δ) ^ 2 := pow_le_pow_left₀ (by linarith) (by linarith) 2
  have a1 : (2 * (M : ℚ) - 1) ^ 2 < 4 * Y := by nlinarith
  have a2 : 4 * Y < (2 * (M : ℚ) + 1) ^ 2 := by nlinarith
  exact ⟨Or.inr a1.le, a2.le, fun h => absurd h (ne_of_lt a2), fun _ h => absurd h (ne_of_lt a1)⟩

/-- iterate in the decade below the root: the root is at or just above the power of ten `M` -/
theorem Near_below (M : ℕ) (D δ Y : ℚ) (hM : 1 ≤ M) (hY : (M : ℚ) ^ 2 ≤ Y) (hD : D < (M : ℚ))
    (hδ0 : 0 ≤ δ) (hδ : δ ≤ 1 / 2) (hDδ : 0 ≤ D + δ) (hhi : Y < (D + δ) ^ 2) : Near Y M := by
  have h1 : (1 : ℚ) ≤ M := by exact_mod_cast hM
  have l2 : (D + δ) ^ 2 ≤ ((M : ℚ) + 1 / 2) ^ 2 := pow_le_pow_left₀ hDδ (by linarith) 2
  have a1 : (2 * (M : ℚ) - 1) ^ 2 < 4 * Y := by nlinarith
  have a2 : 4 * Y < (2 * (M : ℚ) + 1) ^ 2 := by nlinarith
  exact ⟨Or.inr a1.le, a2.le, fun h => absurd h (ne_of_lt a2), fun _ h => absurd h (ne_of_lt a1)⟩

/-- uniqueness of the floor at a positive step -/
theorem floor_unique (T K : ℕ) (D w : ℚ) (hw : 0 < w) (h1 : (T : ℚ) * w ≤ D) (h2 : D < ((T : ℚ) + 1) * w)
    (k1 : (K : ℚ) * w ≤ D) (k2 : D < ((K : ℚ) + 1) * w) : T = K := by
  have a : (T : ℚ) < (K : ℚ) + 1 := by
    by_contra h
    have : ((K : ℚ) + 1) * w ≤ (T : ℚ) * w := mul_le_mul_of_nonneg_right (not_lt.1 h) hw.le
    linarith
  have b : (K : ℚ) < (T : ℚ) + 1 := by
    by_contra h
    have : ((T : ℚ) + 1) * w ≤ (K : ℚ) * w := mul_le_mul_of_nonneg_right (not_lt.1 h) hw.le
    linarith
  have a' : T < K + 1 := by exact_mod_cast a
  have b' : K < T + 1 := by exact_mod_cast b
  omega

/-! ## the positions of the truncated iterate relative to the root -/

theorem scale_lo {a X u : ℚ} (hu : 0 < u) (h : a ^ 2 < X) : (a / u) ^ 2 < X / u ^ 2 := by
  rw [div_pow]; exact div_lt_div_of_pos_right h (pow_pos hu 2)

theorem scale_hi {a X u : ℚ} (hu : 0 < u) (h : X < a ^ 2) : X / u ^ 2 < (a / u) ^ 2 := by
  rw [div_pow]; exact div_lt_div_of_pos_right h (pow_pos hu 2)

/-- same quantum `u` -/
theorem caseS (T : ℕ) (X D δ u : ℚ) (hu : 0 < u) (hT1 : (T : ℚ) * u ≤ D) (hT2 : D < ((T : ℚ) + 1) * u)
    (hδ0 : 0 ≤ δ) (hδ : δ ≤ u / 2) (hDδ : δ ≤ D)
    (hlo : (D - δ) ^ 2 < X) (hhi : X < (D + δ) ^ 2) : Near (X / u ^ 2) (choice T (X / u ^ 2)) := by
  apply Near_choice T (D / u) (δ / u) (X / u ^ 2)
  · rw [le_div_iff₀ hu]; exact hT1
  · rw [div_lt_iff₀ hu]; exact hT2
  · exact div_nonneg hδ0 hu.le
  · rw [div_le_iff₀ hu]; linarith
  · exact div_le_div_of_nonneg_right hDδ hu.le
  · rw [← sub_div]; exact scale_lo hu hlo
  · rw [← add_div]; exact scale_hi hu hhi

/-- the iterate is a multiple of a quantum `≥ u`: it is the nearest multiple of `u` -/
theorem caseE (m : ℕ) (X D δ u : ℚ) (hu : 0 < u) (hD : D = (m : ℚ) * u)
    (hδ0 : 0 ≤ δ) (hδ : δ ≤ u / 2)
    (hlo : (D - δ) ^ 2 < X) (hhi : X < (D + δ) ^ 2) : Near (X / u ^ 2) m := by
  have e : D / u = m := by rw [hD]; field_simp
  refine (Near_of_close m (δ / u) (X / u ^ 2) (div_nonneg hδ0 hu.le) ?_ ?_ ?_).1
  · rw [div_le_iff₀ hu]; linarith
  · rw [← e, ← sub_div]; exact scale_lo hu hlo
  · rw [← e, ← add_div]; exact scale_hi hu hhi

/-- iterate at or above the power of ten `H = 10^P·u` that bounds the root from above; it is truncated at the
quantum `10u` -/
theorem caseU (T P : ℕ) (X D δ u H : ℚ) (hP : 1 ≤ P) (hu : 0 < u) (hH : H = ((10 ^ P : ℕ) : ℚ) * u)
    (hX : X < H ^ 2) (hD : H ≤ D)
    (hT1 : (T : ℚ) * (u * 10) ≤ D) (hT2 : D < ((T : ℚ) + 1) * (u * 10))
    (hδ0 : 0 ≤ δ) (hδ : δ ≤ u / 2) (hlo : (D - δ) ^ 2 < X) :
    choice T (X / (u * 10) ^ 2) = T ∧ (T : ℚ) * (u * 10) = ((10 ^ P : ℕ) : ℚ) * u ∧
      Near (X / u ^ 2) (10 ^ P) := by
  have hw : 0 < u * 10 := by linarith
  obtain ⟨k, rfl⟩ : ∃ k, P = k + 1 := ⟨P - 1, by omega⟩
  have hpk : ((10 ^ (k + 1) : ℕ) : ℚ) = ((10 ^ k : ℕ) : ℚ) * 10 := by push_cast; ring
  have hk0 : (0 : ℚ) < ((10 ^ k : ℕ) : ℚ) := by exact_mod_cast Nat.pow_pos (by decide : 0 < 10)
  have hH0 : 0 < H := by rw [hH, hpk]; positivity
  have hHw : H = ((10 ^ k : ℕ) : ℚ) * (u * 10) := by rw [hH, hpk]; ring
  have hDH : D - δ < H := lt_of_pow_lt_pow_left₀ 2 hH0.le (lt_trans hlo hX)
  have hTk : T = 10 ^ k := by
    apply floor_unique T (10 ^ k) D (u * 10) hw hT1 hT2
    · rw [← hHw]; exact hD
    · rw [add_mul, ← hHw]; linarith
  refine ⟨?_, ?_, ?_⟩
  · unfold choice
    have hY : X / (u * 10) ^ 2 < ((10 ^ k : ℕ) : ℚ) ^ 2 := by
      rw [div_lt_iff₀ (pow_pos hw 2), ← mul_pow, ← hHw]; exact hX
    rw [hTk]
    have : ¬ ((2 * ((10 ^ k : ℕ) : ℚ) + 1) ^ 2 < 4 * (X / (u * 10) ^ 2) ∨
        ((2 * ((10 ^ k : ℕ) : ℚ) + 1) ^ 2 = 4 * (X / (u * 10) ^ 2) ∧ 10 ^ k % 2 = 1)) := by
      intro h
      rcases h with h | h
      · nlinarith
      · nlinarith [h.1]
    rw [if_neg this]
  · rw [hTk, ← hHw, hH]
  · apply Near_above (10 ^ (k + 1)) (D / u) (δ / u) (X / u ^ 2) (Nat.pow_pos (by decide))
    · rw [div_lt_iff₀ (pow_pos hu 2), ← mul_pow, ← hH]; exact hX
    · rw [le_div_iff₀ hu, ← hH]; exact hD
    · exact div_nonneg hδ0 hu.le
    · rw [div_le_iff₀ hu]; linarith
    · rw [← sub_div]; exact scale_lo hu hlo

/-- iterate below the power of ten `H = 10^(P-1)·u` that bounds the root from below; it is truncated at the
quantum `u/10` -/
theorem caseL (T P : ℕ) (X D δ u H : ℚ) (hP : 1 ≤ P) (hu : 0 < u) (hH : H = ((10 ^ (P - 1) : ℕ) : ℚ) * u)
    (hX : H ^ 2 ≤ X) (hD : D < H)
    (hT1 : (T : ℚ) * (u / 10) ≤ D) (hT2 : D < ((T : ℚ) + 1) * (u / 10))
    (hδ0 : 0 ≤ δ) (hδ : δ ≤ u / 20) (hDδ : 0 ≤ D) (hhi : X < (D + δ) ^ 2) :
    choice T (X / (u / 10) ^ 2) = T + 1 ∧ ((T : ℚ) + 1) * (u / 10) = ((10 ^ (P - 1) : ℕ) : ℚ) * u ∧
      T + 1 = 10 ^ P ∧ Near (X / u ^ 2) (10 ^ (P - 1)) := by
  have hw : 0 < u / 10 := by linarith
  obtain ⟨k, rfl⟩ : ∃ k, P = k + 1 := ⟨P - 1, by omega⟩
  simp only [Nat.add_sub_cancel] at *
  have hpk : ((10 ^ (k + 1) : ℕ) : ℚ) = ((10 ^ k : ℕ) : ℚ) * 10 := by push_cast; ring
  have hk0 : (0 : ℚ) < ((10 ^ k : ℕ) : ℚ) := by exact_mod_cast Nat.pow_pos (by decide : 0 < 10)
  have hk1 : (1 : ℚ) ≤ ((10 ^ k : ℕ) : ℚ) := by exact_mod_cast Nat.pow_pos (by decide : 0 < 10)
  have hH0 : 0 < H := by rw [hH]; positivity
  have hHw : H = ((10 ^ (k + 1) : ℕ) : ℚ) * (u / 10) := by rw [hH, hpk]; ring
  have hDH : H < D + δ := lt_of_pow_lt_pow_left₀ 2 (by linarith) (lt_of_le_of_lt hX hhi)
  have hpos : 1 ≤ 10 ^ (k + 1) := Nat.pow_pos (by decide)
  have hTk : T = 10 ^ (k + 1) - 1 := by
    apply floor_unique T (10 ^ (k + 1) - 1) D (u / 10) hw hT1 hT2
    · rw [Nat.cast_sub hpos, sub_mul, ← hHw]; push_cast; linarith
    · rw [Nat.cast_sub hpos]; push_cast; rw [sub_add_cancel]
      have := hHw; push_cast at this; rw [← this]; exact hD
  have hT1' : T + 1 = 10 ^ (k + 1) := by omega
  have hTq : (T : ℚ) + 1 = ((10 ^ (k + 1) : ℕ) : ℚ) := by exact_mod_cast hT1'
  refine ⟨?_, ?_, hT1', ?_⟩
  · unfold choice
    have hY : ((10 ^ (k + 1) : ℕ) : ℚ) ^ 2 ≤ X / (u / 10) ^ 2 := by
      rw [le_div_iff₀ (pow_pos hw 2), ← mul_pow, ← hHw]; exact hX
    have h10 : (1 : ℚ) ≤ ((10 ^ (k + 1) : ℕ) : ℚ) := by exact_mod_cast hpos
    have : (2 * (T : ℚ) + 1) ^ 2 < 4 * (X / (u / 10) ^ 2) := by
      have : (2 * (T : ℚ) + 1) = 2 * ((10 ^ (k + 1) : ℕ) : ℚ) - 1 := by rw [← hTq]; ring
      rw [this]; nlinarith
    rw [if_pos (Or.inl this)]
  · rw [hTq, ← hHw, hH]
  · apply Near_below (10 ^ k) (D / u) (δ / u) (X / u ^ 2) (Nat.pow_pos (by decide))
    · rw [le_div_iff₀ (pow_pos hu 2), ← mul_pow, ← hH]; exact hX
    · rw [div_lt_iff₀ hu, ← hH]; exact hD
    · exact div_nonneg hδ0 hu.le
    · rw [div_le_iff₀ hu]; linarith
    · rw [← add_div]; exact div_nonneg (by linarith) hu.le
    · rw [← add_div]; exact scale_hi hu hhi

/-- in the position of `caseL` the iterate cannot be a multiple of its own quantum `u/10` -/
theorem caseL_exact_absurd (T P : ℕ) (X D δ u H : ℚ) (hP : 1 ≤ P) (hu : 0 < u)
    (hH : H = ((10 ^ (P - 1) : ℕ) : ℚ) * u) (hX : H ^ 2 ≤ X) (hD : D < H) (hT : D = (T : ℚ) * (u / 10))
    (hδ0 : 0 ≤ δ) (hδ : δ ≤ u / 20) (hDδ : 0 ≤ D) (hhi : X < (D + δ) ^ 2) : False := by
  obtain ⟨-, e, -, -⟩ := caseL T P X D δ u H hP hu hH hX hD (by rw [hT]) (by rw [hT]; nlinarith) hδ0 hδ hDδ hhi
  have hDH : H < D + δ := lt_of_pow_lt_pow_left₀ 2 (by linarith) (lt_of_le_of_lt hX hhi)
  rw [← hH] at e
  rw [hT] at hDH
  nlinarith

/-! ## the three positions, with powers of ten -/

theorem cases_q {h q qd ad etiny : ℤ} {P : ℕ} (had1 : h - 2 ≤ ad) (had2 : ad ≤ h)
    (hq : q = max (h - P) etiny) (hqd : qd = max (ad - P + 1) etiny) :
    qd = q ∨ (qd = q + 1 ∧ ad = h ∧ q = h - P) ∨ (qd = q - 1 ∧ ad = h - 2 ∧ q = h - P) := by
  omega

theorem delta_le {h q : ℤ} {P : ℕ} {δ : ℚ} (hδ : δ ≤ (10 : ℚ) ^ (h - P - 4)) (hq : h - P ≤ q) :
    δ ≤ (10 : ℚ) ^ q / 10000 := by
  have h1 : (10 : ℚ) ^ (h - P - 4) ≤ (10 : ℚ) ^ (q - 4) := zpow_le_zpow_right₀ ten_ge (by omega)
  have h2 : (10 : ℚ) ^ (q - 4) = (10 : ℚ) ^ q / 10000 := by
    rw [zpow_sub₀ ten_ne]; norm_num
  linarith

theorem pow_split (q : ℤ) (k : ℕ) : (10 : ℚ) ^ (q + (k : ℤ)) = ((10 ^ k : ℕ) : ℚ) * (10 : ℚ) ^ q := by
  rw [zpow_add₀ ten_ne, zpow_natCast]; push_cast; ring

/-- **the settling step selects the nearest multiple of the specification's quantum**: `T` is the iterate
`D` truncated at its own quantum `10^qd`; the selected coefficient times `10^qd` is `m·10^q` with `m`
nearest to `√X / 10^q`, ties to even -/
theorem settle_math (X D δ : ℚ) (h q qd ad etiny : ℤ) (P T : ℕ) (hP : 1 ≤ P)
    (hX1 : ((10 : ℚ) ^ (h - 1)) ^ 2 ≤ X) (hX2 : X < ((10 : ℚ) ^ h) ^ 2)
    (hδ0 : 0 ≤ δ) (hδ : δ ≤ (10 : ℚ) ^ (h - P - 4)) (hDδ : δ ≤ D)
    (hlo : (D - δ) ^ 2 < X) (hhi : X < (D + δ) ^ 2)
    (hA1 : (10 : ℚ) ^ ad ≤ D) (hA2 : D < (10 : ℚ) ^ (ad + 1)) (had1 : h - 2 ≤ ad) (had2 : ad ≤ h)
    (hq : q = max (h - P) etiny) (hqd : qd = max (ad - P + 1) etiny)
    (hT1 : (T : ℚ) * (10 : ℚ) ^ qd ≤ D) (hT2 : D < ((T : ℚ) + 1) * (10 : ℚ) ^ qd) :
    ∃ m : ℕ, ((choice T (X / ((10 : ℚ) ^ qd) ^ 2) : ℕ) : ℚ) * (10 : ℚ) ^ qd = (m : ℚ) * (10 : ℚ) ^ q ∧
      Near (X / ((10 : ℚ) ^ q) ^ 2) m := by
  have hu := tp q
  have hδu := delta_le hδ (by omega : h - P ≤ q)
  have hD0 : 0 ≤ D := le_trans hδ0 hDδ
  rcases cases_q had1 had2 hq hqd with e | ⟨e, ea, eq⟩ | ⟨e, ea, eq⟩
  · rw [e] at hT1 hT2 ⊢
    exact ⟨_, rfl, caseS T X D δ _ hu hT1 hT2 hδ0 (by linarith) hDδ hlo hhi⟩
  · have ew : (10 : ℚ) ^ qd = (10 : ℚ) ^ q * 10 := by rw [e, zpow_add_one₀ ten_ne]
    have eH : (10 : ℚ) ^ h = ((10 ^ P : ℕ) : ℚ) * (10 : ℚ) ^ q := by
      rw [← pow_split]; congr 1; omega
    rw [ew] at hT1 hT2 ⊢
    obtain ⟨c1, c2, c3⟩ := caseU T P X D δ _ _ hP hu eH hX2 (by rw [ea] at hA1; exact hA1) hT1 hT2 hδ0
      (by linarith) hlo
    exact ⟨10 ^ P, by rw [c1, c2], c3⟩
  · have ew : (10 : ℚ) ^ qd = (10 : ℚ) ^ q / 10 := by
      rw [e, zpow_sub_one₀ ten_ne, div_eq_mul_inv]
    have eH : (10 : ℚ) ^ (h - 1) = ((10 ^ (P - 1) : ℕ) : ℚ) * (10 : ℚ) ^ q := by
      rw [← pow_split]; congr 1; omega
    rw [ew] at hT1 hT2 ⊢
    have hDH : D < (10 : ℚ) ^ (h - 1) := by
      have : ad + 1 = h - 1 := by omega
      rw [this] at hA2; exact hA2
    obtain ⟨c1, c2, -, c4⟩ := caseL T P X D δ _ _ hP hu eH hX1 hDH hT1 hT2 hδ0 (by linarith) hD0 hhi
    refine ⟨10 ^ (P - 1), ?_, c4⟩
    rw [c1, ← c2]; push_cast; ring

/-- the iterate is itself a multiple of its quantum: it is the nearest multiple of the specification's
quantum -/
theorem exact_math (X D δ : ℚ) (h q qd ad etiny : ℤ) (P T : ℕ) (hP : 1 ≤ P)
    (hX1 : ((10 : ℚ) ^ (h - 1)) ^ 2 ≤ X) (hX2 : X < ((10 : ℚ) ^ h) ^ 2)
    (hδ0 : 0 ≤ δ) (hδ : δ ≤ (10 : ℚ) ^ (h - P - 4)) (hDδ : δ ≤ D)
    (hlo : (D - δ) ^ 2 < X) (hhi : X < (D + δ) ^ 2)
    (hA1 : (10 : ℚ) ^ ad ≤ D) (hA2 : D < (10 : ℚ) ^ (ad + 1)) (had1 : h - 2 ≤ ad) (had2 : ad ≤ h)
    (hq : q = max (h - P) etiny) (hqd : qd = max (ad - P + 1) etiny)
    (hT : D = (T : ℚ) * (10 : ℚ) ^ qd) :
    ∃ m : ℕ, D = (m : ℚ) * (10 : ℚ) ^ q ∧ Near (X / ((10 : ℚ) ^ q) ^ 2) m := by
  have hu := tp q
  have hδu := delta_le hδ (by omega : h - P ≤ q)
  have hD0 : 0 ≤ D := le_trans hδ0 hDδ
  rcases cases_q had1 had2 hq hqd with e | ⟨e, ea, eq⟩ | ⟨e, ea, eq⟩
  · rw [e] at hT
    exact ⟨T, hT, caseE T X D δ _ hu hT hδ0 (by linarith) hlo hhi⟩
  · have ew : (10 : ℚ) ^ qd = (10 : ℚ) ^ q * 10 := by rw [e, zpow_add_one₀ ten_ne]
    have hT' : D = ((T * 10 : ℕ) : ℚ) * (10 : ℚ) ^ q := by rw [hT, ew]; push_cast; ring
    exact ⟨T * 10, hT', caseE (T * 10) X D δ _ hu hT' hδ0 (by linarith) hlo hhi⟩
  · exfalso
    have ew : (10 : ℚ) ^ qd = (10 : ℚ) ^ q / 10 := by
      rw [e, zpow_sub_one₀ ten_ne, div_eq_mul_inv]
    have eH : (10 : ℚ) ^ (h - 1) = ((10 ^ (P - 1) : ℕ) : ℚ) * (10 : ℚ) ^ q := by
      rw [← pow_split]; congr 1; omega
    have hDH : D < (10 : ℚ) ^ (h - 1) := by
      have : ad + 1 = h - 1 := by omega
      rw [this] at hA2; exact hA2
    rw [ew] at hT
    exact caseL_exact_absurd T P X D δ _ _ hP hu eH hX1 hDH hT hδ0 (by linarith) hD0 hhi

/-! ## the frame `num/den = x / 10^(2q)` over `ℚ` -/

open Apd.Props Apd.C11L

/-- magnitude of a decimal -/
noncomputable def magQ (x : Dec) : ℚ := (x.coeff : ℚ) * (10 : ℚ) ^ x.exp

theorem toRat_pos (x : Dec) (hn : x.neg = false) : x.toRat = magQ x := by
  unfold Dec.toRat magQ; simp [hn]

theorem sq_zpow (q : ℤ) : ((10 : ℚ) ^ q) ^ 2 = (10 : ℚ) ^ (2 * q) := by
  rw [pow_two, ← zpow_add₀ ten_ne]; congr 1; ring

theorem frame_rat (x : Dec) (q : ℤ) :
    (sqrtNum x q : ℚ) / (sqrtDen x q : ℚ) = magQ x / ((10 : ℚ) ^ q) ^ 2 := by
  unfold sqrtNum sqrtDen magQ
  rw [sq_zpow]
  have h2 := (tp (2 * q)).ne'
  by_cases hs : x.exp - 2 * q ≥ 0
  · rw [if_pos hs, if_pos hs]
    rw [Nat.cast_mul, zpow_toNat _ hs, zpow_sub₀ ten_ne, Nat.cast_one, div_one, mul_div_assoc]
  · rw [if_neg hs, if_neg hs]
    rw [zpow_toNat _ (by omega), neg_sub, zpow_sub₀ ten_ne]
    have := (tp x.exp).ne'
    field_simp

theorem frame_mul {num den : ℕ} {Y : ℚ} (hd : 0 < den) (h : (num : ℚ) / (den : ℚ) = Y) (a : ℕ) :
    ((a * den < 4 * num ↔ (a : ℚ) < 4 * Y) ∧ (4 * num < a * den ↔ 4 * Y < (a : ℚ)) ∧
      (4 * num = a * den ↔ 4 * Y = (a : ℚ))) := by
  have hdq : (0 : ℚ) < den := by exact_mod_cast hd
  have e : (num : ℚ) = Y * den := by rw [← h]; field_simp
  refine ⟨?_, ?_, ?_⟩
  · constructor
    · intro hh
      have : ((a * den : ℕ) : ℚ) < ((4 * num : ℕ) : ℚ) := by exact_mod_cast hh
      push_cast at this; rw [e] at this
      by_contra hc
      nlinarith [not_lt.1 hc]
    · intro hh
      have : ((a * den : ℕ) : ℚ) < ((4 * num : ℕ) : ℚ) := by push_cast; rw [e]; nlinarith
      exact_mod_cast this
  · constructor
    · intro hh
      have : ((4 * num : ℕ) : ℚ) < ((a * den : ℕ) : ℚ) := by exact_mod_cast hh
      push_cast at this; rw [e] at this
      by_contra hc
      nlinarith [not_lt.1 hc]
    · intro hh
      have : ((4 * num : ℕ) : ℚ) < ((a * den : ℕ) : ℚ) := by push_cast; rw [e]; nlinarith
      exact_mod_cast this
  · constructor
    · intro hh
      have : ((4 * num : ℕ) : ℚ) = ((a * den : ℕ) : ℚ) := by exact_mod_cast hh
      push_cast at this; rw [e] at this
      have h3 : (4 * Y - a) * den = 0 := by linarith
      rcases mul_eq_zero.1 h3 with h4 | h4
      · linarith
      · exact absurd h4 hdq.ne'
    · intro hh
      have : ((4 * num : ℕ) : ℚ) = ((a * den : ℕ) : ℚ) := by push_cast; rw [e]; rw [← hh]; ring
      exact_mod_cast this

/-- the coefficient `sqrtSettle` selects, as a comparison of rationals -/
theorem sqrtChoice_rat (t x : Dec) (hx : x.form = .finite) (hxn : x.neg = false) :
    sqrtChoice t x = choice t.coeff (magQ x / ((10 : ℚ) ^ t.exp) ^ 2) := by
  have hd := sqrtDen_pos x t.exp
  have hf := frame_rat x t.exp
  obtain ⟨f1, f2, f3⟩ := frame_mul hd hf ((2 * t.coeff + 1) * (2 * t.coeff + 1))
  have ec : (((2 * t.coeff + 1) * (2 * t.coeff + 1) : ℕ) : ℚ) = (2 * (t.coeff : ℚ) + 1) ^ 2 := by
    push_cast; ring
  rw [ec] at f1 f2 f3
  unfold choice
  rcases Nat.lt_trichotomy (4 * sqrtNum x t.exp) ((2 * t.coeff + 1) * (2 * t.coeff + 1) * sqrtDen x t.exp)
    with hlt | heq | hgt
  · rw [sqrtChoice_gt t x hx hxn hlt]
    have h1 := f2.1 hlt
    rw [if_neg]
    intro h
    rcases h with h | h
    · linarith
    · linarith [h.1]
  · rw [sqrtChoice_tie t x hx hxn heq]
    have h1 := f3.1 heq
    by_cases hp : t.coeff % 2 = 1
    · rw [if_pos hp, if_pos (Or.inr ⟨h1.symm, hp⟩)]
    · rw [if_neg hp, if_neg]
      intro h
      rcases h with h | h
      · linarith
      · exact hp h.2
  · rw [sqrtChoice_lt t x hx hxn hgt]
    rw [if_pos (Or.inl (f1.1 hgt))]

/-! ## the specification's coefficient -/

/-- the quantum of `specSqrt` -/
def sQ (c : Ctx) (x : Dec) : Int :=
  max (fdiv2 ((ndigits x.coeff : Int) - 1 + x.exp) - (c.prec : Int) + 1) (c.emin - (c.prec : Int) + 1)

def sN (c : Ctx) (x : Dec) : Nat := isqrt (sqrtNum x (sQ c x) / sqrtDen x (sQ c x))

def sExact (c : Ctx) (x : Dec) : Bool := sN c x * sN c x * sqrtDen x (sQ c x) == sqrtNum x (sQ c x)

/-- the coefficient of `specSqrt` (before the overflow test) -/
def sM (c : Ctx) (x : Dec) : Nat :=
  if sExact c x then sN c x
  else if specAddOne .halfEven (sN c x) false
      (compare (4 * sqrtNum x (sQ c x)) ((2 * sN c x + 1) * (2 * sN c x + 1) * sqrtDen x (sQ c x)))
    then sN c x + 1 else sN c x

theorem specSqrt_eq (c : Ctx) (x : Dec) :
    specSqrt c x =
      if sM c x != 0 && sQ c x + (ndigits (sM c x) : Int) - 1 > c.emax then
        { inf := true, inexact := true,
          subnormal := decide (fdiv2 ((ndigits x.coeff : Int) - 1 + x.exp) < c.emin), overflow := true }
      else { m := sM c x, q := sQ c x, inexact := !sExact c x,
             subnormal := decide (fdiv2 ((ndigits x.coeff : Int) - 1 + x.exp) < c.emin) } := rfl

theorem sM_facts (c : Ctx) (x : Dec) :
    Near (magQ x / ((10 : ℚ) ^ sQ c x) ^ 2) (sM c x) ∧
    (sExact c x = true ↔ ((sM c x : ℚ)) ^ 2 = magQ x / ((10 : ℚ) ^ sQ c x) ^ 2) := by
  have hd := sqrtDen_pos x (sQ c x)
  have hf := frame_rat x (sQ c x)
  have hdq : (0 : ℚ) < sqrtDen x (sQ c x) := by exact_mod_cast hd
  have hn1 : sN c x * sN c x * sqrtDen x (sQ c x) ≤ sqrtNum x (sQ c x) :=
    (Nat.le_div_iff_mul_le hd).mp (C11_isqrt _).1
  have hn2 : sqrtNum x (sQ c x) < (sN c x + 1) * (sN c x + 1) * sqrtDen x (sQ c x) :=
    (Nat.div_lt_iff_lt_mul hd).mp (C11_isqrt _).2
  have hcore := nearest_core (sN c x) (sqrtNum x (sQ c x)) (sqrtDen x (sQ c x)) hd hn1 hn2
  simp only [] at hcore
  change ((2 * sM c x - 1) * (2 * sM c x - 1) * sqrtDen x (sQ c x) ≤ 4 * sqrtNum x (sQ c x) ∨ sM c x = 0) ∧
    4 * sqrtNum x (sQ c x) ≤ (2 * sM c x + 1) * (2 * sM c x + 1) * sqrtDen x (sQ c x) ∧
    (4 * sqrtNum x (sQ c x) = (2 * sM c x + 1) * (2 * sM c x + 1) * sqrtDen x (sQ c x) → sM c x % 2 = 0) ∧
    (sM c x ≠ 0 → (2 * sM c x - 1) * (2 * sM c x - 1) * sqrtDen x (sQ c x) = 4 * sqrtNum x (sQ c x) →
      sM c x % 2 = 0) ∧
    ((!sExact c x) = false ↔ sM c x * sM c x * sqrtDen x (sQ c x) = sqrtNum x (sQ c x)) at hcore
  obtain ⟨g1, g2, g3, g4, g5⟩ := hcore
  generalize sM c x = m at *
  generalize sqrtNum x (sQ c x) = num at *
  generalize sqrtDen x (sQ c x) = den at *
  generalize magQ x / ((10 : ℚ) ^ sQ c x) ^ 2 = Y at *
  obtain ⟨p1, p2, p3⟩ := frame_mul hd hf ((2 * m + 1) * (2 * m + 1))
  have ec : (((2 * m + 1) * (2 * m + 1) : ℕ) : ℚ) = (2 * (m : ℚ) + 1) ^ 2 := by push_cast; ring
  rw [ec] at p1 p2 p3
  refine ⟨⟨?_, ?_, ?_, ?_⟩, ?_⟩
  · rcases g1 with h | h
    · by_cases hm : m = 0
      · exact Or.inl hm
      · right
        obtain ⟨q1, q2, q3⟩ := frame_mul hd hf ((2 * m - 1) * (2 * m - 1))
        have ec' : (((2 * m - 1) * (2 * m - 1) : ℕ) : ℚ) = (2 * (m : ℚ) - 1) ^ 2 := by
          have : 1 ≤ 2 * m := by omega
          rw [Nat.cast_mul, Nat.cast_sub this]; push_cast; ring
        rw [ec'] at q1 q2 q3
        by_contra hc
        have := q2.2 (not_le.1 hc)
        omega
    · exact Or.inl h
  · by_contra hc
    have := p1.2 (not_le.1 hc)
    omega
  · intro h; exact g3 (p3.2 h)
  · intro hm h
    obtain ⟨q1, q2, q3⟩ := frame_mul hd hf ((2 * m - 1) * (2 * m - 1))
    have ec' : (((2 * m - 1) * (2 * m - 1) : ℕ) : ℚ) = (2 * (m : ℚ) - 1) ^ 2 := by
      have : 1 ≤ 2 * m := by omega
      rw [Nat.cast_mul, Nat.cast_sub this]; push_cast; ring
    rw [ec'] at q3
    exact g4 hm (q3.2 h.symm).symm
  · have e : (num : ℚ) = Y * den := by rw [← hf]; field_simp
    rw [show (sExact c x = true) ↔ ((!sExact c x) = false) by cases sExact c x <;> simp, g5]
    constructor
    · intro h
      have : ((m * m * den : ℕ) : ℚ) = (num : ℚ) := by exact_mod_cast h
      push_cast at this; rw [e] at this
      have h3 : ((m : ℚ) ^ 2 - Y) * den = 0 := by linarith
      rcases mul_eq_zero.1 h3 with h4 | h4
      · linarith
      · exact absurd h4 hdq.ne'
    · intro h
      have : ((m * m * den : ℕ) : ℚ) = (num : ℚ) := by push_cast; rw [e, ← h]; ring
      exact_mod_cast this

/-! ## the shape of `Context.round` on a decimal inside the package limits -/

open Cond

/-- more than `prec` digits, not subnormal, no overflow possible (`emax = MaxExponent`) -/
theorem round_long_shape (cc : Ctx) (d : Dec) (hp : 1 ≤ cc.prec) (hemin : -100000 ≤ cc.emin)
    (hemax : cc.emax = 100000) (hf : d.form = .finite) (hnd : cc.prec < ndigits d.coeff)
    (hnd2 : ndigits d.coeff ≤ 100000) (he : -100000 ≤ d.exp)
    (hadj : cc.emin ≤ d.exp + (ndigits d.coeff : Int) - 1) (hadj2 : d.exp + (ndigits d.coeff : Int) ≤ 100000) :
    (ctxRound cc d).1.form = .finite ∧ (ctxRound cc d).1.neg = d.neg ∧ NoSys (ctxRound cc d).2 ∧
    (d.exp + ((ndigits d.coeff - cc.prec : Nat) : Int) ≤ (ctxRound cc d).1.exp ∧
      (ctxRound cc d).1.exp ≤ d.exp + ((ndigits d.coeff - cc.prec : Nat) : Int) + 1) ∧
    (ctxRound cc d).2.inexact = (d.coeff % 10 ^ (ndigits d.coeff - cc.prec) != 0) ∧
    (ctxRound cc d).2.subnormal = false ∧
    ((d.coeff % 10 ^ (ndigits d.coeff - cc.prec) = 0 ∨ cc.mode = .down) →
      (ctxRound cc d).1 = { d with coeff := d.coeff / 10 ^ (ndigits d.coeff - cc.prec),
                                   exp := d.exp + ((ndigits d.coeff - cc.prec : Nat) : Int) }) := by
  have hn : d.coeff ≠ 0 := by
    intro h0; rw [h0] at hnd; have : ndigits 0 = 1 := rfl; omega
  have hpos : 0 < d.coeff := Nat.pos_of_ne_zero hn
  rw [ctxRound_finite cc d hf]
  unfold ctxRoundFin
  rw [roundX_long cc d true hf hp hnd (by omega) hadj]
  obtain ⟨D, hD⟩ : ∃ D : Nat, D = ndigits d.coeff - cc.prec := ⟨_, rfl⟩
  have hDi : (ndigits d.coeff : Int) - (cc.prec : Int) = (D : Int) := by omega
  have hDn : ((D : Int)).toNat = D := by omega
  rw [← hD]
  simp only [hDi, hDn]
  have hyd : ndigits (d.coeff / 10 ^ D) = cc.prec := by rw [hD]; exact ndigits_div_pow _ _ hpos hp (by omega)
  have hy : 0 < d.coeff / 10 ^ D := by
    apply Nat.div_pos _ (Nat.pow_pos (by decide))
    calc 10 ^ D ≤ 10 ^ (ndigits d.coeff - 1) := Nat.pow_le_pow_right (by decide) (by omega)
      _ ≤ d.coeff := (ndigits_spec _ hpos).1
  have hstep := roundStep_spec cc.mode d.neg d.coeff D d.exp hy
  simp only [] at hstep
  rw [hyd] at hstep
  have hdown : (d.coeff % 10 ^ D = 0 ∨ cc.mode = .down) →
      (if d.coeff % 10 ^ D != 0 && shouldAddOne cc.mode (d.coeff / 10 ^ D) d.neg (cmpNat (2 * (d.coeff % 10 ^ D)) (10 ^ D))
        then roundAddOne (d.coeff / 10 ^ D) (D : Int) else (d.coeff / 10 ^ D, (D : Int))) = (d.coeff / 10 ^ D, (D : Int)) := by
    intro h
    rcases h with h | h
    · simp [h]
    · simp [h, shouldAddOne]
  generalize (if d.coeff % 10 ^ D != 0 && shouldAddOne cc.mode (d.coeff / 10 ^ D) d.neg (cmpNat (2 * (d.coeff % 10 ^ D)) (10 ^ D))
              then roundAddOne (d.coeff / 10 ^ D) (D : Int) else (d.coeff / 10 ^ D, (D : Int))) = yd at hstep hdown ⊢
  obtain ⟨y1, d1⟩ := yd
  simp only [] at hstep hdown ⊢
  obtain ⟨s1, s2, s3, s4, -, -, -⟩ := hstep
  generalize hres : (if (d.coeff % 10 ^ D != 0) = true then cRounded ||| cInexact else cRounded) = res
  have hres' : res.inexact = (d.coeff % 10 ^ D != 0) ∧ res.subnormal = false ∧
      res.sysOverflow = false ∧ res.sysUnderflow = false := by
    rw [← hres]; cases (d.coeff % 10 ^ D != 0) <;> simp [cRounded, cInexact]
  obtain ⟨r1, r3, r6, r7⟩ := hres'
  have hx0 : checkXs [d.exp, d1] = none := by
    rw [checkXs_none_iff]; simp; omega
  have hsum : sumInts [d.exp, d1] = d.exp + d1 := by simp [sumInts]
  have hadj' : seAdj { form := d.form, neg := d.neg, exp := d.exp, coeff := y1 } [d.exp, d1]
      = d.exp + d1 + (ndigits y1 : Int) - 1 := by simp [seAdj, hsum]
  rw [setExponent_normal cc _ _ _ hx0 (by omega) (by omega) (by omega) hemin, hsum]
  have hsf : seFinish { form := d.form, neg := d.neg, exp := d.exp, coeff := y1 } (d.exp + d1) res =
      ({ form := d.form, neg := d.neg, exp := d.exp + d1, coeff := y1 }, res) := by
    simp [seFinish, r3]
  rw [hsf]
  refine ⟨hf, rfl, ⟨by simp [r6], by simp [r7]⟩,
    ⟨by show d.exp + (D : Int) ≤ d.exp + d1; omega, by show d.exp + d1 ≤ d.exp + (D : Int) + 1; omega⟩,
    by simp [r1], by simp [r3], ?_⟩
  intro h
  have := hdown h
  simp only [Prod.mk.injEq] at this
  obtain ⟨e1, e2⟩ := this
  rw [e1, e2]

/-- subnormal operand with exponent below `Etiny` -/
theorem round_sub_shape (cc : Ctx) (d : Dec) (hp : 1 ≤ cc.prec) (hemin : cc.emin ≤ 100000)
    (hf : d.form = .finite) (hn : d.coeff ≠ 0) (he : -100000 ≤ d.exp) (he2 : d.exp ≤ 100000)
    (hadj : d.exp + (ndigits d.coeff : Int) - 1 < cc.emin)
    (ha1 : -100000 ≤ d.exp + (ndigits d.coeff : Int) - 1) (hlt : d.exp < cc.etiny) :
    (ctxRound cc d).1.form = .finite ∧ (ctxRound cc d).1.neg = d.neg ∧ NoSys (ctxRound cc d).2 ∧
    (ctxRound cc d).1.exp = cc.etiny ∧
    (ctxRound cc d).2.inexact = (d.coeff % 10 ^ (cc.etiny - d.exp).toNat != 0) ∧
    (ctxRound cc d).2.subnormal = true ∧
    ((d.coeff % 10 ^ (cc.etiny - d.exp).toNat = 0 ∨ cc.mode = .down) →
      (ctxRound cc d).1 = { d with coeff := d.coeff / 10 ^ (cc.etiny - d.exp).toNat, exp := cc.etiny }) := by
  rw [ctxRound_finite cc d hf]
  unfold ctxRoundFin
  rw [roundX_subnormal cc d true hf hp hn hadj]
  have hck : checkXs [d.exp] = none := by
    rw [checkXs_none_iff]; simp; omega
  have hsum : sumInts [d.exp] = d.exp := by simp [sumInts]
  have hz : d.isZero = false := by simp [Dec.isZero, hn]
  rw [setExponent_subnormal_round cc d _ _ hck (by simp [seAdj, hsum]; omega) (by simp [seAdj, hsum]; omega)
    hemin (by rw [hsum]; exact hlt), hsum]
  rw [roundAt_div cc.mode d.neg d.coeff d.exp cc.etiny (by omega)]
  simp only []
  generalize (cc.etiny - d.exp).toNat = k
  obtain ⟨C', ix, hra, hix, hC⟩ : ∃ C' ix,
      (if d.coeff % 10 ^ k = 0 then (d.coeff / 10 ^ k, false)
        else (if specAddOne cc.mode (d.coeff / 10 ^ k) d.neg (compare (2 * (d.coeff % 10 ^ k)) (10 ^ k))
          then d.coeff / 10 ^ k + 1 else d.coeff / 10 ^ k, true)) = (C', ix) ∧
      ix = (d.coeff % 10 ^ k != 0) ∧
      ((d.coeff % 10 ^ k = 0 ∨ cc.mode = .down) → C' = d.coeff / 10 ^ k) := by
    by_cases hr : d.coeff % 10 ^ k = 0
    · exact ⟨_, _, by rw [if_pos hr], by simp [hr], fun _ => rfl⟩
    · refine ⟨_, _, by rw [if_neg hr], by simp [hr], ?_⟩
      intro h
      rcases h with h | h
      · exact absurd h hr
      · simp [h, specAddOne]
  rw [hra]
  simp only [hz, seFinish]
  rw [← hix]
  cases ix <;> cases hC0 : (C' == 0) <;>
    simp [hf, cSubnormal, cClamped, cRounded, cUnderflow, cInexact, NoSys] <;> exact hC

/-- the rounding quantum of `d` in `cc` -/
def qdOf (cc : Ctx) (d : Dec) : Int :=
  max (d.exp + (ndigits d.coeff : Int) - 1 - (cc.prec : Int) + 1) (cc.emin - (cc.prec : Int) + 1)

/-- a non-zero finite decimal inside the package limits, a context that cannot overflow -/
structure RHyp (cc : Ctx) (d : Dec) : Prop where
  hp : 1 ≤ cc.prec
  hemin : -100000 ≤ cc.emin
  hemin0 : cc.emin ≤ 0
  hemax : cc.emax = 100000
  hf : d.form = .finite
  hn : d.coeff ≠ 0
  he : -100000 ≤ d.exp
  hnd : ndigits d.coeff ≤ 100000
  ha1 : -100000 ≤ d.exp + (ndigits d.coeff : Int) - 1
  ha2 : d.exp + (ndigits d.coeff : Int) ≤ 100000

/-- already on the grid: returned unchanged, not Inexact -/
theorem shape_exact {cc : Ctx} {d : Dec} (H : RHyp cc d) (h : qdOf cc d ≤ d.exp) :
    (ctxRound cc d).1 = d ∧ (ctxRound cc d).2.inexact = false ∧ NoSys (ctxRound cc d).2 := by
  obtain ⟨hp, hemin, hemin0, hemax, hf, hn, he, hnd, ha1, ha2⟩ := H
  unfold qdOf at h
  have hnp := ndigits_pos d.coeff
  rw [ctxRound_finite cc d hf]
  unfold ctxRoundFin
  by_cases hadj : d.exp + (ndigits d.coeff : Int) - 1 < cc.emin
  · rw [roundX_subnormal_id cc d true hf hp hn (by omega) hadj ha1 (by unfold Ctx.etiny; omega) he (by omega)]
    exact ⟨rfl, rfl, rfl, rfl⟩
  · rw [roundX_id cc d true hf hp (by omega) hemin (by omega) (by omega) (by omega) he]
    exact ⟨rfl, rfl, rfl, rfl⟩

/-- below the grid: the coefficient is divided by `10^k` and rounded -/
theorem shape_round {cc : Ctx} {d : Dec} (H : RHyp cc d) (h : d.exp < qdOf cc d) :
    (ctxRound cc d).1.form = .finite ∧ (ctxRound cc d).1.neg = d.neg ∧ NoSys (ctxRound cc d).2 ∧
    (qdOf cc d ≤ (ctxRound cc d).1.exp ∧ (ctxRound cc d).1.exp ≤ qdOf cc d + 1) ∧
    (ctxRound cc d).2.inexact = (d.coeff % 10 ^ (qdOf cc d - d.exp).toNat != 0) ∧
    (ctxRound cc d).2.subnormal = decide (d.exp + (ndigits d.coeff : Int) - 1 < cc.emin) ∧
    ((d.coeff % 10 ^ (qdOf cc d - d.exp).toNat = 0 ∨ cc.mode = .down) →
      (ctxRound cc d).1 = { d with coeff := d.coeff / 10 ^ (qdOf cc d - d.exp).toNat, exp := qdOf cc d }) := by
  obtain ⟨hp, hemin, hemin0, hemax, hf, hn, he, hnd, ha1, ha2⟩ := H
  have hnp := ndigits_pos d.coeff
  by_cases hadj : d.exp + (ndigits d.coeff : Int) - 1 < cc.emin
  · have hq : qdOf cc d = cc.etiny := by unfold qdOf Ctx.etiny; omega
    rw [hq] at h ⊢
    obtain ⟨a1, a2, a3, a4, a5, a6, a7⟩ :=
      round_sub_shape cc d hp (by omega) hf hn he (by omega) hadj ha1 h
    refine ⟨a1, a2, a3, ⟨by omega, by omega⟩, a5, ?_, a7⟩
    rw [a6]; simp [hadj]
  · have hlt : cc.prec < ndigits d.coeff := by unfold qdOf at h; omega
    have hq : qdOf cc d = d.exp + ((ndigits d.coeff - cc.prec : Nat) : Int) := by unfold qdOf; omega
    have hk : (qdOf cc d - d.exp).toNat = ndigits d.coeff - cc.prec := by omega
    rw [hk, hq]
    obtain ⟨a1, a2, a3, a4, a5, a6, a7⟩ :=
      round_long_shape cc d hp hemin hemax hf hlt hnd he (by omega) ha2
    refine ⟨a1, a2, a3, a4, a5, ?_, a7⟩
    rw [a6]; simp [hadj]

/-! ## decimals on the result grid -/

/-- a non-negative finite decimal of at most `P` digits, exponent at or above `Etiny`, inside the package limits -/
structure Grid (P : Nat) (emin : Int) (v : Dec) : Prop where
  hf : v.form = .finite
  hneg : v.neg = false
  hnd : ndigits v.coeff ≤ P
  he : -100000 ≤ v.exp
  ha : v.exp + (ndigits v.coeff : Int) ≤ 100000
  het : emin - (P : Int) + 1 ≤ v.exp

theorem zero_round_id (cc : Ctx) (hp : 1 ≤ cc.prec) (hemin : -100000 ≤ cc.emin) (hemin0 : cc.emin ≤ 0)
    (hemax : cc.emax ≤ 100000)
    (v : Dec) (hf : v.form = .finite) (h0 : v.coeff = 0) (het : cc.etiny ≤ v.exp) (he : -100000 ≤ v.exp)
    (he2 : v.exp ≤ cc.emax) : ctxRound cc v = (v, {}) := by
  rw [ctxRound_finite cc v hf]
  unfold ctxRoundFin
  rw [roundX_short cc v true hf hp (by rw [h0]; exact hp) (Or.inl h0)]
  have hck : checkXs [v.exp, 0] = none := by
    rw [checkXs_none_iff]; simp; omega
  have hsum : sumInts [v.exp, 0] = v.exp := by simp [sumInts]
  have hadj : seAdj v [v.exp, 0] = v.exp := by simp [seAdj, hsum, h0, ndigits_zero]
  have hz : v.isZero = true := by simp [Dec.isZero, hf, h0]
  by_cases hs : v.exp < cc.emin
  · rw [setExponent_subnormal_exact cc v {} _ hck (by rw [hadj]; exact he) (by rw [hadj]; exact hs) (by omega)
      (by rw [hsum]; exact het), hsum]
    simp [hz, seFinish]
  · rw [setExponent_normal cc v {} _ hck (by rw [hadj]; omega) (by rw [hadj]; omega) (by rw [hadj]; omega) hemin,
      hsum]
    simp [seFinish]

/-- a grid decimal is returned unchanged by a rounding that cannot overflow -/
theorem grid_round_id (cc : Ctx) (hp : 1 ≤ cc.prec) (hp2 : cc.prec ≤ 100000) (hemin : -100000 ≤ cc.emin)
    (hemin0 : cc.emin ≤ 0) (hemax : cc.emax = 100000) (v : Dec) (G : Grid cc.prec cc.emin v) :
    (ctxRound cc v).1 = v ∧ (ctxRound cc v).2.inexact = false ∧ NoSys (ctxRound cc v).2 := by
  obtain ⟨hf, hneg, hnd, he, ha, het⟩ := G
  have hnp := ndigits_pos v.coeff
  by_cases h0 : v.coeff = 0
  · rw [zero_round_id cc hp hemin hemin0 (by omega) v hf h0 (by unfold Ctx.etiny; exact het) he (by omega)]
    exact ⟨rfl, rfl, rfl, rfl⟩
  · apply shape_exact ⟨hp, hemin, hemin0, hemax, hf, h0, he, by omega, by omega, ha⟩
    unfold qdOf; omega

/-- the final rounding (the caller's `MaxExponent` applied) of a grid decimal -/
theorem grid_final (cc : Ctx) (hWF : cc.WF) (v : Dec) (G : Grid cc.prec cc.emin v) :
    NoSys (ctxRound cc v).2 ∧ fits cc (ctxRound cc v).1 = true ∧ (ctxRound cc v).1.neg = false ∧
    (v.coeff = 0 → (ctxRound cc v).1.form = .finite ∧ (ctxRound cc v).1.coeff = 0 ∧
      (ctxRound cc v).2.inexact = false) ∧
    (v.coeff ≠ 0 → v.exp + (ndigits v.coeff : Int) - 1 ≤ cc.emax →
      (ctxRound cc v).1 = v ∧ (ctxRound cc v).2.inexact = false ∧ (ctxRound cc v).2.overflow = false) ∧
    (v.coeff ≠ 0 → cc.emax < v.exp + (ndigits v.coeff : Int) - 1 →
      (ctxRound cc v).1.form = .infinite ∧ (ctxRound cc v).2.inexact = true ∧
      (ctxRound cc v).2.overflow = true) := by
  obtain ⟨hf, hneg, hnd, he, ha, het⟩ := G
  have hWF' := hWF
  obtain ⟨hp, hpe, hemax, hemin, hemin0⟩ := hWF'
  have hnp := ndigits_pos v.coeff
  have hns : NoSys (ctxRound cc v).2 :=
    Apd.Props.roundCore_noSys cc hWF v hf ⟨he, by omega, by omega, by omega⟩ (by omega) (by omega)
  obtain ⟨hm, hfl, hfit⟩ := Apd.Props.C01_roundCore cc hWF v hf hns
  have hsneg : (specRound cc (exactRound v)).neg = false := by
    rw [Rat_specRound_neg]; exact hneg
  have hnegr : (ctxRound cc v).1.neg = false := by
    unfold SpecOut.matches at hm
    rw [hsneg] at hm
    cases hform : (ctxRound cc v).1.form <;> rw [hform] at hm <;> simp at hm
    · exact hm.1.2
    · exact hm.2
  refine ⟨hns, hfit, hnegr, ?_, ?_, ?_⟩
  · intro h0
    have hs : specRound cc (exactRound v) = { neg := v.neg, m := 0, q := v.exp } := by
      have := specRound_zero cc v.neg v.exp
      rw [Apd.Props.exactRound_eq, h0]; exact this
    have hfin : (ctxRound cc v).1.form = .finite := by
      unfold SpecOut.matches at hm
      rw [hs] at hm
      cases hform : (ctxRound cc v).1.form <;> rw [hform] at hm <;> simp at hm
    refine ⟨hfin, ?_, ?_⟩
    · obtain ⟨-, -, h3⟩ := (Rat_matches_iff _ _ hfin).1 hm
      rw [hs] at h3
      simp only [Nat.cast_zero, zero_mul] at h3
      rcases mul_eq_zero.1 h3 with h4 | h4
      · exact_mod_cast h4
      · exact absurd h4 (tp _).ne'
    · rw [hfl.1, hs]
  · intro h0 hadj
    rw [ctxRound_finite cc v hf]
    unfold ctxRoundFin
    by_cases hs : v.exp + (ndigits v.coeff : Int) - 1 < cc.emin
    · rw [roundX_subnormal_id cc v true hf hp h0 (by omega) hs (by omega) (by unfold Ctx.etiny; exact het) he
        (by omega)]
      exact ⟨rfl, rfl, rfl⟩
    · rw [roundX_id cc v true hf hp hnd hemin hemax (by omega) hadj he]
      exact ⟨rfl, rfl, rfl⟩
  · intro h0 hadj
    rw [ctxRound_finite cc v hf]
    unfold ctxRoundFin
    rw [roundX_short cc v true hf hp hnd (Or.inr (by omega))]
    have hck : checkXs [v.exp, 0] = none := by
      rw [checkXs_none_iff]; simp; omega
    have hsum : sumInts [v.exp, 0] = v.exp := by simp [sumInts]
    have hadj' : seAdj v [v.exp, 0] = v.exp + (ndigits v.coeff : Int) - 1 := by simp [seAdj, hsum]
    have hz : v.isZero = false := by simp [Dec.isZero, h0]
    rw [setExponent_overflow cc v {} _ hck (by rw [hadj']; omega) (by rw [hadj']; exact hadj) (by omega) hemin hz]
    simp [seFinish, cOverflow, cInexact]

/-! ## adjusted exponents, `Cmp`, the exactness re-check -/

theorem adj_of_eq (a b : ℕ) (i j : ℤ) (ha : 0 < a) (hb : 0 < b)
    (h : (a : ℚ) * (10 : ℚ) ^ i = (b : ℚ) * (10 : ℚ) ^ j) :
    i + (ndigits a : ℤ) = j + (ndigits b : ℤ) := by
  have A : IsAdj ((a : ℚ) * (10 : ℚ) ^ i) ((ndigits a : ℤ) - 1 + i) := by
    apply IsAdj_scale
    obtain ⟨h1, h2⟩ := ndigits_q a ha
    exact ⟨h1, by rw [sub_add_cancel]; exact h2⟩
  have B : IsAdj ((b : ℚ) * (10 : ℚ) ^ j) ((ndigits b : ℤ) - 1 + j) := by
    apply IsAdj_scale
    obtain ⟨h1, h2⟩ := ndigits_q b hb
    exact ⟨h1, by rw [sub_add_cancel]; exact h2⟩
  rw [h] at A
  have := IsAdj_unique A B
  omega

open Apd.C15L in
theorem cmp_zero_magQ (w1 w2 : Dec) (h1 : w1.form = .finite) (h2 : w2.form = .finite)
    (n1 : w1.neg = false) (n2 : w2.neg = false) (h : w1.cmp w2 = 0) : magQ w1 = magQ w2 := by
  rw [cmp_finite w1 w2 h1 h2, cmpInt_eq_zero_iff] at h
  unfold signedScaled at h
  simp only [n1, n2, Bool.false_eq_true, if_false, Int.one_mul] at h
  have h' : w1.coeff * 10 ^ (w1.exp - min w1.exp w2.exp).toNat = w2.coeff * 10 ^ (w2.exp - min w1.exp w2.exp).toNat := by
    exact_mod_cast h
  unfold magQ
  rw [← align w1.coeff w1.exp (min w1.exp w2.exp) (by omega), ← align w2.coeff w2.exp (min w1.exp w2.exp) (by omega),
    h']

/-- the value of the square formed on the coefficient (`sq.Coeff.Mul(&d.Coeff, &d.Coeff); sq.Exponent = 2 * d.Exponent`) -/
theorem magQ_sq (w : Dec) :
    magQ { coeff := w.coeff * w.coeff, exp := 2 * w.exp } = (magQ w) ^ 2 := by
  unfold magQ
  simp only []
  push_cast
  rw [two_mul, zpow_add₀ ten_ne]; ring

/-- the exactness re-check of `Sqrt`: when the square formed on the coefficient compares equal to `x`, the
square of the result is `x` -/
theorem mul_sq_cmp (w x : Dec) (hx : x.form = .finite) (hxn : x.neg = false)
    (hcmp : ({ coeff := w.coeff * w.coeff, exp := 2 * w.exp } : Dec).cmp x = 0) :
    (magQ w) ^ 2 = magQ x := by
  rw [← magQ_sq w]
  exact cmp_zero_magQ _ x rfl hx rfl hxn hcmp

/-! ## the end of `Context.Sqrt`: final rounding, exactness re-check, packaging -/

/-- the caller's context with half-even rounding (`nc2` of `SqrtD.tail`) -/
def nc2 (c : Ctx) : Ctx := { c with prec := c.prec, mode := .halfEven }
/-- … with the exponent ceiling at the package limit (`ncw` of `SqrtD.tail`) -/
def ncw (c : Ctx) : Ctx := { nc2 c with emax := MaxExponent }
/-- … truncating (the context of the settling step's first rounding) -/
def ncwD (c : Ctx) : Ctx := { ncw c with mode := .down }

theorem goError_none (fl : Cond) (h : NoSys fl) : goError {} fl = .none := by
  obtain ⟨h1, h2⟩ := h
  unfold goError
  simp [h1, h2, HAnd.hAnd, AndOp.and, Cond.and, Cond.any]

theorem magQ_pos (x : Dec) (h : x.coeff ≠ 0) : 0 < magQ x := by
  unfold magQ
  have : (0 : ℚ) < x.coeff := by exact_mod_cast Nat.pos_of_ne_zero h
  exact mul_pos this (tp _)

theorem tail_final (c : Ctx) (x : Dec) (hc : c.WF) (ht : c.traps = {}) (hx : x.form = .finite)
    (hxn : x.neg = false) (hx0 : x.coeff ≠ 0)
    (v : Dec) (fl : Cond) (G : Grid c.prec c.emin v) (hfl : NoSys fl)
    (hval : magQ v = (sM c x : ℚ) * (10 : ℚ) ^ (sQ c x)) :
    let r2 := ctxRound (nc2 c) v
    let r : Dec × Cond := (r2.1, fl ||| r2.2)
    let res :=
      if !r.2.inexact && r.1.form == .finite then
        let sq : Dec := { coeff := r.1.coeff * r.1.coeff, exp := 2 * r.1.exp }
        if sq.cmp x != 0 then r.2 ||| cInexact ||| cRounded else r.2
      else r.2
    let o := finish (nc2 c) (r.1, res)
    o.err = .none ∧ (specSqrt c x).matches o.d = true ∧ fits c o.d = true ∧
    ((specSqrt c x).inexact = true → o.fl.inexact = true) ∧
    ((specSqrt c x).overflow = true → o.fl.overflow = true) := by
  intro r2 r res o
  have hWF2 : (nc2 c).WF := hc
  obtain ⟨g1, g2, g3, gz, gf, gi⟩ := grid_final (nc2 c) hWF2 v G
  have hX := magQ_pos x hx0
  have hu := tp (sQ c x)
  obtain ⟨-, hex⟩ := sM_facts c x
  -- `res` contains `r.2`
  have hres : res = r.2 ∨ res = r.2 ||| cInexact ||| cRounded := by
    by_cases h1 : (!r.2.inexact && r.1.form == .finite) = true
    · by_cases h2 : (({ coeff := r.1.coeff * r.1.coeff, exp := 2 * r.1.exp } : Dec).cmp x != 0) = true
      · right; show (if _ then _ else _) = _; rw [if_pos h1]; simp only []; rw [if_pos h2]
      · left; show (if _ then _ else _) = _; rw [if_pos h1]; simp only []; rw [if_neg h2]
    · left; show (if _ then _ else _) = _; rw [if_neg h1]
  have hr2ns : NoSys r.2 := Apd.MulL.noSys_or.2 ⟨hfl, g1⟩
  have hresns : NoSys res := by
    rcases hres with h | h <;> rw [h]
    · exact hr2ns
    · exact Apd.MulL.noSys_or.2 ⟨Apd.MulL.noSys_or.2 ⟨hr2ns, ⟨rfl, rfl⟩⟩, ⟨rfl, rfl⟩⟩
  have hin_mono : r2.2.inexact = true → res.inexact = true := by
    intro h
    have : r.2.inexact = true := by show (fl ||| r2.2).inexact = true; simp [h]
    rcases hres with h' | h' <;> rw [h'] <;> simp [this]
  have hov_mono : r2.2.overflow = true → res.overflow = true := by
    intro h
    have : r.2.overflow = true := by show (fl ||| r2.2).overflow = true; simp [h]
    rcases hres with h' | h' <;> rw [h'] <;> simp [this]
  -- a finite result whose square is not `x` is flagged Inexact
  have hin_fin : r2.1.form = .finite → magQ r2.1 = magQ v → sExact c x = false → res.inexact = true := by
    intro hfin hmv hse
    by_cases hri : r.2.inexact = true
    · rcases hres with h' | h' <;> rw [h'] <;> simp [hri]
    · have hcond : (!r.2.inexact && r.1.form == .finite) = true := by
        have : r.1.form = .finite := hfin
        simp [hri, this]
      have hsq : (({ coeff := r.1.coeff * r.1.coeff, exp := 2 * r.1.exp } : Dec).cmp x != 0) = true := by
        by_contra hno
        have h2 : ({ coeff := r.1.coeff * r.1.coeff, exp := 2 * r.1.exp } : Dec).cmp x = 0 := by
          by_contra h; simp [h] at hno
        have := mul_sq_cmp r.1 x hx hxn h2
        have hmr : magQ r.1 = magQ v := hmv
        rw [hmr, hval] at this
        have : ((sM c x : ℚ)) ^ 2 = magQ x / ((10 : ℚ) ^ sQ c x) ^ 2 := by
          rw [eq_div_iff (pow_pos hu 2).ne', ← this]; ring
        rw [hex.2 this] at hse
        exact Bool.noConfusion hse
      show (if _ then _ else _ : Cond).inexact = true
      rw [if_pos hcond]
      simp only []
      rw [if_pos hsq]
      simp [cInexact]
  have herr : o.err = .none := by
    show goError (nc2 c).traps res = .none
    have : (nc2 c).traps = {} := ht
    rw [this]
    exact goError_none res hresns
  have hfit : fits c o.d = true := g2
  refine ⟨herr, ?_, hfit, ?_⟩
  · -- matches
    show (specSqrt c x).matches r2.1 = true
    rw [specSqrt_eq]
    by_cases h0 : v.coeff = 0
    · obtain ⟨z1, z2, z3⟩ := gz h0
      have hm0 : sM c x = 0 := by
        have : magQ v = 0 := by unfold magQ; rw [h0]; simp
        rw [this] at hval
        rcases mul_eq_zero.1 hval.symm with h | h
        · exact_mod_cast h
        · exact absurd h hu.ne'
      have hcond : (sM c x != 0 && decide (sQ c x + (ndigits (sM c x) : Int) - 1 > c.emax)) = false := by
        simp [hm0]
      rw [hcond]
      simp only [Bool.false_eq_true, if_false]
      rw [Rat_matches_iff _ _ z1]
      refine ⟨rfl, g3, ?_⟩
      simp [z2, hm0]
    · have hm0 : sM c x ≠ 0 := by
        intro h
        rw [h] at hval
        simp only [Nat.cast_zero, zero_mul] at hval
        exact absurd hval (magQ_pos v h0).ne'
      have hadjeq := adj_of_eq v.coeff (sM c x) v.exp (sQ c x) (Nat.pos_of_ne_zero h0) (Nat.pos_of_ne_zero hm0) hval
      by_cases hadj : v.exp + (ndigits v.coeff : Int) - 1 ≤ (nc2 c).emax
      · obtain ⟨f1, f2, f3⟩ := gf h0 hadj
        have hcond : (sM c x != 0 && decide (sQ c x + (ndigits (sM c x) : Int) - 1 > c.emax)) = false := by
          have : ¬ (sQ c x + (ndigits (sM c x) : Int) - 1 > c.emax) := by
            have : (nc2 c).emax = c.emax := rfl
            omega
          simp [this]
        rw [hcond]
        simp only [Bool.false_eq_true, if_false]
        have hfin : r2.1.form = .finite := by rw [f1]; exact G.hf
        rw [Rat_matches_iff _ _ hfin]
        refine ⟨rfl, g3, ?_⟩
        show (r2.1.coeff : ℚ) * (10 : ℚ) ^ r2.1.exp = _
        rw [f1]; exact hval
      · obtain ⟨i1, i2, i3⟩ := gi h0 (by omega)
        have hcond : (sM c x != 0 && decide (sQ c x + (ndigits (sM c x) : Int) - 1 > c.emax)) = true := by
          have : (sQ c x + (ndigits (sM c x) : Int) - 1 > c.emax) := by
            have : (nc2 c).emax = c.emax := rfl
            omega
          simp [this, hm0]
        rw [hcond]
        simp only [if_true]
        rw [Rat_matches_infinite _ _ i1]
        exact ⟨rfl, g3⟩
  · -- flags
    show ((specSqrt c x).inexact = true → res.inexact = true) ∧ ((specSqrt c x).overflow = true → res.overflow = true)
    rw [specSqrt_eq]
    by_cases h0 : v.coeff = 0
    · obtain ⟨z1, z2, z3⟩ := gz h0
      have hm0 : sM c x = 0 := by
        have : magQ v = 0 := by unfold magQ; rw [h0]; simp
        rw [this] at hval
        rcases mul_eq_zero.1 hval.symm with h | h
        · exact_mod_cast h
        · exact absurd h hu.ne'
      have hcond : (sM c x != 0 && decide (sQ c x + (ndigits (sM c x) : Int) - 1 > c.emax)) = false := by
        simp [hm0]
      rw [hcond]
      simp only [Bool.false_eq_true, if_false]
      refine ⟨?_, by simp⟩
      intro hsi
      apply hin_fin z1
      · unfold magQ; rw [z2, h0]; simp
      · cases h : sExact c x
        · rfl
        · rw [h] at hsi; exact Bool.noConfusion hsi
    · have hm0 : sM c x ≠ 0 := by
        intro h
        rw [h] at hval
        simp only [Nat.cast_zero, zero_mul] at hval
        exact absurd hval (magQ_pos v h0).ne'
      have hadjeq := adj_of_eq v.coeff (sM c x) v.exp (sQ c x) (Nat.pos_of_ne_zero h0) (Nat.pos_of_ne_zero hm0) hval
      by_cases hadj : v.exp + (ndigits v.coeff : Int) - 1 ≤ (nc2 c).emax
      · obtain ⟨f1, f2, f3⟩ := gf h0 hadj
        have hcond : (sM c x != 0 && decide (sQ c x + (ndigits (sM c x) : Int) - 1 > c.emax)) = false := by
          have : ¬ (sQ c x + (ndigits (sM c x) : Int) - 1 > c.emax) := by
            have : (nc2 c).emax = c.emax := rfl
            omega
          simp [this]
        rw [hcond]
        simp only [Bool.false_eq_true, if_false]
        refine ⟨?_, by simp⟩
        intro hsi
        apply hin_fin (by rw [f1]; exact G.hf) (by rw [f1])
        cases h : sExact c x
        · rfl
        · rw [h] at hsi; exact Bool.noConfusion hsi
      · obtain ⟨i1, i2, i3⟩ := gi h0 (by omega)
        exact ⟨fun _ => hin_mono i2, fun _ => hov_mono i3⟩

/-! ## between the first rounding and the final one: the settled value -/

theorem choice_cases (T : ℕ) (Y : ℚ) : choice T Y = T ∨ choice T Y = T + 1 := by
  unfold choice; split
  · exact Or.inr rfl
  · exact Or.inl rfl

/-- the decimal `sqrtSettle` rounds is on the grid and denotes `choice · 10^qd` -/
theorem settle_grid (P : ℕ) (emin qd : ℤ) (T ch : ℕ) (t : Dec) (hP : 1 ≤ P)
    (htf : t.form = .finite) (htn : t.neg = false) (htc : t.coeff = T) (hte : t.exp = qd)
    (hT : ndigits T ≤ P) (hch : ch = T ∨ ch = T + 1)
    (hq1 : emin - (P : ℤ) + 1 ≤ qd) (hq2 : -100000 ≤ qd) (hq3 : qd + (P : ℤ) + 1 ≤ 100000) :
    let t' : Dec := if ndigits ch > P then { t with coeff := ch / 10, exp := t.exp + 1 } else { t with coeff := ch }
    Grid P emin t' ∧ magQ t' = (ch : ℚ) * (10 : ℚ) ^ qd := by
  intro t'
  by_cases hc : ndigits ch > P
  · have e : t' = { t with coeff := ch / 10, exp := t.exp + 1 } := by show (if _ then _ else _) = _; rw [if_pos hc]
    have hch' : ch = T + 1 := by
      rcases hch with h | h
      · rw [h] at hc; omega
      · exact h
    have hT0 : 0 < T := by
      rcases Nat.eq_zero_or_pos T with h | h
      · rw [hch', h] at hc; have : ndigits (0 + 1) = 1 := by decide
        omega
      · exact h
    have hcarry : ndigits (T + 1) > ndigits T := by rw [← hch']; omega
    obtain ⟨v1, v2⟩ := carry_value T hT0 hcarry
    rw [e]
    refine ⟨⟨htf, htn, ?_, ?_, ?_, ?_⟩, ?_⟩
    · show ndigits (ch / 10) ≤ P; rw [hch', v2]; exact hT
    · show -100000 ≤ t.exp + 1; omega
    · show t.exp + 1 + (ndigits (ch / 10) : ℤ) ≤ 100000; rw [hch', v2]; omega
    · show emin - (P : ℤ) + 1 ≤ t.exp + 1; omega
    · unfold magQ
      show ((ch / 10 : ℕ) : ℚ) * (10 : ℚ) ^ (t.exp + 1) = _
      rw [hte, zpow_add_one₀ ten_ne, hch']
      have : (((T + 1) / 10 : ℕ) : ℚ) * 10 = ((T + 1 : ℕ) : ℚ) := by exact_mod_cast v1
      rw [← this]; ring
  · have e : t' = { t with coeff := ch } := by show (if _ then _ else _) = _; rw [if_neg hc]
    rw [e]
    refine ⟨⟨htf, htn, ?_, ?_, ?_, ?_⟩, ?_⟩
    · show ndigits ch ≤ P; omega
    · show -100000 ≤ t.exp; omega
    · show t.exp + (ndigits ch : ℤ) ≤ 100000; omega
    · show emin - (P : ℤ) + 1 ≤ t.exp; omega
    · unfold magQ
      show (ch : ℚ) * (10 : ℚ) ^ t.exp = _
      rw [hte]

/-- truncating the coefficient at `10^k`: the bracket of the value -/
theorem trunc_bracket (d : Dec) (qd : ℤ) (k : ℕ) (hk : qd = d.exp + (k : ℤ)) :
    ((d.coeff / 10 ^ k : ℕ) : ℚ) * (10 : ℚ) ^ qd ≤ magQ d ∧
    magQ d < (((d.coeff / 10 ^ k : ℕ) : ℚ) + 1) * (10 : ℚ) ^ qd ∧
    (d.coeff % 10 ^ k = 0 → magQ d = ((d.coeff / 10 ^ k : ℕ) : ℚ) * (10 : ℚ) ^ qd) := by
  have hpk : 0 < 10 ^ k := Nat.pow_pos (by decide)
  have e : (d.coeff : ℚ) = ((10 ^ k : ℕ) : ℚ) * ((d.coeff / 10 ^ k : ℕ) : ℚ) + ((d.coeff % 10 ^ k : ℕ) : ℚ) := by
    exact_mod_cast (Nat.div_add_mod d.coeff (10 ^ k)).symm
  have hr : ((d.coeff % 10 ^ k : ℕ) : ℚ) < ((10 ^ k : ℕ) : ℚ) := by exact_mod_cast Nat.mod_lt d.coeff hpk
  have hr0 : (0 : ℚ) ≤ ((d.coeff % 10 ^ k : ℕ) : ℚ) := Nat.cast_nonneg _
  have hq : (10 : ℚ) ^ qd = ((10 ^ k : ℕ) : ℚ) * (10 : ℚ) ^ d.exp := by
    rw [hk, pow_split]
  have hp := tp d.exp
  unfold magQ
  rw [hq, e]
  refine ⟨?_, ?_, ?_⟩
  · nlinarith [mul_nonneg hr0 hp.le]
  · nlinarith [mul_lt_mul_of_pos_right hr hp]
  · intro h0
    rw [h0]; push_cast; ring

theorem fits_digits (cc : Ctx) (w : Dec) (hp : 1 ≤ cc.prec) (hf : w.form = .finite) (h : fits cc w = true) :
    ndigits w.coeff ≤ cc.prec := by
  unfold fits at h
  rw [hf] at h
  simp only [Bool.and_eq_true, Bool.or_eq_true, beq_iff_eq, decide_eq_true_eq] at h
  rcases h.1.1 with h1 | h1
  · omega
  · exact_mod_cast h1

/-- what the tail of `Context.Sqrt` needs to know about the shifted iterate `d` (value `D`), the operand
(value `X`) and the half exponent `h`: `10^(h-1) ≤ √X < 10^h`, `|D - √X| < δ ≤ 10^(h-P-4)` -/
structure DHyp (c : Ctx) (x d : Dec) (h : Int) (δ : ℚ) : Prop where
  hf : d.form = .finite
  hneg : d.neg = false
  hn : d.coeff ≠ 0
  hnd : ndigits d.coeff ≤ 99999
  he : -100000 ≤ d.exp
  hh : h ≤ 99997
  hq : sQ c x = max (h - (c.prec : Int)) (c.emin - (c.prec : Int) + 1)
  hX1 : ((10 : ℚ) ^ (h - 1)) ^ 2 ≤ magQ x
  hX2 : magQ x < ((10 : ℚ) ^ h) ^ 2
  hδ0 : 0 ≤ δ
  hδ : δ ≤ (10 : ℚ) ^ (h - (c.prec : Int) - 4)
  hDδ : δ ≤ magQ d
  hlo : (magQ d - δ) ^ 2 < magQ x
  hhi : magQ x < (magQ d + δ) ^ 2
  hD1 : (10 : ℚ) ^ (h - 2) ≤ magQ d
  hD2 : magQ d < (10 : ℚ) ^ (h + 1)

theorem tail_core (c : Ctx) (x d : Dec) (h : Int) (δ : ℚ) (hc : c.WF) (hx : x.form = .finite)
    (hxn : x.neg = false) (H : DHyp c x d h δ) :
    let r0 := ctxRound (ncw c) d
    let r1 : Dec × Cond :=
      if r0.2.inexact && r0.1.form == .finite then
        let st := sqrtSettle (ncw c) r0.1 d x
        (st.1, r0.2 ||| st.2)
      else r0
    Grid c.prec c.emin r1.1 ∧ NoSys r1.2 ∧ magQ r1.1 = (sM c x : ℚ) * (10 : ℚ) ^ (sQ c x) := by
  intro r0 r1
  have hWFw : (ncw c).WF := by
    obtain ⟨a, b, c', d', e⟩ := hc
    exact ⟨a, by show (c.prec : Int) ≤ 100000; omega, by show (100000 : Int) ≤ 100000; omega, d', e⟩
  obtain ⟨hp, hpe, hemax, hemin, hemin0⟩ := hc
  obtain ⟨hf, hneg, hn, hnd, he, hh, hq, hX1, hX2, hδ0, hδ, hDδ, hlo, hhi, hD1, hD2⟩ := H
  have hnp := ndigits_pos d.coeff
  have hpos : 0 < d.coeff := Nat.pos_of_ne_zero hn
  have hp2 : c.prec ≤ 100000 := by omega
  -- the adjusted exponent of `d`
  obtain ⟨ad, had⟩ : ∃ ad : ℤ, ad = d.exp + (ndigits d.coeff : ℤ) - 1 := ⟨_, rfl⟩
  have hA : IsAdj (magQ d) ad := by
    have h0 : IsAdj (d.coeff : ℚ) ((ndigits d.coeff : ℤ) - 1) :=
      ⟨(ndigits_q _ hpos).1, by rw [sub_add_cancel]; exact (ndigits_q _ hpos).2⟩
    have := IsAdj_scale h0 d.exp
    have e : (ndigits d.coeff : ℤ) - 1 + d.exp = ad := by omega
    rw [e] at this
    exact this
  have had1 : h - 2 ≤ ad := by
    have : (10 : ℚ) ^ (h - 2) < (10 : ℚ) ^ (ad + 1) := lt_of_le_of_lt hD1 hA.2
    rw [zpow_lt_zpow_iff_right₀ ten_gt] at this; omega
  have had2 : ad ≤ h := by
    have : (10 : ℚ) ^ ad < (10 : ℚ) ^ (h + 1) := lt_of_le_of_lt hA.1 hD2
    rw [zpow_lt_zpow_iff_right₀ ten_gt] at this; omega
  obtain ⟨qd, hqd0⟩ : ∃ qd : ℤ, qd = qdOf (ncw c) d := ⟨_, rfl⟩
  have hqd : qd = max (ad - (c.prec : ℤ) + 1) (c.emin - (c.prec : ℤ) + 1) := by
    rw [hqd0, had]; unfold qdOf
    show max (d.exp + (ndigits d.coeff : ℤ) - 1 - (c.prec : ℤ) + 1) (c.emin - (c.prec : ℤ) + 1) = _
    congr 1
  have R : RHyp (ncw c) d := ⟨hp, hemin, hemin0, rfl, hf, hn, he, by omega, by omega, by omega⟩
  have RD : RHyp (ncwD c) d := ⟨hp, hemin, hemin0, rfl, hf, hn, he, by omega, by omega, by omega⟩
  have hm_eq : ∀ m, Near (magQ x / ((10 : ℚ) ^ sQ c x) ^ 2) m → m = sM c x :=
    fun m hm => Near_unique hm (sM_facts c x).1
  have hq1 : c.emin - (c.prec : ℤ) + 1 ≤ qd := by omega
  have hq3 : qd + (c.prec : ℤ) + 1 ≤ 100000 := by omega
  by_cases hA' : qd ≤ d.exp
  · -- the iterate is on the grid already
    obtain ⟨a1, a2, a3⟩ := shape_exact R (by rw [← hqd0]; exact hA')
    have hr1 : r1 = r0 := by
      show (if _ then _ else _) = _
      rw [if_neg]
      have : r0.2.inexact = false := a2
      simp [this]
    rw [hr1]
    have hT : magQ d = ((d.coeff * 10 ^ (d.exp - qd).toNat : ℕ) : ℚ) * (10 : ℚ) ^ qd := by
      unfold magQ; rw [align d.coeff d.exp qd hA']
    obtain ⟨m, hm1, hm2⟩ := exact_math (magQ x) (magQ d) δ h (sQ c x) qd ad (c.emin - (c.prec : ℤ) + 1) c.prec _ hp
      hX1 hX2 hδ0 hδ hDδ hlo hhi hA.1 hA.2 had1 had2 hq hqd hT
    refine ⟨?_, a3, ?_⟩
    · show Grid c.prec c.emin r0.1
      have : r0.1 = d := a1
      rw [this]
      exact ⟨hf, hneg, by omega, he, by omega, by omega⟩
    · show magQ r0.1 = _
      have : r0.1 = d := a1
      rw [this, hm1, hm_eq m hm2]
  · -- the iterate has digits beyond the grid
    have hlt : d.exp < qd := by omega
    obtain ⟨k, hk⟩ : ∃ k : ℕ, k = (qd - d.exp).toNat := ⟨_, rfl⟩
    have hkq : qd = d.exp + (k : ℤ) := by omega
    obtain ⟨tb1, tb2, tb3⟩ := trunc_bracket d qd k hkq
    obtain ⟨s1, s2, s3, ⟨s4, s4'⟩, s5, s6, s7⟩ := shape_round R (by rw [← hqd0]; exact hlt)
    rw [← hqd0] at s4 s4' s5 s7
    rw [← hk] at s5 s7
    replace s4 : qd ≤ r0.1.exp := s4
    replace s4' : r0.1.exp ≤ qd + 1 := s4'
    have hfitd : ndigits r0.1.coeff ≤ c.prec :=
      fits_digits (ncw c) r0.1 hp s1 (Apd.Props.C01_roundCore (ncw c) hWFw d hf s3).2.2
    by_cases hrem : d.coeff % 10 ^ k = 0
    · -- no digit is lost
      have hin : r0.2.inexact = false := by rw [s5, hrem]; rfl
      have hr1 : r1 = r0 := by
        show (if _ then _ else _) = _
        rw [if_neg]; simp [hin]
      rw [hr1]
      have hr01 : r0.1 = { d with coeff := d.coeff / 10 ^ k, exp := qd } := s7 (Or.inl hrem)
      obtain ⟨m, hm1, hm2⟩ := exact_math (magQ x) (magQ d) δ h (sQ c x) qd ad (c.emin - (c.prec : ℤ) + 1) c.prec _ hp
        hX1 hX2 hδ0 hδ hDδ hlo hhi hA.1 hA.2 had1 had2 hq hqd (tb3 hrem)
      have hmag : magQ r0.1 = magQ d := by
        rw [hr01, tb3 hrem]; rfl
      refine ⟨⟨s1, by rw [s2]; exact hneg, hfitd, by omega, ?_, by omega⟩, s3, ?_⟩
      · have : r0.1.exp = qd := by rw [hr01]
        omega
      · rw [hmag, hm1, hm_eq m hm2]
    · -- the settling step
      have hin : r0.2.inexact = true := by rw [s5]; simp [hrem]
      obtain ⟨d1, d2, d3, -, d5, d6, d7⟩ := shape_round RD (by show d.exp < qdOf (ncw c) d; rw [← hqd0]; exact hlt)
      have eqd : qdOf (ncwD c) d = qd := hqd0.symm
      rw [eqd, ← hk] at d5 d7
      obtain ⟨t, ht⟩ : ∃ t : Dec, t = { d with coeff := d.coeff / 10 ^ k, exp := qd } := ⟨_, rfl⟩
      have hdn1 : (ctxRound (ncwD c) d).1 = t := by rw [ht]; exact d7 (Or.inr rfl)
      have hdin : (ctxRound (ncwD c) d).2.inexact = true := by rw [d5]; simp [hrem]
      have hTdig : ndigits t.coeff ≤ c.prec := by
        have := Apd.C11S.roundDown_digits (ncwD c) d rfl hp hdin
        rw [hdn1] at this; exact this
      have htf : t.form = .finite := by rw [ht]; exact hf
      have htn : t.neg = false := by rw [ht]; exact hneg
      have htc : t.coeff = d.coeff / 10 ^ k := by rw [ht]
      have hte : t.exp = qd := by rw [ht]
      -- the guard of `sqrtSettle` does not fire
      have hguard : ¬ ((!(ctxRound (ncwD c) d).2.inexact || (ctxRound (ncwD c) d).1.form != .finite ||
          (ndigits (ctxRound (ncwD c) d).1.coeff != (ncw c).prec && !(ctxRound (ncwD c) d).2.subnormal)) = true) := by
        rw [hdin, d1, d6, hdn1]
        by_cases hsub : d.exp + (ndigits d.coeff : ℤ) - 1 < (ncwD c).emin
        · simp [hsub]
        · have hemin' : (ncwD c).emin = c.emin := rfl
          have hkk : k = ndigits d.coeff - c.prec := by omega
          have : ndigits t.coeff = c.prec := by
            rw [htc, hkk]; exact ndigits_div_pow _ _ hpos hp (by omega)
          have hpp : (ncw c).prec = c.prec := rfl
          simp [this, hpp]
      have hst : sqrtSettle (ncw c) r0.1 d x =
          if (settleT (ncw c) t x).cmp r0.1 == 0 then (r0.1, {}) else ctxRound (ncw c) (settleT (ncw c) t x) := by
        rw [sqrtSettle_eq]
        have e : ({ ncw c with mode := Mode.down } : Ctx) = ncwD c := rfl
        simp only [e]
        rw [if_neg hguard, hdn1]
      have hr1 : r1 = ((sqrtSettle (ncw c) r0.1 d x).1, r0.2 ||| (sqrtSettle (ncw c) r0.1 d x).2) := by
        show (if _ then _ else _) = _
        rw [if_pos]
        have : r0.1.form = .finite := s1
        simp [hin, this]
      -- the decimal the step rounds
      have hset := settleT_eq' (ncw c) t x hTdig
      have hch := sqrtChoice_rat t x hx hxn
      rw [htc, hte] at hch
      obtain ⟨ch, hchd⟩ : ∃ ch : ℕ, ch = sqrtChoice t x := ⟨_, rfl⟩
      rw [← hchd] at hset hch
      obtain ⟨G', hmag'⟩ := settle_grid c.prec c.emin qd (d.coeff / 10 ^ k) ch t hp htf htn htc hte (by rw [← htc]; exact hTdig)
        (by rw [hch]; exact choice_cases _ _) hq1 (by omega) hq3
      have hset' : settleT (ncw c) t x =
          if ndigits ch > c.prec then { t with coeff := ch / 10, exp := t.exp + 1 } else { t with coeff := ch } := hset
      rw [← hset'] at G' hmag'
      obtain ⟨m, hm1, hm2⟩ := settle_math (magQ x) (magQ d) δ h (sQ c x) qd ad (c.emin - (c.prec : ℤ) + 1) c.prec
        (d.coeff / 10 ^ k) hp hX1 hX2 hδ0 hδ hDδ hlo hhi hA.1 hA.2 had1 had2 hq hqd tb1 tb2
      rw [← hch] at hm1
      have hval' : magQ (settleT (ncw c) t x) = (sM c x : ℚ) * (10 : ℚ) ^ (sQ c x) := by
        rw [hmag', hm1, hm_eq m hm2]
      rw [hr1, hst]
      by_cases hcmp : ((settleT (ncw c) t x).cmp r0.1 == 0) = true
      · rw [if_pos hcmp]
        have hcmp' : (settleT (ncw c) t x).cmp r0.1 = 0 := by simpa using hcmp
        have hmeq := cmp_zero_magQ _ r0.1 G'.hf s1 G'.hneg (by rw [s2]; exact hneg) hcmp'
        refine ⟨(⟨s1, by rw [s2]; exact hneg, hfitd, by omega, by omega, by omega⟩ : Grid c.prec c.emin r0.1), ?_, ?_⟩
        · exact Apd.MulL.noSys_or.2 ⟨s3, ⟨rfl, rfl⟩⟩
        · show magQ r0.1 = _
          rw [← hmeq, hval']
      · rw [if_neg hcmp]
        obtain ⟨i1, i2, i3⟩ := grid_round_id (ncw c) hp hp2 hemin hemin0 rfl _ G'
        refine ⟨?_, ?_, ?_⟩
        · show Grid c.prec c.emin (ctxRound (ncw c) (settleT (ncw c) t x)).1
          rw [i1]; exact G'
        · exact Apd.MulL.noSys_or.2 ⟨s3, i3⟩
        · show magQ (ctxRound (ncw c) (settleT (ncw c) t x)).1 = _
          rw [i1, hval']

/-! ## the tail of `Context.Sqrt` as a composition

`SqrtD.tail` is one `let` chain; the theorems above describe its two halves as `let` chains of their own.  To
apply them to `tail` without asking the elaborator to compare the fully substituted chains, the halves are
named here (`tailMid`, `tailFin`) and `sqrt_tail_eq` says — by `rfl` — that `tail` is their composition. -/

/-- the tail of `Context.Sqrt` up to the settled value: first rounding and settling step -/
def tailMid (c : Ctx) (x d : Dec) : Dec × Cond :=
  let r0 := ctxRound (ncw c) d
  if r0.2.inexact && r0.1.form == .finite then
    let st := sqrtSettle (ncw c) r0.1 d x
    (st.1, r0.2 ||| st.2)
  else r0

/-- the end of the tail of `Context.Sqrt`: final rounding, exactness re-check, packaging -/
def tailFin (c : Ctx) (x v : Dec) (fl : Cond) : Out :=
  let r2 := ctxRound (nc2 c) v
  let r : Dec × Cond := (r2.1, fl ||| r2.2)
  let res :=
    if !r.2.inexact && r.1.form == .finite then
      let sq : Dec := { coeff := r.1.coeff * r.1.coeff, exp := 2 * r.1.exp }
      if sq.cmp x != 0 then r.2 ||| Cond.cInexact ||| Cond.cRounded else r.2
    else r.2
  finish (nc2 c) (r.1, res)

theorem sqrt_tail_eq (c : Ctx) (x approx : Dec) :
    SqrtD.tail c x approx =
      tailFin c x (tailMid c x { approx with exp := approx.exp + Int.tdiv (SqrtD.e x) 2 }).1
        (tailMid c x { approx with exp := approx.exp + Int.tdiv (SqrtD.e x) 2 }).2 := rfl

/-- `tail_core` on `tailMid` -/
theorem tailMid_core (c : Ctx) (x d : Dec) (h : Int) (δ : ℚ) (hc : c.WF) (hx : x.form = .finite)
    (hxn : x.neg = false) (H : DHyp c x d h δ) :
    Grid c.prec c.emin (tailMid c x d).1 ∧ NoSys (tailMid c x d).2 ∧
      magQ (tailMid c x d).1 = (sM c x : ℚ) * (10 : ℚ) ^ (sQ c x) :=
  tail_core c x d h δ hc hx hxn H

/-- `tail_final` on `tailFin` -/
theorem tailFin_final (c : Ctx) (x : Dec) (hc : c.WF) (ht : c.traps = {}) (hx : x.form = .finite)
    (hxn : x.neg = false) (hx0 : x.coeff ≠ 0)
    (v : Dec) (fl : Cond) (G : Grid c.prec c.emin v) (hfl : NoSys fl)
    (hval : magQ v = (sM c x : ℚ) * (10 : ℚ) ^ (sQ c x)) :
    (tailFin c x v fl).err = .none ∧ (specSqrt c x).matches (tailFin c x v fl).d = true ∧
    fits c (tailFin c x v fl).d = true ∧
    ((specSqrt c x).inexact = true → (tailFin c x v fl).fl.inexact = true) ∧
    ((specSqrt c x).overflow = true → (tailFin c x v fl).fl.overflow = true) :=
  tail_final c x hc ht hx hxn hx0 v fl G hfl hval

end Apd.C11Q

#print axioms Apd.C11Q.settle_math
#print axioms Apd.C11Q.exact_math
#print axioms Apd.C11Q.tail_core
#print axioms Apd.C11Q.tail_final
