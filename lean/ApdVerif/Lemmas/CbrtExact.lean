import ApdVerif.Lemmas.CbrtTail
import ApdVerif.Props.C11
/-!
# `Context.Cbrt` on perfect cubes: the rounded iterate is the root, and the re-check confirms it
-/
set_option linter.unusedVariables false

namespace Apd.CbrtE
open Apd Apd.Oracle Apd.RatSpec Apd.C20L Apd.SqrtL Apd.CbrtL Apd.CbrtT Apd.C11Q Cond

/-! ## a value close to a point of the `P`-digit grid rounds to it -/

/-- normalised: the grid point is `R'` with `L ≤ R' < 10·L` (`L = 10^(P-1)`), the value `ζ` is within `τ·ζ` of it,
`τ = 3·10^(-2P)` -/
theorem grid_norm (L R' : ℕ) (ζ τ : ℚ) (hL : 1 ≤ L) (hR1 : L ≤ R') (hR2 : R' < 10 * L) (hζ : 0 < ζ)
    (hτ0 : 0 < τ) (hτ : τ * (100 * (L : ℚ) ^ 2) = 3) (h1 : ζ * (1 - τ) ≤ R') (h2 : (R' : ℚ) ≤ ζ * (1 + τ)) :
    ((L : ℚ) ≤ ζ → ζ < 10 * L ∧ |ζ - R'| < 1 / 2) ∧
    (ζ < L → R' = L ∧ (L : ℚ) / 10 ≤ ζ ∧ |ζ - R'| < 1 / 20) := by
  have hl : (1 : ℚ) ≤ (L : ℚ) := by exact_mod_cast hL
  have hτl2 : τ * (L : ℚ) ^ 2 = 3 / 100 := by linarith
  have hτl0 : 0 < τ * (L : ℚ) := by positivity
  have hτl : τ * (L : ℚ) ≤ 3 / 100 := by
    have : τ * (L : ℚ) * 1 ≤ τ * (L : ℚ) * (L : ℚ) := mul_le_mul_of_nonneg_left hl hτl0.le
    nlinarith
  have hτ1 : τ ≤ 3 / 100 := by
    have : τ * 1 ≤ τ * (L : ℚ) := mul_le_mul_of_nonneg_left hl hτ0.le
    linarith
  have hzτ : 0 < ζ * τ := by positivity
  have habs : |ζ - R'| ≤ ζ * τ := by
    rw [abs_le]; constructor <;> linarith
  have hR2' : (R' : ℚ) + 1 ≤ 10 * (L : ℚ) := by
    have : R' + 1 ≤ 10 * L := by omega
    exact_mod_cast this
  have hR1' : (L : ℚ) ≤ (R' : ℚ) := by exact_mod_cast hR1
  constructor
  · intro hlz
    have hlt : ζ < 10 * L := by
      by_contra h
      have h := le_of_not_gt h
      have : 10 * (L : ℚ) * (1 - τ) ≤ ζ * (1 - τ) := mul_le_mul_of_nonneg_right h (by linarith)
      linarith
    refine ⟨hlt, lt_of_le_of_lt habs ?_⟩
    have : ζ * τ < 10 * (L : ℚ) * τ := mul_lt_mul_of_pos_right hlt hτ0
    linarith
  · intro hzl
    have h3 : ζ * τ < (L : ℚ) * τ := mul_lt_mul_of_pos_right hzl hτ0
    have hRL : R' = L := by
      have : (R' : ℚ) < (L : ℚ) + 1 := by linarith
      have : R' < L + 1 := by exact_mod_cast this
      omega
    refine ⟨hRL, ?_, lt_of_le_of_lt habs (by linarith)⟩
    have : ζ * τ ≤ ζ * (3 / 100) := mul_le_mul_of_nonneg_left hτ1 hζ.le
    linarith

/-- a value within half a quantum of a multiple of the quantum rounds to it (nearest modes) -/
theorem roundedMag_of_near (cc : Ctx) (hm : cc.mode = .halfUp ∨ cc.mode = .halfDown ∨ cc.mode = .halfEven)
    (neg : Bool) (z : ℚ) (a : ℤ) (m : ℕ)
    (hnear : |z / (10 : ℚ) ^ (quantum cc a) - m| < 1 / 2) :
    roundedMag cc neg z a = (m : ℚ) * (10 : ℚ) ^ (quantum cc a) := by
  unfold roundedMag
  have h1 := Rat_roundInt_half_nearest cc.mode hm neg (z / (10 : ℚ) ^ (quantum cc a))
  generalize roundInt cc.mode neg (z / (10 : ℚ) ^ (quantum cc a)) = n at h1 ⊢
  generalize z / (10 : ℚ) ^ (quantum cc a) = t at h1 hnear
  obtain ⟨a1, a2⟩ := abs_le.1 h1
  obtain ⟨b1, b2⟩ := abs_lt.1 hnear
  have c1 : ((n - (m : ℤ) : ℤ) : ℚ) < 1 := by push_cast; linarith
  have c2 : (-1 : ℚ) < ((n - (m : ℤ) : ℤ) : ℚ) := by push_cast; linarith
  have d1 : n - (m : ℤ) < 1 := by exact_mod_cast c1
  have d2 : -1 < n - (m : ℤ) := by exact_mod_cast c2
  have : n = (m : ℤ) := by omega
  rw [this]; simp


/-- **a value within `3·10^(-2P)` of a normal `P`-digit grid point rounds (half-even, `P` digits) to that point** -/
theorem grid_round (c : Ctx) (hP : 1 ≤ c.prec) (R : ℕ) (k : ℤ) (hR : 0 < R) (hnd : ndigits R ≤ c.prec)
    (hlo : c.emin ≤ k + (ndigits R : ℤ) - 1) (z : ℚ) (hz : 0 < z) (a : ℤ) (ha : IsAdj z a)
    (h1 : z * (1 - 3 * ((10 : ℚ) ^ (-(c.prec : ℤ))) ^ 2) ≤ (R : ℚ) * (10 : ℚ) ^ k)
    (h2 : (R : ℚ) * (10 : ℚ) ^ k ≤ z * (1 + 3 * ((10 : ℚ) ^ (-(c.prec : ℤ))) ^ 2)) :
    roundedMag (cH c) false z a = (R : ℚ) * (10 : ℚ) ^ k := by
  have hqd : ∀ a' : ℤ, quantum (cH c) a' = max (a' - (c.prec : ℤ) + 1) (c.emin - (c.prec : ℤ) + 1) := fun _ => rfl
  have hmode : (cH c).mode = .halfUp ∨ (cH c).mode = .halfDown ∨ (cH c).mode = .halfEven := Or.inr (Or.inr rfl)
  obtain ⟨r1, r2⟩ := ndigits_spec R hR
  have hnp := ndigits_pos R
  generalize ndigits R = nd at *
  generalize c.prec = P at *
  generalize cH c = cc at *
  -- the grid point as `R'·10^g`, `10^(P-1) ≤ R' < 10^P`
  obtain ⟨g, hg⟩ : ∃ g : ℤ, g = k + (nd : ℤ) - (P : ℤ) := ⟨_, rfl⟩
  have hs := tp g
  have hL : 1 ≤ 10 ^ (P - 1) := Nat.pow_pos (by decide)
  have hR1 : 10 ^ (P - 1) ≤ R * 10 ^ (P - nd) := by
    have : 10 ^ (P - 1) = 10 ^ (nd - 1) * 10 ^ (P - nd) := by
      rw [← Nat.pow_add]; congr 1; omega
    rw [this]; exact Nat.mul_le_mul_right _ r1
  have hR2 : R * 10 ^ (P - nd) < 10 * 10 ^ (P - 1) := by
    have : 10 * 10 ^ (P - 1) = 10 ^ nd * 10 ^ (P - nd) := by
      rw [← Nat.pow_add, ← Nat.pow_succ']; congr 1; omega
    rw [this]; exact Nat.mul_lt_mul_of_pos_right r2 (Nat.pow_pos (by decide))
  have hρ : (R : ℚ) * (10 : ℚ) ^ k = ((R * 10 ^ (P - nd) : ℕ) : ℚ) * (10 : ℚ) ^ g := by
    rw [Nat.cast_mul, zpow_ofNat, mul_assoc, ← zpow_add₀ ten_ne]
    congr 2; rw [hg]; omega
  have hLq : ((10 ^ (P - 1) : ℕ) : ℚ) = (10 : ℚ) ^ ((P : ℤ) - 1) := by
    rw [zpow_ofNat]; congr 1; omega
  have hP10 : (10 : ℚ) ^ (P : ℤ) = (10 : ℚ) ^ ((P : ℤ) - 1) * 10 := by
    rw [← zpow_add_one₀ ten_ne]; congr 1; ring
  have hτ0 : 0 < 3 * ((10 : ℚ) ^ (-(P : ℤ))) ^ 2 := by have := tp (-(P : ℤ)); positivity
  have hτ : 3 * ((10 : ℚ) ^ (-(P : ℤ))) ^ 2 * (100 * (((10 ^ (P - 1) : ℕ)) : ℚ) ^ 2) = 3 := by
    rw [hLq]
    have : (10 : ℚ) ^ (-(P : ℤ)) * (10 * (10 : ℚ) ^ ((P : ℤ) - 1)) = 1 := by
      rw [mul_comm 10, ← hP10, ← zpow_add₀ ten_ne]
      have : (-(P : ℤ) + (P : ℤ)) = 0 := by ring
      rw [this]; simp
    calc _ = 3 * ((10 : ℚ) ^ (-(P : ℤ)) * (10 * (10 : ℚ) ^ ((P : ℤ) - 1))) ^ 2 := by ring
      _ = 3 := by rw [this]; norm_num
  generalize 3 * ((10 : ℚ) ^ (-(P : ℤ))) ^ 2 = τ at *
  rw [hρ] at h1 h2 ⊢
  generalize R * 10 ^ (P - nd) = R' at *
  -- normalise by `s = 10^g`
  have hζ : 0 < z / (10 : ℚ) ^ g := div_pos hz hs
  have k1 : z / (10 : ℚ) ^ g * (1 - τ) ≤ (R' : ℚ) := by
    rw [div_mul_eq_mul_div, div_le_iff₀ hs]; exact h1
  have k2 : (R' : ℚ) ≤ z / (10 : ℚ) ^ g * (1 + τ) := by
    rw [div_mul_eq_mul_div, le_div_iff₀ hs]; exact h2
  obtain ⟨G1, G2⟩ := grid_norm (10 ^ (P - 1)) R' (z / (10 : ℚ) ^ g) τ hL hR1 hR2 hζ hτ0 hτ k1 k2
  have hzs : z = z / (10 : ℚ) ^ g * (10 : ℚ) ^ g := by field_simp
  by_cases hc : ((10 ^ (P - 1) : ℕ) : ℚ) ≤ z / (10 : ℚ) ^ g
  · obtain ⟨hlt, hnear⟩ := G1 hc
    have hadj : IsAdj z (g + (P : ℤ) - 1) := by
      constructor
      · have : (10 : ℚ) ^ (g + (P : ℤ) - 1) = ((10 ^ (P - 1) : ℕ) : ℚ) * (10 : ℚ) ^ g := by
          rw [hLq, ← zpow_add₀ ten_ne]; congr 1; ring
        rw [this]
        calc _ ≤ z / (10 : ℚ) ^ g * (10 : ℚ) ^ g := mul_le_mul_of_nonneg_right hc hs.le
          _ = z := hzs.symm
      · have : (10 : ℚ) ^ (g + (P : ℤ) - 1 + 1) = 10 * ((10 ^ (P - 1) : ℕ) : ℚ) * (10 : ℚ) ^ g := by
          rw [hLq, mul_comm 10, ← hP10, ← zpow_add₀ ten_ne]; congr 1; ring
        rw [this]
        calc z = z / (10 : ℚ) ^ g * (10 : ℚ) ^ g := hzs
          _ < 10 * ((10 ^ (P - 1) : ℕ) : ℚ) * (10 : ℚ) ^ g := mul_lt_mul_of_pos_right hlt hs
    have hae := IsAdj_unique ha hadj
    have hq : quantum cc a = g := by rw [hqd, hae]; omega
    have := roundedMag_of_near cc hmode false z a R' (by rw [hq]; exact hnear)
    rw [this, hq]
  · obtain ⟨hRL, hge, hnear⟩ := G2 (lt_of_not_ge hc)
    have hadj : IsAdj z (g + (P : ℤ) - 2) := by
      constructor
      · have : (10 : ℚ) ^ (g + (P : ℤ) - 2) = ((10 ^ (P - 1) : ℕ) : ℚ) / 10 * (10 : ℚ) ^ g := by
          rw [hLq]
          have e : (10 : ℚ) ^ ((P : ℤ) - 1) / 10 = (10 : ℚ) ^ ((P : ℤ) - 1) * (10 : ℚ) ^ (-1 : ℤ) := by
            rw [tm1]; ring
          rw [e, ← zpow_add₀ ten_ne, ← zpow_add₀ ten_ne]; congr 1; ring
        rw [this]
        calc _ ≤ z / (10 : ℚ) ^ g * (10 : ℚ) ^ g := mul_le_mul_of_nonneg_right hge hs.le
          _ = z := hzs.symm
      · have : (10 : ℚ) ^ (g + (P : ℤ) - 2 + 1) = ((10 ^ (P - 1) : ℕ) : ℚ) * (10 : ℚ) ^ g := by
          rw [hLq, ← zpow_add₀ ten_ne]; congr 1; ring
        rw [this]
        calc z = z / (10 : ℚ) ^ g * (10 : ℚ) ^ g := hzs
          _ < ((10 ^ (P - 1) : ℕ) : ℚ) * (10 : ℚ) ^ g := mul_lt_mul_of_pos_right (lt_of_not_ge hc) hs
    have hae := IsAdj_unique ha hadj
    have hq1 : quantum cc a ≤ g := by rw [hqd, hae]; omega
    have hq2 : g - 1 ≤ quantum cc a := by rw [hqd, hae]; omega
    obtain ⟨q, hqe⟩ : ∃ q, q = quantum cc a := ⟨_, rfl⟩
    rw [← hqe] at hq1 hq2
    have hq := tp q
    have hw : ((10 ^ (g - q).toNat : ℕ) : ℚ) = (10 : ℚ) ^ (g - q) := zpow_toNat _ (by omega)
    have hw10 : (10 : ℚ) ^ (g - q) ≤ 10 := by
      have : (10 : ℚ) ^ (g - q) ≤ (10 : ℚ) ^ (1 : ℤ) := zpow_le_zpow_right₀ ten_gt.le (by omega)
      simpa using this
    have hwp := tp (g - q)
    have hgq : (10 : ℚ) ^ g = (10 : ℚ) ^ (g - q) * (10 : ℚ) ^ q := by
      rw [← zpow_add₀ ten_ne]; congr 1; ring
    have hnear' : |z / (10 : ℚ) ^ q - ((R' * 10 ^ (g - q).toNat : ℕ) : ℚ)| < 1 / 2 := by
      have e : z / (10 : ℚ) ^ q - ((R' * 10 ^ (g - q).toNat : ℕ) : ℚ) =
          (z / (10 : ℚ) ^ g - (R' : ℚ)) * (10 : ℚ) ^ (g - q) := by
        rw [Nat.cast_mul, hw, hgq]; field_simp
      rw [e, abs_mul, abs_of_pos hwp]
      have := abs_nonneg (z / (10 : ℚ) ^ g - (R' : ℚ))
      nlinarith
    have := roundedMag_of_near cc hmode false z a (R' * 10 ^ (g - q).toNat) (by rw [← hqe]; exact hnear')
    rw [this, ← hqe, Nat.cast_mul, hw, hgq]; ring


/-! ## perfect cubes -/

theorem perfectCube_val (x : Dec) (R : ℕ) (k : ℤ) (h : perfectCube x = some (R, k)) :
    magQ x = ((R : ℚ) * (10 : ℚ) ^ k) ^ 3 := by
  obtain ⟨h1, h2⟩ := Props.C11_perfectCube x R k h
  have hs : 0 ≤ Int.emod x.exp 3 := Int.emod_nonneg _ (by decide)
  have h3 : ((R * R * R : ℕ) : ℚ) = ((x.coeff * 10 ^ (Int.emod x.exp 3).toNat : ℕ) : ℚ) := by rw [h2]
  rw [Nat.cast_mul, Nat.cast_mul, Nat.cast_mul, zpow_toNat _ hs] at h3
  generalize Int.emod x.exp 3 = s at *
  unfold magQ
  rw [mul_pow, cube_zpow, h1, add_comm, zpow_add₀ ten_ne, ← mul_assoc, ← h3]
  ring

theorem z_isAdj {z : Dec} (hz : Pos z) : IsAdj z.toRat ((ndigits z.coeff : ℤ) - 1 + z.exp) := by
  obtain ⟨b1, b2⟩ := toRat_bounds hz
  constructor
  · rw [show (ndigits z.coeff : ℤ) - 1 + z.exp = z.exp + (ndigits z.coeff : ℤ) - 1 by ring]; exact b1
  · rw [show (ndigits z.coeff : ℤ) - 1 + z.exp + 1 = z.exp + (ndigits z.coeff : ℤ) by ring]; exact b2

/-- on a perfect cube whose root `R·10^k` fits the precision and the exponent range, the final rounding
returns the root -/
theorem exact_round (c : Ctx) (hc : c.WF) (hp : c.prec * 3 + 2 ≤ 100000)
    (x : Dec) (hx : x.form = .finite) (h0 : x.coeff ≠ 0) (hw : x.WF) (z : Dec) (hI : Iter c x z)
    (R : ℕ) (k : ℤ) (hval : magQ x = ((R : ℚ) * (10 : ℚ) ^ k) ^ 3) (hR : 0 < R) (hr : ndigits R ≤ c.prec)
    (hlo : c.emin ≤ k + (ndigits R : Int) - 1) (hhi : k + (ndigits R : Int) - 1 ≤ c.emax) :
    (ctxRound (cH c) z).1.form = .finite ∧ (ctxRound (cH c) z).1.neg = false ∧
    (ctxRound (cH c) z).1.toRat = (R : ℚ) * (10 : ℚ) ^ k ∧ ndigits (ctxRound (cH c) z).1.coeff ≤ c.prec := by
  obtain ⟨hns, hA⟩ := final_agrees c hc hp x hx h0 hw z hI
  have hzp := hI.pos.toRat_pos
  have hρ : 0 < (R : ℚ) * (10 : ℚ) ^ k := by
    have : (0 : ℚ) < R := by exact_mod_cast hR
    have := tp k
    positivity
  obtain ⟨t0, t1⟩ := tau_le c.prec hc.1
  have k1 : z.toRat * (1 - 3 * ((10 : ℚ) ^ (-(c.prec : ℤ))) ^ 2) ≤ (R : ℚ) * (10 : ℚ) ^ k := by
    have := hI.lo
    rw [hval] at this
    exact le_of_pow_le_pow_left₀ (by norm_num) hρ.le this
  have k2 : (R : ℚ) * (10 : ℚ) ^ k ≤ z.toRat * (1 + 3 * ((10 : ℚ) ^ (-(c.prec : ℤ))) ^ 2) := by
    have := hI.hi
    rw [hval] at this
    exact le_of_pow_le_pow_left₀ (by norm_num) (by positivity) this
  have ha := z_isAdj hI.pos
  have hgr := grid_round c hc.1 R k hR hr hlo z.toRat hzp _ ha k1 k2
  -- the specification does not overflow
  have hn : 0 < (exactRound z).num := hI.pos.h0
  have hd : 0 < (exactRound z).den := Nat.one_pos
  have hneg : (exactRound z).neg = false := hI.pos.hn
  have hmag : (exactRound z).mag = z.toRat := by
    unfold Exact.mag exactRound; rw [hI.pos.toRat_eq]; simp
  have hinf : (specRound (cH c) (exactRound z)).inf = false := by
    cases hb : (specRound (cH c) (exactRound z)).inf
    · rfl
    · exfalso
      have := (Rat_specRound_overflow (cH c) (exactRound z) hn hd (by rw [hmag]; exact ha)).1 hb
      rw [hneg, hmag, hgr] at this
      have hR2 : (R : ℚ) < (10 : ℚ) ^ ((ndigits R : ℕ) : ℤ) := by
        rw [← zpow_ofNat]; exact_mod_cast (ndigits_spec R hR).2
      have h3 : (R : ℚ) * (10 : ℚ) ^ k < (10 : ℚ) ^ ((ndigits R : ℕ) : ℤ) * (10 : ℚ) ^ k :=
        mul_lt_mul_of_pos_right hR2 (tp k)
      rw [← zpow_add₀ ten_ne] at h3
      have h4 : (10 : ℚ) ^ (((ndigits R : ℕ) : ℤ) + k) ≤ (10 : ℚ) ^ ((cH c).emax + 1) :=
        zpow_le_zpow_right₀ ten_gt.le (by show _ ≤ c.emax + 1; omega)
      linarith
  have hform : (ctxRound (cH c) z).1.form = .finite := by
    cases hf : (ctxRound (cH c) z).1.form with
    | finite => rfl
    | infinite =>
      exfalso
      obtain ⟨h1, -⟩ := (Rat_matches_infinite _ _ hf).1 hA.1
      rw [hinf] at h1; exact Bool.noConfusion h1
    | nan =>
      exfalso
      have := Rat_matches_nan (specRound (cH c) (exactRound z)) _ (by rw [hf]; decide) (by rw [hf]; decide)
      rw [hA.1] at this; exact Bool.noConfusion this
    | nanSignaling =>
      exfalso
      have := Rat_matches_nan (specRound (cH c) (exactRound z)) _ (by rw [hf]; decide) (by rw [hf]; decide)
      rw [hA.1] at this; exact Bool.noConfusion this
  obtain ⟨a, q, n, had, -, -, -, -, -, hDneg, hDnd, -, hDv⟩ := round_facts c hc z hI.pos _ _ hA hform
  rw [had, hgr] at hDv
  exact ⟨hform, hDneg, hDv, hDnd⟩


/-! ## the re-check: exact multiplications -/

/-- a non-failed rounding of a value that is a decimal of at most `p` digits is exact -/
theorem agrees_exact (cc : Ctx) (p : Nat) (hp : cc.prec = p) (hp1 : 1 ≤ p)
    (hm : cc.mode = .halfUp ∨ cc.mode = .halfDown ∨ cc.mode = .halfEven)
    (ex : Exact) (hd : 0 < ex.den) (d : Dec) (fl : Cond) (hA : Agrees cc ex d fl)
    (hsub : fl.subnormal = false) (hov : fl.overflow = false)
    (m : ℕ) (g : ℤ) (hm0 : 0 < m) (hmag : ex.mag = (m : ℚ) * (10 : ℚ) ^ g) (hmd : ndigits m ≤ p) :
    d.form = .finite ∧ d.toRat = ex.toRat := by
  obtain ⟨hform, -, -, -⟩ := agrees_rel cc p hp hp1 hm ex hd d fl hA hsub hov
  have hmq : (0 : ℚ) < m := by exact_mod_cast hm0
  have hmagpos : 0 < ex.mag := by rw [hmag]; have := tp g; positivity
  have hn : 0 < ex.num := by
    rcases Nat.eq_zero_or_pos ex.num with h0 | h0
    · exfalso; unfold Exact.mag at hmagpos; rw [h0] at hmagpos; simp at hmagpos
    · exact h0
  -- the adjusted exponent
  have hadj : IsAdj ex.mag ((ndigits m : ℤ) - 1 + g) := by
    rw [hmag]
    apply IsAdj_scale
    obtain ⟨h1, h2⟩ := ndigits_q m hm0
    exact ⟨h1, by rw [sub_add_cancel]; exact h2⟩
  have hnsub : ¬ ex.mag < (10 : ℚ) ^ cc.emin := by
    intro h
    have := (Rat_specRound_subnormal cc ex hn hd).2 h
    rw [← hA.2.1.2.1, hsub] at this
    exact Bool.noConfusion this
  have alo : cc.emin ≤ (ndigits m : ℤ) - 1 + g := by
    have h1 : (10 : ℚ) ^ cc.emin ≤ ex.mag := not_lt.1 hnsub
    have := lt_of_le_of_lt h1 hadj.2
    rw [zpow_lt_zpow_iff_right₀ ten_gt] at this
    omega
  have hq : quantum cc ((ndigits m : ℤ) - 1 + g) = (ndigits m : ℤ) - 1 + g - (p : ℤ) + 1 := by
    unfold quantum; rw [hp]; omega
  obtain ⟨hval, -, -, -⟩ := Rat_agrees_finite cc ex d fl hn hd hadj hA hform
  obtain ⟨-, -, -, -, b5⟩ := Rat_roundedMag_bracket cc ex.neg ex.mag ((ndigits m : ℤ) - 1 + g)
  have hqg : quantum cc ((ndigits m : ℤ) - 1 + g) ≤ g := by rw [hq]; omega
  have hk : ex.mag = (((m * 10 ^ (g - quantum cc ((ndigits m : ℤ) - 1 + g)).toNat : ℕ) : ℤ) : ℚ) *
      (10 : ℚ) ^ quantum cc ((ndigits m : ℤ) - 1 + g) := by
    rw [hmag, Int.cast_natCast, align m g _ hqg]
  rw [b5 _ hk] at hval
  exact ⟨hform, by rw [hval, Exact.toRat_eq]⟩

theorem mul_exact (cc : Ctx) (p : Nat) (hw : NCtx cc p) (hp1 : 1 ≤ p) (hp2 : p ≤ 100000)
    (x y : Dec) (hx : x.form = .finite) (hy : y.form = .finite) (he : (mulOp cc x y).err = .none)
    (m : ℕ) (g : ℤ) (hm0 : 0 < m) (hv : |x.toRat * y.toRat| = (m : ℚ) * (10 : ℚ) ^ g) (hmd : ndigits m ≤ p) :
    (mulOp cc x y).d.form = .finite ∧ (mulOp cc x y).d.toRat = x.toRat * y.toRat := by
  have hc := hw.wf hp1 hp2
  have herr : (mulOp cc x y).err = goError cc.traps (mulOp cc x y).fl := by
    rw [Props.mulOp_finite cc x y hx hy]; rfl
  rw [he, hw.ht] at herr
  obtain ⟨-, f2, -, f4, -⟩ := goError_default _ herr.symm
  have hA := Props.C01_mul cc hc x y hx hy (Or.inl he)
  have hmag : (exactMul x y).mag = (m : ℚ) * (10 : ℚ) ^ g := by
    rw [← Exact.abs_toRat, Rat_exactMul_toRat]; exact hv
  obtain ⟨r1, r2⟩ := agrees_exact cc p hw.hp hp1 (Or.inl hw.hm) (exactMul x y) Nat.one_pos _ _ hA f4 f2 m g hm0
    hmag hmd
  exact ⟨r1, by rw [r2, Rat_exactMul_toRat]⟩

theorem nc3_nctx (c : Ctx) : NCtx { nc c with prec := c.prec * 3 } (c.prec * 3) := ⟨rfl, rfl, rfl, rfl, rfl⟩

/-- the cube computed by the re-check is exact when the result has at most `P` digits -/
theorem recheck_exact (c : Ctx) (hc : c.WF) (hp : c.prec * 3 + 2 ≤ 100000) (fl0 : Cond) (z d : Dec)
    (hd : d.form = .finite) (hd0 : 0 < d.coeff) (hdn : ndigits d.coeff ≤ c.prec)
    (hnf : (recheck c fl0 z d).1.failed = false) :
    (recheck c fl0 z d).2.form = .finite ∧ (recheck c fl0 z d).2.toRat = d.toRat * d.toRat * d.toRat := by
  have hw := nc3_nctx c
  have hP1 := hc.1
  have hp1 : 1 ≤ c.prec * 3 := by omega
  have hp2 : c.prec * 3 ≤ 100000 := by omega
  unfold recheck at hnf ⊢
  dsimp only at hnf ⊢
  generalize h1' : ({ c := { nc c with prec := c.prec * 3 }, fl := fl0, err := .none } : ED).step z
    (fun cc => mulOp cc d d) = q1 at hnf ⊢
  generalize h2' : q1.1.step q1.2 (fun cc => mulOp cc q1.2 d) = q2 at hnf ⊢
  obtain ⟨f1, g2, v2, c2⟩ := step_back' h2' hnf
  obtain ⟨f0, g1, v1, c1⟩ := step_back' h1' f1
  have k1 : q1.1.c = { nc c with prec := c.prec * 3 } := c1
  rw [k1] at g2 v2
  have g1' : (mulOp { nc c with prec := c.prec * 3 } d d).err = .none := g1
  have v1' : q1.2 = (mulOp { nc c with prec := c.prec * 3 } d d).d := v1
  -- the magnitude of `d`
  have hC : d.coeff < 10 ^ c.prec := lt_pow_of_ndigits_le _ _ hdn
  have habs : |d.toRat| = (d.coeff : ℚ) * (10 : ℚ) ^ d.exp := by
    have hnn : (0 : ℚ) ≤ (d.coeff : ℚ) * (10 : ℚ) ^ d.exp := by have := tp d.exp; positivity
    unfold Dec.toRat
    cases d.neg <;> simp [abs_of_nonneg hnn]
  have hm1 : ndigits (d.coeff * d.coeff) ≤ c.prec * 3 := by
    apply ndigits_le_of_lt_pow _ _ hp1
    calc d.coeff * d.coeff < 10 ^ c.prec * 10 ^ c.prec := Nat.mul_lt_mul'' hC hC
      _ = 10 ^ (c.prec * 2) := by rw [← Nat.pow_add]; congr 1; omega
      _ ≤ 10 ^ (c.prec * 3) := Nat.pow_le_pow_right (by decide) (by omega)
  have hm2 : ndigits (d.coeff * d.coeff * d.coeff) ≤ c.prec * 3 := by
    apply ndigits_le_of_lt_pow _ _ hp1
    calc d.coeff * d.coeff * d.coeff < 10 ^ c.prec * 10 ^ c.prec * 10 ^ c.prec :=
          Nat.mul_lt_mul'' (Nat.mul_lt_mul'' hC hC) hC
      _ = 10 ^ (c.prec * 3) := by rw [← Nat.pow_add, ← Nat.pow_add]; congr 1; omega
  have hv1 : |d.toRat * d.toRat| = ((d.coeff * d.coeff : ℕ) : ℚ) * (10 : ℚ) ^ (d.exp + d.exp) := by
    rw [abs_mul, habs, zpow_add₀ ten_ne]; push_cast; ring
  obtain ⟨a1, a2⟩ := mul_exact _ _ hw hp1 hp2 d d hd hd g1' (d.coeff * d.coeff) _ (Nat.mul_pos hd0 hd0) hv1 hm1
  rw [← v1'] at a1 a2
  have hv2 : |q1.2.toRat * d.toRat| = ((d.coeff * d.coeff * d.coeff : ℕ) : ℚ) * (10 : ℚ) ^ (d.exp + d.exp + d.exp) := by
    rw [a2, abs_mul, abs_mul, habs, zpow_add₀ ten_ne, zpow_add₀ ten_ne]; push_cast; ring
  obtain ⟨b1, b2⟩ := mul_exact _ _ hw hp1 hp2 q1.2 d a1 hd g2 (d.coeff * d.coeff * d.coeff) _
    (Nat.mul_pos (Nat.mul_pos hd0 hd0) hd0) hv2 hm2
  rw [← v2] at b1 b2
  exact ⟨b1, by rw [b2, a2]⟩


/-- **perfect cubes**: the tail returns the exact root with no condition -/
theorem tail_exact (c : Ctx) (hc : c.WF) (hp : c.prec * 3 + 2 ≤ 100000)
    (x : Dec) (hx : x.form = .finite) (h0 : x.coeff ≠ 0) (hw : x.WF) (fl0 : Cond) (z : Dec) (hI : Iter c x z)
    (he : (tail c x fl0 z).err = .none)
    (R : ℕ) (k : ℤ) (hpc : perfectCube x = some (R, k)) (hr : ndigits R ≤ c.prec)
    (hlo : c.emin ≤ k + (ndigits R : Int) - 1) (hhi : k + (ndigits R : Int) - 1 ≤ c.emax) :
    (tail c x fl0 z).fl = {} ∧ (tail c x fl0 z).d.form = .finite ∧ (tail c x fl0 z).d.neg = x.neg ∧
    |(tail c x fl0 z).d.toRat| = (R : ℚ) * (10 : ℚ) ^ k := by
  have hval := perfectCube_val x R k hpc
  have hXp := magQ_pos x h0
  have hR : 0 < R := by
    rcases Nat.eq_zero_or_pos R with hz | hz
    · exfalso; rw [hval, hz] at hXp; simp at hXp
    · exact hz
  have hρ : 0 < (R : ℚ) * (10 : ℚ) ^ k := by
    have : (0 : ℚ) < R := by exact_mod_cast hR
    have := tp k
    positivity
  obtain ⟨hDf, hDn, hDv, hDnd⟩ := exact_round c hc hp x hx h0 hw z hI R k hval hR hr hlo hhi
  have hDv' : ((ctxRound (cH c) z).1.coeff : ℚ) * (10 : ℚ) ^ (ctxRound (cH c) z).1.exp = (R : ℚ) * (10 : ℚ) ^ k := by
    rw [← hDv]; unfold Dec.toRat; rw [hDn]; simp
  have hD0 : 0 < (ctxRound (cH c) z).1.coeff := by
    rcases Nat.eq_zero_or_pos (ctxRound (cH c) z).1.coeff with hz | hz
    · exfalso; rw [hz] at hDv'; rw [← hDv'] at hρ; simp at hρ
    · exact hz
  have hdv : (resD c x z).toRat = (if x.neg then -1 else 1) * ((R : ℚ) * (10 : ℚ) ^ k) := by
    rw [← hDv']; unfold resD Dec.toRat; simp only []; ring
  have hxv : x.toRat = (if x.neg then -1 else 1) * ((R : ℚ) * (10 : ℚ) ^ k) ^ 3 := by
    rw [← hval]; unfold Dec.toRat magQ; ring
  obtain ⟨hnf, hd⟩ := tail_ok c x fl0 z he
  obtain ⟨hqf, hqv⟩ := recheck_exact c hc hp fl0 z (resD c x z) hDf hD0 hDnd hnf
  have heq : x.toRat = (recheck c fl0 z (resD c x z)).2.toRat := by
    rw [hqv, hdv, hxv]
    cases x.neg <;> simp <;> ring
  have hcmp : x.cmp (recheck c fl0 z (resD c x z)).2 = 0 := (cmp_toRat x _ hx hqf).2.2 heq
  have hte : tail c x fl0 z = { d := resD c x z } := by
    rw [tail_eq, if_neg (by rw [hnf]; exact Bool.false_ne_true), if_pos (by rw [hcmp]; rfl)]
  rw [hte]
  refine ⟨rfl, hDf, rfl, ?_⟩
  show |(resD c x z).toRat| = _
  rw [hdv]
  cases x.neg <;> simp [abs_of_pos hρ]

end Apd.CbrtE

#print axioms Apd.CbrtE.tail_exact
