import ApdVerif.Lemmas.ExpAccOps
import ApdVerif.Model.TransLog
import ApdVerif.Lemmas.C03Lemmas
/-!
# The two loops of `Exp` on the model: the Horner loop `expSeries` and `integerPower`
-/
namespace Apd.ExpAcc
open Apd Apd.Oracle Cond

/-! ## ErrDecimal steps -/

theorem step_of_failed (e : ED) (cur : Dec) (op : Ctx → Out) (h : e.failed = true) :
    e.step cur op = (e, cur) := by
  unfold ED.step; rw [if_pos h]

theorem step_ok (e : ED) (cur : Dec) (op : Ctx → Out) (h : (e.step cur op).1.failed = false) :
    e.failed = false ∧ (op e.c).err = .none ∧ (e.step cur op).2 = (op e.c).d ∧ (e.step cur op).1.c = e.c := by
  by_cases hf : e.failed = true
  · rw [step_of_failed e cur op hf] at h
    simp only at h
    rw [hf] at h; cases h
  · have hf' : e.failed = false := by simpa using hf
    unfold ED.step at h ⊢
    rw [if_neg hf] at h ⊢
    simp only at h
    refine ⟨hf', ?_, rfl, rfl⟩
    unfold ED.failed at h
    simp only [Bool.or_eq_false_iff, bne_eq_false_iff_eq] at h
    exact h.1

theorem rv_natDec (n : ℕ) : rv { coeff := n } = (n : ℝ) := by
  unfold rv Dec.toRat; simp

theorem rv_decOne : rv decOne = 1 := by
  unfold rv Dec.toRat decOne; simp

/-! ## one round of the Horner loop -/

def sR1 (r : Dec) (i : Nat) (e : ED) : ED × Dec := e.step decZero (fun c => quoOp c r { coeff := i + 1 })
def sR2 (r : Dec) (i : Nat) (e : ED) (sum : Dec) : ED × Dec :=
  (sR1 r i e).1.step sum (fun c => mulOp c (sR1 r i e).2 sum)
def sR3 (r : Dec) (i : Nat) (e : ED) (sum : Dec) : ED × Dec :=
  (sR2 r i e sum).1.step (sR2 r i e sum).2 (fun c => addOp c (sR2 r i e sum).2 decOne false)

theorem expSeries_succ (r : Dec) (i : Nat) (e : ED) (sum : Dec) :
    expSeries r (i + 1) e sum = expSeries r i (sR3 r i e sum).1 (sR3 r i e sum).2 := rfl

theorem expSeries_failed (r : Dec) : ∀ (i : Nat) (e : ED) (sum : Dec), e.failed = true →
    (expSeries r i e sum).1.failed = true := by
  intro i
  induction i with
  | zero => intro e sum h; exact h
  | succ i ih =>
    intro e sum h
    rw [expSeries_succ]
    apply ih
    unfold sR3 sR2 sR1
    rw [step_of_failed e _ _ h]
    simp only
    rw [step_of_failed e _ _ h]
    simp only
    rw [step_of_failed e _ _ h]
    exact h

theorem series_round (nc : Ctx) (hw : Wide nc) (hm : nc.mode = .halfEven) (r : Dec) (hr : r.form = .finite)
    (hr0 : rv r ≠ 0) (hnd : ndigits r.coeff ≤ nc.prec) (hu : uR nc.prec < 1)
    (i : Nat) (e : ED) (hc : e.c = nc) (sum : Dec) (hs : sum.form = .finite) (hs0 : rv sum ≠ 0)
    (hadd : ∀ θ : ℝ, |θ| ≤ thetaB (uR nc.prec) i → 1 + rv r / ((i + 1 : ℕ) : ℝ) * (1 + θ) * rv sum ≠ 0)
    (hfail : (sR3 r i e sum).1.failed = false) :
    e.failed = false ∧ (sR3 r i e sum).1.c = nc ∧ (sR3 r i e sum).2.form = .finite ∧
    ∃ θ δ : ℝ, |θ| ≤ thetaB (uR nc.prec) i ∧ |δ| ≤ uR nc.prec ∧
      rv (sR3 r i e sum).2 = (1 + rv r / ((i + 1 : ℕ) : ℝ) * (1 + θ) * rv sum) * (1 + δ) := by
  set u := uR nc.prec with hudef
  have hu0 : 0 < u := uR_pos _
  obtain ⟨f2, a3, v3, c3⟩ := step_ok _ _ _ hfail
  obtain ⟨f1, a2, v2, c2⟩ := step_ok _ _ _ f2
  obtain ⟨f0, a1, v1, c1⟩ := step_ok _ _ _ f1
  -- contexts
  have C1 : (sR1 r i e).1.c = nc := by rw [← hc]; exact c1
  have C2 : (sR2 r i e sum).1.c = nc := by rw [← C1]; exact c2
  have C3 : (sR3 r i e sum).1.c = nc := by rw [← C2]; exact c3
  simp only [hc] at a1 v1
  rw [C1] at a2 v2
  rw [C2] at a3 v3
  change (sR1 r i e).2 = _ at v1
  change (sR2 r i e sum).2 = _ at v2
  change (sR3 r i e sum).2 = _ at v3
  have hi1 : ((i + 1 : ℕ) : ℝ) ≠ 0 := by positivity
  have hdi : rv ({ coeff := i + 1 } : Dec) = ((i + 1 : ℕ) : ℝ) := rv_natDec (i + 1)
  have hdf : ({ coeff := i + 1 } : Dec).form = .finite := rfl
  -- quotient
  have hq : (sR1 r i e).2.form = .finite ∧ ∃ δ1 : ℝ, |δ1| ≤ u ∧ (i = 0 → δ1 = 0) ∧
      rv (sR1 r i e).2 = rv r / ((i + 1 : ℕ) : ℝ) * (1 + δ1) := by
    rw [v1]
    by_cases hi0 : i = 0
    · subst hi0
      obtain ⟨g1, g2⟩ := quo_one_exact nc hw r hr hr0 hnd a1
      refine ⟨g1, 0, by simpa using hu0.le, fun _ => rfl, ?_⟩
      rw [g2]; simp
    · obtain ⟨g1, δ1, g2, g3⟩ := quo_rel nc hw hm r _ hr hdf hr0 (by rw [hdi]; exact hi1) a1
      refine ⟨g1, δ1, g2, fun h => absurd h hi0, ?_⟩
      rw [g3, hdi]
  obtain ⟨q1, δ1, q2, q3, q4⟩ := hq
  have hδ1 : 1 + δ1 ≠ 0 := by
    have := abs_le.1 q2; intro h; linarith
  have hq0 : rv (sR1 r i e).2 ≠ 0 := by
    rw [q4]; exact mul_ne_zero (div_ne_zero hr0 hi1) hδ1
  -- product
  have hmul := mul_rel nc hw hm (sR1 r i e).2 sum q1 hs hq0 hs0 a2
  rw [← v2] at hmul
  obtain ⟨m1, δ2, m2, m3⟩ := hmul
  -- θ
  set θ : ℝ := δ1 + δ2 + δ1 * δ2 with hθ
  have hθb : |θ| ≤ thetaB u i := by
    unfold thetaB
    by_cases hi0 : i = 0
    · rw [if_pos hi0, hθ, q3 hi0]; simpa using m2
    · rw [if_neg hi0, hθ]
      have h1 : |δ1 * δ2| ≤ u * u := by
        rw [abs_mul]; exact mul_le_mul q2 m2 (abs_nonneg _) hu0.le
      calc |δ1 + δ2 + δ1 * δ2| ≤ |δ1 + δ2| + |δ1 * δ2| := abs_add_le _ _
        _ ≤ (|δ1| + |δ2|) + |δ1 * δ2| := by linarith [abs_add_le δ1 δ2]
        _ ≤ 2 * u + u ^ 2 := by nlinarith
  have hprod : rv (sR2 r i e sum).2 = rv r / ((i + 1 : ℕ) : ℝ) * (1 + θ) * rv sum := by
    rw [m3, q4, hθ]; ring
  -- sum
  have hone : decOne.form = .finite := rfl
  have hnz : rv (sR2 r i e sum).2 + rv decOne ≠ 0 := by
    rw [rv_decOne, hprod, add_comm]; exact hadd θ hθb
  have hsum := add_rel nc hw hm (sR2 r i e sum).2 decOne m1 hone hnz a3
  rw [← v3] at hsum
  obtain ⟨s1, δ3, s2, s3⟩ := hsum
  refine ⟨f0, C3, s1, θ, δ3, hθb, s2, ?_⟩
  rw [s3, rv_decOne, hprod]; ring

/-! ## the Horner loop -/

theorem expSeries_zero (r : Dec) (e : ED) (sum : Dec) : expSeries r 0 e sum = (e, sum) := rfl

theorem series_loop (nc : Ctx) (hw : Wide nc) (hm : nc.mode = .halfEven) (r : Dec) (hr : r.form = .finite)
    (hr0 : rv r ≠ 0) (hnd : ndigits r.coeff ≤ nc.prec) (hu : uR nc.prec ≤ 1 / 200) (hρ : |rv r| ≤ 1) :
    ∀ (i : Nat) (e : ED) (sum : Dec) (m : Nat), e.c = nc → sum.form = .finite →
      (1 ≤ i → |rv sum - hornerT (rv r) (i + 1) m| ≤ HB (rv r) (uR nc.prec) (i + 1)) →
      (i = 0 → |rv sum - hornerT (rv r) 1 m| ≤ HF (rv r) (uR nc.prec)) →
      1 / 10 ≤ hornerT (rv r) 1 (m + i) →
      (expSeries r i e sum).1.failed = false →
      (expSeries r i e sum).2.form = .finite ∧
        |rv (expSeries r i e sum).2 - hornerT (rv r) 1 (m + i)| ≤ HF (rv r) (uR nc.prec) := by
  set u := uR nc.prec with hudef
  set ρ := rv r with hρdef
  have hu0 : 0 ≤ u := (uR_pos _).le
  intro i
  induction i with
  | zero =>
    intro e sum m _ hs _ h2 _ _
    rw [expSeries_zero]
    exact ⟨hs, h2 rfl⟩
  | succ i ih =>
    intro e sum m hc hs h1 _ hT hfin
    rw [expSeries_succ] at hfin ⊢
    have hfail3 : (sR3 r i e sum).1.failed = false := by
      by_contra hcon
      have : (sR3 r i e sum).1.failed = true := by simpa using hcon
      rw [expSeries_failed r i _ _ this] at hfin; cases hfin
    have he := h1 (by omega)
    -- the running sum is not zero
    obtain ⟨t1, t2⟩ := hornerT_range ρ hρ (i + 2) m (by omega)
    obtain ⟨hb0, hb1⟩ := HB_bounds ρ u (i + 2) hρ hu0 (by omega)
    have hs0 : rv sum ≠ 0 := by
      have := abs_le.1 he
      have e2 : i + 1 + 1 = i + 2 := rfl
      rw [e2] at this
      intro h0; rw [h0] at this; linarith [this.1, this.2]
    -- the round, as a real statement
    have key : ∀ θ δ : ℝ, |θ| ≤ thetaB u i → |δ| ≤ u →
        |(1 + ρ / ((i + 1 : ℕ) : ℝ) * (1 + θ) * rv sum) * (1 + δ) - hornerT ρ (i + 1) (m + 1)| ≤
          (if i = 0 then HF ρ u else HB ρ u (i + 1)) :=
      fun θ δ hθ hδ => horner_round ρ u (rv sum) θ δ i m hρ hu0 hu he hθ hδ
    -- the exact new partial sum is away from zero
    have hnew : 1 / 10 ≤ hornerT ρ (i + 1) (m + 1) := by
      by_cases hi0 : i = 0
      · subst hi0; simpa using hT
      · have := (hornerT_range ρ hρ (i + 1) (m + 1) (by omega)).1; linarith
    have hbound : (if i = 0 then HF ρ u else HB ρ u (i + 1)) ≤ 12 * u := by
      split_ifs with hi0
      · exact (HF_bounds ρ u hρ hu0).2
      · have := (HB_bounds ρ u (i + 1) hρ hu0 (by omega)).2; linarith
    have hadd : ∀ θ : ℝ, |θ| ≤ thetaB u i → 1 + ρ / ((i + 1 : ℕ) : ℝ) * (1 + θ) * rv sum ≠ 0 := by
      intro θ hθ h0
      have := key θ 0 hθ (by simpa using hu0)
      rw [h0] at this
      have h2 := abs_le.1 this
      linarith [h2.1, h2.2]
    obtain ⟨f0, c3, s3, θ, δ, hθ, hδ, hv⟩ :=
      series_round nc hw hm r hr hr0 hnd (by linarith) i e hc sum hs hs0 hadd hfail3
    have hinv := key θ δ hθ hδ
    rw [← hv] at hinv
    have em : m + (i + 1) = m + 1 + i := by omega
    rw [em] at hT ⊢
    apply ih (sR3 r i e sum).1 (sR3 r i e sum).2 (m + 1) c3 s3
    · intro hi1
      have : ¬ i = 0 := by omega
      rw [if_neg this] at hinv; exact hinv
    · intro hi0
      rw [if_pos hi0] at hinv
      subst hi0; exact hinv
    · exact hT
    · exact hfin

/-- the Horner loop of `Exp`: started with `sum = 1` and `n - 1` rounds it returns the Taylor polynomial
`Σ_{j<n} r^j/j!` within `HF`, provided that polynomial is not tiny (which the truncation condition gives) -/
theorem series_total (nc : Ctx) (hw : Wide nc) (hm : nc.mode = .halfEven) (r : Dec) (hr : r.form = .finite)
    (hr0 : rv r ≠ 0) (hnd : ndigits r.coeff ≤ nc.prec) (hu : uR nc.prec ≤ 1 / 200) (hρ : |rv r| ≤ 1)
    (n : Nat) (hn : 1 ≤ n)
    (hT : 1 / 10 ≤ ∑ j ∈ Finset.range n, rv r ^ j / (j.factorial : ℝ))
    (hfin : (expSeries r (n - 1) { c := nc } decOne).1.failed = false) :
    (expSeries r (n - 1) { c := nc } decOne).2.form = .finite ∧
      |rv (expSeries r (n - 1) { c := nc } decOne).2 - ∑ j ∈ Finset.range n, rv r ^ j / (j.factorial : ℝ)| ≤
        HF (rv r) (uR nc.prec) := by
  have e1 : n - 1 + 1 = n := by omega
  have hsum : hornerT (rv r) 1 (0 + (n - 1)) = ∑ j ∈ Finset.range n, rv r ^ j / (j.factorial : ℝ) := by
    rw [hornerT_one, Nat.zero_add, e1]
  have := series_loop nc hw hm r hr hr0 hnd hu hρ (n - 1) { c := nc } decOne 0 rfl rfl
    (fun _ => by
      rw [rv_decOne, hornerT_zero, sub_self, abs_zero]
      exact (HB_bounds _ _ _ hρ (uR_pos _).le (by omega)).1)
    (fun _ => by
      rw [rv_decOne, hornerT_zero, sub_self, abs_zero]
      exact (HF_bounds _ _ hρ (uR_pos _).le).1)
    (by rw [hsum]; exact hT) hfin
  rw [hsum] at this
  exact this

/-! ## integerPower -/

def pR1 (e : ED) (b : Nat) (z n : Dec) : ED × Dec :=
  if b % 2 == 1 then e.step z (fun c => mulOp c z n) else (e, z)
def pR2 (e : ED) (b : Nat) (z n : Dec) : ED × Dec :=
  if b / 2 > 0 then (pR1 e b z n).1.step n (fun c => mulOp c n n) else ((pR1 e b z n).1, n)

theorem intPowLoop_succ (fuel : Nat) (e : ED) (b : Nat) (z n : Dec) :
    intPowLoop (fuel + 1) e b z n =
      if b == 0 then (e, z) else
      if (pR2 e b z n).1.failed then ((pR2 e b z n).1, (pR1 e b z n).2)
      else intPowLoop fuel (pR2 e b z n).1 (b / 2) (pR1 e b z n).2 (pR2 e b z n).2 := rfl

/-- log-scale size of one rounding error -/
noncomputable def uL (p : Nat) : ℝ := uR p / (1 - uR p)

theorem mul_near (nc : Ctx) (hw : Wide nc) (hm : nc.mode = .halfEven) (hu : uR nc.prec < 1) (x y : Dec)
    (hx : x.form = .finite) (hy : y.form = .finite) (hx0 : 0 < rv x) (hy0 : 0 < rv y)
    (he : (mulOp nc x y).err = .none) :
    (mulOp nc x y).d.form = .finite ∧ LogNear (uL nc.prec) (rv x * rv y) (rv (mulOp nc x y).d) := by
  obtain ⟨h1, δ, h2, h3⟩ := mul_rel nc hw hm x y hx hy hx0.ne' hy0.ne' he
  refine ⟨h1, ?_⟩
  rw [h3]
  exact LogNear.of_rel _ δ _ (mul_pos hx0 hy0).le h2 hu

theorem intPow_loop (nc : Ctx) (hw : Wide nc) (hm : nc.mode = .halfEven) (hu : uR nc.prec < 1) :
    ∀ (fuel : Nat) (e : ED) (b : Nat) (z n : Dec), e.c = nc → z.form = .finite → n.form = .finite →
      0 < rv z → 0 < rv n → b < 2 ^ fuel → (intPowLoop fuel e b z n).1.failed = false →
      (intPowLoop fuel e b z n).2.form = .finite ∧
        LogNear ((b : ℝ) * uL nc.prec) (rv z * rv n ^ b) (rv (intPowLoop fuel e b z n).2) := by
  intro fuel
  induction fuel with
  | zero =>
    intro e b z n _ hz _ _ _ hb _
    have : b = 0 := by simpa using hb
    subst this
    refine ⟨hz, ?_⟩
    simpa [intPowLoop] using LogNear.refl (rv z)
  | succ fuel ih =>
    intro e b z n hc hz hn hz0 hn0 hb hfin
    rw [intPowLoop_succ] at hfin ⊢
    by_cases h0 : b = 0
    · subst h0
      simp only [beq_self_eq_true, if_true] at hfin ⊢
      refine ⟨hz, ?_⟩
      simpa using LogNear.refl (rv z)
    · have h0' : (b == 0) = false := by simpa using h0
      simp only [h0', Bool.false_eq_true, if_false] at hfin ⊢
      by_cases hf2 : (pR2 e b z n).1.failed = true
      · rw [if_pos hf2] at hfin
        simp only at hfin
        rw [hf2] at hfin; cases hfin
      · have hf2' : (pR2 e b z n).1.failed = false := by simpa using hf2
        rw [if_neg hf2] at hfin ⊢
        -- first the state after the conditional multiplication
        have hf1 : (pR1 e b z n).1.failed = false := by
          unfold pR2 at hf2'
          by_cases hp : b / 2 > 0
          · rw [if_pos hp] at hf2'
            exact (step_ok _ _ _ hf2').1
          · rw [if_neg hp] at hf2'; exact hf2'
        have hbit : b % 2 = 0 ∨ b % 2 = 1 := by omega
        have P1 : (pR1 e b z n).1.c = nc ∧ (pR1 e b z n).2.form = .finite ∧
            LogNear (((b % 2 : ℕ) : ℝ) * uL nc.prec) (rv z * rv n ^ (b % 2)) (rv (pR1 e b z n).2) := by
          unfold pR1 at hf1 ⊢
          rcases hbit with hb0 | hb1
          · have : (b % 2 == 1) = false := by simp [hb0]
            simp only [this, Bool.false_eq_true, if_false]
            rw [hb0]
            refine ⟨hc, hz, ?_⟩
            simpa using LogNear.refl (rv z)
          · have : (b % 2 == 1) = true := by simp [hb1]
            simp only [this, if_true] at hf1 ⊢
            rw [hb1]
            obtain ⟨_, a1, v1, c1⟩ := step_ok _ _ _ hf1
            rw [hc] at a1 v1
            obtain ⟨g1, g2⟩ := mul_near nc hw hm hu z n hz hn hz0 hn0 a1
            rw [v1]
            refine ⟨by rw [c1, hc], g1, ?_⟩
            simpa using g2
        obtain ⟨c1, z1f, z1L⟩ := P1
        have z1pos : 0 < rv (pR1 e b z n).2 := z1L.pos (by positivity)
        have P2 : (pR2 e b z n).1.c = nc ∧ (pR2 e b z n).2.form = .finite ∧ 0 < rv (pR2 e b z n).2 ∧
            (0 < b / 2 → LogNear (uL nc.prec) (rv n * rv n) (rv (pR2 e b z n).2)) := by
          unfold pR2 at hf2' ⊢
          by_cases hp : b / 2 > 0
          · rw [if_pos hp] at hf2' ⊢
            obtain ⟨_, a2, v2, c2⟩ := step_ok _ _ _ hf2'
            rw [c1] at a2 v2
            obtain ⟨g1, g2⟩ := mul_near nc hw hm hu n n hn hn hn0 hn0 a2
            rw [v2]
            exact ⟨by rw [c2, c1], g1, g2.pos (by positivity), fun _ => g2⟩
          · rw [if_neg hp]
            exact ⟨c1, hn, hn0, fun h => absurd h hp⟩
        obtain ⟨c2, n2f, n2pos, n2L⟩ := P2
        have hb' : b / 2 < 2 ^ fuel := by rw [pow_succ] at hb; omega
        obtain ⟨r1, r2⟩ := ih (pR2 e b z n).1 (b / 2) (pR1 e b z n).2 (pR2 e b z n).2 c2 z1f n2f z1pos n2pos hb' hfin
        refine ⟨r1, ?_⟩
        have hdecomp : b = 2 * (b / 2) + b % 2 := by omega
        have := pow_combine (rv z) (rv n) _ _ _ (uL nc.prec) (b / 2) (b % 2) hz0 hn0 z1L n2L r2
        rw [← hdecomp] at this
        exact this

/-- `integerPower` with a positive exponent in a wide half-even context: `x^K` within `K` rounding errors -/
theorem intPower_near (nc : Ctx) (hw : Wide nc) (hm : nc.mode = .halfEven) (hu : uR nc.prec < 1) (x : Dec)
    (hx : x.form = .finite) (hx0 : 0 < rv x) (K : Nat) (hK : 1 ≤ K)
    (he : (integerPower nc x (K : Int)).2.2 = .none) :
    (integerPower nc x (K : Int)).1.form = .finite ∧
      LogNear ((K : ℝ) * uL nc.prec) (rv x ^ K) (rv (integerPower nc x (K : Int)).1) := by
  unfold integerPower at he ⊢
  have hb : (K : Int).natAbs = K := Int.natAbs_natCast K
  have hneg : decide ((K : Int) < 0) = false := by simp
  simp only [hb, hneg] at he ⊢
  by_cases hf : (intPowLoop (Nat.log2 K + 2) { c := nc } K decOne x).1.failed = true
  · rw [if_pos hf] at he
    exact absurd he (C03L.errOf_ne_of_failed _ hf)
  · have hf' : (intPowLoop (Nat.log2 K + 2) { c := nc } K decOne x).1.failed = false := by simpa using hf
    rw [if_neg hf]
    simp only [Bool.false_eq_true, if_false]
    have hlt : K < 2 ^ (Nat.log2 K + 2) := by
      have := @Nat.lt_log2_self K
      calc K < 2 ^ (Nat.log2 K + 1) := this
        _ ≤ 2 ^ (Nat.log2 K + 2) := Nat.pow_le_pow_right (by decide) (by omega)
    obtain ⟨r1, r2⟩ := intPow_loop nc hw hm hu (Nat.log2 K + 2) { c := nc } K decOne x rfl rfl hx
      (by rw [rv_decOne]; exact one_pos) hx0 hlt hf'
    refine ⟨r1, ?_⟩
    rw [rv_decOne, one_mul] at r2
    exact r2

end Apd.ExpAcc
