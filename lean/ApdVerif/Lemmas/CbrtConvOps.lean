import ApdVerif.Lemmas.CbrtLemmas
import ApdVerif.Lemmas.CbrtTail
/-!
# `Context.Cbrt` converges — forward lemmas about one operation under the working context

`Lemmas/CbrtLemmas.lean` goes BACKWARDS (a call that returned without error performed exact-rounded-once
operations).  Here we go FORWARDS: under the working context of `Cbrt` (`BaseContext` with some precision `p`:
half-up, exponent limits ±100000, `DefaultTraps`) an operation on finite operands whose exponents and whose exact
result stay inside the package limits raises no trapped condition, and delivers the exact result rounded once.
-/
set_option linter.unusedVariables false

namespace Apd.CbrtC
open Apd Apd.Oracle Apd.RatSpec Apd.C20L Apd.SqrtL Apd.CbrtL Cond

/-! ## the trapped conditions, forwards -/

theorem goError_default_none (fl : Cond) (h : NoSys fl) (h1 : fl.overflow = false) (h2 : fl.underflow = false)
    (h3 : fl.subnormal = false) (h4 : fl.divUndefined = false) (h5 : fl.divByZero = false)
    (h6 : fl.divImpossible = false) (h7 : fl.invalidOp = false) : goError defaultTraps fl = .none := by
  obtain ⟨a1, a2, a3, a4, a5, a6, a7, a8, a9, a10, a11, a12⟩ := fl
  obtain ⟨s1, s2⟩ := h
  simp only at s1 s2 h1 h2 h3 h4 h5 h6 h7
  subst s1 s2 h1 h2 h3 h4 h5 h6 h7
  simp [goError, defaultTraps, HAnd.hAnd, AndOp.and, Cond.and, Cond.any]

theorem goError_or_none (a b : Cond) (ha : goError defaultTraps a = .none) (hb : goError defaultTraps b = .none) :
    goError defaultTraps (a ||| b) = .none := by
  obtain ⟨⟨x1, x2⟩, x3, x4, x5, x6, x7, x8, x9⟩ := goError_default a ha
  obtain ⟨⟨y1, y2⟩, y3, y4, y5, y6, y7, y8, y9⟩ := goError_default b hb
  apply goError_default_none
  · exact noSys_or' ⟨x1, x2⟩ ⟨y1, y2⟩
  all_goals (simp only [HOr.hOr, OrOp.or, Cond.or]; simp [*])

/-- the rounded magnitude is at most twice the magnitude (normal range) -/
theorem roundedMag_le (cc : Ctx) (neg : Bool) (x : ℚ) (a : ℤ) (ha : IsAdj x a) (hq : quantum cc a ≤ a) :
    roundedMag cc neg x a ≤ 2 * x := by
  obtain ⟨b1, b2, b3, b4, -⟩ := Rat_roundedMag_bracket cc neg x a
  have hQ := tp (quantum cc a)
  have hQa : (10 : ℚ) ^ quantum cc a ≤ x := le_trans (zpow_le_zpow_right₀ ten_ge hq) ha.1
  have hc : (⌈x / (10 : ℚ) ^ quantum cc a⌉ : ℚ) ≤ (⌊x / (10 : ℚ) ^ quantum cc a⌋ : ℚ) + 1 := by exact_mod_cast b4
  have h5 : (⌈x / (10 : ℚ) ^ quantum cc a⌉ : ℚ) * (10 : ℚ) ^ quantum cc a ≤
      ((⌊x / (10 : ℚ) ^ quantum cc a⌋ : ℚ) + 1) * (10 : ℚ) ^ quantum cc a :=
    mul_le_mul_of_nonneg_right hc hQ.le
  rcases b1 with h | h <;> rw [h] <;> nlinarith

/-- forwards: an outcome that `Agrees` with the specification and whose exact value is zero or lies inside the
package limits raises no trapped condition -/
theorem agrees_fw (cc : Ctx) (p : Nat) (hw : NCtx cc p) (hp1 : 1 ≤ p)
    (ex : Exact) (hd : 0 < ex.den) (d : Dec) (fl : Cond) (hA : Agrees cc ex d fl)
    (hns : NoSys fl)
    (hr : 0 < ex.num → (10 : ℚ) ^ (-100000 : ℤ) ≤ ex.mag ∧ ex.mag < (10 : ℚ) ^ (99999 : ℤ)) :
    goError defaultTraps fl = .none := by
  obtain ⟨f1, f2, f3, f4, -, -, f7, f8, f9, f10⟩ := hA.2.1
  rcases Nat.eq_zero_or_pos ex.num with hn0 | hn
  · obtain ⟨z1, z2, z3, z4, z5, z6⟩ := Rat_specRound_zero cc ex hn0
    apply goError_default_none fl hns
    · rw [f4, z6]
    · rw [f3, Rat_specRound_underflow, z5]; rfl
    · rw [f2, z5]
    · exact f7
    · exact f8
    · exact f9
    · exact f10
  obtain ⟨hlo, hhi⟩ := hr hn
  have hsub : (specRound cc ex).subnormal = false := by
    cases hb : (specRound cc ex).subnormal
    · rfl
    · exfalso
      have := (Rat_specRound_subnormal cc ex hn hd).1 hb
      rw [hw.hemin] at this
      linarith
  have ha := mag_isAdj ex hn hd
  have alo : (-100000 : ℤ) ≤ adjRat ex.num ex.den + ex.e10 := by
    have := lt_of_le_of_lt hlo ha.2
    rw [zpow_lt_zpow_iff_right₀ ten_gt] at this
    omega
  have hinf : (specRound cc ex).inf = false := by
    cases hb : (specRound cc ex).inf
    · rfl
    · exfalso
      have h1 := (Rat_specRound_overflow cc ex hn hd ha).1 hb
      have h2 := roundedMag_le cc ex.neg ex.mag _ ha (by unfold quantum; rw [hw.hp, hw.hemin]; omega)
      rw [hw.hemax] at h1
      have h3 : (10 : ℚ) ^ ((100000 : ℤ) + 1) = 100 * (10 : ℚ) ^ (99999 : ℤ) := by
        rw [show (100000 : ℤ) + 1 = 2 + 99999 by norm_num, zpow_add₀ ten_ne]; norm_num
      have h4 := tp (99999 : ℤ)
      rw [h3] at h1
      generalize (10 : ℚ) ^ (99999 : ℤ) = T at h1 h4 hhi
      generalize roundedMag cc ex.neg ex.mag (adjRat ex.num ex.den + ex.e10) = R at h1 h2
      linarith
  apply goError_default_none fl hns
  · rw [f4, Rat_specRound_overflow_flag, hinf]
  · rw [f3, Rat_specRound_underflow, hsub]; rfl
  · rw [f2, hsub]
  · exact f7
  · exact f8
  · exact f9
  · exact f10

theorem delivered_of_noSys (t fl : Cond) (h : NoSys fl) : Delivered (goError t fl) := by
  unfold Delivered goError
  obtain ⟨s1, s2⟩ := h
  rw [s1, s2]
  simp only [Bool.or_self, Bool.false_eq_true, if_false]
  split_ifs <;> simp

/-- what one forward operation delivers -/
structure OpF (p : Nat) (v : ℚ) (o : Out) : Prop where
  err : o.err = .none
  flg : goError defaultTraps o.fl = .none
  r : OpR p v o.d

theorem abs_toRat (d : Dec) : |d.toRat| = (d.coeff : ℚ) * (10 : ℚ) ^ d.exp := by
  have hnn : (0 : ℚ) ≤ (d.coeff : ℚ) * (10 : ℚ) ^ d.exp := by have := tp d.exp; positivity
  unfold Dec.toRat
  cases d.neg <;> simp [abs_of_nonneg hnn]

/-- `coeff·10^exp < 10^k` bounds exponent + digits from above (any sign) -/
theorem adj_le' (cf : ℕ) (e : ℤ) (h0 : 0 < cf) {k : ℤ} (hk : (cf : ℚ) * (10 : ℚ) ^ e < (10 : ℚ) ^ k) :
    e + (ndigits cf : ℤ) ≤ k := by
  have hP : Pos ({ form := .finite, neg := false, exp := e, coeff := cf } : Dec) := ⟨rfl, rfl, h0⟩
  have := adj_le hP (k := k) (by rw [hP.toRat_eq]; exact hk)
  exact this

theorem adj_gt' (cf : ℕ) (e : ℤ) (h0 : 0 < cf) {k : ℤ} (hk : (10 : ℚ) ^ k ≤ (cf : ℚ) * (10 : ℚ) ^ e) :
    k < e + (ndigits cf : ℤ) := by
  have hP : Pos ({ form := .finite, neg := false, exp := e, coeff := cf } : Dec) := ⟨rfl, rfl, h0⟩
  have := adj_gt hP (k := k) (by rw [hP.toRat_eq]; exact hk)
  exact this

/-! ## multiplication -/

theorem mul_fw (cc : Ctx) (p : Nat) (hw : NCtx cc p) (hp1 : 1 ≤ p) (hp2 : p ≤ 100000)
    (x y : Dec) (hx : x.form = .finite) (hy : y.form = .finite) (hx0 : 0 < x.coeff) (hy0 : 0 < y.coeff)
    (e1 : -100000 ≤ x.exp) (e2 : x.exp ≤ 100000) (e3 : -100000 ≤ y.exp) (e4 : y.exp ≤ 100000)
    (e5 : -100000 ≤ x.exp + y.exp)
    (h1 : ndigits (x.coeff * y.coeff) ≤ 99999 + p)
    (hlo : (10 : ℚ) ^ (-100000 : ℤ) ≤ |x.toRat * y.toRat|) (hhi : |x.toRat * y.toRat| < (10 : ℚ) ^ (99999 : ℤ)) :
    OpF p (x.toRat * y.toRat) (mulOp cc x y) := by
  have hc := hw.wf hp1 hp2
  have hv : |x.toRat * y.toRat| = ((x.coeff * y.coeff : ℕ) : ℚ) * (10 : ℚ) ^ (x.exp + y.exp) := by
    rw [abs_mul, abs_toRat, abs_toRat, zpow_add₀ ten_ne]; push_cast; ring
  have hadj := adj_le' (x.coeff * y.coeff) (x.exp + y.exp) (Nat.mul_pos hx0 hy0) (k := 99999) (by rw [← hv]; exact hhi)
  have hns : NoSys (mulOp cc x y).fl :=
    mul_noSys cc hc hw.hemin hw.hemax x y hx hy e1 e2 e3 e4 e5 (by rw [hw.hp]; exact h1) (by omega)
  have herr : (mulOp cc x y).err = goError cc.traps (mulOp cc x y).fl := by
    rw [Props.mulOp_finite cc x y hx hy]; rfl
  have hdel : Delivered (mulOp cc x y).err := by
    rw [herr]; exact delivered_of_noSys _ _ hns
  have hA := Props.C01_mul cc hc x y hx hy hdel
  have hmag : (exactMul x y).mag = |x.toRat * y.toRat| := by
    rw [← Exact.abs_toRat, Rat_exactMul_toRat]
  have hfl := agrees_fw cc p hw hp1 (exactMul x y) Nat.one_pos _ _ hA hns
    (fun _ => ⟨by rw [hmag]; exact hlo, by rw [hmag]; exact hhi⟩)
  rw [hw.ht, hfl] at herr
  exact ⟨herr, hfl, opR_of_agrees cc p hw hp1 (exactMul x y) Nat.one_pos _ hA hfl _ (Rat_exactMul_toRat x y)⟩

/-! ## division of positive operands -/

theorem quo_fw (cc : Ctx) (p : Nat) (hw : NCtx cc p) (hp1 : 1 ≤ p) (hp2 : p ≤ 100000)
    (x y : Dec) (hx : Pos x) (hy : Pos y)
    (e1 : -100000 ≤ x.exp - y.exp) (e2 : x.exp - y.exp ≤ 100000)
    (d1 : ndigits x.coeff ≤ 100000) (d2 : ndigits y.coeff ≤ 100000)
    (hlo : (10 : ℚ) ^ (-100000 : ℤ) ≤ x.toRat / y.toRat) (hhi : x.toRat / y.toRat < (10 : ℚ) ^ (99999 : ℤ)) :
    OpF p (x.toRat / y.toRat) (quoOp cc x y) := by
  have hc := hw.wf hp1 hp2
  have hex : (exactQuo x y).toRat = x.toRat / y.toRat := Rat_exactQuo_toRat x y
  have hneg : (exactQuo x y).neg = false := by simp [exactQuo, hx.hn, hy.hn]
  have hmag : (exactQuo x y).mag = x.toRat / y.toRat := by
    rw [← hex, Exact.toRat_eq, hneg]; simp
  have ha := mag_isAdj (exactQuo x y) hx.h0 hy.h0
  rw [hmag] at ha
  obtain ⟨a1, a2⟩ := ha
  have alo : (-100000 : ℤ) ≤ adjRat x.coeff y.coeff + (x.exp - y.exp) := by
    have := lt_of_le_of_lt hlo a2
    rw [zpow_lt_zpow_iff_right₀ ten_gt] at this
    simp only [exactQuo] at this
    omega
  have ahi : adjRat x.coeff y.coeff + (x.exp - y.exp) < 99999 := by
    have := lt_of_le_of_lt a1 hhi
    rw [zpow_lt_zpow_iff_right₀ ten_gt] at this
    simpa only [exactQuo] using this
  have hns : NoSys (quoOp cc x y).fl :=
    quo_noSys cc hc hw.hemin x y hx.hf hy.hf hx.h0 hy.h0 e1 e2 d1 d2 (by omega) (by omega)
  have herr : (quoOp cc x y).err = goError cc.traps (quoOp cc x y).fl := by
    rw [QuoL.quoOp_eq cc x y hx.hf hy.hf (by have := hy.h0; omega) (by rw [hw.hp]; omega) (by have := hx.h0; omega)]; rfl
  have hdel : Delivered (quoOp cc x y).err := by
    rw [herr]; exact delivered_of_noSys _ _ hns
  have hA := Props.C01_quo cc hc x y hx.hf hy.hf (by have := hy.h0; omega) hdel
  have hfl := agrees_fw cc p hw hp1 (exactQuo x y) hy.h0 _ _ hA hns
    (fun _ => ⟨by rw [hmag]; exact hlo, by rw [hmag]; exact hhi⟩)
  rw [hw.ht, hfl] at herr
  exact ⟨herr, hfl, opR_of_agrees cc p hw hp1 (exactQuo x y) hy.h0 _ hA hfl _ hex⟩

/-! ## addition and subtraction, any signs -/

theorem upscale_some_of (x y : Dec) (g1 : x.exp - y.exp ≤ 100000) (g2 : y.exp - x.exp ≤ 100000) :
    upscale x y = some (x.coeff * 10 ^ (x.exp - min x.exp y.exp).toNat,
      y.coeff * 10 ^ (y.exp - min x.exp y.exp).toNat, min x.exp y.exp) := by
  unfold upscale
  by_cases h1 : x.exp = y.exp
  · simp [h1]
  · have h1' : (x.exp == y.exp) = false := by simpa using h1
    simp only [h1', Bool.false_eq_true, if_false]
    by_cases h2 : x.exp < y.exp
    · have hm : min x.exp y.exp = x.exp := by omega
      have h3 : ¬ (y.exp - x.exp > MaxExponent) := by simp only [MaxExponent]; omega
      simp only [h2, if_true, h3, if_false, hm]
      simp
    · have hm : min x.exp y.exp = y.exp := by omega
      have h3 : ¬ (x.exp - y.exp > MaxExponent) := by simp only [MaxExponent]; omega
      simp only [h2, if_false, h3, hm]
      simp

/-- `Context.add` on finite operands whose exponents are at most 100000 apart: one rounding of a decimal -/
theorem add_core' (c : Ctx) (x y : Dec) (sub : Bool) (hx : x.form = .finite) (hy : y.form = .finite)
    (g1 : x.exp - y.exp ≤ 100000) (g2 : y.exp - x.exp ≤ 100000) :
    ∃ d : Dec, d.form = .finite ∧ addOp c x y sub = finish c (ctxRound c d) ∧
        exactAdd c x y sub = exactRound d := by
  have hu := upscale_some_of x y g1 g2
  unfold addOp
  rw [Props.notNaN2_of_finite x y hx hy]
  simp only [hx, hy, Bool.false_eq_true, if_false]
  have hfi : (Form.finite == Form.infinite) = false := by decide
  simp only [hfi, Bool.or_self, Bool.false_eq_true, if_false]
  rw [hu]
  refine ⟨_, ?_, rfl, ?_⟩
  · split_ifs <;> rfl
  · unfold exactAdd exactRound
    simp only []
    generalize x.coeff * 10 ^ (x.exp - min x.exp y.exp).toNat = a
    generalize y.coeff * 10 ^ (y.exp - min x.exp y.exp).toNat = b
    rcases Nat.lt_trichotomy a b with hab | hab | hab
    · have h1 : ¬ a > b := by omega
      cases hxn : x.neg <;> cases hyn : y.neg <;> cases sub <;> simp [hab, h1]
    · subst hab
      cases hxn : x.neg <;> cases hyn : y.neg <;> cases sub <;> simp
    · have h1 : ¬ a < b := by omega
      have h2 : ¬ a = b := by omega
      cases hxn : x.neg <;> cases hyn : y.neg <;> cases sub <;> simp [hab, h1, h2]

theorem add_fw (cc : Ctx) (p : Nat) (hw : NCtx cc p) (hp1 : 1 ≤ p) (hp2 : p ≤ 100000)
    (x y : Dec) (sub : Bool) (hx : x.form = .finite) (hy : y.form = .finite)
    (e1 : -100000 ≤ x.exp) (e2 : x.exp ≤ 99999) (e3 : -100000 ≤ y.exp) (e4 : y.exp ≤ 99999)
    (g1 : x.exp - y.exp ≤ 100000) (g2 : y.exp - x.exp ≤ 100000) (k : ℤ) (hk : k ≤ 99999) (hkx : k - x.exp ≤ 99999 + p) (hky : k - y.exp ≤ 99999 + p)
    (hhi : |x.toRat + (if sub then - y.toRat else y.toRat)| < (10 : ℚ) ^ k) :
    OpF p (x.toRat + (if sub then - y.toRat else y.toRat)) (addOp cc x y sub) := by
  have hc := hw.wf hp1 hp2
  obtain ⟨d, hdf, hdeq, hdex⟩ := add_core' cc x y sub hx hy g1 g2
  have hv := Rat_exactAdd_toRat cc x y sub
  obtain ⟨hden, he10⟩ := Rat_exactAdd_shape cc x y sub
  have hdexp : d.exp = min x.exp y.exp := by
    have := congrArg Exact.e10 hdex
    rw [he10] at this; exact this.symm
  have hdnum : d.coeff = (exactAdd cc x y sub).num := by
    have := congrArg Exact.num hdex
    exact this.symm
  have hmag : (exactAdd cc x y sub).mag = |x.toRat + (if sub then - y.toRat else y.toRat)| := by
    rw [← Exact.abs_toRat, hv]
  have hmag' : (exactAdd cc x y sub).mag = (d.coeff : ℚ) * (10 : ℚ) ^ d.exp := by
    unfold Exact.mag; rw [hden, hdnum, hdexp, he10]; simp
  have hnp := ndigits_pos d.coeff
  have hdig : d.exp + (ndigits d.coeff : ℤ) ≤ k ∨ d.coeff = 0 := by
    rcases Nat.eq_zero_or_pos d.coeff with h0 | h0
    · exact Or.inr h0
    · left
      exact adj_le' d.coeff d.exp h0 (by rw [← hmag', hmag]; exact hhi)
  have hns : NoSys (ctxRound cc d).2 := by
    apply round_noSys cc hc d hdf (by rw [hdexp]; omega) (by rw [hdexp]; omega)
    · rw [hw.hp]
      rcases hdig with h | h
      · rw [hdexp] at h; omega
      · rw [h, MulL.ndigits_zero]; omega
    · rcases hdig with h | h
      · omega
      · rw [h, MulL.ndigits_zero, hdexp]; omega
  have herr : (addOp cc x y sub).err = goError cc.traps (addOp cc x y sub).fl := by rw [hdeq]; rfl
  have hfl' : (addOp cc x y sub).fl = (ctxRound cc d).2 := by rw [hdeq]; rfl
  have hdel : Delivered (addOp cc x y sub).err := by
    rw [herr]; exact delivered_of_noSys _ _ (by rw [hfl']; exact hns)
  have hA := Props.C01_add cc hc x y sub hx hy hdel
  have hfl := agrees_fw cc p hw hp1 (exactAdd cc x y sub) (by rw [hden]; decide) _ _ hA (by rw [hfl']; exact hns)
    (fun hn => by
      refine ⟨?_, by rw [hmag]; exact lt_of_lt_of_le hhi (zpow_le_zpow_right₀ ten_ge hk)⟩
      rw [hmag']
      have h1 : (1 : ℚ) ≤ (d.coeff : ℚ) := by rw [hdnum]; exact_mod_cast hn
      have h2 : (10 : ℚ) ^ (-100000 : ℤ) ≤ (10 : ℚ) ^ d.exp := zpow_le_zpow_right₀ ten_ge (by rw [hdexp]; omega)
      have h3 := tp d.exp
      calc (10 : ℚ) ^ (-100000 : ℤ) ≤ (10 : ℚ) ^ d.exp := h2
        _ = 1 * (10 : ℚ) ^ d.exp := (one_mul _).symm
        _ ≤ (d.coeff : ℚ) * (10 : ℚ) ^ d.exp := mul_le_mul_of_nonneg_right h1 h3.le)
  rw [hw.ht, hfl] at herr
  exact ⟨herr, hfl, opR_of_agrees cc p hw hp1 (exactAdd cc x y sub) (by rw [hden]; decide) _ hA hfl _ hv⟩

/-! ## `ErrDecimal` bookkeeping, forwards -/

/-- the `ErrDecimal` has not failed and runs under `cc` -/
structure EDg (cc : Ctx) (e : ED) : Prop where
  err : e.err = .none
  flg : goError defaultTraps e.fl = .none
  c : e.c = cc

theorem EDg.not_failed {cc : Ctx} {e : ED} (h : EDg cc e) (ht : cc.traps = defaultTraps) : e.failed = false := by
  unfold ED.failed; rw [h.err, h.c, ht, h.flg]; rfl

theorem step_fw {cc : Ctx} (ht : cc.traps = defaultTraps) (e : ED) (cur : Dec) (op : Ctx → Out) (he : EDg cc e)
    (p : Nat) (v : ℚ) (ho : OpF p v (op cc)) :
    EDg cc (e.step cur op).1 ∧ (e.step cur op).2 = (op cc).d := by
  unfold ED.step
  rw [he.not_failed ht]
  simp only [Bool.false_eq_true, if_false]
  rw [he.c]
  exact ⟨⟨ho.err, goError_or_none _ _ he.flg ho.flg, rfl⟩, rfl⟩

end Apd.CbrtC
