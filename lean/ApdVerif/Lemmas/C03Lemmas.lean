import ApdVerif.Model.Dispatch
import ApdVerif.Lemmas.SqrtDefs
import Mathlib.Tactic.SplitIfs
/-!
# Lemmas for C03: the trap set is only consulted by `goError` at the very end
-/
namespace Apd.C03L
open Apd Cond

/-- the context with its trap set replaced -/
def wt (c : Ctx) (t : Cond) : Ctx := { c with traps := t }

@[simp] theorem wt_prec (c : Ctx) (t : Cond) : (wt c t).prec = c.prec := rfl
@[simp] theorem wt_emax (c : Ctx) (t : Cond) : (wt c t).emax = c.emax := rfl
@[simp] theorem wt_emin (c : Ctx) (t : Cond) : (wt c t).emin = c.emin := rfl
@[simp] theorem wt_mode (c : Ctx) (t : Cond) : (wt c t).mode = c.mode := rfl
@[simp] theorem wt_traps (c : Ctx) (t : Cond) : (wt c t).traps = t := rfl
@[simp] theorem wt_wt (c : Ctx) (t u : Cond) : wt (wt c t) u = wt c u := rfl
theorem wt_self (c : Ctx) : wt c c.traps = c := rfl

/-! ## `goError` -/

theorem and_empty_any (fl : Cond) : (fl &&& ({} : Cond)).any = false := by
  show (Cond.and fl {}).any = false
  simp [Cond.and, Cond.any]

theorem goError_class (traps fl : Cond) :
    goError traps fl = (if fl.sysOverflow || fl.sysUnderflow then .sys else if (fl &&& traps).any then .trap else .none) := rfl

theorem goError_iff (traps fl : Cond) :
    goError traps fl ≠ .none ↔ (fl.sysOverflow = true ∨ fl.sysUnderflow = true ∨ (fl &&& traps).any = true) := by
  unfold goError
  cases h1 : fl.sysOverflow <;> cases h2 : fl.sysUnderflow <;> cases h3 : (fl &&& traps).any <;> simp

theorem goError_empty (fl : Cond) :
    goError {} fl = (if fl.sysOverflow || fl.sysUnderflow then .sys else .none) := by
  unfold goError
  rw [and_empty_any]; simp

theorem goError_of_empty_ne (t fl : Cond) (h : goError {} fl ≠ .none) : goError t fl = goError {} fl := by
  rw [goError_empty] at h ⊢
  unfold goError
  split_ifs at h ⊢ <;> simp_all

theorem goError_none_empty (t fl : Cond) (h : goError t fl = .none) : goError {} fl = .none := by
  by_cases h0 : goError {} fl = .none
  · exact h0
  · rw [goError_of_empty_ne t fl h0] at h; exact h

theorem goError_zero (t : Cond) : goError t {} = .none := by
  unfold goError
  show (if (false || false) = true then ErrKind.sys else if (Cond.and {} t).any = true then .trap else .none) = .none
  simp [Cond.and, Cond.any]

/-! ## `retrap` -/

/-- re-evaluate the error of a trap-free outcome under trap set `t` -/
def retrap (t : Cond) (o : Out) : Out := { o with err := if o.err ≠ .none then o.err else goError t o.fl }

@[simp] theorem retrap_d (t : Cond) (o : Out) : (retrap t o).d = o.d := rfl
@[simp] theorem retrap_fl (t : Cond) (o : Out) : (retrap t o).fl = o.fl := rfl
@[simp] theorem retrap_aux (t : Cond) (o : Out) : (retrap t o).aux = o.aux := rfl
theorem retrap_err (t : Cond) (o : Out) : (retrap t o).err = if o.err ≠ .none then o.err else goError t o.fl := rfl

theorem retrap_mk_goError (t : Cond) (d : Dec) (fl : Cond) (a : Int) :
    retrap t { d := d, fl := fl, err := goError {} fl, aux := a } = { d := d, fl := fl, err := goError t fl, aux := a } := by
  unfold retrap
  simp only []
  by_cases h : goError {} fl = .none
  · simp [h]
  · simp [h, goError_of_empty_ne t fl h]

theorem retrap_mk_none (t : Cond) (d : Dec) (a : Int) :
    retrap t { d := d, fl := {}, err := .none, aux := a } = { d := d, fl := {}, err := .none, aux := a } := by
  unfold retrap
  simp [goError_zero]

theorem retrap_failWith (t : Cond) (e : ErrKind) (h : e ≠ .none) : retrap t (failWith e) = failWith e := by
  unfold retrap failWith
  simp [h]

theorem retrap_ite (t : Cond) (p : Prop) [Decidable p] (a b : Out) :
    retrap t (if p then a else b) = if p then retrap t a else retrap t b := by
  split_ifs <;> rfl

/-! ## inner helpers never read `traps` -/

@[simp] theorem setExponent_wt (c : Ctx) (t : Cond) (d : Dec) (res : Cond) (xs : List Int) :
    setExponent (wt c t) d res xs = setExponent c d res xs := rfl
@[simp] theorem roundX_wt (c : Ctx) (t : Cond) (x : Dec) (b : Bool) : roundX (wt c t) x b = roundX c x b := rfl
@[simp] theorem ctxRound_wt (c : Ctx) (t : Cond) (x : Dec) : ctxRound (wt c t) x = ctxRound c x := rfl
@[simp] theorem roundXFin_wt (c : Ctx) (t : Cond) (x : Dec) (b : Bool) : roundXFin (wt c t) x b = roundXFin c x b := rfl
@[simp] theorem ctxRoundFin_wt (c : Ctx) (t : Cond) (x : Dec) : ctxRoundFin (wt c t) x = ctxRoundFin c x := rfl
@[simp] theorem quantizeCore_wt (c : Ctx) (t : Cond) (v : Dec) (e : Int) :
    quantizeCore (wt c t) v e = quantizeCore c v e := rfl

/-- the trap law: the run under `t` is the trap-free run with its error re-evaluated -/
def TrapLaw (op : Ctx → Out) : Prop := ∀ (c : Ctx) (t : Cond), op (wt c t) = retrap t (op (wt c {}))

theorem finish_law (r : Ctx → Dec × Cond) (hr : ∀ c t, r (wt c t) = r c) :
    TrapLaw (fun c => finish c (r c)) := by
  intro c t
  simp only [finish, wt_traps, hr]
  exact (retrap_mk_goError t _ _ 0).symm

theorem finish_wt (c : Ctx) (t : Cond) (r : Dec × Cond) : finish (wt c t) r = retrap t (finish (wt c {}) r) := by
  simp only [finish, wt_traps]
  exact (retrap_mk_goError t _ _ 0).symm

theorem setAsNaN_wt (c : Ctx) (t : Cond) (x : Dec) (y : Option Dec) :
    setAsNaN (wt c t) x y = retrap t (setAsNaN (wt c {}) x y) := by
  unfold setAsNaN
  simp only [wt_traps]
  generalize (if (x.form == Form.nanSignaling) = true then x
      else match y with
        | some y => if (y.form == Form.nanSignaling) = true then y else if (x.form == Form.nan) = true then x else y
        | none => x) = nan
  by_cases h : (nan.form == Form.nanSignaling) = true
  · rw [if_pos h, if_pos h]; exact (retrap_mk_goError t _ _ 0).symm
  · rw [if_neg h, if_neg h]; exact (retrap_mk_none t _ 0).symm

theorem invalidNaN_wt (c : Ctx) (t : Cond) : invalidNaN (wt c t) = retrap t (invalidNaN (wt c {})) := by
  unfold invalidNaN
  simp only [wt_traps]
  exact (retrap_mk_goError t _ _ 0).symm

theorem plain_retrap (t : Cond) (d : Dec) : retrap t ({ d := d } : Out) = { d := d } := retrap_mk_none t d 0

/-! ## the trap law for every single-rounding operation -/

macro "trap_close" : tactic =>
  `(tactic| first | rfl | exact (plain_retrap _ _).symm | exact (retrap_failWith _ _ (by decide)).symm
                  | exact (retrap_mk_goError _ _ _ _).symm)

macro "trap_norm" c:term:max t:term:max : tactic =>
  `(tactic| (try dsimp (config := {instances := true}) only [ctxRound_wt, setExponent_wt, quantizeCore_wt, roundX_wt, wt_mode, wt_prec, wt_emin, wt_emax, wt_traps]
             try simp only [setAsNaN_wt $c $t, invalidNaN_wt $c $t, finish_wt $c $t]))

theorem addOp_wt (c : Ctx) (t : Cond) (x y : Dec) (s : Bool) :
    addOp (wt c t) x y s = retrap t (addOp (wt c {}) x y s) := by
  unfold addOp
  trap_norm c t
  split_ifs
  all_goals first | trap_close | skip
  all_goals split <;> trap_close

theorem absOp_wt (c : Ctx) (t : Cond) (x : Dec) : absOp (wt c t) x = retrap t (absOp (wt c {}) x) := by
  unfold absOp
  trap_norm c t
  split_ifs <;> trap_close

theorem negOp_wt (c : Ctx) (t : Cond) (x : Dec) : negOp (wt c t) x = retrap t (negOp (wt c {}) x) := by
  unfold negOp
  trap_norm c t
  split_ifs <;> trap_close

theorem roundOp_wt (c : Ctx) (t : Cond) (x : Dec) : roundOp (wt c t) x = retrap t (roundOp (wt c {}) x) := by
  unfold roundOp
  trap_norm c t
  split_ifs <;> trap_close

theorem mulOp_wt (c : Ctx) (t : Cond) (x y : Dec) : mulOp (wt c t) x y = retrap t (mulOp (wt c {}) x y) := by
  unfold mulOp
  trap_norm c t
  split_ifs <;> trap_close

theorem quoSpecials_wt (c : Ctx) (t : Cond) (x y : Dec) (b : Bool) :
    quoSpecials (wt c t) x y b = (quoSpecials (wt c {}) x y b).map (retrap t) := by
  unfold quoSpecials
  trap_norm c t
  simp only [apply_ite (Option.map (retrap t)), Option.map_some, Option.map_none]
  split_ifs <;> rfl

theorem quoOp_wt (c : Ctx) (t : Cond) (x y : Dec) : quoOp (wt c t) x y = retrap t (quoOp (wt c {}) x y) := by
  unfold quoOp
  rw [quoSpecials_wt]
  cases quoSpecials (wt c {}) x y true with
  | some o => rfl
  | none =>
    try simp only [Option.map_none]
    trap_norm c t
    split_ifs <;> trap_close

theorem quoIntegerOp_wt (c : Ctx) (t : Cond) (x y : Dec) :
    quoIntegerOp (wt c t) x y = retrap t (quoIntegerOp (wt c {}) x y) := by
  unfold quoIntegerOp
  rw [quoSpecials_wt]
  cases quoSpecials (wt c {}) x y false with
  | some o => rfl
  | none =>
    try simp only [Option.map_none]
    trap_norm c t
    split
    · trap_close
    · split_ifs <;> trap_close

theorem remOp_wt (c : Ctx) (t : Cond) (x y : Dec) : remOp (wt c t) x y = retrap t (remOp (wt c {}) x y) := by
  unfold remOp
  trap_norm c t
  split_ifs
  all_goals first | trap_close | skip
  all_goals split
  all_goals first | trap_close | skip
  all_goals split_ifs <;> trap_close

theorem reduceOp_wt (c : Ctx) (t : Cond) (x : Dec) : reduceOp (wt c t) x = retrap t (reduceOp (wt c {}) x) := by
  unfold reduceOp
  trap_norm c t
  split_ifs <;> trap_close

theorem cmpOp_wt (c : Ctx) (t : Cond) (x y : Dec) : cmpOp (wt c t) x y = retrap t (cmpOp (wt c {}) x y) := by
  unfold cmpOp
  trap_norm c t
  split_ifs <;> trap_close

theorem quantizeOp_wt (c : Ctx) (t : Cond) (x : Dec) (e : Int) :
    quantizeOp (wt c t) x e = retrap t (quantizeOp (wt c {}) x e) := by
  unfold quantizeOp
  trap_norm c t
  split_ifs <;> trap_close

theorem toIntegralSpecials_wt (c : Ctx) (t : Cond) (x : Dec) :
    toIntegralSpecials (wt c t) x = (toIntegralSpecials (wt c {}) x).map (retrap t) := by
  unfold toIntegralSpecials
  trap_norm c t
  simp only [apply_ite (Option.map (retrap t)), Option.map_some, Option.map_none]
  split_ifs <;> rfl

theorem rtie_wt (c : Ctx) (t : Cond) (x : Dec) :
    roundToIntegralExactOp (wt c t) x = retrap t (roundToIntegralExactOp (wt c {}) x) := by
  unfold roundToIntegralExactOp
  rw [toIntegralSpecials_wt]
  cases toIntegralSpecials (wt c {}) x with
  | some o => rfl
  | none =>
    try simp only [Option.map_none]
    trap_norm c t
    try trap_close

theorem rtiv_wt (c : Ctx) (t : Cond) (x : Dec) :
    roundToIntegralValueOp (wt c t) x = retrap t (roundToIntegralValueOp (wt c {}) x) := by
  unfold roundToIntegralValueOp
  rw [toIntegralSpecials_wt]
  cases toIntegralSpecials (wt c {}) x with
  | some o => rfl
  | none =>
    try simp only [Option.map_none]
    trap_norm c t
    try trap_close

theorem ceilOp_wt (c : Ctx) (t : Cond) (x : Dec) : ceilOp (wt c t) x = retrap t (ceilOp (wt c {}) x) := by
  unfold ceilOp
  rw [toIntegralSpecials_wt]
  cases toIntegralSpecials (wt c {}) x with
  | some o => rfl
  | none =>
    try simp only [Option.map_none]
    rw [addOp_wt]
    split_ifs <;> trap_close

theorem floorOp_wt (c : Ctx) (t : Cond) (x : Dec) : floorOp (wt c t) x = retrap t (floorOp (wt c {}) x) := by
  unfold floorOp
  rw [toIntegralSpecials_wt]
  cases toIntegralSpecials (wt c {}) x with
  | some o => rfl
  | none =>
    try simp only [Option.map_none]
    rw [addOp_wt]
    split_ifs <;> trap_close

theorem rootSpecials_wt (c : Ctx) (t : Cond) (x : Dec) (f : Int) :
    rootSpecials (wt c t) x f = (rootSpecials (wt c {}) x f).map (retrap t) := by
  unfold rootSpecials
  trap_norm c t
  simp only [apply_ite (Option.map (retrap t)), Option.map_some, Option.map_none]
  split_ifs <;> rfl

/-! ## ErrDecimal -/

theorem ed_skip (e : ED) (cur : Dec) (op : Ctx → Out) (h : e.failed = true) : e.step cur op = (e, cur) := by
  unfold ED.step; rw [if_pos h]

theorem ed_run (e : ED) (cur : Dec) (op : Ctx → Out) (h : e.failed = false) :
    e.step cur op = ({ e with fl := e.fl ||| (op e.c).fl, err := (op e.c).err }, (op e.c).d) := by
  unfold ED.step; rw [if_neg (by simp [h])]

theorem step_c (e : ED) (cur : Dec) (op : Ctx → Out) : (e.step cur op).1.c = e.c := by
  unfold ED.step; split_ifs <;> rfl

theorem failed_false_iff (e : ED) : e.failed = false ↔ e.err = .none ∧ goError e.c.traps e.fl = .none := by
  unfold ED.failed; simp

theorem errOf_ne_of_failed (e : ED) (h : e.failed = true) : e.errOf ≠ .none := by
  unfold ED.failed at h
  unfold ED.errOf
  simp only [Bool.or_eq_true, bne_iff_ne, ne_eq] at h
  split_ifs with h1
  · simpa using h1
  · rcases h with h | h
    · exact absurd (by simpa using h) h1
    · exact h

/-- simulation between the run under trap set `t` and the trap-free run; `P` collects the
equalities between the live values of the two runs -/
def Sim (t : Cond) (eT e0 : ED) (P : Prop) : Prop :=
  eT.c = wt e0.c t ∧ e0.c.traps = {} ∧ (eT.failed = false → eT.fl = e0.fl ∧ e0.failed = false ∧ P)

theorem Sim.mono {t : Cond} {eT e0 : ED} {P Q : Prop} (h : Sim t eT e0 P) (hpq : P → Q) : Sim t eT e0 Q :=
  ⟨h.1, h.2.1, fun hf => ⟨(h.2.2 hf).1, (h.2.2 hf).2.1, hpq (h.2.2 hf).2.2⟩⟩

theorem Sim.step {t : Cond} {eT e0 : ED} {P : Prop} (h : Sim t eT e0 P) (vT v0 : Dec) (opT op0 : Ctx → Out)
    (hop : P → opT = op0) (law : TrapLaw op0) :
    Sim t (eT.step vT opT).1 (e0.step v0 op0).1 (P ∧ (eT.step vT opT).2 = (e0.step v0 op0).2) := by
  obtain ⟨hc, htr, hP⟩ := h
  refine ⟨by rw [step_c, step_c]; exact hc, by rw [step_c]; exact htr, ?_⟩
  cases hf : eT.failed with
  | true => rw [ed_skip _ _ _ hf]; intro h; rw [hf] at h; exact absurd h (by decide)
  | false =>
    obtain ⟨hfl, h0, p⟩ := hP hf
    have := hop p; subst this
    rw [ed_run _ _ _ hf, ed_run _ _ _ h0]
    have hw : wt e0.c {} = e0.c := by
      have := wt_self e0.c
      rw [htr] at this; exact this
    have hl : opT eT.c = retrap t (opT e0.c) := by rw [hc, law, hw]
    rw [hl]
    intro hnf
    rw [failed_false_iff] at hnf h0 ⊢
    simp only [retrap_fl, retrap_d, retrap_err, hc, wt_traps] at hnf ⊢
    obtain ⟨he, hg⟩ := hnf
    have he0 : (opT e0.c).err = .none := by
      by_cases hne : (opT e0.c).err = .none
      · exact hne
      · rw [if_pos hne] at he; exact absurd he hne
    rw [hfl] at hg ⊢
    exact ⟨rfl, ⟨he0, by rw [htr]; exact goError_none_empty t _ hg⟩, p, trivial⟩

theorem Sim.setPrec {t : Cond} {eT e0 : ED} {P : Prop} (h : Sim t eT e0 P) (p : Nat) :
    Sim t { eT with c := { eT.c with prec := p } } { e0 with c := { e0.c with prec := p } } P := by
  obtain ⟨hc, htr, hP⟩ := h
  refine ⟨?_, htr, ?_⟩
  · show ({ eT.c with prec := p } : Ctx) = wt { e0.c with prec := p } t
    rw [hc]; rfl
  · intro hf
    have hf' : eT.failed = false := hf
    obtain ⟨a, b, c⟩ := hP hf'
    exact ⟨a, b, c⟩


theorem sqrtLoop_sim (t : Cond) (f : Dec) (maxp : Nat) : ∀ (fuel : Nat) (eT e0 : ED) (aT a0 : Dec) (p : Nat),
    Sim t eT e0 (aT = a0) →
    Sim t (sqrtLoop fuel eT f aT p maxp).1 (sqrtLoop fuel e0 f a0 p maxp).1
      ((sqrtLoop fuel eT f aT p maxp).2 = (sqrtLoop fuel e0 f a0 p maxp).2) := by
  intro fuel
  induction fuel with
  | zero => intro eT e0 aT a0 p h; simpa only [sqrtLoop] using h
  | succ fuel ih =>
    intro eT e0 aT a0 p h
    simp only [sqrtLoop]
    by_cases hp : (p == maxp) = true
    · simp only [if_pos hp]; exact h
    · simp only [if_neg hp]
      refine ih _ _ _ _ _ (Sim.mono (Sim.step (Sim.step (Sim.step (Sim.setPrec h _) _ _ _ _ ?_ ?_) _ _ _ _ ?_ ?_) _ _ _ _ ?_ ?_) (fun h => h.2))
      · intro h; rw [h]
      · intro c t; exact quoOp_wt c t _ _
      · rintro ⟨h1, h2⟩; subst h1; exact congrArg (fun v => fun c => addOp c v aT false) h2
      · intro c t; exact addOp_wt c t _ _ _
      · rintro ⟨_, h2⟩; exact congrArg (fun v => fun c => mulOp c v decHalf) h2
      · intro c t; exact mulOp_wt c t _ _


/-- the ErrDecimal part of Sqrt: final state and iterate -/
def sqrtCore (c : Ctx) (x : Dec) : ED × Dec :=
  let nd := ndigits x.coeff
  let workp := c.prec + 1
  let workp := if workp < nd then nd else workp
  let workp := if workp < 7 then 7 else workp
  let e0 : Int := (nd : Int) + x.exp
  let nc : Ctx := { c with prec := workp, mode := .halfEven, emin := MinExponent, emax := MaxExponent }
  let ed : ED := { c := nc }
  let even := (Int.tmod e0 2 == 0)
  let f : Dec := { x with exp := if even then -(nd : Int) else -(nd : Int) - 1 }
  let a0 : Dec := if even then { coeff := 819, exp := -3 } else { coeff := 259, exp := -2 }
  let k0 : Dec := if even then { coeff := 259, exp := -3 } else { coeff := 819, exp := -4 }
  let r1 := ed.step a0 (fun c => mulOp c a0 f)
  let r2 := r1.1.step r1.2 (fun c => addOp c r1.2 k0 false)
  sqrtLoop 64 r2.1 f r2.2 3 (workp + 5)

/-- the final rounding and exactness re-check of Sqrt, with the two rounding contexts explicit -/
def sqrtTailCtx (nc2 ncw : Ctx) (x : Dec) (a : Dec) : Dec × Cond :=
  let nd := ndigits x.coeff
  let e0 : Int := (nd : Int) + x.exp
  let even := (Int.tmod e0 2 == 0)
  let e : Int := if even then e0 else e0 + 1
  let d : Dec := { a with exp := a.exp + Int.tdiv e 2 }
  let r0 := ctxRound ncw d
  let r1 := if r0.2.inexact && r0.1.form == .finite then
             let st := sqrtSettle ncw r0.1 d x
             (st.1, r0.2 ||| st.2)
           else r0
  let r2 := ctxRound nc2 r1.1
  let r : Dec × Cond := (r2.1, r1.2 ||| r2.2)
  let res :=
    if !r.2.inexact && r.1.form == .finite then
      let sq : Dec := { coeff := r.1.coeff * r.1.coeff, exp := 2 * r.1.exp }
      if sq.cmp x != 0 then r.2 ||| cInexact ||| cRounded else r.2
    else r.2
  (r.1, res)

/-- the final rounding and exactness re-check of Sqrt -/
def sqrtTail (c : Ctx) (x : Dec) (a : Dec) : Dec × Cond :=
  sqrtTailCtx { c with prec := c.prec, mode := .halfEven }
    { ({ c with prec := c.prec, mode := .halfEven } : Ctx) with emax := MaxExponent } x a

theorem sqrtOp_eq (c : Ctx) (x : Dec) :
    sqrtOp c x = match rootSpecials c x 2 with
      | some o => o
      | none =>
        if (sqrtCore c x).1.failed then failOut (sqrtCore c x).1.errOf
        else finish { c with prec := c.prec, mode := .halfEven } (sqrtTail c x (sqrtCore c x).2) := by
  -- through the named parts of Lemmas/SqrtDefs (each step a small `rfl`; comparing the two fully substituted
  -- `let` chains at once is too much for the elaborator's unifier)
  have hc : sqrtCore c x = SqrtD.iter c x := rfl
  have ht : ∀ a : Dec, finish { c with prec := c.prec, mode := .halfEven } (sqrtTail c x a) = SqrtD.tail c x a :=
    fun _ => rfl
  rw [hc, ht]
  cases h : rootSpecials c x 2 with
  | some o => unfold sqrtOp; rw [h]
  | none => exact SqrtD.sqrtOp_eq c x h

theorem sqrtSettle_wt (c : Ctx) (t : Cond) (d a x : Dec) : sqrtSettle (wt c t) d a x = sqrtSettle c d a x := by
  unfold sqrtSettle
  have h1 : ({ wt c t with mode := Mode.down } : Ctx) = wt { c with mode := Mode.down } t := rfl
  rw [h1]
  simp only [ctxRound_wt, wt_prec]
  rfl

theorem sqrtTailCtx_wt (n2 nw : Ctx) (t : Cond) (x a : Dec) :
    sqrtTailCtx (wt n2 t) (wt nw t) x a = sqrtTailCtx n2 nw x a := by
  unfold sqrtTailCtx
  simp only [ctxRound_wt, sqrtSettle_wt]

theorem sqrtTail_wt (c : Ctx) (t : Cond) (x a : Dec) : sqrtTail (wt c t) x a = sqrtTail c x a := by
  unfold sqrtTail
  exact sqrtTailCtx_wt { c with prec := c.prec, mode := .halfEven }
    { ({ c with prec := c.prec, mode := .halfEven } : Ctx) with emax := MaxExponent } t x a

theorem sqrtCore_sim (c : Ctx) (t : Cond) (x : Dec) :
    Sim t (sqrtCore (wt c t) x).1 (sqrtCore (wt c {}) x).1 ((sqrtCore (wt c t) x).2 = (sqrtCore (wt c {}) x).2) := by
  unfold sqrtCore
  dsimp (config := {instances := true}) only [wt_prec]
  refine sqrtLoop_sim t _ _ 64 _ _ _ _ 3 (Sim.mono (Sim.step (Sim.step (P := True) ?_ _ _ _ _ ?_ ?_) _ _ _ _ ?_ ?_) (fun h => h.2))
  · exact ⟨rfl, rfl, fun _ => ⟨rfl, rfl, trivial⟩⟩
  · intro _; rfl
  · intro c t; exact mulOp_wt c t _ _
  · rintro ⟨_, h2⟩; exact congrArg (fun v => fun c => addOp c v _ false) h2
  · intro c t; exact addOp_wt c t _ _ _

theorem sqrtOp_traps (c : Ctx) (t : Cond) (x : Dec) (h : (sqrtOp (wt c t) x).err = .none) :
    (sqrtOp (wt c {}) x).d = (sqrtOp (wt c t) x).d ∧ (sqrtOp (wt c {}) x).fl = (sqrtOp (wt c t) x).fl := by
  rw [sqrtOp_eq, rootSpecials_wt c t] at h
  rw [sqrtOp_eq (wt c t), sqrtOp_eq (wt c {}), rootSpecials_wt c t]
  cases hs : rootSpecials (wt c {}) x 2 with
  | some o => exact ⟨rfl, rfl⟩
  | none =>
    rw [hs] at h
    simp only [Option.map_none] at h ⊢
    have sim := sqrtCore_sim c t x
    cases hf : (sqrtCore (wt c t) x).1.failed with
    | true =>
      rw [hf] at h
      exact absurd h (errOf_ne_of_failed _ hf)
    | false =>
      obtain ⟨_, _, hP⟩ := sim
      obtain ⟨_, h0, hv⟩ := hP hf
      rw [h0, hv]
      simp only [Bool.false_eq_true, if_false, sqrtTail_wt]
      exact ⟨rfl, rfl⟩

theorem sqrt_nil_error (c : Ctx) (x : Dec) (hs : rootSpecials c x 2 = none) (h : (sqrtOp c x).err = .none) :
    ∃ d fl, sqrtOp c x = { d := d, fl := fl, err := .none } ∧ goError c.traps fl = .none := by
  rw [sqrtOp_eq, hs] at h
  rw [sqrtOp_eq, hs]
  cases hf : (sqrtCore c x).1.failed with
  | true =>
    rw [hf] at h
    exact absurd h (errOf_ne_of_failed _ hf)
  | false =>
    rw [hf] at h
    simp only [Bool.false_eq_true, if_false] at h ⊢
    refine ⟨(sqrtTail c x (sqrtCore c x).2).1, (sqrtTail c x (sqrtCore c x).2).2, ?_, h⟩
    unfold finish at h ⊢
    simp only [] at h ⊢
    rw [h]

/-! ## flag algebra -/

theorem cond_and_self (a : Cond) : (a &&& a) = a := by
  show Cond.and a a = a
  cases a; simp [Cond.and]

theorem cond_or_and_left (a b : Cond) : ((a ||| b) &&& a) = a := by
  show Cond.and (Cond.or a b) a = a
  have key : ∀ p q : Bool, ((p || q) && p) = p := by decide
  cases a; cases b; simp only [Cond.and, Cond.or, key]

end Apd.C03L
