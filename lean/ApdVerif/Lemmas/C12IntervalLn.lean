import ApdVerif.Lemmas.C12IntervalExp
import Mathlib.Analysis.SpecialFunctions.Log.Deriv
import Mathlib.Analysis.SpecificLimits.Basic
/-!
# Soundness of `twoAtanh` / `lnPoint` (C12)
-/
namespace Apd.C12IL
open Apd Apd.Oracle.Iv

/-! ## real analysis: the atanh series with remainder -/

/-- `log(1+y) - log(1-y) = 2 atanh y` -/
noncomputable def L2 (y : ℝ) : ℝ := Real.log (1 + y) - Real.log (1 - y)

/-- partial sum `Σ_{j<n} y^(2j+1)/(2j+1)` -/
noncomputable def S (y : ℝ) (n : ℕ) : ℝ :=
  ∑ j ∈ Finset.range n, y ^ (2 * j + 1) / ((2 * j + 1 : ℕ) : ℝ)

theorem S_eq (y : ℝ) (n : ℕ) :
    2 * S y n = ∑ j ∈ Finset.range n, (2 : ℝ) * (1 / (2 * (j : ℝ) + 1)) * y ^ (2 * j + 1) := by
  unfold S
  rw [Finset.mul_sum]
  apply Finset.sum_congr rfl
  intro j _
  push_cast
  ring

theorem L2_lower (y : ℝ) (h0 : 0 ≤ y) (h1 : y < 1) (n : ℕ) : 2 * S y n ≤ L2 y := by
  have hs := Real.hasSum_log_sub_log_of_abs_lt_one (x := y) (by rw [abs_of_nonneg h0]; exact h1)
  rw [S_eq]
  apply sum_le_hasSum _ _ hs
  intro j _
  positivity

theorem L2_upper (y : ℝ) (h0 : 0 ≤ y) (h1 : y < 1) (n : ℕ) :
    L2 y ≤ 2 * S y n + 2 * y ^ (2 * n + 1) * (1 - y ^ 2)⁻¹ := by
  have hs := Real.hasSum_log_sub_log_of_abs_lt_one (x := y) (by rw [abs_of_nonneg h0]; exact h1)
  rw [S_eq]
  have hs' := (hasSum_nat_add_iff' n).2 hs
  have hy2 : y ^ 2 < 1 := by nlinarith
  have hg := (hasSum_geometric_of_lt_one (sq_nonneg y) hy2).mul_left (2 * y ^ (2 * n + 1))
  have hle := hasSum_le (f := fun j : ℕ => (2 : ℝ) * (1 / (2 * ((j + n : ℕ) : ℝ) + 1)) * y ^ (2 * (j + n) + 1))
    (g := fun j : ℕ => 2 * y ^ (2 * n + 1) * (y ^ 2) ^ j) ?_ hs' hg
  · unfold L2; linarith
  · intro j
    have e : y ^ (2 * (j + n) + 1) = y ^ (2 * n + 1) * (y ^ 2) ^ j := by
      rw [← pow_mul, ← pow_add]; congr 1; ring
    rw [e]
    have hp : 0 ≤ y ^ (2 * n + 1) * (y ^ 2) ^ j := by positivity
    have hc : (1 : ℝ) / (2 * ((j + n : ℕ) : ℝ) + 1) ≤ 1 := by
      rw [div_le_one (by positivity)]
      have : (0:ℝ) ≤ ((j + n : ℕ) : ℝ) := by positivity
      linarith
    calc (2 : ℝ) * (1 / (2 * ((j + n : ℕ) : ℝ) + 1)) * (y ^ (2 * n + 1) * (y ^ 2) ^ j)
        = (1 / (2 * ((j + n : ℕ) : ℝ) + 1)) * (2 * (y ^ (2 * n + 1) * (y ^ 2) ^ j)) := by ring
      _ ≤ 1 * (2 * (y ^ (2 * n + 1) * (y ^ 2) ^ j)) :=
          mul_le_mul_of_nonneg_right hc (by positivity)
      _ = 2 * y ^ (2 * n + 1) * (y ^ 2) ^ j := by ring

/-- the bound used by `twoAtanh`: remainder at most `4.5 · y^(2n+1)` for `0 ≤ y ≤ 1/2` -/
theorem L2_upper' (y : ℝ) (h0 : 0 ≤ y) (h1 : y ≤ 1 / 2) (n : ℕ) :
    L2 y ≤ 2 * S y n + (9 / 2) * y ^ (2 * n + 1) := by
  refine le_trans (L2_upper y h0 (by linarith) n) ?_
  have hy2 : y ^ 2 ≤ 1 / 4 := by nlinarith
  have hinv : (1 - y ^ 2)⁻¹ ≤ 4 / 3 := by
    rw [inv_le_comm₀ (by linarith) (by norm_num)]
    norm_num; linarith
  have hp : 0 ≤ y ^ (2 * n + 1) := by positivity
  nlinarith

theorem L2_neg (y : ℝ) : L2 (-y) = -L2 y := by
  unfold L2
  rw [show 1 + -y = 1 - y by ring, show 1 - -y = 1 + y by ring]
  ring

/-- `log x = 2 atanh ((x-1)/(x+1))` -/
theorem log_eq_L2 (x : ℝ) (hx : 0 < x) : Real.log x = L2 ((x - 1) / (x + 1)) := by
  unfold L2
  have h1 : x + 1 ≠ 0 := by linarith
  have e1 : 1 + (x - 1) / (x + 1) = 2 * x / (x + 1) := by field_simp; ring
  have e2 : 1 - (x - 1) / (x + 1) = 2 / (x + 1) := by field_simp; ring
  rw [e1, e2, Real.log_div (by positivity) h1, Real.log_div (by norm_num) h1,
    Real.log_mul (by norm_num) hx.ne']
  ring

/-! ## sign preservation of outward rounding -/

theorem p10k_pos (k : ℕ) : (0:ℤ) < ((10 ^ k : ℕ) : ℤ) := by
  have := Nat.pow_pos (n := k) (by decide : 0 < 10)
  omega

theorem floorDiv_nonneg (m : ℤ) (k : ℕ) (h : 0 ≤ m) : 0 ≤ floorDiv m (10 ^ k) := by
  rw [floorDiv_eq]; exact Int.ediv_nonneg h (p10k_pos k).le

theorem floorDiv_nonpos (m : ℤ) (k : ℕ) (h : m ≤ 0) : floorDiv m (10 ^ k) ≤ 0 := by
  rw [floorDiv_eq]; exact Int.ediv_nonpos_of_nonpos_of_neg h (p10k_pos k)

theorem ceilDiv_nonneg (m : ℤ) (k : ℕ) (h : 0 ≤ m) : 0 ≤ ceilDiv m (10 ^ k) := by
  rw [ceilDiv_eq]
  have := Int.ediv_nonpos_of_nonpos_of_neg (n := -m) (by omega) (p10k_pos k)
  omega

theorem ceilDiv_nonpos (m : ℤ) (k : ℕ) (h : m ≤ 0) : ceilDiv m (10 ^ k) ≤ 0 := by
  rw [ceilDiv_eq]
  have := Int.ediv_nonneg (a := -m) (by omega) (p10k_pos k).le
  omega

theorem rnd_nonneg (W : Nat) (dn : Bool) (x : BF) (h : 0 ≤ x.m) : 0 ≤ (rnd W dn x).m := by
  unfold rnd
  simp only []
  split
  · exact h
  · cases dn
    · exact ceilDiv_nonneg _ _ h
    · exact floorDiv_nonneg _ _ h

theorem rnd_nonpos (W : Nat) (dn : Bool) (x : BF) (h : x.m ≤ 0) : (rnd W dn x).m ≤ 0 := by
  unfold rnd
  simp only []
  split
  · exact h
  · cases dn
    · exact ceilDiv_nonpos _ _ h
    · exact floorDiv_nonpos _ _ h

theorem rnd_ne_zero (W : Nat) (hW : 1 ≤ W) (dn : Bool) (x : BF) (h : x.m ≠ 0) :
    (rnd W dn x).m ≠ 0 := by
  rcases rnd_cases W hW dn x h with ⟨_, h2⟩ | ⟨_, _, h3⟩
  · rw [h2]; exact h
  · have : 0 < 10 ^ (W - 1) := Nat.pow_pos (by decide)
    omega

theorem rnd_pos (W : Nat) (hW : 1 ≤ W) (dn : Bool) (x : BF) (h : 0 < x.m) : 0 < (rnd W dn x).m := by
  have h1 := rnd_nonneg W dn x h.le
  have h2 := rnd_ne_zero W hW dn x (by omega)
  omega

theorem rnd_neg (W : Nat) (hW : 1 ≤ W) (dn : Bool) (x : BF) (h : x.m < 0) : (rnd W dn x).m < 0 := by
  have h1 := rnd_nonpos W dn x h.le
  have h2 := rnd_ne_zero W hW dn x (by omega)
  omega

theorem divDir_nonneg (W : Nat) (dn : Bool) (a b : BF) (ha : 0 ≤ a.m) (hb : 0 < b.m) :
    0 ≤ (divDir W dn a b).m := by
  unfold divDir
  split
  · simp [BF.zero]
  · simp only []
    apply rnd_nonneg
    simp only []
    have hnum : 0 ≤ a.m * 10 ^ (fastDigits b.m.natAbs + W + 2) :=
      Int.mul_nonneg ha (Int.pow_nonneg (by decide))
    cases dn
    · simp only [Bool.false_eq_true, if_false]
      rw [Int.fdiv_eq_ediv_of_nonneg _ hb.le]
      have := Int.ediv_nonpos_of_nonpos_of_neg
        (n := -(a.m * 10 ^ (fastDigits b.m.natAbs + W + 2))) (by omega) hb
      omega
    · simp only [if_true]
      rw [Int.fdiv_eq_ediv_of_nonneg _ hb.le]
      exact Int.ediv_nonneg hnum hb.le

theorem divDir_nonpos (W : Nat) (dn : Bool) (a b : BF) (ha : a.m ≤ 0) (hb : 0 < b.m) :
    (divDir W dn a b).m ≤ 0 := by
  unfold divDir
  split
  · simp [BF.zero]
  · simp only []
    apply rnd_nonpos
    simp only []
    have hnum : a.m * 10 ^ (fastDigits b.m.natAbs + W + 2) ≤ 0 :=
      Int.mul_nonpos_of_nonpos_of_nonneg ha (Int.pow_nonneg (by decide))
    cases dn
    · simp only [Bool.false_eq_true, if_false]
      rw [Int.fdiv_eq_ediv_of_nonneg _ hb.le]
      have := Int.ediv_nonneg
        (a := -(a.m * 10 ^ (fastDigits b.m.natAbs + W + 2))) (by omega) hb.le
      omega
    · simp only [if_true]
      rw [Int.fdiv_eq_ediv_of_nonneg _ hb.le]
      exact Int.ediv_nonpos_of_nonpos_of_neg hnum hb

theorem m_nonneg_of_bv_nonneg (x : BF) (h : 0 ≤ bv x) : 0 ≤ x.m := by
  by_contra hc
  have h1 : x.m < 0 := by omega
  have := mag_pos x (by omega)
  rw [bv_of_nonpos x h1.le] at h
  linarith

theorem m_nonpos_of_bv_nonpos (x : BF) (h : bv x ≤ 0) : x.m ≤ 0 := by
  by_contra hc
  have h1 : 0 < x.m := by omega
  have := mag_pos x (by omega)
  rw [bv_of_nonneg x h1.le] at h
  linarith

theorem bv_pos_of_m_pos (x : BF) (h : 0 < x.m) : 0 < bv x := by
  rw [bv_of_nonneg x h.le]; exact mag_pos x (by omega)

theorem bv_le_mag (x : BF) : bv x ≤ mag x := by rw [mag_eq_abs]; exact le_abs_self _
theorem neg_mag_le_bv (x : BF) : -mag x ≤ bv x := by rw [mag_eq_abs]; exact neg_abs_le _

theorem far_mag (W : Nat) (big small : BF) (hb0 : big.m ≠ 0) (hs0 : small.m ≠ 0)
    (hgap : big.adj - small.adj > (W : ℤ) + 5) : mag small < mag big := by
  have h1 := (mag_bounds small hs0 (fd small)).2
  have h2 := (mag_bounds big hb0 (fd big)).1
  calc mag small < (10:ℝ) ^ (small.adj + 1) := h1
    _ ≤ (10:ℝ) ^ big.adj := zpow_le_zpow_right₀ (by norm_num) (by omega)
    _ ≤ mag big := h2

/-- the padded mantissa of the far branch has `W+3` digits -/
theorem far_pad_ge (W : Nat) (dn : Bool) (big : BF) (hb0 : big.m ≠ 0) :
    10 ^ (W + 2) ≤ ((rnd (W + 3) dn big).m *
      10 ^ (if fastDigits (rnd (W + 3) dn big).m.natAbs < W + 3
          then W + 3 - fastDigits (rnd (W + 3) dn big).m.natAbs else 0)).natAbs := by
  have hne := rnd_ne_zero (W + 3) (by omega) dn big hb0
  generalize rnd (W + 3) dn big = bigW at *
  rw [fd bigW]
  have hn : 0 < bigW.m.natAbs := Int.natAbs_pos.2 hne
  have hd := (ndigits_spec _ hn).1
  have hp := ndigits_pos bigW.m.natAbs
  have e10 : Int.natAbs 10 = 10 := rfl
  rw [Int.natAbs_mul, Int.natAbs_pow, e10]
  generalize hpad : (if ndigits bigW.m.natAbs < W + 3 then W + 3 - ndigits bigW.m.natAbs else 0) = pad
  have hle : W + 2 ≤ (ndigits bigW.m.natAbs - 1) + pad := by
    rw [← hpad]; split <;> omega
  calc 10 ^ (W + 2) ≤ 10 ^ ((ndigits bigW.m.natAbs - 1) + pad) := Nat.pow_le_pow_right (by decide) hle
    _ = 10 ^ (ndigits bigW.m.natAbs - 1) * 10 ^ pad := Nat.pow_add ..
    _ ≤ bigW.m.natAbs * 10 ^ pad := Nat.mul_le_mul_right _ hd

theorem far_down_nonneg (W : Nat) (big small : BF) (hb0 : big.m ≠ 0) (hs0 : small.m ≠ 0)
    (hgap : big.adj - small.adj > (W : ℤ) + 5) (h : 0 ≤ bv big + bv small) :
    0 ≤ (far W true big small).m ∧ (1 ≤ W → 0 < (far W true big small).m) := by
  have hm := far_mag W big small hb0 hs0 hgap
  have hbig : 0 < big.m := by
    by_contra hc
    have h1 : big.m < 0 := by omega
    have := bv_le_mag small
    rw [bv_of_nonpos big h1.le] at h
    linarith
  have hbw := rnd_pos (W + 3) (by omega) true big hbig
  have hpad := far_pad_ge W true big hb0
  unfold far
  simp only [if_true]
  have h10 : 10 ≤ 10 ^ (W + 2) := by
    calc 10 = 10 ^ 1 := by decide
      _ ≤ 10 ^ (W + 2) := Nat.pow_le_pow_right (by decide) (by omega)
  have hM : 10 ≤ (rnd (W + 3) true big).m *
      10 ^ (if fastDigits (rnd (W + 3) true big).m.natAbs < W + 3
          then W + 3 - fastDigits (rnd (W + 3) true big).m.natAbs else 0) := by
    have hpos : 0 < (rnd (W + 3) true big).m *
      10 ^ (if fastDigits (rnd (W + 3) true big).m.natAbs < W + 3
          then W + 3 - fastDigits (rnd (W + 3) true big).m.natAbs else 0) :=
      Int.mul_pos hbw (Int.pow_pos (by decide))
    omega
  generalize (rnd (W + 3) true big).m *
      10 ^ (if fastDigits (rnd (W + 3) true big).m.natAbs < W + 3
          then W + 3 - fastDigits (rnd (W + 3) true big).m.natAbs else 0) = M at *
  constructor
  · apply rnd_nonneg
    simp only []
    split <;> omega
  · intro hW
    apply rnd_pos W hW
    simp only []
    split <;> omega

theorem far_up_nonpos (W : Nat) (big small : BF) (hb0 : big.m ≠ 0) (hs0 : small.m ≠ 0)
    (hgap : big.adj - small.adj > (W : ℤ) + 5) (h : bv big + bv small ≤ 0) :
    (far W false big small).m ≤ 0 := by
  have hm := far_mag W big small hb0 hs0 hgap
  have hbig : big.m < 0 := by
    by_contra hc
    have h1 : 0 < big.m := by omega
    have := neg_mag_le_bv small
    rw [bv_of_nonneg big h1.le] at h
    linarith
  have hbw := rnd_neg (W + 3) (by omega) false big hbig
  unfold far
  simp only [Bool.false_eq_true, if_false]
  have hM : (rnd (W + 3) false big).m *
      10 ^ (if fastDigits (rnd (W + 3) false big).m.natAbs < W + 3
          then W + 3 - fastDigits (rnd (W + 3) false big).m.natAbs else 0) < 0 :=
    Int.mul_neg_of_neg_of_pos hbw (Int.pow_pos (by decide))
  generalize (rnd (W + 3) false big).m *
      10 ^ (if fastDigits (rnd (W + 3) false big).m.natAbs < W + 3
          then W + 3 - fastDigits (rnd (W + 3) false big).m.natAbs else 0) = M at *
  apply rnd_nonpos
  simp only []
  split <;> omega

theorem aligned_m_nonneg (a b : BF) (h : 0 ≤ bv a + bv b) : 0 ≤ (aligned a b).m := by
  apply m_nonneg_of_bv_nonneg; rw [bv_aligned]; exact h

theorem aligned_m_nonpos (a b : BF) (h : bv a + bv b ≤ 0) : (aligned a b).m ≤ 0 := by
  apply m_nonpos_of_bv_nonpos; rw [bv_aligned]; exact h

theorem aligned_m_pos (a b : BF) (h : 0 < bv a + bv b) : 0 < (aligned a b).m := by
  apply m_pos_of_bv_pos; rw [bv_aligned]; exact h

/-- rounding a non-negative sum downwards keeps it non-negative (and positive stays positive) -/
theorem addDir_down_sign (W : Nat) (a b : BF) (h : 0 ≤ bv a + bv b) :
    0 ≤ (addDir W true a b).m ∧ (1 ≤ W → 0 < bv a + bv b → 0 < (addDir W true a b).m) := by
  rw [addDir_eq]
  by_cases ha0 : a.m = 0
  · have : (a.m == 0) = true := by simpa using ha0
    rw [if_pos this]
    rw [bv_eq_zero_of_m a ha0, zero_add] at h ⊢
    exact ⟨rnd_nonneg _ _ _ (m_nonneg_of_bv_nonneg b h),
      fun hW hp => rnd_pos W hW _ _ (m_pos_of_bv_pos b hp)⟩
  · have h1 : ¬ (a.m == 0) = true := by simpa using ha0
    rw [if_neg h1]
    by_cases hb0 : b.m = 0
    · have : (b.m == 0) = true := by simpa using hb0
      rw [if_pos this]
      rw [bv_eq_zero_of_m b hb0, add_zero] at h ⊢
      exact ⟨rnd_nonneg _ _ _ (m_nonneg_of_bv_nonneg a h),
        fun hW hp => rnd_pos W hW _ _ (m_pos_of_bv_pos a hp)⟩
    · have h2 : ¬ (b.m == 0) = true := by simpa using hb0
      rw [if_neg h2]
      have hal : 0 ≤ (rnd W true (aligned a b)).m ∧
          (1 ≤ W → 0 < bv a + bv b → 0 < (rnd W true (aligned a b)).m) :=
        ⟨rnd_nonneg _ _ _ (aligned_m_nonneg a b h),
          fun hW hp => rnd_pos W hW _ _ (aligned_m_pos a b hp)⟩
      by_cases hge : a.adj ≥ b.adj
      · rw [if_pos hge]
        by_cases hgap : a.adj - b.adj > (W : ℤ) + 5
        · rw [if_pos hgap]
          have := far_down_nonneg W a b ha0 hb0 hgap h
          exact ⟨this.1, fun hW _ => this.2 hW⟩
        · rw [if_neg hgap]; exact hal
      · rw [if_neg hge]
        by_cases hgap : b.adj - a.adj > (W : ℤ) + 5
        · rw [if_pos hgap]
          have := far_down_nonneg W b a hb0 ha0 hgap (by linarith)
          exact ⟨this.1, fun hW _ => this.2 hW⟩
        · rw [if_neg hgap]; exact hal

theorem addDir_up_nonpos (W : Nat) (a b : BF) (h : bv a + bv b ≤ 0) :
    (addDir W false a b).m ≤ 0 := by
  rw [addDir_eq]
  by_cases ha0 : a.m = 0
  · have : (a.m == 0) = true := by simpa using ha0
    rw [if_pos this]
    rw [bv_eq_zero_of_m a ha0, zero_add] at h
    exact rnd_nonpos _ _ _ (m_nonpos_of_bv_nonpos b h)
  · have h1 : ¬ (a.m == 0) = true := by simpa using ha0
    rw [if_neg h1]
    by_cases hb0 : b.m = 0
    · have : (b.m == 0) = true := by simpa using hb0
      rw [if_pos this]
      rw [bv_eq_zero_of_m b hb0, add_zero] at h
      exact rnd_nonpos _ _ _ (m_nonpos_of_bv_nonpos a h)
    · have h2 : ¬ (b.m == 0) = true := by simpa using hb0
      rw [if_neg h2]
      have hal : (rnd W false (aligned a b)).m ≤ 0 := rnd_nonpos _ _ _ (aligned_m_nonpos a b h)
      by_cases hge : a.adj ≥ b.adj
      · rw [if_pos hge]
        by_cases hgap : a.adj - b.adj > (W : ℤ) + 5
        · rw [if_pos hgap]
          exact far_up_nonpos W a b ha0 hb0 hgap h
        · rw [if_neg hgap]; exact hal
      · rw [if_neg hge]
        by_cases hgap : b.adj - a.adj > (W : ℤ) + 5
        · rw [if_pos hgap]
          exact far_up_nonpos W b a hb0 ha0 hgap (by linarith)
        · rw [if_neg hgap]; exact hal

/-! ## rounding down never crosses `1` -/

theorem rnd_down_ge_one (W : Nat) (hW : 1 ≤ W) (x : BF) (h : 1 ≤ bv x) : 1 ≤ bv (rnd W true x) := by
  have hmpos : 0 < x.m := m_pos_of_bv_pos x (by linarith)
  have hpos := rnd_pos W hW true x hmpos
  unfold rnd at hpos ⊢
  simp only [] at hpos ⊢
  rw [fd x] at hpos ⊢
  by_cases hle : ndigits x.m.natAbs ≤ W
  · rw [if_pos hle]; exact h
  · rw [if_neg hle] at hpos ⊢
    simp only [if_true] at hpos ⊢
    generalize hk : ndigits x.m.natAbs - W = k at *
    unfold bv
    simp only []
    by_cases he : 0 ≤ x.e + (k : ℤ)
    · have h1 : (1:ℝ) ≤ ((floorDiv x.m (10 ^ k) : ℤ) : ℝ) := by exact_mod_cast hpos
      have h2 : (1:ℝ) ≤ (10:ℝ) ^ (x.e + (k : ℤ)) := one_le_zpow₀ (by norm_num) he
      calc (1:ℝ) = 1 * 1 := by ring
        _ ≤ _ := mul_le_mul h1 h2 (by norm_num) (by linarith)
    · -- x.e + k < 0
      have hneg : x.e + (k : ℤ) < 0 := by omega
      obtain ⟨t, ht⟩ : ∃ t : ℕ, (t : ℤ) = -(x.e + (k : ℤ)) := ⟨(-(x.e + (k : ℤ))).toNat, by omega⟩
      -- m ≥ 10^(t+k)
      have hm : ((10 ^ (t + k) : ℕ) : ℤ) ≤ x.m := by
        have h' : (1:ℝ) ≤ (x.m : ℝ) * (10:ℝ) ^ x.e := h
        have e1 : (10:ℝ) ^ x.e = ((10:ℝ) ^ (t + k))⁻¹ := by
          rw [← zpow_natCast, ← zpow_neg]; congr 1; push_cast; omega
        rw [e1] at h'
        have hp : (0:ℝ) < (10:ℝ) ^ (t + k) := by positivity
        have h'' : (10:ℝ) ^ (t + k) ≤ (x.m : ℝ) := by
          have := mul_le_mul_of_nonneg_right h' hp.le
          rw [one_mul, mul_assoc, inv_mul_cancel₀ hp.ne', mul_one] at this
          exact this
        have : (((10 ^ (t + k) : ℕ) : ℤ) : ℝ) ≤ (x.m : ℝ) := by push_cast; exact h''
        exact_mod_cast this
      have hq : ((10 ^ t : ℕ) : ℤ) ≤ floorDiv x.m (10 ^ k) := by
        rw [floorDiv_eq]
        apply Int.le_ediv_of_mul_le (p10k_pos k)
        have : ((10 ^ t : ℕ) : ℤ) * ((10 ^ k : ℕ) : ℤ) = ((10 ^ (t + k) : ℕ) : ℤ) := by
          push_cast; rw [pow_add]
        rw [this]; exact hm
      have hq' : (10:ℝ) ^ t ≤ ((floorDiv x.m (10 ^ k) : ℤ) : ℝ) := by
        have : (((10 ^ t : ℕ) : ℤ) : ℝ) ≤ ((floorDiv x.m (10 ^ k) : ℤ) : ℝ) := by exact_mod_cast hq
        push_cast at this; exact this
      have e2 : (10:ℝ) ^ (x.e + (k : ℤ)) = ((10:ℝ) ^ t)⁻¹ := by
        rw [← zpow_natCast, ← zpow_neg]; congr 1; omega
      rw [e2]
      have hp : (0:ℝ) < (10:ℝ) ^ t := by positivity
      rw [← div_eq_mul_inv, le_div_iff₀ hp, one_mul]
      exact hq'

theorem divDir_down_ge_one (W : Nat) (hW : 1 ≤ W) (a b : BF) (ha : 0 < a.m) (hb : 0 < b.m)
    (hE : a.e ≤ b.e) (h : bv b ≤ bv a) : 1 ≤ bv (divDir W true a b) := by
  unfold divDir
  have hne : ¬ (a.m == 0) = true := by simp; omega
  rw [if_neg hne]
  simp only [if_true]
  apply rnd_down_ge_one W hW
  generalize fastDigits b.m.natAbs + W + 2 = s
  rw [Int.fdiv_eq_ediv_of_nonneg _ hb.le]
  obtain ⟨t, ht⟩ : ∃ t : ℕ, (t : ℤ) = b.e - a.e + (s : ℤ) := ⟨(b.e - a.e + (s : ℤ)).toNat, by omega⟩
  -- 10^t * b.m ≤ a.m * 10^s
  have hint : ((10 ^ t : ℕ) : ℤ) * b.m ≤ a.m * 10 ^ s := by
    have h' : (b.m : ℝ) * (10:ℝ) ^ b.e ≤ (a.m : ℝ) * (10:ℝ) ^ a.e := h
    have hp : (0:ℝ) < (10:ℝ) ^ ((s : ℤ) - a.e) := p10_pos _
    have h2 := mul_le_mul_of_nonneg_right h' hp.le
    rw [mul_assoc, mul_assoc, ← zpow_add₀ h10, ← zpow_add₀ h10] at h2
    have e1 : b.e + ((s : ℤ) - a.e) = (t : ℤ) := by omega
    have e2 : a.e + ((s : ℤ) - a.e) = (s : ℤ) := by omega
    rw [e1, e2, zpow_natCast, zpow_natCast] at h2
    have : ((((10 ^ t : ℕ) : ℤ) * b.m : ℤ) : ℝ) ≤ ((a.m * 10 ^ s : ℤ) : ℝ) := by
      push_cast; linarith
    exact_mod_cast this
  have hq : ((10 ^ t : ℕ) : ℤ) ≤ a.m * 10 ^ s / b.m := Int.le_ediv_of_mul_le hb hint
  unfold bv
  simp only []
  have hq' : (10:ℝ) ^ t ≤ ((a.m * 10 ^ s / b.m : ℤ) : ℝ) := by
    have : (((10 ^ t : ℕ) : ℤ) : ℝ) ≤ ((a.m * 10 ^ s / b.m : ℤ) : ℝ) := by exact_mod_cast hq
    push_cast at this; exact this
  have e2 : (10:ℝ) ^ (a.e - b.e - (s : ℤ)) = ((10:ℝ) ^ t)⁻¹ := by
    rw [← zpow_natCast, ← zpow_neg]; congr 1; omega
  rw [e2]
  have hp : (0:ℝ) < (10:ℝ) ^ t := by positivity
  rw [← div_eq_mul_inv, le_div_iff₀ hp, one_mul]
  exact hq'

/-! ## twoAtanh -/

open Finset in
theorem go_inv (W n : Nat) (z2 : I) (q : ℝ) (hq : Enc z2 q) :
    ∀ (i : Nat), i ≤ n → ∀ (zp acc : I) (P A : ℝ), Enc zp P → Enc acc A →
      Enc (twoAtanh.go W n z2 i zp acc)
        (A + ∑ t ∈ range i, P * q ^ t / ((2 * (n - i + t) + 1 : ℕ) : ℝ)) := by
  intro i
  induction i with
  | zero =>
    intro _ zp acc P A _ hA
    rw [twoAtanh.go.eq_1]
    simpa using hA
  | succ i ih =>
    intro hi zp acc P A hP hA
    rw [twoAtanh.go.eq_2]
    have m1 := mul_sound W zp z2 P q hP hq
    have d1 := divNat_sound W zp (2 * (n - (i + 1)) + 1) (by omega) P hP
    have a1 := add_sound W acc _ A _ hA d1
    have e1 := ih (by omega) _ _ _ _ m1 a1
    convert e1 using 1
    rw [sum_range_succ', add_assoc]
    congr 1
    rw [add_comm]
    congr 1
    · simp
    · apply sum_congr rfl
      intro t _
      have : n - (i + 1) + (t + 1) = n - i + t := by omega
      rw [this, pow_succ]
      ring

theorem pw_inv (W : Nat) (z : I) (h0 : 0 ≤ bv z.hi) :
    ∀ (i : Nat) (t : BF) (T : ℝ), 0 ≤ T → T ≤ bv t →
      T * (bv z.hi) ^ i ≤ bv (twoAtanh.pw W z i t) := by
  intro i
  induction i with
  | zero => intro t T _ hT; rw [twoAtanh.pw.eq_1]; simpa using hT
  | succ i ih =>
    intro t T hT0 hT
    rw [twoAtanh.pw.eq_2]
    have hm := mulDir_up W t z.hi
    have h1 : T * bv z.hi ≤ bv (mulDir W false t z.hi) :=
      le_trans (mul_le_mul_of_nonneg_right hT h0) hm
    have := ih _ _ (mul_nonneg hT0 h0) h1
    calc T * bv z.hi ^ (i + 1) = T * bv z.hi * bv z.hi ^ i := by rw [pow_succ]; ring
      _ ≤ _ := this

theorem S_alt (y : ℝ) (n : ℕ) :
    (0:ℝ) + ∑ t ∈ Finset.range n, y * (y * y) ^ t / ((2 * (n - n + t) + 1 : ℕ) : ℝ) = S y n := by
  unfold S
  rw [zero_add]
  apply Finset.sum_congr rfl
  intro t _
  have : n - n + t = t := by omega
  rw [this, ← pow_two, ← pow_mul, pow_succ]
  ring

theorem enc_zero : Enc (I.ofInt 0) 0 := by simpa using enc_ofInt 0

theorem twoAtanh_sound (W : Nat) (z : I) (n : Nat) (y : ℝ) (hz : Enc z y) (h0 : 0 ≤ bv z.lo)
    (hy : y ≤ 1 / 2) : Enc (twoAtanh W z n) (L2 y) := by
  have hy0 : 0 ≤ y := le_trans h0 hz.1
  have hh0 : 0 ≤ bv z.hi := le_trans hy0 hz.2
  unfold twoAtanh
  simp only []
  have hz2 := mul_sound W z z y y hz hz
  have hs := go_inv W n (I.mul W z z) (y * y) hz2 n (le_refl _) z (I.ofInt 0) y 0 hz enc_zero
  rw [S_alt] at hs
  generalize twoAtanh.go W n (I.mul W z z) n z (I.ofInt 0) = s at hs
  have hpw := pw_inv W z hh0 (2 * n + 1) (BF.ofInt 1) 1 (by norm_num) (by rw [bv_ofInt]; norm_num)
  rw [one_mul] at hpw
  generalize twoAtanh.pw W z (2 * n + 1) (BF.ofInt 1) = zt at hpw
  have hrem := mulDir_up W zt ⟨225, -2⟩
  have e225 : bv ⟨225, -2⟩ = 9 / 4 := by unfold bv; norm_num
  rw [e225] at hrem
  generalize mulDir W false zt ⟨225, -2⟩ = rem at hrem
  have hrem2 := mulDir_up W rem (BF.ofInt 2)
  rw [bv_ofInt] at hrem2
  push_cast at hrem2
  generalize mulDir W false rem (BF.ofInt 2) = rem2 at hrem2
  have hs2 := mul_sound W s (I.ofInt 2) _ _ hs (enc_ofInt 2)
  push_cast at hs2
  generalize I.mul W s (I.ofInt 2) = s2 at hs2
  have hadd := (addDir_sound W s2.hi rem2).2
  have hpow : y ^ (2 * n + 1) ≤ bv zt :=
    le_trans (pow_le_pow_left₀ hy0 hz.2 _) hpw
  have hyp : 0 ≤ y ^ (2 * n + 1) := by positivity
  constructor
  · show bv s2.lo ≤ L2 y
    have := L2_lower y hy0 (by linarith) n
    linarith [hs2.1]
  · show L2 y ≤ bv (addDir W false s2.hi rem2)
    have := L2_upper' y hy0 hy n
    linarith [hs2.2]

/-! ## ln 2, ln 10 -/

theorem divPos_lo_nonneg (W : Nat) (a b : I) (ha : 0 ≤ a.lo.m) (hb : 0 < b.hi.m) :
    0 ≤ (I.divPos W a b).lo.m := by
  rw [divPos_eq, if_pos ((sgn_nonneg_iff _).2 ha)]
  exact divDir_nonneg W true _ _ ha hb

theorem enc_inv_nat (W : Nat) (n : ℤ) (hn : 0 < n) :
    Enc (I.divPos W (I.ofInt 1) (I.ofInt n)) (1 / (n : ℝ)) ∧
      0 ≤ bv (I.divPos W (I.ofInt 1) (I.ofInt n)).lo := by
  constructor
  · have hpos : 0 < bv (I.ofInt n).lo := by
      show 0 < bv (BF.ofInt n); rw [bv_ofInt]; exact_mod_cast hn
    have := divPos_sound W (I.ofInt 1) (I.ofInt n) _ _ (enc_ofInt 1) (enc_ofInt n) hpos
    simpa using this
  · apply bv_nonneg
    apply divPos_lo_nonneg
    · show (0:ℤ) ≤ 1; decide
    · exact hn

theorem L2_third : L2 (1 / 3) = Real.log 2 := by
  unfold L2
  rw [← Real.log_div (by norm_num) (by norm_num)]
  norm_num

theorem L2_ninth : L2 (1 / 9) = Real.log 10 - 3 * Real.log 2 := by
  unfold L2
  have e1 : (1:ℝ) + 1 / 9 = 10 / 9 := by norm_num
  have e2 : (1:ℝ) - 1 / 9 = 2 ^ 3 / 9 := by norm_num
  rw [e1, e2, Real.log_div (by norm_num) (by norm_num), Real.log_div (by norm_num) (by norm_num),
    Real.log_pow]
  push_cast
  ring

theorem ln2I_sound (W : Nat) : Enc (ln2I W) (Real.log 2) := by
  unfold ln2I
  obtain ⟨h1, h2⟩ := enc_inv_nat W 3 (by decide)
  have := twoAtanh_sound W _ (atanhTerms W) (1 / 3) (by simpa using h1) h2 (by norm_num)
  rwa [L2_third] at this

theorem ln10I_sound (W : Nat) : Enc (ln10I W) (Real.log 10) := by
  unfold ln10I
  obtain ⟨h1, h2⟩ := enc_inv_nat W 9 (by decide)
  have t := twoAtanh_sound W _ (atanhTerms W) (1 / 9) (by simpa using h1) h2 (by norm_num)
  rw [L2_ninth] at t
  have m := mul_sound W (I.ofInt 3) (ln2I W) _ _ (enc_ofInt 3) (ln2I_sound W)
  have a := add_sound W _ _ _ _ m t
  convert a using 1
  push_cast
  ring

theorem ln2C_eq (W : Nat) : ln2C W = ln2I W := by
  unfold ln2C
  split
  · rename_i h
    have : W = W0 := by simpa using h
    subst this; rfl
  · rfl

theorem ln10C_eq (W : Nat) : ln10C W = ln10I W := by
  unfold ln10C
  split
  · rename_i h
    have : W = W0 := by simpa using h
    subst this; rfl
  · rfl

/-! ## lnPoint -/

def directF (W : Nat) (u : I) : I :=
  let z := I.divPos W (I.sub W u (I.ofInt 1)) (I.add W u (I.ofInt 1))
  if z.lo.sgn ≥ 0 then twoAtanh W z (atanhTerms W)
  else I.neg (twoAtanh W (I.neg z) (atanhTerms W))

theorem enc_neg (a : I) (r : ℝ) (h : Enc a r) : Enc (I.neg a) (-r) := by
  unfold Enc I.neg
  simp only [bv_neg]
  exact ⟨by linarith [h.2], by linarith [h.1]⟩

theorem direct_sound (W : Nat) (hW : 1 ≤ W) (u : I) (v : ℝ) (hu : Enc u v) (hv1 : 1 / 2 ≤ v)
    (hv2 : v ≤ 2) (hNS : 1 ≤ bv u.lo ∨ u.lo = u.hi) : Enc (directF W u) (Real.log v) := by
  have hv0 : 0 < v := by linarith
  have hlo : 1 / 2 ≤ bv u.lo := by
    rcases hNS with h | h
    · linarith
    · have := hu.2; rw [← h] at this; linarith [hu.1]
  -- the operands
  have hone : Enc (I.ofInt 1) 1 := enc_one
  have hs : Enc (I.sub W u (I.ofInt 1)) (v - 1) := by
    unfold I.sub
    have := add_sound W u (I.neg (I.ofInt 1)) v (-1) hu (enc_neg _ _ hone)
    simpa [sub_eq_add_neg] using this
  have ht : Enc (I.add W u (I.ofInt 1)) (v + 1) := add_sound W u (I.ofInt 1) v 1 hu hone
  have htlo : 0 < (I.add W u (I.ofInt 1)).lo.m := by
    show 0 < (addDir W true u.lo (BF.ofInt 1)).m
    have hsum : 0 < bv u.lo + bv (BF.ofInt 1) := by rw [bv_ofInt]; push_cast; linarith
    exact (addDir_down_sign W u.lo (BF.ofInt 1) hsum.le).2 hW hsum
  have hthi : 0 < (I.add W u (I.ofInt 1)).hi.m := by
    apply m_pos_of_bv_pos; linarith [ht.2]
  have hz := divPos_sound W _ _ _ _ hs ht (bv_pos_of_m_pos _ htlo)
  -- the argument of atanh
  have hy1 : (v - 1) / (v + 1) ≤ 1 / 3 := by
    rw [div_le_iff₀ (by linarith)]; linarith
  have hy2 : -(1 / 3) ≤ (v - 1) / (v + 1) := by
    rw [le_div_iff₀ (by linarith)]; linarith
  rw [log_eq_L2 v hv0]
  unfold directF
  simp only []
  generalize hzdef : I.divPos W (I.sub W u (I.ofInt 1)) (I.add W u (I.ofInt 1)) = z at hz
  split
  · rename_i hsg
    exact twoAtanh_sound W z _ _ hz (bv_nonneg _ ((sgn_nonneg_iff _).1 hsg)) (by linarith)
  · rename_i hsg
    have hzlo : z.lo.m < 0 := by
      have := mt (sgn_nonneg_iff z.lo).2 hsg
      omega
    -- the numerator interval is non-positive
    have hslo : (I.sub W u (I.ofInt 1)).lo.m < 0 := by
      by_contra hc
      have := divPos_lo_nonneg W (I.sub W u (I.ofInt 1)) (I.add W u (I.ofInt 1)) (by omega) hthi
      rw [hzdef] at this
      omega
    have hult : bv u.lo < 1 := by
      by_contra hc
      have hsum : 0 ≤ bv u.lo + bv (BF.ofInt 1).neg := by
        rw [bv_neg, bv_ofInt]; push_cast; linarith
      have := (addDir_down_sign W u.lo (BF.ofInt 1).neg hsum).1
      have hslo' : (addDir W true u.lo (BF.ofInt 1).neg).m < 0 := hslo
      omega
    have hpt : u.lo = u.hi := by
      rcases hNS with h | h
      · linarith
      · exact h
    have hshi : (I.sub W u (I.ofInt 1)).hi.m ≤ 0 := by
      show (addDir W false u.hi (BF.ofInt 1).neg).m ≤ 0
      apply addDir_up_nonpos
      rw [← hpt, bv_neg, bv_ofInt]; push_cast; linarith
    have hzhi : z.hi.m ≤ 0 := by
      rw [← hzdef, divPos_eq]
      have c1 : ¬ (I.sub W u (I.ofInt 1)).lo.sgn ≥ 0 := by
        rw [sgn_nonneg_iff]; omega
      rw [if_neg c1, if_pos ((sgn_nonpos_iff _).2 hshi)]
      exact divDir_nonpos W false _ _ hshi hthi
    have hneg := enc_neg z _ hz
    have h0 : 0 ≤ bv (I.neg z).lo := by
      show 0 ≤ bv z.hi.neg
      rw [bv_neg]; have := bv_nonpos _ hzhi; linarith
    have := twoAtanh_sound W (I.neg z) (atanhTerms W) _ hneg h0 (by linarith)
    rw [L2_neg] at this
    have := enc_neg _ _ this
    rwa [neg_neg] at this

theorem lnPoint_eq (W : Nat) (x : BF) : lnPoint W x =
    if (BF.mk 5 (-1)).le x && x.le (BF.ofInt 2) then directF W (I.point x) else
    let k := x.adj
    let m10 : BF := ⟨x.m, x.e - k⟩
    let j : Nat := if m10.lt (BF.ofInt 2) then 0 else if m10.lt (BF.ofInt 4) then 1
      else if m10.lt (BF.ofInt 8) then 2 else 3
    let u : I := I.divPos W (I.point m10) (I.ofInt (2 ^ j))
    I.add W (I.add W (directF W u) (I.mul W (I.ofInt j) (ln2C W))) (I.mul W (I.ofInt k) (ln10C W)) :=
  rfl

theorem bv_m10 (x : BF) (k : ℤ) : bv ⟨x.m, x.e - k⟩ = bv x / (10:ℝ) ^ k := by
  unfold bv
  simp only []
  rw [zpow_sub₀ h10]
  ring

theorem lnPoint_sound (W : Nat) (hW : 1 ≤ W) (x : BF) (hx : 0 < x.m) :
    Enc (lnPoint W x) (Real.log (bv x)) := by
  rw [lnPoint_eq]
  split
  · rename_i hc
    rw [Bool.and_eq_true] at hc
    have h1 := (le_iff _ _ (fd _) (fd _)).1 hc.1
    have h2 := (le_iff _ _ (fd _) (fd _)).1 hc.2
    have e5 : bv ⟨5, -1⟩ = 1 / 2 := by unfold bv; norm_num
    rw [e5] at h1
    rw [bv_ofInt] at h2
    push_cast at h2
    exact direct_sound W hW (I.point x) (bv x) (enc_point x) h1 h2 (Or.inr rfl)
  · simp only []
    -- the scaled mantissa lies in [1, 10)
    obtain ⟨b1, b2⟩ := mag_bounds x (by omega) (fd x)
    rw [← bv_of_nonneg x hx.le] at b1 b2
    have hk := p10_pos x.adj
    have hm1 : 1 ≤ bv ⟨x.m, x.e - x.adj⟩ := by
      rw [bv_m10, le_div_iff₀ hk, one_mul]; exact b1
    have hm2 : bv ⟨x.m, x.e - x.adj⟩ < 10 := by
      rw [bv_m10, div_lt_iff₀ hk]
      have : (10:ℝ) ^ (x.adj + 1) = 10 * (10:ℝ) ^ x.adj := by
        rw [zpow_add₀ h10, zpow_one]; ring
      rw [this] at b2; exact b2
    have hxv : bv x = bv ⟨x.m, x.e - x.adj⟩ * (10:ℝ) ^ x.adj := by
      rw [bv_m10]; field_simp
    have hme : (⟨x.m, x.e - x.adj⟩ : BF).e ≤ 0 := by
      show x.e - x.adj ≤ 0
      unfold BF.adj
      rw [fd x]
      have := ndigits_pos x.m.natAbs
      omega
    generalize hm10 : (⟨x.m, x.e - x.adj⟩ : BF) = m10 at *
    have hmpos : 0 < m10.m := by rw [← hm10]; exact hx
    -- the choice of j
    have e2 : bv (BF.ofInt 2) = 2 := by rw [bv_ofInt]; norm_num
    have e4 : bv (BF.ofInt 4) = 4 := by rw [bv_ofInt]; norm_num
    have e8 : bv (BF.ofInt 8) = 8 := by rw [bv_ofInt]; norm_num
    have l2 := lt_iff m10 (BF.ofInt 2) (fd _) (fd _)
    have l4 := lt_iff m10 (BF.ofInt 4) (fd _) (fd _)
    have l8 := lt_iff m10 (BF.ofInt 8) (fd _) (fd _)
    rw [e2] at l2; rw [e4] at l4; rw [e8] at l8
    have hj : ∀ j : ℕ, j = (if m10.lt (BF.ofInt 2) then 0 else if m10.lt (BF.ofInt 4) then 1
        else if m10.lt (BF.ofInt 8) then 2 else 3) →
        (2:ℝ) ^ j ≤ bv m10 ∧ bv m10 ≤ 2 * (2:ℝ) ^ j := by
      intro j hj
      split at hj
      · rename_i h; have := l2.1 h; subst hj; norm_num; constructor <;> linarith
      · rename_i h
        have g2 := mt l2.2 h
        split at hj
        · rename_i h'; have := l4.1 h'; subst hj; norm_num; constructor <;> linarith
        · rename_i h'
          have g4 := mt l4.2 h'
          split at hj
          · rename_i h''; have := l8.1 h''; subst hj; norm_num; constructor <;> linarith
          · rename_i h''
            have g8 := mt l8.2 h''
            subst hj; norm_num; constructor <;> linarith
    generalize hjdef : (if m10.lt (BF.ofInt 2) then 0 else if m10.lt (BF.ofInt 4) then 1
        else if m10.lt (BF.ofInt 8) then 2 else 3) = j
    obtain ⟨j1, j2⟩ := hj j hjdef.symm
    have hp2 : (0:ℝ) < (2:ℝ) ^ j := by positivity
    -- u encloses v = m10 / 2^j ∈ [1, 2]
    have hcast : (((2:ℤ) ^ j : ℤ) : ℝ) = (2:ℝ) ^ j := by push_cast; rfl
    have h2pos : 0 < bv (I.ofInt ((2:ℤ) ^ j)).lo := by
      show 0 < bv (BF.ofInt ((2:ℤ) ^ j)); rw [bv_ofInt, hcast]; exact hp2
    have hu := divPos_sound W (I.point m10) (I.ofInt ((2:ℤ) ^ j)) _ _ (enc_point m10)
      (enc_ofInt ((2:ℤ) ^ j)) h2pos
    rw [hcast] at hu
    have hv1 : 1 ≤ bv m10 / (2:ℝ) ^ j := by rw [le_div_iff₀ hp2, one_mul]; exact j1
    have hv2 : bv m10 / (2:ℝ) ^ j ≤ 2 := by rw [div_le_iff₀ hp2]; exact j2
    have hulo : 1 ≤ bv (I.divPos W (I.point m10) (I.ofInt ((2:ℤ) ^ j))).lo := by
      have hc1 : (I.point m10).lo.sgn ≥ 0 :=
        (sgn_nonneg_iff _).2 (show 0 ≤ (I.point m10).lo.m from le_of_lt hmpos)
      rw [divPos_eq, if_pos hc1]
      show 1 ≤ bv (divDir W true m10 (BF.ofInt ((2:ℤ) ^ j)))
      apply divDir_down_ge_one W hW
      · exact hmpos
      · show (0:ℤ) < (2:ℤ) ^ j; positivity
      · exact hme
      · rw [bv_ofInt, hcast]; exact j1
    have hd := direct_sound W hW _ _ hu (by linarith) hv2 (Or.inl hulo)
    -- assemble
    have c2 := mul_sound W (I.ofInt (j : ℤ)) (ln2C W) _ _ (enc_ofInt _) (by rw [ln2C_eq]; exact ln2I_sound W)
    have c10 := mul_sound W (I.ofInt x.adj) (ln10C W) _ _ (enc_ofInt _)
      (by rw [ln10C_eq]; exact ln10I_sound W)
    have a1 := add_sound W _ _ _ _ hd c2
    have a2 := add_sound W _ _ _ _ a1 c10
    convert a2 using 1
    have hv0 : 0 < bv m10 / (2:ℝ) ^ j := by linarith
    have hxv' : bv x = bv m10 / (2:ℝ) ^ j * (2:ℝ) ^ j * (10:ℝ) ^ x.adj := by
      rw [hxv]; field_simp
    rw [hxv', Real.log_mul (by positivity) (by positivity), Real.log_mul hv0.ne' hp2.ne',
      Real.log_pow, Real.log_zpow]
    push_cast
    ring

end Apd.C12IL
