import ApdVerif.Lemmas.CbrtConvLoop
/-!
# `Context.Cbrt` converges — one round of the Newton iteration and the stopping test, forwards
-/
set_option linter.unusedVariables false

namespace Apd.CbrtC
open Apd Apd.Oracle Apd.RatSpec Apd.C20L Apd.SqrtL Apd.CbrtL Apd.CbrtR Cond

/-! ## decimal ranges of positive rationals -/

/-- `10^i ≤ u < 10^j` -/
def Rng (u : ℚ) (i j : ℤ) : Prop := (10 : ℚ) ^ i ≤ u ∧ u < (10 : ℚ) ^ j

theorem Rng.pos {u : ℚ} {i j : ℤ} (h : Rng u i j) : 0 < u := lt_of_lt_of_le (tp i) h.1

theorem Rng.widen {u : ℚ} {i j i' j' : ℤ} (h : Rng u i j) (hi : i' ≤ i) (hj : j ≤ j') : Rng u i' j' :=
  ⟨le_trans (zpow_le_zpow_right₀ ten_ge hi) h.1, lt_of_lt_of_le h.2 (zpow_le_zpow_right₀ ten_ge hj)⟩

theorem Rng.mul {u v : ℚ} {i j i' j' : ℤ} (h : Rng u i j) (h' : Rng v i' j') : Rng (u * v) (i + i') (j + j') := by
  constructor
  · rw [zpow_add₀ ten_ne]
    exact mul_le_mul h.1 h'.1 (tp _).le h.pos.le
  · rw [zpow_add₀ ten_ne]
    exact mul_lt_mul'' h.2 h'.2 h.pos.le h'.pos.le

theorem Rng.div {u v : ℚ} {i j i' j' : ℤ} (h : Rng u i j) (h' : Rng v i' j') : Rng (u / v) (i - j') (j - i') := by
  have hv := h'.pos
  constructor
  · rw [le_div_iff₀ hv]
    have : (10 : ℚ) ^ (i - j') * v ≤ (10 : ℚ) ^ (i - j') * (10 : ℚ) ^ j' :=
      mul_le_mul_of_nonneg_left h'.2.le (tp _).le
    rw [← zpow_add₀ ten_ne, sub_add_cancel] at this
    linarith [h.1]
  · rw [div_lt_iff₀ hv]
    have : (10 : ℚ) ^ (j - i') * (10 : ℚ) ^ i' ≤ (10 : ℚ) ^ (j - i') * v :=
      mul_le_mul_of_nonneg_left h'.1 (tp _).le
    rw [← zpow_add₀ ten_ne, sub_add_cancel] at this
    linarith [h.2]

theorem Rng.add {u v : ℚ} {i j i' j' k : ℤ} (h : Rng u i j) (h' : Rng v i' j') (hj : j ≤ k) (hj' : j' ≤ k) :
    Rng (u + v) i' (k + 1) := by
  constructor
  · linarith [h'.1, h.pos]
  · have a1 : u < (10 : ℚ) ^ k := lt_of_lt_of_le h.2 (zpow_le_zpow_right₀ ten_ge hj)
    have a2 : v < (10 : ℚ) ^ k := lt_of_lt_of_le h'.2 (zpow_le_zpow_right₀ ten_ge hj')
    rw [zpow_add_one₀ ten_ne]
    have := tp k
    linarith

/-- a rounded value stays within one decade -/
theorem Rng.rel {u u' ε : ℚ} {i j : ℤ} (h : Rng u i j) (hε0 : 0 ≤ ε) (hε : ε ≤ 1 / 2000)
    (l : u * (1 - ε) ≤ u') (r : u' ≤ u * (1 + ε)) : Rng u' (i - 1) (j + 1) := by
  have hu := h.pos
  constructor
  · rw [zpow_sub_one₀ ten_ne]
    have := tp i
    have h1 : u * (1 - ε) ≥ u * (1999 / 2000) := mul_le_mul_of_nonneg_left (by linarith) hu.le
    have := h.1
    linarith
  · rw [zpow_add_one₀ ten_ne]
    have := tp j
    have h1 : u * (1 + ε) ≤ u * (2001 / 2000) := mul_le_mul_of_nonneg_left (by linarith) hu.le
    have := h.2
    linarith

theorem Rng.opr {p : ℕ} {v : ℚ} {d : Dec} {i j : ℤ} (h : Rng v i j) (hp : 4 ≤ p) (hr : OpR p v d) :
    Rng d.toRat (i - 1) (j + 1) := by
  obtain ⟨l, u⟩ := opr_bounds hr h.pos
  exact h.rel (eps_pos p).le (eps_small' p hp) l u

theorem Rng.exp {d : Dec} {n : ℕ} {i j : ℤ} (h : Rng d.toRat i j) (hd : Pos d) (hn : ndigits d.coeff ≤ n) :
    i - (n : ℤ) < d.exp ∧ d.exp ≤ j - 1 := exp_bounds hd hn h.1 h.2

theorem Rng.lo {u : ℚ} {i j : ℤ} (h : Rng u i j) (hi : -100000 ≤ i) : (10 : ℚ) ^ (-100000 : ℤ) ≤ u :=
  le_trans (zpow_le_zpow_right₀ ten_ge hi) h.1

theorem Rng.hi {u : ℚ} {i j : ℤ} (h : Rng u i j) (hj : j ≤ 99999) : u < (10 : ℚ) ^ (99999 : ℤ) :=
  lt_of_lt_of_le h.2 (zpow_le_zpow_right₀ ten_ge hj)

theorem rng_three : Rng decThree.toRat 0 1 := by
  rw [decThree_toRat]; constructor <;> norm_num

/-! ## one round -/

/-- the five operations of one round from an iterate `z ∈ [10^(a-1), 10^(a+2))`, `|x| ∈ [10^(3a), 10^(3a+3))` -/
theorem round_fw (cc : Ctx) (p : Nat) (hw : NCtx cc p) (hp4 : 4 ≤ p) (hp2 : p ≤ 50000)
    (ax : Dec) (hax : Pos ax) (haxd : ndigits ax.coeff ≤ 100000) (a : ℤ)
    (H1 : -50000 ≤ a - (p : ℤ)) (H2 : a ≤ 33333)
    (H3 : -100000 ≤ ax.exp - 2 * a - 4) (H4 : ax.exp - 2 * a + (p : ℤ) + 2 ≤ 100000)
    (hX : Rng ax.toRat (3 * a) (3 * a + 3))
    (e : ED) (z : Dec) (he : EDg cc e) (hz : Pos z) (hzd : ndigits z.coeff ≤ p) (hzr : Rng z.toRat (a - 1) (a + 2)) :
    EDg cc (CbrtL.round ax e z).1 ∧ Pos (CbrtL.round ax e z).2 ∧ ndigits (CbrtL.round ax e z).2.coeff ≤ p ∧
    ∃ t1 t2 t3 t4 e1 e2 e3 e4 e5 : ℚ,
      |e1| ≤ 5 * (10 : ℚ) ^ (-(p : ℤ)) ∧ |e2| ≤ 5 * (10 : ℚ) ^ (-(p : ℤ)) ∧ |e3| ≤ 5 * (10 : ℚ) ^ (-(p : ℤ)) ∧
      |e4| ≤ 5 * (10 : ℚ) ^ (-(p : ℤ)) ∧ |e5| ≤ 5 * (10 : ℚ) ^ (-(p : ℤ)) ∧
      t1 = z.toRat * z.toRat * (1 + e1) ∧ t2 = ax.toRat / t1 * (1 + e2) ∧ t3 = (t2 + z.toRat) * (1 + e3) ∧
      t4 = (t3 + z.toRat) * (1 + e4) ∧ (CbrtL.round ax e z).2.toRat = t4 / 3 * (1 + e5) := by
  have hp1 : 1 ≤ p := by omega
  have hp2' : p ≤ 100000 := by omega
  obtain ⟨ze1, ze2⟩ := hzr.exp hz hzd
  unfold CbrtL.round
  dsimp only
  -- z·z
  have r1 : Rng (z.toRat * z.toRat) (a - 1 + (a - 1)) (a + 2 + (a + 2)) := hzr.mul hzr
  have F1 := mulk_fw cc p hw hp1 hp2' z z hz hz (by omega) (by omega)
    ⟨by omega, by omega, by omega,
      by have := ndigits_mul_le z.coeff z.coeff hz.h0 hz.h0; omega,
      r1.lo (by omega), r1.hi (by omega)⟩
  obtain ⟨g1, v1⟩ := step_fw hw.ht e z (fun c => mulOp c z z) he p _ F1
  generalize e.step z (fun c => mulOp c z z) = s1 at g1 v1 ⊢
  have R1 := F1.r
  rw [← v1] at R1
  have P1 := R1.pos r1.pos
  have q1 := r1.opr hp4 R1
  obtain ⟨x1, x2⟩ := q1.exp P1 R1.nd
  obtain ⟨e1, he1, d1⟩ := rel_pos R1 r1.pos
  -- |x| / (z·z)
  have r2 : Rng (ax.toRat / s1.2.toRat) (3 * a - (a + 2 + (a + 2) + 1)) (3 * a + 3 - (a - 1 + (a - 1) - 1)) := hX.div q1
  have F2 := quo_fw cc p hw hp1 hp2' ax s1.2 hax P1 (by omega) (by omega) haxd (by have := R1.nd; omega)
    (r2.lo (by omega)) (r2.hi (by omega))
  obtain ⟨g2, v2⟩ := step_fw hw.ht s1.1 s1.2 (fun c => quoOp c ax s1.2) g1 p _ F2
  generalize s1.1.step s1.2 (fun c => quoOp c ax s1.2) = s2 at g2 v2 ⊢
  have R2 := F2.r
  rw [← v2] at R2
  have P2 := R2.pos r2.pos
  have q2 := r2.opr hp4 R2
  obtain ⟨y1, y2⟩ := q2.exp P2 R2.nd
  obtain ⟨e2, he2, d2⟩ := rel_pos R2 r2.pos
  -- + z
  have r3 : Rng (s2.2.toRat + z.toRat) (a - 1) (a + 7 + 1) := q2.add hzr (by omega) (by omega)
  have F3 := add_fw cc p hw hp1 hp2' s2.2 z false P2.hf hz.hf (by omega) (by omega) (by omega) (by omega)
    (by omega) (by omega) (a + 8) (by omega) (by omega) (by omega)
    (by
      simp only [Bool.false_eq_true, if_false]
      rw [abs_of_pos r3.pos]; exact (r3.widen (le_refl _) (by omega)).2)
  simp only [Bool.false_eq_true, if_false] at F3
  obtain ⟨g3, v3⟩ := step_fw hw.ht s2.1 s2.2 (fun c => addOp c s2.2 z false) g2 p _ F3
  generalize s2.1.step s2.2 (fun c => addOp c s2.2 z false) = s3 at g3 v3 ⊢
  have R3 := F3.r
  rw [← v3] at R3
  have P3 := R3.pos r3.pos
  have q3 := r3.opr hp4 R3
  obtain ⟨w1, w2⟩ := q3.exp P3 R3.nd
  obtain ⟨e3, he3, d3⟩ := rel_pos R3 r3.pos
  -- + z
  have r4 : Rng (s3.2.toRat + z.toRat) (a - 1) (a + 9 + 1) := q3.add hzr (by omega) (by omega)
  have F4 := add_fw cc p hw hp1 hp2' s3.2 z false P3.hf hz.hf (by omega) (by omega) (by omega) (by omega)
    (by omega) (by omega) (a + 10) (by omega) (by omega) (by omega)
    (by
      simp only [Bool.false_eq_true, if_false]
      rw [abs_of_pos r4.pos]; exact (r4.widen (le_refl _) (by omega)).2)
  simp only [Bool.false_eq_true, if_false] at F4
  obtain ⟨g4, v4⟩ := step_fw hw.ht s3.1 s3.2 (fun c => addOp c s3.2 z false) g3 p _ F4
  generalize s3.1.step s3.2 (fun c => addOp c s3.2 z false) = s4 at g4 v4 ⊢
  have R4 := F4.r
  rw [← v4] at R4
  have P4 := R4.pos r4.pos
  have q4 := r4.opr hp4 R4
  obtain ⟨u1, u2⟩ := q4.exp P4 R4.nd
  obtain ⟨e4, he4, d4⟩ := rel_pos R4 r4.pos
  -- / 3
  have r5 : Rng (s4.2.toRat / decThree.toRat) (a - 1 - 1 - 1) (a + 9 + 1 + 1 - 0) := q4.div rng_three
  have c3e : decThree.exp = 0 := rfl
  have F5 := quo_fw cc p hw hp1 hp2' s4.2 decThree P4 decThree_pos (by rw [c3e]; omega) (by rw [c3e]; omega)
    (by have := R4.nd; omega) (by decide) (r5.lo (by omega)) (r5.hi (by omega))
  obtain ⟨g5, v5⟩ := step_fw hw.ht s4.1 s4.2 (fun c => quoOp c s4.2 decThree) g4 p _ F5
  generalize s4.1.step s4.2 (fun c => quoOp c s4.2 decThree) = s5 at g5 v5 ⊢
  have R5 := F5.r
  rw [← v5] at R5
  have P5 := R5.pos r5.pos
  obtain ⟨e5, he5, d5⟩ := rel_pos R5 r5.pos
  rw [decThree_toRat] at d5
  exact ⟨g5, P5, R5.nd, s1.2.toRat, s2.2.toRat, s3.2.toRat, s4.2.toRat, e1, e2, e3, e4, e5,
    he1, he2, he3, he4, he5, d1, d2, d3, d4, d5⟩

/-! ## the stopping test -/

theorem loopDone_shape (cc : Ctx) (prec : Int) (maxIter : Nat) (l : LoopSt) (z : Dec)
    (herr : (addOp cc l.prevZ z true).err = .none) :
    loopDone cc prec maxIter l z = .done ∨
    loopDone cc prec maxIter l z =
      (if l.i + 1 == maxIter then .error .other else .continue { i := l.i + 1, prevZ := z }) := by
  unfold loopDone
  dsimp only
  rw [herr]
  simp only [bne_self_eq_false, Bool.false_eq_true, if_false]
  split_ifs <;> simp

open Apd.C15L in
/-- two consecutive iterates closer than a tenth of `10^(-P)·z`: `loop.done` answers yes -/
theorem loopDone_done (cc : Ctx) (p P : Nat) (hw : NCtx cc p) (hp4 : 4 ≤ p)
    (maxIter : Nat) (l : LoopSt) (z : Dec) (hz : Pos z)
    (F : OpF p (l.prevZ.toRat + -z.toRat) (addOp cc l.prevZ z true))
    (hsmall : |l.prevZ.toRat - z.toRat| * (2001 / 2000) ≤ z.toRat * ((10 : ℚ) ^ (-(P : ℤ)) / 10)) :
    loopDone cc ((P : ℤ) + 1) maxIter l z = .done := by
  have hε := eps_small p hp4
  have hzp := hz.toRat_pos
  have htp := tp (-(P : ℤ))
  unfold loopDone
  dsimp only
  have R := F.r
  have herr := F.err
  generalize addOp cc l.prevZ z true = o at R herr ⊢
  rw [herr]
  simp only [bne_self_eq_false, Bool.false_eq_true, if_false]
  have hv := R.val
  rw [← sub_eq_add_neg] at hv
  generalize l.prevZ.toRat - z.toRat = v at hv hsmall
  have hsign := sign_finite o.d R.fin
  by_cases h0 : o.d.coeff = 0
  · have hs0 : (o.d.sign == 0) = true := by rw [hsign, if_pos h0]; rfl
    rw [if_pos hs0]
  · have hs0 : ¬ (o.d.sign == 0) = true := by
      rw [hsign, if_neg h0]; cases o.d.neg <;> simp
    rw [if_neg hs0]
    obtain ⟨dl, hdl⟩ : ∃ dl, dl = (if o.d.sign < 0 then o.d.negD else o.d) := ⟨_, rfl⟩
    rw [← hdl]
    have hdlf : dl.form = .finite := by
      rw [hdl]; split_ifs
      · rw [negD_form]; exact R.fin
      · exact R.fin
    have hdlv : dl.toRat = |o.d.toRat| := by
      have hcp : (0 : ℚ) < o.d.coeff := by
        have : 0 < o.d.coeff := Nat.pos_of_ne_zero h0
        exact_mod_cast this
      have hxp := tp o.d.exp
      rw [hdl, hsign, if_neg h0]
      cases hn : o.d.neg
      · simp only [Bool.false_eq_true, if_false]
        have : ¬ ((1 : ℤ) < 0) := by decide
        rw [if_neg this]
        have : 0 ≤ o.d.toRat := by
          unfold Dec.toRat; rw [hn]; simp only [Bool.false_eq_true, if_false, one_mul]; positivity
        rw [abs_of_nonneg this]
      · simp only [if_true]
        have : ((-1 : ℤ) < 0) := by decide
        rw [if_pos this, negD_toRat]
        have : o.d.toRat ≤ 0 := by
          unfold Dec.toRat; rw [hn]; simp only [if_true]
          have : 0 < (o.d.coeff : ℚ) * (10 : ℚ) ^ o.d.exp := by positivity
          linarith
        rw [abs_of_nonpos this]
    have heps : ({ coeff := 1, exp := -((P : ℤ) + 1) + (ndigits z.coeff : ℤ) + z.exp } : Dec).toRat =
        (10 : ℚ) ^ (-(P : ℤ)) * ((10 : ℚ) ^ (z.exp + (ndigits z.coeff : ℤ)) / 10) := by
      unfold Dec.toRat
      simp only [Bool.false_eq_true, if_false, Nat.cast_one, one_mul]
      rw [show -((P : ℤ) + 1) + (ndigits z.coeff : ℤ) + z.exp = -(P : ℤ) + (z.exp + (ndigits z.coeff : ℤ)) + (-1) by ring,
        zpow_add₀ ten_ne, zpow_add₀ ten_ne, tm1]
      ring
    have hcmp : dl.cmp { coeff := 1, exp := -((P : ℤ) + 1) + (ndigits z.coeff : ℤ) + z.exp } ≤ 0 := by
      apply (cmp_toRat dl _ hdlf rfl).1.2
      rw [hdlv, heps]
      have hzb := (toRat_bounds hz).2
      have h2 : |o.d.toRat| ≤ |v| + |o.d.toRat - v| := by
        have := abs_add_le v (o.d.toRat - v)
        rwa [add_sub_cancel] at this
      have hb : 5 * (10 : ℚ) ^ (-(p : ℤ)) * |v| ≤ 1 / 2000 * |v| := mul_le_mul_of_nonneg_right hε (abs_nonneg _)
      have h3 : z.toRat * ((10 : ℚ) ^ (-(P : ℤ)) / 10) ≤
          (10 : ℚ) ^ (-(P : ℤ)) * ((10 : ℚ) ^ (z.exp + (ndigits z.coeff : ℤ)) / 10) := by
        have := mul_le_mul_of_nonneg_left hzb.le htp.le
        linarith
      linarith
    rw [if_pos hcmp]

/-! ## the error of the iterates, over `ℝ` -/

/-- one round moves `z/r` to the next interval of `Near` -/
theorem round_near (X z0 t1 t2 t3 t4 z e1 e2 e3 e4 e5 t : ℚ) (r : ℝ) (hr : 0 < r) (hr3 : (X : ℝ) = r ^ 3)
    (hz0 : 0 < z0) (ht : 0 < t) (ht1 : t ≤ 1 / 10)
    (h1 : |e1| ≤ t ^ 2 / 20) (h2 : |e2| ≤ t ^ 2 / 20) (h3 : |e3| ≤ t ^ 2 / 20) (h4 : |e4| ≤ t ^ 2 / 20)
    (h5 : |e5| ≤ t ^ 2 / 20)
    (d1 : t1 = z0 * z0 * (1 + e1)) (d2 : t2 = X / t1 * (1 + e2)) (d3 : t3 = (t2 + z0) * (1 + e3))
    (d4 : t4 = (t3 + z0) * (1 + e4)) (d5 : z = t4 / 3 * (1 + e5))
    (k : ℕ) (hinv : Near k (t : ℝ) ((z0 : ℝ) / r)) :
    Near (k + 1) (t : ℝ) ((z : ℝ) / r) := by
  have hXr : (0 : ℝ) < (X : ℝ) := by rw [hr3]; positivity
  have hzr : (0 : ℝ) < (z0 : ℝ) := by exact_mod_cast hz0
  have htr : (0 : ℝ) < (t : ℝ) := by exact_mod_cast ht
  have ht1r : (t : ℝ) ≤ 1 / 10 := by
    have : ((t : ℚ) : ℝ) ≤ ((1 / 10 : ℚ) : ℝ) := by exact_mod_cast ht1
    simpa using this
  have cst : ∀ e : ℚ, |e| ≤ t ^ 2 / 20 → |(e : ℝ)| ≤ (t : ℝ) ^ 2 / 20 := by
    intro e he
    have : ((|e| : ℚ) : ℝ) ≤ ((t ^ 2 / 20 : ℚ) : ℝ) := by exact_mod_cast he
    simpa using this
  have hu : (t : ℝ) ^ 2 / 20 ≤ 1 / 2000 := by nlinarith
  have hp := CbrtN.perturb5 (X : ℝ) z0 t1 t2 t3 t4 z e1 e2 e3 e4 e5 ((t : ℝ) ^ 2 / 20) hXr hzr hu
    (cst _ h1) (cst _ h2) (cst _ h3) (cst _ h4) (cst _ h5)
    (by rw [d1]; push_cast; ring) (by rw [d2]; push_cast; ring) (by rw [d3]; push_cast; ring)
    (by rw [d4]; push_cast; ring) (by rw [d5]; push_cast; ring)
  obtain ⟨N, hNd⟩ : ∃ N : ℝ, N = (2 * (z0 : ℝ) + (X : ℝ) / ((z0 : ℝ) * (z0 : ℝ))) / 3 := ⟨_, rfl⟩
  rw [← hNd] at hp
  have hN0 : 0 < N := by rw [hNd]; positivity
  have hn : 3 * ((z0 : ℝ) / r) ^ 2 * (N / r) = 2 * ((z0 : ℝ) / r) ^ 3 + 1 := by
    rw [hNd, hr3]; field_simp
  have hw : |(z : ℝ) / r - N / r| ≤ 251 / 1000 * (t : ℝ) ^ 2 * (N / r) := by
    have e : (z : ℝ) / r - N / r = ((z : ℝ) - N) / r := by ring
    rw [e, abs_div, abs_of_pos hr, div_le_iff₀ hr]
    have e2 : 251 / 1000 * (t : ℝ) ^ 2 * (N / r) * r = 251 / 1000 * (t : ℝ) ^ 2 * N := by field_simp
    rw [e2]
    linarith
  exact near_step k (t : ℝ) _ _ _ htr.le ht1r hinv hn hw

/-- the real interval of an iterate gives its decimal range -/
theorem rng_of_real (z : ℚ) (r : ℝ) (a : ℤ) (hr1 : (10 : ℝ) ^ a ≤ r) (hr2 : r < (10 : ℝ) ^ (a + 1))
    (h1 : 24 / 100 ≤ (z : ℝ) / r) (h2 : (z : ℝ) / r ≤ 5963 / 1000) : Rng z (a - 1) (a + 2) := by
  have hr : 0 < r := lt_of_lt_of_le (zpow_pos (by norm_num) a) hr1
  have l' : (24 / 100) * r ≤ (z : ℝ) := by rwa [le_div_iff₀ hr] at h1
  have u' : (z : ℝ) ≤ (5963 / 1000) * r := by rwa [div_le_iff₀ hr] at h2
  have ha : (0 : ℝ) < (10 : ℝ) ^ a := zpow_pos (by norm_num) a
  have e1 : (10 : ℝ) ^ (a - 1) = (10 : ℝ) ^ a / 10 := by rw [zpow_sub_one₀ (by norm_num)]; ring
  have e2 : (10 : ℝ) ^ (a + 2) = (10 : ℝ) ^ (a + 1) * 10 := by
    rw [show a + 2 = a + 1 + 1 by ring, zpow_add_one₀ (by norm_num)]
  have e3 : (10 : ℝ) ^ (a + 1) = (10 : ℝ) ^ a * 10 := zpow_add_one₀ (by norm_num) a
  constructor
  · have : (10 : ℝ) ^ (a - 1) ≤ (z : ℝ) := by rw [e1]; linarith
    have h2 : (((10 : ℚ) ^ (a - 1) : ℚ) : ℝ) ≤ (z : ℝ) := by push_cast; exact this
    exact_mod_cast h2
  · have : (z : ℝ) < (10 : ℝ) ^ (a + 2) := by rw [e2]; rw [e3] at hr2 ⊢; linarith
    have h2 : (z : ℝ) < (((10 : ℚ) ^ (a + 2) : ℚ) : ℝ) := by push_cast; exact this
    exact_mod_cast h2

/-- from round `P + 1` of the final phase on the stopping threshold is met -/
theorem stop_real (z0 z tq : ℚ) (r : ℝ) (hr : 0 < r) (P k : ℕ) (hP : 1 ≤ P) (hk : P + 1 ≤ k)
    (htq : tq = (10 : ℚ) ^ (-(P : ℤ)))
    (ha : |(z0 : ℝ) / r - 1| ≤ Ebound k (tq : ℝ))
    (hw : |(z : ℝ) / r - 1| ≤ Ebound (k + 1) (tq : ℝ)) :
    |z0 - z| * (2001 / 2000) ≤ z * (tq / 10) := by
  have ht0 : (0 : ℝ) < (tq : ℝ) := by rw [htq]; exact_mod_cast tp (-(P : ℤ))
  have ht1 : (tq : ℝ) ≤ 1 / 10 := by
    have := ten_negP P hP
    rw [← htq] at this
    have : ((tq : ℚ) : ℝ) ≤ ((1 / 10 : ℚ) : ℝ) := by exact_mod_cast this
    simpa using this
  have hs : ((1 : ℝ) / 10) ^ k ≤ (tq : ℝ) / 10 := by
    have h1 : ((1 : ℝ) / 10) ^ k ≤ ((1 : ℝ) / 10) ^ (P + 1) :=
      pow_le_pow_of_le_one (by norm_num) (by norm_num) hk
    have h2 : ((1 : ℝ) / 10) ^ (P + 1) = (tq : ℝ) / 10 := by
      rw [htq]
      push_cast
      rw [zpow_neg, zpow_natCast, pow_succ, one_div, inv_pow]
      ring
    linarith
  unfold Ebound at ha hw
  rw [pow_succ] at hw
  have := stop_ok ((z0 : ℝ) / r) ((z : ℝ) / r) (tq : ℝ) (((1 : ℝ) / 10) ^ k) ht0 ht1 (by positivity) hs ha hw
  have e : (z0 : ℝ) / r - (z : ℝ) / r = ((z0 : ℝ) - z) / r := by ring
  rw [e, abs_div, abs_of_pos hr] at this
  have h3 : |(z0 : ℝ) - z| * (2001 / 2000) ≤ (z : ℝ) * ((tq : ℝ) / 10) := by
    have h4 := mul_le_mul_of_nonneg_right this hr.le
    have e1 : |(z0 : ℝ) - z| / r * (2001 / 2000) * r = |(z0 : ℝ) - z| * (2001 / 2000) := by field_simp
    have e2 : (z : ℝ) / r * ((tq : ℝ) / 10) * r = (z : ℝ) * ((tq : ℝ) / 10) := by field_simp
    rw [e1, e2] at h4; exact h4
  have h5 : (((|z0 - z| * (2001 / 2000) : ℚ)) : ℝ) ≤ ((z * (tq / 10) : ℚ) : ℝ) := by
    push_cast; exact h3
  exact_mod_cast h5

/-! ## the loop -/

/-- what the loop needs to know about the working context, the operand `ax = |x|` and its real cube root `r` -/
structure Setup (cc : Ctx) (P : ℕ) (ax : Dec) (a : ℤ) (r : ℝ) : Prop where
  hw : NCtx cc (P * 2 + 2)
  hP : 1 ≤ P
  hp2 : P * 2 + 2 ≤ 50000
  hax : Pos ax
  haxd : ndigits ax.coeff ≤ 100000
  H1 : -50000 ≤ a - ((P * 2 + 2 : ℕ) : ℤ)
  H2 : a ≤ 33333
  H3 : -100000 ≤ ax.exp - 2 * a - 4
  H4 : ax.exp - 2 * a + ((P * 2 + 2 : ℕ) : ℤ) + 2 ≤ 100000
  hX : Rng ax.toRat (3 * a) (3 * a + 3)
  hr : 0 < r
  hr3 : (ax.toRat : ℝ) = r ^ 3
  hr1 : (10 : ℝ) ^ a ≤ r
  hr2 : r < (10 : ℝ) ^ (a + 1)

/-- the `k`-th iterate: a positive decimal of at most `2P+2` digits whose ratio to the root lies in the `k`-th
interval of `Near` -/
structure Inv (P : ℕ) (r : ℝ) (k : ℕ) (z : Dec) : Prop where
  pos : Pos z
  nd : ndigits z.coeff ≤ P * 2 + 2
  err : Near k (((10 : ℚ) ^ (-(P : ℤ)) : ℚ) : ℝ) ((z.toRat : ℝ) / r)

theorem tq_facts (P : ℕ) (hP : 1 ≤ P) :
    (0 : ℝ) ≤ (((10 : ℚ) ^ (-(P : ℤ)) : ℚ) : ℝ) ∧ (((10 : ℚ) ^ (-(P : ℤ)) : ℚ) : ℝ) ≤ 1 / 10 := by
  constructor
  · exact_mod_cast (tp (-(P : ℤ))).le
  · have := ten_negP P hP
    have : (((10 : ℚ) ^ (-(P : ℤ)) : ℚ) : ℝ) ≤ ((1 / 10 : ℚ) : ℝ) := by exact_mod_cast this
    simpa using this

theorem Inv.rng {cc : Ctx} {P : ℕ} {ax : Dec} {a : ℤ} {r : ℝ} {k : ℕ} {z : Dec} (S : Setup cc P ax a r)
    (h : Inv P r k z) : Rng z.toRat (a - 1) (a + 2) := by
  obtain ⟨t0, t1⟩ := tq_facts P S.hP
  obtain ⟨n1, n2⟩ := near_range k _ _ t0 t1 h.err
  exact rng_of_real z.toRat r a S.hr1 S.hr2 n1 n2

/-- the subtraction of `loop.done` -/
theorem sub_fw (cc : Ctx) (p : Nat) (hw : NCtx cc p) (hp4 : 4 ≤ p) (hp2 : p ≤ 50000) (a : ℤ)
    (H1 : -50000 ≤ a - (p : ℤ)) (H2 : a ≤ 33333)
    (prev z : Dec) (hpf : prev.form = .finite) (pe1 : -50000 ≤ prev.exp) (pe2 : prev.exp ≤ 33335)
    (pv0 : 0 ≤ prev.toRat) (pv1 : prev.toRat < (10 : ℚ) ^ (a + 2))
    (hz : Pos z) (hzd : ndigits z.coeff ≤ p) (hzr : Rng z.toRat (a - 1) (a + 2)) :
    OpF p (prev.toRat + -z.toRat) (addOp cc prev z true) := by
  obtain ⟨ze1, ze2⟩ := hzr.exp hz hzd
  have := add_fw cc p hw (by omega) (by omega) prev z true hpf hz.hf (by omega) (by omega) (by omega) (by omega)
    (by omega) (by omega) (a + 2) (by omega) (by omega) (by omega)
    (by
      simp only [if_true]
      have := hzr.pos
      have := hzr.2
      rw [abs_lt]; constructor <;> linarith)
  simpa only [if_true] using this

theorem Inv.prevOK {cc : Ctx} {P : ℕ} {ax : Dec} {a : ℤ} {r : ℝ} {k : ℕ} {z : Dec} (S : Setup cc P ax a r)
    (h : Inv P r k z) : z.form = .finite ∧ -50000 ≤ z.exp ∧ z.exp ≤ 33335 ∧ 0 ≤ z.toRat ∧
      z.toRat < (10 : ℚ) ^ (a + 2) := by
  have hr := h.rng S
  obtain ⟨e1, e2⟩ := hr.exp h.pos h.nd
  have := S.H1
  have := S.H2
  exact ⟨h.pos.hf, by omega, by omega, hr.pos.le, hr.2⟩

theorem empty_prevOK (a : ℤ) : ({} : Dec).form = .finite ∧ -50000 ≤ ({} : Dec).exp ∧ ({} : Dec).exp ≤ 33335 ∧
    0 ≤ ({} : Dec).toRat ∧ ({} : Dec).toRat < (10 : ℚ) ^ (a + 2) := by
  have h0 : ({} : Dec).toRat = 0 := by simp [Dec.toRat]
  refine ⟨rfl, by decide, by decide, by rw [h0], by rw [h0]; exact tp _⟩

/-- **the Newton loop ends within `P + 9` rounds** with a non-failed state; the iterate it returns is — by the
stopping rule — within `3·10^(-2P)` of the root (on cubes) -/
theorem iter_fw {cc : Ctx} {P : ℕ} {ax : Dec} {a : ℤ} {r : ℝ} (S : Setup cc P ax a r) (maxIter : ℕ)
    (hmax : P + 9 < maxIter) :
    ∀ (fuel i : ℕ) (e : ED) (z : Dec) (l : LoopSt), P + 9 ≤ fuel + i → i ≤ P + 8 → l.i = i →
      (l.prevZ = z ∨ (i = 0 ∧ l.prevZ = {})) → EDg cc e → Inv P r i z →
      ∃ zf, cbrtIter cc ((P : ℤ) + 1) maxIter ax fuel e z l = some (.inr zf) ∧ Pos zf ∧
        ndigits zf.coeff ≤ P * 2 + 2 ∧
        (zf.toRat * (1 - 3 * ((10 : ℚ) ^ (-(P : ℤ))) ^ 2)) ^ 3 ≤ ax.toRat ∧
        ax.toRat ≤ (zf.toRat * (1 + 3 * ((10 : ℚ) ^ (-(P : ℤ))) ^ 2)) ^ 3 := by
  have hp4 : 4 ≤ P * 2 + 2 := by have := S.hP; omega
  have hp2' : P * 2 + 2 ≤ 100000 := by have := S.hp2; omega
  intro fuel
  induction fuel with
  | zero => intro i e z l h1 h2; omega
  | succ fuel ih =>
    intro i e z l hf hi hli hprev he hinv
    rw [cbrtIter_succ]
    obtain ⟨g, P5, n5, t1, t2, t3, t4, e1, e2, e3, e4, e5, b1, b2, b3, b4, b5, d1, d2, d3, d4, d5⟩ :=
      round_fw cc (P * 2 + 2) S.hw hp4 S.hp2 ax S.hax S.haxd a S.H1 S.H2 S.H3 S.H4 S.hX e z he hinv.pos hinv.nd
        (hinv.rng S)
    rw [eps_eq] at b1 b2 b3 b4 b5
    have hnear := round_near ax.toRat z.toRat t1 t2 t3 t4 _ e1 e2 e3 e4 e5 ((10 : ℚ) ^ (-(P : ℤ))) r S.hr S.hr3
      hinv.pos.toRat_pos (tp _) (ten_negP P S.hP) b1 b2 b3 b4 b5 d1 d2 d3 d4 d5 i hinv.err
    have hinv' : Inv P r (i + 1) (CbrtL.round ax e z).2 := ⟨P5, n5, hnear⟩
    rw [if_neg (by rw [g.not_failed S.hw.ht]; exact Bool.false_ne_true)]
    have hr' := hinv'.rng S
    -- the subtraction in `loop.done`
    have hpOK : l.prevZ.form = .finite ∧ -50000 ≤ l.prevZ.exp ∧ l.prevZ.exp ≤ 33335 ∧ 0 ≤ l.prevZ.toRat ∧
        l.prevZ.toRat < (10 : ℚ) ^ (a + 2) := by
      rcases hprev with h | ⟨-, h⟩
      · rw [h]; exact hinv.prevOK S
      · rw [h]; exact empty_prevOK a
    obtain ⟨q1, q2, q3, q4, q5⟩ := hpOK
    have F := sub_fw cc (P * 2 + 2) S.hw hp4 S.hp2 a S.H1 S.H2 l.prevZ _ q1 q2 q3 q4 q5 hinv'.pos hinv'.nd hr'
    -- a `done` answer makes the returned iterate close to the root, whatever the round
    have hclose : loopDone cc ((P : ℤ) + 1) maxIter l (CbrtL.round ax e z).2 = .done →
        (((CbrtL.round ax e z).2.toRat * (1 - 3 * ((10 : ℚ) ^ (-(P : ℤ))) ^ 2)) ^ 3 ≤ ax.toRat ∧
        ax.toRat ≤ ((CbrtL.round ax e z).2.toRat * (1 + 3 * ((10 : ℚ) ^ (-(P : ℤ))) ^ 2)) ^ 3) := by
      intro hd
      rcases hprev with h | ⟨-, h⟩
      · have hdc := done_core cc (P * 2 + 2) P S.hw (by ring) S.hP hp2' maxIter l _ q1 hinv'.pos hd
        rw [h] at hdc
        exact CbrtN.newton_stop_rat ax.toRat z.toRat t1 t2 t3 t4 _ e1 e2 e3 e4 e5 ((10 : ℚ) ^ (-(P : ℤ)))
          S.hax.toRat_pos hinv.pos.toRat_pos (tp _) (ten_negP P S.hP) b1 b2 b3 b4 b5 d1 d2 d3 d4 d5 hdc
      · exact absurd (done_first cc (P * 2 + 2) P S.hw (by ring) S.hP hp2' maxIter l _ h hinv'.pos hd) id
    by_cases hlast : i = P + 8
    · -- the stopping rule must fire
      have hpz : l.prevZ = z := by
        rcases hprev with h | ⟨h, -⟩
        · exact h
        · omega
      have hE1 : |(z.toRat : ℝ) / r - 1| ≤ Ebound (i - 7) (((10 : ℚ) ^ (-(P : ℤ)) : ℚ) : ℝ) := by
        have := hinv.err
        unfold Near at this
        rwa [if_neg (by omega)] at this
      have hE2 : |((CbrtL.round ax e z).2.toRat : ℝ) / r - 1| ≤
          Ebound (i - 7 + 1) (((10 : ℚ) ^ (-(P : ℤ)) : ℚ) : ℝ) := by
        have := hinv'.err
        unfold Near at this
        rw [if_neg (by omega)] at this
        rwa [show i + 1 - 7 = i - 7 + 1 by omega] at this
      have hsmall := stop_real z.toRat (CbrtL.round ax e z).2.toRat ((10 : ℚ) ^ (-(P : ℤ))) r S.hr P (i - 7) S.hP
        (by omega) rfl hE1 hE2
      have hd := loopDone_done cc (P * 2 + 2) P S.hw hp4 maxIter l _ hinv'.pos F (by rw [hpz]; exact hsmall)
      obtain ⟨c1, c2⟩ := hclose hd
      rw [hd]
      exact ⟨_, rfl, P5, n5, c1, c2⟩
    · rcases loopDone_shape cc ((P : ℤ) + 1) maxIter l (CbrtL.round ax e z).2 F.err with hd | hd
      · obtain ⟨c1, c2⟩ := hclose hd
        rw [hd]
        exact ⟨_, rfl, P5, n5, c1, c2⟩
      · rw [hd, hli]
        have hne : ¬ ((i + 1 == maxIter) = true) := by simp; omega
        rw [if_neg hne]
        exact ih (i + 1) _ _ _ (by omega) (by omega) rfl (Or.inl rfl) g hinv'

end Apd.CbrtC

#print axioms Apd.CbrtC.iter_fw
