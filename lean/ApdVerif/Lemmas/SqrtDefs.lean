import ApdVerif.Model.Trans
import ApdVerif.Spec.Defs
/-!
# Named parts of `sqrtOp` (Model/Trans.lean)

`sqrtOp` is one long `let` chain.  The proof that `Context.Sqrt` is correctly rounded is split into three
parts that meet at these names: the working context and the scaled operand, the Newton iterate
(`sqrtIter`), and everything after the loop (`sqrtTail`).  `sqrtOp_eq` says that they compose to
`sqrtOp` — by `rfl`, so nothing is re-modelled here.
-/
namespace Apd.SqrtD
open Apd Cond

/-- `workp` of `Context.Sqrt`: `max (Precision + 1) (digits of x) 7` -/
def workp (c : Ctx) (x : Dec) : Nat :=
  let nd := ndigits x.coeff
  let w := c.prec + 1
  let w := if w < nd then nd else w
  if w < 7 then 7 else w

/-- `nd + x.Exponent` -/
def e0 (x : Dec) : Int := (ndigits x.coeff : Int) + x.exp

def even (x : Dec) : Bool := Int.tmod (e0 x) 2 == 0

/-- the operand scaled into `[0.1, 1)` (even) or `[0.01, 0.1)` (odd) -/
def f (x : Dec) : Dec := { x with exp := if even x then -(ndigits x.coeff : Int) else -(ndigits x.coeff : Int) - 1 }

/-- the even exponent taken out: `x = f · 10^e` -/
def e (x : Dec) : Int := if even x then e0 x else e0 x + 1

/-- the working context of the iteration (its precision is overwritten in every round of the loop) -/
def nc (c : Ctx) (x : Dec) : Ctx :=
  { c with prec := workp c x, mode := .halfEven, emin := MinExponent, emax := MaxExponent }

def a0 (x : Dec) : Dec := if even x then { coeff := 819, exp := -3 } else { coeff := 259, exp := -2 }
def k0 (x : Dec) : Dec := if even x then { coeff := 259, exp := -3 } else { coeff := 819, exp := -4 }

/-- state and first guess after `ed.Mul(&approx, &approx, &f); ed.Add(&approx, &approx, k0)` -/
def init (c : Ctx) (x : Dec) : ED × Dec :=
  let ed : ED := { c := nc c x }
  let r1 := ed.step (a0 x) (fun cc => mulOp cc (a0 x) (f x))
  r1.1.step r1.2 (fun cc => addOp cc r1.2 (k0 x) false)

/-- state and iterate when the precision-doubling loop ends -/
def iter (c : Ctx) (x : Dec) : ED × Dec :=
  sqrtLoop 64 (init c x).1 (f x) (init c x).2 3 (workp c x + 5)

/-- everything `Context.Sqrt` does after the loop, given the iterate `approx` -/
def tail (c : Ctx) (x : Dec) (approx : Dec) : Out :=
  let d : Dec := { approx with exp := approx.exp + Int.tdiv (e x) 2 }
  let nc2 : Ctx := { c with prec := c.prec, mode := .halfEven }
  let ncw : Ctx := { nc2 with emax := MaxExponent }
  let r0 := ctxRound ncw d
  let r1 := if r0.2.inexact && r0.1.form == .finite then
             let st := sqrtSettle ncw r0.1 d x
             (st.1, r0.2 ||| st.2)
           else r0
  let r2 := ctxRound nc2 r1.1
  let r : Dec × Cond := (r2.1, r1.2 ||| r2.2)
  let res :=
    if !r.2.inexact && r.1.form == .finite then
      let sq : Dec := { coeff := r.1.coeff * r.1.coeff, exp := 2 * r.1.exp }
      if sq.cmp x != 0 then r.2 ||| cInexact ||| cRounded else r.2
    else r.2
  finish nc2 (r.1, res)

/-- `sqrtOp` is the composition of the named parts -/
theorem sqrtOp_eq (c : Ctx) (x : Dec) (h : rootSpecials c x 2 = none) :
    sqrtOp c x =
      if (iter c x).1.failed then failOut (iter c x).1.errOf else tail c x (iter c x).2 := by
  unfold sqrtOp
  rw [h]
  rfl

/-- one round of the loop, as a function of the state: precision `p'`, then Quo, Add, Mul -/
def round1 (ed : ED) (fx approx : Dec) (p' : Nat) : ED × Dec :=
  let ed := { ed with c := { ed.c with prec := p' } }
  let r1 := ed.step {} (fun cc => quoOp cc fx approx)
  let r2 := r1.1.step r1.2 (fun cc => addOp cc r1.2 approx false)
  r2.1.step approx (fun cc => mulOp cc r2.2 decHalf)

/-- the precision of the next round -/
def nextP (p maxp : Nat) : Nat := if 2 * p - 2 > maxp then maxp else 2 * p - 2

theorem sqrtLoop_succ (fuel : Nat) (ed : ED) (fx approx : Dec) (p maxp : Nat) :
    sqrtLoop (fuel + 1) ed fx approx p maxp =
      if p == maxp then (ed, approx)
      else sqrtLoop fuel (round1 ed fx approx (nextP p maxp)).1 fx (round1 ed fx approx (nextP p maxp)).2
             (nextP p maxp) maxp := by
  rfl

/-- the domain of the Sqrt theorems: a well-formed context without traps (a trapped condition inside the
iteration makes `Sqrt` return an error; what a nil error means under traps is C03), a positive finite
well-formed operand, and room for the working precision below the package's exponent limit -/
structure Dom (c : Ctx) (x : Dec) : Prop where
  hc : c.WF
  ht : c.traps = {}
  hx : x.form = .finite
  hn : x.neg = false
  h0 : x.coeff ≠ 0
  hw : x.WF
  hd : workp c x + 6 ≤ 100000

example : Dom { prec := 5, emax := 10, emin := -10 } { coeff := 2 } :=
  ⟨by decide, rfl, rfl, rfl, by decide, by decide, by decide⟩

end Apd.SqrtD
