import ApdVerif.Lemmas.ExpAccMath
/-!
# S2: one round of the perturbed Horner recurrence, and the invariants it preserves

One round of `Exp`'s stage 4 is `tmp = r/i`, `sum = tmp·sum`, `sum = sum + 1`, each rounded:
`ŝ_new = (1 + (r/i)(1+θ) ŝ)(1+δ)` with `1+θ = (1+δ₁)(1+δ₂)`.  With `u` the unit roundoff,
`|θ| ≤ θb` (`= 2u+u²`, or `u` when the quotient is exact), `|δ| ≤ u`.
-/
namespace Apd.ExpAcc

/-- the error of one round, before any knowledge about the sign of `r` -/
theorem horner_step_abs (r s' sh e θ δ i θb u : ℝ) (hi : 0 < i) (hu : 0 ≤ u) (hθb : 0 ≤ θb)
    (hθ : |θ| ≤ θb) (hδ : |δ| ≤ u) (he : |sh - s'| ≤ e) :
    |(1 + r / i * (1 + θ) * sh) * (1 + δ) - (1 + r / i * s')| ≤
      (1 + u) * (|r| / i * (1 + θb) * e + θb * |r / i * s'|) + u * |1 + r / i * s'| := by
  have e0 : 0 ≤ e := le_trans (abs_nonneg _) he
  have id : (1 + r / i * (1 + θ) * sh) * (1 + δ) - (1 + r / i * s') =
      (1 + δ) * (r / i * (1 + θ) * (sh - s') + θ * (r / i * s')) + δ * (1 + r / i * s') := by ring
  rw [id]
  have hA : |r / i * (1 + θ) * (sh - s')| ≤ |r| / i * (1 + θb) * e := by
    rw [abs_mul, abs_mul, abs_div, abs_of_pos hi]
    have h1 : |1 + θ| ≤ 1 + θb := by
      calc |1 + θ| ≤ |(1 : ℝ)| + |θ| := abs_add_le _ _
        _ ≤ 1 + θb := by rw [abs_one]; linarith
    have hq : 0 ≤ |r| / i := div_nonneg (abs_nonneg _) hi.le
    exact mul_le_mul (mul_le_mul_of_nonneg_left h1 hq) he (abs_nonneg _)
      (mul_nonneg hq (by linarith))
  have hB : |θ * (r / i * s')| ≤ θb * |r / i * s'| := by
    rw [abs_mul]; exact mul_le_mul_of_nonneg_right hθ (abs_nonneg _)
  have hC : |(1 + δ)| ≤ 1 + u := by
    calc |1 + δ| ≤ |(1 : ℝ)| + |δ| := abs_add_le _ _
      _ ≤ 1 + u := by rw [abs_one]; linarith
  have hsum : |r / i * (1 + θ) * (sh - s') + θ * (r / i * s')| ≤
      |r| / i * (1 + θb) * e + θb * |r / i * s'| :=
    le_trans (abs_add_le _ _) (add_le_add hA hB)
  have hnn : 0 ≤ |r| / i * (1 + θb) * e + θb * |r / i * s'| := by
    have hq : 0 ≤ |r| / i := div_nonneg (abs_nonneg _) hi.le
    have := abs_nonneg (r / i * s')
    positivity
  calc |(1 + δ) * (r / i * (1 + θ) * (sh - s') + θ * (r / i * s')) + δ * (1 + r / i * s')|
      ≤ |(1 + δ) * (r / i * (1 + θ) * (sh - s') + θ * (r / i * s'))| + |δ * (1 + r / i * s')| :=
        abs_add_le _ _
    _ ≤ (1 + u) * (|r| / i * (1 + θb) * e + θb * |r / i * s'|) + u * |1 + r / i * s'| := by
        rw [abs_mul, abs_mul]
        exact add_le_add (mul_le_mul hC hsum (abs_nonneg _) (by linarith))
          (mul_le_mul_of_nonneg_right hδ (abs_nonneg _))

/-- numerical facts about the amplification factors for `u ≤ 1/200` -/
theorem kappa_bound (u θb : ℝ) (hu : 0 ≤ u) (hu1 : u ≤ 1 / 200) (hθ0 : 0 ≤ θb) (hθb : θb ≤ 401 / 200 * u) :
    (1 + u) * (1 + θb) ≤ 10151 / 10000 ∧ (1 + u) * θb ≤ 2016 / 1000 * u := by
  constructor
  · have h1 : 1 + θb ≤ 1 + 401 / 200 * (1 / 200) := by linarith
    have h2 : (1 + u) * (1 + θb) ≤ (1 + 1 / 200) * (1 + 401 / 200 * (1 / 200)) :=
      mul_le_mul (by linarith) h1 (by linarith) (by norm_num)
    have : (1 + 1 / 200 : ℝ) * (1 + 401 / 200 * (1 / 200)) ≤ 10151 / 10000 := by norm_num
    linarith
  · have h2 : (1 + u) * θb ≤ (1 + 1 / 200) * (401 / 200 * u) :=
      mul_le_mul (by linarith) hθb hθ0 (by norm_num)
    have : (1 + 1 / 200 : ℝ) * (401 / 200 * u) ≤ 2016 / 1000 * u := by nlinarith
    linarith

/-- S2 (negative argument): the invariant `|ŝ - s| ≤ u (1 + 3.1 |r| / i)` is preserved by a round at
index `i ≥ 2` -/
theorem horner_inv_neg (r s' sh θ δ θb u : ℝ) (i : ℕ) (hi : 2 ≤ i) (hr0 : r ≤ 0) (hr1 : -1 ≤ r)
    (hu : 0 ≤ u) (hu1 : u ≤ 1 / 200) (hθ0 : u ≤ θb) (hθb : θb ≤ 401 / 200 * u)
    (hθ : |θ| ≤ θb) (hδ : |δ| ≤ u)
    (hs1 : 1 + r / ((i + 1 : ℕ) : ℝ) ≤ s') (hs2 : s' ≤ 1)
    (he : |sh - s'| ≤ u * (1 + 31 / 10 * (-r) / ((i + 1 : ℕ) : ℝ))) :
    |(1 + r / (i : ℝ) * (1 + θ) * sh) * (1 + δ) - (1 + r / (i : ℝ) * s')| ≤
      u * (1 + 31 / 10 * (-r) / (i : ℝ)) := by
  have hi' : (2 : ℝ) ≤ i := by exact_mod_cast hi
  have hipos : (0 : ℝ) < i := by linarith
  have hi1 : (3 : ℝ) ≤ ((i + 1 : ℕ) : ℝ) := by push_cast; linarith
  have hi1pos : (0 : ℝ) < ((i + 1 : ℕ) : ℝ) := by linarith
  have hθb0 : 0 ≤ θb := le_trans hu hθ0
  have step := horner_step_abs r s' sh _ θ δ (i : ℝ) θb u hipos hu hθb0 hθ hδ he
  obtain ⟨k1, k2⟩ := kappa_bound u θb hu hu1 hθb0 hθb
  -- notation
  set a : ℝ := -r with ha
  have ha0 : 0 ≤ a := by linarith
  have ha1 : a ≤ 1 := by linarith
  set q : ℝ := a / (i : ℝ) with hq
  have hq0 : 0 ≤ q := div_nonneg ha0 hipos.le
  have hq' : a / ((i + 1 : ℕ) : ℝ) ≤ 1 / 3 := by
    rw [div_le_iff₀ hi1pos]; linarith
  have hq'0 : 0 ≤ a / ((i + 1 : ℕ) : ℝ) := div_nonneg ha0 hi1pos.le
  have hs0 : 0 ≤ s' := by
    have : -(1 / 3) ≤ r / ((i + 1 : ℕ) : ℝ) := by
      have : r / ((i + 1 : ℕ) : ℝ) = -(a / ((i + 1 : ℕ) : ℝ)) := by rw [ha]; ring
      rw [this]; linarith
    linarith
  have eabs : |r| = a := by rw [abs_of_nonpos hr0]
  have em : r / (i : ℝ) * s' = -(q * s') := by rw [hq, ha]; ring
  have habs1 : |r / (i : ℝ) * s'| = q * s' := by
    rw [em, abs_neg, abs_of_nonneg (mul_nonneg hq0 hs0)]
  have hqs : q * s' ≤ 1 / 2 := by
    have hq2 : q ≤ 1 / 2 := by rw [hq, div_le_iff₀ hipos]; linarith
    calc q * s' ≤ q * 1 := mul_le_mul_of_nonneg_left hs2 hq0
      _ ≤ 1 / 2 := by linarith
  have habs2 : |1 + r / (i : ℝ) * s'| = 1 - q * s' := by
    rw [em, abs_of_nonneg (by linarith)]; ring
  rw [eabs, habs1, habs2] at step
  refine le_trans step ?_
  -- the bound, as a polynomial inequality
  set E : ℝ := u * (1 + 31 / 10 * a / ((i + 1 : ℕ) : ℝ)) with hE
  have hE1 : E ≤ u * (1 + 31 / 10 * (1 / 3)) := by
    rw [hE]
    apply mul_le_mul_of_nonneg_left _ hu
    have : 31 / 10 * a / ((i + 1 : ℕ) : ℝ) = 31 / 10 * (a / ((i + 1 : ℕ) : ℝ)) := by ring
    rw [this]; linarith
  have hE0 : 0 ≤ E := by rw [hE]; positivity
  -- first term
  have t1 : (1 + u) * (q * (1 + θb) * E) ≤ q * (10151 / 10000 * (u * (1 + 31 / 10 * (1 / 3)))) := by
    have : (1 + u) * (q * (1 + θb) * E) = q * (((1 + u) * (1 + θb)) * E) := by ring
    rw [this]
    apply mul_le_mul_of_nonneg_left _ hq0
    exact mul_le_mul k1 hE1 hE0 (by norm_num)
  -- second + third term
  have t2 : (1 + u) * (θb * (q * s')) + u * (1 - q * s') ≤ u + q * ((1 + u) * θb - u) := by
    have hc : 0 ≤ (1 + u) * θb - u := by nlinarith
    have : (1 + u) * (θb * (q * s')) + u * (1 - q * s') = u + (q * s') * ((1 + u) * θb - u) := by ring
    rw [this]
    have : q * s' * ((1 + u) * θb - u) ≤ q * 1 * ((1 + u) * θb - u) :=
      mul_le_mul_of_nonneg_right (mul_le_mul_of_nonneg_left hs2 hq0) hc
    linarith
  have t3 : q * ((1 + u) * θb - u) ≤ q * (2016 / 1000 * u - u) :=
    mul_le_mul_of_nonneg_left (by linarith) hq0
  have e1 : |a| / (i : ℝ) = q := by rw [abs_of_nonneg ha0]
  have expand : (1 + u) * (a / (i : ℝ) * (1 + θb) * E + θb * (q * s')) + u * (1 - q * s') =
      (1 + u) * (q * (1 + θb) * E) + ((1 + u) * (θb * (q * s')) + u * (1 - q * s')) := by
    rw [← hq]; ring
  rw [expand]
  have goal_eq : u * (1 + 31 / 10 * a / (i : ℝ)) = u + q * (31 / 10 * u) := by rw [hq]; ring
  rw [goal_eq]
  have fin : q * (10151 / 10000 * (u * (1 + 31 / 10 * (1 / 3)))) + q * (2016 / 1000 * u - u) ≤ q * (31 / 10 * u) := by
    have : 10151 / 10000 * (u * (1 + 31 / 10 * (1 / 3))) + (2016 / 1000 * u - u) ≤ 31 / 10 * u := by
      nlinarith
    calc q * (10151 / 10000 * (u * (1 + 31 / 10 * (1 / 3)))) + q * (2016 / 1000 * u - u)
        = q * (10151 / 10000 * (u * (1 + 31 / 10 * (1 / 3))) + (2016 / 1000 * u - u)) := by ring
      _ ≤ q * (31 / 10 * u) := mul_le_mul_of_nonneg_left this hq0
  linarith

/-- S2 (positive argument): the invariant `|ŝ - s| ≤ u (1 + 10 r / i)` is preserved by a round at
index `i ≥ 2` -/
theorem horner_inv_pos (r s' sh θ δ θb u : ℝ) (i : ℕ) (hi : 2 ≤ i) (hr0 : 0 ≤ r) (hr1 : r ≤ 1)
    (hu : 0 ≤ u) (hu1 : u ≤ 1 / 200) (hθ0 : 0 ≤ θb) (hθb : θb ≤ 401 / 200 * u)
    (hθ : |θ| ≤ θb) (hδ : |δ| ≤ u)
    (hs1 : 1 ≤ s') (hs2 : s' ≤ 1 + 2 * r / ((i + 1 : ℕ) : ℝ))
    (he : |sh - s'| ≤ u * (1 + 10 * r / ((i + 1 : ℕ) : ℝ))) :
    |(1 + r / (i : ℝ) * (1 + θ) * sh) * (1 + δ) - (1 + r / (i : ℝ) * s')| ≤
      u * (1 + 10 * r / (i : ℝ)) := by
  have hi' : (2 : ℝ) ≤ i := by exact_mod_cast hi
  have hipos : (0 : ℝ) < i := by linarith
  have hi1 : (3 : ℝ) ≤ ((i + 1 : ℕ) : ℝ) := by push_cast; linarith
  have hi1pos : (0 : ℝ) < ((i + 1 : ℕ) : ℝ) := by linarith
  have step := horner_step_abs r s' sh _ θ δ (i : ℝ) θb u hipos hu hθ0 hθ hδ he
  obtain ⟨k1, k2⟩ := kappa_bound u θb hu hu1 hθ0 hθb
  set q : ℝ := r / (i : ℝ) with hq
  have hq0 : 0 ≤ q := div_nonneg hr0 hipos.le
  have hq' : r / ((i + 1 : ℕ) : ℝ) ≤ 1 / 3 := by
    rw [div_le_iff₀ hi1pos]; linarith
  have hs3 : s' ≤ 5 / 3 := by
    have : 2 * r / ((i + 1 : ℕ) : ℝ) = 2 * (r / ((i + 1 : ℕ) : ℝ)) := by ring
    rw [this] at hs2; linarith
  have hs0 : 0 ≤ s' := by linarith
  have eabs : |r| / (i : ℝ) = q := by rw [abs_of_nonneg hr0]
  have habs1 : |q * s'| = q * s' := abs_of_nonneg (mul_nonneg hq0 hs0)
  have habs2 : |1 + q * s'| = 1 + q * s' := abs_of_nonneg (by have := mul_nonneg hq0 hs0; linarith)
  rw [eabs, habs1, habs2] at step
  refine le_trans step ?_
  set E : ℝ := u * (1 + 10 * r / ((i + 1 : ℕ) : ℝ)) with hE
  have hE1 : E ≤ u * (1 + 10 * (1 / 3)) := by
    rw [hE]
    apply mul_le_mul_of_nonneg_left _ hu
    have : 10 * r / ((i + 1 : ℕ) : ℝ) = 10 * (r / ((i + 1 : ℕ) : ℝ)) := by ring
    rw [this]; linarith
  have hE0 : 0 ≤ E := by rw [hE]; positivity
  have t1 : (1 + u) * (q * (1 + θb) * E) ≤ q * (10151 / 10000 * (u * (1 + 10 * (1 / 3)))) := by
    have : (1 + u) * (q * (1 + θb) * E) = q * (((1 + u) * (1 + θb)) * E) := by ring
    rw [this]
    apply mul_le_mul_of_nonneg_left _ hq0
    exact mul_le_mul k1 hE1 hE0 (by norm_num)
  have t2 : (1 + u) * (θb * (q * s')) + u * (1 + q * s') ≤ u + q * (5 / 3 * (2016 / 1000 * u + u)) := by
    have hc : 0 ≤ (1 + u) * θb + u := by positivity
    have : (1 + u) * (θb * (q * s')) + u * (1 + q * s') = u + q * (s' * ((1 + u) * θb + u)) := by ring
    rw [this]
    have h1 : s' * ((1 + u) * θb + u) ≤ 5 / 3 * (2016 / 1000 * u + u) :=
      mul_le_mul hs3 (by linarith) hc (by norm_num)
    have := mul_le_mul_of_nonneg_left h1 hq0
    linarith
  have expand : (1 + u) * (q * (1 + θb) * E + θb * (q * s')) + u * (1 + q * s') =
      (1 + u) * (q * (1 + θb) * E) + ((1 + u) * (θb * (q * s')) + u * (1 + q * s')) := by ring
  rw [expand]
  have goal_eq : u * (1 + 10 * r / (i : ℝ)) = u + q * (10 * u) := by rw [hq]; ring
  rw [goal_eq]
  have fin : q * (10151 / 10000 * (u * (1 + 10 * (1 / 3)))) + q * (5 / 3 * (2016 / 1000 * u + u)) ≤ q * (10 * u) := by
    have : 10151 / 10000 * (u * (1 + 10 * (1 / 3))) + 5 / 3 * (2016 / 1000 * u + u) ≤ 10 * u := by
      nlinarith
    calc q * (10151 / 10000 * (u * (1 + 10 * (1 / 3)))) + q * (5 / 3 * (2016 / 1000 * u + u))
        = q * (10151 / 10000 * (u * (1 + 10 * (1 / 3))) + 5 / 3 * (2016 / 1000 * u + u)) := by ring
      _ ≤ q * (10 * u) := mul_le_mul_of_nonneg_left this hq0
  linarith

/-- the last round (`i = 1`, where the quotient `r/1` is exact, so `|θ| ≤ u`), negative argument -/
theorem horner_fin_neg (r s' sh θ δ u : ℝ) (hr0 : r ≤ 0) (hr1 : -1 ≤ r)
    (hu : 0 ≤ u) (hu1 : u ≤ 1 / 200) (hθ : |θ| ≤ u) (hδ : |δ| ≤ u)
    (hs1 : 1 + r / 2 ≤ s') (hs2 : s' ≤ 1)
    (he : |sh - s'| ≤ u * (1 + 31 / 10 * (-r) / 2)) :
    |(1 + r * (1 + θ) * sh) * (1 + δ) - (1 + r * s')| ≤
      u * (1 + 10151 / 10000 * (-r) + 15656 / 10000 * (-r) ^ 2) := by
  have step := horner_step_abs r s' sh _ θ δ 1 u u one_pos hu hu hθ hδ he
  simp only [div_one] at step
  set a : ℝ := -r with ha
  have ha0 : 0 ≤ a := by linarith
  have ha1 : a ≤ 1 := by linarith
  have hs0 : 0 ≤ s' := by linarith
  have eabs : |r| = a := by rw [abs_of_nonpos hr0]
  have em : r * s' = -(a * s') := by rw [ha]; ring
  have has : a * s' ≤ 1 := by nlinarith
  have habs1 : |r * s'| = a * s' := by rw [em, abs_neg, abs_of_nonneg (mul_nonneg ha0 hs0)]
  have habs2 : |1 + r * s'| = 1 - a * s' := by rw [em, abs_of_nonneg (by linarith)]; ring
  rw [eabs, habs1, habs2] at step
  refine le_trans step ?_
  set E : ℝ := u * (1 + 31 / 10 * a / 2) with hE
  have hE0 : 0 ≤ E := by rw [hE]; positivity
  -- (1+u)^2 a E + a s' u^2 + u
  have id : (1 + u) * (a * (1 + u) * E + u * (a * s')) + u * (1 - a * s') =
      (1 + u) ^ 2 * (a * E) + (a * s') * u ^ 2 + u := by ring
  rw [id]
  have k : (1 + u) ^ 2 ≤ 1010025 / 1000000 := by nlinarith
  have t1 : (1 + u) ^ 2 * (a * E) ≤ 1010025 / 1000000 * (a * E) :=
    mul_le_mul_of_nonneg_right k (mul_nonneg ha0 hE0)
  have t2 : a * s' * u ^ 2 ≤ a * (1 / 200 * u) := by
    have h1 : a * s' ≤ a := by nlinarith
    have h2 : u ^ 2 ≤ 1 / 200 * u := by nlinarith
    calc a * s' * u ^ 2 ≤ a * u ^ 2 := mul_le_mul_of_nonneg_right h1 (by positivity)
      _ ≤ a * (1 / 200 * u) := mul_le_mul_of_nonneg_left h2 ha0
  have fin : 1010025 / 1000000 * (a * E) + a * (1 / 200 * u) + u ≤
      u * (1 + 10151 / 10000 * a + 15656 / 10000 * a ^ 2) := by
    rw [hE]
    have h3 : 0 ≤ u * a := mul_nonneg hu ha0
    have h4 : 0 ≤ u * a ^ 2 := by positivity
    nlinarith
  linarith

/-- the last round (`i = 1`), positive argument -/
theorem horner_fin_pos (r s' sh θ δ u : ℝ) (hr0 : 0 ≤ r) (hr1 : r ≤ 1)
    (hu : 0 ≤ u) (hu1 : u ≤ 1 / 200) (hθ : |θ| ≤ u) (hδ : |δ| ≤ u)
    (hs1 : 1 ≤ s') (hs2 : s' ≤ 1 + r)
    (he : |sh - s'| ≤ u * (1 + 10 * r / 2)) :
    |(1 + r * (1 + θ) * sh) * (1 + δ) - (1 + r * s')| ≤
      u * (1 + 30151 / 10000 * r + 70552 / 10000 * r ^ 2) := by
  have step := horner_step_abs r s' sh _ θ δ 1 u u one_pos hu hu hθ hδ he
  simp only [div_one] at step
  have hs0 : 0 ≤ s' := by linarith
  have eabs : |r| = r := abs_of_nonneg hr0
  have habs1 : |r * s'| = r * s' := abs_of_nonneg (mul_nonneg hr0 hs0)
  have habs2 : |1 + r * s'| = 1 + r * s' := abs_of_nonneg (by have := mul_nonneg hr0 hs0; linarith)
  rw [eabs, habs1, habs2] at step
  refine le_trans step ?_
  set E : ℝ := u * (1 + 10 * r / 2) with hE
  have hE0 : 0 ≤ E := by rw [hE]; positivity
  have id : (1 + u) * (r * (1 + u) * E + u * (r * s')) + u * (1 + r * s') =
      (1 + u) ^ 2 * (r * E) + (r * s') * (u * (1 + u) + u) + u := by ring
  rw [id]
  have k : (1 + u) ^ 2 ≤ 1010025 / 1000000 := by nlinarith
  have t1 : (1 + u) ^ 2 * (r * E) ≤ 1010025 / 1000000 * (r * E) :=
    mul_le_mul_of_nonneg_right k (mul_nonneg hr0 hE0)
  have t2 : r * s' * (u * (1 + u) + u) ≤ r * (1 + r) * (2005 / 1000 * u) := by
    have h1 : r * s' ≤ r * (1 + r) := mul_le_mul_of_nonneg_left hs2 hr0
    have h2 : u * (1 + u) + u ≤ 2005 / 1000 * u := by nlinarith
    exact mul_le_mul h1 h2 (by positivity) (by positivity)
  have fin : 1010025 / 1000000 * (r * E) + r * (1 + r) * (2005 / 1000 * u) + u ≤
      u * (1 + 30151 / 10000 * r + 70552 / 10000 * r ^ 2) := by
    rw [hE]
    have h3 : 0 ≤ u * r := mul_nonneg hu hr0
    have h4 : 0 ≤ u * r ^ 2 := by positivity
    nlinarith
  linarith

/-! ## the two invariants in one statement -/

/-- bound on the accumulated relative perturbation of quotient and product: `u` when the quotient is
exact (`i = 0`, division by one), `2u + u²` otherwise -/
noncomputable def thetaB (u : ℝ) (i : Nat) : ℝ := if i = 0 then u else 2 * u + u ^ 2

/-- the loop invariant: distance of the running sum from the exact partial sum before the round at index `j-1` -/
noncomputable def HB (ρ u : ℝ) (j : ℕ) : ℝ :=
  if ρ ≤ 0 then u * (1 + 31 / 10 * (-ρ) / (j : ℝ)) else u * (1 + 10 * ρ / (j : ℝ))

/-- the distance after the last round -/
noncomputable def HF (ρ u : ℝ) : ℝ :=
  if ρ ≤ 0 then u * (1 + 10151 / 10000 * (-ρ) + 15656 / 10000 * (-ρ) ^ 2)
  else u * (1 + 30151 / 10000 * ρ + 70552 / 10000 * ρ ^ 2)

theorem HB_bounds (ρ u : ℝ) (j : ℕ) (hρ : |ρ| ≤ 1) (hu : 0 ≤ u) (hj : 2 ≤ j) :
    0 ≤ HB ρ u j ∧ HB ρ u j ≤ 6 * u := by
  obtain ⟨h1, h2⟩ := abs_le.1 hρ
  have hj' : (2 : ℝ) ≤ j := by exact_mod_cast hj
  have hjpos : (0 : ℝ) < j := by linarith
  unfold HB
  split_ifs with h
  · have e : 31 / 10 * (-ρ) / (j : ℝ) = 31 / 10 * ((-ρ) / (j : ℝ)) := by ring
    have q0 : 0 ≤ (-ρ) / (j : ℝ) := div_nonneg (by linarith) hjpos.le
    have q1 : (-ρ) / (j : ℝ) ≤ 1 / 2 := by rw [div_le_iff₀ hjpos]; linarith
    rw [e]
    constructor
    · apply mul_nonneg hu; linarith
    · nlinarith
  · have hρ0 : 0 ≤ ρ := by linarith
    have e : 10 * ρ / (j : ℝ) = 10 * (ρ / (j : ℝ)) := by ring
    have q0 : 0 ≤ ρ / (j : ℝ) := div_nonneg hρ0 hjpos.le
    have q1 : ρ / (j : ℝ) ≤ 1 / 2 := by rw [div_le_iff₀ hjpos]; linarith
    rw [e]
    constructor
    · apply mul_nonneg hu; linarith
    · nlinarith

theorem HF_bounds (ρ u : ℝ) (hρ : |ρ| ≤ 1) (hu : 0 ≤ u) : 0 ≤ HF ρ u ∧ HF ρ u ≤ 12 * u := by
  obtain ⟨h1, h2⟩ := abs_le.1 hρ
  unfold HF
  split_ifs with h
  · have a0 : 0 ≤ -ρ := by linarith
    have a2 : (-ρ) ^ 2 ≤ 1 := by nlinarith
    have a3 : 0 ≤ (-ρ) ^ 2 := sq_nonneg _
    constructor
    · apply mul_nonneg hu; nlinarith
    · nlinarith
  · have hρ0 : 0 ≤ ρ := by linarith
    have a2 : ρ ^ 2 ≤ 1 := by nlinarith
    have a3 : 0 ≤ ρ ^ 2 := sq_nonneg _
    constructor
    · apply mul_nonneg hu; nlinarith
    · nlinarith

theorem thetaB_bounds (u : ℝ) (i : ℕ) (hu : 0 ≤ u) (hu1 : u ≤ 1 / 200) :
    u ≤ thetaB u i ∧ thetaB u i ≤ 401 / 200 * u := by
  unfold thetaB
  split_ifs
  · constructor <;> nlinarith
  · constructor <;> nlinarith

/-- partial sums at an index `j ≥ 2` stay in `[1/2, 2]` -/
theorem hornerT_range (ρ : ℝ) (hρ : |ρ| ≤ 1) (j m : ℕ) (hj : 2 ≤ j) :
    1 / 2 ≤ hornerT ρ j m ∧ hornerT ρ j m ≤ 2 := by
  obtain ⟨h1, h2⟩ := abs_le.1 hρ
  have hj' : (2 : ℝ) ≤ j := by exact_mod_cast hj
  have hjpos : (0 : ℝ) < j := by linarith
  by_cases h : ρ ≤ 0
  · obtain ⟨b1, b2⟩ := hornerT_bounds_neg ρ h h1 m j (by omega)
    have : -(1 / 2) ≤ ρ / (j : ℝ) := by rw [le_div_iff₀ hjpos]; linarith
    constructor <;> linarith
  · have hρ0 : 0 ≤ ρ := by linarith
    obtain ⟨b1, b2⟩ := hornerT_bounds_pos ρ hρ0 h2 m j (by omega)
    have : 2 * ρ / (j : ℝ) ≤ 1 := by rw [div_le_iff₀ hjpos]; linarith
    constructor <;> linarith

/-- S2. One round of the perturbed Horner loop at index `i+1` maps the invariant `HB (i+2)` to `HB (i+1)`
(to the final bound `HF` for the last round `i = 0`), for an argument of either sign. -/
theorem horner_round (ρ u sh θ δ : ℝ) (i m : ℕ) (hρ : |ρ| ≤ 1) (hu : 0 ≤ u) (hu1 : u ≤ 1 / 200)
    (he : |sh - hornerT ρ (i + 2) m| ≤ HB ρ u (i + 2))
    (hθ : |θ| ≤ thetaB u i) (hδ : |δ| ≤ u) :
    |(1 + ρ / ((i + 1 : ℕ) : ℝ) * (1 + θ) * sh) * (1 + δ) - hornerT ρ (i + 1) (m + 1)| ≤
      (if i = 0 then HF ρ u else HB ρ u (i + 1)) := by
  obtain ⟨h1, h2⟩ := abs_le.1 hρ
  rw [hornerT_succ]
  obtain ⟨tb1, tb2⟩ := thetaB_bounds u i hu hu1
  by_cases hneg : ρ ≤ 0
  · obtain ⟨b1, b2⟩ := hornerT_bounds_neg ρ hneg h1 m (i + 2) (by omega)
    have he' : |sh - hornerT ρ (i + 2) m| ≤ u * (1 + 31 / 10 * (-ρ) / ((i + 2 : ℕ) : ℝ)) := by
      have := he; unfold HB at this; rwa [if_pos hneg] at this
    by_cases hi0 : i = 0
    · subst hi0
      rw [if_pos rfl]
      unfold HF; rw [if_pos hneg]
      have hθ' : |θ| ≤ u := by simpa [thetaB] using hθ
      have c2 : ((0 + 2 : ℕ) : ℝ) = 2 := by norm_num
      rw [c2] at b1 he'
      have := horner_fin_neg ρ (hornerT ρ (0 + 2) m) sh θ δ u hneg h1 hu hu1 hθ' hδ b1 b2 he'
      simpa using this
    · rw [if_neg hi0]
      unfold HB; rw [if_pos hneg]
      exact horner_inv_neg ρ (hornerT ρ (i + 2) m) sh θ δ (thetaB u i) u (i + 1) (by omega) hneg h1 hu hu1
        tb1 tb2 hθ hδ b1 b2 he'
  · have hρ0 : 0 ≤ ρ := by linarith
    obtain ⟨b1, b2⟩ := hornerT_bounds_pos ρ hρ0 h2 m (i + 2) (by omega)
    have he' : |sh - hornerT ρ (i + 2) m| ≤ u * (1 + 10 * ρ / ((i + 2 : ℕ) : ℝ)) := by
      have := he; unfold HB at this; rwa [if_neg hneg] at this
    by_cases hi0 : i = 0
    · subst hi0
      rw [if_pos rfl]
      unfold HF; rw [if_neg hneg]
      have hθ' : |θ| ≤ u := by simpa [thetaB] using hθ
      have c2 : ((0 + 2 : ℕ) : ℝ) = 2 := by norm_num
      rw [c2] at b2 he'
      have b2' : hornerT ρ (0 + 2) m ≤ 1 + ρ := by linarith
      have := horner_fin_pos ρ (hornerT ρ (0 + 2) m) sh θ δ u hρ0 h2 hu hu1 hθ' hδ b1 b2' he'
      simpa using this
    · rw [if_neg hi0]
      unfold HB; rw [if_neg hneg]
      exact horner_inv_pos ρ (hornerT ρ (i + 2) m) sh θ δ (thetaB u i) u (i + 1) (by omega) hρ0 h2 hu hu1
        (le_trans hu tb1) tb2 hθ hδ b1 b2 he'

end Apd.ExpAcc
