import ApdVerif.Model.Trans
import ApdVerif.Oracle.Roots
import ApdVerif.Lemmas.SqrtIterLemmas
import ApdVerif.Lemmas.C11SqrtLemmas
import ApdVerif.Lemmas.C15Lemmas
import ApdVerif.Lemmas.CbrtNewton
import ApdVerif.Props.Rational
import ApdVerif.Props.RoundCore
import ApdVerif.Props.Mul
import ApdVerif.Props.Quo
import Mathlib.Tactic.Ring
import Mathlib.Tactic.Linarith
import Mathlib.Tactic.NormNum
import Mathlib.Tactic.Positivity
import Mathlib.Tactic.SplitIfs
import Mathlib.Tactic.FieldSimp
/-!
# `Context.Cbrt`: the model side

Going BACKWARDS from `cbrtOp c x = some o`, `o.err = .none`: nothing failed, hence every internal operation
returned the exact value rounded once at `2·Precision+2` digits in the normal range (all relevant conditions are
trapped in the working context), every iterate is a positive finite decimal, the stopping rule held for the last
two iterates — which is all `Lemmas/CbrtNewton.lean` needs.
-/
set_option linter.unusedVariables false

namespace Apd.CbrtL
open Apd Apd.Oracle Apd.RatSpec Apd.C20L Apd.SqrtL Cond

/-! ## the trapped conditions -/

theorem goError_default (fl : Cond) (h : goError defaultTraps fl = .none) :
    NoSys fl ∧ fl.overflow = false ∧ fl.underflow = false ∧ fl.subnormal = false ∧
    fl.divUndefined = false ∧ fl.divByZero = false ∧ fl.divImpossible = false ∧ fl.invalidOp = false := by
  obtain ⟨a1, a2, a3, a4, a5, a6, a7, a8, a9, a10, a11, a12⟩ := fl
  unfold goError at h
  simp only [NoSys]
  cases a1 <;> cases a2 <;> simp at h ⊢
  simp only [HAnd.hAnd, AndOp.and, Cond.and, Cond.any, defaultTraps] at h
  cases a3 <;> cases a4 <;> cases a6 <;> cases a8 <;> cases a9 <;> cases a10 <;> cases a11 <;> simp at h ⊢

/-- the working context of `Cbrt` (precision `p`) and of its exactness re-check -/
structure NCtx (cc : Ctx) (p : Nat) : Prop where
  hp : cc.prec = p
  hm : cc.mode = .halfUp
  hemin : cc.emin = -100000
  hemax : cc.emax = 100000
  ht : cc.traps = defaultTraps

theorem NCtx.wf {cc : Ctx} {p : Nat} (h : NCtx cc p) (h1 : 1 ≤ p) (h2 : p ≤ 100000) : cc.WF := by
  unfold Ctx.WF
  rw [h.hp, h.hemin, h.hemax]
  omega

/-! ## from `Agrees` to a relative error bound, any sign -/

theorem agrees_rel (cc : Ctx) (p : Nat) (hp : cc.prec = p) (hp1 : 1 ≤ p)
    (hm : cc.mode = .halfUp ∨ cc.mode = .halfDown ∨ cc.mode = .halfEven)
    (ex : Exact) (hd : 0 < ex.den) (d : Dec) (fl : Cond) (hA : Agrees cc ex d fl)
    (hsub : fl.subnormal = false) (hov : fl.overflow = false) :
    d.form = .finite ∧ ndigits d.coeff ≤ p ∧
    |d.toRat - ex.toRat| ≤ 5 * (10 : ℚ) ^ (-(p : ℤ)) * |ex.toRat| ∧
    (0 < ex.num → d.neg = ex.neg ∧ 0 < d.coeff) := by
  have hform : d.form = .finite := by
    cases hf : d.form with
    | finite => rfl
    | infinite =>
      exfalso
      obtain ⟨hinf, -⟩ := (Rat_matches_infinite _ d hf).1 hA.1
      have := hA.2.1.2.2.2.1
      rw [Rat_specRound_overflow_flag, hinf, hov] at this
      exact Bool.noConfusion this
    | nan =>
      exfalso
      have := Rat_matches_nan (specRound cc ex) d (by rw [hf]; decide) (by rw [hf]; decide)
      rw [hA.1] at this; exact Bool.noConfusion this
    | nanSignaling =>
      exfalso
      have := Rat_matches_nan (specRound cc ex) d (by rw [hf]; decide) (by rw [hf]; decide)
      rw [hA.1] at this; exact Bool.noConfusion this
  have hnd : ndigits d.coeff ≤ p := by
    have hfit := hA.2.2
    unfold fits at hfit
    rw [hform] at hfit
    simp only [Bool.and_eq_true, Bool.or_eq_true, beq_iff_eq, decide_eq_true_eq] at hfit
    rw [hp] at hfit
    rcases hfit.1.1 with h | h
    · omega
    · exact_mod_cast h
  refine ⟨hform, hnd, ?_⟩
  rcases Nat.eq_zero_or_pos ex.num with hn0 | hn
  · -- exact zero
    obtain ⟨z1, z2, z3, -⟩ := Rat_specRound_zero cc ex hn0
    have hv := Rat_matches_toRat _ d hform hA.1
    have h0 : ex.toRat = 0 := by unfold Exact.toRat; rw [hn0]; simp
    have h1 : d.toRat = 0 := by rw [hv]; unfold SpecOut.toRat; rw [z2]; simp
    rw [h0, h1]
    refine ⟨by simp, fun h => ?_⟩
    omega
  · have ha := mag_isAdj ex hn hd
    generalize adjRat ex.num ex.den + ex.e10 = a at ha
    obtain ⟨a1, a2⟩ := ha
    have hmagpos : 0 < ex.mag := lt_of_lt_of_le (tp _) a1
    have hnsub : ¬ ex.mag < (10 : ℚ) ^ cc.emin := by
      intro h
      have := (Rat_specRound_subnormal cc ex hn hd).2 h
      rw [← hA.2.1.2.1, hsub] at this
      exact Bool.noConfusion this
    have alo : cc.emin ≤ a := by
      have h1 : (10 : ℚ) ^ cc.emin ≤ ex.mag := not_lt.1 hnsub
      have := lt_of_le_of_lt h1 a2
      rw [zpow_lt_zpow_iff_right₀ ten_gt] at this
      omega
    have hq : quantum cc a = a - (p : ℤ) + 1 := by
      unfold quantum; rw [hp]; omega
    have herr : |roundedMag cc ex.neg ex.mag a - ex.mag| ≤ 5 * (10 : ℚ) ^ (-(p : ℤ)) * ex.mag := by
      unfold roundedMag
      rw [hq]
      have hQ := tp (a - (p : ℤ) + 1)
      have hn' := Rat_roundInt_half_nearest cc.mode hm ex.neg (ex.mag / (10 : ℚ) ^ (a - (p : ℤ) + 1))
      have e : ((roundInt cc.mode ex.neg (ex.mag / (10 : ℚ) ^ (a - (p : ℤ) + 1)) : ℤ) : ℚ) *
          (10 : ℚ) ^ (a - (p : ℤ) + 1) - ex.mag =
          (((roundInt cc.mode ex.neg (ex.mag / (10 : ℚ) ^ (a - (p : ℤ) + 1)) : ℤ) : ℚ) -
            ex.mag / (10 : ℚ) ^ (a - (p : ℤ) + 1)) * (10 : ℚ) ^ (a - (p : ℤ) + 1) := by
        field_simp
      rw [e, abs_mul, abs_of_pos hQ]
      have e2 : (10 : ℚ) ^ (a - (p : ℤ) + 1) = 10 * (10 : ℚ) ^ (-(p : ℤ)) * (10 : ℚ) ^ a := by
        rw [show a - (p : ℤ) + 1 = 1 + (-(p : ℤ)) + a by ring, zpow_add₀ ten_ne, zpow_add₀ ten_ne]
        simp
      have hP := tp (-(p : ℤ))
      calc _ ≤ (1 / 2) * (10 : ℚ) ^ (a - (p : ℤ) + 1) := mul_le_mul_of_nonneg_right hn' hQ.le
        _ = 5 * (10 : ℚ) ^ (-(p : ℤ)) * (10 : ℚ) ^ a := by rw [e2]; ring
        _ ≤ 5 * (10 : ℚ) ^ (-(p : ℤ)) * ex.mag := by
            apply mul_le_mul_of_nonneg_left a1; positivity
    have hP1 : (10 : ℚ) ^ (-(p : ℤ)) ≤ (10 : ℚ) ^ (-1 : ℤ) :=
      zpow_le_zpow_right₀ ten_gt.le (by omega)
    have hP1' : (10 : ℚ) ^ (-1 : ℤ) = 1 / 10 := by norm_num
    have hrm := abs_le.1 herr
    have hhalf : 5 * (10 : ℚ) ^ (-(p : ℤ)) * ex.mag ≤ (1 / 2) * ex.mag := by
      apply mul_le_mul_of_nonneg_right _ hmagpos.le
      rw [hP1'] at hP1; linarith
    obtain ⟨hval, -, -, -⟩ := Rat_agrees_finite cc ex d fl hn hd ⟨a1, a2⟩ hA hform
    have hdneg : d.neg = ex.neg := by
      obtain ⟨-, h2, -⟩ := (Rat_matches_iff _ d hform).1 hA.1
      rw [h2, Rat_specRound_neg]
    have hrpos : 0 < roundedMag cc ex.neg ex.mag a := by linarith [hrm.1]
    have hcoeff : 0 < d.coeff := by
      rcases Nat.eq_zero_or_pos d.coeff with h0 | h0
      · exfalso
        have : d.toRat = 0 := by unfold Dec.toRat; rw [h0]; simp
        rw [this] at hval
        generalize roundedMag cc ex.neg ex.mag a = R at hval hrpos
        cases hb : ex.neg <;> simp [hb] at hval <;> linarith
      · exact h0
    refine ⟨?_, fun _ => ⟨hdneg, hcoeff⟩⟩
    rw [Exact.abs_toRat, hval, Exact.toRat_eq]
    have e3 : (if ex.neg then (-1 : ℚ) else 1) * roundedMag cc ex.neg ex.mag a - (if ex.neg then (-1 : ℚ) else 1) * ex.mag =
        (if ex.neg then (-1 : ℚ) else 1) * (roundedMag cc ex.neg ex.mag a - ex.mag) := by ring
    rw [e3, abs_mul]
    have : |(if ex.neg then (-1 : ℚ) else 1)| = 1 := by cases ex.neg <;> simp
    rw [this, one_mul]
    exact herr


/-! ## one operation under the working context -/

/-- what a non-failed operation delivers: a finite decimal of at most `p` digits within relative error
`5·10^(-p)` of the exact value `v` (any sign), positive when `v` is -/
structure OpR (p : Nat) (v : ℚ) (d : Dec) : Prop where
  fin : d.form = .finite
  nd : ndigits d.coeff ≤ p
  val : |d.toRat - v| ≤ 5 * (10 : ℚ) ^ (-(p : ℤ)) * |v|
  pos : 0 < v → Pos d

theorem ex_pos (ex : Exact) (hd : 0 < ex.den) (h : 0 < ex.toRat) : 0 < ex.num ∧ ex.neg = false := by
  have hn : 0 < ex.num := by
    rcases Nat.eq_zero_or_pos ex.num with h0 | h0
    · exfalso; unfold Exact.toRat at h; rw [h0] at h; simp at h
    · exact h0
  refine ⟨hn, ?_⟩
  cases hb : ex.neg
  · rfl
  · exfalso
    have := (Exact.toRat_neg_iff ex hn hd).2 hb
    linarith

theorem opR_of_agrees (cc : Ctx) (p : Nat) (hw : NCtx cc p) (hp1 : 1 ≤ p)
    (ex : Exact) (hd : 0 < ex.den) (o : Out) (hA : Agrees cc ex o.d o.fl)
    (hfl : goError defaultTraps o.fl = .none) (v : ℚ) (hv : ex.toRat = v) : OpR p v o.d := by
  obtain ⟨-, f2, -, f4, -⟩ := goError_default _ hfl
  obtain ⟨r1, r2, r3, r4⟩ := agrees_rel cc p hw.hp hp1 (Or.inl hw.hm) ex hd _ _ hA f4 f2
  rw [hv] at r3
  refine ⟨r1, r2, r3, fun h => ?_⟩
  rw [← hv] at h
  obtain ⟨hn, hneg⟩ := ex_pos ex hd h
  obtain ⟨n1, n2⟩ := r4 hn
  exact ⟨r1, by rw [n1, hneg], n2⟩

theorem mul_rel (cc : Ctx) (p : Nat) (hw : NCtx cc p) (hp1 : 1 ≤ p) (hp2 : p ≤ 100000)
    (x y : Dec) (hx : x.form = .finite) (hy : y.form = .finite) (he : (mulOp cc x y).err = .none) :
    OpR p (x.toRat * y.toRat) (mulOp cc x y).d := by
  have hc := hw.wf hp1 hp2
  have herr : (mulOp cc x y).err = goError cc.traps (mulOp cc x y).fl := by
    rw [Props.mulOp_finite cc x y hx hy]; rfl
  rw [he, hw.ht] at herr
  have hA := Props.C01_mul cc hc x y hx hy (Or.inl he)
  exact opR_of_agrees cc p hw hp1 (exactMul x y) (show 0 < 1 by decide) _ hA herr.symm _ (Rat_exactMul_toRat x y)

theorem quo_nonzero (cc : Ctx) (p : Nat) (hw : NCtx cc p)
    (x y : Dec) (hx : x.form = .finite) (hy : y.form = .finite) (he : (quoOp cc x y).err = .none) :
    y.coeff ≠ 0 := by
  intro h0
  unfold quoOp quoSpecials at he
  simp only [shouldSetAsNaN, Dec.isNaN, hx, hy, Dec.isZero, h0] at he
  rw [hw.ht] at he
  by_cases hx0 : x.coeff = 0
  · simp [hx0, goError, defaultTraps, cDivUndefined, HAnd.hAnd, AndOp.and, Cond.and, Cond.any] at he
  · simp [hx0, goError, defaultTraps, cDivByZero, HAnd.hAnd, AndOp.and, Cond.and, Cond.any] at he

theorem quo_rel (cc : Ctx) (p : Nat) (hw : NCtx cc p) (hp1 : 1 ≤ p) (hp2 : p ≤ 100000)
    (x y : Dec) (hx : x.form = .finite) (hy : y.form = .finite) (he : (quoOp cc x y).err = .none) :
    y.coeff ≠ 0 ∧ OpR p (x.toRat / y.toRat) (quoOp cc x y).d := by
  have hc := hw.wf hp1 hp2
  have hy0 := quo_nonzero cc p hw x y hx hy he
  have hpn : cc.prec ≠ 0 := by rw [hw.hp]; omega
  have herr : (quoOp cc x y).err = goError cc.traps (quoOp cc x y).fl := by
    by_cases hx0 : x.coeff = 0
    · rw [QuoL.quoOp_zero cc x y hx hy hy0 hpn hx0]; rfl
    · rw [QuoL.quoOp_eq cc x y hx hy hy0 hpn hx0]; rfl
  rw [he, hw.ht] at herr
  have hA := Props.C01_quo cc hc x y hx hy hy0 (Or.inl he)
  exact ⟨hy0, opR_of_agrees cc p hw hp1 (exactQuo x y) (Nat.pos_of_ne_zero hy0) _ hA herr.symm _
    (Rat_exactQuo_toRat x y)⟩

theorem add_rel (cc : Ctx) (p : Nat) (hw : NCtx cc p) (hp1 : 1 ≤ p) (hp2 : p ≤ 100000)
    (x y : Dec) (sub : Bool) (hx : x.form = .finite) (hy : y.form = .finite)
    (he : (addOp cc x y sub).err = .none) :
    OpR p (x.toRat + (if sub then - y.toRat else y.toRat)) (addOp cc x y sub).d := by
  have hc := hw.wf hp1 hp2
  have herr : (addOp cc x y sub).err = goError cc.traps (addOp cc x y sub).fl := by
    rcases Props.add_core cc x y sub hx hy with ⟨d, hd, e1, e2⟩ | hsys
    · rw [e1]; rfl
    · rw [hsys] at he; exact absurd he (by decide)
  rw [he, hw.ht] at herr
  have hA := Props.C01_add cc hc x y sub hx hy (Or.inl he)
  have hden : (exactAdd cc x y sub).den = 1 := (Rat_exactAdd_shape cc x y sub).1
  exact opR_of_agrees cc p hw hp1 (exactAdd cc x y sub) (by rw [hden]; decide) _ hA herr.symm _
    (Rat_exactAdd_toRat cc x y sub)

/-! ## `ErrDecimal` bookkeeping, backwards -/

theorem step_back (e : ED) (cur : Dec) (op : Ctx → Out) (h : (e.step cur op).1.failed = false) :
    e.failed = false ∧ (op e.c).err = .none ∧ (e.step cur op).2 = (op e.c).d ∧ (e.step cur op).1.c = e.c := by
  unfold ED.step at h ⊢
  by_cases hf : e.failed = true
  · rw [if_pos hf] at h
    simp only [] at h
    rw [hf] at h; exact Bool.noConfusion h
  · rw [if_neg hf] at h ⊢
    simp only [] at h ⊢
    refine ⟨by simpa using hf, ?_, trivial, trivial⟩
    unfold ED.failed at h
    simp only [Bool.or_eq_false_iff, bne_eq_false_iff_eq] at h
    exact h.1

theorem step_failed (e : ED) (cur : Dec) (op : Ctx → Out) (h : e.failed = true) :
    e.step cur op = (e, cur) := by
  unfold ED.step; rw [if_pos h]


/-! ## `Decimal.Cmp` on finite decimals, in rationals -/

theorem signedScaled_toRat (d : Dec) (e : Int) (h : e ≤ d.exp) :
    ((signedScaled d e : ℤ) : ℚ) * (10 : ℚ) ^ e = d.toRat := by
  unfold signedScaled Dec.toRat
  have := align d.coeff d.exp e h
  push_cast at this ⊢
  rw [mul_assoc, this]
  cases d.neg <;> simp

open Apd.C15L in
theorem cmp_toRat (d x : Dec) (hd : d.form = .finite) (hx : x.form = .finite) :
    (d.cmp x ≤ 0 ↔ d.toRat ≤ x.toRat) ∧ (d.cmp x = 0 ↔ d.toRat = x.toRat) := by
  rw [cmp_finite d x hd hx, cmpInt_le_zero_iff, cmpInt_eq_zero_iff,
    ← signedScaled_toRat d (min d.exp x.exp) (min_le_left _ _),
    ← signedScaled_toRat x (min d.exp x.exp) (min_le_right _ _)]
  have hp := tp (min d.exp x.exp)
  constructor
  · rw [mul_le_mul_iff_left₀ hp]; exact Int.cast_le.symm
  · rw [mul_left_inj' hp.ne']; exact Int.cast_inj.symm

/-! ## named parts of `cbrtOp` -/

/-- the working context -/
def nc (c : Ctx) : Ctx := { baseCtx with prec := c.prec * 2 + 2 }

/-- one round of the Newton iteration -/
def round (ax : Dec) (e : ED) (z : Dec) : ED × Dec :=
  let r1 := e.step z (fun c => mulOp c z z)
  let r2 := r1.1.step r1.2 (fun c => quoOp c ax r1.2)
  let r3 := r2.1.step r2.2 (fun c => addOp c r2.2 z false)
  let r4 := r3.1.step r3.2 (fun c => addOp c r3.2 z false)
  r4.1.step r4.2 (fun c => quoOp c r4.2 decThree)

theorem cbrtIter_succ (c : Ctx) (prec : Int) (maxIter : Nat) (ax : Dec) (fuel : Nat) (e : ED) (z : Dec) (l : LoopSt) :
    cbrtIter c prec maxIter ax (fuel + 1) e z l =
      if (round ax e z).1.failed then some (.inl (round ax e z).1.errOf) else
      match loopDone c prec maxIter l (round ax e z).2 with
      | .error er => some (.inl er)
      | .done => some (.inr (round ax e z).2)
      | .continue l' => cbrtIter c prec maxIter ax fuel (round ax e z).1 (round ax e z).2 l' := rfl

/-- the first estimate, scaled back -/
def est (ed : ED) (z : Dec) (down up : Nat) : ED × Dec :=
  let r1 := ed.step z (fun c => mulOp c z cbrtC1)
  let r2 := r1.1.step r1.2 (fun c => addOp c r1.2 cbrtC2 false)
  let r3 := r2.1.step r2.2 (fun c => mulOp c r2.2 z)
  let r4 := r3.1.step r3.2 (fun c => addOp c r3.2 cbrtC3 false)
  if down > up then mulN decHalf (down - up) r4.1 r4.2 else mulN decTwo (up - down) r4.1 r4.2

/-- everything after the loop -/
def tail (c : Ctx) (x : Dec) (fl0 : Cond) (z : Dec) : Out :=
  let r := ctxRound { c with mode := .halfEven } z
  let d : Dec := { r.1 with neg := x.neg }
  let e : ED := { c := { nc c with prec := c.prec * 3 }, fl := fl0, err := .none }
  let q1 := e.step z (fun c => mulOp c d d)
  let q2 := q1.1.step q1.2 (fun c => mulOp c q1.2 d)
  if q2.1.failed then failOut q2.1.errOf else
  if x.cmp q2.2 == 0 then { d := d } else { d := d, fl := r.2, err := goError c.traps r.2 }

theorem errOf_ne (e : ED) (h : e.failed = true) : e.errOf ≠ .none := by
  unfold ED.failed at h
  unfold ED.errOf
  by_cases h1 : (e.err != .none) = true
  · rw [if_pos h1]; simpa using h1
  · rw [if_neg h1]
    simp only [Bool.or_eq_true] at h
    rcases h with h | h
    · exact absurd h h1
    · simpa using h

theorem loopDone_error_ne (c : Ctx) (prec : Int) (maxIter : Nat) (l : LoopSt) (z : Dec) (er : ErrKind)
    (h : loopDone c prec maxIter l z = .error er) : er ≠ .none := by
  unfold loopDone at h
  dsimp only at h
  split_ifs at h with h1 h2 h3 h4 <;> (injection h with h; rw [← h]; simp at h1 ⊢; try exact h1)

theorem cbrtIter_inl_ne (c : Ctx) (prec : Int) (maxIter : Nat) (ax : Dec) :
    ∀ (fuel : Nat) (e : ED) (z : Dec) (l : LoopSt) (er : ErrKind),
      cbrtIter c prec maxIter ax fuel e z l = some (.inl er) → er ≠ .none := by
  intro fuel
  induction fuel with
  | zero => intro e z l er h; simp [cbrtIter] at h
  | succ fuel ih =>
    intro e z l er h
    rw [cbrtIter_succ] at h
    by_cases hf : (round ax e z).1.failed = true
    · rw [if_pos hf] at h
      simp only [Option.some.injEq, Sum.inl.injEq] at h
      rw [← h]; exact errOf_ne _ hf
    · rw [if_neg hf] at h
      split at h
      · rename_i er' hl
        simp only [Option.some.injEq, Sum.inl.injEq] at h
        rw [← h]; exact loopDone_error_ne _ _ _ _ _ _ hl
      · simp at h
      · exact ih _ _ _ _ h

theorem scaleLoop_inl_ne (test : Dec → Bool) (k : Dec) :
    ∀ (fuel : Nat) (e : ED) (z : Dec) (n : Nat) (er : ErrKind),
      scaleLoop test k fuel e z n = some (.inl er) → er ≠ .none := by
  intro fuel
  induction fuel with
  | zero => intro e z n er h; simp [scaleLoop] at h
  | succ fuel ih =>
    intro e z n er h
    simp only [scaleLoop] at h
    split_ifs at h with h1 h2
    · simp only [Option.some.injEq, Sum.inl.injEq] at h
      rw [← h]; exact errOf_ne _ h2
    · exact ih _ _ _ _ h
    · simp at h

theorem cbrtOp_inv (c : Ctx) (x : Dec) (o : Out) (h : rootSpecials c x 3 = none)
    (ho : cbrtOp c x = some o) (he : o.err = .none) :
    ∃ ed1 z1 down ed2 z2 up zf,
      scaleLoop (fun z => z.cmp decOneEighth < 0) decEight 400000 { c := nc c } x.absD 0 = some (.inr (ed1, z1, down)) ∧
      scaleLoop (fun z => z.cmp decOne > 0) decOneEighth 400000 ed1 z1 0 = some (.inr (ed2, z2, up)) ∧
      cbrtIter (nc c) ((c.prec : Int) + 1) (10 + (c.prec + 1)) x.absD (10 + (c.prec + 1) + 2)
            (est ed2 z2 down up).1 (est ed2 z2 down up).2 {} = some (.inr zf) ∧
      o = tail c x (est ed2 z2 down up).1.fl zf := by
  unfold cbrtOp at ho
  rw [h] at ho
  dsimp only at ho
  split at ho
  · exact absurd ho (by simp)
  · rename_i er h1
    simp only [Option.some.injEq] at ho
    exfalso
    rw [← ho] at he
    exact scaleLoop_inl_ne _ _ _ _ _ _ _ h1 he
  · rename_i ed1 z1 down h1
    split at ho
    · exact absurd ho (by simp)
    · rename_i er h2
      simp only [Option.some.injEq] at ho
      exfalso
      rw [← ho] at he
      exact scaleLoop_inl_ne _ _ _ _ _ _ _ h2 he
    · rename_i ed2 z2 up h2
      split at ho
      · exact absurd ho (by simp)
      · rename_i er h3
        simp only [Option.some.injEq] at ho
        exfalso
        rw [← ho] at he
        exact cbrtIter_inl_ne _ _ _ _ _ _ _ _ _ h3 he
      · rename_i zf h3
        refine ⟨ed1, z1, down, ed2, z2, up, zf, h1, h2, h3, ?_⟩
        have : some (tail c x (est ed2 z2 down up).1.fl zf) = some o := by
          rw [← ho]
          unfold tail est nc
          dsimp only
          split_ifs <;> rfl
        simp only [Option.some.injEq] at this
        exact this.symm


/-! ## invariants of the scaling loops and of the first estimate -/

/-- unless something failed, the `ErrDecimal` still runs under `cc` and the current value is a positive
finite decimal -/
def Good (cc : Ctx) (e : ED) (z : Dec) : Prop := e.failed = false → e.c = cc ∧ Pos z

theorem step_back' {e : ED} {cur : Dec} {op : Ctx → Out} {r : ED × Dec} (hr : e.step cur op = r)
    (h : r.1.failed = false) :
    e.failed = false ∧ (op e.c).err = .none ∧ r.2 = (op e.c).d ∧ r.1.c = e.c := by
  subst hr; exact step_back e cur op h

theorem good_mul (cc : Ctx) (p : Nat) (hw : NCtx cc p) (hp1 : 1 ≤ p) (hp2 : p ≤ 100000)
    (k : Dec) (hk : Pos k) (e : ED) (z : Dec) (hG : Good cc e z) :
    Good cc (e.step z (fun c => mulOp c z k)).1 (e.step z (fun c => mulOp c z k)).2 := by
  intro hnf
  obtain ⟨f0, g1, v1, c1⟩ := step_back _ _ _ hnf
  obtain ⟨hc, hz⟩ := hG f0
  rw [hc] at g1 v1 c1
  have o1 := mul_rel cc p hw hp1 hp2 z k hz.hf hk.hf g1
  refine ⟨c1, ?_⟩
  rw [v1]
  exact o1.pos (mul_pos hz.toRat_pos hk.toRat_pos)

theorem scaleLoop_good (cc : Ctx) (p : Nat) (hw : NCtx cc p) (hp1 : 1 ≤ p) (hp2 : p ≤ 100000)
    (test : Dec → Bool) (k : Dec) (hk : Pos k) :
    ∀ (fuel : Nat) (e : ED) (z : Dec) (n : Nat) (e' : ED) (z' : Dec) (n' : Nat), Good cc e z →
      scaleLoop test k fuel e z n = some (.inr (e', z', n')) → Good cc e' z' ∧ test z' = false := by
  intro fuel
  induction fuel with
  | zero => intro e z n e' z' n' hG h; simp [scaleLoop] at h
  | succ fuel ih =>
    intro e z n e' z' n' hG h
    simp only [scaleLoop] at h
    by_cases ht : test z = true
    · rw [if_pos ht] at h
      split_ifs at h
      · simp at h
      · exact ih _ _ _ _ _ _ (good_mul cc p hw hp1 hp2 k hk e z hG) h
    · rw [if_neg ht] at h
      simp only [Option.some.injEq, Sum.inr.injEq, Prod.mk.injEq] at h
      obtain ⟨rfl, rfl, rfl⟩ := h
      exact ⟨hG, by simpa using ht⟩

theorem mulN_good (cc : Ctx) (p : Nat) (hw : NCtx cc p) (hp1 : 1 ≤ p) (hp2 : p ≤ 100000)
    (k : Dec) (hk : Pos k) :
    ∀ (n : Nat) (e : ED) (z : Dec), Good cc e z → Good cc (mulN k n e z).1 (mulN k n e z).2 := by
  intro n
  induction n with
  | zero => intro e z hG; exact hG
  | succ n ih =>
    intro e z hG
    simp only [mulN]
    exact ih _ _ (good_mul cc p hw hp1 hp2 k hk e z hG)

theorem eps_small (p : Nat) (hp : 4 ≤ p) : 5 * (10 : ℚ) ^ (-(p : ℤ)) ≤ 1 / 2000 := eps_le p hp

theorem decEight_pos : Pos decEight := ⟨rfl, rfl, by decide⟩
theorem decOneEighth_pos : Pos decOneEighth := ⟨rfl, rfl, by decide⟩
theorem decTwo_pos : Pos decTwo := ⟨rfl, rfl, by decide⟩
theorem decThree_pos : Pos decThree := ⟨rfl, rfl, by decide⟩
theorem decThree_toRat : decThree.toRat = 3 := by norm_num [Dec.toRat, decThree]
theorem decOne_toRat : decOne.toRat = 1 := by norm_num [Dec.toRat, decOne]
theorem cbrtC1_toRat : cbrtC1.toRat = -(46946116 / 100000000) := by norm_num [Dec.toRat, cbrtC1]
theorem cbrtC2_toRat : cbrtC2.toRat = 1072302 / 1000000 := by norm_num [Dec.toRat, cbrtC2]
theorem cbrtC3_toRat : cbrtC3.toRat = 3812513 / 10000000 := by norm_num [Dec.toRat, cbrtC3]
theorem cbrtC2_pos : Pos cbrtC2 := ⟨rfl, rfl, by decide⟩
theorem cbrtC3_pos : Pos cbrtC3 := ⟨rfl, rfl, by decide⟩

/-- the first estimate `(c1·z + c2)·z + c3` of a positive `z ≤ 1` is positive -/
theorem est_good (cc : Ctx) (p : Nat) (hw : NCtx cc p) (hp4 : 4 ≤ p) (hp2 : p ≤ 100000)
    (ed : ED) (z : Dec) (down up : Nat) (hG : Good cc ed z) (h1c : ed.failed = false → z.toRat ≤ 1) :
    Good cc (est ed z down up).1 (est ed z down up).2 := by
  have hp1 : 1 ≤ p := by omega
  have hε := eps_small p hp4
  unfold est
  dsimp only
  generalize h1' : ed.step z (fun c => mulOp c z cbrtC1) = r1
  generalize h2' : r1.1.step r1.2 (fun c => addOp c r1.2 cbrtC2 false) = r2
  generalize h3' : r2.1.step r2.2 (fun c => mulOp c r2.2 z) = r3
  generalize h4' : r3.1.step r3.2 (fun c => addOp c r3.2 cbrtC3 false) = r4
  have hG4 : Good cc r4.1 r4.2 := by
    intro hnf
    obtain ⟨f3, g4, v4, c4⟩ := step_back' h4' hnf
    obtain ⟨f2, g3, v3, c3⟩ := step_back' h3' f3
    obtain ⟨f1, g2, v2, c2⟩ := step_back' h2' f2
    obtain ⟨f0, g1, v1, c1⟩ := step_back' h1' f1
    obtain ⟨hc, hz⟩ := hG f0
    have h1 := h1c f0
    have k1 : r1.1.c = cc := by rw [c1, hc]
    have k2 : r2.1.c = cc := by rw [c2, k1]
    have k3 : r3.1.c = cc := by rw [c3, k2]
    have k4 : r4.1.c = cc := by rw [c4, k3]
    rw [hc] at g1 v1
    rw [k1] at g2 v2
    rw [k2] at g3 v3
    rw [k3] at g4 v4
    have hzp := hz.toRat_pos
    -- r1 = z·c1, negative but small
    have o1 := mul_rel cc p hw hp1 hp2 z cbrtC1 hz.hf rfl g1
    rw [← v1] at o1
    have b1 : -(47 / 100) ≤ r1.2.toRat := by
      have hv := o1.val
      rw [cbrtC1_toRat] at hv
      have hneg : z.toRat * -(46946116 / 100000000) ≤ 0 := by nlinarith
      rw [abs_of_nonpos hneg] at hv
      obtain ⟨hv1, -⟩ := abs_le.1 hv
      have hb : 5 * (10 : ℚ) ^ (-(p : ℤ)) * -(z.toRat * -(46946116 / 100000000)) ≤
          1 / 2000 * -(z.toRat * -(46946116 / 100000000)) :=
        mul_le_mul_of_nonneg_right hε (by linarith)
      nlinarith
    -- r2 = r1 + c2 > 0
    have o2 := add_rel cc p hw hp1 hp2 r1.2 cbrtC2 false o1.fin rfl g2
    rw [← v2] at o2
    have P2 : Pos r2.2 := o2.pos (by simp only [Bool.false_eq_true, if_false]; rw [cbrtC2_toRat]; linarith)
    -- r3 = r2 · z > 0
    have o3 := mul_rel cc p hw hp1 hp2 r2.2 z P2.hf hz.hf g3
    rw [← v3] at o3
    have P3 : Pos r3.2 := o3.pos (mul_pos P2.toRat_pos hzp)
    -- r4 = r3 + c3 > 0
    have o4 := add_rel cc p hw hp1 hp2 r3.2 cbrtC3 false P3.hf rfl g4
    rw [← v4] at o4
    have P4 : Pos r4.2 := o4.pos (by
      simp only [Bool.false_eq_true, if_false]; rw [cbrtC3_toRat]; have := P3.toRat_pos; linarith)
    exact ⟨k4, P4⟩
  split_ifs
  · exact mulN_good cc p hw hp1 hp2 decHalf decHalf_pos _ _ _ hG4
  · exact mulN_good cc p hw hp1 hp2 decTwo decTwo_pos _ _ _ hG4


/-! ## one round of the Newton iteration -/

theorem round_nf (ax : Dec) (e : ED) (z : Dec) (hnf : (round ax e z).1.failed = false) : e.failed = false := by
  unfold round at hnf
  dsimp only at hnf
  obtain ⟨f4, -⟩ := step_back _ _ _ hnf
  obtain ⟨f3, -⟩ := step_back _ _ _ f4
  obtain ⟨f2, -⟩ := step_back _ _ _ f3
  obtain ⟨f1, -⟩ := step_back _ _ _ f2
  obtain ⟨f0, -⟩ := step_back _ _ _ f1
  exact f0

theorem rel_pos {p : Nat} {v : ℚ} {d : Dec} (h : OpR p v d) (hv : 0 < v) :
    ∃ e : ℚ, |e| ≤ 5 * (10 : ℚ) ^ (-(p : ℤ)) ∧ d.toRat = v * (1 + e) := by
  have := h.val
  rw [abs_of_pos hv] at this
  exact rel_of_val hv this

/-- the five operations of a round that did not fail, from a positive iterate -/
theorem round_ok (cc : Ctx) (p : Nat) (hw : NCtx cc p) (hp1 : 1 ≤ p) (hp2 : p ≤ 100000)
    (ax : Dec) (hax : Pos ax) (e : ED) (z : Dec) (hc : e.c = cc) (hz : Pos z)
    (hnf : (round ax e z).1.failed = false) :
    (round ax e z).1.c = cc ∧ Pos (round ax e z).2 ∧ ndigits (round ax e z).2.coeff ≤ p ∧
    ∃ t1 t2 t3 t4 e1 e2 e3 e4 e5 : ℚ,
      |e1| ≤ 5 * (10 : ℚ) ^ (-(p : ℤ)) ∧ |e2| ≤ 5 * (10 : ℚ) ^ (-(p : ℤ)) ∧ |e3| ≤ 5 * (10 : ℚ) ^ (-(p : ℤ)) ∧
      |e4| ≤ 5 * (10 : ℚ) ^ (-(p : ℤ)) ∧ |e5| ≤ 5 * (10 : ℚ) ^ (-(p : ℤ)) ∧
      t1 = z.toRat * z.toRat * (1 + e1) ∧ t2 = ax.toRat / t1 * (1 + e2) ∧ t3 = (t2 + z.toRat) * (1 + e3) ∧
      t4 = (t3 + z.toRat) * (1 + e4) ∧ (round ax e z).2.toRat = t4 / 3 * (1 + e5) := by
  unfold round at hnf ⊢
  dsimp only at hnf ⊢
  generalize h1' : e.step z (fun c => mulOp c z z) = r1 at hnf ⊢
  generalize h2' : r1.1.step r1.2 (fun c => quoOp c ax r1.2) = r2 at hnf ⊢
  generalize h3' : r2.1.step r2.2 (fun c => addOp c r2.2 z false) = r3 at hnf ⊢
  generalize h4' : r3.1.step r3.2 (fun c => addOp c r3.2 z false) = r4 at hnf ⊢
  generalize h5' : r4.1.step r4.2 (fun c => quoOp c r4.2 decThree) = r5 at hnf ⊢
  obtain ⟨f4, g5, v5, c5⟩ := step_back' h5' hnf
  obtain ⟨f3, g4, v4, c4⟩ := step_back' h4' f4
  obtain ⟨f2, g3, v3, c3⟩ := step_back' h3' f3
  obtain ⟨f1, g2, v2, c2⟩ := step_back' h2' f2
  obtain ⟨f0, g1, v1, c1⟩ := step_back' h1' f1
  have k1 : r1.1.c = cc := by rw [c1, hc]
  have k2 : r2.1.c = cc := by rw [c2, k1]
  have k3 : r3.1.c = cc := by rw [c3, k2]
  have k4 : r4.1.c = cc := by rw [c4, k3]
  have k5 : r5.1.c = cc := by rw [c5, k4]
  rw [hc] at g1 v1
  rw [k1] at g2 v2
  rw [k2] at g3 v3
  rw [k3] at g4 v4
  rw [k4] at g5 v5
  have hzp := hz.toRat_pos
  have haxp := hax.toRat_pos
  have o1 := mul_rel cc p hw hp1 hp2 z z hz.hf hz.hf g1
  rw [← v1] at o1
  have hv1 : 0 < z.toRat * z.toRat := mul_pos hzp hzp
  have P1 := o1.pos hv1
  obtain ⟨e1, he1, q1⟩ := rel_pos o1 hv1
  obtain ⟨-, o2⟩ := quo_rel cc p hw hp1 hp2 ax r1.2 hax.hf P1.hf g2
  rw [← v2] at o2
  have hv2 : 0 < ax.toRat / r1.2.toRat := div_pos haxp P1.toRat_pos
  have P2 := o2.pos hv2
  obtain ⟨e2, he2, q2⟩ := rel_pos o2 hv2
  have o3 := add_rel cc p hw hp1 hp2 r2.2 z false P2.hf hz.hf g3
  rw [← v3] at o3
  simp only [Bool.false_eq_true, if_false] at o3
  have hv3 : 0 < r2.2.toRat + z.toRat := add_pos P2.toRat_pos hzp
  have P3 := o3.pos hv3
  obtain ⟨e3, he3, q3⟩ := rel_pos o3 hv3
  have o4 := add_rel cc p hw hp1 hp2 r3.2 z false P3.hf hz.hf g4
  rw [← v4] at o4
  simp only [Bool.false_eq_true, if_false] at o4
  have hv4 : 0 < r3.2.toRat + z.toRat := add_pos P3.toRat_pos hzp
  have P4 := o4.pos hv4
  obtain ⟨e4, he4, q4⟩ := rel_pos o4 hv4
  obtain ⟨-, o5⟩ := quo_rel cc p hw hp1 hp2 r4.2 decThree P4.hf rfl g5
  rw [← v5, decThree_toRat] at o5
  have hv5 : 0 < r4.2.toRat / 3 := by have := P4.toRat_pos; positivity
  have P5 := o5.pos hv5
  obtain ⟨e5, he5, q5⟩ := rel_pos o5 hv5
  exact ⟨k5, P5, o5.nd, r1.2.toRat, r2.2.toRat, r3.2.toRat, r4.2.toRat, e1, e2, e3, e4, e5,
    he1, he2, he3, he4, he5, q1, q2, q3, q4, q5⟩

theorem loopDone_continue (c : Ctx) (prec : Int) (maxIter : Nat) (l l' : LoopSt) (z : Dec)
    (h : loopDone c prec maxIter l z = .continue l') : l'.prevZ = z := by
  unfold loopDone at h
  dsimp only at h
  split_ifs at h <;> (injection h with h; rw [← h])

/-- the last round: it did not fail, started from a positive iterate, and `loop.done` said yes -/
theorem iter_last (cc : Ctx) (p : Nat) (hw : NCtx cc p) (hp1 : 1 ≤ p) (hp2 : p ≤ 100000)
    (ax : Dec) (hax : Pos ax) (prec : Int) (maxIter : Nat) :
    ∀ (fuel : Nat) (e : ED) (z : Dec) (l : LoopSt) (zf : Dec),
      cbrtIter cc prec maxIter ax fuel e z l = some (.inr zf) → Good cc e z → (l.prevZ = z ∨ l.prevZ = {}) →
      ∃ e0 z0 l0, e0.c = cc ∧ Pos z0 ∧ (round ax e0 z0).1.failed = false ∧ zf = (round ax e0 z0).2 ∧
        loopDone cc prec maxIter l0 zf = .done ∧ (l0.prevZ = z0 ∨ l0.prevZ = {}) := by
  intro fuel
  induction fuel with
  | zero => intro e z l zf h; simp [cbrtIter] at h
  | succ fuel ih =>
    intro e z l zf h hG hl
    rw [cbrtIter_succ] at h
    by_cases hf : (round ax e z).1.failed = true
    · rw [if_pos hf] at h; simp at h
    · rw [if_neg hf] at h
      have hnf : (round ax e z).1.failed = false := by simpa using hf
      obtain ⟨hc, hz⟩ := hG (round_nf ax e z hnf)
      obtain ⟨k5, P5, -⟩ := round_ok cc p hw hp1 hp2 ax hax e z hc hz hnf
      split at h
      · simp at h
      · rename_i hd
        simp only [Option.some.injEq, Sum.inr.injEq] at h
        exact ⟨e, z, l, hc, hz, hnf, h.symm, by rw [← h]; exact hd, hl⟩
      · rename_i l' hd
        exact ih _ _ _ _ h (fun _ => ⟨k5, P5⟩) (Or.inl (loopDone_continue _ _ _ _ _ _ hd))


/-! ## the stopping rule -/

theorem negD_toRat (d : Dec) : d.negD.toRat = - d.toRat := by
  unfold Dec.negD Dec.isZero Dec.toRat
  by_cases h0 : d.coeff = 0
  · split_ifs <;> simp [h0]
  · have : (d.form == Form.finite && d.coeff == 0) = false := by simp [h0]
    rw [this]
    cases d.neg <;> simp

theorem negD_form (d : Dec) : d.negD.form = d.form := by
  unfold Dec.negD; split_ifs <;> rfl

open Apd.C15L in
/-- `loop.done` answered yes: the last two iterates differ by at most `1.001·10^(-P)·z` -/
theorem done_core (cc : Ctx) (p P : Nat) (hw : NCtx cc p) (hp : p = 2 * P + 2) (hP : 1 ≤ P) (hp2 : p ≤ 100000)
    (maxIter : Nat) (l : LoopSt) (zf : Dec) (hprev : l.prevZ.form = .finite) (hzf : Pos zf)
    (h : loopDone cc ((P : ℤ) + 1) maxIter l zf = .done) :
    |l.prevZ.toRat - zf.toRat| ≤ 1001 / 1000 * (10 : ℚ) ^ (-(P : ℤ)) * zf.toRat := by
  have hp1 : 1 ≤ p := by omega
  have hε := eps_small p (by omega)
  have hzp := hzf.toRat_pos
  have htp := tp (-(P : ℤ))
  unfold loopDone at h
  dsimp only at h
  generalize ho : addOp cc l.prevZ zf true = o at h
  by_cases he : (o.err != .none) = true
  · rw [if_pos he] at h; exact LoopRes.noConfusion h
  rw [if_neg he] at h
  have he' : o.err = .none := by simpa using he
  have R := add_rel cc p hw hp1 hp2 l.prevZ zf true hprev hzf.hf (by rw [ho]; exact he')
  rw [ho] at R
  simp only [if_true] at R
  have hv := R.val
  rw [← sub_eq_add_neg] at hv
  generalize l.prevZ.toRat - zf.toRat = v at hv ⊢
  have hsign := sign_finite o.d R.fin
  by_cases h0 : o.d.coeff = 0
  · -- the difference is zero
    have hd0 : o.d.toRat = 0 := by unfold Dec.toRat; rw [h0]; simp
    rw [hd0, zero_sub, abs_neg] at hv
    have hb : 5 * (10 : ℚ) ^ (-(p : ℤ)) * |v| ≤ 1 / 2000 * |v| := mul_le_mul_of_nonneg_right hε (abs_nonneg _)
    have : |v| ≤ 0 := by linarith
    have h3 : 0 ≤ 1001 / 1000 * (10 : ℚ) ^ (-(P : ℤ)) * zf.toRat := by positivity
    linarith
  · have hs0 : ¬ (o.d.sign == 0) = true := by
      rw [hsign, if_neg h0]; cases o.d.neg <;> simp
    rw [if_neg hs0] at h
    -- the absolute value of the rounded difference
    obtain ⟨dl, hdl⟩ : ∃ dl, dl = (if o.d.sign < 0 then o.d.negD else o.d) := ⟨_, rfl⟩
    rw [← hdl] at h
    have hdlf : dl.form = .finite := by
      rw [hdl]; split_ifs
      · rw [negD_form]; exact R.fin
      · exact R.fin
    have hdlv : dl.toRat = |o.d.toRat| := by
      have hcp : (0 : ℚ) < o.d.coeff := by
        have : 0 < o.d.coeff := Nat.pos_of_ne_zero h0
        exact_mod_cast this
      have hxp := tp o.d.exp
      rw [hdl, hsign, if_neg h0]
      cases hn : o.d.neg
      · simp only [Bool.false_eq_true, if_false]
        have : ¬ ((1 : ℤ) < 0) := by decide
        rw [if_neg this]
        have : 0 ≤ o.d.toRat := by
          unfold Dec.toRat; rw [hn]; simp only [Bool.false_eq_true, if_false, one_mul]; positivity
        rw [abs_of_nonneg this]
      · simp only [if_true]
        have : ((-1 : ℤ) < 0) := by decide
        rw [if_pos this, negD_toRat]
        have : o.d.toRat ≤ 0 := by
          unfold Dec.toRat; rw [hn]; simp only [if_true]
          have : 0 < (o.d.coeff : ℚ) * (10 : ℚ) ^ o.d.exp := by positivity
          linarith
        rw [abs_of_nonpos this]
    by_cases hcmp : dl.cmp { coeff := 1, exp := -((P : ℤ) + 1) + (ndigits zf.coeff : ℤ) + zf.exp } ≤ 0
    · have hle := (cmp_toRat dl _ hdlf rfl).1.1 hcmp
      rw [hdlv] at hle
      have heps : ({ coeff := 1, exp := -((P : ℤ) + 1) + (ndigits zf.coeff : ℤ) + zf.exp } : Dec).toRat =
          (10 : ℚ) ^ (-(P : ℤ)) * (10 : ℚ) ^ (zf.exp + (ndigits zf.coeff : ℤ) - 1) := by
        unfold Dec.toRat
        simp only [Bool.false_eq_true, if_false, Nat.cast_one, one_mul]
        rw [← zpow_add₀ ten_ne]
        congr 1; ring
      rw [heps] at hle
      have hzb := (toRat_bounds hzf).1
      have h1 : (10 : ℚ) ^ (-(P : ℤ)) * (10 : ℚ) ^ (zf.exp + (ndigits zf.coeff : ℤ) - 1) ≤
          (10 : ℚ) ^ (-(P : ℤ)) * zf.toRat := mul_le_mul_of_nonneg_left hzb htp.le
      have h2 : |v| - |o.d.toRat| ≤ |o.d.toRat - v| := by
        have := abs_sub_abs_le_abs_sub v o.d.toRat
        rwa [abs_sub_comm v] at this
      have hb : 5 * (10 : ℚ) ^ (-(p : ℤ)) * |v| ≤ 1 / 2000 * |v| := mul_le_mul_of_nonneg_right hε (abs_nonneg _)
      have h3 : 0 < (10 : ℚ) ^ (-(P : ℤ)) * zf.toRat := by positivity
      linarith
    · rw [if_neg hcmp] at h
      split_ifs at h

theorem ten_negP (P : Nat) (hP : 1 ≤ P) : (10 : ℚ) ^ (-(P : ℤ)) ≤ 1 / 10 := by
  have : (10 : ℚ) ^ (-(P : ℤ)) ≤ (10 : ℚ) ^ (-1 : ℤ) := zpow_le_zpow_right₀ ten_gt.le (by omega)
  rwa [tm1] at this

/-- in the first round (`prevZ = 0`) `loop.done` cannot answer yes -/
theorem done_first (cc : Ctx) (p P : Nat) (hw : NCtx cc p) (hp : p = 2 * P + 2) (hP : 1 ≤ P) (hp2 : p ≤ 100000)
    (maxIter : Nat) (l : LoopSt) (zf : Dec) (hprev : l.prevZ = {}) (hzf : Pos zf)
    (h : loopDone cc ((P : ℤ) + 1) maxIter l zf = .done) : False := by
  have := done_core cc p P hw hp hP hp2 maxIter l zf (by rw [hprev]) hzf h
  rw [hprev] at this
  have h0 : ({} : Dec).toRat = 0 := by simp [Dec.toRat]
  rw [h0, zero_sub, abs_neg, abs_of_pos hzf.toRat_pos] at this
  have ht := ten_negP P hP
  have hzp := hzf.toRat_pos
  have htp := tp (-(P : ℤ))
  have : (10 : ℚ) ^ (-(P : ℤ)) * zf.toRat ≤ 1 / 10 * zf.toRat := mul_le_mul_of_nonneg_right ht hzp.le
  linarith


/-! ## the last iterate -/
open Apd.C11Q in
theorem absD_pos (x : Dec) (hx : x.form = .finite) (h0 : x.coeff ≠ 0) : Pos x.absD :=
  ⟨hx, rfl, Nat.pos_of_ne_zero h0⟩

open Apd.C11Q in
theorem absD_toRat (x : Dec) : x.absD.toRat = magQ x := by
  unfold Dec.absD Dec.toRat magQ; simp

theorem rootSpecials_none (c : Ctx) (x : Dec) (hx : x.form = .finite) (h0 : x.coeff ≠ 0) :
    rootSpecials c x 3 = none := by
  have hnan : x.isNaN = false := by simp [Dec.isNaN, hx]
  unfold rootSpecials
  cases hn : x.neg <;> simp [shouldSetAsNaN, hnan, hx, Dec.sign, h0, hn]

theorem nc_nctx (c : Ctx) : NCtx (nc c) (c.prec * 2 + 2) := ⟨rfl, rfl, rfl, rfl, rfl⟩

theorem eps_eq (P : Nat) : 5 * (10 : ℚ) ^ (-((P * 2 + 2 : ℕ) : ℤ)) = ((10 : ℚ) ^ (-(P : ℤ))) ^ 2 / 20 := by
  have : (-((P * 2 + 2 : ℕ) : ℤ)) = -(P : ℤ) + -(P : ℤ) + (-2) := by push_cast; ring
  rw [this, zpow_add₀ ten_ne, zpow_add₀ ten_ne, sq]
  norm_num
  ring

open Apd.C11Q in
/-- **the iterate `Cbrt` rounds**: a positive finite decimal of at most `2P+2` digits whose cube is within
`(1 ± 3·10^(-2P))³` of `|x|` -/
theorem last_iter (c : Ctx) (hc : c.WF) (hp : c.prec * 3 + 2 ≤ 100000)
    (x : Dec) (hx : x.form = .finite) (h0 : x.coeff ≠ 0)
    (o : Out) (ho : cbrtOp c x = some o) (he : o.err = .none) :
    ∃ zf fl0, Pos zf ∧ ndigits zf.coeff ≤ c.prec * 2 + 2 ∧
      (zf.toRat * (1 - 3 * ((10 : ℚ) ^ (-(c.prec : ℤ))) ^ 2)) ^ 3 ≤ magQ x ∧
      magQ x ≤ (zf.toRat * (1 + 3 * ((10 : ℚ) ^ (-(c.prec : ℤ))) ^ 2)) ^ 3 ∧
      o = tail c x fl0 zf := by
  obtain ⟨hP1, -, -, -, -⟩ := hc
  have hw := nc_nctx c
  have hp1 : 1 ≤ c.prec * 2 + 2 := by omega
  have hp2 : c.prec * 2 + 2 ≤ 100000 := by omega
  have hax := absD_pos x hx h0
  obtain ⟨ed1, z1, down, ed2, z2, up, zf, s1, s2, s3, s4⟩ :=
    cbrtOp_inv c x o (rootSpecials_none c x hx h0) ho he
  have G0 : Good (nc c) { c := nc c } x.absD := fun _ => ⟨rfl, hax⟩
  obtain ⟨G1, -⟩ := scaleLoop_good (nc c) _ hw hp1 hp2 _ decEight decEight_pos _ _ _ _ _ _ _ G0 s1
  obtain ⟨G2, T2⟩ := scaleLoop_good (nc c) _ hw hp1 hp2 _ decOneEighth decOneEighth_pos _ _ _ _ _ _ _ G1 s2
  have hz2 : ed2.failed = false → z2.toRat ≤ 1 := by
    intro hf
    obtain ⟨-, hz⟩ := G2 hf
    have : z2.cmp decOne ≤ 0 := by simpa using T2
    have := (cmp_toRat z2 decOne hz.hf rfl).1.1 this
    rwa [decOne_toRat] at this
  have G3 := est_good (nc c) _ hw (by omega) hp2 ed2 z2 down up G2 hz2
  obtain ⟨e0, z0, l0, i1, i2, i3, i4, i5, i6⟩ :=
    iter_last (nc c) _ hw hp1 hp2 x.absD hax _ _ _ _ _ _ zf s3 G3 (Or.inr rfl)
  obtain ⟨-, P5, n5, t1, t2, t3, t4, e1, e2, e3, e4, e5, b1, b2, b3, b4, b5, d1, d2, d3, d4, d5⟩ :=
    round_ok (nc c) _ hw hp1 hp2 x.absD hax e0 z0 i1 i2 i3
  rw [← i4] at P5 n5 d5
  rcases i6 with i6 | i6
  · have hd := done_core (nc c) _ c.prec hw (by ring) hP1 hp2 _ l0 zf (by rw [i6]; exact i2.hf) P5 i5
    rw [i6] at hd
    rw [eps_eq] at b1 b2 b3 b4 b5
    rw [absD_toRat] at d2
    have hX : 0 < magQ x := magQ_pos x h0
    obtain ⟨c1, c2⟩ := CbrtN.newton_stop_rat (magQ x) z0.toRat t1 t2 t3 t4 zf.toRat e1 e2 e3 e4 e5
      ((10 : ℚ) ^ (-(c.prec : ℤ))) hX i2.toRat_pos (tp _) (ten_negP c.prec hP1) b1 b2 b3 b4 b5 d1 d2 d3 d4 d5 hd
    exact ⟨zf, _, P5, n5, c1, c2, s4⟩
  · exact absurd (done_first (nc c) _ c.prec hw (by ring) hP1 hp2 _ l0 zf i6 P5 i5) id

end Apd.CbrtL

#print axioms Apd.CbrtL.last_iter
