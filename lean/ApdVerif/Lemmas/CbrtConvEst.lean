import ApdVerif.Lemmas.CbrtConvMain
/-!
# `Context.Cbrt` converges — the first iterate: estimate and scaling back
-/
set_option linter.unusedVariables false

namespace Apd.CbrtC
open Apd Apd.Oracle Apd.RatSpec Apd.C20L Apd.SqrtL Apd.CbrtL Apd.CbrtR Cond

/-- the first iterate `z0`: no operation fails, and `z0³` is within `[0.97³/65, 1.03³·65]` of `|x|` -/
theorem stage_est (cc : Ctx) (P : ℕ) (ax : Dec) (A a : ℤ) (S : Side P ax A a) (hw : NCtx cc (P * 2 + 2))
    (hax : Pos ax) (ed2 : ED) (z1 z2 : Dec) (d u : ℕ) (he2 : EDg cc ed2) (hz1 : Pos z1) (hz2 : Pos z2)
    (hd2 : z2 = ax ∨ ndigits z2.coeff ≤ P * 2 + 2) (hN : d + u ≤ 2 * A.natAbs + 2)
    (hb1 : Bnd (P * 2 + 2) ax.toRat 8 d z1.toRat) (hb2 : Bnd (P * 2 + 2) z1.toRat (1 / 8) u z2.toRat)
    (hlo : 1249 / 10000 ≤ z2.toRat) (hhi : z2.toRat ≤ 1) :
    EDg cc (est ed2 z2 d u).1 ∧ Pos (est ed2 z2 d u).2 ∧ ndigits (est ed2 z2 d u).2.coeff ≤ P * 2 + 2 ∧
    (97 / 100) ^ 3 * (1 / 65) * ax.toRat ≤ (est ed2 z2 d u).2.toRat ^ 3 ∧
    (est ed2 z2 d u).2.toRat ^ 3 ≤ (103 / 100) ^ 3 * 65 * ax.toRat := by
  have hp4 : 4 ≤ P * 2 + 2 := by have := S.hP; omega
  have hP2 := S.hP2
  have hp2 : P * 2 + 2 ≤ 100000 := by omega
  have hp2' : P * 2 + 2 ≤ 50000 := by omega
  obtain ⟨hε0, hε⟩ := S.eps_le
  obtain ⟨r1, r2, r3, r4, r5, r6⟩ := S.ranges
  obtain ⟨hXA, hX3⟩ := S.X_rng hax
  have hX0 := hXA.pos
  have hH1 := S.H1
  have hH2 := S.H2
  obtain ⟨c1, c2⟩ := bnd_compose hp4 hb1 hb2
  -- the operand of the estimate
  have hz2r : Rng z2.toRat (-1) 1 := ⟨by rw [tm1]; linarith, by rw [t1]; linarith⟩
  have hz2e : -100000 + ((P * 2 + 2 : ℕ) : ℤ) ≤ z2.exp ∧ -99992 ≤ z2.exp ∧ ndigits z2.coeff ≤ 99990 := by
    rcases hd2 with h | h
    · rw [h]; have := S.S1; have := S.hnd; have := S.hP; refine ⟨?_, ?_, ?_⟩ <;> omega
    · have := (hz2r.exp hz2 h).1
      refine ⟨?_, ?_, ?_⟩ <;> omega
  obtain ⟨g1, g2, g3, g4, g5⟩ := est4_fw cc (P * 2 + 2) hw hp4 hp2' ed2 z2 he2 hz2 hz2e.2.2 hz2e.1 hz2e.2.1 hlo hhi
  obtain ⟨pc1, pc2⟩ := pc_range z2.toRat hlo hhi
  rw [est_eq]
  generalize est4 ed2 z2 = r4 at g1 g2 g3 g4 g5 ⊢
  have hy0 := g2.toRat_pos
  -- `Kmax` roundings stay within 10 %
  have hKmax := S.hK
  have pb := fun k (hk : k ≤ 8 * A.natAbs + 20) =>
    pow_bounds_wide (eps (P * 2 + 2)) (8 * A.natAbs + 20) k hε0 hε hKmax hk
  have pb4 := pow_bounds (eps (P * 2 + 2)) 4 4 hε0 hε (by push_cast; linarith) (le_refl _)
  have hylo : 9 / 20 ≤ r4.2.toRat := by
    have := pb4.1
    have : (1 / 2 : ℚ) * (9 / 10) ≤ pc z2.toRat * (1 - eps (P * 2 + 2)) ^ 4 := mul_le_mul pc1 this (by norm_num) (by linarith)
    linarith
  have hyhi : r4.2.toRat ≤ 11 / 10 := by
    have := pb4.2.1
    have : pc z2.toRat * (1 + eps (P * 2 + 2)) ^ 4 ≤ 99 / 100 * (10 / 9) := mul_le_mul pc2 this (by positivity) (by norm_num)
    linarith
  have hXlo : (10 : ℚ) ^ (3 * a - 3) ≤ (97 / 100) ^ 3 * (1 / 65) * ax.toRat := by
    have e : (10 : ℚ) ^ (3 * a - 3) = (10 : ℚ) ^ (3 * a) * (1 / 1000) := by
      have e3 : (10 : ℚ) ^ (3 : ℤ) = 1000 := by norm_num
      rw [zpow_sub₀ ten_ne, e3]; ring
    rw [e]
    have := hX3.1
    nlinarith [tp (3 * a)]
  have hXhi : (103 / 100) ^ 3 * 65 * ax.toRat < (10 : ℚ) ^ (3 * a + 6) := by
    have e : (10 : ℚ) ^ (3 * a + 6) = (10 : ℚ) ^ (3 * a + 3) * 1000 := by
      have e3 : (10 : ℚ) ^ (3 : ℤ) = 1000 := by norm_num
      rw [show 3 * a + 6 = 3 * a + 3 + 3 by ring, zpow_add₀ ten_ne, e3]
    rw [e]
    have := hX3.2
    nlinarith [tp (3 * a + 3)]
  by_cases hdu : d > u
  · -- halving
    rw [if_pos hdu]
    obtain ⟨M, rfl⟩ : ∃ M, d = u + M := Nat.exists_eq_add_of_le (by omega)
    have hM : u + M - u = M := by omega
    rw [hM]
    obtain ⟨hKM1, hKM2, -, -⟩ := pb (u + M + u + 12 + 3 * M) (by omega)
    have cube := fun (w : ℚ) (h1 : r4.2.toRat * (1 / 2) ^ M * (1 - eps (P * 2 + 2)) ^ M ≤ w)
        (h2 : w ≤ r4.2.toRat * (1 / 2) ^ M * (1 + eps (P * 2 + 2)) ^ M) =>
      chain_cube ax.toRat z2.toRat r4.2.toRat w (eps (P * 2 + 2)) (8 ^ (u + M) * (1 / 8) ^ u) ((1 / 2) ^ M)
        (1 / 65) 65 (u + M + u) M hX0 (by positivity) (by positivity) (scale_id1 u M) hε0 hε hKM1 hKM2 c1 c2 hlo hhi
        g4 g5 h1 h2
    have hdec : decHalf.exp = -1 := rfl
    have hstep : ∀ (z : Dec) (j : ℕ), 0 ≤ j → j < 0 + M → Pos z → ndigits z.coeff ≤ P * 2 + 2 →
        Bnd (P * 2 + 2) r4.2.toRat decHalf.toRat j z.toRat → StepOK (P * 2 + 2) z decHalf := by
      intro z j _ hj hz hzd hb
      rw [decHalf_toRat] at hb
      obtain ⟨q1, q2, q3, q4⟩ := pb j (by omega)
      obtain ⟨m1, m2, m3, m4⟩ := pb M (by omega)
      have h1e : 0 ≤ 1 - eps (P * 2 + 2) := by linarith
      -- lower bound: the final value
      have hwl : r4.2.toRat * (1 / 2) ^ M * (1 - eps (P * 2 + 2)) ^ M ≤ z.toRat := by
        have a1 : ((1 : ℚ) / 2) ^ M ≤ (1 / 2) ^ j := pow_le_pow_of_le_one (by norm_num) (by norm_num) (by omega)
        have a2 : (1 - eps (P * 2 + 2)) ^ M ≤ (1 - eps (P * 2 + 2)) ^ j :=
          pow_le_pow_of_le_one h1e (by linarith) (by omega)
        calc r4.2.toRat * (1 / 2) ^ M * (1 - eps (P * 2 + 2)) ^ M
            ≤ r4.2.toRat * (1 / 2) ^ j * (1 - eps (P * 2 + 2)) ^ j := by
              apply mul_le_mul _ a2 (by positivity) (by positivity)
              exact mul_le_mul_of_nonneg_left a1 hy0.le
          _ ≤ z.toRat := hb.1
      have hwl0 : 0 < r4.2.toRat * (1 / 2) ^ M * (1 - eps (P * 2 + 2)) ^ M := by
        have : 0 < (1 - eps (P * 2 + 2)) ^ M := by linarith
        positivity
      have hc := (cube _ (le_refl _) (by
        apply mul_le_mul_of_nonneg_left _ (by positivity)
        linarith)).1
      have hge := ge_of_cube _ a hwl0 (le_trans hXlo hc)
      have hzhi : z.toRat < (10 : ℚ) ^ (2 : ℤ) := by
        rw [t2]
        have a1 : ((1 : ℚ) / 2) ^ j ≤ 1 := pow_le_one₀ (by norm_num) (by norm_num)
        have : r4.2.toRat * (1 / 2) ^ j * (1 + eps (P * 2 + 2)) ^ j ≤ 11 / 10 * 1 * 65 := by
          apply mul_le_mul _ q2 (by positivity) (by norm_num)
          exact mul_le_mul hyhi a1 (by positivity) (by norm_num)
        linarith [hb.2]
      have hzr : Rng z.toRat (a - 1) 2 := ⟨le_trans hge hwl, hzhi⟩
      obtain ⟨x1, x2⟩ := hzr.exp hz hzd
      have hnd : ndigits (z.coeff * decHalf.coeff) ≤ 99999 + (P * 2 + 2) := by
        have := ndigits_mul_le z.coeff decHalf.coeff hz.h0 (by decide)
        have := decHalf_nd
        omega
      refine ⟨by omega, by omega, by rw [hdec]; omega, hnd, ?_, ?_⟩
      · rw [decHalf_toRat]
        have : Rng (z.toRat * (1 / 2)) (a - 1 + -1) (2 + 0) :=
          hzr.mul (⟨by rw [tm1]; norm_num, by rw [t0]; norm_num⟩ : Rng (1 / 2 : ℚ) (-1) 0)
        exact this.lo (by omega)
      · rw [decHalf_toRat]
        have : Rng (z.toRat * (1 / 2)) (a - 1 + -1) (2 + 0) :=
          hzr.mul (⟨by rw [tm1]; norm_num, by rw [t0]; norm_num⟩ : Rng (1 / 2 : ℚ) (-1) 0)
        exact this.hi (by omega)
    obtain ⟨f1, f2, f3, f4⟩ := mulN_fw cc (P * 2 + 2) hw hp4 hp2 decHalf decHalf_pos (by decide) (by decide)
      r4.2.toRat hy0.le M 0 r4.1 r4.2 g1 g2 g3 (Bnd_zero _ _ _) hstep
    rw [decHalf_toRat, Nat.zero_add] at f4
    obtain ⟨k1, k2⟩ := cube _ f4.1 f4.2
    exact ⟨f1, f2, f3, k1, k2⟩
  · -- doubling
    rw [if_neg hdu]
    obtain ⟨M, rfl⟩ : ∃ M, u = d + M := Nat.exists_eq_add_of_le (by omega)
    have hM : d + M - d = M := by omega
    rw [hM]
    obtain ⟨hKM1, hKM2, -, -⟩ := pb (d + (d + M) + 12 + 3 * M) (by omega)
    have cube := fun (w : ℚ) (h1 : r4.2.toRat * 2 ^ M * (1 - eps (P * 2 + 2)) ^ M ≤ w)
        (h2 : w ≤ r4.2.toRat * 2 ^ M * (1 + eps (P * 2 + 2)) ^ M) =>
      chain_cube ax.toRat z2.toRat r4.2.toRat w (eps (P * 2 + 2)) (8 ^ d * (1 / 8) ^ (d + M)) (2 ^ M)
        (1 / 65) 65 (d + (d + M)) M hX0 (by positivity) (by positivity) (scale_id2 d M) hε0 hε hKM1 hKM2 c1 c2 hlo hhi
        g4 g5 h1 h2
    have hdec : decTwo.exp = 0 := rfl
    have hstep : ∀ (z : Dec) (j : ℕ), 0 ≤ j → j < 0 + M → Pos z → ndigits z.coeff ≤ P * 2 + 2 →
        Bnd (P * 2 + 2) r4.2.toRat decTwo.toRat j z.toRat → StepOK (P * 2 + 2) z decTwo := by
      intro z j _ hj hz hzd hb
      rw [decTwo_toRat] at hb
      obtain ⟨q1, q2, q3, q4⟩ := pb j (by omega)
      obtain ⟨m1, m2, m3, m4⟩ := pb M (by omega)
      have h1e : 0 ≤ 1 - eps (P * 2 + 2) := by linarith
      have hwu : z.toRat ≤ r4.2.toRat * 2 ^ M * (1 + eps (P * 2 + 2)) ^ M := by
        have a1 : (2 : ℚ) ^ j ≤ 2 ^ M := pow_le_pow_right₀ (by norm_num) (by omega)
        have a2 : (1 + eps (P * 2 + 2)) ^ j ≤ (1 + eps (P * 2 + 2)) ^ M :=
          pow_le_pow_right₀ (by linarith) (by omega)
        calc z.toRat ≤ r4.2.toRat * 2 ^ j * (1 + eps (P * 2 + 2)) ^ j := hb.2
          _ ≤ r4.2.toRat * 2 ^ M * (1 + eps (P * 2 + 2)) ^ M := by
              apply mul_le_mul _ a2 (by positivity) (by positivity)
              exact mul_le_mul_of_nonneg_left a1 hy0.le
      have hwu0 : 0 < r4.2.toRat * 2 ^ M * (1 + eps (P * 2 + 2)) ^ M := by positivity
      have hc := (cube _ (by
        apply mul_le_mul_of_nonneg_left _ (by positivity)
        linarith) (le_refl _)).2
      have hlt := lt_of_cube _ a hwu0 (lt_of_le_of_lt hc hXhi)
      have hzlo : (10 : ℚ) ^ (-3 : ℤ) ≤ z.toRat := by
        rw [t3]
        have a1 : (1 : ℚ) ≤ 2 ^ j := one_le_pow₀ (by norm_num)
        have : 9 / 20 * 1 * (1 / 65) ≤ r4.2.toRat * 2 ^ j * (1 - eps (P * 2 + 2)) ^ j := by
          apply mul_le_mul _ q1 (by norm_num) (by positivity)
          exact mul_le_mul hylo a1 (by norm_num) hy0.le
        linarith [hb.1]
      have hzr : Rng z.toRat (-3) (a + 2) := ⟨hzlo, lt_of_le_of_lt hwu hlt⟩
      obtain ⟨x1, x2⟩ := hzr.exp hz hzd
      have hnd : ndigits (z.coeff * decTwo.coeff) ≤ 99999 + (P * 2 + 2) := by
        have := ndigits_mul_le z.coeff decTwo.coeff hz.h0 (by decide)
        have := decTwo_nd
        omega
      refine ⟨by omega, by omega, by rw [hdec]; omega, hnd, ?_, ?_⟩
      · rw [decTwo_toRat]
        have : Rng (z.toRat * 2) (-3 + 0) (a + 2 + 1) :=
          hzr.mul (⟨by rw [t0]; norm_num, by rw [t1]; norm_num⟩ : Rng (2 : ℚ) 0 1)
        exact this.lo (by omega)
      · rw [decTwo_toRat]
        have : Rng (z.toRat * 2) (-3 + 0) (a + 2 + 1) :=
          hzr.mul (⟨by rw [t0]; norm_num, by rw [t1]; norm_num⟩ : Rng (2 : ℚ) 0 1)
        exact this.hi (by omega)
    obtain ⟨f1, f2, f3, f4⟩ := mulN_fw cc (P * 2 + 2) hw hp4 hp2 decTwo decTwo_pos (by decide) (by decide)
      r4.2.toRat hy0.le M 0 r4.1 r4.2 g1 g2 g3 (Bnd_zero _ _ _) hstep
    rw [decTwo_toRat, Nat.zero_add] at f4
    obtain ⟨k1, k2⟩ := cube _ f4.1 f4.2
    exact ⟨f1, f2, f3, k1, k2⟩

/-! ## stage 5: the Newton loop -/

theorem real_root (X : ℚ) (a : ℤ) (hX : Rng X (3 * a) (3 * a + 3)) :
    ∃ r : ℝ, 0 < r ∧ (X : ℝ) = r ^ 3 ∧ (10 : ℝ) ^ a ≤ r ∧ r < (10 : ℝ) ^ (a + 1) := by
  have hXr : (0 : ℝ) < (X : ℝ) := by exact_mod_cast hX.pos
  obtain ⟨r, hr0, hr3⟩ : ∃ r : ℝ, 0 < r ∧ (X : ℝ) = r ^ 3 := by
    refine ⟨(X : ℝ) ^ (((3 : ℕ) : ℝ)⁻¹), Real.rpow_pos_of_pos hXr _, ?_⟩
    exact (Real.rpow_inv_natCast_pow hXr.le (by norm_num)).symm
  have h1 : ((10 : ℝ) ^ a) ^ 3 ≤ (X : ℝ) := by
    have : (((10 : ℚ) ^ (3 * a) : ℚ) : ℝ) ≤ (X : ℝ) := by exact_mod_cast hX.1
    push_cast at this
    rw [← zpow_natCast, ← zpow_mul]
    convert this using 2
    push_cast; ring
  have h2 : (X : ℝ) < ((10 : ℝ) ^ (a + 1)) ^ 3 := by
    have : (X : ℝ) < (((10 : ℚ) ^ (3 * a + 3) : ℚ) : ℝ) := by exact_mod_cast hX.2
    push_cast at this
    rw [← zpow_natCast, ← zpow_mul]
    convert this using 2
    push_cast; ring
  have p1 : (0 : ℝ) < (10 : ℝ) ^ a := zpow_pos (by norm_num) a
  have p2 : (0 : ℝ) < (10 : ℝ) ^ (a + 1) := zpow_pos (by norm_num) _
  refine ⟨r, hr0, hr3, ?_, ?_⟩
  · rw [hr3] at h1
    exact le_of_pow_le_pow_left₀ (by norm_num) hr0.le h1
  · rw [hr3] at h2
    exact lt_of_pow_lt_pow_left₀ 3 p2.le h2

/-- what the closeness of the last iterate (on cubes, `τ ≤ 3/100`) gives in decimal ranges -/
theorem close_ranges (z X τ : ℚ) (a : ℤ) (hz : 0 < z) (hX : Rng X (3 * a) (3 * a + 3)) (hτ0 : 0 < τ)
    (hτ : τ ≤ 3 / 100) (c1 : (z * (1 - τ)) ^ 3 ≤ X) (c2 : X ≤ (z * (1 + τ)) ^ 3) :
    Rng z (a - 1) (a + 2) ∧ z < 2 * (10 : ℚ) ^ (a + 1) ∧ (10 : ℚ) ^ a ≤ 2 * z := by
  have e1 : ((10 : ℚ) ^ (a + 1)) ^ 3 = (10 : ℚ) ^ (3 * a + 3) := by
    rw [← zpow_natCast, ← zpow_mul]; congr 1; push_cast; ring
  have e0 : ((10 : ℚ) ^ a) ^ 3 = (10 : ℚ) ^ (3 * a) := by
    rw [← zpow_natCast, ← zpow_mul]; congr 1; push_cast; ring
  have h1 : z * (1 - τ) < (10 : ℚ) ^ (a + 1) := by
    apply lt_of_pow_lt_pow_left₀ 3 (tp _).le
    rw [e1]; exact lt_of_le_of_lt c1 hX.2
  have h2 : (10 : ℚ) ^ a ≤ z * (1 + τ) := by
    have hpos : 0 ≤ z * (1 + τ) := by
      have : 0 < 1 + τ := by linarith
      positivity
    apply le_of_pow_le_pow_left₀ (n := 3) (by norm_num) hpos
    rw [e0]; exact le_trans hX.1 c2
  have p0 := tp a
  have p1 : (10 : ℚ) ^ (a + 1) = (10 : ℚ) ^ a * 10 := zpow_add_one₀ ten_ne a
  have hzτ : z * τ ≤ z * (3 / 100) := mul_le_mul_of_nonneg_left hτ hz.le
  have hzτ0 : 0 < z * τ := mul_pos hz hτ0
  refine ⟨⟨?_, ?_⟩, ?_, ?_⟩
  · rw [zpow_sub_one₀ ten_ne]; nlinarith
  · rw [show a + 2 = a + 1 + 1 by ring, zpow_add_one₀ ten_ne]; nlinarith
  · nlinarith
  · nlinarith

theorem stage_iter (cc : Ctx) (P : ℕ) (ax : Dec) (A a : ℤ) (S : Side P ax A a) (hw : NCtx cc (P * 2 + 2))
    (hax : Pos ax) (e : ED) (z0 : Dec) (he : EDg cc e) (hz0 : Pos z0) (hnd : ndigits z0.coeff ≤ P * 2 + 2)
    (hlo : (97 / 100) ^ 3 * (1 / 65) * ax.toRat ≤ z0.toRat ^ 3)
    (hhi : z0.toRat ^ 3 ≤ (103 / 100) ^ 3 * 65 * ax.toRat) :
    ∃ zf, cbrtIter cc ((P : ℤ) + 1) (10 + (P + 1)) ax (10 + (P + 1) + 2) e z0 {} = some (.inr zf) ∧
      Pos zf ∧ ndigits zf.coeff ≤ P * 2 + 2 ∧ Rng zf.toRat (a - 1) (a + 2) ∧ zf.toRat < 2 * (10 : ℚ) ^ (a + 1) ∧
      (10 : ℚ) ^ a ≤ 2 * zf.toRat ∧
      (zf.toRat * (1 - 3 * ((10 : ℚ) ^ (-(P : ℤ))) ^ 2)) ^ 3 ≤ ax.toRat ∧
      ax.toRat ≤ (zf.toRat * (1 + 3 * ((10 : ℚ) ^ (-(P : ℤ))) ^ 2)) ^ 3 := by
  obtain ⟨r1, r2, r3, r4, r5, r6⟩ := S.ranges
  obtain ⟨hXA, hX3⟩ := S.X_rng hax
  obtain ⟨r, hr0, hr3, hr1, hr2⟩ := real_root ax.toRat a hX3
  have hnp := ndigits_pos ax.coeff
  have hA := S.hA
  have Su : Setup cc P ax a r :=
    { hw := hw, hP := S.hP, hp2 := by have := S.hP2; omega, hax := hax, haxd := by have := S.hnd; omega
      H1 := by have := S.H1; push_cast; omega
      H2 := by have := S.H2; omega
      H3 := S.H3
      H4 := by have := S.H2; have := S.hP2; push_cast; omega
      hX := hX3, hr := hr0, hr3 := hr3, hr1 := hr1, hr2 := hr2 }
  obtain ⟨w1, w2⟩ := start_wide z0.toRat ax.toRat r hr0 hr3 hz0.toRat_pos hlo hhi
  have hinv : Inv P r 0 z0 := by
    refine ⟨hz0, hnd, ?_⟩
    unfold Near
    simp only [Nat.ofNat_pos, if_true, Whi]
    exact ⟨w1, w2⟩
  obtain ⟨zf, h1, h2, h3, c1, c2⟩ := iter_fw Su (10 + (P + 1)) (by omega) (10 + (P + 1) + 2) 0 e z0 {} (by omega)
    (by omega) rfl (Or.inr ⟨rfl, rfl⟩) he hinv
  obtain ⟨t0, t1⟩ := CbrtT.tau_le P S.hP
  obtain ⟨k1, k2, k3⟩ := close_ranges zf.toRat ax.toRat _ a h2.toRat_pos hX3 t0 t1 c1 c2
  exact ⟨zf, h1, h2, h3, k1, k2, k3, c1, c2⟩

end Apd.CbrtC

#print axioms Apd.CbrtC.stage_est
#print axioms Apd.CbrtC.stage_iter
