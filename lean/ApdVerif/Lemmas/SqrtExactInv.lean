import ApdVerif.Lemmas.SqrtExactMath
/-!
# The sharp (absolute) invariant of the Sqrt loop for a terminating decimal root, over `ℚ`

`|A_p - r| ≤ Bd r g p · 10^(-p)`: the bound depends on the range of `r` (which roundings of a round can cross
a power of ten) and on how many rounds have passed.
-/
namespace Apd.SqrtX
open Apd Apd.Oracle Apd.RatSpec Apd.C20L

/-- one round: from `|A - r| ≤ D·v`, `v² ≤ u/100`, and a rounding constant `c` -/
theorem step_gen (r A A' D κ c v u : ℚ) (hr : 0 < r) (hκ : 0 < κ) (hA : κ * r ≤ A) (hD : 0 ≤ D) (hv : 0 ≤ v)
    (hd : |A - r| ≤ D * v) (hvu : v ^ 2 ≤ u / 100)
    (he : |A' - r| ≤ (A - r) ^ 2 / A / 2 + c * u) :
    |A' - r| ≤ (c + D ^ 2 / (200 * κ * r)) * u := by
  have h := theta_le r A D κ v u hr hκ hA hD hv hd hvu
  have e : D ^ 2 / (200 * κ * r) = D ^ 2 / (100 * κ * r) / 2 := by field_simp; ring
  rw [e]
  linarith

/-- the bound of the sharp invariant, in units of `10^(-p)` -/
def Bd (r : ℚ) (g p : ℕ) : ℚ :=
  if p < 4 then 100 * r else
  if r ≤ 2 / 5 then
    (if p < 6 then 1 + 56 * r else if p < 10 then 42 / 25 + 35 / 2 * r else 149 / 100 + 43 / 25 * r)
  else if r < 1 / 2 then
    (if p < 6 then 13 / 4 + 56 * r else if p < 10 ∨ p < g + 3 then 71 / 5 else 18 / 5)
  else if r ≤ 89 / 100 then
    (if p < 6 then 13 / 4 + 56 * r else if p < 10 then 21 else 41 / 5)
  else (if p < 6 then 67 else if p < 10 then 36 else 18)

theorem Bd_nonneg (r : ℚ) (g p : ℕ) (hr : 0 ≤ r) : 0 ≤ Bd r g p := by
  unfold Bd; split_ifs <;> linarith

/-- from the first real round on the bound is at most `100 r` (so the iterate is within 1 % of the root) -/
theorem Bd_le (r : ℚ) (g p : ℕ) (hr : 1 / 10 ≤ r) (hr2 : r < 1) (hp : 4 ≤ p) :
    Bd r g p ≤ (if p < 6 then 100 * r else 1000 * r) := by
  unfold Bd
  have : ¬ p < 4 := by omega
  simp only [this, if_false]
  split_ifs <;> linarith

theorem pow_sq (p p' : ℕ) (hp : 3 ≤ p) (hle : p' ≤ 2 * p - 2) :
    ((10 : ℚ) ^ (-(p : ℤ))) ^ 2 ≤ (10 : ℚ) ^ (-(p' : ℤ)) / 100 := by
  have h1 : ((10 : ℚ) ^ (-(p : ℤ))) ^ 2 = (10 : ℚ) ^ (2 * (-(p : ℤ))) := by
    rw [← zpow_natCast, ← zpow_mul]; congr 1; push_cast; ring
  have h2 : (10 : ℚ) ^ (2 * (-(p : ℤ))) ≤ (10 : ℚ) ^ (-(p' : ℤ) - 2) := zpow_le_zpow_right₀ ten_ge (by omega)
  have h3 : (10 : ℚ) ^ (-(p' : ℤ) - 2) = (10 : ℚ) ^ (-(p' : ℤ)) / 100 := by
    rw [zpow_sub₀ ten_ne]; norm_num
  rw [h1]; linarith

theorem pow_le4 (p : ℕ) (hp : 4 ≤ p) : (10 : ℚ) ^ (-(p : ℤ)) ≤ 1 / 10000 := by
  have : (10 : ℚ) ^ (-(p : ℤ)) ≤ (10 : ℚ) ^ (-4 : ℤ) := zpow_le_zpow_right₀ ten_ge (by omega)
  have e : (10 : ℚ) ^ (-4 : ℤ) = 1 / 10000 := by norm_num
  rw [e] at this; exact this

theorem pow_le6 (p : ℕ) (hp : 6 ≤ p) : (10 : ℚ) ^ (-(p : ℤ)) ≤ 1 / 1000000 := by
  have : (10 : ℚ) ^ (-(p : ℤ)) ≤ (10 : ℚ) ^ (-6 : ℤ) := zpow_le_zpow_right₀ ten_ge (by omega)
  have e : (10 : ℚ) ^ (-6 : ℤ) = 1 / 1000000 := by norm_num
  rw [e] at this; exact this

/-- the hypotheses of one step of the sharp invariant -/
structure StepHyp (r : ℚ) (g p p' : ℕ) (A qh sh A' : ℚ) : Prop where
  hr1 : 1 / 10 ≤ r
  hr2 : r < 1
  hp3 : 3 ≤ p
  hpp : p < p'
  hle : p' ≤ 2 * p - 2
  hl1 : p < 4 → p' < 6
  hl2 : p < 6 → p' < 10
  hl3 : 4 ≤ p → 6 ≤ p'
  hl4 : 6 ≤ p → 10 ≤ p'
  hA1 : 9 / 10 * r ≤ A
  hA2 : A ≤ 11 / 10 * r
  rd : Rd p' r A qh sh A'
  hd : |A - r| ≤ Bd r g p * (10 : ℚ) ^ (-(p : ℤ))

/-- from the first real round on the iterate is within 1 % of the root -/
theorem StepHyp.close {r : ℚ} {g p p' : ℕ} {A qh sh A' : ℚ} (h : StepHyp r g p p' A qh sh A') (hp : 4 ≤ p) :
    99 / 100 * r ≤ A := by
  have hb := Bd_le r g p h.hr1 h.hr2 hp
  have hv0 := tp (-(p : ℤ))
  obtain ⟨d1, d2⟩ := abs_le.1 h.hd
  by_cases h6 : p < 6
  · rw [if_pos h6] at hb
    have := pow_le4 p hp
    have : Bd r g p * (10 : ℚ) ^ (-(p : ℤ)) ≤ (100 * r) * (1 / 10000) :=
      mul_le_mul hb this hv0.le (by linarith [h.hr1])
    linarith
  · rw [if_neg h6] at hb
    have := pow_le6 p (by omega)
    have : Bd r g p * (10 : ℚ) ^ (-(p : ℤ)) ≤ (1000 * r) * (1 / 1000000) :=
      mul_le_mul hb this hv0.le (by linarith [h.hr1])
    linarith

theorem StepHyp.core {r : ℚ} {g p p' : ℕ} {A qh sh A' : ℚ} (h : StepHyp r g p p' A qh sh A')
    (c D κ B' : ℚ) (hκ : κ = 9 / 10 ∨ (κ = 99 / 100 ∧ 4 ≤ p)) (hD : Bd r g p ≤ D)
    (he : |A' - r| ≤ (A - r) ^ 2 / A / 2 + c * (10 : ℚ) ^ (-(p' : ℤ)))
    (hB : D ^ 2 ≤ 200 * κ * r * (B' - c)) :
    |A' - r| ≤ B' * (10 : ℚ) ^ (-(p' : ℤ)) := by
  have hr0 : 0 < r := by linarith [h.hr1]
  have hv0 := tp (-(p : ℤ))
  have hu0 := tp (-(p' : ℤ))
  have hD0 : 0 ≤ D := le_trans (Bd_nonneg r g p hr0.le) hD
  have hκ0 : 0 < κ := by rcases hκ with rfl | ⟨rfl, -⟩ <;> norm_num
  have hA : κ * r ≤ A := by
    rcases hκ with rfl | ⟨rfl, h4⟩
    · exact h.hA1
    · exact h.close h4
  have hd : |A - r| ≤ D * (10 : ℚ) ^ (-(p : ℤ)) :=
    le_trans h.hd (mul_le_mul_of_nonneg_right hD hv0.le)
  have := step_gen r A A' D κ c _ _ hr0 hκ0 hA hD0 hv0.le hd (pow_sq p p' h.hp3 h.hle) he
  refine le_trans this (mul_le_mul_of_nonneg_right ?_ hu0.le)
  have hpos : 0 < 200 * κ * r := by positivity
  rw [← le_sub_iff_add_le', div_le_iff₀ hpos]
  linarith

theorem StepHyp.u4 {r : ℚ} {g p p' : ℕ} {A qh sh A' : ℚ} (h : StepHyp r g p p' A qh sh A') :
    (10 : ℚ) ^ (-(p' : ℤ)) ≤ 1 / 10000 := pow_le4 p' (by have := h.hp3; have := h.hpp; omega)

/-- region A: `r ≤ 0.4`, no rounding of the round crosses a power of ten -/
theorem StepHyp.regA {r : ℚ} {g p p' : ℕ} {A qh sh A' : ℚ} (h : StepHyp r g p p' A qh sh A')
    (hr : r ≤ 2 / 5) : |A' - r| ≤ Bd r g p' * (10 : ℚ) ^ (-(p' : ℤ)) := by
  have hr1 := h.hr1
  have hu0 := tp (-(p' : ℤ))
  have hu := h.u4
  have hth := theta_inv r A (by linarith) h.hA1 h.hA2
  have he := err_c1 h.rd h.hr1 (by linarith) h.hA1 hu0 hu (by linarith)
  rw [← one_mul ((10 : ℚ) ^ (-(p' : ℤ)))] at he
  have hp3 := h.hp3; have hpp := h.hpp; have hl1 := h.hl1; have hl2 := h.hl2; have hl3 := h.hl3; have hl4 := h.hl4
  have hB : ∀ q : ℕ, Bd r g q = if q < 4 then 100 * r else
      (if q < 6 then 1 + 56 * r else if q < 10 then 42 / 25 + 35 / 2 * r else 149 / 100 + 43 / 25 * r) := by
    intro q; unfold Bd; rw [if_pos hr]
  rw [hB p']
  have n4 : ¬ p' < 4 := by omega
  rw [if_neg n4]
  by_cases c4 : p < 4
  · have : p' < 6 := hl1 c4
    rw [if_pos this]
    apply h.core 1 (100 * r) (9 / 10) _ (Or.inl rfl) (by rw [hB p, if_pos c4]) he
    nlinarith
  · by_cases c6 : p < 6
    · have a1 : ¬ p' < 6 := by omega
      have a2 : p' < 10 := hl2 c6
      rw [if_neg a1, if_pos a2]
      apply h.core 1 (1 + 56 * r) (9 / 10) _ (Or.inl rfl) (by rw [hB p, if_neg c4, if_pos c6]) he
      nlinarith
    · have a1 : ¬ p' < 6 := by omega
      have a2 : ¬ p' < 10 := by omega
      rw [if_neg a1, if_neg a2]
      by_cases c10 : p < 10
      · apply h.core 1 (42 / 25 + 35 / 2 * r) (9 / 10) _ (Or.inl rfl)
          (by rw [hB p, if_neg c4, if_neg c6, if_pos c10]) he
        nlinarith
      · apply h.core 1 (149 / 100 + 43 / 25 * r) (9 / 10) _ (Or.inl rfl)
          (by rw [hB p, if_neg c4, if_neg c6, if_neg c10]) he
        nlinarith

/-- region C: `0.5 ≤ r ≤ 0.89`, only the sum crosses 1 -/
theorem StepHyp.regC {r : ℚ} {g p p' : ℕ} {A qh sh A' : ℚ} (h : StepHyp r g p p' A qh sh A')
    (hrl : 1 / 2 ≤ r) (hr : r ≤ 89 / 100) : |A' - r| ≤ Bd r g p' * (10 : ℚ) ^ (-(p' : ℤ)) := by
  have hu0 := tp (-(p' : ℤ))
  have hu := h.u4
  have he := err_c3 h.rd h.hr1 hr h.hA1 h.hA2 hu0 hu
  have hp3 := h.hp3; have hpp := h.hpp; have hl1 := h.hl1; have hl2 := h.hl2; have hl3 := h.hl3; have hl4 := h.hl4
  have hB : ∀ q : ℕ, Bd r g q = if q < 4 then 100 * r else
      (if q < 6 then 13 / 4 + 56 * r else if q < 10 then 21 else 41 / 5) := by
    intro q; unfold Bd
    rw [if_neg (by linarith : ¬ r ≤ 2 / 5), if_neg (by linarith : ¬ r < 1 / 2), if_pos hr]
  rw [hB p']
  have n4 : ¬ p' < 4 := by omega
  rw [if_neg n4]
  by_cases c4 : p < 4
  · have : p' < 6 := hl1 c4
    rw [if_pos this]
    apply h.core (13 / 4) (100 * r) (9 / 10) _ (Or.inl rfl) (by rw [hB p, if_pos c4]) he
    nlinarith
  · by_cases c6 : p < 6
    · have a1 : ¬ p' < 6 := by omega
      have a2 : p' < 10 := hl2 c6
      rw [if_neg a1, if_pos a2]
      apply h.core (13 / 4) (13 / 4 + 56 * r) (9 / 10) _ (Or.inl rfl) (by rw [hB p, if_neg c4, if_pos c6]) he
      nlinarith
    · have a1 : ¬ p' < 6 := by omega
      have a2 : ¬ p' < 10 := by omega
      rw [if_neg a1, if_neg a2]
      by_cases c10 : p < 10
      · apply h.core (13 / 4) 21 (9 / 10) _ (Or.inl rfl)
          (by rw [hB p, if_neg c4, if_neg c6, if_pos c10]) he
        nlinarith
      · apply h.core (13 / 4) (41 / 5) (9 / 10) _ (Or.inl rfl)
          (by rw [hB p, if_neg c4, if_neg c6, if_neg c10]) he
        nlinarith

/-- region D: `r > 0.89`, every rounding of the round may cross 1 -/
theorem StepHyp.regD {r : ℚ} {g p p' : ℕ} {A qh sh A' : ℚ} (h : StepHyp r g p p' A qh sh A')
    (hr : 89 / 100 < r) : |A' - r| ≤ Bd r g p' * (10 : ℚ) ^ (-(p' : ℤ)) := by
  have hr2 := h.hr2
  have hu0 := tp (-(p' : ℤ))
  have hu := h.u4
  have he := err_c10 h.rd h.hr1 h.hr2 h.hA1 h.hA2 hu0 hu
  have hp3 := h.hp3; have hpp := h.hpp; have hl1 := h.hl1; have hl2 := h.hl2; have hl3 := h.hl3; have hl4 := h.hl4
  have hB : ∀ q : ℕ, Bd r g q = if q < 4 then 100 * r else
      (if q < 6 then 67 else if q < 10 then 36 else 18) := by
    intro q; unfold Bd
    rw [if_neg (by linarith : ¬ r ≤ 2 / 5), if_neg (by linarith : ¬ r < 1 / 2),
      if_neg (by linarith : ¬ r ≤ 89 / 100)]
  rw [hB p']
  have n4 : ¬ p' < 4 := by omega
  rw [if_neg n4]
  by_cases c4 : p < 4
  · have : p' < 6 := hl1 c4
    rw [if_pos this]
    apply h.core (41 / 4) (100 * r) (9 / 10) _ (Or.inl rfl) (by rw [hB p, if_pos c4]) he
    nlinarith
  · by_cases c6 : p < 6
    · have a1 : ¬ p' < 6 := by omega
      have a2 : p' < 10 := hl2 c6
      rw [if_neg a1, if_pos a2]
      apply h.core (41 / 4) 67 (99 / 100) _ (Or.inr ⟨rfl, by omega⟩) (by rw [hB p, if_neg c4, if_pos c6]) he
      nlinarith
    · have a1 : ¬ p' < 6 := by omega
      have a2 : ¬ p' < 10 := by omega
      rw [if_neg a1, if_neg a2]
      by_cases c10 : p < 10
      · apply h.core (41 / 4) 36 (99 / 100) _ (Or.inr ⟨rfl, by omega⟩)
          (by rw [hB p, if_neg c4, if_neg c6, if_pos c10]) he
        nlinarith
      · apply h.core (41 / 4) 18 (99 / 100) _ (Or.inr ⟨rfl, by omega⟩)
          (by rw [hB p, if_neg c4, if_neg c6, if_neg c10]) he
        nlinarith

/-- region B: `0.4 < r < 0.5`: the sum may reach 1 until the grid is fine enough to separate `2r` from 1 -/
theorem StepHyp.regB {r : ℚ} {g p p' : ℕ} {A qh sh A' : ℚ} (h : StepHyp r g p p' A qh sh A')
    (k : ℤ) (hk : r = (k : ℚ) * (10 : ℚ) ^ (-(g : ℤ)))
    (hrl : 2 / 5 < r) (hr : r < 1 / 2) : |A' - r| ≤ Bd r g p' * (10 : ℚ) ^ (-(p' : ℤ)) := by
  have hu0 := tp (-(p' : ℤ))
  have hv0 := tp (-(p : ℤ))
  have hu := h.u4
  have he := err_c3 h.rd h.hr1 (by linarith) h.hA1 h.hA2 hu0 hu
  have hp3 := h.hp3; have hpp := h.hpp; have hl1 := h.hl1; have hl2 := h.hl2; have hl3 := h.hl3; have hl4 := h.hl4
  have hB : ∀ q : ℕ, Bd r g q = if q < 4 then 100 * r else
      (if q < 6 then 13 / 4 + 56 * r else if q < 10 ∨ q < g + 3 then 71 / 5 else 18 / 5) := by
    intro q; unfold Bd
    rw [if_neg (by linarith : ¬ r ≤ 2 / 5), if_pos hr]
  rw [hB p']
  have n4 : ¬ p' < 4 := by omega
  rw [if_neg n4]
  by_cases c4 : p < 4
  · have : p' < 6 := hl1 c4
    rw [if_pos this]
    apply h.core (13 / 4) (100 * r) (9 / 10) _ (Or.inl rfl) (by rw [hB p, if_pos c4]) he
    nlinarith
  · by_cases c6 : p < 6
    · have a1 : ¬ p' < 6 := by omega
      have a2 : p' < 10 := hl2 c6
      rw [if_neg a1, if_pos (Or.inl a2)]
      apply h.core (13 / 4) (13 / 4 + 56 * r) (9 / 10) _ (Or.inl rfl) (by rw [hB p, if_neg c4, if_pos c6]) he
      nlinarith
    · have a1 : ¬ p' < 6 := by omega
      rw [if_neg a1]
      have hD : Bd r g p ≤ 71 / 5 := by
        rw [hB p, if_neg c4, if_neg c6]; split_ifs <;> norm_num
      by_cases cf : p' < 10 ∨ p' < g + 3
      · rw [if_pos cf]
        apply h.core (13 / 4) (71 / 5) (99 / 100) _ (Or.inr ⟨rfl, by omega⟩) hD he
        nlinarith
      · rw [if_neg cf]
        have hA99 := h.close (by omega)
        have hd : |A - r| ≤ 71 / 5 * (10 : ℚ) ^ (-(p : ℤ)) :=
          le_trans h.hd (mul_le_mul_of_nonneg_right hD hv0.le)
        have hth := theta_le r A (71 / 5) (99 / 100) _ _ (by linarith) (by norm_num) hA99 (by norm_num) hv0.le hd
          (pow_sq p p' hp3 h.hle)
        have hth2 : (71 / 5 : ℚ) ^ 2 / (100 * (99 / 100) * r) ≤ 6 := by
          rw [div_le_iff₀ (by nlinarith)]; nlinarith
        have hth3 : (A - r) ^ 2 / A ≤ 6 * (10 : ℚ) ^ (-(p' : ℤ)) :=
          le_trans hth (mul_le_mul_of_nonneg_right hth2 hu0.le)
        have hGu := pow_gap g p' (by omega)
        have h2r : 2 * r = ((2 * k : ℤ) : ℚ) * (10 : ℚ) ^ (-(g : ℤ)) := by rw [hk]; push_cast; ring
        have hr4 : 2 * r ≤ 1 - (10 : ℚ) ^ (-(g : ℤ)) := by
          rw [h2r]; apply frac_le; rw [← h2r]; linarith
        have he1 := err_c1 h.rd h.hr1 (by linarith) h.hA1 hu0 hu (by linarith)
        rw [← one_mul ((10 : ℚ) ^ (-(p' : ℤ)))] at he1
        apply h.core 1 (71 / 5) (99 / 100) _ (Or.inr ⟨rfl, by omega⟩) hD he1
        nlinarith

/-- **one step of the sharp invariant** -/
theorem StepHyp.step {r : ℚ} {g p p' : ℕ} {A qh sh A' : ℚ} (h : StepHyp r g p p' A qh sh A')
    (k : ℤ) (hk : r = (k : ℚ) * (10 : ℚ) ^ (-(g : ℤ))) :
    |A' - r| ≤ Bd r g p' * (10 : ℚ) ^ (-(p' : ℤ)) := by
  by_cases h1 : r ≤ 2 / 5
  · exact h.regA h1
  · by_cases h2 : r < 1 / 2
    · exact h.regB k hk (by linarith) h2
    · by_cases h3 : r ≤ 89 / 100
      · exact h.regC (by linarith) h3
      · exact h.regD (by linarith)

/-- **lock-in**: a round from an iterate of precision `p ≥ max 10 (g+3)` that satisfies the sharp bound and
lies on the grid of the round returns `r` exactly -/
theorem StepHyp.lock {r : ℚ} {g p p' : ℕ} {A qh sh A' : ℚ} (h : StepHyp r g p p' A qh sh A')
    (k : ℤ) (hk : r = (k : ℚ) * (10 : ℚ) ^ (-(g : ℤ))) (hp10 : 10 ≤ p) (hpg : g + 3 ≤ p)
    (m : ℤ) (hm : A = (m : ℚ) * (10 : ℚ) ^ (-(p' : ℤ))) : A' = r := by
  have hr1 := h.hr1
  have hr2 := h.hr2
  have hu0 := tp (-(p' : ℤ))
  have hv0 := tp (-(p : ℤ))
  have hG0 := tp (-(g : ℤ))
  have hpp := h.hpp
  have hA99 := h.close (by omega)
  have hGv := pow_gap g p hpg
  have n4 : ¬ p < 4 := by omega
  have n6 : ¬ p < 6 := by omega
  have n10 : ¬ p < 10 := by omega
  have nf : ¬ (p < 10 ∨ p < g + 3) := by omega
  -- the bound and what it gives for the Newton term
  have key : Bd r g p ≤ 18 ∧ (r < 1 / 2 → Bd r g p ^ 2 ≤ 99 * r * (2 / 5)) ∧
      Bd r g p ^ 2 ≤ 99 * r * (22 / 5) := by
    unfold Bd
    rw [if_neg n4]
    by_cases h1 : r ≤ 2 / 5
    · rw [if_pos h1, if_neg n6, if_neg n10]
      refine ⟨by linarith, fun _ => by nlinarith, by nlinarith⟩
    · rw [if_neg h1]
      by_cases h2 : r < 1 / 2
      · rw [if_pos h2, if_neg n6, if_neg nf]
        refine ⟨by norm_num, fun _ => by nlinarith, by nlinarith⟩
      · rw [if_neg h2]
        by_cases h3 : r ≤ 89 / 100
        · rw [if_pos h3, if_neg n6, if_neg n10]
          refine ⟨by norm_num, fun hh => absurd hh h2, by nlinarith⟩
        · rw [if_neg h3, if_neg n6, if_neg n10]
          refine ⟨by norm_num, fun hh => absurd hh h2, by nlinarith⟩
  obtain ⟨k1, k2, k3⟩ := key
  have hB0 := Bd_nonneg r g p (by linarith)
  have hth := theta_le r A (Bd r g p) (99 / 100) _ _ (by linarith) (by norm_num) hA99 hB0 hv0.le h.hd
    (pow_sq p p' h.hp3 h.hle)
  have hpos : 0 < 100 * (99 / 100 : ℚ) * r := by nlinarith
  have hd : |A - r| ≤ (10 : ℚ) ^ (-(g : ℤ)) / 20 := by
    have : Bd r g p * (10 : ℚ) ^ (-(p : ℤ)) ≤ 18 * ((10 : ℚ) ^ (-(g : ℤ)) / 1000) :=
      mul_le_mul k1 hGv hv0.le (by norm_num)
    linarith [h.hd]
  apply SqrtX.lock h.rd k hk (by omega) hr1 hr2 m hm hd
  · intro hs
    refine le_trans hth (mul_le_mul_of_nonneg_right ?_ hu0.le)
    rw [div_le_iff₀ hpos]; linarith [k2 hs]
  · refine le_trans hth (mul_le_mul_of_nonneg_right ?_ hu0.le)
    rw [div_le_iff₀ hpos]; linarith

end Apd.SqrtX

#print axioms Apd.SqrtX.StepHyp.step
#print axioms Apd.SqrtX.StepHyp.lock
