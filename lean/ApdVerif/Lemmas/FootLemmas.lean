import ApdVerif.Imp.Ops
/-!
# Footprints of the store-level programs (core Lean only)

`Foot R W p` for every program of `Imp/Ops.lean`, where the destination is in `W` and every operand pointer
is "covered" (`SrcOK`): a cell in `R ∪ W` or a constant.
-/
namespace Apd.Imp
open Apd Apd.Cond Prog

/-- an operand pointer is covered by the footprint: a constant, or a cell in `R ∪ W` -/
def SrcOK (R W : Cell → Prop) (s : Src) : Prop := ∀ c, s = .cell c → R c ∨ W c

variable {R W : Cell → Prop}

theorem SrcOK.const (v : Dec) : SrcOK R W (.const v) := fun _ e => by cases e
theorem SrcOK.dest {d : Cell} (hd : W d) : SrcOK R W (.cell d) := fun _ e => by cases e; exact Or.inr hd
theorem SrcOK.read {x : Cell} (hx : R x) : SrcOK R W (.cell x) := fun _ e => by cases e; exact Or.inl hx

theorem Foot_rdForm {s : Src} (hs : SrcOK R W s) : Foot R W (rdForm s) := by
  cases s with
  | cell c => exact .getForm _ _ (hs c rfl) (fun v => .ret v)
  | const v => exact .ret _
theorem Foot_rdNeg {s : Src} (hs : SrcOK R W s) : Foot R W (rdNeg s) := by
  cases s with
  | cell c => exact .getNeg _ _ (hs c rfl) (fun v => .ret v)
  | const v => exact .ret _
theorem Foot_rdExp {s : Src} (hs : SrcOK R W s) : Foot R W (rdExp s) := by
  cases s with
  | cell c => exact .getExp _ _ (hs c rfl) (fun v => .ret v)
  | const v => exact .ret _
theorem Foot_rdCoeff {s : Src} (hs : SrcOK R W s) : Foot R W (rdCoeff s) := by
  cases s with
  | cell c => exact .getCoeff _ _ (hs c rfl) (fun v => .ret v)
  | const v => exact .ret _

theorem Foot_wrForm {d : Cell} (hd : W d) (v : Form) : Foot R W (wrForm d v) := .setForm _ _ _ hd (.ret _)
theorem Foot_wrNeg {d : Cell} (hd : W d) (v : Bool) : Foot R W (wrNeg d v) := .setNeg _ _ _ hd (.ret _)
theorem Foot_wrExp {d : Cell} (hd : W d) (v : Int) : Foot R W (wrExp d v) := .setExp _ _ _ hd (.ret _)
theorem Foot_wrCoeff {d : Cell} (hd : W d) (v : Nat) : Foot R W (wrCoeff d v) := .setCoeff _ _ _ hd (.ret _)

/-- side goals of the footprint rules -/
macro "foot_side" : tactic =>
  `(tactic| first
    | assumption
    | exact SrcOK.const _
    | exact SrcOK.dest (by assumption)
    | exact SrcOK.read (by assumption))

/-- decompose a `Foot` goal along the structure of the program (primitive accesses only) -/
macro "foot_prim" : tactic =>
  `(tactic| repeat' (first
    | exact Foot.pure _
    | exact Foot.ret _
    | apply Foot.bind
    | intro _
    | apply Foot.ite
    | (apply Foot_rdForm; foot_side)
    | (apply Foot_rdNeg; foot_side)
    | (apply Foot_rdExp; foot_side)
    | (apply Foot_rdCoeff; foot_side)
    | (apply Foot_wrForm; foot_side)
    | (apply Foot_wrNeg; foot_side)
    | (apply Foot_wrExp; foot_side)
    | (apply Foot_wrCoeff; foot_side)))

/-- extensible: footprint lemmas of sub-programs -/
syntax "foot_call" : tactic
macro_rules | `(tactic| foot_call) => `(tactic| fail "no footprint lemma applies")

/-- decompose a `Foot` goal along the structure of the program -/
macro "foot" : tactic =>
  `(tactic| repeat' (first
    | exact Foot.pure _
    | exact Foot.ret _
    | apply Foot.bind
    | intro _
    | apply Foot.ite
    | (apply Foot_rdForm; foot_side)
    | (apply Foot_rdNeg; foot_side)
    | (apply Foot_rdExp; foot_side)
    | (apply Foot_rdCoeff; foot_side)
    | (apply Foot_wrForm; foot_side)
    | (apply Foot_wrNeg; foot_side)
    | (apply Foot_wrExp; foot_side)
    | (apply Foot_wrCoeff; foot_side)
    | foot_call
    | split))

theorem Foot_rdB {a b : Src} (ha : SrcOK R W a) (hb : SrcOK R W b) (r : BRef) : Foot R W (rdB a b r) := by
  cases r <;> unfold rdB <;> foot
macro_rules | `(tactic| foot_call) => `(tactic| (apply Foot_rdB <;> foot_side))

theorem Foot_signP {s : Src} (hs : SrcOK R W s) : Foot R W (signP s) := by unfold signP; foot
macro_rules | `(tactic| foot_call) => `(tactic| (apply Foot_signP; foot_side))
theorem Foot_isZeroP {s : Src} (hs : SrcOK R W s) : Foot R W (isZeroP s) := by unfold isZeroP; foot
macro_rules | `(tactic| foot_call) => `(tactic| (apply Foot_isZeroP; foot_side))
theorem Foot_numDigitsP {s : Src} (hs : SrcOK R W s) : Foot R W (numDigitsP s) := by unfold numDigitsP; foot
macro_rules | `(tactic| foot_call) => `(tactic| (apply Foot_numDigitsP; foot_side))
theorem Foot_isNaNP {s : Src} (hs : SrcOK R W s) : Foot R W (isNaNP s) := by unfold isNaNP; foot
macro_rules | `(tactic| foot_call) => `(tactic| (apply Foot_isNaNP; foot_side))

/-- an optional operand pointer is covered -/
def OSrcOK (R W : Cell → Prop) (y : Option Src) : Prop := ∀ s, y = some s → SrcOK R W s
theorem OSrcOK.none : OSrcOK R W none := fun _ e => by cases e
theorem OSrcOK.some {s : Src} (hs : SrcOK R W s) : OSrcOK R W (some s) := fun _ e => by cases e; exact hs

theorem Foot_shouldSetAsNaNP {x : Src} {y : Option Src} (hx : SrcOK R W x) (hy : OSrcOK R W y) :
    Foot R W (shouldSetAsNaNP x y) := by
  unfold shouldSetAsNaNP
  cases y with
  | none => foot
  | some y => have := hy y rfl; foot
macro_rules
  | `(tactic| foot_call) =>
    `(tactic| (apply Foot_shouldSetAsNaNP <;>
        first | foot_side | exact OSrcOK.none | exact OSrcOK.some (by foot_side)))

theorem Foot_cmpP {d x : Src} (hd : SrcOK R W d) (hx : SrcOK R W x) : Foot R W (cmpP d x) := by
  unfold cmpP; foot
macro_rules | `(tactic| foot_call) => `(tactic| (apply Foot_cmpP <;> foot_side))

theorem Foot_upscaleP {a b : Src} (ha : SrcOK R W a) (hb : SrcOK R W b) : Foot R W (upscaleP a b) := by
  unfold upscaleP; foot
macro_rules | `(tactic| foot_call) => `(tactic| (apply Foot_upscaleP <;> foot_side))

theorem Foot_setDec {d : Cell} {x : Src} (hd : W d) (hx : SrcOK R W x) : Foot R W (setDec d x) := by
  unfold setDec; foot
macro_rules | `(tactic| foot_call) => `(tactic| (apply Foot_setDec <;> foot_side))

theorem Foot_setInt64P {d : Cell} (hd : W d) (v : Int) : Foot R W (setInt64P d v) := by
  unfold setInt64P; foot
macro_rules | `(tactic| foot_call) => `(tactic| (apply Foot_setInt64P; foot_side))

theorem Foot_negDec {d : Cell} {x : Src} (hd : W d) (hx : SrcOK R W x) : Foot R W (negDec d x) := by
  unfold negDec; foot
macro_rules | `(tactic| foot_call) => `(tactic| (apply Foot_negDec <;> foot_side))

theorem Foot_absDec {d : Cell} {x : Src} (hd : W d) (hx : SrcOK R W x) : Foot R W (absDec d x) := by
  unfold absDec; foot
macro_rules | `(tactic| foot_call) => `(tactic| (apply Foot_absDec <;> foot_side))

theorem Foot_reduceDec {d : Cell} {x : Src} (hd : W d) (hx : SrcOK R W x) : Foot R W (reduceDec d x) := by
  unfold reduceDec; foot
macro_rules | `(tactic| foot_call) => `(tactic| (apply Foot_reduceDec <;> foot_side))

theorem Foot_modfLocFrac {x : Src} {i : Cell} (hi : W i) (hx : SrcOK R W x) : Foot R W (modfLocFrac x i) := by
  unfold modfLocFrac; foot
macro_rules | `(tactic| foot_call) => `(tactic| (apply Foot_modfLocFrac <;> foot_side))

theorem Foot_modfP {d : Src} {integ frac : Option Cell} (hd : SrcOK R W d)
    (hi : ∀ i, integ = some i → W i) (hf : ∀ f, frac = some f → W f) : Foot R W (modfP d integ frac) := by
  unfold modfP
  cases integ with
  | none =>
    cases frac with
    | none => foot
    | some f => have := hf f rfl; foot
  | some i =>
    have := hi i rfl
    cases frac with
    | none => foot
    | some f => have := hf f rfl; foot

theorem Foot_seFinishP {d : Cell} (hd : W d) (r : Int) (res : Cond) : Foot R W (seFinishP d r res) := by
  unfold seFinishP; foot
macro_rules | `(tactic| foot_call) => `(tactic| (apply Foot_seFinishP; foot_side))

theorem Foot_ndOrCountP {d : Cell} (hd : W d) (nd : Option Nat) : Foot R W (ndOrCountP d nd) := by
  unfold ndOrCountP; foot
macro_rules | `(tactic| foot_call) => `(tactic| (apply Foot_ndOrCountP; foot_side))

theorem Foot_setExponentP {d : Cell} (hd : W d) (c : Ctx) (nd : Option Nat) (res : Cond) (xs : List Int) :
    Foot R W (setExponentP c d nd res xs) := by
  unfold setExponentP; foot
macro_rules | `(tactic| foot_call) => `(tactic| (apply Foot_setExponentP; foot_side))

theorem Foot_roundTailP {d : Cell} (hd : W d) (c : Ctx) (res : Cond) (yd : Nat × Int) :
    Foot R W (roundTailP c d res yd) := by
  unfold roundTailP; foot
macro_rules | `(tactic| foot_call) => `(tactic| (apply Foot_roundTailP; foot_side))

theorem Foot_roundFinP {d : Cell} {x : Src} (hd : W d) (hx : SrcOK R W x) (c : Ctx) (b : Bool) :
    Foot R W (roundFinP c d x b) := by
  unfold roundFinP; foot
macro_rules | `(tactic| foot_call) => `(tactic| (apply Foot_roundFinP <;> foot_side))

theorem Foot_roundP {d : Cell} {x : Src} (hd : W d) (hx : SrcOK R W x) (c : Ctx) (b : Bool) :
    Foot R W (roundP c d x b) := by
  unfold roundP; foot
macro_rules | `(tactic| foot_call) => `(tactic| (apply Foot_roundP <;> foot_side))

theorem Foot_setAsNaNP {d : Cell} {x : Src} {y : Option Src} (hd : W d) (hx : SrcOK R W x) (hy : OSrcOK R W y)
    (c : Ctx) : Foot R W (setAsNaNP c d x y) := by
  unfold setAsNaNP
  have hnan : ∀ b : Bool, SrcOK R W (if b then x else y.getD x) := by
    intro b; cases b
    · cases y with
      | none => exact hx
      | some y => exact hy y rfl
    · exact hx
  cases y with
  | none => foot <;> exact hnan _
  | some y => have := hy y rfl; foot <;> exact hnan _
macro_rules
  | `(tactic| foot_call) =>
    `(tactic| (apply Foot_setAsNaNP <;>
        first | foot_side | exact OSrcOK.none | exact OSrcOK.some (by foot_side)))

theorem Foot_retFlags (c : Ctx) (res : Cond) : Foot R W (retFlags c res) := Foot.ret _
macro_rules | `(tactic| foot_call) => `(tactic| exact Foot_retFlags _ _)

/-! ## `Context` methods -/

theorem Foot_addFiniteP {d : Cell} {x y : Src} (hd : W d) (hx : SrcOK R W x) (hy : SrcOK R W y) (c : Ctx)
    (xn yn : Bool) (abs : BRef × BRef × Int) : Foot R W (addFiniteP c d x y xn yn abs) := by
  unfold addFiniteP; foot
macro_rules | `(tactic| foot_call) => `(tactic| (apply Foot_addFiniteP <;> foot_side))

theorem Foot_addP {d : Cell} {x y : Src} (hd : W d) (hx : SrcOK R W x) (hy : SrcOK R W y) (c : Ctx) (sub : Bool) :
    Foot R W (addP c d x y sub) := by
  unfold addP; foot
macro_rules | `(tactic| foot_call) => `(tactic| (apply Foot_addP <;> foot_side))

theorem Foot_absP {d : Cell} {x : Src} (hd : W d) (hx : SrcOK R W x) (c : Ctx) : Foot R W (absP c d x) := by
  unfold absP; foot
theorem Foot_negP {d : Cell} {x : Src} (hd : W d) (hx : SrcOK R W x) (c : Ctx) : Foot R W (negP c d x) := by
  unfold negP; foot
theorem Foot_roundOpP {d : Cell} {x : Src} (hd : W d) (hx : SrcOK R W x) (c : Ctx) : Foot R W (roundOpP c d x) := by
  unfold roundOpP; foot
theorem Foot_mulP {d : Cell} {x y : Src} (hd : W d) (hx : SrcOK R W x) (hy : SrcOK R W y) (c : Ctx) :
    Foot R W (mulP c d x y) := by
  unfold mulP; foot

theorem Foot_quoSpecialsP {d : Cell} {x y : Src} (hd : W d) (hx : SrcOK R W x) (hy : SrcOK R W y) (c : Ctx)
    (cc : Bool) : Foot R W (quoSpecialsP c d x y cc) := by
  unfold quoSpecialsP; foot
macro_rules | `(tactic| foot_call) => `(tactic| (apply Foot_quoSpecialsP <;> foot_side))

theorem Foot_quoTailP {d : Cell} (hd : W d) (c : Ctx) (nd : Option Nat) (res : Cond) (xs : List Int) :
    Foot R W (quoTailP c d nd res xs) := by
  unfold quoTailP; foot
macro_rules | `(tactic| foot_call) => `(tactic| (apply Foot_quoTailP; foot_side))

theorem Foot_quoP {d : Cell} {x y : Src} (hd : W d) (hx : SrcOK R W x) (hy : SrcOK R W y) (c : Ctx) :
    Foot R W (quoP c d x y) := by
  unfold quoP; foot
theorem Foot_quoIntegerP {d : Cell} {x y : Src} (hd : W d) (hx : SrcOK R W x) (hy : SrcOK R W y) (c : Ctx) :
    Foot R W (quoIntegerP c d x y) := by
  unfold quoIntegerP; foot
theorem Foot_remP {d : Cell} {x y : Src} (hd : W d) (hx : SrcOK R W x) (hy : SrcOK R W y) (c : Ctx) :
    Foot R W (remP c d x y) := by
  unfold remP; foot
theorem Foot_cmpOpP {d : Cell} {x y : Src} (hd : W d) (hx : SrcOK R W x) (hy : SrcOK R W y) (c : Ctx) :
    Foot R W (cmpOpP c d x y) := by
  unfold cmpOpP; foot
theorem Foot_reduceP {d : Cell} {x : Src} (hd : W d) (hx : SrcOK R W x) (c : Ctx) : Foot R W (reduceP c d x) := by
  unfold reduceP; foot

theorem Foot_quantizeCoreP {d : Cell} {x : Src} (hd : W d) (hx : SrcOK R W x) (c : Ctx) (e : Int) :
    Foot R W (quantizeCoreP c d x e) := by
  unfold quantizeCoreP; foot
macro_rules | `(tactic| foot_call) => `(tactic| (apply Foot_quantizeCoreP <;> foot_side))

theorem Foot_quantizeP {d : Cell} {x : Src} (hd : W d) (hx : SrcOK R W x) (c : Ctx) (e : Int) :
    Foot R W (quantizeP c d x e) := by
  unfold quantizeP; foot

theorem Foot_toIntegralSpecialsP {d : Cell} {x : Src} (hd : W d) (hx : SrcOK R W x) (c : Ctx) :
    Foot R W (toIntegralSpecialsP c d x) := by
  unfold toIntegralSpecialsP; foot
macro_rules | `(tactic| foot_call) => `(tactic| (apply Foot_toIntegralSpecialsP <;> foot_side))

theorem Foot_rtivP {d : Cell} {x : Src} (hd : W d) (hx : SrcOK R W x) (c : Ctx) : Foot R W (rtivP c d x) := by
  unfold rtivP; foot
theorem Foot_rtieP {d : Cell} {x : Src} (hd : W d) (hx : SrcOK R W x) (c : Ctx) : Foot R W (rtieP c d x) := by
  unfold rtieP; foot
theorem Foot_ceilP {d : Cell} {x : Src} (hd : W d) (hx : SrcOK R W x) (c : Ctx) : Foot R W (ceilP c d x) := by
  unfold ceilP; foot
theorem Foot_floorP {d : Cell} {x : Src} (hd : W d) (hx : SrcOK R W x) (c : Ctx) : Foot R W (floorP c d x) := by
  unfold floorP; foot

/-- read set of an operation on operands `x`, `y` -/
def footR (x y : Cell) : Cell → Prop := fun cell => cell = x ∨ cell = y
/-- write set of an operation with destination `d` -/
def footW (d : Cell) : Cell → Prop := fun cell => cell = d

/-- the footprint of every operation of `Imp.runCtxOp`: reads `{x, y} ∪ {d}`, writes `{d}` -/
theorem Foot_runCtxOp {op : String} {c : Ctx} {d x y : Cell} {iarg : Int} {p : Prog Res}
    (hp : runCtxOp op c d x y iarg = some p) : Foot (footR x y) (footW d) p := by
  have hd : footW d d := rfl
  have hx : SrcOK (footR x y) (footW d) (.cell x) := SrcOK.read (Or.inl rfl)
  have hy : SrcOK (footR x y) (footW d) (.cell y) := SrcOK.read (Or.inr rfl)
  unfold runCtxOp at hp
  by_cases h0 : op = "add"
  · rw [if_pos h0] at hp; cases hp; exact Foot_addP hd hx hy _ _
  rw [if_neg h0] at hp
  by_cases h1 : op = "sub"
  · rw [if_pos h1] at hp; cases hp; exact Foot_addP hd hx hy _ _
  rw [if_neg h1] at hp
  by_cases h2 : op = "mul"
  · rw [if_pos h2] at hp; cases hp; exact Foot_mulP hd hx hy _
  rw [if_neg h2] at hp
  by_cases h3 : op = "quo"
  · rw [if_pos h3] at hp; cases hp; exact Foot_quoP hd hx hy _
  rw [if_neg h3] at hp
  by_cases h4 : op = "quoint"
  · rw [if_pos h4] at hp; cases hp; exact Foot_quoIntegerP hd hx hy _
  rw [if_neg h4] at hp
  by_cases h5 : op = "rem"
  · rw [if_pos h5] at hp; cases hp; exact Foot_remP hd hx hy _
  rw [if_neg h5] at hp
  by_cases h6 : op = "abs"
  · rw [if_pos h6] at hp; cases hp; exact Foot_absP hd hx _
  rw [if_neg h6] at hp
  by_cases h7 : op = "neg"
  · rw [if_pos h7] at hp; cases hp; exact Foot_negP hd hx _
  rw [if_neg h7] at hp
  by_cases h8 : op = "round"
  · rw [if_pos h8] at hp; cases hp; exact Foot_roundOpP hd hx _
  rw [if_neg h8] at hp
  by_cases h9 : op = "reduce"
  · rw [if_pos h9] at hp; cases hp; exact Foot_reduceP hd hx _
  rw [if_neg h9] at hp
  by_cases h10 : op = "cmp"
  · rw [if_pos h10] at hp; cases hp; exact Foot_cmpOpP hd hx hy _
  rw [if_neg h10] at hp
  by_cases h11 : op = "quantize"
  · rw [if_pos h11] at hp; cases hp; exact Foot_quantizeP hd hx _ _
  rw [if_neg h11] at hp
  by_cases h12 : op = "rtie"
  · rw [if_pos h12] at hp; cases hp; exact Foot_rtieP hd hx _
  rw [if_neg h12] at hp
  by_cases h13 : op = "rtiv"
  · rw [if_pos h13] at hp; cases hp; exact Foot_rtivP hd hx _
  rw [if_neg h13] at hp
  by_cases h14 : op = "ceil"
  · rw [if_pos h14] at hp; cases hp; exact Foot_ceilP hd hx _
  rw [if_neg h14] at hp
  by_cases h15 : op = "floor"
  · rw [if_pos h15] at hp; cases hp; exact Foot_floorP hd hx _
  rw [if_neg h15] at hp
  cases hp

end Apd.Imp
