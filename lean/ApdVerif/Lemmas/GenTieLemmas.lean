import ApdVerif.Model.Arith
import ApdVerif.Gen.Cond
import Mathlib.Data.Nat.Bitwise
/-!
# Helper lemmas for `Props/GenTie.lean`: `Cond.toNat` as a nest of `Nat.bit`, and its interaction with
`&&&` / `= 0`.
-/
namespace Apd
open Nat (bit)

/-- `Cond.toNat` spelled with `if`s (gets rid of the private helper `b2n`) -/
theorem Cond.toNat_eq_ite (a : Cond) :
    a.toNat =
      (if a.sysOverflow then 1 else 0) + (if a.sysUnderflow then 2 else 0) + (if a.overflow then 4 else 0) +
      (if a.underflow then 8 else 0) + (if a.inexact then 16 else 0) + (if a.subnormal then 32 else 0) +
      (if a.rounded then 64 else 0) + (if a.divUndefined then 128 else 0) + (if a.divByZero then 256 else 0) +
      (if a.divImpossible then 512 else 0) + (if a.invalidOp then 1024 else 0) +
      (if a.clamped then 2048 else 0) := rfl

private theorem ite_toNat (b : Bool) (w : Nat) : (if b then w else 0) = w * b.toNat := by
  cases b <;> simp

/-- `Cond.toNat` as a nest of `Nat.bit` -/
theorem Cond.toNat_eq_bit (a : Cond) :
    a.toNat =
      bit a.sysOverflow (bit a.sysUnderflow (bit a.overflow (bit a.underflow (bit a.inexact
      (bit a.subnormal (bit a.rounded (bit a.divUndefined (bit a.divByZero (bit a.divImpossible
      (bit a.invalidOp (bit a.clamped 0))))))))))) := by
  rw [Cond.toNat_eq_ite]
  simp only [Nat.bit_val, ite_toNat]
  omega

theorem Cond.and_def (a b : Cond) : a &&& b = Cond.and a b := rfl

theorem Cond.toNat_and (a b : Cond) : (a &&& b).toNat = a.toNat &&& b.toNat := by
  simp only [Cond.toNat_eq_bit, Nat.land_bit, Nat.and_zero, Cond.and_def, Cond.and]

theorem Cond.toNat_eq_zero_iff (a : Cond) : a.toNat = 0 ↔ a.any = false := by
  simp only [Cond.toNat_eq_bit, Nat.bit_eq_zero_iff, Cond.any, Bool.or_eq_false_iff]
  tauto

theorem three_eq_bit : (3 : Nat) = bit true (bit true 0) := by decide

theorem Cond.toNat_and_three (a : Cond) :
    (a.toNat &&& 3 != 0) = (a.sysOverflow || a.sysUnderflow) := by
  rw [three_eq_bit, Cond.toNat_eq_bit]
  simp only [Nat.land_bit, Nat.and_zero, Bool.and_true]
  cases a.sysOverflow <;> cases a.sysUnderflow <;> decide

end Apd
