import ApdVerif.Lemmas.TransFootLemmas
import ApdVerif.Imp.ReadOps
/-!
# Footprints of the read-only `Decimal` methods (core Lean only): reads within the operands, NO writes

`Foot R (fun _ => False) p` says that every access of `p` is a read of a cell in `R`: `noWrites` turns it into
`WritesOnly (fun _ => False) p`, and `run_eq_of_noWrites` into "the heap is returned as it was".
-/
namespace Apd.Imp
open Apd Apd.Cond Prog

variable {R W : Cell → Prop}

theorem Foot_cmpOrderP {s : Src} (hs : SrcOK R W s) : Foot R W (cmpOrderP s) := by unfold cmpOrderP; foot
macro_rules | `(tactic| foot_call) => `(tactic| (apply Foot_cmpOrderP; foot_side))

theorem Foot_cmpTotalP {d x : Src} (hd : SrcOK R W d) (hx : SrcOK R W x) : Foot R W (cmpTotalP d x) := by
  unfold cmpTotalP; tfoot

theorem Foot_zerosLoopP {d : Src} (hd : SrcOK R W d) (fuel : Nat) : ∀ i, Foot R W (zerosLoopP d fuel i) := by
  induction fuel with
  | zero => intro i; exact Foot.pure _
  | succ k ih =>
    intro i
    unfold zerosLoopP
    refine Foot.bind (Foot_rdExp hd) (fun e => ?_)
    exact Foot.ite (ih _) (Foot.pure _)

theorem Foot_fmtFP {d : Src} (hd : SrcOK R W d) (digits : List Char) : Foot R W (fmtFP d digits) := by
  unfold fmtFP
  refine Foot.bind (Foot_rdExp hd) (fun e1 => ?_)
  apply Foot.ite
  · refine Foot.bind (Foot_rdExp hd) (fun e2 => ?_)
    simp only []
    exact Foot.ite (Foot.pure _) (Foot.pure _)
  · refine Foot.bind (Foot_rdExp hd) (fun e2 => ?_)
    apply Foot.ite
    · exact Foot.bind (Foot_zerosLoopP hd _ _) (fun _ => Foot.pure _)
    · exact Foot.pure _
macro_rules | `(tactic| foot_call) => `(tactic| (apply Foot_fmtFP; foot_side))

theorem Foot_fmtEP {d : Src} (hd : SrcOK R W d) (fmt : Char) (digits : List Char) : Foot R W (fmtEP fmt d digits) := by
  unfold fmtEP; foot
macro_rules | `(tactic| foot_call) => `(tactic| (apply Foot_fmtEP; foot_side))

theorem Foot_appendLP {d : Src} (hd : SrcOK R W d) (verb : Char) : Foot R W (appendLP d verb) := by
  unfold appendLP; tfoot
macro_rules | `(tactic| foot_call) => `(tactic| (apply Foot_appendLP; foot_side))

theorem Foot_textP {d : Src} (hd : SrcOK R W d) (verb : Char) : Foot R W (textP d verb) := by
  unfold textP; tfoot
macro_rules | `(tactic| foot_call) => `(tactic| (apply Foot_textP; foot_side))

theorem Foot_stringP {d : Src} (hd : SrcOK R W d) : Foot R W (stringP d) := Foot_textP hd _
macro_rules | `(tactic| foot_call) => `(tactic| (apply Foot_stringP; foot_side))

theorem Foot_float64P {d : Src} (hd : SrcOK R W d) : Foot R W (float64P d) := Foot_stringP hd

theorem Foot_int64P {d : Src} (hd : SrcOK R W d) : Foot R W (int64P d) := by
  unfold int64P; tfoot

/-! ## no writes -/

/-- a footprint with an empty write set: the program contains no write at all -/
theorem Foot.noWrites {α : Type} {p : Prog α} (hp : Foot R (fun _ => False) p) : WritesOnly (fun _ => False) p :=
  hp.writesOnly

/-- a program without writes returns the heap it was given -/
theorem run_eq_of_noWrites {α : Type} {p : Prog α} (hp : WritesOnly (fun _ => False) p) (h : Heap) :
    (run p h).2 = h := by
  funext c
  exact hp.frame h c (fun hf => hf)

end Apd.Imp
