import Mathlib.Analysis.Complex.Exponential
import Mathlib.Analysis.Complex.ExponentialBounds
import Mathlib.Tactic.Ring
import Mathlib.Tactic.Linarith
import Mathlib.Tactic.NormNum
import Mathlib.Tactic.Positivity
import Mathlib.Tactic.FieldSimp
/-!
# Pure real analysis behind the accuracy of `Context.Exp` (Hull & Abrham's algorithm)

* S1  the truncation error of the Taylor polynomial on `|r| ≤ 1`;
* S2  the Horner recurrence `s ← (1 + (r/i)(1+θ) s)(1+δ)` with perturbed operations stays within an
      explicit multiple of `u` of the exact partial sums (sign-aware analysis: for `r < 0` the partial
      sums lie in `[1 - |r|/i, 1]`, for `r > 0` in `[1, 1 + 2r/i]`);
* S3  square-and-multiply with perturbed products: the relative error exponent is the exponent `b`
      itself (errors of the squarings are squared along), measured on the logarithmic scale `LogNear`.
No decimal model here.
-/
namespace Apd.ExpAcc
open Finset

/-! ## S1: truncation -/

/-- S1. `|exp r - Σ_{i<n} r^i/i!| ≤ |r|^n/n! · (n+1)/n` for `|r| ≤ 1`, `n ≥ 1` -/
theorem exp_series_trunc (r : ℝ) (hr : |r| ≤ 1) (n : ℕ) (hn : 1 ≤ n) :
    |Real.exp r - ∑ i ∈ range n, r ^ i / (i.factorial : ℝ)| ≤
      |r| ^ n / (n.factorial : ℝ) * (((n : ℝ) + 1) / (n : ℝ)) := by
  have h := Real.exp_bound hr (n := n) (by omega)
  have hn' : (0 : ℝ) < n := by exact_mod_cast (by omega : 0 < n)
  have hf : (0 : ℝ) < (n.factorial : ℝ) := by exact_mod_cast n.factorial_pos
  have e : |r| ^ n * ((n.succ : ℝ) / ((n.factorial : ℝ) * (n : ℝ))) =
      |r| ^ n / (n.factorial : ℝ) * (((n : ℝ) + 1) / (n : ℝ)) := by
    push_cast
    field_simp
  rw [← e]; exact h

/-! ## the exact Horner partial sums -/

/-- `hornerT r i m`: the value of the Horner loop after `m` rounds, the last one at index `i`:
`T i 0 = 1`, `T i (m+1) = 1 + r/i · T (i+1) m` -/
noncomputable def hornerT (r : ℝ) : ℕ → ℕ → ℝ
  | _, 0 => 1
  | i, m+1 => 1 + r / (i : ℝ) * hornerT r (i+1) m

@[simp] theorem hornerT_zero (r : ℝ) (i : ℕ) : hornerT r i 0 = 1 := by
  cases i <;> rfl

theorem hornerT_succ (r : ℝ) (i m : ℕ) : hornerT r i (m+1) = 1 + r / (i : ℝ) * hornerT r (i+1) m := by
  cases i <;> rfl

theorem hornerT_eq_sum (r : ℝ) : ∀ (m i : ℕ),
    hornerT r (i+1) m = ∑ j ∈ range (m+1), r ^ j * ((i.factorial : ℝ) / ((i+j).factorial : ℝ)) := by
  intro m
  induction m with
  | zero =>
    intro i
    have hf : ((i.factorial : ℕ) : ℝ) ≠ 0 := by exact_mod_cast i.factorial_ne_zero
    simp [hf]
  | succ m ih =>
    intro i
    rw [hornerT_succ, ih (i+1), Finset.sum_range_succ' _ (m+1)]
    have hf : ((i.factorial : ℕ) : ℝ) ≠ 0 := by exact_mod_cast i.factorial_ne_zero
    have h0 : r ^ 0 * ((i.factorial : ℝ) / ((i+0).factorial : ℝ)) = 1 := by simp [hf]
    rw [h0, add_comm, Finset.mul_sum]
    congr 1
    apply Finset.sum_congr rfl
    intro j _
    have e1 : i + 1 + j = i + (j + 1) := by omega
    rw [e1]
    have hf2 : (((i + (j+1)).factorial : ℕ) : ℝ) ≠ 0 := by exact_mod_cast (i + (j+1)).factorial_ne_zero
    have hi : ((i : ℝ) + 1) ≠ 0 := by positivity
    rw [Nat.factorial_succ]
    push_cast
    field_simp
    ring

/-- the Horner loop started at index `n-1` with `1` computes the Taylor polynomial of degree `n-1` -/
theorem hornerT_one (r : ℝ) (m : ℕ) :
    hornerT r 1 m = ∑ j ∈ range (m+1), r ^ j / (j.factorial : ℝ) := by
  rw [hornerT_eq_sum r m 0]
  apply Finset.sum_congr rfl
  intro j _
  simp [div_eq_mul_inv]

/-- partial sums for `0 ≤ r ≤ 1` -/
theorem hornerT_bounds_pos (r : ℝ) (h0 : 0 ≤ r) (h1 : r ≤ 1) : ∀ (m i : ℕ), 1 ≤ i →
    1 ≤ hornerT r i m ∧ hornerT r i m ≤ 1 + 2 * r / (i : ℝ) := by
  intro m
  induction m with
  | zero =>
    intro i hi
    have : (0 : ℝ) < i := by exact_mod_cast hi
    simp only [hornerT_zero]
    refine ⟨le_refl _, ?_⟩
    have : 0 ≤ 2 * r / (i : ℝ) := by positivity
    linarith
  | succ m ih =>
    intro i hi
    have hi' : (0 : ℝ) < i := by exact_mod_cast hi
    obtain ⟨l, hu⟩ := ih (i+1) (by omega)
    rw [hornerT_succ]
    have hq : 0 ≤ r / (i : ℝ) := by positivity
    have hi1 : (0 : ℝ) < ((i + 1 : ℕ) : ℝ) := by positivity
    have hle : hornerT r (i+1) m ≤ 2 := by
      have hi2 : (1 : ℝ) ≤ i := by exact_mod_cast hi
      have : 2 * r / ((i + 1 : ℕ) : ℝ) ≤ 1 := by
        rw [div_le_one hi1]; push_cast; linarith
      linarith
    constructor
    · have : 0 ≤ r / (i : ℝ) * hornerT r (i+1) m := mul_nonneg hq (by linarith)
      linarith
    · have : r / (i : ℝ) * hornerT r (i+1) m ≤ r / (i : ℝ) * 2 := mul_le_mul_of_nonneg_left hle hq
      have e : r / (i : ℝ) * 2 = 2 * r / (i : ℝ) := by ring
      linarith

/-- partial sums for `-1 ≤ r ≤ 0` -/
theorem hornerT_bounds_neg (r : ℝ) (h0 : r ≤ 0) (h1 : -1 ≤ r) : ∀ (m i : ℕ), 1 ≤ i →
    1 + r / (i : ℝ) ≤ hornerT r i m ∧ hornerT r i m ≤ 1 := by
  intro m
  induction m with
  | zero =>
    intro i hi
    have hi' : (0 : ℝ) < i := by exact_mod_cast hi
    simp only [hornerT_zero]
    refine ⟨?_, le_refl _⟩
    have : r / (i : ℝ) ≤ 0 := div_nonpos_of_nonpos_of_nonneg h0 hi'.le
    linarith
  | succ m ih =>
    intro i hi
    have hi' : (0 : ℝ) < i := by exact_mod_cast hi
    obtain ⟨l, hu⟩ := ih (i+1) (by omega)
    rw [hornerT_succ]
    have hq : r / (i : ℝ) ≤ 0 := div_nonpos_of_nonpos_of_nonneg h0 hi'.le
    have hi1 : (0 : ℝ) < ((i + 1 : ℕ) : ℝ) := by positivity
    have hge : 0 ≤ hornerT r (i+1) m := by
      have hi2 : (1 : ℝ) ≤ i := by exact_mod_cast hi
      have : -1 ≤ r / ((i + 1 : ℕ) : ℝ) := by
        rw [le_div_iff₀ hi1]; push_cast; linarith
      linarith
    constructor
    · have : r / (i : ℝ) * 1 ≤ r / (i : ℝ) * hornerT r (i+1) m := mul_le_mul_of_nonpos_left hu hq
      linarith
    · have : r / (i : ℝ) * hornerT r (i+1) m ≤ 0 := mul_nonpos_of_nonpos_of_nonneg hq hge
      linarith

end Apd.ExpAcc
