import ApdVerif.Lemmas.CbrtConvIter
/-!
# `Context.Cbrt` converges — putting the stages together

scaling down (`·8`), scaling up (`·0.125`), the polynomial estimate, scaling back (`·0.5` / `·2`), the Newton loop.
-/
set_option linter.unusedVariables false

namespace Apd.CbrtC
open Apd Apd.Oracle Apd.RatSpec Apd.C20L Apd.SqrtL Apd.CbrtL Apd.CbrtR Cond

/-! ## counting the scaling steps -/

theorem seven_pow (m : ℕ) : (10 : ℚ) ^ m * 7 ≤ (7 : ℚ) ^ (2 * m + 1) := by
  rw [pow_succ, pow_mul]
  have : (10 : ℚ) ^ m ≤ ((7 : ℚ) ^ 2) ^ m := pow_le_pow_left₀ (by norm_num) (by norm_num) m
  linarith

theorem seven_pow' (m : ℕ) : (10 : ℚ) ^ m ≤ (7 : ℚ) ^ (2 * m) := by
  rw [pow_mul]
  exact pow_le_pow_left₀ (by norm_num) (by norm_num) m

theorem zpow_natAbs_ge (A : ℤ) : (1 : ℚ) ≤ (10 : ℚ) ^ A * (10 : ℚ) ^ A.natAbs := by
  rw [← zpow_natCast, ← zpow_add₀ ten_ne]
  have : (0 : ℤ) ≤ A + (A.natAbs : ℤ) := by omega
  have := zpow_le_zpow_right₀ ten_ge this
  simpa using this

/-- the number of `·8` steps: while `z < 1/8` and `z ≥ X·7^n`, `X ≥ 10^A` -/
theorem down_count (X z : ℚ) (A : ℤ) (n : ℕ) (hX : (10 : ℚ) ^ A ≤ X) (hz : z < 1 / 8) (h : X * 7 ^ n ≤ z) :
    n < 2 * A.natAbs + 1 := by
  by_contra hc
  have hc : 2 * A.natAbs + 1 ≤ n := by omega
  have h1 : (7 : ℚ) ^ (2 * A.natAbs + 1) ≤ (7 : ℚ) ^ n := pow_le_pow_right₀ (by norm_num) hc
  have h2 := seven_pow A.natAbs
  have h3 := zpow_natAbs_ge A
  have hA := tp A
  have hX0 : 0 < X := lt_of_lt_of_le hA hX
  have h4 : (10 : ℚ) ^ A * ((10 : ℚ) ^ A.natAbs * 7) ≤ X * 7 ^ n := by
    apply mul_le_mul hX (le_trans h2 h1) (by positivity) hX0.le
  nlinarith

/-- the number of `·0.125` steps: while `z > 1` and `z ≤ Z/7^n`, `Z < 10^(m+1)` -/
theorem up_count (Z z : ℚ) (m n : ℕ) (hZ : Z < (10 : ℚ) ^ (m + 1)) (hz : 1 < z) (h : z * 7 ^ n ≤ Z) :
    n < 2 * m + 2 := by
  by_contra hc
  have hc : 2 * (m + 1) ≤ n := by omega
  have h1 : (7 : ℚ) ^ (2 * (m + 1)) ≤ (7 : ℚ) ^ n := pow_le_pow_right₀ (by norm_num) hc
  have h2 := seven_pow' (m + 1)
  have h3 : (0 : ℚ) < 7 ^ n := by positivity
  have h4 : 1 * (7 : ℚ) ^ n < z * 7 ^ n := mul_lt_mul_of_pos_right hz h3
  linarith

theorem eight_pow_ge (ε : ℚ) (n : ℕ) (hε0 : 0 ≤ ε) (hε : ε ≤ 1 / 2000) : (7 : ℚ) ^ n ≤ 8 ^ n * (1 - ε) ^ n := by
  rw [← mul_pow]
  exact pow_le_pow_left₀ (by norm_num) (by linarith) n

theorem eighth_pow_le (ε : ℚ) (n : ℕ) (hε0 : 0 ≤ ε) (hε : ε ≤ 1 / 2000) :
    (1 / 8 : ℚ) ^ n * (1 + ε) ^ n * 7 ^ n ≤ 1 := by
  rw [← mul_pow, ← mul_pow]
  apply pow_le_one₀
  · have : 0 ≤ 1 + ε := by linarith
    positivity
  · linarith

theorem scale_id1 (u M : ℕ) : ((1 / 2 : ℚ) ^ M) ^ 3 * (8 ^ (u + M) * (1 / 8) ^ u) = 1 := by
  have h1 : ((1 / 2 : ℚ) ^ M) ^ 3 = (1 / 8) ^ M := by
    rw [← pow_mul, mul_comm, pow_mul]; norm_num
  have h2 : ∀ k : ℕ, (8 : ℚ) ^ k * (1 / 8) ^ k = 1 := by
    intro k; rw [← mul_pow]; norm_num
  rw [h1, pow_add]
  calc (1 / 8 : ℚ) ^ M * (8 ^ u * 8 ^ M * (1 / 8) ^ u) = (8 ^ u * (1 / 8) ^ u) * (8 ^ M * (1 / 8) ^ M) := by ring
    _ = 1 := by rw [h2, h2]; norm_num

theorem scale_id2 (d M : ℕ) : ((2 : ℚ) ^ M) ^ 3 * (8 ^ d * (1 / 8) ^ (d + M)) = 1 := by
  have h1 : ((2 : ℚ) ^ M) ^ 3 = 8 ^ M := by
    rw [← pow_mul, mul_comm, pow_mul]; norm_num
  have h2 : ∀ k : ℕ, (8 : ℚ) ^ k * (1 / 8) ^ k = 1 := by
    intro k; rw [← mul_pow]; norm_num
  rw [h1, pow_add]
  calc (8 : ℚ) ^ M * (8 ^ d * ((1 / 8) ^ d * (1 / 8) ^ M)) = (8 ^ d * (1 / 8) ^ d) * (8 ^ M * (1 / 8) ^ M) := by ring
    _ = 1 := by rw [h2, h2]; norm_num

/-- cube comparison with powers of ten -/
theorem ge_of_cube (w : ℚ) (a : ℤ) (hw : 0 < w) (h : (10 : ℚ) ^ (3 * a - 3) ≤ w ^ 3) : (10 : ℚ) ^ (a - 1) ≤ w := by
  have e : ((10 : ℚ) ^ (a - 1)) ^ 3 = (10 : ℚ) ^ (3 * a - 3) := by
    rw [← zpow_natCast, ← zpow_mul]; congr 1; push_cast; ring
  rw [← e] at h
  exact le_of_pow_le_pow_left₀ (by norm_num) hw.le h

theorem lt_of_cube (w : ℚ) (a : ℤ) (hw : 0 < w) (h : w ^ 3 < (10 : ℚ) ^ (3 * a + 6)) : w < (10 : ℚ) ^ (a + 2) := by
  have e : ((10 : ℚ) ^ (a + 2)) ^ 3 = (10 : ℚ) ^ (3 * a + 6) := by
    rw [← zpow_natCast, ← zpow_mul]; congr 1; push_cast; ring
  rw [← e] at h
  exact lt_of_pow_lt_pow_left₀ 3 (tp _).le h

/-! ## the loop tests, in rationals -/

theorem decOneEighth_toRat : decOneEighth.toRat = 1 / 8 := by norm_num [Dec.toRat, decOneEighth]
theorem decEight_toRat : decEight.toRat = 8 := by norm_num [Dec.toRat, decEight]
theorem decTwo_toRat : decTwo.toRat = 2 := by norm_num [Dec.toRat, decTwo]

theorem test_down (z : Dec) (hz : Pos z) : decide (z.cmp decOneEighth < 0) = true ↔ z.toRat < 1 / 8 := by
  obtain ⟨h1, h2⟩ := cmp_toRat z decOneEighth hz.hf rfl
  rw [decOneEighth_toRat] at h1 h2
  rw [decide_eq_true_eq]
  constructor
  · intro h
    have a := h1.1 (le_of_lt h)
    have b : z.toRat ≠ 1 / 8 := fun hh => by have := h2.2 hh; omega
    exact lt_of_le_of_ne a b
  · intro h
    have a := h1.2 h.le
    have b : z.cmp decOneEighth ≠ 0 := fun hh => by have := h2.1 hh; linarith
    omega

theorem test_up (z : Dec) (hz : Pos z) : decide (z.cmp decOne > 0) = true ↔ 1 < z.toRat := by
  obtain ⟨h1, h2⟩ := cmp_toRat z decOne hz.hf rfl
  rw [decOne_toRat] at h1 h2
  rw [decide_eq_true_eq]
  constructor
  · intro h
    by_contra hc
    have := h1.2 (not_lt.1 hc)
    omega
  · intro h
    by_contra hc
    have := h1.1 (by omega)
    linarith

/-! ## the side condition -/

/-- adjusted exponent of the operand -/
def adjX (x : Dec) : Int := x.exp + (ndigits x.coeff : Int) - 1

/-- the explicit side condition of `C11_cbrt_returns` (all clauses are linear in the precision, the exponent and
the digit count of the operand; `a = ⌊adj/3⌋` is the adjusted exponent of the root) -/
def CbrtSide (c : Ctx) (x : Dec) : Prop :=
  (c.traps.inexact = false ∧ c.traps.rounded = false ∧ c.traps.subnormal = false ∧ c.traps.underflow = false ∧
    c.traps.overflow = false ∧ c.traps.clamped = false) ∧ c.prec ≤ 24999 ∧ ndigits x.coeff ≤ 99990 ∧
  -99988 + 2 * (c.prec : Int) ≤ x.exp ∧
  -50000 ≤ adjX x / 3 - (2 * (c.prec : Int) + 2) ∧
  adjX x / 3 ≤ 33331 ∧
  -100000 ≤ 3 * (adjX x / 3 - (c.prec : Int)) ∧
  (8 * (adjX x).natAbs + 20) * 5 ≤ 4 * 10 ^ (c.prec * 2 + 2)

instance (c : Ctx) (x : Dec) : Decidable (CbrtSide c x) := by unfold CbrtSide; exact inferInstance

/-- what the proof uses of the side condition, in the vocabulary of the stages -/
structure Side (P : ℕ) (ax : Dec) (A a : ℤ) : Prop where
  hP : 1 ≤ P
  hP2 : P ≤ 24999
  hnd : ndigits ax.coeff ≤ 99990
  hA : A = ax.exp + (ndigits ax.coeff : ℤ) - 1
  ha : a = A / 3
  S1 : -99988 + 2 * (P : ℤ) ≤ ax.exp
  H1 : -50000 ≤ a - (2 * (P : ℤ) + 2)
  H2 : a ≤ 33331
  H3 : -100000 ≤ ax.exp - 2 * a - 4
  C5 : -100000 ≤ 3 * (a - (P : ℤ))
  hK : ((8 * A.natAbs + 20 : ℕ) : ℚ) * eps (P * 2 + 2) ≤ 4

theorem side_K (P : ℕ) (m : ℕ) (h : (8 * m + 20) * 5 ≤ 4 * 10 ^ (P * 2 + 2)) :
    ((8 * m + 20 : ℕ) : ℚ) * eps (P * 2 + 2) ≤ 4 := by
  unfold eps
  have h1 : (((8 * m + 20) * 5 : ℕ) : ℚ) ≤ ((4 * 10 ^ (P * 2 + 2) : ℕ) : ℚ) := by exact_mod_cast h
  rw [zpow_neg, zpow_natCast]
  have hp : (0 : ℚ) < (10 : ℚ) ^ (P * 2 + 2) := by positivity
  push_cast at h1 ⊢
  rw [show (8 * (m : ℚ) + 20) * (5 * ((10 : ℚ) ^ (P * 2 + 2))⁻¹) = ((8 * (m : ℚ) + 20) * 5) / (10 : ℚ) ^ (P * 2 + 2) by
    field_simp]
  rw [div_le_iff₀ hp]
  linarith

theorem Side.ranges {P : ℕ} {ax : Dec} {A a : ℤ} (S : Side P ax A a) :
    3 * a ≤ A ∧ A ≤ 3 * a + 2 ∧ -99996 ≤ A ∧ A ≤ 99995 ∧ A.natAbs ≤ 99996 ∧ -33332 ≤ a := by
  have := S.ha; have := S.H2; have := S.C5; have := S.hP
  omega

theorem Side.X_rng {P : ℕ} {ax : Dec} {A a : ℤ} (S : Side P ax A a) (hax : Pos ax) :
    Rng ax.toRat A (A + 1) ∧ Rng ax.toRat (3 * a) (3 * a + 3) := by
  obtain ⟨b1, b2⟩ := toRat_bounds hax
  obtain ⟨r1, r2, -⟩ := S.ranges
  have h : Rng ax.toRat A (A + 1) := by
    rw [S.hA]
    refine ⟨b1, ?_⟩
    rw [show ax.exp + (ndigits ax.coeff : ℤ) - 1 + 1 = ax.exp + (ndigits ax.coeff : ℤ) by ring]; exact b2
  exact ⟨h, h.widen r1 (by omega)⟩

theorem Side.eps_le {P : ℕ} {ax : Dec} {A a : ℤ} (S : Side P ax A a) :
    0 ≤ eps (P * 2 + 2) ∧ eps (P * 2 + 2) ≤ 1 / 2000 :=
  ⟨(eps_pos _).le, eps_small' _ (by have := S.hP; omega)⟩

/-! ## stage 1: scaling down -/

theorem stage_down (cc : Ctx) (P : ℕ) (ax : Dec) (A a : ℤ) (S : Side P ax A a) (hw : NCtx cc (P * 2 + 2))
    (hax : Pos ax) :
    ∃ ed1 z1 d, scaleLoop (fun z => decide (z.cmp decOneEighth < 0)) decEight 400000 { c := cc } ax 0 =
        some (.inr (ed1, z1, d)) ∧
      EDg cc ed1 ∧ Pos z1 ∧ (z1 = ax ∨ ndigits z1.coeff ≤ P * 2 + 2) ∧ d ≤ 2 * A.natAbs + 1 ∧
      Bnd (P * 2 + 2) ax.toRat 8 d z1.toRat ∧ 1 / 8 ≤ z1.toRat ∧
      ((d = 0 ∧ z1 = ax) ∨ z1.toRat ≤ 1 + eps (P * 2 + 2)) := by
  have hp4 : 4 ≤ P * 2 + 2 := by have := S.hP; omega
  have hp2 : P * 2 + 2 ≤ 100000 := by have := S.hP2; omega
  obtain ⟨hε0, hε⟩ := S.eps_le
  obtain ⟨r1, r2, r3, r4, r5, r6⟩ := S.ranges
  obtain ⟨hXA, hX3⟩ := S.X_rng hax
  have hX0 := hXA.pos
  have d8e : decEight.exp = 0 := rfl
  have hstep : ∀ (z : Dec) (n : ℕ), Pos z → (z = ax ∨ ndigits z.coeff ≤ P * 2 + 2) →
      (fun z => decide (z.cmp decOneEighth < 0)) z = true →
      Bnd (P * 2 + 2) ax.toRat decEight.toRat n z.toRat → n < 2 * A.natAbs + 1 ∧ StepOK (P * 2 + 2) z decEight := by
    intro z n hz hd ht hb
    have hlt : z.toRat < 1 / 8 := (test_down z hz).1 ht
    rw [decEight_toRat] at hb
    have hge : ax.toRat * 7 ^ n ≤ z.toRat := by
      have := eight_pow_ge (eps (P * 2 + 2)) n hε0 hε
      calc ax.toRat * 7 ^ n ≤ ax.toRat * (8 ^ n * (1 - eps (P * 2 + 2)) ^ n) := mul_le_mul_of_nonneg_left this hX0.le
        _ = ax.toRat * 8 ^ n * (1 - eps (P * 2 + 2)) ^ n := by ring
        _ ≤ z.toRat := hb.1
    have hzX : ax.toRat ≤ z.toRat := by
      have : (1 : ℚ) ≤ 7 ^ n := one_le_pow₀ (by norm_num)
      calc ax.toRat = ax.toRat * 1 := (mul_one _).symm
        _ ≤ ax.toRat * 7 ^ n := mul_le_mul_of_nonneg_left this hX0.le
        _ ≤ z.toRat := hge
    refine ⟨down_count ax.toRat z.toRat A n hXA.1 hlt hge, ?_⟩
    have hzr : Rng z.toRat A 0 := ⟨le_trans hXA.1 hzX, by rw [t0]; linarith⟩
    have he2 : z.exp + (ndigits z.coeff : ℤ) ≤ 0 := adj_le hz hzr.2
    have hnp := ndigits_pos z.coeff
    have he1 : -100000 ≤ z.exp := by
      rcases hd with h | h
      · rw [h]; have := S.S1; omega
      · have := (hzr.exp hz h).1
        have := S.C5
        push_cast at *
        omega
    have hnd : ndigits (z.coeff * decEight.coeff) ≤ 99999 + (P * 2 + 2) := by
      have := ndigits_mul_le z.coeff decEight.coeff hz.h0 (by decide)
      have h8 : ndigits decEight.coeff = 1 := by decide
      rcases hd with h | h
      · rw [h] at this ⊢; have := S.hnd; omega
      · omega
    refine ⟨he1, by omega, by rw [d8e]; omega, hnd, ?_, ?_⟩
    · rw [decEight_toRat]
      have : (10 : ℚ) ^ (-100000 : ℤ) ≤ z.toRat := hzr.lo (by omega)
      linarith [hz.toRat_pos]
    · rw [decEight_toRat]
      have h1 : z.toRat * 8 < (10 : ℚ) ^ (0 : ℤ) := by rw [t0]; linarith
      exact lt_of_lt_of_le h1 (zpow_le_zpow_right₀ ten_ge (by norm_num))
  obtain ⟨ed1, z1, d, q1, q2, q3, q4, q5, q6, q7, q8, q9⟩ :=
    scaleLoop_fw cc (P * 2 + 2) hw hp4 hp2 _ decEight decEight_pos (by decide) (by decide) ax hax (2 * A.natAbs + 1) hstep
      400000 0 { c := cc } ax (by omega) (by omega) ⟨rfl, rfl, rfl⟩ hax (Or.inl rfl) (Bnd_zero _ _ _)
  rw [decEight_toRat] at q7 q9
  refine ⟨ed1, z1, d, q1, q2, q3, q4, q6, q7, ?_, ?_⟩
  · by_contra hc
    have := (test_down z1 q3).2 (lt_of_not_ge hc)
    have h8 : decide (z1.cmp decOneEighth < 0) = false := q8
    rw [h8] at this; exact Bool.noConfusion this
  · rcases q9 with ⟨h1, h2⟩ | ⟨zp, t1, t2, t3, t4⟩
    · exact Or.inl ⟨h1, h2⟩
    · right
      have := (test_down zp t2).1 t1
      have h1e : 0 ≤ 1 + eps (P * 2 + 2) := by linarith
      calc z1.toRat ≤ zp.toRat * 8 * (1 + eps (P * 2 + 2)) := t4
        _ ≤ 1 / 8 * 8 * (1 + eps (P * 2 + 2)) := by
            apply mul_le_mul_of_nonneg_right _ h1e
            linarith
        _ = 1 + eps (P * 2 + 2) := by ring

/-! ## stage 2: scaling up -/

theorem stage_up (cc : Ctx) (P : ℕ) (ax : Dec) (A a : ℤ) (S : Side P ax A a) (hw : NCtx cc (P * 2 + 2))
    (hax : Pos ax) (ed1 : ED) (z1 : Dec) (d : ℕ) (he1 : EDg cc ed1) (hz1 : Pos z1)
    (hd1 : z1 = ax ∨ ndigits z1.coeff ≤ P * 2 + 2) (hdB : d ≤ 2 * A.natAbs + 1) (hge : 1 / 8 ≤ z1.toRat)
    (hlast : (d = 0 ∧ z1 = ax) ∨ z1.toRat ≤ 1 + eps (P * 2 + 2)) :
    ∃ ed2 z2 u, scaleLoop (fun z => decide (z.cmp decOne > 0)) decOneEighth 400000 ed1 z1 0 = some (.inr (ed2, z2, u)) ∧
      EDg cc ed2 ∧ Pos z2 ∧ (z2 = ax ∨ ndigits z2.coeff ≤ P * 2 + 2) ∧ d + u ≤ 2 * A.natAbs + 2 ∧
      Bnd (P * 2 + 2) z1.toRat (1 / 8) u z2.toRat ∧ 1249 / 10000 ≤ z2.toRat ∧ z2.toRat ≤ 1 := by
  have hp4 : 4 ≤ P * 2 + 2 := by have := S.hP; omega
  have hp2 : P * 2 + 2 ≤ 100000 := by have := S.hP2; omega
  obtain ⟨hε0, hε⟩ := S.eps_le
  obtain ⟨r1, r2, r3, r4, r5, r6⟩ := S.ranges
  obtain ⟨hXA, hX3⟩ := S.X_rng hax
  have hAabs : A ≤ (A.natAbs : ℤ) := Int.le_natAbs
  have hP2 := S.hP2
  have k8e : decOneEighth.exp = -3 := rfl
  have k8v := decOneEighth_toRat
  -- an upper bound on the start
  have hZ : z1.toRat < (10 : ℚ) ^ (A.natAbs + 1) := by
    rcases hlast with ⟨-, h⟩ | h
    · rw [h]
      have : (10 : ℚ) ^ (A + 1) ≤ (10 : ℚ) ^ (((A.natAbs + 1 : ℕ)) : ℤ) :=
        zpow_le_zpow_right₀ ten_ge (by omega)
      rw [zpow_natCast] at this
      exact lt_of_lt_of_le hXA.2 this
    · have : (10 : ℚ) ^ 1 ≤ (10 : ℚ) ^ (A.natAbs + 1) := pow_le_pow_right₀ (by norm_num) (by omega)
      linarith
  have hstep : ∀ (z : Dec) (n : ℕ), Pos z → (z = z1 ∨ ndigits z.coeff ≤ P * 2 + 2) →
      (fun z => decide (z.cmp decOne > 0)) z = true →
      Bnd (P * 2 + 2) z1.toRat decOneEighth.toRat n z.toRat →
      n < (if d = 0 then 2 * A.natAbs + 2 else 1) ∧ StepOK (P * 2 + 2) z decOneEighth := by
    intro z n hz hd ht hb
    have hgt : 1 < z.toRat := (test_up z hz).1 ht
    rw [k8v] at hb
    have h7 : z.toRat * 7 ^ n ≤ z1.toRat := by
      have := eighth_pow_le (eps (P * 2 + 2)) n hε0 hε
      have h7p : (0 : ℚ) ≤ 7 ^ n := by positivity
      calc z.toRat * 7 ^ n ≤ z1.toRat * (1 / 8) ^ n * (1 + eps (P * 2 + 2)) ^ n * 7 ^ n :=
            mul_le_mul_of_nonneg_right hb.2 h7p
        _ = z1.toRat * ((1 / 8) ^ n * (1 + eps (P * 2 + 2)) ^ n * 7 ^ n) := by ring
        _ ≤ z1.toRat * 1 := mul_le_mul_of_nonneg_left this hz1.toRat_pos.le
        _ = z1.toRat := mul_one _
    have hzz1 : z.toRat ≤ z1.toRat := by
      have : (1 : ℚ) ≤ 7 ^ n := one_le_pow₀ (by norm_num)
      calc z.toRat = z.toRat * 1 := (mul_one _).symm
        _ ≤ z.toRat * 7 ^ n := mul_le_mul_of_nonneg_left this hz.toRat_pos.le
        _ ≤ z1.toRat := h7
    constructor
    · by_cases hd0 : d = 0
      · rw [if_pos hd0]
        exact up_count z1.toRat z.toRat A.natAbs n hZ hgt h7
      · rw [if_neg hd0]
        rcases hlast with ⟨h, -⟩ | h
        · exact absurd h hd0
        · by_contra hc
          have h1 : (7 : ℚ) ^ 1 ≤ 7 ^ n := pow_le_pow_right₀ (by norm_num) (by omega)
          have h2 : z.toRat * 7 ^ 1 ≤ z.toRat * 7 ^ n := mul_le_mul_of_nonneg_left h1 hz.toRat_pos.le
          norm_num at h2
          linarith
    · have hzr : Rng z.toRat 0 (((A.natAbs + 1 : ℕ)) : ℤ) :=
        ⟨by rw [t0]; linarith, by rw [zpow_natCast]; exact lt_of_le_of_lt hzz1 hZ⟩
      have he2 : z.exp + (ndigits z.coeff : ℤ) ≤ ((A.natAbs + 1 : ℕ) : ℤ) := adj_le hz hzr.2
      have hnp := ndigits_pos z.coeff
      have hcase : z = ax ∨ ndigits z.coeff ≤ P * 2 + 2 := by
        rcases hd with h | h
        · rw [h]; exact hd1
        · exact Or.inr h
      have he5 : -100000 ≤ z.exp + decOneEighth.exp := by
        rw [k8e]
        rcases hcase with h | h
        · rw [h]; have := S.S1; omega
        · have := (hzr.exp hz h).1
          omega
      have hnd : ndigits (z.coeff * decOneEighth.coeff) ≤ 99999 + (P * 2 + 2) := by
        have := ndigits_mul_le z.coeff decOneEighth.coeff hz.h0 (by decide)
        have h8 : ndigits decOneEighth.coeff = 3 := by decide
        rcases hcase with h | h
        · rw [h] at this ⊢; have := S.hnd; omega
        · omega
      rw [k8e] at he5
      refine ⟨by omega, by omega, by rw [k8e]; omega, hnd, ?_, ?_⟩
      · rw [k8v]
        have : (10 : ℚ) ^ (-3 : ℤ) ≤ z.toRat * (1 / 8) := by rw [t3]; linarith
        exact widen_lo this
      · rw [k8v]
        have h1 : z.toRat * (1 / 8) < (10 : ℚ) ^ (((A.natAbs + 1 : ℕ)) : ℤ) := by
          have := hzr.2; linarith [hz.toRat_pos]
        exact lt_of_lt_of_le h1 (zpow_le_zpow_right₀ ten_ge (by omega))
  obtain ⟨ed2, z2, u, q1, q2, q3, q4, q5, q6, q7, q8, q9⟩ :=
    scaleLoop_fw cc (P * 2 + 2) hw hp4 hp2 _ decOneEighth decOneEighth_pos (by decide) (by decide) z1 hz1
      (if d = 0 then 2 * A.natAbs + 2 else 1) hstep
      400000 0 ed1 z1 (by split_ifs <;> omega) (by omega) he1 hz1 (Or.inl rfl) (Bnd_zero _ _ _)
  rw [k8v] at q7 q9
  have hle : z2.toRat ≤ 1 := by
    by_contra hc
    have := (test_up z2 q3).2 (lt_of_not_ge hc)
    have h8 : decide (z2.cmp decOne > 0) = false := q8
    rw [h8] at this; exact Bool.noConfusion this
  refine ⟨ed2, z2, u, q1, q2, q3, ?_, ?_, q7, ?_, hle⟩
  · rcases q4 with h | h
    · rw [h]; exact hd1
    · exact Or.inr h
  · split_ifs at q6 with hd0 <;> omega
  · rcases q9 with ⟨-, h2⟩ | ⟨zp, t1, t2, t3, t4⟩
    · rw [h2]; linarith
    · have hzp := (test_up zp t2).1 t1
      have h1e : 0 ≤ 1 - eps (P * 2 + 2) := by linarith
      have : 1 * (1 / 8) * (1999 / 2000) ≤ zp.toRat * (1 / 8) * (1 - eps (P * 2 + 2)) := by
        apply mul_le_mul _ (by linarith) (by norm_num) (by positivity)
        linarith
      linarith

/-! ## stages 3 and 4: the estimate, scaled back -/

theorem pow_bounds (ε : ℚ) (Kmax k : ℕ) (hε0 : 0 ≤ ε) (hε : ε ≤ 1 / 2000) (hK : (Kmax : ℚ) * ε ≤ 1 / 10)
    (hk : k ≤ Kmax) :
    9 / 10 ≤ (1 - ε) ^ k ∧ (1 + ε) ^ k ≤ 10 / 9 ∧ (1 - ε) ^ k ≤ 1 ∧ 1 ≤ (1 + ε) ^ k := by
  have hkq : (k : ℚ) * ε ≤ 1 / 10 := by
    have : (k : ℚ) ≤ (Kmax : ℚ) := by exact_mod_cast hk
    exact le_trans (mul_le_mul_of_nonneg_right this hε0) hK
  have a1 := pow_one_sub_ge ε k hε0 (by linarith)
  have a2 := pow_one_add_le ε (1 / 10) k hε0 hkq (by norm_num)
  have e : (1 : ℚ) / (1 - 1 / 10) = 10 / 9 := by norm_num
  rw [e] at a2
  exact ⟨by linarith, a2, pow_le_one₀ (by linarith) (by linarith), one_le_pow₀ (by linarith)⟩

theorem pow_bounds_wide (ε : ℚ) (Kmax k : ℕ) (hε0 : 0 ≤ ε) (hε : ε ≤ 1 / 2000) (hK : (Kmax : ℚ) * ε ≤ 4)
    (hk : k ≤ Kmax) :
    1 / 65 ≤ (1 - ε) ^ k ∧ (1 + ε) ^ k ≤ 65 ∧ (1 - ε) ^ k ≤ 1 ∧ 1 ≤ (1 + ε) ^ k := by
  have hkq : (k : ℚ) * ε ≤ 4 := by
    have : (k : ℚ) ≤ (Kmax : ℚ) := by exact_mod_cast hk
    exact le_trans (mul_le_mul_of_nonneg_right this hε0) hK
  obtain ⟨a1, a2⟩ := pow_block ε k hε0 hε hkq
  exact ⟨a1, a2, pow_le_one₀ (by linarith) (by linarith), one_le_pow₀ (by linarith)⟩

theorem bnd_compose {p : ℕ} {X z1 z2 : ℚ} {d u : ℕ} (hp : 4 ≤ p) (h1 : Bnd p X 8 d z1) (h2 : Bnd p z1 (1 / 8) u z2) :
    X * (8 ^ d * (1 / 8) ^ u) * (1 - eps p) ^ (d + u) ≤ z2 ∧ z2 ≤ X * (8 ^ d * (1 / 8) ^ u) * (1 + eps p) ^ (d + u) := by
  have he := eps_small' p hp
  have he0 := eps_pos p
  have f1 : (0 : ℚ) ≤ (1 / 8) ^ u * (1 - eps p) ^ u := by
    have : 0 ≤ 1 - eps p := by linarith
    positivity
  have f2 : (0 : ℚ) ≤ (1 / 8) ^ u * (1 + eps p) ^ u := by positivity
  constructor
  · calc X * (8 ^ d * (1 / 8) ^ u) * (1 - eps p) ^ (d + u)
        = X * 8 ^ d * (1 - eps p) ^ d * ((1 / 8) ^ u * (1 - eps p) ^ u) := by ring
      _ ≤ z1 * ((1 / 8) ^ u * (1 - eps p) ^ u) := mul_le_mul_of_nonneg_right h1.1 f1
      _ = z1 * (1 / 8) ^ u * (1 - eps p) ^ u := by ring
      _ ≤ z2 := h2.1
  · calc z2 ≤ z1 * (1 / 8) ^ u * (1 + eps p) ^ u := h2.2
      _ = z1 * ((1 / 8) ^ u * (1 + eps p) ^ u) := by ring
      _ ≤ X * 8 ^ d * (1 + eps p) ^ d * ((1 / 8) ^ u * (1 + eps p) ^ u) := mul_le_mul_of_nonneg_right h1.2 f2
      _ = X * (8 ^ d * (1 / 8) ^ u) * (1 + eps p) ^ (d + u) := by ring

theorem pc_range (t : ℚ) (h0 : 1249 / 10000 ≤ t) (h1 : t ≤ 1) : 1 / 2 ≤ pc t ∧ pc t ≤ 99 / 100 := by
  have a := pc_mono (1249 / 10000) t (by norm_num) h0 h1
  have b := pc_mono t 1 (by linarith) h1 (le_refl _)
  have e1 : (1 : ℚ) / 2 ≤ pc (1249 / 10000) := by norm_num [pc]
  have e2 : pc 1 ≤ (99 : ℚ) / 100 := by norm_num [pc]
  constructor <;> linarith

theorem decHalf_nd : ndigits decHalf.coeff = 1 := by decide
theorem decTwo_nd : ndigits decTwo.coeff = 1 := by decide

end Apd.CbrtC
