/-!
# Hand-written prelude for the generated leaf functions: the `math/bits` primitives and `uint64`
wrap-around operators the translator refers to (modelled on `Nat < 2^64`), the error codes it maps
`errors.New(...)` to, and `BigInt.Sign` on a magnitude.
-/
namespace Apd.Gen

def two64 : Nat := 2 ^ 64
/-- `bits.Add64(x, y, carry) = (sum, carryOut)` -/
def add64 (x y carry : Nat) : Nat × Nat := ((x + y + carry) % two64, (x + y + carry) / two64)
/-- `bits.Sub64(x, y, borrow) = (diff, borrowOut)` -/
def sub64 (x y borrow : Nat) : Nat × Nat :=
  if x ≥ y + borrow then (x - (y + borrow), 0) else ((x + two64 - (y + borrow)) % two64, 1)
/-- `bits.Mul64(x, y) = (hi, lo)` -/
def mul64 (x y : Nat) : Nat × Nat := ((x * y) / two64, (x * y) % two64)
/-- wrapping `uint64` operators -/
def add64w (x y : Nat) : Nat := (x + y) % two64
def sub64w (x y : Nat) : Nat := (x + two64 - y % two64) % two64
def mul64w (x y : Nat) : Nat := (x * y) % two64
/-- `error` values the leaf functions can return -/
def errSys : Nat := 1
def errTrap : Nat := 2
/-- `BigInt.Sign()` of a non-negative magnitude -/
def natSign (n : Nat) : Int := if n == 0 then 0 else 1

end Apd.Gen
