import ApdVerif.Imp.Ops
import ApdVerif.Gen.Consts
/-!
# Hand-written prelude for the generated store-level programs (`Gen/Imp.lean`); core Lean only

The translator (harness/cmd/xlate, group `imp`) refers to the names below; everything else in `Gen/Imp.lean`
is produced from the Go syntax tree.

* the operand-pointer type `Src`, the primitive accesses `rdForm … wrCoeff` and the monad `Prog` come from
  `Imp/Ops.lean` / `Imp/Prog.lean` (no PROGRAM of `Imp/Ops.lean` is ever referred to by generated text);
* `narrow32` : a Go conversion to a narrower integer type (`int32(sum)`).  The store-level model, like
  `Imp/Ops.lean`, computes on unbounded `Int`s, so the conversion is the identity; it stays visible in the
  generated text;
* `toU32` : conversion of a non-negative signed integer to an unsigned one;
* `usub` : unsigned subtraction without wrap-around;
* `condNot` : bitwise complement of a `Condition`, restricted to the twelve flags;
* `goPanic` : what a branch ending in `panic(...)` evaluates to (the tie theorems show those branches dead);
* `bigSign` : `BigInt.Sign()` of a big integer held as sign flag + magnitude.  `Decimal.Coeff` is a magnitude in
  the heap (`Dec.coeff : Nat`); where Go leaves a transiently negative value in it (`Context.add`:
  `d.Coeff.Sub(a, b)`) the sign lives in a generated local, as in `Imp/Ops.lean`;
* `BPtr` : a `*BigInt` VALUE (what `upscale` returns): nil, the address of an operand's coefficient (dereferenced
  where Go dereferences it), or a scratch big integer identified with its contents.
-/
namespace Apd.Gen.ImpG
open Apd Apd.Imp

/-- `int32(x)` etc.: identity on the model's unbounded integers -/
def narrow32 (x : Int) : Int := x

/-- `uint32(p)` of a signed `p`: exact when `p ≥ 0` (the tie theorems show the programs only convert non-negative
values); the wrap-around of a negative value is not modelled -/
def toU32 (x : Int) : Nat := x.toNat

/-- subtraction of unsigned integers (`c.Precision - 1`): exact when it does not wrap around.  The widths of
unsigned fields are not modelled (`Ctx.prec : Nat`), so the wrap-around of Go is not either; the tie theorems
show that the programs only subtract when the result is non-negative. -/
def usub (a b : Nat) : Nat := a - b

/-- `^K` for a `Condition` (used as `res &= ^K`): the twelve flags negated -/
def condNot (a : Cond) : Cond :=
  { sysOverflow := !a.sysOverflow, sysUnderflow := !a.sysUnderflow, overflow := !a.overflow,
    underflow := !a.underflow, inexact := !a.inexact, subnormal := !a.subnormal, rounded := !a.rounded,
    divUndefined := !a.divUndefined, divByZero := !a.divByZero, divImpossible := !a.divImpossible,
    invalidOp := !a.invalidOp, clamped := !a.clamped }

/-- value of a branch that ends in `panic(...)` -/
def goPanic {α : Type} [Inhabited α] : α := default

/-- `BigInt.Sign()` of a non-negative magnitude -/
def natSign (n : Nat) : Int := if n == 0 then 0 else 1

/-- `BigInt.Sign()` of sign flag + magnitude -/
def bigSign (neg : Bool) (mag : Nat) : Int := if mag == 0 then 0 else if neg then -1 else 1

/-- a `*BigInt` value -/
inductive BPtr where
  | null
  | coeff (s : Src)
  | val (n : Nat)

/-- `*p` for a `*BigInt` -/
def derefB : BPtr → Prog Nat
  | .null => pure goPanic
  | .coeff s => rdCoeff s
  | .val n => pure n

end Apd.Gen.ImpG
