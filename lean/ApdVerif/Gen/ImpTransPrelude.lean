import ApdVerif.Gen.ImpPrelude
import ApdVerif.Model.TransLog
/-!
# Hand-written prelude for the generated composite programs (`Gen/ImpTrans.lean`); core Lean only

Names the translator (harness/cmd/xlate, group `imptrans`) refers to in addition to those of `Gen/ImpPrelude.lean`;
everything else in `Gen/ImpTrans.lean` is produced from the Go syntax tree.
-/
namespace Apd.Gen.ImpG
open Apd Apd.Imp

/-- the struct `loop` of loop.go as a value (`name`, used in an error message only, is left out; `arg` is the copy
`new(Decimal).Set(arg)`) -/
structure Loop where
  c : Ctx := {}
  i : Nat := 0
  precision : Int := 0
  maxIterations : Nat := 0
  arg : Dec := {}
  prevZ : Dec := {}
  delta : Dec := {}
deriving Inhabited

/-- a big integer held as sign flag + magnitude, as a signed integer (argument of a read-only `*BigInt` parameter) -/
def bigInt (neg : Bool) (mag : Nat) : Int := if neg then -(mag : Int) else (mag : Int)

/-- `BigInt.Rsh` of a signed value (an arithmetic shift: floor(x / 2^n)): the magnitude of the result -/
def bigRshMag (neg : Bool) (mag n : Nat) : Nat := if neg then (mag - 1) / 2 ^ n + 1 else mag / 2 ^ n

end Apd.Gen.ImpG
