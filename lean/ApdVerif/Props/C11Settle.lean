import ApdVerif.Props.C11
import ApdVerif.Props.C15
import ApdVerif.Lemmas.C11SettleLemmas
/-!
# C11 — the settling step of Sqrt decides exactly

`Context.Sqrt` ends (since the repair of the double-rounding defect) with the step Hull and Abrham
prescribe: the iterate is truncated to the rounding position, giving `t = m·10^q`, and the square of the
midpoint `t + 10^q/2` is compared with the operand — exactly, on the coefficients. The theorem below says
that this choice is the half-even rounding of the exact root *whenever `t` brackets the root from below
within one unit* (`t² ≤ x < (t + 10^q)²`) — a decidable condition on `t` and `x`. What remains unproved
is only that the Newton iterate always satisfies the bracket; the end result of every explored case is
judged by the proved oracle `specSqrt`, so an iterate that escaped the bracket and led to a wrong result
would be reported as a C11 failure.
-/
namespace Apd.Props
open Apd Apd.Oracle Apd.C11L Apd.C15L Apd.C11S

/-- the coefficient `sqrtSettle` selects at exponent `t.exp`: `t.coeff` or its successor -/
def sqrtChoice (t x : Dec) : Nat :=
  let mid : Dec := { t with coeff := t.coeff * 10 + 5, exp := t.exp - 1 }
  let sq : Dec := { coeff := mid.coeff * mid.coeff, exp := 2 * mid.exp }
  let cmp := sq.cmp x
  if cmp < 0 || (cmp == 0 && t.coeff % 2 == 1) then t.coeff + 1 else t.coeff

/-- `x / 10^(2q)` as a fraction `num/den` (the frame of `C11_specSqrt_nearest`) -/
def sqrtNum (x : Dec) (q : Int) : Nat := if x.exp - 2 * q ≥ 0 then x.coeff * 10 ^ (x.exp - 2 * q).toNat else x.coeff
def sqrtDen (x : Dec) (q : Int) : Nat := if x.exp - 2 * q ≥ 0 then 1 else 10 ^ (-(x.exp - 2 * q)).toNat

/-! ## the comparison made by `sqrtChoice` -/

theorem sqrtDen_pos (x : Dec) (q : Int) : 0 < sqrtDen x q := by
  unfold sqrtDen; split
  · exact Nat.one_pos
  · exact Nat.pow_pos (by decide)

theorem sqrtChoice_eq (t x : Dec) :
    sqrtChoice t x =
      if (midSq t.coeff t.exp).cmp x < 0 || ((midSq t.coeff t.exp).cmp x == 0 && t.coeff % 2 == 1)
      then t.coeff + 1 else t.coeff := rfl

/-- the comparison made by `sqrtChoice`, on the frame `num/den` -/
theorem midSq_cmp (t x : Dec) (hx : x.form = .finite) (hxn : x.neg = false) :
    (midSq t.coeff t.exp).cmp x =
      cmpInt (((2 * t.coeff + 1) * (2 * t.coeff + 1) * sqrtDen x t.exp : Nat) : Int)
        ((4 * sqrtNum x t.exp : Nat) : Int) := by
  unfold sqrtDen sqrtNum
  by_cases hs : x.exp - 2 * t.exp ≥ 0
  · rw [if_pos hs, if_pos hs]; exact midSq_cmp_ge _ _ x hx hxn hs
  · rw [if_neg hs, if_neg hs]; exact midSq_cmp_lt _ _ x hx hxn hs

theorem sqrtChoice_lt (t x : Dec) (hx : x.form = .finite) (hxn : x.neg = false)
    (h : (2 * t.coeff + 1) * (2 * t.coeff + 1) * sqrtDen x t.exp < 4 * sqrtNum x t.exp) :
    sqrtChoice t x = t.coeff + 1 := by
  rw [sqrtChoice_eq, midSq_cmp t x hx hxn, cmpInt_lt (by exact_mod_cast h)]
  simp

theorem sqrtChoice_gt (t x : Dec) (hx : x.form = .finite) (hxn : x.neg = false)
    (h : 4 * sqrtNum x t.exp < (2 * t.coeff + 1) * (2 * t.coeff + 1) * sqrtDen x t.exp) :
    sqrtChoice t x = t.coeff := by
  rw [sqrtChoice_eq, midSq_cmp t x hx hxn, cmpInt_gt (by exact_mod_cast h)]
  simp

theorem sqrtChoice_tie (t x : Dec) (hx : x.form = .finite) (hxn : x.neg = false)
    (h : 4 * sqrtNum x t.exp = (2 * t.coeff + 1) * (2 * t.coeff + 1) * sqrtDen x t.exp) :
    sqrtChoice t x = if t.coeff % 2 = 1 then t.coeff + 1 else t.coeff := by
  rw [sqrtChoice_eq, midSq_cmp t x hx hxn, cmpInt_eq (by rw [h])]
  simp

set_option linter.unusedVariables false in
/-- **the choice is the nearest multiple of `10^q` to `√x`, ties to even** — stated on squares exactly as
`C11_specSqrt_nearest` states it for the specification -/
theorem C11_settle_choice (t x : Dec) (hx : x.form = .finite) (hxn : x.neg = false) (hx0 : x.coeff ≠ 0)
    (ht : t.form = .finite) (htn : t.neg = false)
    (hlo : t.coeff * t.coeff * sqrtDen x t.exp ≤ sqrtNum x t.exp)
    (hhi : sqrtNum x t.exp < (t.coeff + 1) * (t.coeff + 1) * sqrtDen x t.exp) :
    let m := sqrtChoice t x
    let num := sqrtNum x t.exp
    let den := sqrtDen x t.exp
    (m = t.coeff ∨ m = t.coeff + 1) ∧
    ((2 * m - 1) * (2 * m - 1) * den ≤ 4 * num ∨ m = 0) ∧ 4 * num ≤ (2 * m + 1) * (2 * m + 1) * den ∧
    (4 * num = (2 * m + 1) * (2 * m + 1) * den → m % 2 = 0) ∧
    (m ≠ 0 → (2 * m - 1) * (2 * m - 1) * den = 4 * num → m % 2 = 0) := by
  intro m num den
  have hd : 0 < den := sqrtDen_pos x t.exp
  rcases Nat.lt_trichotomy (4 * num) ((2 * t.coeff + 1) * (2 * t.coeff + 1) * den) with hlt | heq | hgt
  · have hm : m = t.coeff := sqrtChoice_gt t x hx hxn hlt
    rw [hm]
    exact ⟨Or.inl rfl, nearest_same t.coeff num den hd hlo hhi (Or.inr (Or.inl hlt))⟩
  · by_cases hp : t.coeff % 2 = 1
    · have hm : m = t.coeff + 1 := by
        show sqrtChoice t x = _
        rw [sqrtChoice_tie t x hx hxn heq, if_pos hp]
      rw [hm]
      obtain ⟨g1, g2, g3, g4, _⟩ := nearest_succ t.coeff num den hd hlo hhi (Or.inr ⟨heq, hp⟩)
      exact ⟨Or.inr rfl, g1, g2, g3, g4⟩
    · have hm : m = t.coeff := by
        show sqrtChoice t x = _
        rw [sqrtChoice_tie t x hx hxn heq, if_neg hp]
      rw [hm]
      exact ⟨Or.inl rfl, nearest_same t.coeff num den hd hlo hhi (Or.inr (Or.inr ⟨heq, by omega⟩))⟩
  · have hm : m = t.coeff + 1 := sqrtChoice_lt t x hx hxn hgt
    rw [hm]
    obtain ⟨g1, g2, g3, g4, _⟩ := nearest_succ t.coeff num den hd hlo hhi (Or.inl hgt)
    exact ⟨Or.inr rfl, g1, g2, g3, g4⟩

/-- `C11_settle_is_spec` without the hypothesis that the specification reports Inexact -/
theorem C11_settle_is_spec' (c : Ctx) (t x : Dec) (hx : x.form = .finite) (hxn : x.neg = false)
    (hq : (specSqrt c x).q = t.exp) (hinf : (specSqrt c x).inf = false)
    (hlo : t.coeff * t.coeff * sqrtDen x t.exp ≤ sqrtNum x t.exp)
    (hhi : sqrtNum x t.exp < (t.coeff + 1) * (t.coeff + 1) * sqrtDen x t.exp) :
    (specSqrt c x).m = sqrtChoice t x := by
  obtain ⟨hm, hq', -⟩ := specSqrt_fields c x hinf
  rw [hq] at hq'
  rw [← hq'] at hm
  have hd : 0 < sqrtDen x t.exp := sqrtDen_pos x t.exp
  have hn : isqrt (sqrtNum x t.exp / sqrtDen x t.exp) = t.coeff :=
    isqrt_eq _ _ ((Nat.le_div_iff_mul_le hd).mpr hlo) ((Nat.div_lt_iff_lt_mul hd).mpr hhi)
  change (specSqrt c x).m =
    if (isqrt (sqrtNum x t.exp / sqrtDen x t.exp) * isqrt (sqrtNum x t.exp / sqrtDen x t.exp) * sqrtDen x t.exp
        == sqrtNum x t.exp) then isqrt (sqrtNum x t.exp / sqrtDen x t.exp)
    else if specAddOne .halfEven (isqrt (sqrtNum x t.exp / sqrtDen x t.exp)) false
        (compare (4 * sqrtNum x t.exp)
          ((2 * isqrt (sqrtNum x t.exp / sqrtDen x t.exp) + 1) * (2 * isqrt (sqrtNum x t.exp / sqrtDen x t.exp) + 1) *
            sqrtDen x t.exp))
      then isqrt (sqrtNum x t.exp / sqrtDen x t.exp) + 1 else isqrt (sqrtNum x t.exp / sqrtDen x t.exp) at hm
  rw [hn] at hm
  rw [hm]
  obtain ⟨e1, -, -, -, -, -⟩ := lin_facts t.coeff (sqrtDen x t.exp)
  rcases Nat.lt_trichotomy (4 * sqrtNum x t.exp) ((2 * t.coeff + 1) * (2 * t.coeff + 1) * sqrtDen x t.exp)
    with hlt | heq | hgt
  · rw [sqrtChoice_gt t x hx hxn hlt, compare_lt_iff_lt.mpr hlt]
    simp [specAddOne]
  · rw [sqrtChoice_tie t x hx hxn heq, compare_eq_iff_eq.mpr heq]
    have hne : ¬ t.coeff * t.coeff * sqrtDen x t.exp = sqrtNum x t.exp := by omega
    by_cases hp : t.coeff % 2 = 1 <;> simp [specAddOne, hp, hne]
  · rw [sqrtChoice_lt t x hx hxn hgt, compare_gt_iff_gt.mpr hgt]
    have hne : ¬ t.coeff * t.coeff * sqrtDen x t.exp = sqrtNum x t.exp := by omega
    simp [specAddOne, hne]


set_option linter.unusedVariables false in
/-- under the same bracket the choice is the specification's coefficient, when the specification rounds
at the same position `q = t.exp` and does not overflow -/
theorem C11_settle_is_spec (c : Ctx) (t x : Dec) (hx : x.form = .finite) (hxn : x.neg = false) (hx0 : x.coeff ≠ 0)
    (ht : t.form = .finite) (htn : t.neg = false)
    (hq : (specSqrt c x).q = t.exp) (hinf : (specSqrt c x).inf = false)
    (hlo : t.coeff * t.coeff * sqrtDen x t.exp ≤ sqrtNum x t.exp)
    (hhi : sqrtNum x t.exp < (t.coeff + 1) * (t.coeff + 1) * sqrtDen x t.exp)
    (hinex : (specSqrt c x).inexact = true) :
    (specSqrt c x).m = sqrtChoice t x := by
  exact C11_settle_is_spec' c t x hx hxn hq hinf hlo hhi

/-! ## the shape of `sqrtSettle` -/

/-- the decimal `sqrtSettle` rounds: `t` or its successor, renormalised after a carry -/
def settleT (nc : Ctx) (t x : Dec) : Dec :=
  if (midSq t.coeff t.exp).cmp x < 0 || ((midSq t.coeff t.exp).cmp x == 0 && t.coeff % 2 == 1) then
    if ndigits (t.coeff + 1) > nc.prec then { t with coeff := (t.coeff + 1) / 10, exp := t.exp + 1 }
    else { t with coeff := t.coeff + 1 }
  else t

theorem sqrtSettle_eq (nc : Ctx) (d approx x : Dec) :
    sqrtSettle nc d approx x =
      (let dn := ctxRound { nc with mode := .down } approx
       if !dn.2.inexact || dn.1.form != .finite || (ndigits dn.1.coeff != nc.prec && !dn.2.subnormal) then (d, {})
       else if (settleT nc dn.1 x).cmp d == 0 then (d, {}) else ctxRound nc (settleT nc dn.1 x)) := rfl

theorem settleT_eq (nc : Ctx) (t x : Dec) :
    settleT nc t x =
      if sqrtChoice t x ≠ t.coeff ∧ ndigits (sqrtChoice t x) > nc.prec then
        { t with coeff := sqrtChoice t x / 10, exp := t.exp + 1 }
      else { t with coeff := sqrtChoice t x } := by
  unfold settleT
  rw [sqrtChoice_eq]
  by_cases h : ((midSq t.coeff t.exp).cmp x < 0 || ((midSq t.coeff t.exp).cmp x == 0 && t.coeff % 2 == 1)) = true
  · rw [if_pos h, if_pos h]
    have : t.coeff + 1 ≠ t.coeff := by omega
    by_cases h2 : ndigits (t.coeff + 1) > nc.prec
    · rw [if_pos h2, if_pos ⟨this, h2⟩]
    · rw [if_neg h2, if_neg (fun hh => h2 hh.2)]
  · rw [if_neg h, if_neg h, if_neg (fun hh => hh.1 rfl)]

/-- the unconditional form: the renormalisation is applied only when the successor was chosen -/
theorem C11_settle_shape_all (nc : Ctx) (d approx x : Dec) :
    let dn := ctxRound { nc with mode := .down } approx
    let t := dn.1
    sqrtSettle nc d approx x = (d, {}) ∨
    (let m := sqrtChoice t x
     let t' : Dec := if m ≠ t.coeff ∧ ndigits m > nc.prec then { t with coeff := m / 10, exp := t.exp + 1 } else { t with coeff := m }
     sqrtSettle nc d approx x = ctxRound nc t') := by
  intro dn t
  rw [sqrtSettle_eq]
  simp only []
  split
  · exact Or.inl rfl
  · split
    · exact Or.inl rfl
    · right
      rw [settleT_eq]

theorem settleT_eq' (nc : Ctx) (t x : Dec) (hd : ndigits t.coeff ≤ nc.prec) :
    settleT nc t x =
      if ndigits (sqrtChoice t x) > nc.prec then { t with coeff := sqrtChoice t x / 10, exp := t.exp + 1 }
      else { t with coeff := sqrtChoice t x } := by
  rw [settleT_eq]
  by_cases hm : sqrtChoice t x = t.coeff
  · rw [if_neg (fun hh => hh.1 hm), if_neg (by rw [hm]; omega)]
  · by_cases h2 : ndigits (sqrtChoice t x) > nc.prec
    · rw [if_pos ⟨hm, h2⟩, if_pos h2]
    · rw [if_neg (fun hh => h2 hh.2), if_neg h2]

/-- `C11_settle_shape` for a non-zero precision -/
theorem C11_settle_shape_partial (nc : Ctx) (d approx x : Dec) (hp : nc.prec ≠ 0) :
    let dn := ctxRound { nc with mode := .down } approx
    let t := dn.1
    sqrtSettle nc d approx x = (d, {}) ∨
    (let m := sqrtChoice t x
     let t' : Dec := if ndigits m > nc.prec then { t with coeff := m / 10, exp := t.exp + 1 } else { t with coeff := m }
     sqrtSettle nc d approx x = ctxRound nc t') := by
  intro dn t
  rw [sqrtSettle_eq]
  simp only []
  split
  · exact Or.inl rfl
  · rename_i hg
    split
    · exact Or.inl rfl
    · right
      have hin : (ctxRound { nc with mode := .down } approx).2.inexact = true := by
        cases h : (ctxRound { nc with mode := .down } approx).2.inexact
        · exact absurd (by simp [h]) hg
        · rfl
      have hd : ndigits (ctxRound { nc with mode := .down } approx).1.coeff ≤ nc.prec :=
        roundDown_digits { nc with mode := .down } approx rfl (Nat.pos_of_ne_zero hp) hin
      rw [settleT_eq' nc _ x hd]

/- The statement originally given for the shape, without `hp`, is FALSE at precision 0:

/ -- `sqrtSettle` returns `d` untouched or the rounding of `t` with the chosen coefficient (renormalised when
`99…9 + 1` gains a digit): the connection between the model's function and `sqrtChoice` - /
theorem C11_settle_shape (nc : Ctx) (d approx x : Dec) :
    let dn := ctxRound { nc with mode := .down } approx
    let t := dn.1
    sqrtSettle nc d approx x = (d, {}) ∨
    (let m := sqrtChoice t x
     let t' : Dec := if ndigits m > nc.prec then { t with coeff := m / 10, exp := t.exp + 1 } else { t with coeff := m }
     sqrtSettle nc d approx x = ctxRound nc t') := by

   Counterexample (checked below): `nc = {prec := 0, emin := -10, emax := 10}`, `approx = 123E-20`, `x = 1E-30`,
   `d = 1`.  The truncation gives `t = 0E-9` (one digit, more than the precision 0, Subnormal and Inexact set,
   so the guard lets it through); the midpoint square `25E-20` exceeds `x`, so the choice is `t.coeff = 0` and
   `sqrtSettle` rounds `t` itself, returning `0E-9`; the statement's `t'` is renormalised to `0E-8` because
   `ndigits 0 = 1 > 0`, and `ctxRound nc 0E-8 = 0E-8 ≠ 0E-9`.  For `nc.prec ≠ 0` the truncation never delivers
   more than `prec` digits (`roundDown_digits`) and the statement holds: `C11_settle_shape_partial`;
   `C11_settle_shape_all` is the form valid at every precision. -/

section Counterexample
private def ceNc : Ctx := { prec := 0, emin := -10, emax := 10 }
private def ceApprox : Dec := { coeff := 123, exp := -20 }
private def ceX : Dec := { coeff := 1, exp := -30 }
private def ceD : Dec := { coeff := 1 }
private def ceT : Dec := (ctxRound { ceNc with mode := .down } ceApprox).1

example : ceT = { coeff := 0, exp := -9 } := by decide
example : sqrtChoice ceT ceX = 0 := by decide
example : sqrtSettle ceNc ceD ceApprox ceX = ({ coeff := 0, exp := -9 }, {}) := by decide
example : sqrtSettle ceNc ceD ceApprox ceX ≠ (ceD, {}) := by decide
example :
    (let m := sqrtChoice ceT ceX
     let t' : Dec := if ndigits m > ceNc.prec then { ceT with coeff := m / 10, exp := ceT.exp + 1 } else { ceT with coeff := m }
     ctxRound ceNc t') = ({ coeff := 0, exp := -8 }, {}) := by decide

/-- the statement originally given for `C11_settle_shape` (no hypothesis on the precision) is refutable -/
theorem C11_settle_shape_false :
    ¬ ∀ (nc : Ctx) (d approx x : Dec),
      let dn := ctxRound { nc with mode := .down } approx
      let t := dn.1
      sqrtSettle nc d approx x = (d, {}) ∨
      (let m := sqrtChoice t x
       let t' : Dec := if ndigits m > nc.prec then { t with coeff := m / 10, exp := t.exp + 1 } else { t with coeff := m }
       sqrtSettle nc d approx x = ctxRound nc t') := by
  intro h
  exact absurd (h ceNc ceD ceApprox ceX) (by decide)
end Counterexample

/-! ## non-vacuity: the witness of finding F2 satisfies the bracket, and the choice is `t.coeff`
(the exact root lies just below the midpoint; the unrepaired code returned the successor) -/

section Witness
private def wT : Dec := { coeff := 99999999999, exp := -16 }
private def wX : Dec := { coeff := 99999999999, exp := -21 }

example : wT.coeff * wT.coeff * sqrtDen wX wT.exp ≤ sqrtNum wX wT.exp := by decide
example : sqrtNum wX wT.exp < (wT.coeff + 1) * (wT.coeff + 1) * sqrtDen wX wT.exp := by decide
example : sqrtChoice wT wX = 99999999999 := by decide
example :
    let m := sqrtChoice wT wX
    (m = wT.coeff ∨ m = wT.coeff + 1) ∧
    ((2 * m - 1) * (2 * m - 1) * sqrtDen wX wT.exp ≤ 4 * sqrtNum wX wT.exp ∨ m = 0) ∧
    4 * sqrtNum wX wT.exp ≤ (2 * m + 1) * (2 * m + 1) * sqrtDen wX wT.exp :=
  let h := C11_settle_choice wT wX rfl rfl (by decide) rfl rfl (by decide) (by decide)
  ⟨h.1, h.2.1, h.2.2.1⟩
end Witness

#print axioms C11_settle_choice
#print axioms C11_settle_is_spec
#print axioms C11_settle_is_spec'
#print axioms C11_settle_shape_partial
#print axioms C11_settle_shape_all
#print axioms C11_settle_shape_false

end Apd.Props
