import ApdVerif.Model.Dispatch
import ApdVerif.Spec.Defs
import ApdVerif.Lemmas.C03Lemmas
/-!
# C03 — traps turn raised conditions into errors and never change or hide results
-/
namespace Apd.Props
open Apd Apd.C03L

def withTraps (c : Ctx) (t : Cond) : Ctx := { c with traps := t }

theorem withTraps_eq_wt (c : Ctx) (t : Cond) : withTraps c t = wt c t := rfl

/-- algebra of `GoError`: an error iff a system limit was hit or a raised condition is trapped -/
theorem C03_goError_iff (traps fl : Cond) :
    goError traps fl ≠ .none ↔ (fl.sysOverflow = true ∨ fl.sysUnderflow = true ∨ (fl &&& traps).any = true) :=
  goError_iff traps fl

theorem C03_goError_class (traps fl : Cond) :
    goError traps fl = (if fl.sysOverflow || fl.sysUnderflow then .sys else if (fl &&& traps).any then .trap else .none) :=
  goError_class traps fl

/-- the single-rounding operations of the protocol -/
def singleOps : List String :=
  ["add", "sub", "mul", "quo", "quoint", "rem", "abs", "neg", "round", "quantize", "rtie", "rtiv", "reduce", "cmp", "ceil", "floor"]

/-- every single-rounding operation obeys the trap law -/
theorem single_law (op : String) (hop : op ∈ singleOps) (c : Ctx) (t : Cond) (x y : Dec) (i : Int) :
    runCtxOp op (wt c t) x y i = (runCtxOp op (wt c {}) x y i).map (retrap t) := by
  simp only [singleOps, List.mem_cons, List.not_mem_nil, or_false] at hop
  rcases hop with rfl | rfl | rfl | rfl | rfl | rfl | rfl | rfl | rfl | rfl | rfl | rfl | rfl | rfl | rfl | rfl
  · exact congrArg some (addOp_wt c t x y false)
  · exact congrArg some (addOp_wt c t x y true)
  · exact congrArg some (mulOp_wt c t x y)
  · exact congrArg some (quoOp_wt c t x y)
  · exact congrArg some (quoIntegerOp_wt c t x y)
  · exact congrArg some (remOp_wt c t x y)
  · exact congrArg some (absOp_wt c t x)
  · exact congrArg some (negOp_wt c t x)
  · exact congrArg some (roundOp_wt c t x)
  · exact congrArg some (quantizeOp_wt c t x i)
  · exact congrArg some (rtie_wt c t x)
  · exact congrArg some (rtiv_wt c t x)
  · exact congrArg some (reduceOp_wt c t x)
  · exact congrArg some (cmpOp_wt c t x y)
  · exact congrArg some (ceilOp_wt c t x)
  · exact congrArg some (floorOp_wt c t x)

/-- For every single-rounding operation, every operand and every context: the destination, the
flags and the auxiliary result do not depend on the trap set; the error under trap set `t` is the
trap-free run's error if it has one (system limit, zero precision), and otherwise `goError t flags`:
non-nil exactly when `flags & t ≠ 0`, the result and flags being delivered alongside it. -/
theorem C03_single_traps (op : String) (hop : op ∈ singleOps) (c : Ctx) (t : Cond) (x y : Dec) (i : Int)
    (oT o0 : Out) (hT : runCtxOp op (withTraps c t) x y i = some oT) (h0 : runCtxOp op (withTraps c {}) x y i = some o0) :
    oT.d = o0.d ∧ oT.fl = o0.fl ∧ oT.aux = o0.aux ∧
    oT.err = (if o0.err ≠ .none then o0.err else goError t o0.fl) := by
  rw [withTraps_eq_wt] at hT h0
  rw [single_law op hop, h0] at hT
  simp only [Option.map_some, Option.some.injEq] at hT
  subst hT
  exact ⟨rfl, rfl, rfl, rfl⟩

/-! ## ErrDecimal: sticky first error, accumulated flags, skip after error -/

theorem C03_ed_skip (e : ED) (cur : Dec) (op : Ctx → Out) (h : e.failed = true) : e.step cur op = (e, cur) :=
  ed_skip e cur op h

theorem C03_ed_run (e : ED) (cur : Dec) (op : Ctx → Out) (h : e.failed = false) :
    e.step cur op = ({ e with fl := e.fl ||| (op e.c).fl, err := (op e.c).err }, (op e.c).d) :=
  ed_run e cur op h

/-- once an error has occurred it stays, and every later destination is left untouched -/
theorem C03_ed_sticky (e : ED) (cur : Dec) (op : Ctx → Out) (h : e.failed = true) :
    (e.step cur op).1.failed = true ∧ (e.step cur op).2 = cur ∧ (e.step cur op).1.errOf = e.errOf := by
  rw [ed_skip e cur op h]
  exact ⟨h, rfl, rfl⟩

/-- flags only accumulate -/
theorem C03_ed_flags_mono (e : ED) (cur : Dec) (op : Ctx → Out) :
    ((e.step cur op).1.fl &&& e.fl) = e.fl := by
  cases h : e.failed with
  | true => rw [ed_skip e cur op h]; exact cond_and_self e.fl
  | false => rw [ed_run e cur op h]; exact cond_or_and_left e.fl _

/-- an operation whose own outcome carries an error (under the ErrDecimal's context) leaves the
ErrDecimal failed -/
theorem C03_ed_records (e : ED) (cur : Dec) (op : Ctx → Out) (h : e.failed = false)
    (herr : (op e.c).err ≠ .none) : (e.step cur op).1.failed = true := by
  rw [ed_run e cur op h]
  unfold ED.failed
  simp [herr]

/-! ## composite functions: an internal failure surfaces as an error -/

/-- Sqrt returns either a special-case outcome, an error (when an internal step failed), or the
rounded iterate -/
theorem C03_sqrt_nil_error_means_no_internal_failure (c : Ctx) (x : Dec)
    (hs : rootSpecials c x 2 = none) (h : (sqrtOp c x).err = .none) :
    ∃ d fl, sqrtOp c x = { d := d, fl := fl, err := .none } ∧ goError c.traps fl = .none :=
  sqrt_nil_error c x hs h

/-- if Sqrt returns a nil error under trap set `t`, the trap-free run returns the same result and flags -/
theorem C03_sqrt_traps (c : Ctx) (t : Cond) (x : Dec) (h : (sqrtOp (withTraps c t) x).err = .none) :
    (sqrtOp (withTraps c {}) x).d = (sqrtOp (withTraps c t) x).d ∧
    (sqrtOp (withTraps c {}) x).fl = (sqrtOp (withTraps c t) x).fl :=
  sqrtOp_traps c t x h

end Apd.Props

#print axioms Apd.Props.C03_goError_iff
#print axioms Apd.Props.C03_goError_class
#print axioms Apd.Props.C03_single_traps
#print axioms Apd.Props.C03_ed_skip
#print axioms Apd.Props.C03_ed_run
#print axioms Apd.Props.C03_ed_sticky
#print axioms Apd.Props.C03_ed_flags_mono
#print axioms Apd.Props.C03_ed_records
#print axioms Apd.Props.C03_sqrt_nil_error_means_no_internal_failure
#print axioms Apd.Props.C03_sqrt_traps
