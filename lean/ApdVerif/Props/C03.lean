import ApdVerif.Model.Dispatch
import ApdVerif.Spec.Defs
/-!
# C03 — traps turn raised conditions into errors and never change or hide results
-/
namespace Apd.Props
open Apd

def withTraps (c : Ctx) (t : Cond) : Ctx := { c with traps := t }

/-- algebra of `GoError`: an error iff a system limit was hit or a raised condition is trapped -/
theorem C03_goError_iff (traps fl : Cond) :
    goError traps fl ≠ .none ↔ (fl.sysOverflow = true ∨ fl.sysUnderflow = true ∨ (fl &&& traps).any = true) := by
  sorry

theorem C03_goError_class (traps fl : Cond) :
    goError traps fl = (if fl.sysOverflow || fl.sysUnderflow then .sys else if (fl &&& traps).any then .trap else .none) := by
  sorry

/-- the single-rounding operations of the protocol -/
def singleOps : List String :=
  ["add", "sub", "mul", "quo", "quoint", "rem", "abs", "neg", "round", "quantize", "rtie", "rtiv", "reduce", "cmp", "ceil", "floor"]

/-- For every single-rounding operation, every operand and every context: the destination, the
flags and the auxiliary result do not depend on the trap set; the error under trap set `t` is the
trap-free run's error if it has one (system limit, zero precision), and otherwise `goError t flags`:
non-nil exactly when `flags & t ≠ 0`, the result and flags being delivered alongside it. -/
theorem C03_single_traps (op : String) (hop : op ∈ singleOps) (c : Ctx) (t : Cond) (x y : Dec) (i : Int)
    (oT o0 : Out) (hT : runCtxOp op (withTraps c t) x y i = some oT) (h0 : runCtxOp op (withTraps c {}) x y i = some o0) :
    oT.d = o0.d ∧ oT.fl = o0.fl ∧ oT.aux = o0.aux ∧
    oT.err = (if o0.err ≠ .none then o0.err else goError t o0.fl) := by
  sorry

/-! ## ErrDecimal: sticky first error, accumulated flags, skip after error -/

theorem C03_ed_skip (e : ED) (cur : Dec) (op : Ctx → Out) (h : e.failed = true) : e.step cur op = (e, cur) := by
  sorry

theorem C03_ed_run (e : ED) (cur : Dec) (op : Ctx → Out) (h : e.failed = false) :
    e.step cur op = ({ e with fl := e.fl ||| (op e.c).fl, err := (op e.c).err }, (op e.c).d) := by
  sorry

/-- once an error has occurred it stays, and every later destination is left untouched -/
theorem C03_ed_sticky (e : ED) (cur : Dec) (op : Ctx → Out) (h : e.failed = true) :
    (e.step cur op).1.failed = true ∧ (e.step cur op).2 = cur ∧ (e.step cur op).1.errOf = e.errOf := by
  sorry

/-- flags only accumulate -/
theorem C03_ed_flags_mono (e : ED) (cur : Dec) (op : Ctx → Out) :
    ((e.step cur op).1.fl &&& e.fl) = e.fl := by
  sorry

/-- an operation whose own outcome carries an error (under the ErrDecimal's context) leaves the
ErrDecimal failed -/
theorem C03_ed_records (e : ED) (cur : Dec) (op : Ctx → Out) (h : e.failed = false)
    (herr : (op e.c).err ≠ .none) : (e.step cur op).1.failed = true := by
  sorry

/-! ## composite functions: an internal failure surfaces as an error -/

/-- Sqrt returns either a special-case outcome, an error (when an internal step failed), or the
rounded iterate -/
theorem C03_sqrt_nil_error_means_no_internal_failure (c : Ctx) (x : Dec)
    (hs : rootSpecials c x 2 = none) (h : (sqrtOp c x).err = .none) :
    ∃ d fl, sqrtOp c x = { d := d, fl := fl, err := .none } ∧ goError c.traps fl = .none := by
  sorry

/-- if Sqrt returns a nil error under trap set `t`, the trap-free run returns the same result and flags -/
theorem C03_sqrt_traps (c : Ctx) (t : Cond) (x : Dec) (h : (sqrtOp (withTraps c t) x).err = .none) :
    (sqrtOp (withTraps c {}) x).d = (sqrtOp (withTraps c t) x).d ∧
    (sqrtOp (withTraps c {}) x).fl = (sqrtOp (withTraps c t) x).fl := by
  sorry

end Apd.Props
