import ApdVerif.Model.TransLog
import ApdVerif.Gen.Consts
/-!
# Regenerated tie: the digit strings of ln(10) and 1/ln(10)

`Gen.strLn10Coeff` etc. are re-extracted from const.go on every run; the model's `ln10Coeff` etc.
(`Model/TransLog.lean`, from which the pre-rounded tables are derived) are the same numbers. The
tables themselves, as the package holds them at run time, are compared with the model's derivation by
the `consts` lines of the translog stream.
-/
namespace Apd.Props
open Apd

theorem GenTie_ln10 :
    Gen.strLn10Coeff = Apd.ln10Coeff ∧ Gen.strLn10Exp = Apd.ln10Exp ∧ Gen.strLn10Len = Apd.ln10StrLen ∧
    Gen.strInvLn10Coeff = Apd.invLn10Coeff ∧ Gen.strInvLn10Exp = Apd.invLn10Exp ∧ Gen.strInvLn10Len = Apd.invLn10StrLen := by
  refine ⟨by decide, by decide, by decide, by decide, by decide, by decide⟩

/-- the table has 12 entries (1, 2, 4, …, 2048 digits) for both constants -/
theorem GenTie_constVals : constVals ln10StrLen = 12 ∧ constVals invLn10StrLen = 12 := by
  refine ⟨by decide, by decide⟩

#print axioms Apd.Props.GenTie_ln10
#print axioms Apd.Props.GenTie_constVals
end Apd.Props
