import ApdVerif.Spec.Agrees
/-!
# Round core: `Context.round` (= `Rounder.Round` + `setExponent`) agrees with the specification,
and so do the operations that compute an exact intermediate and end in it.
-/
namespace Apd.Props
open Apd Apd.Oracle

/-! ## Round (and everything that ends in `Context.round`) -/

theorem C01_roundCore (c : Ctx) (hc : c.WF) (x : Dec) (hx : x.form = .finite)
    (h : NoSys (ctxRound c x).2) :
    Agrees c (exactRound x) (ctxRound c x).1 (ctxRound c x).2 := by
  sorry

theorem C01_roundCore_prec0 (c : Ctx) (hc : c.WF0) (hp : c.prec = 0) (x : Dec) (hx : x.form = .finite)
    (h : NoSys (ctxRound c x).2) :
    AgreesExact c (exactRound x) (ctxRound c x).1 (ctxRound c x).2 := by
  sorry

theorem C01_round (c : Ctx) (hc : c.WF) (x : Dec) (hx : x.form = .finite)
    (h : Delivered (roundOp c x).err) :
    Agrees c (exactRound x) (roundOp c x).d (roundOp c x).fl := by
  sorry

theorem C01_abs (c : Ctx) (hc : c.WF) (x : Dec) (hx : x.form = .finite)
    (h : Delivered (absOp c x).err) :
    Agrees c (exactAbs x) (absOp c x).d (absOp c x).fl := by
  sorry

theorem C01_neg (c : Ctx) (hc : c.WF) (x : Dec) (hx : x.form = .finite)
    (h : Delivered (negOp c x).err) :
    Agrees c (exactNeg x) (negOp c x).d (negOp c x).fl := by
  sorry

/-- Add and Sub (`sub = true`) -/
theorem C01_add (c : Ctx) (hc : c.WF) (x y : Dec) (sub : Bool)
    (hx : x.form = .finite) (hy : y.form = .finite)
    (h : Delivered (addOp c x y sub).err) :
    Agrees c (exactAdd c x y sub) (addOp c x y sub).d (addOp c x y sub).fl := by
  sorry

theorem C01_add_prec0 (c : Ctx) (hc : c.WF0) (hp : c.prec = 0) (x y : Dec) (sub : Bool)
    (hx : x.form = .finite) (hy : y.form = .finite)
    (h : Delivered (addOp c x y sub).err) :
    AgreesExact c (exactAdd c x y sub) (addOp c x y sub).d (addOp c x y sub).fl := by
  sorry

/-- non-vacuity: inside the package limits a Round is always delivered -/
theorem roundCore_noSys (c : Ctx) (hc : c.WF) (x : Dec) (hx : x.form = .finite) (hxw : x.WF)
    (h1 : ndigits x.coeff ≤ 100000) (h2 : x.exp + (ndigits x.coeff : Int) - 1 < 100000) :
    NoSys (ctxRound c x).2 := by
  sorry

end Apd.Props
