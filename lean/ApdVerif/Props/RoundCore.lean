import ApdVerif.Spec.Agrees
import ApdVerif.Lemmas.RoundCoreLemmas
/-!
# Round core: `Context.round` (= `Rounder.Round` + `setExponent`) agrees with the specification,
and so do the operations that compute an exact intermediate and end in it.
-/
namespace Apd.Props
open Apd Apd.Oracle Cond

/-! ## the four paths of `Context.round` -/

theorem exactRound_eq (x : Dec) : exactRound x = { neg := x.neg, num := x.coeff, den := 1, e10 := x.exp } := rfl

theorem roundCore_zero (c : Ctx) (hc : c.WF) (x : Dec) (hx : x.form = .finite) (hn : x.coeff = 0)
    (h : NoSys (roundXFin c x true).2) :
    Agrees c (exactRound x) (roundXFin c x true).1 (roundXFin c x true).2 := by
  obtain ⟨hp1, hpe, hemax, hemin, hemin0⟩ := hc
  have hr := roundX_short c x true hx hp1 (by rw [hn]; exact hp1) (Or.inl hn)
  rw [hr] at h ⊢
  obtain ⟨hx0, ha1, ha2⟩ := setExponent_noSys _ _ _ _ h
  have hs := specRound_zero c x.neg x.exp
  rw [← hn, ← exactRound_eq] at hs
  have hsum : sumInts [x.exp, 0] = x.exp := by simp [sumInts]
  have hadj : seAdj x [x.exp, 0] = x.exp := by simp [seAdj, hsum, hn, ndigits_zero]
  have hz : x.isZero = true := by simp [Dec.isZero, hx, hn]
  have hnd0 : ndigits 0 = 1 := rfl
  by_cases c1 : x.exp < c.emin
  · by_cases c2 : x.exp < c.etiny
    · rw [setExponent_subnormal_round c x {} _ hx0 (by omega) (by omega) (by omega) (by omega)]
      rw [hsum]
      have hra : roundAt c.mode x.neg x.coeff 1 x.exp c.etiny = (0, false) := by
        rw [roundAt_div _ _ _ _ _ (by omega), hn]; simp
      simp only [hra, hz]
      apply agrees_finite c _ _ hs <;> simp [seFinish, hx, hn, cClamped, cRounded, cUnderflow, hnd0]
      all_goals (unfold Ctx.etiny at *; omega)
    · rw [setExponent_subnormal_exact c x {} _ hx0 (by omega) (by omega) (by omega) (by omega)]
      rw [hsum]
      simp only [hz]
      apply agrees_finite c _ _ hs <;> simp [seFinish, hx, hn, hnd0]
      all_goals (unfold Ctx.etiny at *; omega)
  · by_cases c3 : c.emax < x.exp
    · rw [setExponent_clampZero c x {} _ hx0 (by omega) (by omega) (by omega) (by omega) hz]
      apply agrees_finite' c _ _ hs <;> simp [seFinish, hx, hn, hnd0, cClamped, SpecOut.matches]
      all_goals (unfold Ctx.etiny at *; omega)
    · rw [setExponent_normal c x {} _ hx0 (by omega) (by omega) (by omega) (by omega)]
      rw [hsum]
      apply agrees_finite c _ _ hs <;> simp [seFinish, hx, hn, hnd0]
      all_goals (unfold Ctx.etiny at *; omega)

theorem roundCore_subnormal (c : Ctx) (hc : c.WF) (x : Dec) (hx : x.form = .finite) (hn : x.coeff ≠ 0)
    (hadj : x.exp + (ndigits x.coeff : Int) - 1 < c.emin)
    (h : NoSys (roundXFin c x true).2) :
    Agrees c (exactRound x) (roundXFin c x true).1 (roundXFin c x true).2 := by
  obtain ⟨hp1, hpe, hemax, hemin, hemin0⟩ := hc
  rw [roundX_subnormal c x true hx hp1 hn hadj] at h ⊢
  have h' : NoSys (setExponent c x cSubnormal [x.exp]).2 := by
    simpa [NoSys, cSubnormal] using h
  obtain ⟨hx0, ha1, ha2⟩ := setExponent_noSys _ _ _ _ h'
  have hsum : sumInts [x.exp] = x.exp := by simp [sumInts]
  have hadj' : seAdj x [x.exp] = x.exp + (ndigits x.coeff : Int) - 1 := by simp [seAdj, hsum]
  have hz : x.isZero = false := by simp [Dec.isZero, hx, hn]
  have hpos : 0 < x.coeff := Nat.pos_of_ne_zero hn
  have hs := specRound_pos c x.neg x.coeff x.exp hpos
  rw [← exactRound_eq] at hs
  have hq : max ((ndigits x.coeff : Int) - 1 + x.exp - (c.prec : Int) + 1) c.etiny = c.etiny := by
    unfold Ctx.etiny; omega
  have hsub : decide ((ndigits x.coeff : Int) - 1 + x.exp < c.emin) = true := by
    simp; omega
  simp only [hq, hsub] at hs
  have hnp := ndigits_pos x.coeff
  by_cases c2 : x.exp < c.etiny
  · rw [setExponent_subnormal_round c x _ _ hx0 (by omega) (by omega) (by omega) (by omega)]
    rw [hsum]
    have hle := roundAt_div_le c.mode x.neg x.coeff x.exp c.etiny (by omega)
    have hlt : x.coeff < 10 ^ (c.emin - x.exp).toNat := lt_pow_of_ndigits_le _ _ (by omega)
    have hk : (c.emin - x.exp).toNat = (c.prec - 1) + (c.etiny - x.exp).toNat := by
      unfold Ctx.etiny at *; omega
    have hdiv : x.coeff / 10 ^ (c.etiny - x.exp).toNat < 10 ^ (c.prec - 1) := by
      rw [Nat.div_lt_iff_lt_mul (Nat.pow_pos (by decide)), ← Nat.pow_add, ← hk]; exact hlt
    have hpow : 10 ^ (c.prec - 1) < 10 ^ c.prec := Nat.pow_lt_pow_right (by decide) (by omega)
    have hndr : ndigits (roundAt c.mode x.neg x.coeff 1 x.exp c.etiny).1 ≤ c.prec :=
      ndigits_le_of_lt_pow _ _ hp1 (by omega)
    rcases hra : roundAt c.mode x.neg x.coeff 1 x.exp c.etiny with ⟨m, ix⟩
    have hndr : ndigits m ≤ c.prec := by rw [hra] at hndr; exact hndr
    have hnd0 : ndigits 0 = 1 := rfl
    simp only [hra, hz] at hs ⊢
    have hcond : ¬ (c.etiny + ((ndigits m : Nat) : Int) - 1 > c.emax) := by
      unfold Ctx.etiny at *; omega
    simp only [hcond, decide_false, Bool.and_false] at hs
    by_cases hm : m = 0 <;> cases ix <;>
    (apply agrees_finite c _ _ hs <;> simp [seFinish, hx, hm, cSubnormal, cInexact, cClamped, cRounded, cUnderflow])
    all_goals (unfold Ctx.etiny at *; omega)
  · rw [setExponent_subnormal_exact c x _ _ hx0 (by omega) (by omega) (by omega) (by omega)]
    rw [hsum]
    simp only [hz]
    rw [roundAt_scale _ _ _ _ _ (by omega)] at hs
    simp only [ndigits_mul_pow _ _ hpos] at hs
    have hcond : ¬ (c.etiny + ((ndigits x.coeff + (x.exp - c.etiny).toNat : Nat) : Int) - 1 > c.emax) := by
      unfold Ctx.etiny at *; omega
    simp only [hcond, decide_false, Bool.and_false] at hs
    apply agrees_finite c _ _ hs <;> simp [seFinish, hx, cSubnormal]
    all_goals (unfold Ctx.etiny at *; omega)

theorem roundCore_short (c : Ctx) (hc : c.WF) (x : Dec) (hx : x.form = .finite) (hn : x.coeff ≠ 0)
    (hadj : c.emin ≤ x.exp + (ndigits x.coeff : Int) - 1) (hnd : ndigits x.coeff ≤ c.prec)
    (h : NoSys (roundXFin c x true).2) :
    Agrees c (exactRound x) (roundXFin c x true).1 (roundXFin c x true).2 := by
  obtain ⟨hp1, hpe, hemax, hemin, hemin0⟩ := hc
  rw [roundX_short c x true hx hp1 hnd (Or.inr hadj)] at h ⊢
  obtain ⟨hx0, ha1, ha2⟩ := setExponent_noSys _ _ _ _ h
  have hsum : sumInts [x.exp, 0] = x.exp := by simp [sumInts]
  have hadj' : seAdj x [x.exp, 0] = x.exp + (ndigits x.coeff : Int) - 1 := by simp [seAdj, hsum]
  have hz : x.isZero = false := by simp [Dec.isZero, hx, hn]
  have hpos : 0 < x.coeff := Nat.pos_of_ne_zero hn
  have hs := specRound_pos c x.neg x.coeff x.exp hpos
  rw [← exactRound_eq] at hs
  have hq : max ((ndigits x.coeff : Int) - 1 + x.exp - (c.prec : Int) + 1) c.etiny
      = (ndigits x.coeff : Int) - 1 + x.exp - (c.prec : Int) + 1 := by
    unfold Ctx.etiny; omega
  have hsub : decide ((ndigits x.coeff : Int) - 1 + x.exp < c.emin) = false := by
    simp; omega
  simp only [hq, hsub] at hs
  have hnp := ndigits_pos x.coeff
  rw [roundAt_scale _ _ _ _ _ (by omega)] at hs
  simp only [ndigits_mul_pow _ _ hpos] at hs
  have hk : (x.exp - ((ndigits x.coeff : Int) - 1 + x.exp - (c.prec : Int) + 1)).toNat = c.prec - ndigits x.coeff := by
    omega
  rw [hk] at hs
  have hne : (x.coeff * 10 ^ (c.prec - ndigits x.coeff) != 0) = true := by
    have : 0 < x.coeff * 10 ^ (c.prec - ndigits x.coeff) := Nat.mul_pos hpos (Nat.pow_pos (by decide))
    simp; omega
  by_cases c3 : c.emax < x.exp + (ndigits x.coeff : Int) - 1
  · rw [setExponent_overflow c x _ _ hx0 (by omega) (by omega) (by omega) (by omega) hz]
    have hcond : ((ndigits x.coeff : Int) - 1 + x.exp - (c.prec : Int) + 1 +
        ((ndigits x.coeff + (c.prec - ndigits x.coeff) : Nat) : Int) - 1 > c.emax) := by omega
    simp only [hcond, hne, decide_true, Bool.and_true, if_true] at hs
    apply agrees_inf c _ _ hs <;> simp [seFinish, hx, cOverflow, cInexact]
  · rw [setExponent_normal c x _ _ hx0 (by omega) (by omega) (by omega) (by omega)]
    have hcond : ¬ ((ndigits x.coeff : Int) - 1 + x.exp - (c.prec : Int) + 1 +
        ((ndigits x.coeff + (c.prec - ndigits x.coeff) : Nat) : Int) - 1 > c.emax) := by omega
    simp only [hcond, decide_false, Bool.and_false] at hs
    rw [hsum]
    apply agrees_finite c _ _ hs <;> simp [seFinish, hx, hk]
    all_goals (unfold Ctx.etiny at *; omega)

theorem roundCore_long (c : Ctx) (hc : c.WF) (x : Dec) (hx : x.form = .finite)
    (hadj : c.emin ≤ x.exp + (ndigits x.coeff : Int) - 1) (hnd : c.prec < ndigits x.coeff)
    (h : NoSys (roundXFin c x true).2) :
    Agrees c (exactRound x) (roundXFin c x true).1 (roundXFin c x true).2 := by
  obtain ⟨hp1, hpe, hemax, hemin, hemin0⟩ := hc
  have hd : (ndigits x.coeff : Int) - (c.prec : Int) ≤ 100000 := by
    by_contra hgt
    have := roundX_long_sys c x true hx hp1 (by omega) hadj
    simp [NoSys, this] at h
  have hn : x.coeff ≠ 0 := by
    intro h0; rw [h0] at hnd; have : ndigits 0 = 1 := rfl; omega
  have hpos : 0 < x.coeff := Nat.pos_of_ne_zero hn
  rw [roundX_long c x true hx hp1 hnd hd hadj] at h ⊢
  obtain ⟨D, hD⟩ : ∃ D : Nat, D = ndigits x.coeff - c.prec := ⟨_, rfl⟩
  have hDi : (ndigits x.coeff : Int) - (c.prec : Int) = (D : Int) := by omega
  have hDn : ((D : Int)).toNat = D := by omega
  simp only [hDi, hDn] at h ⊢
  have hyd : ndigits (x.coeff / 10 ^ D) = c.prec := by rw [hD]; exact ndigits_div_pow _ _ hpos hp1 (by omega)
  have hy : 0 < x.coeff / 10 ^ D := by
    apply Nat.div_pos _ (Nat.pow_pos (by decide))
    calc 10 ^ D ≤ 10 ^ (ndigits x.coeff - 1) := Nat.pow_le_pow_right (by decide) (by omega)
      _ ≤ x.coeff := (ndigits_spec _ hpos).1
  have hs := specRound_pos c x.neg x.coeff x.exp hpos
  rw [← exactRound_eq] at hs
  have hq : max ((ndigits x.coeff : Int) - 1 + x.exp - (c.prec : Int) + 1) c.etiny = x.exp + (D : Int) := by
    unfold Ctx.etiny; omega
  have hsub : decide ((ndigits x.coeff : Int) - 1 + x.exp < c.emin) = false := by
    simp; omega
  simp only [hq, hsub] at hs
  have hstep := roundStep_spec c.mode x.neg x.coeff D x.exp hy
  simp only [] at hstep
  rw [hyd] at hstep
  generalize hgy : (if x.coeff % 10 ^ D != 0 && shouldAddOne c.mode (x.coeff / 10 ^ D) x.neg (cmpNat (2 * (x.coeff % 10 ^ D)) (10 ^ D))
              then roundAddOne (x.coeff / 10 ^ D) (D : Int) else (x.coeff / 10 ^ D, (D : Int))) = yd at hstep h ⊢
  generalize hgr : roundAt c.mode x.neg x.coeff 1 x.exp (x.exp + (D : Int)) = ra at hstep hs
  obtain ⟨y1, d1⟩ := yd
  obtain ⟨m, ix⟩ := ra
  simp only [] at hstep hs h ⊢
  obtain ⟨s1, s2, s3, s4, s5, s6, s7⟩ := hstep
  rw [← s7] at h ⊢
  clear hgy hgr
  generalize hres : (if ix = true then cRounded ||| cInexact else cRounded) = res at h ⊢
  have hres' : res.inexact = ix ∧ res.rounded = true ∧ res.subnormal = false ∧ res.underflow = false ∧
      res.overflow = false ∧ res.sysOverflow = false ∧ res.sysUnderflow = false ∧
      res.divUndefined = false ∧ res.divByZero = false ∧ res.divImpossible = false ∧ res.invalidOp = false := by
    rw [← hres]; cases ix <;> simp [cRounded, cInexact]
  obtain ⟨r1, r2, r3, r4, r5, r6, r7, r8, r9, r10, r11⟩ := hres'
  have h' : NoSys (setExponent c { form := x.form, neg := x.neg, exp := x.exp, coeff := y1 } res [x.exp, d1]).2 := by
    simpa [NoSys, r6, r7] using h
  obtain ⟨hx0, ha1, ha2⟩ := setExponent_noSys _ _ _ _ h'
  have hsum : sumInts [x.exp, d1] = x.exp + d1 := by simp [sumInts]
  have hadj' : seAdj { form := x.form, neg := x.neg, exp := x.exp, coeff := y1 } [x.exp, d1]
      = x.exp + d1 + (ndigits y1 : Int) - 1 := by simp [seAdj, hsum]
  have hz : Dec.isZero { form := x.form, neg := x.neg, exp := x.exp, coeff := y1 } = false := by
    simp [Dec.isZero]; omega
  have hm0 : (m != 0) = true := by
    have : 0 < y1 * 10 ^ (d1 - (D : Int)).toNat := Nat.mul_pos s1 (Nat.pow_pos (by decide))
    simp; omega
  have hnp := ndigits_pos x.coeff
  by_cases c3 : c.emax < x.exp + d1 + (ndigits y1 : Int) - 1
  · rw [setExponent_overflow c _ _ _ hx0 (by omega) (by omega) (by omega) (by omega) hz]
    have hcond : (x.exp + (D : Int) + (ndigits m : Int) - 1 > c.emax) := by omega
    simp only [hcond, hm0, decide_true, Bool.and_true, if_true] at hs
    apply agrees_inf c _ _ hs <;> simp [seFinish, hx, cOverflow, cInexact, r1, r2, r3, r4, r5, r8, r9, r10, r11]
  · rw [setExponent_normal c _ _ _ hx0 (by omega) (by omega) (by omega) (by omega)]
    have hcond : ¬ (x.exp + (D : Int) + (ndigits m : Int) - 1 > c.emax) := by omega
    simp only [hcond, decide_false, Bool.and_false] at hs
    rw [hsum]
    apply agrees_finite c _ _ hs <;> simp [seFinish, hx, r1, r2, r3, r4, r5, r8, r9, r10, r11]
    all_goals (try (unfold Ctx.etiny at *; omega))
    have e1 : d1.toNat - D = (d1 - (D : Int)).toNat := by omega
    rw [e1]; exact s5

/-! ## Round (and everything that ends in `Context.round`) -/

theorem C01_roundCore (c : Ctx) (hc : c.WF) (x : Dec) (hx : x.form = .finite)
    (h : NoSys (ctxRound c x).2) :
    Agrees c (exactRound x) (ctxRound c x).1 (ctxRound c x).2 := by
  rw [ctxRound_finite c x hx] at h ⊢
  unfold ctxRoundFin at *
  by_cases hn : x.coeff = 0
  · exact roundCore_zero c hc x hx hn h
  · by_cases hadj : x.exp + (ndigits x.coeff : Int) - 1 < c.emin
    · exact roundCore_subnormal c hc x hx hn hadj h
    · by_cases hnd : ndigits x.coeff ≤ c.prec
      · exact roundCore_short c hc x hx hn (by omega) hnd h
      · exact roundCore_long c hc x hx (by omega) (by omega) h

theorem specExact_dec (c : Ctx) (neg : Bool) (n : Nat) (e : Int) :
    specExact c { neg := neg, num := n, den := 1, e10 := e } =
      if n = 0 then some { neg := neg, m := 0, q := e }
      else if (ndigits n : Int) - 1 + e < c.emin ∨ (ndigits n : Int) - 1 + e > c.emax then none
      else some { neg := neg, m := n, q := e } := by
  simp [specExact]

theorem C01_roundCore_prec0 (c : Ctx) (hc : c.WF0) (hp : c.prec = 0) (x : Dec) (hx : x.form = .finite)
    (h : NoSys (ctxRound c x).2) :
    AgreesExact c (exactRound x) (ctxRound c x).1 (ctxRound c x).2 := by
  obtain ⟨hpe, hemax0, hemax, hemin, hemin0⟩ := hc
  have hr : ctxRound c x = setExponent c x {} [x.exp] := by
    rw [ctxRound_finite c x hx]; unfold ctxRoundFin roundXFin; simp [hp]
  rw [hr] at h ⊢
  obtain ⟨hx0, ha1, ha2⟩ := setExponent_noSys _ _ _ _ h
  have hsum : sumInts [x.exp] = x.exp := by simp [sumInts]
  have hadj' : seAdj x [x.exp] = x.exp + (ndigits x.coeff : Int) - 1 := by simp [seAdj, hsum]
  have het : c.etiny = c.emin + 1 := by unfold Ctx.etiny; rw [hp]; simp
  intro s hs
  rw [exactRound_eq, specExact_dec] at hs
  by_cases hn : x.coeff = 0
  · have hnd0 : ndigits 0 = 1 := rfl
    rw [hn, hnd0] at hadj'
    have hz : x.isZero = true := by simp [Dec.isZero, hx, hn]
    rw [if_pos hn] at hs
    injection hs with hs
    subst hs
    by_cases c1 : x.exp < c.emin
    · rw [setExponent_subnormal_round c x {} _ hx0 (by omega) (by omega) (by omega) (by omega)]
      rw [hsum]
      have hra : roundAt c.mode x.neg x.coeff 1 x.exp c.etiny = (0, false) := by
        rw [roundAt_div _ _ _ _ _ (by omega), hn]; simp
      simp only [hra, hz]
      simp [seFinish, hx, hn, cClamped, cRounded, SpecOut.matches]
    · by_cases c3 : c.emax < x.exp
      · rw [setExponent_clampZero c x {} _ hx0 (by omega) (by omega) (by omega) (by omega) hz]
        simp [seFinish, hx, hn, cClamped, SpecOut.matches]
      · rw [setExponent_normal c x {} _ hx0 (by omega) (by omega) (by omega) (by omega)]
        simp [seFinish, hx, hn, SpecOut.matches]
  · rw [if_neg hn] at hs
    by_cases hrange : (ndigits x.coeff : Int) - 1 + x.exp < c.emin ∨ (ndigits x.coeff : Int) - 1 + x.exp > c.emax
    · rw [if_pos hrange] at hs; cases hs
    rw [if_neg hrange] at hs
    injection hs with hs
    subst hs
    rw [setExponent_normal c x {} _ hx0 (by omega) (by omega) (by omega) (by omega)]
    simp [seFinish, hx, hsum, SpecOut.matches]

/-! ## corollaries -/

theorem notNaN2_of_finite (x y : Dec) (hx : x.form = .finite) (hy : y.form = .finite) :
    shouldSetAsNaN x (some y) = false := by
  simp [shouldSetAsNaN, Dec.isNaN, hx, hy]

theorem upscale_some (x y : Dec) (a b : Nat) (s : Int) (h : upscale x y = some (a, b, s)) :
    s = min x.exp y.exp ∧ a = x.coeff * 10 ^ (x.exp - min x.exp y.exp).toNat ∧
    b = y.coeff * 10 ^ (y.exp - min x.exp y.exp).toNat := by
  unfold upscale at h
  by_cases h1 : x.exp = y.exp
  · simp [h1] at h
    obtain ⟨rfl, rfl, rfl⟩ := h
    simp [h1]
  · have h1' : (x.exp == y.exp) = false := by simpa using h1
    simp only [h1', Bool.false_eq_true, if_false] at h
    by_cases h2 : x.exp < y.exp
    · simp only [h2, if_true] at h
      split_ifs at h
      simp only [Option.some.injEq, Prod.mk.injEq] at h
      obtain ⟨rfl, rfl, rfl⟩ := h
      have hm : min x.exp y.exp = x.exp := by omega
      rw [hm]; simp
    · simp only [h2, if_false] at h
      split_ifs at h
      simp only [Option.some.injEq, Prod.mk.injEq] at h
      obtain ⟨rfl, rfl, rfl⟩ := h
      have hm : min x.exp y.exp = y.exp := by omega
      rw [hm]; simp

theorem add_core (c : Ctx) (x y : Dec) (sub : Bool) (hx : x.form = .finite) (hy : y.form = .finite) :
    (∃ d : Dec, d.form = .finite ∧ addOp c x y sub = finish c (ctxRound c d) ∧
        exactAdd c x y sub = exactRound d) ∨ (addOp c x y sub).err = .sys := by
  unfold addOp
  rw [notNaN2_of_finite x y hx hy]
  simp only [hx, hy, Bool.false_eq_true, if_false]
  have hfi : (Form.finite == Form.infinite) = false := by decide
  simp only [hfi, Bool.or_self, Bool.false_eq_true, if_false]
  cases hu : upscale x y with
  | none => right; simp [failWith]
  | some t =>
    obtain ⟨a, b, s⟩ := t
    obtain ⟨hs, ha, hb⟩ := upscale_some x y a b s hu
    left
    refine ⟨_, ?_, rfl, ?_⟩
    · split_ifs <;> rfl
    · unfold exactAdd exactRound
      subst hs
      simp only [← ha, ← hb]
      rcases Nat.lt_trichotomy a b with hab | hab | hab
      · have h1 : ¬ a > b := by omega
        cases hxn : x.neg <;> cases hyn : y.neg <;> cases sub <;> simp [hab, h1]
      · subst hab
        cases hxn : x.neg <;> cases hyn : y.neg <;> cases sub <;> simp
      · have h1 : ¬ a < b := by omega
        have h2 : ¬ a = b := by omega
        cases hxn : x.neg <;> cases hyn : y.neg <;> cases sub <;> simp [hab, h1, h2]

theorem notNaN_of_finite (x : Dec) (hx : x.form = .finite) : shouldSetAsNaN x none = false := by
  simp [shouldSetAsNaN, Dec.isNaN, hx]

theorem C01_round (c : Ctx) (hc : c.WF) (x : Dec) (hx : x.form = .finite)
    (h : Delivered (roundOp c x).err) :
    Agrees c (exactRound x) (roundOp c x).d (roundOp c x).fl := by
  have e : roundOp c x = finish c (ctxRound c x) := by
    unfold roundOp; rw [notNaN_of_finite x hx]; simp
  rw [e] at h ⊢
  exact C01_roundCore c hc x hx (noSys_of_delivered _ _ h)

theorem C01_abs (c : Ctx) (hc : c.WF) (x : Dec) (hx : x.form = .finite)
    (h : Delivered (absOp c x).err) :
    Agrees c (exactAbs x) (absOp c x).d (absOp c x).fl := by
  have e : absOp c x = finish c (ctxRound c x.absD) := by
    unfold absOp; rw [notNaN_of_finite x hx]; simp
  rw [e] at h ⊢
  have e2 : exactAbs x = exactRound x.absD := rfl
  rw [e2]
  exact C01_roundCore c hc x.absD hx (noSys_of_delivered _ _ h)

theorem C01_neg (c : Ctx) (hc : c.WF) (x : Dec) (hx : x.form = .finite)
    (h : Delivered (negOp c x).err) :
    Agrees c (exactNeg x) (negOp c x).d (negOp c x).fl := by
  have e : negOp c x = finish c (ctxRound c x.negD) := by
    unfold negOp; rw [notNaN_of_finite x hx]; simp
  rw [e] at h ⊢
  have hf : x.negD.form = .finite := by
    unfold Dec.negD; split_ifs <;> exact hx
  have e2 : exactNeg x = exactRound x.negD := by
    unfold exactNeg exactRound Dec.negD Dec.isZero
    by_cases h0 : x.coeff = 0
    · simp [h0, hx]
    · simp [h0, hx]
  rw [e2]
  exact C01_roundCore c hc x.negD hf (noSys_of_delivered _ _ h)

theorem C01_add (c : Ctx) (hc : c.WF) (x y : Dec) (sub : Bool)
    (hx : x.form = .finite) (hy : y.form = .finite)
    (h : Delivered (addOp c x y sub).err) :
    Agrees c (exactAdd c x y sub) (addOp c x y sub).d (addOp c x y sub).fl := by
  rcases add_core c x y sub hx hy with ⟨d, hd, e1, e2⟩ | hsys
  · rw [e1] at h ⊢
    rw [e2]
    exact C01_roundCore c hc d hd (noSys_of_delivered _ _ h)
  · rw [hsys] at h
    rcases h with h | h <;> cases h

theorem C01_add_prec0 (c : Ctx) (hc : c.WF0) (hp : c.prec = 0) (x y : Dec) (sub : Bool)
    (hx : x.form = .finite) (hy : y.form = .finite)
    (h : Delivered (addOp c x y sub).err) :
    AgreesExact c (exactAdd c x y sub) (addOp c x y sub).d (addOp c x y sub).fl := by
  rcases add_core c x y sub hx hy with ⟨d, hd, e1, e2⟩ | hsys
  · rw [e1] at h ⊢
    rw [e2]
    exact C01_roundCore_prec0 c hc hp d hd (noSys_of_delivered _ _ h)
  · rw [hsys] at h
    rcases h with h | h <;> cases h

/-- non-vacuity: inside the package limits a Round is always delivered -/
theorem roundCore_noSys (c : Ctx) (hc : c.WF) (x : Dec) (hx : x.form = .finite) (hxw : x.WF)
    (h1 : ndigits x.coeff ≤ 100000) (h2 : x.exp + (ndigits x.coeff : Int) - 1 < 100000) :
    NoSys (ctxRound c x).2 := by
  obtain ⟨hp1, hpe, hemax, hemin, hemin0⟩ := hc
  obtain ⟨w1, w2, w3, w4⟩ := hxw
  rw [ctxRound_finite c x hx]
  unfold ctxRoundFin
  have hnoSys0 : NoSys ({} : Cond) := ⟨rfl, rfl⟩
  have hck : checkXs [x.exp, 0] = none := by
    rw [checkXs_none_iff]; simp; omega
  have hck1 : checkXs [x.exp] = none := by
    rw [checkXs_none_iff]; simp; omega
  have hsum : sumInts [x.exp, 0] = x.exp := by simp [sumInts]
  have hsum1 : sumInts [x.exp] = x.exp := by simp [sumInts]
  have hshort : NoSys (setExponent c x {} [x.exp, 0]).2 :=
    setExponent_noSys_of c x {} _ hck (by simp [seAdj, hsum]; omega) (by simp [seAdj, hsum]; omega) hnoSys0
  by_cases hn : x.coeff = 0
  · rw [roundX_short c x true hx hp1 (by rw [hn]; exact hp1) (Or.inl hn)]
    exact hshort
  · by_cases hadj : x.exp + (ndigits x.coeff : Int) - 1 < c.emin
    · rw [roundX_subnormal c x true hx hp1 hn hadj]
      have := setExponent_noSys_of c x cSubnormal _ hck1 (by simp [seAdj, hsum1]; omega)
        (by simp [seAdj, hsum1]; omega) ⟨rfl, rfl⟩
      obtain ⟨t1, t2⟩ := this
      refine ⟨?_, ?_⟩
      · rw [Cond.or_sysOverflow, t1]; rfl
      · rw [Cond.or_sysUnderflow, t2]; rfl
    · by_cases hnd : ndigits x.coeff ≤ c.prec
      · rw [roundX_short c x true hx hp1 hnd (Or.inr (by omega))]
        exact hshort
      · have hpos : 0 < x.coeff := Nat.pos_of_ne_zero hn
        rw [roundX_long c x true hx hp1 (by omega) (by omega) (by omega)]
        obtain ⟨D, hD⟩ : ∃ D : Nat, D = ndigits x.coeff - c.prec := ⟨_, rfl⟩
        have hDi : (ndigits x.coeff : Int) - (c.prec : Int) = (D : Int) := by omega
        have hDn : ((D : Int)).toNat = D := by omega
        simp only [hDi, hDn]
        have hyd : ndigits (x.coeff / 10 ^ D) = c.prec := by
          rw [hD]; exact ndigits_div_pow _ _ hpos hp1 (by omega)
        have hy : 0 < x.coeff / 10 ^ D := by
          apply Nat.div_pos _ (Nat.pow_pos (by decide))
          calc 10 ^ D ≤ 10 ^ (ndigits x.coeff - 1) := Nat.pow_le_pow_right (by decide) (by omega)
            _ ≤ x.coeff := (ndigits_spec _ hpos).1
        have hstep := roundStep_spec c.mode x.neg x.coeff D x.exp hy
        simp only [] at hstep
        rw [hyd] at hstep
        generalize (if x.coeff % 10 ^ D != 0 && shouldAddOne c.mode (x.coeff / 10 ^ D) x.neg (cmpNat (2 * (x.coeff % 10 ^ D)) (10 ^ D))
              then roundAddOne (x.coeff / 10 ^ D) (D : Int) else (x.coeff / 10 ^ D, (D : Int))) = yd at hstep ⊢
        obtain ⟨y1, d1⟩ := yd
        simp only [] at hstep ⊢
        obtain ⟨s1, s2, s3, s4, s5, s6, s7⟩ := hstep
        have hres : NoSys (if (x.coeff % 10 ^ D != 0) = true then cRounded ||| cInexact else cRounded) := by
          split_ifs <;> exact ⟨rfl, rfl⟩
        have hckd : checkXs [x.exp, d1] = none := by
          rw [checkXs_none_iff]; simp; omega
        have hsumd : sumInts [x.exp, d1] = x.exp + d1 := by simp [sumInts]
        have := setExponent_noSys_of c { form := x.form, neg := x.neg, exp := x.exp, coeff := y1 }
          (if (x.coeff % 10 ^ D != 0) = true then cRounded ||| cInexact else cRounded) _ hckd
          (by simp [seAdj, hsumd]; omega) (by simp [seAdj, hsumd]; omega) hres
        obtain ⟨t1, t2⟩ := this
        obtain ⟨u1, u2⟩ := hres
        refine ⟨?_, ?_⟩
        · rw [Cond.or_sysOverflow, t1, u1]; rfl
        · rw [Cond.or_sysUnderflow, t2, u2]; rfl

end Apd.Props

#print axioms Apd.Props.C01_roundCore
#print axioms Apd.Props.C01_roundCore_prec0
#print axioms Apd.Props.C01_round
#print axioms Apd.Props.C01_abs
#print axioms Apd.Props.C01_neg
#print axioms Apd.Props.C01_add
#print axioms Apd.Props.C01_add_prec0
#print axioms Apd.Props.roundCore_noSys
