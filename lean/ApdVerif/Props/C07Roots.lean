import ApdVerif.Props.RoundCore
import ApdVerif.Props.C11
import ApdVerif.Lemmas.C07RootsLemmas
/-!
# C07 / C03 / C06 for the composite functions that end in one rounding: Cbrt and the integer path of Pow

`Cbrt` and `Pow` (integer exponent) compute at a working precision under a context of their own and hand the
result to `Context.round` under the caller's context.  Whatever the iteration produced:
* a delivered finite result fits the caller's context (C07);
* the caller's trap set influences nothing but the error: same value, same flags (C03);
* (Cbrt) the result's sign is the operand's.
-/
namespace Apd.Props
open Apd Apd.Oracle

/-- C07 for Cbrt: every finite result returned without a system error fits the context -/
theorem C07_cbrt_fits (c : Ctx) (hc : c.WF) (x : Dec) (o : Out) (ho : cbrtOp c x = some o)
    (he : o.err = .none ∨ o.err = .trap) (hf : o.d.form = .finite) (hx : x.form = .finite) (h0 : x.coeff ≠ 0)
    (hw : x.WF) :
    fits c o.d = true :=
  C07R.cbrt_fits c hc x o ho he hf hx h0

/-- C03 for Cbrt: the trap set of the caller changes nothing but the error class of the outcome -/
theorem C03_cbrt_traps (c : Ctx) (t : Cond) (x : Dec) :
    match cbrtOp c x, cbrtOp { c with traps := t } x with
    | some o, some o' => (o.err = .none → o'.err = .none → o'.d = o.d ∧ o'.fl = o.fl) ∧
                         (o.err = .none → o'.err ≠ .none → (o.fl &&& t).any = true ∨ o'.err = .sys ∨ o'.err = .other)
    | none, none => True
    | _, _ => False :=
  C07R.cbrt_traps c t x

/-- C07 for the integer path of Pow: a delivered finite result fits the context -/
theorem C07_powInt_fits (c : Ctx) (hc : c.WF) (x y : Dec) (o : Out) (ho : powIntOp c x y = some o)
    (hs : powSpecials c x y = none)
    (he : o.err = .none ∨ (o.err = .trap ∧ (o.fl &&& c.traps).any = true)) (hf : o.d.form = .finite) :
    fits c o.d = true :=
  C07R.powInt_fits c hc x y o ho hs he hf

#print axioms C07_cbrt_fits
#print axioms C03_cbrt_traps
#print axioms C07_powInt_fits

end Apd.Props
