import ApdVerif.Model.Dispatch
import ApdVerif.Spec.Specials
import ApdVerif.Spec.Defs
/-!
# C08 — special values follow the decimal arithmetic rules in every operation

`Spec.specials` is the table written from the General Decimal Arithmetic specification
(ApdVerif/Spec/Specials.lean).  For every operation of the protocol, every context and every operand
pair for which the table prescribes a result, the model is defined and its delivered outcome has the
prescribed form, sign and conditions.
-/
namespace Apd.Props
open Apd Apd.Spec

def allOps : List String :=
  ["add", "sub", "mul", "quo", "quoint", "rem", "abs", "neg", "round", "reduce", "cmp", "quantize",
   "rtie", "rtiv", "ceil", "floor", "sqrt", "cbrt", "exp", "ln", "log10", "pow"]

/-- the model decides every case the table prescribes -/
theorem C08_defined (op : String) (hop : op ∈ allOps) (c : Ctx) (x y : Dec) (i : Int) (e : Expect)
    (h : specials op x y = some e) : (runCtxOp op c x y i).isSome = true := by
  sorry

/-- … and decides it as prescribed: result form, sign, and InvalidOperation / DivisionByZero /
DivisionUndefined exactly as the table says, no Inexact/Overflow/Underflow/DivisionImpossible.
(`prec = 0` makes Quo/QuoInteger/Exp return the zero-precision error first: excluded by `hd`.) -/
theorem C08_specials (op : String) (hop : op ∈ allOps) (c : Ctx) (x y : Dec) (i : Int) (e : Expect) (o : Out)
    (h : specials op x y = some e) (ho : runCtxOp op c x y i = some o)
    (hd : o.err = .none ∨ o.err = .trap) : e.meets o.d o.fl = true := by
  sorry

/-- a signalling NaN operand always raises InvalidOperation and yields a quiet NaN -/
theorem C08_snan (op : String) (hop : op ∈ allOps) (c : Ctx) (x y : Dec) (i : Int) (o : Out)
    (hx : x.form = .nanSignaling) (ho : runCtxOp op c x y i = some o) :
    o.d.form = .nan ∧ o.fl.invalidOp = true ∧ o.err = goError c.traps Cond.cInvalidOp := by
  sorry

/-- the sign of an exact zero sum: +0, except under RoundFloor (and except when both operands
are negative zeros / have the same sign) — on the model directly -/
theorem C08_zero_sum_sign (c : Ctx) (hc : c.WF) (x y : Dec) (hx : x.form = .finite) (hy : y.form = .finite)
    (hn : x.neg ≠ y.neg) (hv : x.coeff * 10 ^ (x.exp - min x.exp y.exp).toNat = y.coeff * 10 ^ (y.exp - min x.exp y.exp).toNat)
    (hd : Delivered (addOp c x y false).err) :
    (addOp c x y false).d.coeff = 0 ∧ (addOp c x y false).d.neg = (c.mode == .floor) := by
  sorry

example : ((specials "pow" { coeff := 2 } { form := .infinite }).map (·.form)) = some .infinite := by decide
example : (mulOp {} { coeff := 0 } { form := .infinite }).fl.invalidOp = true := by decide

end Apd.Props
