import ApdVerif.Model.Dispatch
import ApdVerif.Spec.Specials
import ApdVerif.Spec.Defs
import ApdVerif.Lemmas.C08Lemmas
/-!
# C08 — special values follow the decimal arithmetic rules in every operation

`Spec.specials` is the table written from the General Decimal Arithmetic specification
(ApdVerif/Spec/Specials.lean).  For every operation of the protocol, every context and every operand
pair for which the table prescribes a result, the model is defined and its delivered outcome has the
prescribed form, sign and conditions.
-/
namespace Apd.Props
open Apd Apd.Spec Apd.C08L

def allOps : List String :=
  ["add", "sub", "mul", "quo", "quoint", "rem", "abs", "neg", "round", "reduce", "cmp", "quantize",
   "rtie", "rtiv", "ceil", "floor", "sqrt", "cbrt", "exp", "ln", "log10", "pow"]

/-- the model decides every case the table prescribes -/
theorem C08_defined (op : String) (hop : op ∈ allOps) (c : Ctx) (x y : Dec) (i : Int) (e : Expect)
    (h : specials op x y = some e) : (runCtxOp op c x y i).isSome = true := by
  simp only [allOps, List.mem_cons, List.not_mem_nil, or_false] at hop
  rcases hop with rfl | rfl | rfl | rfl | rfl | rfl | rfl | rfl | rfl | rfl | rfl | rfl | rfl | rfl | rfl | rfl |
    rfl | rfl | rfl | rfl | rfl | rfl
  case _ => simp [runCtxOp]  -- add
  case _ => simp [runCtxOp]  -- sub
  case _ => simp [runCtxOp]  -- mul
  case _ => simp [runCtxOp]  -- quo
  case _ => simp [runCtxOp]  -- quoint
  case _ => simp [runCtxOp]  -- rem
  case _ => simp [runCtxOp]  -- abs
  case _ => simp [runCtxOp]  -- neg
  case _ => simp [runCtxOp]  -- round
  case _ => simp [runCtxOp]  -- reduce
  case _ => simp [runCtxOp]  -- cmp
  case _ => simp [runCtxOp]  -- quantize
  case _ => simp [runCtxOp]  -- rtie
  case _ => simp [runCtxOp]  -- rtiv
  case _ => simp [runCtxOp]  -- ceil
  case _ => simp [runCtxOp]  -- floor
  case _ => simp [runCtxOp]  -- sqrt
  case _ => obtain ⟨o, h1, _⟩ := C08_cbrt c x y e h; simp [runCtxOp, h1]
  case _ => obtain ⟨o, h1, _⟩ := C08_exp c x y e h; simp [runCtxOp, h1]
  case _ => obtain ⟨o, h1, _⟩ := C08_log c x y e true (by simpa using h); simp [runCtxOp, h1]
  case _ => obtain ⟨o, h1, _⟩ := C08_log c x y e false (by simpa using h); simp [runCtxOp, h1]
  case _ => obtain ⟨o, h1, _⟩ := C08_pow c x y e h; simp [runCtxOp, h1]

/- ORIGINAL STATEMENT (false as stated, see the counterexamples below):

/-- … and decides it as prescribed: result form, sign, and InvalidOperation / DivisionByZero /
DivisionUndefined exactly as the table says, no Inexact/Overflow/Underflow/DivisionImpossible.
(`prec = 0` makes Quo/QuoInteger/Exp return the zero-precision error first: excluded by `hd`.) -/
theorem C08_specials (op : String) (hop : op ∈ allOps) (c : Ctx) (x y : Dec) (i : Int) (e : Expect) (o : Out)
    (h : specials op x y = some e) (ho : runCtxOp op c x y i = some o)
    (hd : o.err = .none ∨ o.err = .trap) : e.meets o.d o.fl = true

`Abs`, `Neg`, `Round` and `Reduce` send an infinite operand through `Context.round`
(`Rounder.Round` → `setExponent`), which looks at the operand's `Exponent` and `Coeff` fields without
looking at its `Form`.  An `Infinite` operand whose exponent field exceeds `c.emax` (or, for a
context with `emax < 0`, even the canonical infinity with exponent 0) is therefore "rounded" to an
infinity with Overflow|Inexact raised; one with a long non-zero coefficient gets Inexact|Rounded.
The statement quantifies over all `x : Dec` and all `c : Ctx` with no well-formedness hypothesis, so
these operands are counterexamples.  All other cells of the table hold unconditionally. -/

/-- counterexample 1: `Abs(Infinity)` with an exponent field of 50 under `emax = 10` raises Overflow|Inexact -/
def cexCtx : Ctx := { prec := 5, emax := 10, emin := -10 }
def cexInf : Dec := { form := .infinite, exp := 50 }
example : runCtxOp "abs" cexCtx cexInf {} 0 = some (absOp cexCtx cexInf) := by decide
example : (absOp cexCtx cexInf).err = .none := by decide
example : ((absOp cexCtx cexInf).fl.overflow, (absOp cexCtx cexInf).fl.inexact) = (true, true) := by decide
example : (specials "abs" cexInf {}).map (fun e => e.meets (absOp cexCtx cexInf).d (absOp cexCtx cexInf).fl)
    = some false := by decide
/-- counterexample 2: the canonical `-Infinity` (coefficient 0, exponent 0) under a context with `emax = -5` -/
def cexCtx2 : Ctx := { prec := 3, emax := -5, emin := -10 }
def cexInf2 : Dec := { form := .infinite, neg := true }
example : (negOp cexCtx2 cexInf2).err = .none := by decide
example : (specials "neg" cexInf2 {}).map (fun e => e.meets (negOp cexCtx2 cexInf2).d (negOp cexCtx2 cexInf2).fl)
    = some false := by decide
/-- counterexample 3: an infinity with a six-digit coefficient field under precision 5 raises Inexact|Rounded -/
def cexInf3 : Dec := { form := .infinite, coeff := 123456 }
example : (roundOp cexCtx cexInf3).err = .none := by decide
example : (specials "round" cexInf3 {}).map (fun e => e.meets (roundOp cexCtx cexInf3).d (roundOp cexCtx cexInf3).fl)
    = some false := by decide

/-- the operations that pass an infinite operand through `Context.round` -/
def roundsInf : List String := ["abs", "neg", "round", "reduce"]

/-- … and decides it as prescribed: result form, sign, and InvalidOperation / DivisionByZero /
DivisionUndefined exactly as the table says, no Inexact/Overflow/Underflow/DivisionImpossible.
Strongest true variant of `C08_specials`: for `Abs`/`Neg`/`Round`/`Reduce` an infinite operand must
have coefficient field 0 and an exponent field not above `emax` (`InfOK`; every infinity the package
produces has both fields 0).  Every other operation, and every other operand class, is unrestricted. -/
theorem C08_specials_partial (op : String) (hop : op ∈ allOps) (c : Ctx) (x y : Dec) (i : Int) (e : Expect) (o : Out)
    (h : specials op x y = some e) (ho : runCtxOp op c x y i = some o)
    (hd : o.err = .none ∨ o.err = .trap)
    (hinf : op ∈ roundsInf → x.form = .infinite → x.coeff = 0 ∧ x.exp ≤ c.emax) :
    e.meets o.d o.fl = true := by
  simp only [allOps, List.mem_cons, List.not_mem_nil, or_false] at hop
  rcases hop with rfl | rfl | rfl | rfl | rfl | rfl | rfl | rfl | rfl | rfl | rfl | rfl | rfl | rfl | rfl | rfl |
    rfl | rfl | rfl | rfl | rfl | rfl
  case _ => simp [runCtxOp] at ho; subst ho; exact C08_addsub c x y e false (by simpa using h)
  case _ => simp [runCtxOp] at ho; subst ho; exact C08_addsub c x y e true (by simpa using h)
  case _ => simp [runCtxOp] at ho; subst ho; exact C08_mul c x y e h
  case _ => simp [runCtxOp] at ho; subst ho; exact C08_quo c x y e h
  case _ => simp [runCtxOp] at ho; subst ho; exact C08_quoint c x y e h
  case _ => simp [runCtxOp] at ho; subst ho; exact C08_rem c x y e h
  case _ => simp [runCtxOp] at ho; subst ho; exact C08_abs c x y e h hd (hinf (by decide))
  case _ => simp [runCtxOp] at ho; subst ho; exact C08_neg c x y e h hd (hinf (by decide))
  case _ => simp [runCtxOp] at ho; subst ho; exact C08_round c x y e h hd (hinf (by decide))
  case _ => simp [runCtxOp] at ho; subst ho; exact C08_reduce c x y e h hd (hinf (by decide))
  case _ => simp [runCtxOp] at ho; subst ho; exact C08_cmp c x y e h
  case _ => simp [runCtxOp] at ho; subst ho; exact C08_quantize c x y i e h
  case _ => simp [runCtxOp] at ho; subst ho; exact C08_rtie c x y e h
  case _ => simp [runCtxOp] at ho; subst ho; exact C08_rtiv c x y e h
  case _ => simp [runCtxOp] at ho; subst ho; exact C08_ceil c x y e h
  case _ => simp [runCtxOp] at ho; subst ho; exact C08_floor c x y e h
  case _ => simp [runCtxOp] at ho; subst ho; exact C08_sqrt c x y e h hd
  case _ =>
    obtain ⟨o', h1, h2⟩ := C08_cbrt c x y e h
    simp [runCtxOp, h1] at ho; subst ho; exact h2 hd
  case _ =>
    obtain ⟨o', h1, h2⟩ := C08_exp c x y e h
    simp [runCtxOp, h1] at ho; subst ho; exact h2
  case _ =>
    obtain ⟨o', h1, h2⟩ := C08_log c x y e true (by simpa using h)
    simp [runCtxOp, h1] at ho; subst ho; exact h2
  case _ =>
    obtain ⟨o', h1, h2⟩ := C08_log c x y e false (by simpa using h)
    simp [runCtxOp, h1] at ho; subst ho; exact h2
  case _ =>
    obtain ⟨o', h1, h2⟩ := C08_pow c x y e h
    simp [runCtxOp, h1] at ho; subst ho; exact h2

/-- corollary: the original statement holds as soon as `0 ≤ emax` and infinite operands are the
canonical ones (coefficient and exponent fields 0) — in particular for every `Ctx.WF`/`Ctx.WF0` context -/
theorem C08_specials_canonical (op : String) (hop : op ∈ allOps) (c : Ctx) (x y : Dec) (i : Int) (e : Expect) (o : Out)
    (h : specials op x y = some e) (ho : runCtxOp op c x y i = some o)
    (hd : o.err = .none ∨ o.err = .trap)
    (hemax : 0 ≤ c.emax) (hx : x.form = .infinite → x.coeff = 0 ∧ x.exp = 0) :
    e.meets o.d o.fl = true :=
  C08_specials_partial op hop c x y i e o h ho hd (fun _ hf => ⟨(hx hf).1, by rw [(hx hf).2]; exact hemax⟩)

/-- a signalling NaN operand always raises InvalidOperation and yields a quiet NaN -/
theorem C08_snan (op : String) (hop : op ∈ allOps) (c : Ctx) (x y : Dec) (i : Int) (o : Out)
    (hx : x.form = .nanSignaling) (ho : runCtxOp op c x y i = some o) :
    o.d.form = .nan ∧ o.fl.invalidOp = true ∧ o.err = goError c.traps Cond.cInvalidOp := by
  obtain ⟨xf, xn, xe, xc⟩ := x
  simp only at hx; subst hx
  simp only [allOps, List.mem_cons, List.not_mem_nil, or_false] at hop
  rcases hop with rfl | rfl | rfl | rfl | rfl | rfl | rfl | rfl | rfl | rfl | rfl | rfl | rfl | rfl | rfl | rfl |
    rfl | rfl | rfl | rfl | rfl | rfl
  all_goals
    simp [runCtxOp, addOp, mulOp, quoOp, quoIntegerOp, quoSpecials, remOp, absOp, negOp, roundOp, reduceOp, cmpOp,
      quantizeOp, roundToIntegralExactOp, roundToIntegralValueOp, ceilOp, floorOp, toIntegralSpecials, sqrtOp, cbrtOp,
      rootSpecials, expSpecials, logSpecials, powSpecials, shouldSetAsNaN, setAsNaN, Dec.isNaN] at ho
    subst ho
    simp [Cond.cInvalidOp]

theorem upscale_cases (x y : Dec) :
    upscale x y = none ∨ ∃ s, upscale x y =
      some (x.coeff * 10 ^ (x.exp - min x.exp y.exp).toNat, y.coeff * 10 ^ (y.exp - min x.exp y.exp).toNat, s) := by
  unfold upscale
  by_cases h1 : x.exp = y.exp
  · right; refine ⟨x.exp, ?_⟩
    have hm : min x.exp y.exp = x.exp := by omega
    simp [h1]
  · by_cases h2 : x.exp < y.exp
    · have hm : min x.exp y.exp = x.exp := by omega
      have hb : (x.exp == y.exp) = false := by simpa using h1
      simp only [hb, h2, hm, if_true, Bool.false_eq_true, if_false, Int.sub_self, Int.toNat_zero, Nat.pow_zero,
        Nat.mul_one]
      split_ifs
      · left; rfl
      · right; exact ⟨_, rfl⟩
    · have hm : min x.exp y.exp = y.exp := by omega
      have hb : (x.exp == y.exp) = false := by simpa using h1
      simp only [hb, h2, hm, Bool.false_eq_true, if_false, Int.sub_self, Int.toNat_zero, Nat.pow_zero,
        Nat.mul_one]
      split_ifs
      · left; rfl
      · right; exact ⟨_, rfl⟩

/-- the sign of an exact zero sum: +0, except under RoundFloor (and except when both operands
are negative zeros / have the same sign) — on the model directly -/
theorem C08_zero_sum_sign (c : Ctx) (hc : c.WF) (x y : Dec) (hx : x.form = .finite) (hy : y.form = .finite)
    (hn : x.neg ≠ y.neg) (hv : x.coeff * 10 ^ (x.exp - min x.exp y.exp).toNat = y.coeff * 10 ^ (y.exp - min x.exp y.exp).toNat)
    (hd : Delivered (addOp c x y false).err) :
    (addOp c x y false).d.coeff = 0 ∧ (addOp c x y false).d.neg = (c.mode == .floor) := by
  have hnan : shouldSetAsNaN x (some y) = false := by simp [shouldSetAsNaN, Dec.isNaN, hx, hy]
  have hne : (x.neg == y.neg) = false := by simpa using hn
  rcases upscale_cases x y with hu | ⟨s, hu⟩
  · have hE : addOp c x y false = failWith .sys := by
      unfold addOp
      simp [hnan, hx, hy, hu]
    rw [hE] at hd
    simp [Delivered, failWith] at hd
  · have hE : addOp c x y false =
        finish c (ctxRound c { form := .finite, neg := (c.mode == .floor), exp := s, coeff := 0 }) := by
      unfold addOp
      simp [hnan, hx, hy, hu, hv, hn]
    rw [hE] at hd ⊢
    obtain ⟨a1, a2, a3, a4⟩ := ctxRound_coeff0 c { form := .finite, neg := (c.mode == .floor), exp := s, coeff := 0 } rfl
      (finish_noSys c _ hd) (Or.inl rfl)
    exact ⟨a2, a3⟩

example : ((specials "pow" { coeff := 2 } { form := .infinite }).map (·.form)) = some .infinite := by decide
example : (mulOp {} { coeff := 0 } { form := .infinite }).fl.invalidOp = true := by decide

#print axioms C08_defined
#print axioms C08_specials_partial
#print axioms C08_specials_canonical
#print axioms C08_snan
#print axioms C08_zero_sum_sign

end Apd.Props
