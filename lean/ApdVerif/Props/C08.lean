import ApdVerif.Model.Dispatch
import ApdVerif.Spec.Specials
import ApdVerif.Spec.Defs
import ApdVerif.Lemmas.C08Lemmas
/-!
# C08 — special values follow the decimal arithmetic rules in every operation

`Spec.specials` is the table written from the General Decimal Arithmetic specification
(ApdVerif/Spec/Specials.lean).  For every operation of the protocol, every context and every operand
pair for which the table prescribes a result, the model is defined and its delivered outcome has the
prescribed form, sign and conditions.
-/
namespace Apd.Props
open Apd Apd.Spec Apd.C08L

def allOps : List String :=
  ["add", "sub", "mul", "quo", "quoint", "rem", "abs", "neg", "round", "reduce", "cmp", "quantize",
   "rtie", "rtiv", "ceil", "floor", "sqrt", "cbrt", "exp", "ln", "log10", "pow"]

/-- the model decides every case the table prescribes -/
theorem C08_defined (op : String) (hop : op ∈ allOps) (c : Ctx) (x y : Dec) (i : Int) (e : Expect)
    (h : specials op x y = some e) : (runCtxOp op c x y i).isSome = true := by
  simp only [allOps, List.mem_cons, List.not_mem_nil, or_false] at hop
  rcases hop with rfl | rfl | rfl | rfl | rfl | rfl | rfl | rfl | rfl | rfl | rfl | rfl | rfl | rfl | rfl | rfl |
    rfl | rfl | rfl | rfl | rfl | rfl
  case _ => simp [runCtxOp]  -- add
  case _ => simp [runCtxOp]  -- sub
  case _ => simp [runCtxOp]  -- mul
  case _ => simp [runCtxOp]  -- quo
  case _ => simp [runCtxOp]  -- quoint
  case _ => simp [runCtxOp]  -- rem
  case _ => simp [runCtxOp]  -- abs
  case _ => simp [runCtxOp]  -- neg
  case _ => simp [runCtxOp]  -- round
  case _ => simp [runCtxOp]  -- reduce
  case _ => simp [runCtxOp]  -- cmp
  case _ => simp [runCtxOp]  -- quantize
  case _ => simp [runCtxOp]  -- rtie
  case _ => simp [runCtxOp]  -- rtiv
  case _ => simp [runCtxOp]  -- ceil
  case _ => simp [runCtxOp]  -- floor
  case _ => simp [runCtxOp]  -- sqrt
  case _ => obtain ⟨o, h1, _⟩ := C08_cbrt c x y e h; simp [runCtxOp, h1]
  case _ => obtain ⟨o, h1, _⟩ := C08_exp c x y e h; simp [runCtxOp, h1]
  case _ => obtain ⟨o, h1, _⟩ := C08_log c x y e true (by simpa using h); simp [runCtxOp, h1]
  case _ => obtain ⟨o, h1, _⟩ := C08_log c x y e false (by simpa using h); simp [runCtxOp, h1]
  case _ => obtain ⟨o, h1, _⟩ := C08_pow c x y e h; simp [runCtxOp, powIntOp_of_specials h1]

/-- … and decides it as prescribed: result form, sign, and InvalidOperation / DivisionByZero /
DivisionUndefined exactly as the table says, no Inexact/Overflow/Underflow/DivisionImpossible.
(`prec = 0` makes Quo/QuoInteger/Exp return the zero-precision error first: excluded by `hd`.)

History: before `Rounder.Round` was repaired to copy non-finite operands, `Abs`/`Neg`/`Round`/`Reduce`
sent an infinity through `setExponent`, and this statement was false (e.g. `Abs` of an infinity whose
exponent field exceeds `emax` raised Overflow|Inexact).  With `roundX` returning `(x, {})` for
non-finite `x` it holds with no side condition. -/
theorem C08_specials (op : String) (hop : op ∈ allOps) (c : Ctx) (x y : Dec) (i : Int) (e : Expect) (o : Out)
    (h : specials op x y = some e) (ho : runCtxOp op c x y i = some o)
    (hd : o.err = .none ∨ o.err = .trap) : e.meets o.d o.fl = true := by
  simp only [allOps, List.mem_cons, List.not_mem_nil, or_false] at hop
  rcases hop with rfl | rfl | rfl | rfl | rfl | rfl | rfl | rfl | rfl | rfl | rfl | rfl | rfl | rfl | rfl | rfl |
    rfl | rfl | rfl | rfl | rfl | rfl
  case _ => simp [runCtxOp] at ho; subst ho; exact C08_addsub c x y e false (by simpa using h)
  case _ => simp [runCtxOp] at ho; subst ho; exact C08_addsub c x y e true (by simpa using h)
  case _ => simp [runCtxOp] at ho; subst ho; exact C08_mul c x y e h
  case _ => simp [runCtxOp] at ho; subst ho; exact C08_quo c x y e h
  case _ => simp [runCtxOp] at ho; subst ho; exact C08_quoint c x y e h
  case _ => simp [runCtxOp] at ho; subst ho; exact C08_rem c x y e h
  case _ => simp [runCtxOp] at ho; subst ho; exact C08_abs c x y e h
  case _ => simp [runCtxOp] at ho; subst ho; exact C08_neg c x y e h
  case _ => simp [runCtxOp] at ho; subst ho; exact C08_round c x y e h
  case _ => simp [runCtxOp] at ho; subst ho; exact C08_reduce c x y e h
  case _ => simp [runCtxOp] at ho; subst ho; exact C08_cmp c x y e h
  case _ => simp [runCtxOp] at ho; subst ho; exact C08_quantize c x y i e h
  case _ => simp [runCtxOp] at ho; subst ho; exact C08_rtie c x y e h
  case _ => simp [runCtxOp] at ho; subst ho; exact C08_rtiv c x y e h
  case _ => simp [runCtxOp] at ho; subst ho; exact C08_ceil c x y e h
  case _ => simp [runCtxOp] at ho; subst ho; exact C08_floor c x y e h
  case _ => simp [runCtxOp] at ho; subst ho; exact C08_sqrt c x y e h hd
  case _ =>
    obtain ⟨o', h1, h2⟩ := C08_cbrt c x y e h
    simp [runCtxOp, h1] at ho; subst ho; exact h2 hd
  case _ =>
    obtain ⟨o', h1, h2⟩ := C08_exp c x y e h
    simp [runCtxOp, h1] at ho; subst ho; exact h2
  case _ =>
    obtain ⟨o', h1, h2⟩ := C08_log c x y e true (by simpa using h)
    simp [runCtxOp, h1] at ho; subst ho; exact h2
  case _ =>
    obtain ⟨o', h1, h2⟩ := C08_log c x y e false (by simpa using h)
    simp [runCtxOp, h1] at ho; subst ho; exact h2
  case _ =>
    obtain ⟨o', h1, h2⟩ := C08_pow c x y e h
    simp [runCtxOp, powIntOp_of_specials h1] at ho; subst ho; exact h2

/-- a signalling NaN operand always raises InvalidOperation and yields a quiet NaN -/
theorem C08_snan (op : String) (hop : op ∈ allOps) (c : Ctx) (x y : Dec) (i : Int) (o : Out)
    (hx : x.form = .nanSignaling) (ho : runCtxOp op c x y i = some o) :
    o.d.form = .nan ∧ o.fl.invalidOp = true ∧ o.err = goError c.traps Cond.cInvalidOp := by
  obtain ⟨xf, xn, xe, xc⟩ := x
  simp only at hx; subst hx
  simp only [allOps, List.mem_cons, List.not_mem_nil, or_false] at hop
  rcases hop with rfl | rfl | rfl | rfl | rfl | rfl | rfl | rfl | rfl | rfl | rfl | rfl | rfl | rfl | rfl | rfl |
    rfl | rfl | rfl | rfl | rfl | rfl
  all_goals
    simp [runCtxOp, addOp, mulOp, quoOp, quoIntegerOp, quoSpecials, remOp, absOp, negOp, roundOp, reduceOp, cmpOp,
      quantizeOp, roundToIntegralExactOp, roundToIntegralValueOp, ceilOp, floorOp, toIntegralSpecials, sqrtOp, cbrtOp,
      rootSpecials, expSpecials, logSpecials, powIntOp, powSpecials, shouldSetAsNaN, setAsNaN, Dec.isNaN] at ho
    subst ho
    simp [Cond.cInvalidOp]

theorem upscale_cases (x y : Dec) :
    upscale x y = none ∨ ∃ s, upscale x y =
      some (x.coeff * 10 ^ (x.exp - min x.exp y.exp).toNat, y.coeff * 10 ^ (y.exp - min x.exp y.exp).toNat, s) := by
  unfold upscale
  by_cases h1 : x.exp = y.exp
  · right; refine ⟨x.exp, ?_⟩
    have hm : min x.exp y.exp = x.exp := by omega
    simp [h1]
  · by_cases h2 : x.exp < y.exp
    · have hm : min x.exp y.exp = x.exp := by omega
      have hb : (x.exp == y.exp) = false := by simpa using h1
      simp only [hb, h2, hm, if_true, Bool.false_eq_true, if_false, Int.sub_self, Int.toNat_zero, Nat.pow_zero,
        Nat.mul_one]
      split_ifs
      · left; rfl
      · right; exact ⟨_, rfl⟩
    · have hm : min x.exp y.exp = y.exp := by omega
      have hb : (x.exp == y.exp) = false := by simpa using h1
      simp only [hb, h2, hm, Bool.false_eq_true, if_false, Int.sub_self, Int.toNat_zero, Nat.pow_zero,
        Nat.mul_one]
      split_ifs
      · left; rfl
      · right; exact ⟨_, rfl⟩

/-- the sign of an exact zero sum: +0, except under RoundFloor (and except when both operands
are negative zeros / have the same sign) — on the model directly -/
theorem C08_zero_sum_sign (c : Ctx) (hc : c.WF) (x y : Dec) (hx : x.form = .finite) (hy : y.form = .finite)
    (hn : x.neg ≠ y.neg) (hv : x.coeff * 10 ^ (x.exp - min x.exp y.exp).toNat = y.coeff * 10 ^ (y.exp - min x.exp y.exp).toNat)
    (hd : Delivered (addOp c x y false).err) :
    (addOp c x y false).d.coeff = 0 ∧ (addOp c x y false).d.neg = (c.mode == .floor) := by
  have hnan : shouldSetAsNaN x (some y) = false := by simp [shouldSetAsNaN, Dec.isNaN, hx, hy]
  have hne : (x.neg == y.neg) = false := by simpa using hn
  rcases upscale_cases x y with hu | ⟨s, hu⟩
  · have hE : addOp c x y false = failWith .sys := by
      unfold addOp
      simp [hnan, hx, hy, hu]
    rw [hE] at hd
    simp [Delivered, failWith] at hd
  · have hE : addOp c x y false =
        finish c (ctxRound c { form := .finite, neg := (c.mode == .floor), exp := s, coeff := 0 }) := by
      unfold addOp
      simp [hnan, hx, hy, hu, hv, hn]
    rw [hE] at hd ⊢
    obtain ⟨a1, a2, a3, a4⟩ := ctxRound_coeff0 c { form := .finite, neg := (c.mode == .floor), exp := s, coeff := 0 } rfl rfl
      (finish_noSys c _ hd)
    exact ⟨a2, a3⟩

example : ((specials "pow" { coeff := 2 } { form := .infinite }).map (·.form)) = some .infinite := by decide
example : (mulOp {} { coeff := 0 } { form := .infinite }).fl.invalidOp = true := by decide

/-- the former counterexamples to `C08_specials` now behave as the table says -/
example : (absOp { prec := 5, emax := 10, emin := -10 } { form := .infinite, exp := 50 }).fl = {} := by decide
example : (negOp { prec := 3, emax := -5, emin := -10 } { form := .infinite, neg := true }).fl = {} := by decide
example : (roundOp { prec := 5, emax := 10, emin := -10 } { form := .infinite, coeff := 123456 }).fl = {} := by decide

#print axioms C08_defined
#print axioms C08_specials
#print axioms C08_snan
#print axioms C08_zero_sum_sign

end Apd.Props
