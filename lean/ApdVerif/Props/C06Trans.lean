import ApdVerif.Props.C05Trans
import ApdVerif.Props.C18
import ApdVerif.Lemmas.TransFootLemmas
/-!
# C06 and C18 for the composite functions (Sqrt, Cbrt, Exp, Ln, Log10, Pow)

* `C06_foot_<op>`   : the footprint: reads within `{x, y} ∪ {d}`, writes within `{d}`; the Go locals of these
  functions (virtualised by `localize`) are not part of it;
* `C06_writes_<op>` : every write of the program goes to the destination cell; the `Context` is a Lean value and the
  package constants (`decimalHalf`, `decimalLn10`, …) are Lean values, which no program can write;
* `C06_<op>`        : when `d ∉ {x, y}` the run does not depend on the previous contents of `d` (`Agree`: same error
  class and remaining tape; if delivered, same flags and aux value, and the same final destination unless the call
  was aborted by a trapped condition of its internal `ErrDecimal` — flags 0 with a trap error — in which case the
  destination is left as it was found at that point);
* `C06_transOp_operands_only` : two runs on heaps that agree on the operand cells agree (no assumption on aliasing);
* `C18_transops`    : any family of these calls whose destinations are pairwise distinct and distinct from every
  other thread's operands behaves, under every schedule, like the solo runs.
-/
namespace Apd.Props
open Apd Apd.Cond Apd.Imp Apd.Imp.Prog

/-- two runs of a composite function agree: both reject the tape, or they return the same remaining tape and error
class and, when delivered, the same flags and aux value and — unless the result is the `(0, trap)` of an aborted
call — the same final destination -/
def Agree (d : Cell) (r1 r2 : Option (Res × Tape) × Heap) : Prop :=
  match r1.1, r2.1 with
  | none, none => True
  | some (a, t), some (b, u) =>
    t = u ∧ a.2.1 = b.2.1 ∧
    (Delivered a.2.1 → a.1 = b.1 ∧ a.2.2 = b.2.2 ∧ (¬ (a.1 = {} ∧ a.2.1 = .trap) → r1.2 d = r2.2 d))
  | _, _ => False

/-- two runs whose value-level models coincide -/
theorem ttSpec_agree {r1 r2 : Option (Res × Tape) × Heap} {d : Cell} {h1 h2 : Heap} {m : Option (Out × Tape)}
    (s1 : TTSpec r1 d h1 m) (s2 : TTSpec r2 d h2 m) : Agree d r1 r2 := by
  unfold Agree
  cases m with
  | none =>
    have e1 : r1.1 = none := s1.1
    have e2 : r2.1 = none := s2.1
    rw [e1, e2]; trivial
  | some mt =>
    obtain ⟨m, t⟩ := mt
    obtain ⟨⟨a, ha, ea, da⟩, _⟩ := s1
    obtain ⟨⟨b, hb, eb, db⟩, _⟩ := s2
    rw [ha, hb]
    refine ⟨rfl, ea.trans eb.symm, fun hd => ?_⟩
    obtain ⟨a1, a2, a3⟩ := da hd
    obtain ⟨b1, b2, b3⟩ := db (by rw [eb, ← ea]; exact hd)
    refine ⟨a1.trans b1.symm, a3.trans b3.symm, fun hna => ?_⟩
    have hna' : ¬ m.Aborted := fun hab => hna ⟨a1.trans hab.1, ea.trans hab.2⟩
    rw [a2 hna', b2 hna']

/-! ## the table -/

/-- the footprint of every operation of `Imp.runTransOp`: reads `{x, y} ∪ {d}`, writes `{d}` -/
theorem Foot_runTransOp {op : String} {c : Ctx} {d x y : Cell} {tape : Tape} {p : Prog (Option (Res × Tape))}
    (hp : runTransOp op c d x y tape = some p) : Foot (footR x y) (footW d) p := by
  have hd : footW d d := rfl
  have hx : SrcOK (footR x y) (footW d) (.cell x) := SrcOK.read (Or.inl rfl)
  have hy : SrcOK (footR x y) (footW d) (.cell y) := SrcOK.read (Or.inr rfl)
  unfold runTransOp at hp
  by_cases h0 : op = "sqrt"
  · rw [if_pos h0] at hp; cases hp; exact Foot.bind (Foot_sqrtP hd hx _) (fun _ => Foot.pure _)
  rw [if_neg h0] at hp
  by_cases h1 : op = "cbrt"
  · rw [if_pos h1] at hp; cases hp; exact Foot.bind (Foot_cbrtP hd hx _) (fun _ => Foot.pure _)
  rw [if_neg h1] at hp
  by_cases h2 : op = "exp"
  · rw [if_pos h2] at hp; cases hp; exact Foot_expP hd hx _ _
  rw [if_neg h2] at hp
  by_cases h3 : op = "ln"
  · rw [if_pos h3] at hp; cases hp; exact Foot_lnP hd hx _ _
  rw [if_neg h3] at hp
  by_cases h4 : op = "log10"
  · rw [if_pos h4] at hp; cases hp; exact Foot_log10P hd hx _ _
  rw [if_neg h4] at hp
  by_cases h5 : op = "pow"
  · rw [if_pos h5] at hp; cases hp; exact Foot_powP hd hx hy _ _
  rw [if_neg h5] at hp
  cases hp

/-- C06 for the whole table: the outcome is a function of the operand VALUES, the context and the tape only -/
theorem C06_transOp_operands_only {op : String} {c : Ctx} {d x y : Cell} {tape : Tape}
    {p : Prog (Option (Res × Tape))} (hp : runTransOp op c d x y tape = some p) (h1 h2 : Heap)
    (hx : h1 x = h2 x) (hy : h1 y = h2 y) : Agree d (run p h1) (run p h2) := by
  obtain ⟨m1, hm1, s1⟩ := C05_transOp hp h1
  obtain ⟨m2, hm2, s2⟩ := C05_transOp hp h2
  rw [hx, hy] at hm1
  have : m1 = m2 := Option.some.inj (hm1.symm.trans hm2)
  subst this
  exact ttSpec_agree s1 s2

/-- C06 for the whole table: only the destination is written -/
theorem C06_writes_transOp {op : String} {c : Ctx} {d x y : Cell} {tape : Tape} {p : Prog (Option (Res × Tape))}
    (hp : runTransOp op c d x y tape = some p) : WritesOnly (· = d) p :=
  (Foot_runTransOp hp).writesOnly

/-- C06 for the whole table: operands (when they are not the destination) and all other cells are unchanged -/
theorem C06_frame_transOp {op : String} {c : Ctx} {d x y : Cell} {tape : Tape} {p : Prog (Option (Res × Tape))}
    (hp : runTransOp op c d x y tape = some p) (h : Heap) : ∀ cell, cell ≠ d → (run p h).2 cell = h cell :=
  (C06_writes_transOp hp).frame h

/-- C06 for the whole table: with `d ∉ {x, y}` the previous contents of `d` are irrelevant -/
theorem C06_transOp {op : String} {c : Ctx} {d x y : Cell} {tape : Tape} {p : Prog (Option (Res × Tape))}
    (hp : runTransOp op c d x y tape = some p) (hdx : d ≠ x) (hdy : d ≠ y) (h : Heap) (v : Dec) :
    Agree d (run p h) (run p (h.set d v)) :=
  C06_transOp_operands_only hp h (h.set d v) (Heap.set_other _ _ (Ne.symm hdx)).symm
    (Heap.set_other _ _ (Ne.symm hdy)).symm

/-! ## per operation -/

theorem C06_foot_sqrt (c : Ctx) (d x : Cell) : Foot (footR x x) (footW d) (sqrtP c d (.cell x)) :=
  Foot_sqrtP (R := footR x x) (W := footW d) rfl (SrcOK.read (Or.inl rfl)) c
theorem C06_writes_sqrt (c : Ctx) (d x : Cell) : WritesOnly (· = d) (sqrtP c d (.cell x)) :=
  (C06_foot_sqrt c d x).writesOnly
/-- `Sqrt`: with `d ≠ x` the previous contents of `d` are irrelevant (except that an aborted call leaves them) -/
theorem C06_sqrt (c : Ctx) (d x : Cell) (hdx : d ≠ x) (h : Heap) (v : Dec) :
    let r1 := run (sqrtP c d (.cell x)) h
    let r2 := run (sqrtP c d (.cell x)) (h.set d v)
    r1.1.2.1 = r2.1.2.1 ∧
    (Delivered r1.1.2.1 → r1.1.1 = r2.1.1 ∧ r1.1.2.2 = r2.1.2.2 ∧
      (¬ (r1.1.1 = {} ∧ r1.1.2.1 = .trap) → r1.2 d = r2.2 d)) := by
  obtain ⟨e1, d1, _⟩ := C05_sqrt_partial c d x h
  obtain ⟨e2, d2, _⟩ := C05_sqrt_partial c d x (h.set d v)
  simp only [Heap.set_other _ _ (Ne.symm hdx)] at e2 d2
  refine ⟨e1.trans e2.symm, fun hd => ?_⟩
  obtain ⟨a1, a2, a3⟩ := d1 hd
  obtain ⟨b1, b2, b3⟩ := d2 (by rw [e2, ← e1]; exact hd)
  refine ⟨a1.trans b1.symm, a3.trans b3.symm, fun hna => ?_⟩
  have hna' : ¬ (sqrtOp c (h x)).Aborted := fun hab => hna ⟨a1.trans hab.1, e1.trans hab.2⟩
  rw [a2 hna', b2 hna']

theorem C06_foot_cbrt (c : Ctx) (d x : Cell) : Foot (footR x x) (footW d) (cbrtP c d (.cell x)) :=
  Foot_cbrtP (R := footR x x) (W := footW d) rfl (SrcOK.read (Or.inl rfl)) c
theorem C06_writes_cbrt (c : Ctx) (d x : Cell) : WritesOnly (· = d) (cbrtP c d (.cell x)) :=
  (C06_foot_cbrt c d x).writesOnly

theorem C06_foot_exp (c : Ctx) (d x : Cell) (tape : Tape) : Foot (footR x x) (footW d) (expP c d (.cell x) tape) :=
  Foot_expP (R := footR x x) (W := footW d) rfl (SrcOK.read (Or.inl rfl)) c tape
theorem C06_writes_exp (c : Ctx) (d x : Cell) (tape : Tape) : WritesOnly (· = d) (expP c d (.cell x) tape) :=
  (C06_foot_exp c d x tape).writesOnly
theorem C06_exp (c : Ctx) (d x : Cell) (tape : Tape) (hdx : d ≠ x) (h : Heap) (v : Dec) :
    Agree d (run (expP c d (.cell x) tape) h) (run (expP c d (.cell x) tape) (h.set d v)) := by
  have s1 := C05_exp_partial c d x tape h
  have s2 := C05_exp_partial c d x tape (h.set d v)
  rw [Heap.set_other _ _ (Ne.symm hdx)] at s2
  exact ttSpec_agree s1 s2

theorem C06_foot_ln (c : Ctx) (d x : Cell) (tape : Tape) : Foot (footR x x) (footW d) (lnP c d (.cell x) tape) :=
  Foot_lnP (R := footR x x) (W := footW d) rfl (SrcOK.read (Or.inl rfl)) c tape
theorem C06_writes_ln (c : Ctx) (d x : Cell) (tape : Tape) : WritesOnly (· = d) (lnP c d (.cell x) tape) :=
  (C06_foot_ln c d x tape).writesOnly
theorem C06_ln (c : Ctx) (d x : Cell) (tape : Tape) (hdx : d ≠ x) (h : Heap) (v : Dec) :
    Agree d (run (lnP c d (.cell x) tape) h) (run (lnP c d (.cell x) tape) (h.set d v)) := by
  have s1 := C05_ln_partial c d x tape h
  have s2 := C05_ln_partial c d x tape (h.set d v)
  rw [Heap.set_other _ _ (Ne.symm hdx)] at s2
  exact ttSpec_agree s1 s2

theorem C06_foot_log10 (c : Ctx) (d x : Cell) (tape : Tape) :
    Foot (footR x x) (footW d) (log10P c d (.cell x) tape) :=
  Foot_log10P (R := footR x x) (W := footW d) rfl (SrcOK.read (Or.inl rfl)) c tape
theorem C06_writes_log10 (c : Ctx) (d x : Cell) (tape : Tape) : WritesOnly (· = d) (log10P c d (.cell x) tape) :=
  (C06_foot_log10 c d x tape).writesOnly
theorem C06_log10 (c : Ctx) (d x : Cell) (tape : Tape) (hdx : d ≠ x) (h : Heap) (v : Dec) :
    Agree d (run (log10P c d (.cell x) tape) h) (run (log10P c d (.cell x) tape) (h.set d v)) := by
  have s1 := C05_log10_partial c d x tape h
  have s2 := C05_log10_partial c d x tape (h.set d v)
  rw [Heap.set_other _ _ (Ne.symm hdx)] at s2
  exact ttSpec_agree s1 s2

theorem C06_foot_pow (c : Ctx) (d x y : Cell) (tape : Tape) :
    Foot (footR x y) (footW d) (powP c d (.cell x) (.cell y) tape) :=
  Foot_powP (R := footR x y) (W := footW d) rfl (SrcOK.read (Or.inl rfl)) (SrcOK.read (Or.inr rfl)) c tape
theorem C06_writes_pow (c : Ctx) (d x y : Cell) (tape : Tape) :
    WritesOnly (· = d) (powP c d (.cell x) (.cell y) tape) :=
  (C06_foot_pow c d x y tape).writesOnly
/-- two runs of `Pow` agree: both reject the tape, or they return the same remaining tape and error class and, when
delivered, the same flags, aux value and final destination (no exclusion) -/
def AgreeS (d : Cell) (r1 r2 : Option (Res × Tape) × Heap) : Prop :=
  match r1.1, r2.1 with
  | none, none => True
  | some (a, t), some (b, u) =>
    t = u ∧ a.2.1 = b.2.1 ∧ (Delivered a.2.1 → a.1 = b.1 ∧ a.2.2 = b.2.2 ∧ r1.2 d = r2.2 d)
  | _, _ => False

theorem stSpec_agree {r1 r2 : Option (Res × Tape) × Heap} {d : Cell} {h1 h2 : Heap} {m : Option (Out × Tape)}
    (s1 : STSpec r1 d h1 m) (s2 : STSpec r2 d h2 m) : AgreeS d r1 r2 := by
  unfold AgreeS
  cases m with
  | none =>
    have e1 : r1.1 = none := s1.1
    have e2 : r2.1 = none := s2.1
    rw [e1, e2]; trivial
  | some mt =>
    obtain ⟨m, t⟩ := mt
    obtain ⟨⟨a, ha, ea, da⟩, _⟩ := s1
    obtain ⟨⟨b, hb, eb, db⟩, _⟩ := s2
    rw [ha, hb]
    refine ⟨rfl, ea.trans eb.symm, fun hd => ?_⟩
    obtain ⟨a1, a2, a3⟩ := da hd
    obtain ⟨b1, b2, b3⟩ := db (by rw [eb, ← ea]; exact hd)
    exact ⟨a1.trans b1.symm, a3.trans b3.symm, a2.trans b2.symm⟩

/-- `Pow`: with `d ∉ {x, y}` the previous contents of `d` are irrelevant -/
theorem C06_pow (c : Ctx) (d x y : Cell) (tape : Tape) (hdx : d ≠ x) (hdy : d ≠ y) (h : Heap) (v : Dec) :
    AgreeS d (run (powP c d (.cell x) (.cell y) tape) h) (run (powP c d (.cell x) (.cell y) tape) (h.set d v)) := by
  have s1 := C05_pow c d x y tape h
  have s2 := C05_pow c d x y tape (h.set d v)
  rw [Heap.set_other _ _ (Ne.symm hdx), Heap.set_other _ _ (Ne.symm hdy)] at s2
  exact stSpec_agree s1 s2

/-- `Pow`: two runs on heaps that agree on the operand cells agree, whatever the aliasing -/
theorem C06_pow_operands_only (c : Ctx) (d x y : Cell) (tape : Tape) (h1 h2 : Heap) (hx : h1 x = h2 x)
    (hy : h1 y = h2 y) :
    AgreeS d (run (powP c d (.cell x) (.cell y) tape) h1) (run (powP c d (.cell x) (.cell y) tape) h2) := by
  have s1 := C05_pow c d x y tape h1
  have s2 := C05_pow c d x y tape h2
  rw [hx, hy] at s1
  exact stSpec_agree s1 s2

/-- `Cbrt`: with `d ≠ x` the previous contents of `d` are irrelevant -/
theorem C06_cbrt (c : Ctx) (d x : Cell) (hdx : d ≠ x) (h : Heap) (v : Dec) :
    let r1 := run (cbrtP c d (.cell x)) h
    let r2 := run (cbrtP c d (.cell x)) (h.set d v)
    match r1.1, r2.1 with
    | none, none => True
    | some a, some b =>
      a.2.1 = b.2.1 ∧
      (Delivered a.2.1 → a.1 = b.1 ∧ a.2.2 = b.2.2 ∧ (¬ (a.1 = {} ∧ a.2.1 = .trap) → r1.2 d = r2.2 d))
    | _, _ => False := by
  have s1 := C05_cbrt_partial c d x h
  have s2 := C05_cbrt_partial c d x (h.set d v)
  rw [Heap.set_other _ _ (Ne.symm hdx)] at s2
  cases hm : cbrtOp c (h x) with
  | none =>
    rw [hm] at s1 s2
    simp only [s1, s2]
  | some m =>
    rw [hm] at s1 s2
    obtain ⟨a, ha, ea, da, _⟩ := s1
    obtain ⟨b, hb, eb, db, _⟩ := s2
    simp only [ha, hb]
    refine ⟨ea.trans eb.symm, fun hd => ?_⟩
    obtain ⟨a1, a2, a3⟩ := da hd
    obtain ⟨b1, b2, b3⟩ := db (by rw [eb, ← ea]; exact hd)
    refine ⟨a1.trans b1.symm, a3.trans b3.symm, fun hna => ?_⟩
    have hna' : ¬ m.Aborted := fun hab => hna ⟨a1.trans hab.1, ea.trans hab.2⟩
    rw [a2 hna', b2 hna']

/-! ## C18 -/

/-- one call of a composite `Context` method: op name (as in `Imp.runTransOp`), context, the three pointer
arguments, the decision tape -/
structure TransCall where
  op : String
  c : Ctx
  d : Cell
  x : Cell
  y : Cell
  tape : Tape

/-- read set of a thread (`none` = idle thread) -/
def tcallR : Option TransCall → Cell → Prop
  | some k => footR k.x k.y
  | none => fun _ => False
/-- write set of a thread -/
def tcallW : Option TransCall → Cell → Prop
  | some k => footW k.d
  | none => fun _ => False

/-- `ps0` are the programs of the calls (idle threads are `ret`) -/
def TLaunches (calls : Nat → Option TransCall) (ps0 : Nat → Prog (Option (Res × Tape))) : Prop :=
  ∀ i, match calls i with
    | some k => runTransOp k.op k.c k.d k.x k.y k.tape = some (ps0 i)
    | none => ps0 i = .ret none

/-- destinations pairwise distinct and distinct from every other thread's operands -/
def TSeparated (calls : Nat → Option TransCall) : Prop :=
  ∀ i j ki kj, i ≠ j → calls i = some ki → calls j = some kj → kj.d ≠ ki.d ∧ kj.d ≠ ki.x ∧ kj.d ≠ ki.y

theorem tlaunches_foot {calls : Nat → Option TransCall} {ps0 : Nat → Prog (Option (Res × Tape))}
    (hl : TLaunches calls ps0) (i : Nat) : Foot (tcallR (calls i)) (tcallW (calls i)) (ps0 i) := by
  have := hl i
  cases hc : calls i with
  | none => rw [hc] at this; simp only [] at this; rw [this]; exact Foot.ret _
  | some k => rw [hc] at this; exact Foot_runTransOp this

theorem tseparated_disj {calls : Nat → Option TransCall} (hs : TSeparated calls) :
    ∀ i j, i ≠ j → ∀ c, tcallW (calls j) c → ¬ (tcallR (calls i) c ∨ tcallW (calls i) c) := by
  intro i j hij c hw hrw
  cases hj : calls j with
  | none => rw [hj] at hw; exact hw
  | some kj =>
    rw [hj] at hw
    cases hi : calls i with
    | none => rw [hi] at hrw; exact hrw.elim id id
    | some ki =>
      rw [hi] at hrw
      obtain ⟨h1, h2, h3⟩ := hs i j ki kj hij hi hj
      have hc : c = kj.d := hw
      subst hc
      rcases hrw with (hx | hy) | hd
      · exact h2 hx
      · exact h3 hy
      · exact h1 hd

/-- C18 for the composite functions: under every schedule, every thread is at a prefix of its solo run; a thread
that has finished returned exactly the result of its solo run and its destination cell holds the solo result. -/
theorem C18_transops (calls : Nat → Option TransCall) (ps0 : Nat → Prog (Option (Res × Tape)))
    (hl : TLaunches calls ps0) (hsep : TSeparated calls) (h0 : Heap) (s : List Nat) :
    Inv (fun i => tcallR (calls i)) (fun i => tcallW (calls i)) ps0 h0 (runSched s ps0 h0).1 (runSched s ps0 h0).2 ∧
    ∀ i k a, calls i = some k → (runSched s ps0 h0).1 i = .ret a →
      a = (run (ps0 i) h0).1 ∧ (runSched s ps0 h0).2 k.d = (run (ps0 i) h0).2 k.d := by
  have hinv := C18_interleave (fun i => tcallR (calls i)) (fun i => tcallW (calls i)) ps0 h0
    (tlaunches_foot hl) (tseparated_disj hsep) s
  refine ⟨hinv, fun i k a hk hret => ?_⟩
  obtain ⟨h1, h2⟩ := inv_finished hinv hret
  refine ⟨h1, h2 k.d (Or.inr ?_)⟩
  rw [hk]; exact (rfl : footW k.d k.d)

/-- … and therefore what the value-level model computes from the operands' INITIAL values (C05 on the solo run) -/
theorem C18_transops_model (calls : Nat → Option TransCall) (ps0 : Nat → Prog (Option (Res × Tape)))
    (hl : TLaunches calls ps0) (hsep : TSeparated calls) (h0 : Heap) (s : List Nat) (i : Nat) (k : TransCall)
    (a : Option (Res × Tape)) (hk : calls i = some k) (hret : (runSched s ps0 h0).1 i = .ret a) :
    ∃ m, modelTransOp k.op k.c (h0 k.x) (h0 k.y) k.tape = some m ∧
      match m with
      | none => a = none
      | some (m, t) => ∃ res, a = some (res, t) ∧ res.2.1 = m.err ∧
          (Delivered res.2.1 → res.1 = m.fl ∧ (¬ m.Aborted → (runSched s ps0 h0).2 k.d = m.d) ∧ res.2.2 = m.aux) := by
  obtain ⟨h1, h2⟩ := (C18_transops calls ps0 hl hsep h0 s).2 i k a hk hret
  have hp := hl i
  rw [hk] at hp
  obtain ⟨m, hm, e1, _⟩ := C05_transOp hp h0
  refine ⟨m, hm, ?_⟩
  cases m with
  | none => rw [h1]; exact e1
  | some mt =>
    obtain ⟨m, t⟩ := mt
    obtain ⟨res, hr, er, dr⟩ := e1
    refine ⟨res, by rw [h1]; exact hr, er, fun hd => ?_⟩
    obtain ⟨f1, f2, f3⟩ := dr hd
    exact ⟨f1, fun hna => by rw [h2]; exact f2 hna, f3⟩

end Apd.Props

#print axioms Apd.Props.C06_writes_sqrt
#print axioms Apd.Props.C06_foot_sqrt
#print axioms Apd.Props.C06_sqrt
#print axioms Apd.Props.C06_writes_cbrt
#print axioms Apd.Props.C06_cbrt
#print axioms Apd.Props.C06_writes_exp
#print axioms Apd.Props.C06_exp
#print axioms Apd.Props.C06_writes_ln
#print axioms Apd.Props.C06_ln
#print axioms Apd.Props.C06_writes_log10
#print axioms Apd.Props.C06_log10
#print axioms Apd.Props.C06_writes_pow
#print axioms Apd.Props.C06_foot_pow
#print axioms Apd.Props.C06_pow
#print axioms Apd.Props.C06_pow_operands_only
#print axioms Apd.Props.C06_transOp_operands_only
#print axioms Apd.Props.C06_writes_transOp
#print axioms Apd.Props.C06_frame_transOp
#print axioms Apd.Props.C06_transOp
#print axioms Apd.Props.C18_transops
#print axioms Apd.Props.C18_transops_model
