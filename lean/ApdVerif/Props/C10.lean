import ApdVerif.Spec.Agrees
import ApdVerif.Props.RoundCore
import ApdVerif.Lemmas.C10Lemmas
/-!
# C10 — integer division and remainder satisfy the division identity
-/
namespace Apd.Props
open Apd Apd.Oracle Apd.C10L

/-- coefficients of x and y at their common (smaller) exponent -/
def aligned (x y : Dec) : Nat × Nat × Int :=
  let e := min x.exp y.exp
  (x.coeff * 10 ^ (x.exp - e).toNat, y.coeff * 10 ^ (y.exp - e).toNat, e)

/-- `upscale` computes exactly `aligned` when the exponent gap is at most `MaxExponent` -/
theorem upscale_eq_aligned (x y : Dec)
    (hgap : x.exp - y.exp ≤ 100000 ∧ y.exp - x.exp ≤ 100000) :
    upscale x y = some ((aligned x y).1, (aligned x y).2.1, (aligned x y).2.2) :=
  upscale_eq x y hgap

/-- QuoInteger: `q = trunc(x/y)` as an integer of exponent 0 with the product sign, or
DivisionImpossible + NaN exactly when q needs more than Precision digits. -/
theorem C10_quoInteger (c : Ctx) (hc : c.WF) (x y : Dec) (hx : x.form = .finite) (hy : y.form = .finite)
    (hy0 : y.coeff ≠ 0) (hgap : x.exp - y.exp ≤ 100000 ∧ y.exp - x.exp ≤ 100000) :
    let a := aligned x y
    let q := a.1 / a.2.1
    let o := quoIntegerOp c x y
    if ndigits q ≤ c.prec then
      o.d = { form := .finite, neg := (x.neg != y.neg), exp := 0, coeff := q } ∧ o.fl = {} ∧ o.err = .none
    else
      o.d.form = .nan ∧ o.fl = Cond.cDivImpossible ∧ o.err = goError c.traps Cond.cDivImpossible := by
  intro a q o
  have ho : o = _ := quoIntegerOp_eq c hc.1 x y hx hy hy0 _ _ _ (upscale_eq_aligned x y hgap)
  by_cases h : ndigits q ≤ c.prec
  · have h' : ¬ c.prec < ndigits ((aligned x y).1 / (aligned x y).2.1) := by
      show ¬ c.prec < ndigits q; omega
    rw [if_neg h'] at ho
    rw [if_pos h, ho]
    exact ⟨rfl, rfl, rfl⟩
  · have h' : c.prec < ndigits ((aligned x y).1 / (aligned x y).2.1) := by
      show c.prec < ndigits q; omega
    rw [if_pos h'] at ho
    rw [if_neg h, ho]
    exact ⟨rfl, rfl, rfl⟩

/-- the statement "`Context.round` agrees with the specification" that `C10_rem` imports from
`ApdVerif.Props.RoundCore` (`C01_roundCore`) -/
def RoundCoreFact : Prop :=
  ∀ (c : Ctx), c.WF → ∀ (x : Dec), x.form = .finite → NoSys (ctxRound c x).2 →
    Agrees c (exactRound x) (ctxRound c x).1 (ctxRound c x).2

/-- `C10_rem` with the round-core fact as an explicit hypothesis (this part is sorry-free
independently of `RoundCore.lean`) -/
theorem C10_rem_of_roundCore (hRC : RoundCoreFact)
    (c : Ctx) (hc : c.WF) (x y : Dec) (hx : x.form = .finite) (hy : y.form = .finite)
    (hy0 : y.coeff ≠ 0) (hgap : x.exp - y.exp ≤ 100000 ∧ y.exp - x.exp ≤ 100000) :
    let a := aligned x y
    let q := a.1 / a.2.1
    let r := a.1 % a.2.1
    let o := remOp c x y
    (a.1 = q * a.2.1 + r ∧ r < a.2.1) ∧
    (if ndigits q ≤ c.prec then
      (Delivered o.err →
        Agrees c { neg := x.neg, num := r, den := 1, e10 := a.2.2 } o.d o.fl)
     else
      o.d.form = .nan ∧ o.fl = Cond.cDivImpossible ∧ o.err = goError c.traps Cond.cDivImpossible) := by
  intro a q r o
  have hb : 0 < a.2.1 := by
    show 0 < y.coeff * 10 ^ _
    exact Nat.mul_pos (Nat.pos_of_ne_zero hy0) (Nat.pow_pos (by decide))
  refine ⟨⟨?_, Nat.mod_lt _ hb⟩, ?_⟩
  · show a.1 = a.1 / a.2.1 * a.2.1 + a.1 % a.2.1
    rw [Nat.mul_comm]; exact (Nat.div_add_mod _ _).symm
  · have ho : o = _ := remOp_eq c x y hx hy hy0 _ _ _ (upscale_eq_aligned x y hgap)
    by_cases h : ndigits q ≤ c.prec
    · have h' : ¬ c.prec < ndigits ((aligned x y).1 / (aligned x y).2.1) := by
        show ¬ c.prec < ndigits q; omega
      rw [if_neg h'] at ho
      rw [if_pos h, ho, ← ctxRound_finite c _ rfl]
      intro hd
      exact hRC c hc _ rfl (noSys_of_delivered _ _ hd)
    · have h' : c.prec < ndigits ((aligned x y).1 / (aligned x y).2.1) := by
        show c.prec < ndigits q; omega
      rw [if_pos h'] at ho
      rw [if_neg h, ho]
      exact ⟨rfl, rfl, rfl⟩

/-- Rem: `r = x - q*y` exactly (same `q`), sign of `x`, `|r| < |y|`, then rounded to the context;
DivisionImpossible + NaN exactly when q needs more than Precision digits. -/
theorem C10_rem (c : Ctx) (hc : c.WF) (x y : Dec) (hx : x.form = .finite) (hy : y.form = .finite)
    (hy0 : y.coeff ≠ 0) (hgap : x.exp - y.exp ≤ 100000 ∧ y.exp - x.exp ≤ 100000) :
    let a := aligned x y
    let q := a.1 / a.2.1
    let r := a.1 % a.2.1
    let o := remOp c x y
    (a.1 = q * a.2.1 + r ∧ r < a.2.1) ∧
    (if ndigits q ≤ c.prec then
      (Delivered o.err →
        Agrees c { neg := x.neg, num := r, den := 1, e10 := a.2.2 } o.d o.fl)
     else
      o.d.form = .nan ∧ o.fl = Cond.cDivImpossible ∧ o.err = goError c.traps Cond.cDivImpossible) :=
  C10_rem_of_roundCore C01_roundCore c hc x y hx hy hy0 hgap

/-! ## exactness

The statement originally given for `C10_rem_exact` was

```
theorem C10_rem_exact (c : Ctx) (hc : c.WF) (x y : Dec) (hx : x.form = .finite) (hy : y.form = .finite)
    (hy0 : y.coeff ≠ 0) (hgap : x.exp - y.exp ≤ 100000 ∧ y.exp - x.exp ≤ 100000)
    (hq : ndigits ((aligned x y).1 / (aligned x y).2.1) ≤ c.prec)
    (hr : ndigits ((aligned x y).1 % (aligned x y).2.1) ≤ c.prec)
    (hd : Delivered (remOp c x y).err) : (remOp c x y).fl.inexact = false
```

It is FALSE: its docstring says "(and is in range)" but no range hypothesis is present.  A remainder
with few digits can still lie below `Etiny` (it is then rounded to the subnormal grid, Inexact) or
above `Emax` (Overflow + Inexact).  Two counterexamples are checked below by `decide`.
`C10_rem_exact_iff` characterises exactly when the remainder is returned without Inexact, and
`C10_rem_exact_partial` is the intended statement with the range hypothesis added. -/

/-- counterexample 1 (remainder below Etiny): `Rem(1E-10, 3)` with prec 5, emin 0, emax 10, no traps
is delivered with Inexact (result `0E-4`), although `q = 0` and `r = 1` have one digit. -/
theorem C10_rem_exact_counterexample_sub :
    let c : Ctx := { prec := 5, emax := 10, emin := 0 }
    let x : Dec := { coeff := 1, exp := -10 }
    let y : Dec := { coeff := 3, exp := 0 }
    c.WF ∧ x.form = .finite ∧ y.form = .finite ∧ y.coeff ≠ 0 ∧
    (x.exp - y.exp ≤ 100000 ∧ y.exp - x.exp ≤ 100000) ∧
    ndigits ((aligned x y).1 / (aligned x y).2.1) ≤ c.prec ∧
    ndigits ((aligned x y).1 % (aligned x y).2.1) ≤ c.prec ∧
    Delivered (remOp c x y).err ∧ (remOp c x y).fl.inexact = true := by
  intro c x y
  exact ⟨by decide, by decide, by decide, by decide, by decide, by decide, by decide,
    Or.inl (by decide), by decide⟩

/-- counterexample 2 (remainder above Emax): `Rem(1E+50, 3E+50)` with prec 5, emin 0, emax 10, no
traps is delivered as Infinity with Overflow and Inexact. -/
theorem C10_rem_exact_counterexample_ovf :
    let c : Ctx := { prec := 5, emax := 10, emin := 0 }
    let x : Dec := { coeff := 1, exp := 50 }
    let y : Dec := { coeff := 3, exp := 50 }
    c.WF ∧ x.form = .finite ∧ y.form = .finite ∧ y.coeff ≠ 0 ∧
    (x.exp - y.exp ≤ 100000 ∧ y.exp - x.exp ≤ 100000) ∧
    ndigits ((aligned x y).1 / (aligned x y).2.1) ≤ c.prec ∧
    ndigits ((aligned x y).1 % (aligned x y).2.1) ≤ c.prec ∧
    Delivered (remOp c x y).err ∧ (remOp c x y).fl.inexact = true := by
  intro c x y
  exact ⟨by decide, by decide, by decide, by decide, by decide, by decide, by decide,
    Or.inl (by decide), by decide⟩

/-- exact characterisation: when quotient and remainder have at most Precision digits and the
outcome is delivered, Inexact is absent iff the remainder `r × 10^s` loses no digit on the
subnormal grid (`10^(Etiny - s)` divides `r`) and, unless it is zero, its adjusted exponent is
at most Emax.  The rounding mode does not matter. -/
theorem C10_rem_exact_iff (c : Ctx) (hc : c.WF) (x y : Dec) (hx : x.form = .finite) (hy : y.form = .finite)
    (hy0 : y.coeff ≠ 0) (hgap : x.exp - y.exp ≤ 100000 ∧ y.exp - x.exp ≤ 100000)
    (hq : ndigits ((aligned x y).1 / (aligned x y).2.1) ≤ c.prec)
    (hr : ndigits ((aligned x y).1 % (aligned x y).2.1) ≤ c.prec)
    (hd : Delivered (remOp c x y).err) :
    let a := aligned x y
    let r := a.1 % a.2.1
    (remOp c x y).fl.inexact = false ↔
      (r % 10 ^ (c.emin - (c.prec : Int) + 1 - a.2.2).toNat = 0 ∧
        (r = 0 ∨ a.2.2 + (ndigits r : Int) - 1 ≤ c.emax)) := by
  intro a r
  have ho := remOp_eq c x y hx hy hy0 _ _ _ (upscale_eq_aligned x y hgap)
  have h' : ¬ c.prec < ndigits ((aligned x y).1 / (aligned x y).2.1) := by omega
  rw [if_neg h'] at ho
  rw [ho] at hd ⊢
  exact ctxRound_inexact c hc _ rfl hr (noSys_of_delivered _ _ hd)

/-- exactness: when the remainder has at most Precision digits and is in range (it is zero, or its
exponent is at least Etiny and its adjusted exponent at most Emax) it is returned exactly and the
rounding mode does not matter -/
theorem C10_rem_exact_partial (c : Ctx) (hc : c.WF) (x y : Dec) (hx : x.form = .finite) (hy : y.form = .finite)
    (hy0 : y.coeff ≠ 0) (hgap : x.exp - y.exp ≤ 100000 ∧ y.exp - x.exp ≤ 100000)
    (hq : ndigits ((aligned x y).1 / (aligned x y).2.1) ≤ c.prec)
    (hr : ndigits ((aligned x y).1 % (aligned x y).2.1) ≤ c.prec)
    (hrange : (aligned x y).1 % (aligned x y).2.1 = 0 ∨
      (c.emin - (c.prec : Int) + 1 ≤ (aligned x y).2.2 ∧
       (aligned x y).2.2 + (ndigits ((aligned x y).1 % (aligned x y).2.1) : Int) - 1 ≤ c.emax))
    (hd : Delivered (remOp c x y).err) : (remOp c x y).fl.inexact = false := by
  refine (C10_rem_exact_iff c hc x y hx hy hy0 hgap hq hr hd).mpr ?_
  show _ % _ = 0 ∧ (_ = 0 ∨ _ ≤ c.emax)
  rcases hrange with h0 | ⟨h1, h2⟩
  · rw [h0]; exact ⟨Nat.zero_mod _, Or.inl rfl⟩
  · have : (c.emin - (c.prec : Int) + 1 - (aligned x y).2.2).toNat = 0 := by omega
    rw [this]
    exact ⟨Nat.mod_one _, Or.inr h2⟩

end Apd.Props

#print axioms Apd.Props.upscale_eq_aligned
#print axioms Apd.Props.C10_quoInteger
#print axioms Apd.Props.C10_rem_of_roundCore
#print axioms Apd.Props.C10_rem
#print axioms Apd.Props.C10_rem_exact_counterexample_sub
#print axioms Apd.Props.C10_rem_exact_counterexample_ovf
#print axioms Apd.Props.C10_rem_exact_iff
#print axioms Apd.Props.C10_rem_exact_partial
