import ApdVerif.Spec.Agrees
/-!
# C10 — integer division and remainder satisfy the division identity
-/
namespace Apd.Props
open Apd Apd.Oracle

/-- coefficients of x and y at their common (smaller) exponent -/
def aligned (x y : Dec) : Nat × Nat × Int :=
  let e := min x.exp y.exp
  (x.coeff * 10 ^ (x.exp - e).toNat, y.coeff * 10 ^ (y.exp - e).toNat, e)

/-- QuoInteger: `q = trunc(x/y)` as an integer of exponent 0 with the product sign, or
DivisionImpossible + NaN exactly when q needs more than Precision digits. -/
theorem C10_quoInteger (c : Ctx) (hc : c.WF) (x y : Dec) (hx : x.form = .finite) (hy : y.form = .finite)
    (hy0 : y.coeff ≠ 0) (hgap : x.exp - y.exp ≤ 100000 ∧ y.exp - x.exp ≤ 100000) :
    let a := aligned x y
    let q := a.1 / a.2.1
    let o := quoIntegerOp c x y
    if ndigits q ≤ c.prec then
      o.d = { form := .finite, neg := (x.neg != y.neg), exp := 0, coeff := q } ∧ o.fl = {} ∧ o.err = .none
    else
      o.d.form = .nan ∧ o.fl = Cond.cDivImpossible ∧ o.err = goError c.traps Cond.cDivImpossible := by
  sorry

/-- Rem: `r = x - q*y` exactly (same `q`), sign of `x`, `|r| < |y|`, then rounded to the context;
DivisionImpossible + NaN exactly when q needs more than Precision digits. -/
theorem C10_rem (c : Ctx) (hc : c.WF) (x y : Dec) (hx : x.form = .finite) (hy : y.form = .finite)
    (hy0 : y.coeff ≠ 0) (hgap : x.exp - y.exp ≤ 100000 ∧ y.exp - x.exp ≤ 100000) :
    let a := aligned x y
    let q := a.1 / a.2.1
    let r := a.1 % a.2.1
    let o := remOp c x y
    (a.1 = q * a.2.1 + r ∧ r < a.2.1) ∧
    (if ndigits q ≤ c.prec then
      (Delivered o.err →
        Agrees c { neg := x.neg, num := r, den := 1, e10 := a.2.2 } o.d o.fl)
     else
      o.d.form = .nan ∧ o.fl = Cond.cDivImpossible ∧ o.err = goError c.traps Cond.cDivImpossible) := by
  sorry

/-- exactness: when the remainder has at most Precision digits (and is in range) it is returned
exactly and the rounding mode does not matter -/
theorem C10_rem_exact (c : Ctx) (hc : c.WF) (x y : Dec) (hx : x.form = .finite) (hy : y.form = .finite)
    (hy0 : y.coeff ≠ 0) (hgap : x.exp - y.exp ≤ 100000 ∧ y.exp - x.exp ≤ 100000)
    (hq : ndigits ((aligned x y).1 / (aligned x y).2.1) ≤ c.prec)
    (hr : ndigits ((aligned x y).1 % (aligned x y).2.1) ≤ c.prec)
    (hd : Delivered (remOp c x y).err) : (remOp c x y).fl.inexact = false := by
  sorry

end Apd.Props
