import ApdVerif.Model.Arith
import ApdVerif.Gen.Cond
import ApdVerif.Lemmas.GenTieLemmas
/-!
# Regenerated tie (conditions and GoError): definitions re-extracted from the Go source on every run
(`ApdVerif/Gen/*.lean`, written by harness/cmd/xlate) are the ones the hand-written model uses.
If the Go source changes one of these functions, the regenerated definition changes and the
corresponding theorem below stops checking.
-/
namespace Apd.Props
open Apd

/-- the twelve condition bits, in the order and with the weights `Cond.toNat` uses -/
theorem GenTie_condBits :
    Gen.condBits = [("SystemOverflow", 1), ("SystemUnderflow", 2), ("Overflow", 4), ("Underflow", 8),
      ("Inexact", 16), ("Subnormal", 32), ("Rounded", 64), ("DivisionUndefined", 128),
      ("DivisionByZero", 256), ("DivisionImpossible", 512), ("InvalidOperation", 1024), ("Clamped", 2048)] ∧
    Cond.cSysOverflow.toNat = Gen.SystemOverflow ∧ Cond.cSysUnderflow.toNat = Gen.SystemUnderflow ∧
    Cond.cOverflow.toNat = Gen.Overflow ∧ Cond.cUnderflow.toNat = Gen.Underflow ∧
    Cond.cInexact.toNat = Gen.Inexact ∧ Cond.cSubnormal.toNat = Gen.Subnormal ∧
    Cond.cRounded.toNat = Gen.Rounded ∧ Cond.cDivUndefined.toNat = Gen.DivisionUndefined ∧
    Cond.cDivByZero.toNat = Gen.DivisionByZero ∧ Cond.cDivImpossible.toNat = Gen.DivisionImpossible ∧
    Cond.cInvalidOp.toNat = Gen.InvalidOperation ∧ Cond.cClamped.toNat = Gen.Clamped ∧
    defaultTraps.toNat = Gen.DefaultTraps := by
  refine ⟨rfl, rfl, rfl, rfl, rfl, rfl, rfl, rfl, rfl, rfl, rfl, rfl, rfl, rfl⟩


/-- `Condition.GoError`: the flags are returned unchanged and the error class is the model's `goError` -/
theorem GenTie_goError (fl traps : Cond) :
    (Gen.Condition_GoError fl.toNat traps.toNat).1 = fl.toNat ∧
    (Gen.Condition_GoError fl.toNat traps.toNat).2 =
      (match goError traps fl with | .sys => Gen.errSys | .trap => Gen.errTrap | _ => 0) := by
  have h3 := Cond.toNat_and_three fl
  have ht : (fl.toNat &&& traps.toNat != 0) = (fl &&& traps).any := by
    rw [← Cond.toNat_and]
    cases hb : (fl &&& traps).any
    · have := (Cond.toNat_eq_zero_iff _).2 hb
      simp [this]
    · have : (fl &&& traps).toNat ≠ 0 := fun h0 => by
        have := (Cond.toNat_eq_zero_iff _).1 h0
        simp [hb] at this
      simp [this]
  unfold Gen.Condition_GoError goError
  simp only [h3, ht]
  constructor
  · split_ifs <;> rfl
  · split_ifs <;> rfl


theorem GenTie_negateOverflowFlags (r : Cond) :
    Gen.Condition_negateOverflowFlags r.toNat = (Cond.negateOverflowFlags r).toNat := by
  rcases r with ⟨b0, b1, b2, b3, b4, b5, b6, b7, b8, b9, b10, b11⟩
  cases b0 <;> cases b1 <;> cases b2 <;> cases b3 <;> cases b4 <;> cases b5 <;> cases b6 <;>
    cases b7 <;> cases b8 <;> cases b9 <;> cases b10 <;> cases b11 <;> rfl


#print axioms Apd.Props.GenTie_condBits
#print axioms Apd.Props.GenTie_goError
#print axioms Apd.Props.GenTie_negateOverflowFlags

end Apd.Props
