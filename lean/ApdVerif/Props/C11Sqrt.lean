import ApdVerif.Lemmas.SqrtDefs
import ApdVerif.Lemmas.SqrtIter
import ApdVerif.Lemmas.C11SqrtLemmas
import ApdVerif.Props.C11Settle
import ApdVerif.Props.RoundCore
import ApdVerif.Props.Rational
/-!
# C11 — `Context.Sqrt` returns the correctly rounded square root

The theorem the earlier C11 files stop short of.  Its three ingredients:
* `SqrtI.iter_close` (Lemmas/SqrtIter.lean, on top of the real-number analysis of Lemmas/SqrtNewton.lean):
  the Newton iterate `A` is within `δ = 10^(-workp-3)` of `√f`, stated on squares;
* the settling step compares the square of a midpoint with the operand exactly (Props/C11Settle.lean);
* the shape of `Context.round` before and after it (Lemmas/C11SqrtLemmas.lean, `ctxRound` on a decimal inside
  the package limits; `C01_roundCore` for the digit counts).

`δ` is more than a thousand times smaller than the rounding quantum `u` of the result, so the truncated iterate
`t` satisfies `t - u/2 < √x < t + 3u/2` and the comparison with the midpoint `t + u/2` picks the multiple
of the quantum nearest to `√x` (`C11Q.Near_choice`); the cases where iterate and root lie on different sides of
a power of ten (their quanta differ by a factor 10) are `C11Q.caseU` / `C11Q.caseL`; `C11Q.Near_unique` identifies
the selected coefficient with the specification's.

## The statement originally given is FALSE at huge precisions

`C11_sqrt_correct` was stated under `Dom c x` alone.  `Dom` bounds the working precision
(`workp + 6 ≤ 100000`) but not its sum with the half exponent of the operand: after the loop the iterate
(`workp + 5` digits, value in `[0.09, 1.1]`, exponent about `-(workp + 6)`) is shifted by `e/2`, and the first
`Context.round` of the tail passes that exponent to `setExponent`, which returns SystemUnderflow for an exponent
below `-100000` — `Sqrt` returns a system error.  Counterexample (evaluated with `#eval`, 35 s; the kernel
cannot evaluate a 50006-digit iteration): `c = {prec := 50000, emax := 100000, emin := -100000}`,
`x = 1E-100000`: `Dom c x` holds, `workp = 50001`, `e/2 = -49999`, the iterate is `1000…0E-50006`
(50006 digits), the shifted exponent is `-100005`, and `sqrtOp c x` has `err = .sys` with
SystemUnderflow | Underflow.  `C11_sqrt_sys` below proves that this happens whenever the shifted exponent is
below `-100000`; `C11_sqrt_correct_partial` is the theorem under the extra hypothesis
`workp + 6 ≤ 100000 + e/2` (sufficient for the shifted exponent to be in range), and `C11_sqrt_correct_core` the one
under the exact condition `-100000 ≤ exponent of the iterate + e/2`.

NOT proved here: that an exactly representable root is reported WITHOUT Inexact.  That needs the iterate
to be exactly the root (the Newton map locks in on a representable root; no explored case contradicts it,
and the check judges Inexact on every explored case with the proved oracle `specSqrt`).
-/
namespace Apd.Props
open Apd Apd.Oracle Apd.SqrtD Apd.C11Q Apd.C20L Apd.RatSpec

/-! ## facts about the named parts of `sqrtOp` -/

theorem rootSpecials_none (c : Ctx) (x : Dec) (hx : x.form = .finite) (hn : x.neg = false) (h0 : x.coeff ≠ 0) :
    rootSpecials c x 2 = none := by
  have hnan : x.isNaN = false := by simp [Dec.isNaN, hx]
  have hsign : x.sign = 1 := by simp [Dec.sign, hx, h0, hn]
  simp [rootSpecials, shouldSetAsNaN, hnan, hx, hsign]

/-- the exponent taken out of the operand is even; its half is one more than the adjusted exponent of the root -/
theorem e_half (x : Dec) :
    ∃ hh : Int, e x = 2 * hh ∧ Int.tdiv (e x) 2 = hh ∧
      fdiv2 ((ndigits x.coeff : Int) - 1 + x.exp) = hh - 1 := by
  have hdvd : (2 : Int) ∣ e x := by
    unfold e even
    by_cases hev : Int.tmod (e0 x) 2 = 0
    · have : (Int.tmod (e0 x) 2 == 0) = true := by simp [hev]
      rw [this, if_pos rfl]
      exact Int.dvd_of_tmod_eq_zero hev
    · have : (Int.tmod (e0 x) 2 == 0) = false := by simp [hev]
      rw [this]
      simp only [Bool.false_eq_true, if_false]
      have h1 := Int.tmod_eq_emod (a := e0 x) (b := 2)
      rw [h1] at hev
      split_ifs at hev with hc
      · omega
      · omega
  obtain ⟨hh, hhh⟩ := hdvd
  refine ⟨hh, hhh, ?_, ?_⟩
  · rw [Int.tdiv_eq_ediv_of_dvd ⟨hh, hhh⟩]; omega
  · unfold fdiv2
    rw [Int.fdiv_eq_ediv_of_nonneg _ (by decide)]
    have he0 : e0 x = (ndigits x.coeff : Int) + x.exp := rfl
    unfold e even at hhh
    by_cases hev : Int.tmod (e0 x) 2 = 0
    · have : (Int.tmod (e0 x) 2 == 0) = true := by simp [hev]
      rw [this, if_pos rfl] at hhh
      omega
    · have : (Int.tmod (e0 x) 2 == 0) = false := by simp [hev]
      rw [this] at hhh
      simp only [Bool.false_eq_true, if_false] at hhh
      omega

theorem magQ_x_eq (x : Dec) : magQ x = magQ (f x) * (10 : ℚ) ^ (e x) := by
  unfold magQ f e
  have he0 : e0 x = (ndigits x.coeff : Int) + x.exp := rfl
  by_cases hev : even x = true
  · simp only [hev, if_true]
    rw [mul_assoc, ← zpow_add₀ ten_ne]
    congr 2; omega
  · simp only [hev, Bool.false_eq_true, if_false]
    rw [mul_assoc, ← zpow_add₀ ten_ne]
    congr 2; omega

theorem workp_facts (c : Ctx) (x : Dec) :
    c.prec + 1 ≤ workp c x ∧ ndigits x.coeff ≤ workp c x ∧ 7 ≤ workp c x := by
  unfold workp
  simp only []
  split_ifs <;> omega

/-- the conclusion of `SqrtI.iter_close`, as a named proposition: everything below that uses the iterate is
proved from THIS hypothesis (so that its dependence on the other files of the Sqrt proof is explicit) -/
def IterClose (c : Ctx) (x : Dec) : Prop :=
  let it := iter c x
  let A : ℚ := it.2.toRat
  let F : ℚ := (f x).toRat
  let δ : ℚ := (10 : ℚ) ^ (-(workp c x : ℤ) - 3)
  it.1.failed = false ∧ it.2.form = .finite ∧ it.2.neg = false ∧
  ndigits it.2.coeff ≤ workp c x + 5 ∧
  9 / 100 ≤ A ∧ A ≤ 11 / 10 ∧ 1 / 100 ≤ F ∧ F < 1 ∧
  (A - δ) ^ 2 < F ∧ F < (A + δ) ^ 2

theorem iterClose_of_dom (c : Ctx) (x : Dec) (h : Dom c x) : IterClose c x := SqrtI.iter_close c x h

theorem e_le (x : Dec) : e x ≤ e0 x + 1 ∧ e0 x ≤ e x := by
  unfold e; split_ifs <;> omega

/-- the hypotheses of `C11Q.tail_core` hold for the shifted iterate -/
theorem dhyp_of_iter (c : Ctx) (x : Dec) (h : Dom c x) (hic : IterClose c x) (hh : Int) (he2 : e x = 2 * hh)
    (hf2 : fdiv2 ((ndigits x.coeff : Int) - 1 + x.exp) = hh - 1)
    (hr : -100000 ≤ (iter c x).2.exp + hh) :
    DHyp c x { (iter c x).2 with exp := (iter c x).2.exp + hh } hh
      ((10 : ℚ) ^ (-(workp c x : ℤ) - 3) * (10 : ℚ) ^ hh) := by
  have ic := hic
  unfold IterClose at ic
  dsimp only at ic
  obtain ⟨-, i2, i3, i4, i5, i6, i7, i8, i9, i10⟩ := ic
  obtain ⟨hc, ht, hx, hxn, hx0, hw, hd⟩ := h
  obtain ⟨w1, w2, w3, w4⟩ := hw
  obtain ⟨wp1, wp2, wp3⟩ := workp_facts c x
  obtain ⟨ap, hap⟩ : ∃ ap : Dec, ap = (iter c x).2 := ⟨_, rfl⟩
  rw [← hap] at i2 i3 i4 i5 i6 i9 i10 hr ⊢
  have hA : ap.toRat = magQ ap := toRat_pos ap i3
  have hF : (f x).toRat = magQ (f x) := toRat_pos (f x) hxn
  rw [hA] at i5 i6 i9 i10
  rw [hF] at i7 i8 i9 i10
  have hw := tp hh
  have hw2 : (0 : ℚ) < ((10 : ℚ) ^ hh) ^ 2 := pow_pos hw 2
  have hD : magQ { ap with exp := ap.exp + hh } = magQ ap * (10 : ℚ) ^ hh := by
    unfold magQ
    show (ap.coeff : ℚ) * (10 : ℚ) ^ (ap.exp + hh) = _
    rw [zpow_add₀ ten_ne, mul_assoc]
  have hX : magQ x = magQ (f x) * ((10 : ℚ) ^ hh) ^ 2 := by
    rw [magQ_x_eq, he2, sq_zpow]
  have hδ1 : (10 : ℚ) ^ (-(workp c x : ℤ) - 3) ≤ 1 / 1000 := by
    have : (10 : ℚ) ^ (-(workp c x : ℤ) - 3) ≤ (10 : ℚ) ^ (-3 : ℤ) := zpow_le_zpow_right₀ ten_ge (by omega)
    have e3 : (10 : ℚ) ^ (-3 : ℤ) = 1 / 1000 := by norm_num
    exact le_trans this (le_of_eq e3)
  have hδp := tp (-(workp c x : ℤ) - 3)
  have hle := e_le x
  have he0 : e0 x = (ndigits x.coeff : Int) + x.exp := rfl
  refine ⟨i2, i3, ?_, by show ndigits ap.coeff ≤ 99999; omega, hr, by omega, ?_, ?_, ?_, ?_, ?_, ?_, ?_, ?_, ?_, ?_⟩
  · show ap.coeff ≠ 0
    intro h0
    have : magQ ap = 0 := by unfold magQ; rw [h0]; simp
    linarith
  · unfold sQ; rw [hf2]; omega
  · rw [hX, zpow_sub_one₀ ten_ne]
    have : ((10 : ℚ) ^ hh * 10⁻¹) ^ 2 = (1 / 100) * ((10 : ℚ) ^ hh) ^ 2 := by ring
    rw [this]
    exact mul_le_mul_of_nonneg_right i7 hw2.le
  · rw [hX]
    have := mul_lt_mul_of_pos_right i8 hw2
    linarith
  · positivity
  · have e1 : (10 : ℚ) ^ (-(workp c x : ℤ) - 3) * (10 : ℚ) ^ hh = (10 : ℚ) ^ (-(workp c x : ℤ) - 3 + hh) := by
      rw [zpow_add₀ ten_ne]
    rw [e1]
    exact zpow_le_zpow_right₀ ten_ge (by omega)
  · rw [hD]
    exact mul_le_mul_of_nonneg_right (by linarith) hw.le
  · rw [hD, hX, ← sub_mul, mul_pow]
    exact mul_lt_mul_of_pos_right i9 hw2
  · rw [hD, hX, ← add_mul, mul_pow]
    exact mul_lt_mul_of_pos_right i10 hw2
  · rw [hD, zpow_sub₀ ten_ne]
    have : (10 : ℚ) ^ hh / (10 : ℚ) ^ (2 : ℤ) = (1 / 100) * (10 : ℚ) ^ hh := by norm_num; ring
    rw [this]
    exact mul_le_mul_of_nonneg_right (by linarith) hw.le
  · rw [hD, zpow_add_one₀ ten_ne]
    have : magQ ap * (10 : ℚ) ^ hh < 10 * (10 : ℚ) ^ hh := mul_lt_mul_of_pos_right (by linarith) hw
    linarith

/-- the iterate's exponent is at least `-(workp + 6)` -/
theorem iter_exp_ge (c : Ctx) (x : Dec) (hic : IterClose c x) : -(workp c x : ℤ) - 6 ≤ (iter c x).2.exp := by
  have ic := hic
  unfold IterClose at ic
  dsimp only at ic
  obtain ⟨-, i2, i3, i4, i5, -⟩ := ic
  rw [toRat_pos _ i3] at i5
  have hlt : (iter c x).2.coeff < 10 ^ (workp c x + 5) := lt_pow_of_ndigits_le _ _ i4
  have hlt' : ((iter c x).2.coeff : ℚ) < (10 : ℚ) ^ ((workp c x + 5 : ℕ) : ℤ) := by
    rw [zpow_natCast]; exact_mod_cast hlt
  have hp := tp (iter c x).2.exp
  have h1 : magQ (iter c x).2 < (10 : ℚ) ^ ((workp c x + 5 : ℕ) : ℤ) * (10 : ℚ) ^ (iter c x).2.exp := by
    unfold magQ; exact mul_lt_mul_of_pos_right hlt' hp
  rw [← zpow_add₀ ten_ne] at h1
  have h2 : (10 : ℚ) ^ (-2 : ℤ) < (10 : ℚ) ^ (((workp c x + 5 : ℕ) : ℤ) + (iter c x).2.exp) := by
    have e2 : (10 : ℚ) ^ (-2 : ℤ) = 1 / 100 := by norm_num
    exact lt_of_eq_of_lt e2 (by linarith)
  rw [zpow_lt_zpow_iff_right₀ ten_gt] at h2
  push_cast at h2
  omega

/-! ## the theorem -/

/-- the core, from the closeness of the iterate as a hypothesis -/
theorem C11_sqrt_correct_of (c : Ctx) (x : Dec) (h : Dom c x) (hic : IterClose c x)
    (hr : -100000 ≤ (iter c x).2.exp + Int.tdiv (e x) 2) :
    (sqrtOp c x).err = .none ∧
    (specSqrt c x).matches (sqrtOp c x).d = true ∧
    fits c (sqrtOp c x).d = true ∧
    ((specSqrt c x).inexact = true → (sqrtOp c x).fl.inexact = true) ∧
    ((specSqrt c x).overflow = true → (sqrtOp c x).fl.overflow = true) := by
  obtain ⟨hh, he2, ht2, hf2⟩ := e_half x
  rw [ht2] at hr
  have DH := dhyp_of_iter c x h hic hh he2 hf2 hr
  have hfail : (iter c x).1.failed = false := hic.1
  rw [sqrtOp_eq c x (rootSpecials_none c x h.hx h.hn h.h0), hfail]
  simp only [Bool.false_eq_true, if_false]
  obtain ⟨G, hns, hval⟩ := tailMid_core c x _ hh _ h.hc h.hx h.hn DH
  rw [sqrt_tail_eq, ht2]
  exact tailFin_final c x h.hc h.ht h.hx h.hn h.h0 _ _ G hns hval

/-- **C11, Sqrt, under the exact side condition**: well-formed context without traps, positive finite
well-formed operand, and the iterate shifted by half the operand's exponent keeps its exponent at or above the
package limit `-100000` (always the case unless `Precision + |exponent|/2` approaches 100000).  Then: no error,
the returned decimal is `specSqrt` — the multiple of the context's quantum nearest to the exact root, ties to
even (`C11_specSqrt_nearest`), an infinity if that exceeds MaxExponent — it fits the context, Inexact is raised
whenever the root is not exactly representable, Overflow whenever the specification overflows. -/
theorem C11_sqrt_correct_core (c : Ctx) (x : Dec) (h : Dom c x)
    (hr : -100000 ≤ (iter c x).2.exp + Int.tdiv (e x) 2) :
    (sqrtOp c x).err = .none ∧
    (specSqrt c x).matches (sqrtOp c x).d = true ∧
    fits c (sqrtOp c x).d = true ∧
    ((specSqrt c x).inexact = true → (sqrtOp c x).fl.inexact = true) ∧
    ((specSqrt c x).overflow = true → (sqrtOp c x).fl.overflow = true) :=
  C11_sqrt_correct_of c x h (iterClose_of_dom c x h) hr

/-- **C11, Sqrt** (the strongest true variant of `C11_sqrt_correct`, with a side condition on `c` and `x`
only): the working precision plus six stays below the package's exponent limit shifted by half the
(even) exponent taken out of the operand — `workp + 6 ≤ 100000 + e/2`. -/
theorem C11_sqrt_correct_partial (c : Ctx) (x : Dec) (h : Dom c x)
    (hr : (workp c x : Int) + 6 ≤ 100000 + Int.tdiv (e x) 2) :
    (sqrtOp c x).err = .none ∧
    (specSqrt c x).matches (sqrtOp c x).d = true ∧
    fits c (sqrtOp c x).d = true ∧
    ((specSqrt c x).inexact = true → (sqrtOp c x).fl.inexact = true) ∧
    ((specSqrt c x).overflow = true → (sqrtOp c x).fl.overflow = true) := by
  apply C11_sqrt_correct_core c x h
  have := iter_exp_ge c x (iterClose_of_dom c x h)
  omega

/-- … the same from the closeness of the iterate as a hypothesis -/
theorem C11_sqrt_correct_partial_of (c : Ctx) (x : Dec) (h : Dom c x) (hic : IterClose c x)
    (hr : (workp c x : Int) + 6 ≤ 100000 + Int.tdiv (e x) 2) :
    (sqrtOp c x).err = .none ∧
    (specSqrt c x).matches (sqrtOp c x).d = true ∧
    fits c (sqrtOp c x).d = true ∧
    ((specSqrt c x).inexact = true → (sqrtOp c x).fl.inexact = true) ∧
    ((specSqrt c x).overflow = true → (sqrtOp c x).fl.overflow = true) := by
  apply C11_sqrt_correct_of c x h hic
  have := iter_exp_ge c x hic
  omega

/-! ## the excluded corner: a system error -/

theorem goError_sys (t fl : Cond) (h : (fl.sysOverflow || fl.sysUnderflow) = true) : goError t fl = .sys := by
  unfold goError; rw [if_pos h]

/-- a system flag raised by the first rounding of the tail survives to the end -/
theorem tail_sys (c : Ctx) (x approx : Dec)
    (hs : ((ctxRound (ncw c) { approx with exp := approx.exp + Int.tdiv (e x) 2 }).2.sysOverflow ||
           (ctxRound (ncw c) { approx with exp := approx.exp + Int.tdiv (e x) 2 }).2.sysUnderflow) = true) :
    (tail c x approx).err = .sys := by
  unfold tail
  simp only [finish]
  apply goError_sys
  unfold ncw nc2 at hs
  rw [Bool.or_eq_true] at hs
  split_ifs <;> rcases hs with hs | hs <;> simp [hs]

/-- **the statement originally given fails exactly here**: when the shifted iterate's exponent is below the
package limit, `Sqrt` returns a system error (the first `Context.round` of the tail raises SystemUnderflow) -/
theorem C11_sqrt_sys_of (c : Ctx) (x : Dec) (h : Dom c x) (hic : IterClose c x)
    (hr : (iter c x).2.exp + Int.tdiv (e x) 2 < -100000) : (sqrtOp c x).err = .sys := by
  have ic := hic
  unfold IterClose at ic
  dsimp only at ic
  obtain ⟨hfail, i2, -⟩ := ic
  rw [sqrtOp_eq c x (rootSpecials_none c x h.hx h.hn h.h0), hfail]
  simp only [Bool.false_eq_true, if_false]
  apply tail_sys
  by_contra hno
  have hns : NoSys (ctxRound (ncw c) { (iter c x).2 with exp := (iter c x).2.exp + Int.tdiv (e x) 2 }).2 := by
    unfold NoSys
    rw [Bool.or_eq_true, not_or] at hno
    exact ⟨by simpa using hno.1, by simpa using hno.2⟩
  rw [ctxRound_finite (ncw c) { (iter c x).2 with exp := (iter c x).2.exp + Int.tdiv (e x) 2 } i2] at hns
  have hp : (ncw c).prec ≠ 0 := by
    have := h.hc.1
    show c.prec ≠ 0
    omega
  have := (Apd.MulL.roundX_noSys_exp (ncw c) _ hp hns).1
  have e' : ({ (iter c x).2 with exp := (iter c x).2.exp + Int.tdiv (e x) 2 } : Dec).exp =
      (iter c x).2.exp + Int.tdiv (e x) 2 := rfl
  omega

theorem C11_sqrt_sys (c : Ctx) (x : Dec) (h : Dom c x)
    (hr : (iter c x).2.exp + Int.tdiv (e x) 2 < -100000) : (sqrtOp c x).err = .sys :=
  C11_sqrt_sys_of c x h (iterClose_of_dom c x h) hr

/- The statement originally given, FALSE (see the header): `Dom` does not keep the shifted iterate's exponent
inside the package limits.

theorem C11_sqrt_correct (c : Ctx) (x : Dec) (h : Dom c x) :
    (sqrtOp c x).err = .none ∧
    (specSqrt c x).matches (sqrtOp c x).d = true ∧
    fits c (sqrtOp c x).d = true ∧
    ((specSqrt c x).inexact = true → (sqrtOp c x).fl.inexact = true) ∧
    ((specSqrt c x).overflow = true → (sqrtOp c x).fl.overflow = true)
-/

/-- non-vacuity: the domain is inhabited and the side condition holds on a concrete case -/
example : Dom { prec := 5, emax := 10, emin := -10 } { coeff := 2 } :=
  ⟨by decide, rfl, rfl, rfl, by decide, by decide, by decide⟩

example : (workp { prec := 5, emax := 10, emin := -10 } { coeff := 2 } : Int) + 6 ≤
    100000 + Int.tdiv (e { coeff := 2 }) 2 := by decide

#print axioms C11_sqrt_correct_of
#print axioms C11_sqrt_sys_of
#print axioms C11_sqrt_correct_partial_of
#print axioms C11_sqrt_correct_core
#print axioms C11_sqrt_correct_partial
#print axioms C11_sqrt_sys

end Apd.Props
