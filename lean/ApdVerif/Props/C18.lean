import ApdVerif.Props.C06
/-!
# C18 — concurrent use

`C18_interleave` is the generic interleaving theorem of `Imp/Prog.lean`: threads whose write sets are disjoint from
the other threads' read and write sets see, under EVERY schedule of their primitive field accesses, a prefix of
their solo run.  `C18_ctxops` instantiates it with the footprints `R = {x, y}`, `W = {d}` of the `Context`
methods (`C06_foot_*`, `Foot_runCtxOp`): any family of operations whose destinations are pairwise distinct and
distinct from every OTHER thread's operands (a thread's own operands may alias its destination) computes, per
thread, exactly what the solo runs compute — hence (`C18_ctxops_model`) what the value-level model says about the
operands' initial values.
-/
namespace Apd.Props
open Apd Apd.Cond Apd.Imp Apd.Imp.Prog

/-- the generic theorem: with pairwise non-interfering footprints every schedule preserves the invariant
"each thread's program and its view of the heap are a prefix of its solo run" -/
theorem C18_interleave {α : Type} (R W : Nat → Cell → Prop) (ps0 : Nat → Prog α) (h0 : Heap)
    (hfoot : ∀ i, Foot (R i) (W i) (ps0 i))
    (hdisj : ∀ i j, i ≠ j → ∀ c, W j c → ¬ (R i c ∨ W i c)) (s : List Nat) :
    Inv R W ps0 h0 (runSched s ps0 h0).1 (runSched s ps0 h0).2 :=
  interleave_inv R W ps0 h0 hdisj s ps0 h0 (Inv.init R W ps0 h0 hfoot)

/-- under the invariant, a thread that has terminated returned its solo result, and the cells of its footprint
hold what the solo run left there -/
theorem inv_finished {α : Type} {R W : Nat → Cell → Prop} {ps0 ps : Nat → Prog α} {h0 h : Heap}
    (hinv : Inv R W ps0 h0 ps h) {i : Nat} {a : α} (hret : ps i = .ret a) :
    a = (run (ps0 i) h0).1 ∧ ∀ c, R i c ∨ W i c → h c = (run (ps0 i) h0).2 c := by
  obtain ⟨k, hk1, hk2, _⟩ := hinv i
  have := solo_ret (hk1.symm.trans hret)
  rw [this]
  exact ⟨rfl, hk2⟩

/-- one call of a `Context` method: op name (as in `Imp.runCtxOp`), context, the three pointer arguments, the
integer argument -/
structure CtxCall where
  op : String
  c : Ctx
  d : Cell
  x : Cell
  y : Cell
  iarg : Int

/-- read set of a thread (`none` = idle thread) -/
def callR : Option CtxCall → Cell → Prop
  | some k => footR k.x k.y
  | none => fun _ => False
/-- write set of a thread -/
def callW : Option CtxCall → Cell → Prop
  | some k => footW k.d
  | none => fun _ => False

/-- `ps0` are the programs of the calls (idle threads are `ret`) -/
def Launches (calls : Nat → Option CtxCall) (ps0 : Nat → Prog Res) : Prop :=
  ∀ i, match calls i with
    | some k => runCtxOp k.op k.c k.d k.x k.y k.iarg = some (ps0 i)
    | none => ps0 i = .ret ({}, .none, 0)

/-- destinations pairwise distinct and distinct from every other thread's operands -/
def Separated (calls : Nat → Option CtxCall) : Prop :=
  ∀ i j ki kj, i ≠ j → calls i = some ki → calls j = some kj → kj.d ≠ ki.d ∧ kj.d ≠ ki.x ∧ kj.d ≠ ki.y

theorem launches_foot {calls : Nat → Option CtxCall} {ps0 : Nat → Prog Res} (hl : Launches calls ps0) (i : Nat) :
    Foot (callR (calls i)) (callW (calls i)) (ps0 i) := by
  have := hl i
  cases hc : calls i with
  | none => rw [hc] at this; simp only [] at this; rw [this]; exact Foot.ret _
  | some k => rw [hc] at this; exact Foot_runCtxOp this

theorem separated_disj {calls : Nat → Option CtxCall} (hs : Separated calls) :
    ∀ i j, i ≠ j → ∀ c, callW (calls j) c → ¬ (callR (calls i) c ∨ callW (calls i) c) := by
  intro i j hij c hw hrw
  cases hj : calls j with
  | none => rw [hj] at hw; exact hw
  | some kj =>
    rw [hj] at hw
    cases hi : calls i with
    | none => rw [hi] at hrw; exact hrw.elim id id
    | some ki =>
      rw [hi] at hrw
      obtain ⟨h1, h2, h3⟩ := hs i j ki kj hij hi hj
      have hc : c = kj.d := hw
      subst hc
      rcases hrw with (hx | hy) | hd
      · exact h2 hx
      · exact h3 hy
      · exact h1 hd

/-- C18 for `Context` methods: under every schedule, every thread is at a prefix of its solo run; a thread that
has finished returned exactly the result triple of its solo run and its destination cell holds the solo result. -/
theorem C18_ctxops (calls : Nat → Option CtxCall) (ps0 : Nat → Prog Res) (hl : Launches calls ps0)
    (hsep : Separated calls) (h0 : Heap) (s : List Nat) :
    Inv (fun i => callR (calls i)) (fun i => callW (calls i)) ps0 h0 (runSched s ps0 h0).1 (runSched s ps0 h0).2 ∧
    ∀ i k a, calls i = some k → (runSched s ps0 h0).1 i = .ret a →
      a = (run (ps0 i) h0).1 ∧ (runSched s ps0 h0).2 k.d = (run (ps0 i) h0).2 k.d := by
  have hinv := C18_interleave (fun i => callR (calls i)) (fun i => callW (calls i)) ps0 h0
    (launches_foot hl) (separated_disj hsep) s
  refine ⟨hinv, fun i k a hk hret => ?_⟩
  obtain ⟨h1, h2⟩ := inv_finished hinv hret
  refine ⟨h1, h2 k.d (Or.inr ?_)⟩
  rw [hk]; exact (rfl : footW k.d k.d)

/-- … and therefore what the value-level model computes from the operands' INITIAL values (C05 on the solo run) -/
theorem C18_ctxops_model (calls : Nat → Option CtxCall) (ps0 : Nat → Prog Res) (hl : Launches calls ps0)
    (hsep : Separated calls) (h0 : Heap) (s : List Nat) (i : Nat) (k : CtxCall) (a : Res)
    (hk : calls i = some k) (hret : (runSched s ps0 h0).1 i = .ret a) :
    ∃ m, modelCtxOp k.op k.c (h0 k.x) (h0 k.y) k.iarg = some m ∧ a.2.1 = m.err ∧
      (Delivered a.2.1 → a.1 = m.fl ∧ (runSched s ps0 h0).2 k.d = m.d ∧ a.2.2 = m.aux) := by
  obtain ⟨h1, h2⟩ := (C18_ctxops calls ps0 hl hsep h0 s).2 i k a hk hret
  have hp := hl i
  rw [hk] at hp
  obtain ⟨m, hm, e1, e2, _⟩ := C05_ctxOp hp h0
  refine ⟨m, hm, ?_, ?_⟩
  · rw [h1]; exact e1
  · intro hd
    rw [h1] at hd ⊢
    obtain ⟨f1, f2, f3⟩ := e2 hd
    exact ⟨f1, by rw [h2]; exact f2, f3⟩

end Apd.Props

#print axioms Apd.Props.C18_interleave
#print axioms Apd.Props.C18_ctxops
#print axioms Apd.Props.C18_ctxops_model
