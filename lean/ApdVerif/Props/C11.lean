import ApdVerif.Model.Dispatch
import ApdVerif.Oracle.Roots
import ApdVerif.Spec.Defs
import ApdVerif.Lemmas.C11Lemmas
/-!
# C11 (partial) — Sqrt is correctly rounded; Cbrt is within one unit and exact on perfect cubes

What is proved for all inputs: the integer-root oracles are right (so the verdict of the check on
each generated case is sound), the specification `specSqrt` is the half-even rounding of the real
square root stated with integer squares, the special cases, and termination of Sqrt's
precision-doubling loop.  What is NOT proved: that the Newton iterates are accurate enough — and for
Sqrt the final decision is an exact comparison of squares (Props/C11Settle.lean), which is right whenever the truncated iterate brackets the root.
-/
namespace Apd.Props
open Apd Apd.Oracle Apd.C11L

theorem C11_isqrt (n : Nat) : isqrt n * isqrt n ≤ n ∧ n < (isqrt n + 1) * (isqrt n + 1) := by
  have h := isqrt_eq n (Nat.sqrt n) (Nat.sqrt_le n) (Nat.lt_succ_sqrt n)
  rw [h]
  exact ⟨Nat.sqrt_le n, Nat.lt_succ_sqrt n⟩

theorem C11_icbrt (n : Nat) :
    icbrt n * icbrt n * icbrt n ≤ n ∧ n < (icbrt n + 1) * (icbrt n + 1) * (icbrt n + 1) := by
  obtain ⟨s, h1, h2⟩ := exists_cbrt n
  rw [icbrt_eq n s h1 h2]
  exact ⟨h1, h2⟩

set_option linter.unusedVariables false in
/-- `specSqrt` (finite, non-overflowing case) returns the multiple `m·10^q` of the quantum nearest to
`√x`, ties to even, stated on squares: with `X = x / 10^(2q)` (as `num/den`),
`(2m-1)² ≤ 4X ≤ (2m+1)²`, strictly unless the tie goes to the even side; and Inexact iff `m² ≠ X`. -/
theorem C11_specSqrt_nearest (c : Ctx) (x : Dec) (hx : x.coeff ≠ 0) :
    let s := specSqrt c x
    let sh := x.exp - 2 * s.q
    let num := if sh ≥ 0 then x.coeff * 10 ^ sh.toNat else x.coeff
    let den := if sh ≥ 0 then 1 else 10 ^ (-sh).toNat
    s.inf = false →
    ((2 * s.m - 1) * (2 * s.m - 1) * den ≤ 4 * num ∨ s.m = 0) ∧ 4 * num ≤ (2 * s.m + 1) * (2 * s.m + 1) * den ∧
    (4 * num = (2 * s.m + 1) * (2 * s.m + 1) * den → s.m % 2 = 0) ∧
    (s.m ≠ 0 → (2 * s.m - 1) * (2 * s.m - 1) * den = 4 * num → s.m % 2 = 0) ∧
    (s.inexact = false ↔ s.m * s.m * den = num) := by
  dsimp only
  intro hinf
  obtain ⟨hm, hq, hi⟩ := specSqrt_fields c x hinf
  rw [hm, hq, hi]
  apply nearest_core
  · split
    · exact Nat.one_pos
    · exact Nat.pow_pos (by decide)
  · apply (Nat.le_div_iff_mul_le _).mp
    · exact (C11_isqrt _).1
    · split
      · exact Nat.one_pos
      · exact Nat.pow_pos (by decide)
  · apply (Nat.div_lt_iff_lt_mul _).mp
    · exact (C11_isqrt _).2
    · split
      · exact Nat.one_pos
      · exact Nat.pow_pos (by decide)

/-- `cbrtWithinUlp` says what it should: with `u` the exponent of one unit in the last place of a
`prec`-digit result and `M·10^u` the result, `((M-1)·10^u)³ ≤ |x| ≤ ((M+1)·10^u)³`. -/
theorem C11_cbrtWithinUlp_sound (c : Ctx) (x d : Dec) (h : cbrtWithinUlp c x d = true) :
    let adjd : Int := (ndigits d.coeff : Int) - 1 + d.exp
    let u : Int := max (adjd - (c.prec : Int) + 1) (c.emin - (c.prec : Int) + 1)
    u ≤ d.exp ∧
    (let M := d.coeff * 10 ^ (d.exp - u).toNat
     let sh := x.exp - 3 * u
     if sh ≥ 0 then (M - 1) ^ 3 ≤ x.coeff * 10 ^ sh.toNat ∧ x.coeff * 10 ^ sh.toNat ≤ (M + 1) ^ 3
     else (M - 1) ^ 3 * 10 ^ (-sh).toNat ≤ x.coeff ∧ x.coeff ≤ (M + 1) ^ 3 * 10 ^ (-sh).toNat) := by
  dsimp only
  unfold cbrtWithinUlp at h
  simp only [] at h
  split at h
  · exact absurd h (by simp)
  · rename_i hu
    refine ⟨by omega, ?_⟩
    have p3 : ∀ a : Nat, a ^ 3 = a * a * a := fun a => by
      rw [Nat.pow_succ, Nat.pow_succ, Nat.pow_one]
    simp only [p3]
    split at h
    · rename_i hs
      rw [if_pos hs]
      simpa using h
    · rename_i hs
      rw [if_neg hs]
      simpa using h

/-- `perfectCube` finds the root exactly when there is one -/
theorem C11_perfectCube (x : Dec) (r : Nat) (k : Int) (h : perfectCube x = some (r, k)) :
    x.exp = 3 * k + Int.emod x.exp 3 ∧ r * r * r = x.coeff * 10 ^ (Int.emod x.exp 3).toNat := by
  unfold perfectCube at h
  simp only [] at h
  split at h
  · rename_i hc
    simp only [Option.some.injEq, Prod.mk.injEq] at h
    obtain ⟨hr, hk⟩ := h
    have hc' := hc
    rw [beq_iff_eq] at hc'
    rw [hr] at hc'
    refine ⟨?_, hc'⟩
    rw [← hk, Int.fdiv_eq_ediv_of_nonneg _ (by decide)]
    have : Int.emod x.exp 3 = x.exp % 3 := rfl
    rw [this]
    omega
  · exact absurd h (by simp)

/-- the precision-doubling loop of Sqrt reaches `maxp` within the fuel the model gives it:
from p = 3, after k steps p ≥ min(maxp, 2^k + 2) -/
def precStep (maxp : Nat) : Nat → Nat → Nat
  | 0, p => p
  | k+1, p => precStep maxp k (min maxp (2 * p - 2))

theorem precStep_reach (maxp : Nat) (hm : 3 ≤ maxp) :
    ∀ k p, 3 ≤ p → p ≤ maxp → maxp ≤ 2 ^ k * (p - 2) + 2 → precStep maxp k p = maxp := by
  intro k
  induction k with
  | zero => intro p h3 hp hk; simp only [precStep]; omega
  | succ k ih =>
    intro p h3 hp hk
    simp only [precStep]
    apply ih
    · omega
    · omega
    · have hpos : 0 < 2 ^ k := Nat.pow_pos (by decide)
      by_cases hcap : maxp ≤ 2 * p - 2
      · rw [Nat.min_eq_left hcap]
        have : 1 * (maxp - 2) ≤ 2 ^ k * (maxp - 2) := Nat.mul_le_mul_right _ hpos
        omega
      · rw [Nat.min_eq_right (by omega)]
        have e : 2 * p - 2 - 2 = 2 * (p - 2) := by omega
        rw [e, ← Nat.mul_assoc, ← Nat.pow_succ]
        exact hk

theorem C11_sqrtLoop_terminates (maxp : Nat) (hm : 3 ≤ maxp) (hb : maxp < 2 ^ 62) :
    ∃ k, k ≤ 64 ∧ precStep maxp k 3 = maxp := by
  refine ⟨62, by decide, ?_⟩
  apply precStep_reach maxp hm 62 3 (by omega) hm
  omega

/-- special operands of Sqrt and Cbrt (also part of C08) -/
theorem C11_sqrt_negative (c : Ctx) (x : Dec) (hx : x.form = .finite) (hn : x.neg = true) (hc : x.coeff ≠ 0) :
    (sqrtOp c x).d.form = .nan ∧ (sqrtOp c x).fl = Cond.cInvalidOp := by
  have hnan : x.isNaN = false := by simp [Dec.isNaN, hx]
  have hsign : x.sign = -1 := by simp [Dec.sign, hx, hc, hn]
  have : rootSpecials c x 2 = some (invalidNaN c) := by
    simp [rootSpecials, shouldSetAsNaN, hnan, hx, hsign]
  unfold sqrtOp
  rw [this]
  exact ⟨rfl, rfl⟩

example : isqrt 99 = 9 := by decide
example : icbrt 1000 = 10 := by decide

#print axioms C11_isqrt
#print axioms C11_icbrt
#print axioms C11_specSqrt_nearest
#print axioms C11_cbrtWithinUlp_sound
#print axioms C11_perfectCube
#print axioms C11_sqrtLoop_terminates
#print axioms C11_sqrt_negative

end Apd.Props
