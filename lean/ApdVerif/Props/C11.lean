import ApdVerif.Model.Dispatch
import ApdVerif.Oracle.Roots
import ApdVerif.Spec.Defs
/-!
# C11 (partial) — Sqrt is correctly rounded; Cbrt is within one unit and exact on perfect cubes

What is proved for all inputs: the integer-root oracles are right (so the verdict of the check on
each generated case is sound), the specification `specSqrt` is the half-even rounding of the real
square root stated with integer squares, the special cases, and termination of Sqrt's
precision-doubling loop.  What is NOT proved: that the Newton iterates are accurate enough — and for
Sqrt that is false on the current tree (double rounding, DESIGN finding F2).
-/
namespace Apd.Props
open Apd Apd.Oracle

theorem C11_isqrt (n : Nat) : isqrt n * isqrt n ≤ n ∧ n < (isqrt n + 1) * (isqrt n + 1) := by
  sorry

theorem C11_icbrt (n : Nat) :
    icbrt n * icbrt n * icbrt n ≤ n ∧ n < (icbrt n + 1) * (icbrt n + 1) * (icbrt n + 1) := by
  sorry

/-- `specSqrt` (finite, non-overflowing case) returns the multiple `m·10^q` of the quantum nearest to
`√x`, ties to even, stated on squares: with `X = x / 10^(2q)` (as `num/den`),
`(2m-1)² ≤ 4X ≤ (2m+1)²`, strictly unless the tie goes to the even side; and Inexact iff `m² ≠ X`. -/
theorem C11_specSqrt_nearest (c : Ctx) (x : Dec) (hx : x.coeff ≠ 0) :
    let s := specSqrt c x
    let sh := x.exp - 2 * s.q
    let num := if sh ≥ 0 then x.coeff * 10 ^ sh.toNat else x.coeff
    let den := if sh ≥ 0 then 1 else 10 ^ (-sh).toNat
    s.inf = false →
    ((2 * s.m - 1) * (2 * s.m - 1) * den ≤ 4 * num ∨ s.m = 0) ∧ 4 * num ≤ (2 * s.m + 1) * (2 * s.m + 1) * den ∧
    (4 * num = (2 * s.m + 1) * (2 * s.m + 1) * den → s.m % 2 = 0) ∧
    (s.m ≠ 0 → (2 * s.m - 1) * (2 * s.m - 1) * den = 4 * num → s.m % 2 = 0) ∧
    (s.inexact = false ↔ s.m * s.m * den = num) := by
  sorry

/-- `cbrtWithinUlp` says what it should: with `u` the exponent of one unit in the last place of a
`prec`-digit result and `M·10^u` the result, `((M-1)·10^u)³ ≤ |x| ≤ ((M+1)·10^u)³`. -/
theorem C11_cbrtWithinUlp_sound (c : Ctx) (x d : Dec) (h : cbrtWithinUlp c x d = true) :
    let adjd : Int := (ndigits d.coeff : Int) - 1 + d.exp
    let u : Int := max (adjd - (c.prec : Int) + 1) (c.emin - (c.prec : Int) + 1)
    u ≤ d.exp ∧
    (let M := d.coeff * 10 ^ (d.exp - u).toNat
     let sh := x.exp - 3 * u
     if sh ≥ 0 then (M - 1) ^ 3 ≤ x.coeff * 10 ^ sh.toNat ∧ x.coeff * 10 ^ sh.toNat ≤ (M + 1) ^ 3
     else (M - 1) ^ 3 * 10 ^ (-sh).toNat ≤ x.coeff ∧ x.coeff ≤ (M + 1) ^ 3 * 10 ^ (-sh).toNat) := by
  sorry

/-- `perfectCube` finds the root exactly when there is one -/
theorem C11_perfectCube (x : Dec) (r : Nat) (k : Int) (h : perfectCube x = some (r, k)) :
    x.exp = 3 * k + Int.emod x.exp 3 ∧ r * r * r = x.coeff * 10 ^ (Int.emod x.exp 3).toNat := by
  sorry

/-- the precision-doubling loop of Sqrt reaches `maxp` within the fuel the model gives it:
from p = 3, after k steps p ≥ min(maxp, 2^k + 2) -/
def precStep (maxp : Nat) : Nat → Nat → Nat
  | 0, p => p
  | k+1, p => precStep maxp k (min maxp (2 * p - 2))

theorem C11_sqrtLoop_terminates (maxp : Nat) (hm : 3 ≤ maxp) (hb : maxp < 2 ^ 62) :
    ∃ k, k ≤ 64 ∧ precStep maxp k 3 = maxp := by
  sorry

/-- special operands of Sqrt and Cbrt (also part of C08) -/
theorem C11_sqrt_negative (c : Ctx) (x : Dec) (hx : x.form = .finite) (hn : x.neg = true) (hc : x.coeff ≠ 0) :
    (sqrtOp c x).d.form = .nan ∧ (sqrtOp c x).fl = Cond.cInvalidOp := by
  sorry

example : isqrt 99 = 9 := by decide
example : icbrt 1000 = 10 := by decide

end Apd.Props
