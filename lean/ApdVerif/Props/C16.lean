import ApdVerif.Lemmas.C16Lemmas
import Mathlib.Data.Nat.Size
import Mathlib.Data.Int.Bitwise
/-!
# C16 — `apd.BigInt` behaves exactly like `math/big.Int`

Model: `ApdVerif/Model/BigInt.lean` (`Rep`, `Rep.abs`, `Rep.Canon`, one function per Go method).
Reference semantics: Lean's `Int` (`+ - *`, truncated `Int.tdiv`/`Int.tmod` = Go's `Quo`/`Rem`, `Int.sign`,
order, two's-complement bit, bit length of `|v|`).

Every theorem has the shape "for canonical operands, the abstract value of the new receiver is the `Int`
operation applied to the abstract values of the operands, and the new receiver is canonical" (mutators),
or "the returned bool/int equals the `Int` predicate/function of the abstract value" (observers).

* Operands unchanged: the model is functional — each method *returns* the new receiver and has no
  access to the operands' storage, so `x`, `y` are unchanged by construction (receiver = operand aliasing
  is the call `Add z z y`: operands are read — `innerAsUint64`/`inner` — before the receiver is replaced).
* All big-path theorems are stated for an arbitrary `ra : Bool` (whether math/big re-allocated although
  the result would have fit in the inline array), `ra = false` being the default rule of the model.
-/
namespace Apd.Props
open Apd Apd.BigInt

/-! ## `inner` / `updateInner` : the lemma covering the ~40 plain wrappers
`z.updateInner(zi.Op(x.inner(), y.inner(), ...))` -/

/-- `inner` returns the abstract value -/
theorem C16_inner (z : Rep) : inner z = z.abs := inner_eq_abs z

/-- `updateInner`: the value handed over is stored exactly, the canonical form is restored, and the
representation is chosen as described (heap stays heap; inline moves to heap iff the value is non-zero and
math/big re-allocated — necessarily so when `|v| ≥ 2^128`; otherwise inline with the sign of `v`). -/
theorem C16_updateInner (ra : Bool) (z : Rep) (v : Int) (hz : z.Canon) :
    (updateInnerWith ra z v).abs = v ∧ (updateInnerWith ra z v).Canon ∧
    (updateInnerWith ra z v).tag =
      (if z.tag = .heap ∨ (v ≠ 0 ∧ (ra = true ∨ 2 ^ 128 ≤ v.natAbs)) then .heap
       else if v < 0 then .inlineNeg else .inlinePos) :=
  ⟨updateInnerWith_abs ra z v, updateInnerWith_canon ra z v hz, updateInnerWith_tag ra z v⟩

/-- the rule of the task statement (`ra = false`): heap exactly when already heap or `|v| ≥ 2^128` -/
theorem C16_updateInner_rule (z : Rep) (v : Int) (hz : z.Canon) :
    (updateInner z v).abs = v ∧ (updateInner z v).Canon ∧
    ((updateInner z v).tag = .heap ↔ (z.tag = .heap ∨ 2 ^ 128 ≤ v.natAbs)) := by
  refine ⟨updateInnerWith_abs _ z v, updateInnerWith_canon _ z v hz, ?_⟩
  unfold updateInner
  rw [updateInnerWith_tag]
  have h0 : v = 0 → ¬ (2 ^ 128 ≤ v.natAbs) := by intro h; subst h; norm_num
  by_cases h1 : z.tag = .heap
  · simp [h1]
  · by_cases h2 : 2 ^ 128 ≤ v.natAbs
    · have : v ≠ 0 := fun h => h0 h h2
      simp [-Nat.reducePow, h1, h2, this]
    · simp only [h1, h2, Bool.false_eq_true, or_self, and_false, if_false]
      split_ifs <;> simp

/-- a generic unary/binary wrapper `z.Op(x, y) = z.updateInner(big.Op(x.inner, y.inner))` computes
`op` on the abstract values and re-establishes `Canon`; this is all the remaining wrapper methods do
(And, AndNot, Binomial, Div, DivMod, Exp, GCD, Lsh, Mod, ModInverse, ModSqrt, MulRange, Not, Or, Rand,
Rsh, SetBit, SetBits, SetBytes, SetString, Sqrt, Xor, SetMathBigInt, GobDecode, Scan, Unmarshal*, …);
the read-only ones (Bits, Bytes, String, Text, Format, ProbablyPrime, TrailingZeroBits, MathBigInt, …)
are `big.Op(z.inner())`, i.e. `op z.abs` by `C16_inner`. -/
theorem C16_wrapper (op : Int → Int → Int) (ra : Bool) (z x y : Rep) (hz : z.Canon) :
    (updateInnerWith ra z (op (inner x) (inner y))).abs = op x.abs y.abs ∧
    (updateInnerWith ra z (op (inner x) (inner y))).Canon := by
  rw [inner_eq_abs, inner_eq_abs]
  exact ⟨updateInnerWith_abs _ _ _, updateInnerWith_canon _ _ _ hz⟩

/-- once the receiver is a real `*big.Int`, the big path keeps it there -/
theorem C16_heap_sticky (ra : Bool) (z : Rep) (v : Int) (h : z.tag = .heap) :
    (updateInnerWith ra z v).tag = .heap := by
  rw [updateInnerWith_tag]; simp [h]

/-- the uint64 fast path always leaves the receiver inline, canonical, with the signed value -/
theorem C16_updateInnerFromUint64 (z : Rep) (v : Nat) (n : Bool) (hv : v < 2 ^ 64) :
    (updateInnerFromUint64 z v n).abs = (if n then -(v : Int) else v) ∧
    (updateInnerFromUint64 z v n).Canon ∧ (updateInnerFromUint64 z v n).tag ≠ .heap :=
  ⟨updateInnerFromUint64_abs z v n, updateInnerFromUint64_canon z v n hv,
   updateInnerFromUint64_tag z v n⟩

/-! ## arithmetic -/

/-- what a successful fast path knows about its operands and its result -/
private theorem fast2_sound {f : Nat → Nat → Bool → Bool → Nat × Bool × Bool} {x y : Rep} {flip : Bool}
    {zv : Nat} {zn : Bool} (hx : x.Canon) (hy : y.Canon) (h : fast2 f x y flip = some (zv, zn)) :
    ∃ xv xn yv yn, x.abs = sgn xn xv ∧ y.abs = sgn yn yv ∧ xv < 2 ^ 64 ∧ yv < 2 ^ 64 ∧
      f xv yv xn (if flip then !yn else yn) = (zv, zn, true) := by
  obtain ⟨xv, xn, yv, yn, h1, h2, h3⟩ := fast2_some h
  obtain ⟨ex, bx, -⟩ := innerAsUint64_some h1 hx
  obtain ⟨ey, by_, -⟩ := innerAsUint64_some h2 hy
  exact ⟨xv, xn, yv, yn, ex, ey, bx, by_, h3⟩

theorem C16_Add (z x y : Rep) (ra : Bool) (hz : z.Canon) (hx : x.Canon) (hy : y.Canon) :
    (BigInt.Add z x y ra).abs = x.abs + y.abs ∧ (BigInt.Add z x y ra).Canon := by
  unfold BigInt.Add
  split
  · rename_i zv zn hf
    obtain ⟨xv, xn, yv, yn, ex, ey, bx, by_, h3⟩ := fast2_sound hx hy hf
    obtain ⟨e, b⟩ := addInline_ok bx by_ h3
    simp only [Bool.false_eq_true, if_false] at e
    exact ⟨by rw [updateInnerFromUint64_abs, e, ex, ey], updateInnerFromUint64_canon _ _ _ b⟩
  · exact C16_wrapper (· + ·) ra z x y hz

theorem C16_Sub (z x y : Rep) (ra : Bool) (hz : z.Canon) (hx : x.Canon) (hy : y.Canon) :
    (BigInt.Sub z x y ra).abs = x.abs - y.abs ∧ (BigInt.Sub z x y ra).Canon := by
  unfold BigInt.Sub
  split
  · rename_i zv zn hf
    obtain ⟨xv, xn, yv, yn, ex, ey, bx, by_, h3⟩ := fast2_sound hx hy hf
    obtain ⟨e, b⟩ := addInline_ok bx by_ h3
    simp only [if_true] at e
    refine ⟨?_, updateInnerFromUint64_canon _ _ _ b⟩
    rw [updateInnerFromUint64_abs, e, ex, ey]
    cases yn <;> simp [sub_eq_add_neg]
  · exact C16_wrapper (· - ·) ra z x y hz

theorem C16_Mul (z x y : Rep) (ra : Bool) (hz : z.Canon) (hx : x.Canon) (hy : y.Canon) :
    (BigInt.Mul z x y ra).abs = x.abs * y.abs ∧ (BigInt.Mul z x y ra).Canon := by
  unfold BigInt.Mul
  split
  · rename_i zv zn hf
    obtain ⟨xv, xn, yv, yn, ex, ey, bx, by_, h3⟩ := fast2_sound hx hy hf
    obtain ⟨e, b⟩ := mulInline_ok h3
    simp only [Bool.false_eq_true, if_false] at e
    exact ⟨by rw [updateInnerFromUint64_abs, e, ex, ey], updateInnerFromUint64_canon _ _ _ b⟩
  · exact C16_wrapper (· * ·) ra z x y hz

/-- `Quo` is truncated division (Go `Quo` = `Int.tdiv`), for a non-zero divisor -/
theorem C16_Quo (z x y : Rep) (ra : Bool) (hz : z.Canon) (hx : x.Canon) (hy : y.Canon)
    (hy0 : y.abs ≠ 0) :
    ∃ z', BigInt.Quo z x y ra = some z' ∧ z'.abs = Int.tdiv x.abs y.abs ∧ z'.Canon := by
  unfold BigInt.Quo
  split
  · rename_i zv zn hf
    obtain ⟨xv, xn, yv, yn, ex, ey, bx, by_, h3⟩ := fast2_sound hx hy hf
    obtain ⟨e, b, -⟩ := quoInline_ok bx h3
    simp only [Bool.false_eq_true, if_false] at e
    exact ⟨_, rfl, by rw [updateInnerFromUint64_abs, e, ex, ey], updateInnerFromUint64_canon _ _ _ b⟩
  · rw [if_neg (by rw [inner_eq_abs]; exact hy0)]
    exact ⟨_, rfl, C16_wrapper Int.tdiv ra z x y hz⟩

/-- `Rem` is the truncated remainder (Go `Rem` = `Int.tmod`), for a non-zero divisor -/
theorem C16_Rem (z x y : Rep) (ra : Bool) (hz : z.Canon) (hx : x.Canon) (hy : y.Canon)
    (hy0 : y.abs ≠ 0) :
    ∃ z', BigInt.Rem z x y ra = some z' ∧ z'.abs = Int.tmod x.abs y.abs ∧ z'.Canon := by
  unfold BigInt.Rem
  split
  · rename_i zv zn hf
    obtain ⟨xv, xn, yv, yn, ex, ey, bx, by_, h3⟩ := fast2_sound hx hy hf
    obtain ⟨e, b, -⟩ := remInline_ok bx h3
    simp only [Bool.false_eq_true, if_false] at e
    exact ⟨_, rfl, by rw [updateInnerFromUint64_abs, e, ex, ey], updateInnerFromUint64_canon _ _ _ b⟩
  · rw [if_neg (by rw [inner_eq_abs]; exact hy0)]
    exact ⟨_, rfl, C16_wrapper Int.tmod ra z x y hz⟩

theorem C16_QuoRem (z x y r : Rep) (ra rb : Bool) (hz : z.Canon) (hx : x.Canon) (hy : y.Canon)
    (hr : r.Canon) (hy0 : y.abs ≠ 0) :
    ∃ q m, BigInt.QuoRem z x y r ra rb = some (q, m) ∧ q.abs = Int.tdiv x.abs y.abs ∧
      m.abs = Int.tmod x.abs y.abs ∧ q.Canon ∧ m.Canon := by
  unfold BigInt.QuoRem
  split
  · rename_i qv qn mv mn hq hm
    obtain ⟨xv, xn, yv, yn, ex, ey, bx, by_, h3⟩ := fast2_sound hx hy hq
    obtain ⟨xv', xn', yv', yn', ex', ey', bx', by', h3'⟩ := fast2_sound hx hy hm
    obtain ⟨e, b, -⟩ := quoInline_ok bx h3
    obtain ⟨e', b', -⟩ := remInline_ok bx' h3'
    simp only [Bool.false_eq_true, if_false] at e e'
    exact ⟨_, _, rfl, by rw [updateInnerFromUint64_abs, e, ex, ey],
      by rw [updateInnerFromUint64_abs, e', ex', ey'],
      updateInnerFromUint64_canon _ _ _ b, updateInnerFromUint64_canon _ _ _ b'⟩
  · rw [if_neg (by rw [inner_eq_abs]; exact hy0)]
    exact ⟨_, _, rfl, (C16_wrapper Int.tdiv ra z x y hz).1, (C16_wrapper Int.tmod rb r x y hr).1,
      (C16_wrapper Int.tdiv ra z x y hz).2, (C16_wrapper Int.tmod rb r x y hr).2⟩

/-- the division identity ties the two results of `QuoRem` together -/
theorem C16_QuoRem_identity (z x y r : Rep) (ra rb : Bool) (hz : z.Canon) (hx : x.Canon)
    (hy : y.Canon) (hr : r.Canon) (hy0 : y.abs ≠ 0) :
    ∃ q m, BigInt.QuoRem z x y r ra rb = some (q, m) ∧ x.abs = q.abs * y.abs + m.abs ∧
      m.abs.natAbs < y.abs.natAbs := by
  obtain ⟨q, m, h, eq, em, -, -⟩ := C16_QuoRem z x y r ra rb hz hx hy hr hy0
  refine ⟨q, m, h, ?_, ?_⟩
  · rw [eq, em, mul_comm]; exact (Int.mul_tdiv_add_tmod _ _).symm
  · rw [em]
    rw [Int.natAbs_tmod]
    exact Nat.mod_lt _ (by omega)

/-- division by zero: the fast path declines and math/big panics (`none`) -/
theorem C16_div_by_zero (z x y r : Rep) (ra rb : Bool) (hx : x.Canon) (hy : y.Canon)
    (hy0 : y.abs = 0) :
    BigInt.Quo z x y ra = none ∧ BigInt.Rem z x y ra = none ∧ BigInt.QuoRem z x y r ra rb = none := by
  have key : ∀ {f a b}, (f = quoInline ∨ f = remInline) → fast2 f x y = some (a, b) → False := by
    intro f a b hf h
    obtain ⟨xv, xn, yv, yn, ex, ey, bx, by_, h3⟩ := fast2_sound hx hy h
    have hyv : yv ≠ 0 := by
      rcases hf with rfl | rfl
      · exact (quoInline_ok bx h3).2.2
      · exact (remInline_ok bx h3).2.2
    rw [hy0] at ey
    cases yn <;> simp at ey <;> omega
  have hi : inner y = 0 := by rw [inner_eq_abs]; exact hy0
  refine ⟨?_, ?_, ?_⟩
  · unfold BigInt.Quo; split
    · rename_i h; exact (key (Or.inl rfl) h).elim
    · simp [hi]
  · unfold BigInt.Rem; split
    · rename_i h; exact (key (Or.inr rfl) h).elim
    · simp [hi]
  · unfold BigInt.QuoRem; split
    · rename_i h _; exact (key (Or.inl rfl) h).elim
    · simp [hi]

/-! ## comparison and sign -/

/-- `cmpInt` is the three-way comparison of `Int` (−1 / 0 / +1), as `(*big.Int).Cmp` -/
theorem cmpInt_spec (a b : Int) :
    (cmpInt a b = -1 ↔ a < b) ∧ (cmpInt a b = 0 ↔ a = b) ∧ (cmpInt a b = 1 ↔ a > b) := by
  unfold cmpInt
  by_cases h1 : a < b
  · have : a ≠ b := by omega
    have : ¬ a > b := by omega
    simp [*]
  · by_cases h2 : a > b
    · have : a ≠ b := by omega
      simp [*]
    · have : a = b := by omega
      simp [*]

theorem cmpInt_eq_compare (a b : Int) :
    cmpInt a b = match compare a b with | .lt => -1 | .eq => 0 | .gt => 1 := by
  unfold cmpInt
  rcases lt_trichotomy a b with h | h | h
  · simp [h, compare_lt_iff_lt.mpr h]
  · subst h; simp
  · have h' : ¬ a < b := by omega
    simp [h, h', compare_gt_iff_gt.mpr h]

theorem C16_Cmp (z y : Rep) (hz : z.Canon) (hy : y.Canon) :
    BigInt.Cmp z y = cmpInt z.abs y.abs := by
  unfold BigInt.Cmp
  split
  · rename_i zv zn yv yn h1 h2
    obtain ⟨ez, -, nz, -⟩ := innerAsUint64_some h1 hz
    obtain ⟨ey, -, ny, -⟩ := innerAsUint64_some h2 hy
    rw [ez, ey]
    unfold cmpInt
    cases zn <;> cases yn <;> simp at nz ny ⊢ <;> split_ifs <;> omega
  · rw [inner_eq_abs, inner_eq_abs]

theorem C16_CmpAbs (z y : Rep) (hz : z.Canon) (hy : y.Canon) :
    BigInt.CmpAbs z y = cmpInt (z.abs.natAbs : Int) (y.abs.natAbs : Int) := by
  unfold BigInt.CmpAbs
  split
  · rename_i zv zn yv yn h1 h2
    obtain ⟨ez, -, nz, -⟩ := innerAsUint64_some h1 hz
    obtain ⟨ey, -, ny, -⟩ := innerAsUint64_some h2 hy
    rw [ez, ey]
    unfold cmpInt
    cases zn <;> cases yn <;> simp
  · rw [inner_eq_abs, inner_eq_abs]

theorem C16_Sign (z : Rep) (hz : z.Canon) : BigInt.Sign z = Int.sign z.abs := by
  obtain ⟨h0, h1, h2⟩ := hz
  rcases z with ⟨t, w0, w1, b⟩
  cases t
  · simp only [BigInt.Sign, Rep.abs, Rep.mag]
    by_cases hw : w0 = 0 ∧ w1 = 0
    · obtain ⟨rfl, rfl⟩ := hw; simp
    · have : 0 < ((w0 + 2 ^ 64 * w1 : Nat) : Int) := by omega
      rw [Int.sign_eq_one_of_pos this]
      have : ¬ ((w0 == 0 && w1 == 0) = true) := by simpa using hw
      simp [this]
  · simp only [BigInt.Sign, Rep.abs, Rep.mag]
    have hm := h2 rfl
    simp only [Rep.mag, ne_eq] at hm
    have : -((w0 + 2 ^ 64 * w1 : Nat) : Int) < 0 := by omega
    rw [Int.sign_eq_neg_one_of_neg this]
  · simp [BigInt.Sign, Rep.abs]

/-! ## unary mutators and setters -/

theorem C16_Abs (z x : Rep) (ra : Bool) (hz : z.Canon) (hx : x.Canon) :
    (BigInt.Abs z x ra).abs = (x.abs.natAbs : Int) ∧ (BigInt.Abs z x ra).Canon := by
  unfold BigInt.Abs
  split_ifs with h
  · obtain ⟨h0, h1, h2⟩ := hx
    rw [isInline_iff] at h
    refine ⟨?_, h0, h1, by simp⟩
    rcases x with ⟨t, w0, w1, b⟩
    cases t
    · simp only [Rep.abs, Rep.mag]; omega
    · simp only [Rep.abs, Rep.mag]; omega
    · exact absurd rfl h
  · rw [inner_eq_abs]
    exact ⟨updateInnerWith_abs _ _ _, updateInnerWith_canon _ _ _ hz⟩

theorem C16_Neg (z x : Rep) (ra : Bool) (hz : z.Canon) (hx : x.Canon) :
    (BigInt.Neg z x ra).abs = -x.abs ∧ (BigInt.Neg z x ra).Canon := by
  unfold BigInt.Neg
  split_ifs with h h'
  · obtain ⟨h0, h1, h2⟩ := hx
    rw [isInline_iff] at h
    refine ⟨?_, h0, h1, by simp⟩
    rcases x with ⟨t, w0, w1, b⟩
    cases t <;> simp [Rep.abs, Rep.mag] at h h' ⊢
    obtain ⟨rfl, rfl⟩ := h'; simp
  · obtain ⟨h0, h1, h2⟩ := hx
    rw [isInline_iff] at h
    rcases x with ⟨t, w0, w1, b⟩
    cases t <;> simp [Rep.abs, Rep.mag] at h h' ⊢
    refine ⟨h0, h1, ?_⟩
    intro _
    simp only [Rep.mag]
    omega
  · rw [inner_eq_abs]
    exact ⟨updateInnerWith_abs _ _ _, updateInnerWith_canon _ _ _ hz⟩

theorem C16_Set (z x : Rep) (ra : Bool) (hz : z.Canon) (hx : x.Canon) :
    (BigInt.Set z x ra).abs = x.abs ∧ (BigInt.Set z x ra).Canon := by
  unfold BigInt.Set
  split_ifs with h
  · exact ⟨rfl, hx⟩
  · rw [inner_eq_abs]
    exact ⟨updateInnerWith_abs _ _ _, updateInnerWith_canon _ _ _ hz⟩

/-- `SetInt64(x)` for every `int64` x, `MinInt64` included (there `x = -x` wraps to itself and
`uint64(x) = 2^63`) -/
theorem C16_SetInt64 (z : Rep) (x : Int) (hlo : -(2 ^ 63) ≤ x) (hhi : x < 2 ^ 63) :
    (BigInt.SetInt64 z x).abs = x ∧ (BigInt.SetInt64 z x).Canon := by
  unfold BigInt.SetInt64
  simp only
  have hv : toUint64 (if decide (x < 0) = true then wrap64 (-x) else x) = x.natAbs := by
    unfold toUint64 wrap64
    split_ifs with h
    · simp only [decide_eq_true_eq] at h; omega
    · simp only [decide_eq_true_eq] at h; omega
  rw [hv]
  refine ⟨?_, updateInnerFromUint64_canon _ _ _ (by omega)⟩
  rw [updateInnerFromUint64_abs]
  by_cases h : x < 0 <;> simp only [h, decide_true, decide_false, sgn_true, sgn_false] <;> omega

theorem C16_SetUint64 (z : Rep) (x : Nat) (hx : x < 2 ^ 64) :
    (BigInt.SetUint64 z x).abs = x ∧ (BigInt.SetUint64 z x).Canon := by
  unfold BigInt.SetUint64
  exact ⟨by rw [updateInnerFromUint64_abs]; rfl, updateInnerFromUint64_canon _ _ _ hx⟩

/-! ## bits -/

/-- bit 0 of the two's-complement representation is the parity -/
theorem intBit_zero (v : Int) : intBit v 0 = (v % 2).toNat := by
  simp [intBit]

/-- `intBit` is `Int.testBit` (Batteries): the bit of the infinite two's-complement expansion -/
theorem intBit_eq_testBit (v : Int) (i : Nat) : intBit v i = if Int.testBit v i then 1 else 0 := by
  have hp : (0 : Int) < 2 ^ i := by positivity
  unfold intBit
  cases v with
  | ofNat m =>
    simp only [Int.testBit, Int.ofNat_eq_natCast, Nat.testBit_eq_decide_div_mod_eq]
    have : ((m : Int) / 2 ^ i) = ((m / 2 ^ i : Nat) : Int) := by push_cast; rfl
    rw [this]
    generalize m / 2 ^ i = q
    by_cases h : q % 2 = 1 <;> simp [h] <;> omega
  | negSucc m =>
    simp only [Int.testBit, Nat.testBit_eq_decide_div_mod_eq]
    rw [Int.negSucc_ediv _ hp]
    have : ((m : Int) / 2 ^ i) = ((m / 2 ^ i : Nat) : Int) := by push_cast; rfl
    rw [show (m : Int).ediv (2 ^ i) = ((m / 2 ^ i : Nat) : Int) from this]
    generalize m / 2 ^ i = q
    by_cases h : q % 2 = 1 <;> simp [h] <;> omega

/-- `Bit(i)`: the `i == 0` fast path reads `_inline[0] & 1`, which is the two's-complement bit 0
also for negative inline values -/
theorem C16_Bit (z : Rep) (i : Nat) : BigInt.Bit z i = intBit z.abs i := by
  unfold BigInt.Bit
  split_ifs with h
  · simp only [Bool.and_eq_true, beq_iff_eq] at h
    obtain ⟨rfl, h⟩ := h
    rw [isInline_iff] at h
    rw [intBit_zero, Nat.and_one_is_mod]
    rcases z with ⟨t, w0, w1, b⟩
    cases t
    · simp only [Rep.abs, Rep.mag]; omega
    · simp only [Rep.abs, Rep.mag]; omega
    · exact absurd rfl h
  · rw [inner_eq_abs]

theorem C16_Bit0 (z : Rep) : (BigInt.Bit z 0 : Int) = z.abs % 2 := by
  rw [C16_Bit, intBit_zero]; omega

/-- `bitLen n` is the bit length: the least `k` with `n < 2^k` -/
theorem bitLen_le_iff (n k : Nat) : bitLen n ≤ k ↔ n < 2 ^ k := by
  unfold bitLen
  split_ifs with h
  · subst h; simp
  · rw [Nat.add_one_le_iff, Nat.log2_lt h]

theorem bitLen_spec (n : Nat) : n < 2 ^ bitLen n ∧ (n ≠ 0 → 2 ^ (bitLen n - 1) ≤ n) := by
  refine ⟨(bitLen_le_iff n _).mp le_rfl, fun h => ?_⟩
  unfold bitLen
  rw [if_neg h]
  exact Nat.log2_self_le h

/-- it is Mathlib's `Nat.size` -/
theorem bitLen_eq_size (n : Nat) : bitLen n = Nat.size n := by
  apply le_antisymm
  · rw [bitLen_le_iff]; exact Nat.lt_size_self n
  · rw [Nat.size_le]; exact (bitLen_spec n).1

theorem bitLen_high (w0 w1 : Nat) (h0 : w0 < 2 ^ 64) (h1 : w1 ≠ 0) :
    bitLen (w0 + 2 ^ 64 * w1) = 64 + bitLen w1 := by
  have hn : w0 + 2 ^ 64 * w1 ≠ 0 := by omega
  unfold bitLen
  rw [if_neg hn, if_neg h1, ← Nat.add_assoc]
  congr 1
  rw [Nat.log2_eq_iff hn]
  obtain ⟨l, u⟩ := (Nat.log2_eq_iff h1).mp rfl
  have e1 : 2 ^ (64 + w1.log2) = 2 ^ 64 * 2 ^ w1.log2 := Nat.pow_add ..
  have e2 : 2 ^ (64 + w1.log2 + 1) = 2 ^ 64 * (2 ^ w1.log2 * 2) := by
    rw [Nat.pow_succ, Nat.pow_add, Nat.mul_assoc]
  rw [Nat.pow_succ] at u
  rw [e1, e2]
  generalize 2 ^ w1.log2 = p at *
  omega

theorem C16_BitLen (z : Rep) (hz : z.Canon) : BigInt.BitLen z = bitLen z.abs.natAbs := by
  obtain ⟨h0, h1, -⟩ := hz
  unfold BigInt.BitLen
  split_ifs with h hw1 hw0
  · rw [isInline_iff] at h
    simp only [bne_iff_ne, ne_eq] at hw1
    have : z.abs.natAbs = z.w0 + 2 ^ 64 * z.w1 := by
      rcases z with ⟨t, w0, w1, b⟩
      cases t
      · simp only [Rep.abs, Rep.mag]; omega
      · simp only [Rep.abs, Rep.mag]; omega
      · exact absurd rfl h
    rw [this, bitLen_high _ _ h0 hw1]
  · rw [isInline_iff] at h
    simp only [bne_iff_ne, ne_eq, not_not] at hw1 hw0
    have : z.abs.natAbs = z.w0 := by
      rcases z with ⟨t, w0, w1, b⟩
      cases t
      · simp only [Rep.abs, Rep.mag] at hw1 ⊢; omega
      · simp only [Rep.abs, Rep.mag] at hw1 ⊢; omega
      · exact absurd rfl h
    rw [this]; omega
  · rw [isInline_iff] at h
    simp only [bne_iff_ne, ne_eq, not_not] at hw1 hw0
    have : z.abs.natAbs = 0 := by
      rcases z with ⟨t, w0, w1, b⟩
      cases t
      · simp only [Rep.abs, Rep.mag] at hw1 hw0 ⊢; omega
      · simp only [Rep.abs, Rep.mag] at hw1 hw0 ⊢; omega
      · exact absurd rfl h
    rw [this]; rfl
  · rw [inner_eq_abs]

/-! ## machine-integer views -/

theorem C16_IsInt64 (z : Rep) (hz : z.Canon) :
    BigInt.IsInt64 z = decide (-(2 ^ 63) ≤ z.abs ∧ z.abs < 2 ^ 63) := by
  unfold BigInt.IsInt64
  split
  · rename_i zv zn h
    obtain ⟨ez, bz, nz, -⟩ := innerAsUint64_some h hz
    rw [ez, Bool.eq_iff_iff]
    simp only [Bool.or_eq_true, Bool.and_eq_true, decide_eq_true_eq, beq_iff_eq]
    unfold toInt64 wrap64
    cases zn
    · simp only [sgn_false, Bool.false_eq_true, false_and, or_false]
      split_ifs <;> omega
    · have := nz rfl
      simp only [sgn_true, true_and]
      split_ifs <;> omega
  · rw [inner_eq_abs]

theorem C16_IsUint64 (z : Rep) (hz : z.Canon) :
    BigInt.IsUint64 z = decide (0 ≤ z.abs ∧ z.abs < 2 ^ 64) := by
  unfold BigInt.IsUint64
  split
  · rename_i zv zn h
    obtain ⟨ez, bz, nz, -⟩ := innerAsUint64_some h hz
    rw [ez, Bool.eq_iff_iff]
    simp only [Bool.not_eq_true', decide_eq_true_eq]
    cases zn
    · simp only [sgn_false, true_iff]; omega
    · have := nz rfl
      simp only [sgn_true, Bool.true_eq_false, false_iff]; omega
  · rw [inner_eq_abs]

/-- `Int64()` is the value reduced into `[-2^63, 2^63)` (two's complement), on both paths … -/
theorem C16_Int64 (z : Rep) (hz : z.Canon) : BigInt.Int64 z = wrap64 z.abs := by
  unfold BigInt.Int64
  split
  · rename_i zv zn h
    obtain ⟨ez, bz, -⟩ := innerAsUint64_some h hz
    rw [ez]
    unfold toInt64 wrap64
    cases zn
    · simp only [sgn_false, Bool.false_eq_true, if_false]; split_ifs <;> omega
    · simp only [sgn_true, if_true]; split_ifs <;> omega
  · rw [inner_eq_abs]
    simp only
    unfold toInt64 wrap64
    split_ifs <;> omega

/-- … hence exactly the value whenever `IsInt64` -/
theorem C16_Int64_exact (z : Rep) (hz : z.Canon) (h : BigInt.IsInt64 z = true) :
    BigInt.Int64 z = z.abs := by
  rw [C16_IsInt64 z hz, decide_eq_true_eq] at h
  rw [C16_Int64 z hz]; unfold wrap64; omega

/-- `Uint64()` is the low 64 bits of `|v|` (math/big ignores the sign), on both paths … -/
theorem C16_Uint64 (z : Rep) (hz : z.Canon) : BigInt.Uint64 z = z.abs.natAbs % 2 ^ 64 := by
  unfold BigInt.Uint64
  split
  · rename_i zv zn h
    obtain ⟨ez, bz, -⟩ := innerAsUint64_some h hz
    rw [ez]
    cases zn
    · simp only [sgn_false]; omega
    · simp only [sgn_true]; omega
  · rw [inner_eq_abs]

/-- … hence exactly the value whenever `IsUint64` -/
theorem C16_Uint64_exact (z : Rep) (hz : z.Canon) (h : BigInt.IsUint64 z = true) :
    (BigInt.Uint64 z : Int) = z.abs := by
  rw [C16_IsUint64 z hz, decide_eq_true_eq] at h
  rw [C16_Uint64 z hz]; omega

/-! ## zero is never negative -/

theorem C16_zero_never_negative (r : Rep) (hr : r.Canon) (h0 : r.abs = 0) :
    BigInt.Sign r = 0 ∧ BigInt.Cmp r BigInt.zero = 0 := by
  refine ⟨by rw [C16_Sign r hr, h0]; rfl, ?_⟩
  rw [C16_Cmp r _ hr canon_zero, h0, abs_zero]
  rfl

/-- the same, seen through the other observers: a zero is a uint64, an int64, has bit length 0 -/
theorem C16_zero_observers (r : Rep) (hr : r.Canon) (h0 : r.abs = 0) :
    BigInt.IsUint64 r = true ∧ BigInt.IsInt64 r = true ∧ BigInt.BitLen r = 0 ∧
    BigInt.CmpAbs r BigInt.zero = 0 := by
  refine ⟨?_, ?_, ?_, ?_⟩
  · rw [C16_IsUint64 r hr, h0]; decide
  · rw [C16_IsInt64 r hr, h0]; decide
  · rw [C16_BitLen r hr, h0]; rfl
  · rw [C16_CmpAbs r _ hr canon_zero, h0, abs_zero]; rfl

/-- a representation violating `Canon` (the pre-fix D14 state: sentinel set, all words zero) is
observably wrong although its value is 0 — `Canon` is exactly what the fast paths need -/
theorem C16_negative_zero_is_observable :
    let bad : Rep := { tag := .inlineNeg, w0 := 0, w1 := 0, big := 0 }
    bad.abs = 0 ∧ BigInt.Sign bad = -1 ∧ BigInt.Cmp bad BigInt.zero = -1 ∧
      BigInt.IsUint64 bad = false := by
  decide

/-! ## the driver entry point -/

theorem Quo_some_canon {z x y q : Rep} {ra : Bool} (hz : z.Canon) (hx : x.Canon) (hy : y.Canon)
    (h : BigInt.Quo z x y ra = some q) : q.Canon ∧ q.abs = Int.tdiv x.abs y.abs := by
  by_cases hy0 : y.abs = 0
  · rw [(C16_div_by_zero z x y z ra ra hx hy hy0).1] at h; cases h
  · obtain ⟨q', h', e, c⟩ := C16_Quo z x y ra hz hx hy hy0
    rw [h] at h'; cases h'; exact ⟨c, e⟩

theorem Rem_some_canon {z x y q : Rep} {ra : Bool} (hz : z.Canon) (hx : x.Canon) (hy : y.Canon)
    (h : BigInt.Rem z x y ra = some q) : q.Canon ∧ q.abs = Int.tmod x.abs y.abs := by
  by_cases hy0 : y.abs = 0
  · rw [(C16_div_by_zero z x y z ra ra hx hy hy0).2.1] at h; cases h
  · obtain ⟨q', h', e, c⟩ := C16_Rem z x y ra hz hx hy hy0
    rw [h] at h'; cases h'; exact ⟨c, e⟩

theorem QuoRem_some_canon {z x y r q m : Rep} {ra rb : Bool} (hz : z.Canon) (hx : x.Canon)
    (hy : y.Canon) (hr : r.Canon) (h : BigInt.QuoRem z x y r ra rb = some (q, m)) :
    q.Canon ∧ m.Canon ∧ q.abs = Int.tdiv x.abs y.abs ∧ m.abs = Int.tmod x.abs y.abs := by
  by_cases hy0 : y.abs = 0
  · rw [(C16_div_by_zero z x y r ra rb hx hy hy0).2.2] at h; cases h
  · obtain ⟨q', m', h', e, e', c, c'⟩ := C16_QuoRem z x y r ra rb hz hx hy hr hy0
    rw [h] at h'; cases h'; exact ⟨c, c', e, e'⟩

/-- the driver entry point keeps the receiver canonical, whatever method is requested and whatever the
allocation oracle says -/
theorem C16_stepWith_canon (ra : Bool) (r a b r' : Rep) (m s : String) (hr : r.Canon) (ha : a.Canon)
    (hb : b.Canon) (h : BigInt.stepWith ra r m a b = some (r', s)) : r'.Canon := by
  unfold BigInt.stepWith at h
  simp only at h
  split at h
  all_goals try (simp only [Option.some.injEq, Prod.mk.injEq] at h; obtain ⟨rfl, -⟩ := h)
  · exact (C16_Add _ _ _ _ hr ha hb).2
  · exact (C16_Sub _ _ _ _ hr ha hb).2
  · exact (C16_Mul _ _ _ _ hr ha hb).2
  · cases hq : BigInt.Quo r a b ra with
    | none => simp [hq] at h
    | some q =>
      simp only [hq, Option.bind_some, Option.some.injEq, Prod.mk.injEq] at h
      obtain ⟨rfl, -⟩ := h
      exact (Quo_some_canon hr ha hb hq).1
  · cases hq : BigInt.Rem r a b ra with
    | none => simp [hq] at h
    | some q =>
      simp only [hq, Option.bind_some, Option.some.injEq, Prod.mk.injEq] at h
      obtain ⟨rfl, -⟩ := h
      exact (Rem_some_canon hr ha hb hq).1
  · cases hq : BigInt.QuoRem r a b zero ra ra with
    | none => simp [hq] at h
    | some q =>
      obtain ⟨q, m⟩ := q
      simp only [hq, Option.bind_some, Option.some.injEq, Prod.mk.injEq] at h
      obtain ⟨rfl, -⟩ := h
      exact (QuoRem_some_canon hr ha hb canon_zero hq).1
  · exact (C16_Abs _ _ _ hr ha).2
  · exact (C16_Neg _ _ _ hr ha).2
  · exact (C16_Set _ _ _ hr ha).2
  · split_ifs at h with hc
    simp only [Option.some.injEq, Prod.mk.injEq] at h; obtain ⟨rfl, -⟩ := h
    exact (C16_SetInt64 _ _ hc.1 hc.2).2
  · split_ifs at h with hc
    simp only [Option.some.injEq, Prod.mk.injEq] at h; obtain ⟨rfl, -⟩ := h
    exact (C16_SetUint64 _ _ (by omega)).2
  · exact hr
  · exact hr
  · exact hr
  · split_ifs at h with hc
    simp only [Option.some.injEq, Prod.mk.injEq] at h; obtain ⟨rfl, -⟩ := h
    exact hr
  · exact hr
  · exact hr
  · exact hr
  · exact hr
  · exact hr
  · simp at h

theorem C16_step_canon (r a b r' : Rep) (m s : String) (hr : r.Canon) (ha : a.Canon) (hb : b.Canon)
    (h : BigInt.step r m a b = some (r', s)) : r'.Canon :=
  C16_stepWith_canon false r a b r' m s hr ha hb h

#print axioms Apd.Props.C16_inner
#print axioms Apd.Props.C16_updateInner
#print axioms Apd.Props.C16_updateInner_rule
#print axioms Apd.Props.C16_wrapper
#print axioms Apd.Props.C16_heap_sticky
#print axioms Apd.Props.C16_updateInnerFromUint64
#print axioms Apd.Props.C16_Add
#print axioms Apd.Props.C16_Sub
#print axioms Apd.Props.C16_Mul
#print axioms Apd.Props.C16_Quo
#print axioms Apd.Props.C16_Rem
#print axioms Apd.Props.C16_QuoRem
#print axioms Apd.Props.C16_QuoRem_identity
#print axioms Apd.Props.C16_div_by_zero
#print axioms Apd.Props.C16_Cmp
#print axioms Apd.Props.C16_CmpAbs
#print axioms Apd.Props.C16_Sign
#print axioms Apd.Props.C16_Abs
#print axioms Apd.Props.C16_Neg
#print axioms Apd.Props.C16_Set
#print axioms Apd.Props.C16_SetInt64
#print axioms Apd.Props.C16_SetUint64
#print axioms Apd.Props.C16_Bit
#print axioms Apd.Props.C16_Bit0
#print axioms Apd.Props.C16_BitLen
#print axioms Apd.Props.bitLen_eq_size
#print axioms Apd.Props.C16_IsInt64
#print axioms Apd.Props.C16_IsUint64
#print axioms Apd.Props.C16_Int64
#print axioms Apd.Props.C16_Int64_exact
#print axioms Apd.Props.C16_Uint64
#print axioms Apd.Props.C16_Uint64_exact
#print axioms Apd.Props.C16_zero_never_negative
#print axioms Apd.Props.C16_zero_observers
#print axioms Apd.Props.C16_negative_zero_is_observable
#print axioms Apd.Props.intBit_eq_testBit
#print axioms Apd.Props.C16_stepWith_canon
#print axioms Apd.Props.C16_step_canon

end Apd.Props
