import ApdVerif.Model.Arith
import ApdVerif.Gen.Round
/-!
# Regenerated tie (rounding decisions): definitions re-extracted from the Go source on every run
(`ApdVerif/Gen/*.lean`, written by harness/cmd/xlate) are the ones the hand-written model uses.
If the Go source changes one of these functions, the regenerated definition changes and the
corresponding theorem below stops checking.
-/
namespace Apd.Props
open Apd

/-- the `Rounder` string of a mode -/
def modeString : Mode → String
  | .down => Gen.RoundDown | .halfUp => Gen.RoundHalfUp | .halfEven => Gen.RoundHalfEven
  | .ceiling => Gen.RoundCeiling | .floor => Gen.RoundFloor | .halfDown => Gen.RoundHalfDown
  | .up => Gen.RoundUp | .r05up => Gen.Round05Up

theorem GenTie_rounders :
    Gen.RoundDown = "down" ∧ Gen.RoundHalfUp = "half_up" ∧ Gen.RoundHalfEven = "half_even" ∧
    Gen.RoundCeiling = "ceiling" ∧ Gen.RoundFloor = "floor" ∧ Gen.RoundHalfDown = "half_down" ∧
    Gen.RoundUp = "up" ∧ Gen.Round05Up = "05up" := by
  refine ⟨rfl, rfl, rfl, rfl, rfl, rfl, rfl, rfl⟩


/-- the model's rounding decision is the translated `Rounder.ShouldAddOne` (with the eight mode
functions), for every mode, magnitude, sign and half indicator -/
theorem GenTie_shouldAddOne (m : Mode) (result : Nat) (neg : Bool) (half : Int) :
    Gen.Rounder_ShouldAddOne (modeString m) result neg half = shouldAddOne m result neg half := by
  cases m <;>
    simp [Gen.Rounder_ShouldAddOne, modeString, shouldAddOne, Gen.RoundDown, Gen.RoundHalfUp,
      Gen.RoundHalfEven, Gen.RoundCeiling, Gen.RoundFloor, Gen.RoundHalfDown, Gen.RoundUp, Gen.Round05Up,
      Gen.roundDown, Gen.roundHalfUp, Gen.roundHalfEven, Gen.roundCeiling, Gen.roundFloor,
      Gen.roundHalfDown, Gen.roundUp, Gen.round05Up, Gen.natSign, Gen.bigFive, Gen.bigTen]
  by_cases h10 : result % 10 = 0 <;> simp [h10]


/-- any other `Rounder` string (including the empty one) behaves as RoundHalfUp -/
theorem GenTie_shouldAddOne_default (r : String) (result : Nat) (neg : Bool) (half : Int)
    (h : ∀ m, r ≠ modeString m) :
    Gen.Rounder_ShouldAddOne r result neg half = shouldAddOne .halfUp result neg half := by
  have h0 := h .down; have h1 := h .halfUp; have h2 := h .halfEven; have h3 := h .ceiling
  have h4 := h .floor; have h5 := h .halfDown; have h6 := h .up; have h7 := h .r05up
  simp only [modeString, Gen.RoundDown, Gen.RoundHalfUp, Gen.RoundHalfEven, Gen.RoundCeiling,
    Gen.RoundFloor, Gen.RoundHalfDown, Gen.RoundUp, Gen.Round05Up] at h0 h1 h2 h3 h4 h5 h6 h7
  simp [Gen.Rounder_ShouldAddOne, h0, h1, h2, h3, h4, h5, h6, h7, Gen.roundHalfUp, shouldAddOne]


#print axioms Apd.Props.GenTie_rounders
#print axioms Apd.Props.GenTie_shouldAddOne
#print axioms Apd.Props.GenTie_shouldAddOne_default

end Apd.Props
