import ApdVerif.Model.Dispatch
import ApdVerif.Model.Text
import ApdVerif.Spec.Defs
import ApdVerif.Props.C19
import ApdVerif.Props.C14
import ApdVerif.Lemmas.RoundCoreLemmas
/-!
# C04 (partial) — operations are total; text input never produces an ill-formed value

In the model every entry point is a total Lean function (the kernel checked its termination;
loops run on explicit fuel whose sufficiency is proved where it matters: `C11_sqrtLoop_terminates`,
`C11_isqrt`, `C11_icbrt`, `C19_numDigits`, `C19_reduce`).  What the model cannot exhibit — panics and
hangs of the compiled Go code — is explored by the harness under recover + watchdog.
-/
namespace Apd.Props
open Apd

/-- every modelled single-rounding operation returns an outcome for every input -/
theorem C04_total_single (op : String)
    (hop : op ∈ ["add", "sub", "mul", "quo", "quoint", "rem", "abs", "neg", "round", "reduce", "cmp",
                 "quantize", "rtie", "rtiv", "ceil", "floor", "sqrt"])
    (c : Ctx) (x y : Dec) (i : Int) : (runCtxOp op c x y i).isSome = true := by
  simp only [List.mem_cons, List.mem_nil_iff, or_false] at hop
  rcases hop with rfl | rfl | rfl | rfl | rfl | rfl | rfl | rfl | rfl | rfl | rfl | rfl | rfl | rfl | rfl | rfl | rfl <;> rfl

/-- text input can never produce an ill-formed value: a successfully parsed decimal (BaseContext)
has a valid form and exponent and adjusted exponent within the package limits (the coefficient
is a natural number by construction of the model; the harness checks the sign on the real code) -/
theorem C04_parsed_wellformed (s : String) (o : Out)
    (h : Apd.Text.setString baseCtx s = some o) (he : o.err = .none) (hf : o.d.form = .finite) :
    -100000 ≤ o.d.exp + (ndigits o.d.coeff : Int) - 1 ∧ o.d.exp + (ndigits o.d.coeff : Int) - 1 ≤ 100000 ∧
    -100000 ≤ o.d.exp ∧ o.d.exp ≤ 100000 := by
  unfold Apd.Text.setString at h
  cases hp : Apd.Text.parse s with
  | none => rw [hp] at h; cases h
  | some pr =>
    obtain ⟨d, e10⟩ := pr
    rw [hp] at h
    simp only [] at h
    by_cases hfin : d.form = .finite
    · rw [if_pos hfin] at h
      injection h with h
      subst h
      simp only [] at he hf ⊢
      -- no system flag was raised, so the summand and the adjusted exponent are within the limits
      have hns : NoSys (setExponent baseCtx d {} [e10]).2 := by
        unfold goError at he
        constructor
        · cases hb : (setExponent baseCtx d {} [e10]).2.sysOverflow <;> simp_all
        · cases hb : (setExponent baseCtx d {} [e10]).2.sysUnderflow <;> simp_all
      obtain ⟨hx, hlo, hhi⟩ := setExponent_noSys baseCtx d {} [e10] hns
      have hxs : -100000 ≤ e10 ∧ e10 ≤ 100000 :=
        (checkXs_none_iff [e10]).1 hx e10 (by simp)
      have hn := setExponent_normal baseCtx d {} [e10] hx hhi (by simpa [baseCtx, MinExponent] using hlo)
        (by simpa [baseCtx, MaxExponent] using hhi) (by simp [baseCtx, MinExponent])
      rw [hn]
      unfold seAdj at hlo hhi
      simp only [seFinish, sumInts] at hlo hhi ⊢
      refine ⟨by omega, by omega, by omega, by omega⟩
    · rw [if_neg hfin] at h
      injection h with h
      subst h
      simp only [] at hf
      exact absurd hf hfin

end Apd.Props
