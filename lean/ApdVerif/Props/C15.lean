import ApdVerif.Spec.Order
/-!
# C15 — Cmp is the exact numeric order and CmpTotal is the documented total order
-/
namespace Apd.Props
open Apd

/-- Decimal.Cmp returns the sign of the exact difference, for all non-NaN operands, however far
apart exponents and digit counts are (all three paths of the code). -/
theorem C15_cmp (d x : Dec) (hd : d.isNaN = false) (hx : x.isNaN = false) :
    d.cmp x = specCmp d x := by
  sorry

/-- Context.Cmp: NaN prologue, otherwise the result is Decimal.Cmp as a decimal -/
theorem C15_ctxCmp (c : Ctx) (x y : Dec) (hx : x.isNaN = false) (hy : y.isNaN = false) :
    (cmpOp c x y).d = decOfInt (specCmp x y) ∧ (cmpOp c x y).fl = {} ∧ (cmpOp c x y).err = .none := by
  sorry

theorem C15_total_range (d x : Dec) : d.cmpTotal x = -1 ∨ d.cmpTotal x = 0 ∨ d.cmpTotal x = 1 := by
  sorry

theorem C15_total_antisymm (d x : Dec) : x.cmpTotal d = - d.cmpTotal x := by
  sorry

theorem C15_total_zero_iff (d x : Dec) : d.cmpTotal x = 0 ↔ sameRepr d x := by
  sorry

theorem C15_total_trans (d x y : Dec) (h1 : d.cmpTotal x ≤ 0) (h2 : x.cmpTotal y ≤ 0) :
    d.cmpTotal y ≤ 0 := by
  sorry

/-- CmpTotal agrees with Cmp on numerically different numbers -/
theorem C15_total_agrees (d x : Dec) (hd : d.isNaN = false) (hx : x.isNaN = false)
    (h : specCmp d x ≠ 0) : d.cmpTotal x = specCmp d x := by
  sorry

/-- equal-valued finite representations are ordered by exponent, reversed for negatives -/
theorem C15_total_exponent (d x : Dec) (hd : d.form = .finite) (hx : x.form = .finite)
    (hn : d.neg = x.neg) (h : specCmp d x = 0) (he : d.exp < x.exp) :
    d.cmpTotal x = (if d.neg then 1 else -1) := by
  sorry

/-- -NaN < -sNaN < -Inf < -finite < +finite < +Inf < +sNaN < +NaN -/
theorem C15_total_forms (d x : Dec) (h : d.cmpOrder < x.cmpOrder) : d.cmpTotal x = -1 := by
  sorry

example : ({ coeff := 1230, exp := -3 } : Dec).cmp { coeff := 123, exp := -2 } = 0 := by decide
example : ({ coeff := 1230, exp := -3 } : Dec).cmpTotal { coeff := 123, exp := -2 } = -1 := by decide

end Apd.Props
