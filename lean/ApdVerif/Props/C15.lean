import ApdVerif.Spec.Order
import ApdVerif.Lemmas.C15Lemmas
/-!
# C15 — Cmp is the exact numeric order and CmpTotal is the documented total order
-/
namespace Apd.Props
open Apd Apd.C15L

/-- Decimal.Cmp returns the sign of the exact difference, for all non-NaN operands, however far
apart exponents and digit counts are (all three paths of the code). -/
theorem C15_cmp (d x : Dec) (hd : d.isNaN = false) (hx : x.isNaN = false) :
    d.cmp x = specCmp d x := by
  obtain ⟨df, dn, de, dc⟩ := d
  obtain ⟨xf, xn, xe, xc⟩ := x
  cases df
  · cases xf
    · rw [cmp_finite _ _ rfl rfl, specCmp_finite _ _ rfl rfl]
    · by_cases hc : dc = 0 <;> cases dn <;> cases xn <;>
        simp [Dec.cmp, Dec.sign, specCmp, hc]
    · simp [Dec.isNaN] at hx
    · simp [Dec.isNaN] at hx
  · cases xf
    · by_cases hc : xc = 0 <;> cases dn <;> cases xn <;>
        simp [Dec.cmp, Dec.sign, specCmp, hc]
    · cases dn <;> cases xn <;> simp [Dec.cmp, Dec.sign, specCmp, cmpInt]
    · simp [Dec.isNaN] at hx
    · simp [Dec.isNaN] at hx
  · simp [Dec.isNaN] at hd
  · simp [Dec.isNaN] at hd

/-- Context.Cmp: NaN prologue, otherwise the result is Decimal.Cmp as a decimal -/
theorem C15_ctxCmp (c : Ctx) (x y : Dec) (hx : x.isNaN = false) (hy : y.isNaN = false) :
    (cmpOp c x y).d = decOfInt (specCmp x y) ∧ (cmpOp c x y).fl = {} ∧ (cmpOp c x y).err = .none := by
  have h : shouldSetAsNaN x (some y) = false := by simp [shouldSetAsNaN, hx, hy]
  unfold cmpOp
  rw [h, C15_cmp x y hx hy]
  simp

theorem C15_total_range (d x : Dec) : d.cmpTotal x = -1 ∨ d.cmpTotal x = 0 ∨ d.cmpTotal x = 1 := by
  rcases Int.lt_trichotomy d.cmpOrder x.cmpOrder with h | h | h
  · left; exact cmpTotal_of_lt d x h
  · obtain ⟨hf, hn⟩ := (cmpOrder_eq_iff d x).1 h
    cases hdf : d.form
    · rw [cmpTotal_finite d x hdf (hf ▸ hdf) hn (min d.exp x.exp) (Int.min_le_left ..) (Int.min_le_right ..)]
      cases d.neg <;> simp only [if_true, if_false, Bool.false_eq_true] <;> (repeat' split) <;> simp
    · rw [cmpTotal_infinite d x hdf (hf ▸ hdf) hn]; simp
    · rw [cmpTotal_nan d x (by simp [hdf]) (by simp [hdf]) hf hn]; exact cmpNat_range _ _
    · rw [cmpTotal_nan d x (by simp [hdf]) (by simp [hdf]) hf hn]; exact cmpNat_range _ _
  · right; right; exact cmpTotal_of_gt d x h

theorem C15_total_antisymm (d x : Dec) : x.cmpTotal d = - d.cmpTotal x := by
  rcases Int.lt_trichotomy d.cmpOrder x.cmpOrder with h | h | h
  · rw [cmpTotal_of_lt d x h, cmpTotal_of_gt x d h]; rfl
  · obtain ⟨hf, hn⟩ := (cmpOrder_eq_iff d x).1 h
    cases hdf : d.form
    · have hxf : x.form = .finite := hf ▸ hdf
      rw [cmpTotal_finite d x hdf hxf hn (min d.exp x.exp) (Int.min_le_left ..) (Int.min_le_right ..),
        cmpTotal_finite x d hxf hdf hn.symm (min d.exp x.exp) (Int.min_le_right ..) (Int.min_le_left ..),
        ← hn]
      generalize signedScaled d (min d.exp x.exp) = A
      generalize signedScaled x (min d.exp x.exp) = B
      cases d.neg <;> simp only [if_true, if_false, Bool.false_eq_true] <;> (repeat' split) <;> omega
    · rw [cmpTotal_infinite d x hdf (hf ▸ hdf) hn, cmpTotal_infinite x d (hf ▸ hdf) hdf hn.symm]; rfl
    · rw [cmpTotal_nan d x (by simp [hdf]) (by simp [hdf]) hf hn,
        cmpTotal_nan x d (by simp [← hf, hdf]) (by simp [← hf, hdf]) hf.symm hn.symm, cmpNat_antisymm]
    · rw [cmpTotal_nan d x (by simp [hdf]) (by simp [hdf]) hf hn,
        cmpTotal_nan x d (by simp [← hf, hdf]) (by simp [← hf, hdf]) hf.symm hn.symm, cmpNat_antisymm]
  · rw [cmpTotal_of_gt d x h, cmpTotal_of_lt x d h]

theorem C15_total_zero_iff (d x : Dec) : d.cmpTotal x = 0 ↔ sameRepr d x := by
  unfold sameRepr
  rcases Int.lt_trichotomy d.cmpOrder x.cmpOrder with h | h | h
  · rw [cmpTotal_of_lt d x h]
    constructor
    · intro h0; simp at h0
    · rintro ⟨hf, hn, _⟩
      have := (cmpOrder_eq_iff d x).2 ⟨hf, hn⟩; omega
  · obtain ⟨hf, hn⟩ := (cmpOrder_eq_iff d x).1 h
    cases hdf : d.form
    · have hxf : x.form = .finite := hf ▸ hdf
      rw [cmpTotal_finite d x hdf hxf hn (min d.exp x.exp) (Int.min_le_left ..) (Int.min_le_right ..)]
      simp only [← hf, hdf, hn, true_and]
      constructor
      · intro h0
        have he : d.exp = x.exp := by
          revert h0; cases x.neg <;> simp only [if_true, if_false, Bool.false_eq_true] <;> (repeat' split) <;> omega
        have hA : signedScaled d (min d.exp x.exp) = signedScaled x (min d.exp x.exp) := by
          revert h0; cases x.neg <;> simp only [if_true, if_false, Bool.false_eq_true] <;> (repeat' split) <;> omega
        exact ⟨signedScaled_inj d x _ hn he hA, he⟩
      · rintro ⟨hc, he⟩
        rw [signedScaled_congr d x _ hn he hc, he]; simp
    · rw [cmpTotal_infinite d x hdf (hf ▸ hdf) hn]; simp [← hf, hdf, hn]
    · rw [cmpTotal_nan d x (by simp [hdf]) (by simp [hdf]) hf hn, cmpNat_eq_zero_iff]
      simp [← hf, hdf, hn]
    · rw [cmpTotal_nan d x (by simp [hdf]) (by simp [hdf]) hf hn, cmpNat_eq_zero_iff]
      simp [← hf, hdf, hn]
  · rw [cmpTotal_of_gt d x h]
    constructor
    · intro h0; simp at h0
    · rintro ⟨hf, hn, _⟩
      have := (cmpOrder_eq_iff d x).2 ⟨hf, hn⟩; omega

theorem C15_total_trans (d x y : Dec) (h1 : d.cmpTotal x ≤ 0) (h2 : x.cmpTotal y ≤ 0) :
    d.cmpTotal y ≤ 0 := by
  have hdx : d.cmpOrder ≤ x.cmpOrder := by
    apply Int.not_lt.1; intro hlt; rw [cmpTotal_of_gt d x hlt] at h1; omega
  have hxy : x.cmpOrder ≤ y.cmpOrder := by
    apply Int.not_lt.1; intro hlt; rw [cmpTotal_of_gt x y hlt] at h2; omega
  by_cases hlt : d.cmpOrder < y.cmpOrder
  · rw [cmpTotal_of_lt d y hlt]; omega
  · have e1 : d.cmpOrder = x.cmpOrder := by omega
    have e2 : x.cmpOrder = y.cmpOrder := by omega
    obtain ⟨hf1, hn1⟩ := (cmpOrder_eq_iff d x).1 e1
    obtain ⟨hf2, hn2⟩ := (cmpOrder_eq_iff x y).1 e2
    cases hdf : d.form
    · have hxf : x.form = .finite := hf1 ▸ hdf
      have hyf : y.form = .finite := hf2 ▸ hxf
      have m1 : min d.exp (min x.exp y.exp) ≤ d.exp := by omega
      have m2 : min d.exp (min x.exp y.exp) ≤ x.exp := by omega
      have m3 : min d.exp (min x.exp y.exp) ≤ y.exp := by omega
      rw [cmpTotal_finite_le d x hdf hxf hn1 _ m1 m2] at h1
      rw [cmpTotal_finite_le x y hxf hyf hn2 _ m2 m3, ← hn1] at h2
      rw [cmpTotal_finite_le d y hdf hyf (hn1.trans hn2) _ m1 m3]
      generalize signedScaled d (min d.exp (min x.exp y.exp)) = A at h1 h2 ⊢
      generalize signedScaled x (min d.exp (min x.exp y.exp)) = B at h1 h2 ⊢
      generalize signedScaled y (min d.exp (min x.exp y.exp)) = C at h1 h2 ⊢
      revert h1 h2
      cases d.neg <;> simp only [if_true, if_false, Bool.false_eq_true] <;> omega
    · rw [cmpTotal_infinite d y hdf (hf2 ▸ hf1 ▸ hdf) (hn1.trans hn2)]; omega
    · rw [cmpTotal_nan d x (by simp [hdf]) (by simp [hdf]) hf1 hn1, cmpNat_le_zero_iff] at h1
      rw [cmpTotal_nan x y (by simp [← hf1, hdf]) (by simp [← hf1, hdf]) hf2 hn2, cmpNat_le_zero_iff] at h2
      rw [cmpTotal_nan d y (by simp [hdf]) (by simp [hdf]) (hf1.trans hf2) (hn1.trans hn2), cmpNat_le_zero_iff]
      omega
    · rw [cmpTotal_nan d x (by simp [hdf]) (by simp [hdf]) hf1 hn1, cmpNat_le_zero_iff] at h1
      rw [cmpTotal_nan x y (by simp [← hf1, hdf]) (by simp [← hf1, hdf]) hf2 hn2, cmpNat_le_zero_iff] at h2
      rw [cmpTotal_nan d y (by simp [hdf]) (by simp [hdf]) (hf1.trans hf2) (hn1.trans hn2), cmpNat_le_zero_iff]
      omega

/-- CmpTotal agrees with Cmp on numerically different numbers -/
theorem C15_total_agrees (d x : Dec) (hd : d.isNaN = false) (hx : x.isNaN = false)
    (h : specCmp d x ≠ 0) : d.cmpTotal x = specCmp d x := by
  cases hdf : d.form
  · cases hxf : x.form
    · rw [specCmp_finite d x hdf hxf] at h ⊢
      cases hdn : d.neg <;> cases hxn : x.neg
      · rw [cmpTotal_finite d x hdf hxf (hdn.trans hxn.symm) _ (Int.min_le_left ..) (Int.min_le_right ..)]
        rcases Int.lt_trichotomy (signedScaled d (min d.exp x.exp)) (signedScaled x (min d.exp x.exp))
          with hl | hl | hl
        · rw [cmpInt_lt hl]; simp [hl]
        · rw [cmpInt_eq hl] at h; contradiction
        · rw [cmpInt_gt hl]
          have : ¬ signedScaled d (min d.exp x.exp) < signedScaled x (min d.exp x.exp) := by omega
          simp [hl, this]
      · have ho : x.cmpOrder < d.cmpOrder := by simp [Dec.cmpOrder, hdf, hxf, hdn, hxn]
        have hA := signedScaled_nonneg d (min d.exp x.exp) hdn
        have hB := signedScaled_nonpos x (min d.exp x.exp) hxn
        have hne : signedScaled d (min d.exp x.exp) ≠ signedScaled x (min d.exp x.exp) :=
          fun he => h (cmpInt_eq he)
        rw [cmpTotal_of_gt d x ho, cmpInt_gt (by omega)]
      · have ho : d.cmpOrder < x.cmpOrder := by simp [Dec.cmpOrder, hdf, hxf, hdn, hxn]
        have hA := signedScaled_nonpos d (min d.exp x.exp) hdn
        have hB := signedScaled_nonneg x (min d.exp x.exp) hxn
        have hne : signedScaled d (min d.exp x.exp) ≠ signedScaled x (min d.exp x.exp) :=
          fun he => h (cmpInt_eq he)
        rw [cmpTotal_of_lt d x ho, cmpInt_lt (by omega)]
      · rw [cmpTotal_finite d x hdf hxf (hdn.trans hxn.symm) _ (Int.min_le_left ..) (Int.min_le_right ..)]
        rcases Int.lt_trichotomy (signedScaled d (min d.exp x.exp)) (signedScaled x (min d.exp x.exp))
          with hl | hl | hl
        · rw [cmpInt_lt hl]; simp [hl]
        · rw [cmpInt_eq hl] at h; contradiction
        · rw [cmpInt_gt hl]
          have : ¬ signedScaled d (min d.exp x.exp) < signedScaled x (min d.exp x.exp) := by omega
          simp [hl, this]
    · cases hdn : d.neg <;> cases hxn : x.neg <;>
        simp [Dec.cmpTotal, Dec.cmpOrder, specCmp, hdf, hxf, hdn, hxn]
    · simp [Dec.isNaN, hxf] at hx
    · simp [Dec.isNaN, hxf] at hx
  · cases hxf : x.form
    · cases hdn : d.neg <;> cases hxn : x.neg <;>
        simp [Dec.cmpTotal, Dec.cmpOrder, specCmp, hdf, hxf, hdn, hxn]
    · revert h
      cases hdn : d.neg <;> cases hxn : x.neg <;>
        simp [Dec.cmpTotal, Dec.cmpOrder, specCmp, cmpInt, hdf, hxf, hdn, hxn]
    · simp [Dec.isNaN, hxf] at hx
    · simp [Dec.isNaN, hxf] at hx
  · simp [Dec.isNaN, hdf] at hd
  · simp [Dec.isNaN, hdf] at hd

/-- equal-valued finite representations are ordered by exponent, reversed for negatives -/
theorem C15_total_exponent (d x : Dec) (hd : d.form = .finite) (hx : x.form = .finite)
    (hn : d.neg = x.neg) (h : specCmp d x = 0) (he : d.exp < x.exp) :
    d.cmpTotal x = (if d.neg then 1 else -1) := by
  have hA := (cmpInt_eq_zero_iff _ _).1 (specCmp_finite d x hd hx ▸ h)
  rw [cmpTotal_finite d x hd hx hn (min d.exp x.exp) (Int.min_le_left ..) (Int.min_le_right ..)]
  simp [hA, he]

/-- -NaN < -sNaN < -Inf < -finite < +finite < +Inf < +sNaN < +NaN -/
theorem C15_total_forms (d x : Dec) (h : d.cmpOrder < x.cmpOrder) : d.cmpTotal x = -1 := by
  exact cmpTotal_of_lt d x h

example : ({ coeff := 1230, exp := -3 } : Dec).cmp { coeff := 123, exp := -2 } = 0 := by decide
example : ({ coeff := 1230, exp := -3 } : Dec).cmpTotal { coeff := 123, exp := -2 } = -1 := by decide

#print axioms C15_cmp
#print axioms C15_ctxCmp
#print axioms C15_total_range
#print axioms C15_total_antisymm
#print axioms C15_total_zero_iff
#print axioms C15_total_trans
#print axioms C15_total_agrees
#print axioms C15_total_exponent
#print axioms C15_total_forms

end Apd.Props
