import ApdVerif.Props.C14
import ApdVerif.Props.RoundCore
import ApdVerif.Lemmas.C01ParseLemmas
/-!
# C01 — context-aware parsing returns the denoted value rounded once

`Context.SetString` / `Context.NewFromString` (`Text.ctxSetString`): for a string of the numeric-string
grammar that denotes a finite number — coefficient `coeffOf`, exponent `denotedExp`, negative iff it is
written with a leading `-` (`Spec/Grammar.lean`, transcribed from the specification) — the delivered
result is that number rounded once to the context (`specRound`), with the flags of the specification
and fitting the context: the same `Agrees` as for the arithmetic operations.
-/
namespace Apd.Props
open Apd Apd.Oracle Apd.Spec Apd.Text Apd.TextL Apd.GramL

/-- the sign the specification assigns: a leading `-` -/
def writtenNeg (l : List Char) : Bool := l.head? == some '-'

/-- the parser returns the written sign (strengthens `parse_classify`, which leaves the sign open) -/
theorem C01_parse_sign {l : List Char} (hg : numericString l = true) (hr : ExpInt32L l) (hs : isSpecial l = false) :
    Text.parseL l = some ({ form := .finite, neg := writtenNeg l, exp := 0, coeff := coeffOf l }, denotedExp l) := by
  rw [numericString_iff] at hg
  obtain ⟨sg, t, rfl, hsg, hb⟩ := hg
  have hf : FinBody t := by
    rcases hb with hf | hb
    · exact hf
    · exfalso
      have : isSpecial (sg ++ t) = true := by rw [isSpecial_iff]; exact ⟨sg, t, rfl, hsg, hb⟩
      rw [hs] at this; cases this
  have hh := body_headOK (Or.inl hf : FinBody t ∨ InfBody t ∨ NanBody t)
  rw [parseL_eq, splitSign_optSign hsg hh]
  unfold writtenNeg
  rw [Apd.C01P.head_optSign hsg hh]
  exact finBody_parse_val hsg hf hr

/-!
## context-aware parsing = the denoted value rounded once

The statement as first given,

```
theorem C01_value_parse (c : Ctx) (hc : c.WF) (s : String) (hg : GdaNumeric s) (hr : ExpInt32 s)
    (hs : isSpecial s.toList = false) (o : Out) (h : Text.ctxSetString c s = some o)
    (hd : Delivered o.err) (hn : NoSys o.fl) :
    Agrees c { neg := writtenNeg s.toList, num := coeffOf s.toList, den := 1, e10 := denotedExp s.toList } o.d o.fl
```

is FALSE in one corner: when a condition raised by `setString`'s own `setExponent` (Subnormal,
Underflow, Inexact, Rounded, Clamped, Overflow) is trapped, `Decimal.setString` returns the error and
`Context.SetString` returns `nil, 0, err` before `c.round` runs: the model's outcome is
`{ d := (unrounded destination), fl := {}, err := .trap }`.  `Delivered` (err = trap) and `NoSys`
(fl = {}) hold, but the flags are empty and the destination was never rounded to the precision.
Counterexample (`counterexample` below): `c = { prec := 3, emax := 9, emin := -9, traps := { subnormal := true } }`,
`s = "1e-10"`: outcome `1E-10`, flags `{}`, error `trap`; the specification says Subnormal.

`C01_value_parse_partial` adds the hypothesis that separates this corner from the rest: the returned
error is the one the returned flags imply (`o.err = goError c.traps o.fl`).  It holds on every
other path by construction and fails in the corner (`goError _ {} = none ≠ trap`); it is implied by
`o.err = .none` (`C01_value_parse_noerr`) and by `o.fl ≠ {}`-style knowledge that `c.round` ran.
-/

/-- the corner in which the original statement fails -/
def cexCtx : Ctx := { prec := 3, emax := 9, emin := -9, traps := { subnormal := true } }

/-- the exact value the specification assigns to `"1e-10"` -/
def cexExact : Exact :=
  { neg := writtenNeg ("1e-10" : String).toList, num := coeffOf ("1e-10" : String).toList, den := 1,
    e10 := denotedExp ("1e-10" : String).toList }

theorem counterexample :
    cexCtx.WF ∧ GdaNumeric "1e-10" ∧ ExpInt32 "1e-10" ∧ isSpecial "1e-10".toList = false ∧
    ∃ o, Text.ctxSetString cexCtx "1e-10" = some o ∧ Delivered o.err ∧ NoSys o.fl ∧
      o.fl.subnormal = false ∧
      (specRound cexCtx cexExact).subnormal = true := by
  refine ⟨by decide, by decide, by decide, by decide, ?_⟩
  refine ⟨{ d := { form := .finite, neg := false, exp := -10, coeff := 1 }, fl := {}, err := .trap }, by decide,
    Or.inr rfl, ⟨rfl, rfl⟩, rfl, by decide⟩

/-- hence the original conclusion fails there (its Subnormal clause) -/
theorem counterexample_not_agrees :
    ∃ o, Text.ctxSetString cexCtx "1e-10" = some o ∧ Delivered o.err ∧ NoSys o.fl ∧
      ¬ Agrees cexCtx cexExact o.d o.fl := by
  obtain ⟨_, _, _, _, o, h1, h2, h3, h4, h5⟩ := counterexample
  refine ⟨o, h1, h2, h3, ?_⟩
  rintro ⟨_, hf, _⟩
  have := hf.2.1
  rw [h4, h5] at this
  cases this

/-- **context-aware parsing = the denoted value rounded once** (value, flags, fit), whenever the
error returned is the one the returned flags imply, i.e. outside the corner where a trap raised inside
`setString` makes `Context.SetString` return before rounding -/
theorem C01_value_parse_partial (c : Ctx) (hc : c.WF) (s : String) (hg : GdaNumeric s) (hr : ExpInt32 s)
    (hs : isSpecial s.toList = false) (o : Out) (h : Text.ctxSetString c s = some o)
    (hgo : o.err = goError c.traps o.fl) (hn : NoSys o.fl) :
    Agrees c { neg := writtenNeg s.toList, num := coeffOf s.toList, den := 1, e10 := denotedExp s.toList } o.d o.fl := by
  have hp := C01_parse_sign hg hr hs
  unfold Text.ctxSetString Text.setString Text.parse at h
  rw [hp] at h
  simp only [if_true] at h
  by_cases herr : goError c.traps
      (setExponent c { form := .finite, neg := writtenNeg s.toList, exp := 0, coeff := coeffOf s.toList } {}
        [denotedExp s.toList]).2 = .none
  · rw [if_pos herr] at h
    injection h with h
    subst h
    exact Apd.C01P.setThenRound c hc _ _ _ hn
  · rw [if_neg herr] at h
    injection h with h
    subst h
    exfalso
    simp only [] at hgo
    rw [Apd.C01P.goError_empty] at hgo
    exact herr hgo

/-- the two ways `Context.SetString` returns: after rounding (the error is the one the flags imply),
or early with `setString`'s error and no flags -/
theorem ctxSetString_cases (c : Ctx) (s : String) (o : Out) (h : Text.ctxSetString c s = some o) :
    o.err = goError c.traps o.fl ∨ (o.fl = {} ∧ o.err ≠ .none) := by
  unfold Text.ctxSetString at h
  cases hq : Text.setString c s with
  | none => rw [hq] at h; cases h
  | some o1 =>
    rw [hq] at h
    simp only [] at h
    by_cases he : o1.err = .none
    · rw [if_pos he] at h
      injection h with h
      subst h
      exact Or.inl rfl
    · rw [if_neg he] at h
      injection h with h
      subst h
      exact Or.inr ⟨rfl, he⟩

/-- in particular when no error is returned at all -/
theorem C01_value_parse_noerr (c : Ctx) (hc : c.WF) (s : String) (hg : GdaNumeric s) (hr : ExpInt32 s)
    (hs : isSpecial s.toList = false) (o : Out) (h : Text.ctxSetString c s = some o)
    (he : o.err = .none) :
    Agrees c { neg := writtenNeg s.toList, num := coeffOf s.toList, den := 1, e10 := denotedExp s.toList } o.d o.fl := by
  rcases ctxSetString_cases c s o h with hgo | ⟨_, hne⟩
  · have hd : Delivered (goError c.traps o.fl) := by rw [← hgo, he]; exact Or.inl rfl
    exact C01_value_parse_partial c hc s hg hr hs o h hgo (noSys_of_delivered _ _ hd)
  · exact absurd he hne

/-- … and whenever the result is delivered with at least one flag raised (so `c.round` ran) -/
theorem C01_value_parse_flags (c : Ctx) (hc : c.WF) (s : String) (hg : GdaNumeric s) (hr : ExpInt32 s)
    (hs : isSpecial s.toList = false) (o : Out) (h : Text.ctxSetString c s = some o)
    (hd : Delivered o.err) (hfl : o.fl ≠ {}) :
    Agrees c { neg := writtenNeg s.toList, num := coeffOf s.toList, den := 1, e10 := denotedExp s.toList } o.d o.fl := by
  rcases ctxSetString_cases c s o h with hgo | ⟨h0, _⟩
  · rw [hgo] at hd
    exact C01_value_parse_partial c hc s hg hr hs o h hgo (noSys_of_delivered _ _ hd)
  · exact absurd h0 hfl

/-- non-vacuity: `"-12.345e1"` (= -123.45) under precision 3 is `-123`, Inexact and Rounded, no error -/
example :
    Text.ctxSetString { prec := 3, emax := 9, emin := -9 } "-12.345e1" =
      some { d := { form := .finite, neg := true, exp := 0, coeff := 123 },
             fl := { inexact := true, rounded := true }, err := .none } := by decide

example : Agrees { prec := 3, emax := 9, emin := -9 }
    { neg := true, num := 12345, den := 1, e10 := -2 }
    { form := .finite, neg := true, exp := 0, coeff := 123 } { inexact := true, rounded := true } := by
  have h := C01_value_parse_noerr { prec := 3, emax := 9, emin := -9 } (by decide) "-12.345e1" (by decide) (by decide)
    (by decide) { d := { form := .finite, neg := true, exp := 0, coeff := 123 },
                  fl := { inexact := true, rounded := true }, err := .none } (by decide) rfl
  have e1 : writtenNeg ("-12.345e1" : String).toList = true := by decide
  have e2 : coeffOf ("-12.345e1" : String).toList = 12345 := by decide
  have e3 : denotedExp ("-12.345e1" : String).toList = -2 := by decide
  rw [e1, e2, e3] at h
  exact h

/-- non-vacuity in the subnormal range: `"1.2345e-10"`, rounded once at Etiny = -11 to `12E-11` -/
example :
    Text.ctxSetString { prec := 3, emax := 9, emin := -9 } "1.2345e-10" =
      some { d := { form := .finite, neg := false, exp := -11, coeff := 12 },
             fl := { inexact := true, rounded := true, subnormal := true, underflow := true }, err := .none } := by
  decide

#print axioms C01_parse_sign
#print axioms C01_value_parse_partial
#print axioms C01_value_parse_noerr
#print axioms C01_value_parse_flags
#print axioms counterexample_not_agrees

end Apd.Props
