import ApdVerif.Oracle.Interval
import ApdVerif.Lemmas.C12IntervalLemmas
import ApdVerif.Lemmas.C12IntervalExp
import ApdVerif.Lemmas.C12IntervalLn
import Mathlib.Analysis.SpecialFunctions.Exp
import Mathlib.Analysis.SpecialFunctions.Log.Basic
/-!
# Soundness of the interval enclosures used by the C12 oracles

`BF.val x = m · 10^e` as a real number.  Every directed operation bounds the exact result from the
proper side; hence the interval operations enclose the exact result for all points of their
operands, `expPoint` encloses `Real.exp`, and `lnPoint` encloses `Real.log`.

History: with the original `fastDigits` (fuel 4) the digit count was under-estimated for numbers of
more than ~196 000 digits (`fastDigits (10^300000) = 299999`), which made `C12I_fastDigits`,
`C12I_cmp`, `C12I_addDir`, `C12I_add`, `C12I_mul`, `C12I_expPoint`, `C12I_lnPoint` and
`C12I_certainlyOff` false for astronomically large mantissas.  `fastDigits` now uses the fuel
`bitlen/100000 + 4`, for which exactness is proved for ALL `n` (`C12I_fastDigits`), and all the
statements below hold exactly as originally stated.
-/
set_option linter.unusedVariables false
namespace Apd.Props
open Apd Apd.Oracle.Iv Apd.C12IL

noncomputable def bfVal (x : BF) : ℝ := (x.m : ℝ) * (10 : ℝ) ^ x.e

/-- `r` lies in the interval -/
def Encl (a : I) (r : ℝ) : Prop := bfVal a.lo ≤ r ∧ r ≤ bfVal a.hi

theorem bfVal_eq (x : BF) : bfVal x = bv x := rfl
theorem Encl_iff (a : I) (r : ℝ) : Encl a r ↔ Enc a r := Iff.rfl

theorem C12I_fastDigits (n : Nat) : fastDigits n = ndigits n := fastDigits_eq n

theorem C12I_rnd_down (W : Nat) (x : BF) : bfVal (rnd W true x) ≤ bfVal x := rnd_down W x

theorem C12I_rnd_up (W : Nat) (x : BF) : bfVal x ≤ bfVal (rnd W false x) := rnd_up W x

theorem C12I_cmp (a b : BF) : (a.cmp b < 0 ↔ bfVal a < bfVal b) ∧ (a.cmp b = 0 ↔ bfVal a = bfVal b) := by
  rw [bfVal_eq, bfVal_eq]
  rcases cmp_spec a b (fd a) (fd b) with ⟨h, k⟩ | ⟨h, k⟩ | ⟨h, k⟩ <;> rw [h]
  · exact ⟨⟨fun _ => k, fun _ => by decide⟩, ⟨fun h' => absurd h' (by decide), fun h' => absurd h' k.ne⟩⟩
  · exact ⟨⟨fun h' => absurd h' (by decide), fun h' => absurd k h'.ne⟩, ⟨fun _ => k, fun _ => rfl⟩⟩
  · exact ⟨⟨fun h' => absurd h' (by decide), fun h' => absurd h' (not_lt.2 k.le)⟩,
      ⟨fun h' => absurd h' (by decide), fun h' => absurd h' k.ne'⟩⟩

theorem C12I_addDir (W : Nat) (hW : 1 ≤ W) (a b : BF) :
    bfVal (addDir W true a b) ≤ bfVal a + bfVal b ∧ bfVal a + bfVal b ≤ bfVal (addDir W false a b) :=
  addDir_sound W a b

theorem C12I_mulDir (W : Nat) (a b : BF) :
    bfVal (mulDir W true a b) ≤ bfVal a * bfVal b ∧ bfVal a * bfVal b ≤ bfVal (mulDir W false a b) :=
  ⟨mulDir_down W a b, mulDir_up W a b⟩

theorem C12I_divDir (W : Nat) (a b : BF) (hb : b.m ≠ 0) :
    bfVal (divDir W true a b) ≤ bfVal a / bfVal b ∧ bfVal a / bfVal b ≤ bfVal (divDir W false a b) :=
  ⟨divDir_down W a b hb, divDir_up W a b hb⟩

theorem C12I_add (W : Nat) (hW : 1 ≤ W) (a b : I) (r s : ℝ) (hr : Encl a r) (hs : Encl b s) :
    Encl (I.add W a b) (r + s) :=
  add_sound W a b r s hr hs

theorem C12I_mul (W : Nat) (a b : I) (r s : ℝ) (hr : Encl a r) (hs : Encl b s) :
    Encl (I.mul W a b) (r * s) :=
  mul_sound W a b r s hr hs

theorem C12I_divPos (W : Nat) (a b : I) (r s : ℝ) (hr : Encl a r) (hs : Encl b s) (hpos : 0 < bfVal b.lo) :
    Encl (I.divPos W a b) (r / s) :=
  divPos_sound W a b r s hr hs hpos

/-- the Taylor polynomial with its remainder bound encloses exp on `|r| ≤ 1/2` -/
theorem C12I_expTaylor (W : Nat) (hW : 1 ≤ W) (r : BF) (k : Nat) (hk : 1 ≤ k) (hr : |bfVal r| ≤ 1 / 2) :
    Encl (expTaylor W r k) (Real.exp (bfVal r)) :=
  expTaylor_sound W r k hk (by rw [bfVal_eq] at hr; linarith)

/-- `expPoint` encloses the exponential -/
theorem C12I_expPoint (W : Nat) (hW : 1 ≤ W) (x : BF) : Encl (expPoint W x) (Real.exp (bfVal x)) :=
  expPoint_sound W x

/-- `lnPoint` encloses the natural logarithm of a positive argument -/
theorem C12I_lnPoint (W : Nat) (hW : 1 ≤ W) (x : BF) (hx : 0 < x.m) : Encl (lnPoint W x) (Real.log (bfVal x)) :=
  lnPoint_sound W hW x hx

/-- by-products: the cached constants enclose `ln 2` and `ln 10` -/
theorem C12I_ln2 (W : Nat) : Encl (ln2C W) (Real.log 2) := by rw [ln2C_eq]; exact ln2I_sound W
theorem C12I_ln10 (W : Nat) : Encl (ln10C W) (Real.log 10) := by rw [ln10C_eq]; exact ln10I_sound W

/-- the only verdict the oracle turns into a failure is sound: if `certainlyOff` holds, the value is
more than `tol` away from every point of the enclosure -/
theorem C12I_certainlyOff (W : Nat) (hW : 1 ≤ W) (v : BF) (enc : I) (tol : BF) (r : ℝ) (hr : Encl enc r)
    (h : certainlyOff W v enc tol = true) : bfVal tol < |bfVal v - r| :=
  certainlyOff_sound W v enc tol r hr h

#print axioms C12I_fastDigits
#print axioms C12I_rnd_down
#print axioms C12I_rnd_up
#print axioms C12I_cmp
#print axioms C12I_addDir
#print axioms C12I_mulDir
#print axioms C12I_divDir
#print axioms C12I_add
#print axioms C12I_mul
#print axioms C12I_divPos
#print axioms C12I_expTaylor
#print axioms C12I_expPoint
#print axioms C12I_lnPoint
#print axioms C12I_ln2
#print axioms C12I_ln10
#print axioms C12I_certainlyOff

end Apd.Props
