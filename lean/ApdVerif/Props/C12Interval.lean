import ApdVerif.Oracle.Interval
import Mathlib.Analysis.SpecialFunctions.Exp
import Mathlib.Analysis.SpecialFunctions.Log.Basic
/-!
# Soundness of the interval enclosures used by the C12 oracles

`BF.val x = m · 10^e` as a real number.  Every directed operation bounds the exact result from the
proper side; hence the interval operations enclose the exact result for all points of their
operands, `expPoint` encloses `Real.exp`, and `lnPoint` encloses `Real.log`.
-/
namespace Apd.Props
open Apd Apd.Oracle.Iv

noncomputable def bfVal (x : BF) : ℝ := (x.m : ℝ) * (10 : ℝ) ^ x.e

/-- `r` lies in the interval -/
def Encl (a : I) (r : ℝ) : Prop := bfVal a.lo ≤ r ∧ r ≤ bfVal a.hi

theorem C12I_fastDigits (n : Nat) : fastDigits n = ndigits n := by
  sorry

theorem C12I_rnd_down (W : Nat) (x : BF) : bfVal (rnd W true x) ≤ bfVal x := by
  sorry

theorem C12I_rnd_up (W : Nat) (x : BF) : bfVal x ≤ bfVal (rnd W false x) := by
  sorry

theorem C12I_cmp (a b : BF) : (a.cmp b < 0 ↔ bfVal a < bfVal b) ∧ (a.cmp b = 0 ↔ bfVal a = bfVal b) := by
  sorry

theorem C12I_addDir (W : Nat) (hW : 1 ≤ W) (a b : BF) :
    bfVal (addDir W true a b) ≤ bfVal a + bfVal b ∧ bfVal a + bfVal b ≤ bfVal (addDir W false a b) := by
  sorry

theorem C12I_mulDir (W : Nat) (a b : BF) :
    bfVal (mulDir W true a b) ≤ bfVal a * bfVal b ∧ bfVal a * bfVal b ≤ bfVal (mulDir W false a b) := by
  sorry

theorem C12I_divDir (W : Nat) (a b : BF) (hb : b.m ≠ 0) :
    bfVal (divDir W true a b) ≤ bfVal a / bfVal b ∧ bfVal a / bfVal b ≤ bfVal (divDir W false a b) := by
  sorry

theorem C12I_add (W : Nat) (hW : 1 ≤ W) (a b : I) (r s : ℝ) (hr : Encl a r) (hs : Encl b s) :
    Encl (I.add W a b) (r + s) := by
  sorry

theorem C12I_mul (W : Nat) (a b : I) (r s : ℝ) (hr : Encl a r) (hs : Encl b s) :
    Encl (I.mul W a b) (r * s) := by
  sorry

theorem C12I_divPos (W : Nat) (a b : I) (r s : ℝ) (hr : Encl a r) (hs : Encl b s) (hpos : 0 < bfVal b.lo) :
    Encl (I.divPos W a b) (r / s) := by
  sorry

/-- the Taylor polynomial with its remainder bound encloses exp on `|r| ≤ 1/2` -/
theorem C12I_expTaylor (W : Nat) (hW : 1 ≤ W) (r : BF) (k : Nat) (hk : 1 ≤ k) (hr : |bfVal r| ≤ 1 / 2) :
    Encl (expTaylor W r k) (Real.exp (bfVal r)) := by
  sorry

/-- `expPoint` encloses the exponential -/
theorem C12I_expPoint (W : Nat) (hW : 1 ≤ W) (x : BF) : Encl (expPoint W x) (Real.exp (bfVal x)) := by
  sorry

/-- `lnPoint` encloses the natural logarithm of a positive argument -/
theorem C12I_lnPoint (W : Nat) (hW : 1 ≤ W) (x : BF) (hx : 0 < x.m) : Encl (lnPoint W x) (Real.log (bfVal x)) := by
  sorry

/-- the only verdict the oracle turns into a failure is sound: if `certainlyOff` holds, the value is
more than `tol` away from every point of the enclosure -/
theorem C12I_certainlyOff (W : Nat) (hW : 1 ≤ W) (v : BF) (enc : I) (tol : BF) (r : ℝ) (hr : Encl enc r)
    (h : certainlyOff W v enc tol = true) : bfVal tol < |bfVal v - r| := by
  sorry

end Apd.Props
