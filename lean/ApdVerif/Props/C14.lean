import ApdVerif.Lemmas.C14Lemmas
import ApdVerif.Props.C13
/-!
# C14 — String is the GDA to-scientific-string; the parser accepts exactly the grammar
-/
namespace Apd.Props
open Apd Apd.Text Apd.Spec Apd.TextL Apd.GramL

theorem coefString_eq (n : Nat) : coefString n = natDigits n := by
  simp [coefString, natDigits]

theorem fmtE_sci (fmt : Char) (d : Dec) (ds : List Char) (hds : 1 ≤ ds.length) :
    fmtE fmt d ds =
      (if ds.length > 1 then List.take 1 ds ++ ['.'] ++ List.drop 1 ds else ds) ++ [fmt] ++
        (if d.exp + ((ds.length : Int) - 1) < 0 then ['-'] else ['+']) ++
        coefString (d.exp + ((ds.length : Int) - 1)).natAbs := by
  unfold fmtE
  simp only []
  rw [coefString_eq]
  have e1 : d.exp + (ds.length : Int) - 1 = d.exp + ((ds.length : Int) - 1) := by omega
  rw [e1]
  generalize d.exp + ((ds.length : Int) - 1) = adj
  have ha1 : adj < 0 → (-adj).toNat = adj.natAbs := by omega
  have ha2 : ¬ adj < 0 → adj.toNat = adj.natAbs := by omega
  cases ds with
  | nil => simp at hds
  | cons c rest =>
    cases rest with
    | nil => by_cases ha : adj < 0 <;> simp [ha, ha1, ha2]
    | cons c2 r2 => by_cases ha : adj < 0 <;> simp [ha, ha1, ha2]

theorem fmtF_plain (d : Dec) (ds : List Char) (hds : 1 ≤ ds.length) (he : d.exp ≤ 0) :
    fmtF d ds =
      if d.exp = 0 then ds
      else
        (if (List.take ((List.replicate (d.exp.natAbs - ds.length) '0' ++ ds).length - d.exp.natAbs)
              (List.replicate (d.exp.natAbs - ds.length) '0' ++ ds)).isEmpty = true then ['0']
         else List.take ((List.replicate (d.exp.natAbs - ds.length) '0' ++ ds).length - d.exp.natAbs)
              (List.replicate (d.exp.natAbs - ds.length) '0' ++ ds)) ++ ['.'] ++
          List.drop ((List.replicate (d.exp.natAbs - ds.length) '0' ++ ds).length - d.exp.natAbs)
            (List.replicate (d.exp.natAbs - ds.length) '0' ++ ds) := by
  unfold fmtF
  by_cases h0 : d.exp = 0
  · simp [h0, zeros]
  · have hneg : d.exp < 0 := by omega
    simp only [hneg, h0, if_true, if_false]
    by_cases hl : -d.exp - (ds.length : Int) ≥ 0
    · rw [if_pos hl]
      have e1 : (List.replicate (d.exp.natAbs - ds.length) '0' ++ ds).length - d.exp.natAbs = 0 := by
        simp; omega
      have e2 : (-d.exp - (ds.length : Int)).toNat = d.exp.natAbs - ds.length := by omega
      rw [e1, e2]; simp [zeros]
    · rw [if_neg hl]
      have e0 : d.exp.natAbs - ds.length = 0 := by omega
      have e2 : (-(-d.exp - (ds.length : Int))).toNat = ds.length - d.exp.natAbs := by omega
      have e3 : ¬ (ds.length - d.exp.natAbs = 0) := by omega
      have e4 : ds ≠ [] := by intro h; simp [h] at hds
      rw [e0, e2]; simp [e3, e4]

/-- the documented exception: zeros with exponent in [-2000,-1] are written in plain notation.
(For exponents -6 … -1 that *is* the scientific string, so the two differ only on [-2000,-7].) -/
def ZeroPlainException (d : Dec) : Prop :=
  d.form = .finite ∧ d.coeff = 0 ∧ -2000 ≤ d.exp ∧ d.exp ≤ -7

theorem appendL_G_toSciL (d : Dec) (h : ¬ ZeroPlainException d) : appendL d 'G' = toSciL d := by
  unfold appendL toSciL
  cases hf : d.form <;> simp only []
  -- finite
  rw [coefString_eq]
  have hL := natDigits_length d.coeff
  have hpos := ndigits_pos d.coeff
  have hz : d.coeff = 0 → ndigits d.coeff = 1 := by intro h0; rw [h0]; decide
  have hex : ¬ (d.coeff = 0 ∧ -2000 ≤ d.exp ∧ d.exp ≤ -7) := fun hh => h ⟨hf, hh⟩
  simp only [show ('G' : Char) ≠ 'e' by decide, show ('G' : Char) ≠ 'E' by decide, show ('G' : Char) ≠ 'f' by decide,
    show ('G' : Char) ≠ 'g' by decide, or_true, if_true, if_false, or_self,
    lowestZeroNegativeCoefficientCockroach, adjExponentLimit]
  generalize natDigits d.coeff = ds at *
  have hds : 1 ≤ ds.length := by omega
  have hcond : (d.exp ≤ 0 ∧
          d.exp + ((if d.coeff = 0 ∧ d.exp ≥ -2000 ∧ d.exp < 0 then (ds.length : Int) + -d.exp else (ds.length : Int)) - 1) ≥ -6)
      ↔ (d.exp ≤ 0 ∧ d.exp + ((ds.length : Int) - 1) ≥ -6) := by
    by_cases hc : d.coeff = 0 ∧ d.exp ≥ -2000 ∧ d.exp < 0
    · rw [if_pos hc]
      have := hz hc.1
      constructor
      · rintro ⟨a, b⟩
        refine ⟨a, ?_⟩
        by_contra hh
        exact hex ⟨hc.1, by omega, by omega⟩
      · rintro ⟨a, b⟩; exact ⟨a, by omega⟩
    · rw [if_neg hc]
  simp only [hcond]
  by_cases hp : d.exp ≤ 0 ∧ d.exp + ((ds.length : Int) - 1) ≥ -6
  · rw [if_pos hp, if_pos hp, fmtF_plain d ds hds hp.1]
    by_cases h0 : d.exp = 0
    · simp [h0]
    · simp only [h0, if_false, List.append_assoc]
  · rw [if_neg hp, if_neg hp, fmtE_sci 'E' d ds hds]
    simp only [List.append_assoc]


/-- **C14 (a)**: `String()` is the GDA to-scientific-string, for every decimal of every form,
except zeros with exponent in [-2000,-7] (see `C14_string_zero_plain`). -/
theorem C14_string_toSci (d : Dec) (h : ¬ ZeroPlainException d) : Text.string d = Spec.toSci d := by
  unfold Text.string Text.append Spec.toSci
  rw [appendL_G_toSciL d h]

/-- special values (no exception there) -/
theorem C14_string_toSci_special (d : Dec) (h : d.form ≠ .finite) : Text.string d = Spec.toSci d :=
  C14_string_toSci d (fun hh => h hh.1)

/-- the documented exception: a zero with exponent `-k`, `1 ≤ k ≤ 2000`, is written `0.` followed by
`k` zeros (with its sign) -/
theorem C14_string_zero_plain (d : Dec) (hf : d.form = .finite) (hc : d.coeff = 0)
    (h1 : -2000 ≤ d.exp) (h2 : d.exp < 0) :
    Text.string d = String.ofList ((if d.neg then ['-'] else []) ++ '0' :: '.' :: List.replicate d.exp.natAbs '0') := by
  unfold Text.string Text.append
  congr 1
  unfold appendL
  simp only [hf]
  simp only [show ('G' : Char) ≠ 'e' by decide, show ('G' : Char) ≠ 'E' by decide, show ('G' : Char) ≠ 'f' by decide,
    show ('G' : Char) ≠ 'g' by decide, or_true, if_true, if_false, or_self,
    lowestZeroNegativeCoefficientCockroach, adjExponentLimit]
  rw [hc, natDigits_zero]
  have hcnd : (0 = 0 ∧ d.exp ≥ -2000 ∧ d.exp < 0) := ⟨rfl, h1, h2⟩
  rw [if_pos hcnd]
  have : d.exp ≤ 0 ∧ d.exp + ((([('0' : Char)].length : Nat) : Int) + -d.exp - 1) ≥ -6 := by
    simp; omega
  rw [if_pos this]
  congr 1
  unfold fmtF
  simp only [h2, if_true]
  have hl : -d.exp - ((([('0' : Char)].length : Nat) : Int)) ≥ 0 := by simp; omega
  rw [if_pos hl]
  have e : (-d.exp - ((([('0' : Char)].length : Nat) : Int))).toNat + 1 = d.exp.natAbs := by simp; omega
  rw [← e]
  simp [zeros, List.replicate_succ']

#print axioms C14_string_toSci
#print axioms C14_string_zero_plain

/-! ## (b) the parser accepts exactly the grammar -/

/-- **C14 (b)**: `setString` gets past its parsing stage (everything before `setExponent`) exactly on
the strings of the GDA numeric-string grammar whose written exponent `strconv.ParseInt(_, 10, 32)`
can represent. -/
theorem C14_parse_accepts_iff (s : String) :
    (Text.parse s).isSome = true ↔ (GdaNumeric s ∧ ExpInt32 s) :=
  parseL_isSome_iff s.toList

/-- on a string of the grammar, what the parser returns is the denotation the specification
assigns to the string -/
theorem parse_classify {l : List Char} (hg : numericString l = true) (hr : ExpInt32L l) :
    (isSpecial l = true ∧ ∃ d, parseL l = some (d, 0) ∧ d.form ≠ .finite ∧ d.exp = 0 ∧ d.coeff = 0) ∨
    (isSpecial l = false ∧ ∃ neg, parseL l =
      some ({ form := .finite, neg := neg, exp := 0, coeff := coeffOf l }, denotedExp l)) := by
  have hspec : isSpecial l = true → ∃ d, parseL l = some (d, 0) ∧ d.form ≠ .finite ∧ d.exp = 0 ∧ d.coeff = 0 := by
    intro hs
    rw [isSpecial_iff] at hs
    obtain ⟨sg, t, rfl, hsg, hb⟩ := hs
    have hb' : FinBody t ∨ InfBody t ∨ NanBody t := Or.inr hb
    rw [parseL_eq, splitSign_optSign hsg (body_headOK hb')]
    exact special_parse_val hb
  by_cases hs : isSpecial l = true
  · exact Or.inl ⟨hs, hspec hs⟩
  · right
    have hs' : isSpecial l = false := by simpa using hs
    refine ⟨hs', ?_⟩
    rw [numericString_iff] at hg
    obtain ⟨sg, t, rfl, hsg, hb⟩ := hg
    rcases hb with hf | hb
    · refine ⟨decide (sg = ['-']), ?_⟩
      have hb' : FinBody t ∨ InfBody t ∨ NanBody t := Or.inl hf
      rw [parseL_eq, splitSign_optSign hsg (body_headOK hb')]
      exact finBody_parse_val hsg hf hr
    · exfalso
      apply hs
      rw [isSpecial_iff]
      exact ⟨sg, t, rfl, hsg, hb⟩

/-- the limits of `Dec.WF` for a coefficient and an exponent -/
def Lim (co : Nat) (e : Int) : Prop :=
  -100000 ≤ e ∧ e ≤ 100000 ∧ -100000 ≤ e + (ndigits co : Int) - 1 ∧ e + (ndigits co : Int) - 1 ≤ 100000

theorem setExponent_base_ok (neg : Bool) (co : Nat) (e : Int) (h : Lim co e) :
    setExponent baseCtx { form := .finite, neg := neg, exp := 0, coeff := co } {} [e] =
      ({ form := .finite, neg := neg, exp := e, coeff := co }, {}) := by
  obtain ⟨h1, h2, h3, h4⟩ := h
  have e1 : ¬ e > 100000 := by omega
  have e2 : ¬ e < -100000 := by omega
  have e3 : ¬ e + (ndigits co : Int) - 1 > 100000 := by omega
  have e4 : ¬ e + (ndigits co : Int) - 1 < -100000 := by omega
  simp only [setExponent, checkXs, sumInts, baseCtx, MaxExponent, MinExponent, seFinish, e1, e2, e3, e4,
    if_false, Int.add_zero]
  simp

theorem setExponent_base_sys (neg : Bool) (co : Nat) (e : Int) (h : ¬ Lim co e) :
    goError baseCtx.traps (setExponent baseCtx { form := .finite, neg := neg, exp := 0, coeff := co } {} [e]).2 = .sys := by
  unfold Lim at h
  simp only [setExponent, checkXs, sumInts, baseCtx, MaxExponent, MinExponent, Int.add_zero]
  by_cases e1 : e > 100000
  · simp only [e1, if_true]; rfl
  · by_cases e2 : e < -100000
    · simp only [e1, e2, if_true, if_false]; rfl
    · simp only [e1, e2, if_false]
      by_cases e3 : e + (ndigits co : Int) - 1 > 100000
      · simp only [e3, if_true]; rfl
      · by_cases e4 : e + (ndigits co : Int) - 1 < -100000
        · simp only [e3, e4, if_true, if_false]; rfl
        · exfalso; apply h; omega

/-- `Context.SetString` returned without error -/
def Succeeds (o : Option Out) : Prop := ∃ r, o = some r ∧ r.err = .none

theorem ctxSetString_special {s : String} {d : Dec} (hp : Text.parse s = some (d, 0)) (hf : d.form ≠ .finite)
    (he : d.exp = 0) (hc : d.coeff = 0) : Succeeds (Text.ctxSetString baseCtx s) := by
  have hw : d.WF := by unfold Dec.WF; rw [he, hc]; decide
  unfold Succeeds Text.ctxSetString Text.setString
  rw [hp]
  simp only [hf, if_false, if_true]
  rw [ctxRound_base d hw]
  exact ⟨_, rfl, rfl⟩

theorem ctxSetString_finite {s : String} {neg : Bool} {co : Nat} {e : Int}
    (hp : Text.parse s = some ({ form := .finite, neg := neg, exp := 0, coeff := co }, e)) :
    Succeeds (Text.ctxSetString baseCtx s) ↔ Lim co e := by
  unfold Succeeds Text.ctxSetString Text.setString
  rw [hp]
  simp only [if_true]
  by_cases hl : Lim co e
  · rw [setExponent_base_ok neg co e hl]
    have hg : goError baseCtx.traps {} = .none := by decide
    simp only [hg, if_true]
    have hw : ({ form := .finite, neg := neg, exp := e, coeff := co } : Dec).WF := hl
    rw [ctxRound_base _ hw]
    simp only [hl, iff_true]
    exact ⟨_, rfl, rfl⟩
  · have := setExponent_base_sys neg co e hl
    rw [this]
    simp only [hl, iff_false]
    rintro ⟨r, hr, he⟩
    simp at hr
    rw [← hr] at he
    simp at he

/-- **C14 (c)**: `BaseContext.SetString` (= `apd.NewFromString`, `Decimal.SetString`) succeeds exactly
on the strings of the grammar whose written exponent fits an int32 and whose denoted decimal has
exponent and adjusted exponent within ±100000 (special values have no limits). -/
theorem C14_setString_limits (s : String) :
    Succeeds (Text.ctxSetString baseCtx s) ↔ (GdaNumeric s ∧ ExpInt32 s ∧ WithinLimits s) := by
  by_cases hp : (Text.parse s).isSome = true
  · have hge := (C14_parse_accepts_iff s).mp hp
    rcases parse_classify hge.1 hge.2 with ⟨hs, d, hd, hf, he, hc⟩ | ⟨hs, neg, hd⟩
    · have : Succeeds (Text.ctxSetString baseCtx s) := ctxSetString_special hd hf he hc
      simp only [this, true_iff]
      exact ⟨hge.1, hge.2, Or.inl hs⟩
    · rw [ctxSetString_finite hd]
      unfold WithinLimits
      constructor
      · intro hl; exact ⟨hge.1, hge.2, Or.inr hl⟩
      · rintro ⟨_, _, h | h⟩
        · rw [hs] at h; simp at h
        · exact h
  · have hn : ¬ (GdaNumeric s ∧ ExpInt32 s) := fun h => hp ((C14_parse_accepts_iff s).mpr h)
    have : ¬ Succeeds (Text.ctxSetString baseCtx s) := by
      rintro ⟨r, hr, _⟩
      unfold Text.ctxSetString Text.setString at hr
      cases hq : Text.parse s with
      | none => simp [hq] at hr
      | some x => simp [hq] at hp
    simp only [this, false_iff]
    rintro ⟨h1, h2, _⟩
    exact hn ⟨h1, h2⟩

theorem fracDigits_le (l : List Char) : fracDigits l ≤ l.length := by
  unfold fracDigits
  have h1 : (beforeIndicator l).length ≤ l.length := by
    unfold beforeIndicator
    split
    · exact Nat.le_trans (List.takeWhile_sublist _).length_le (by simp)
    · exact Nat.le_trans (List.takeWhile_sublist _).length_le (by simp)
    · exact (List.takeWhile_sublist _).length_le
  have h2 := (List.dropWhile_sublist (· != '.') (l := beforeIndicator l)).length_le
  split
  · omega
  · rename_i heq
    rw [heq] at h2
    simp at h2
    omega

theorem isSpecial_writtenExp {l : List Char} (h : isSpecial l = true) : writtenExp l = 0 := by
  rw [isSpecial_iff] at h
  obtain ⟨sg, t, rfl, hsg, hb⟩ := h
  apply writtenExp_noE
  rcases hb with hb | hb
  · exact hsg.noE.append (infBody_noE hb)
  · exact hsg.noE.append (nanBody_noE hb)

/-- for strings shorter than 2^31 - 100001 characters (every string a Go program can hold in practice) the int32
clause is implied by the limits: the theorem as the property states it. -/
theorem C14_setString_limits' (s : String) (hlen : s.toList.length < 2147383647) :
    Succeeds (Text.ctxSetString baseCtx s) ↔ (GdaNumeric s ∧ WithinLimits s) := by
  rw [C14_setString_limits]
  constructor
  · rintro ⟨a, _, c⟩; exact ⟨a, c⟩
  · rintro ⟨a, c⟩
    refine ⟨a, ?_, c⟩
    unfold ExpInt32
    rcases c with c | c
    · rw [isSpecial_writtenExp c]; decide
    · have := fracDigits_le s.toList
      unfold denotedExp at c
      omega

/-! ## (d) `Format`: the Text form, laid out the way fmt lays out numbers -/

/-- the `Text` verb a `Format` verb stands for -/
def textVerb (verb : Char) : Option Char :=
  if verb = 'e' ∨ verb = 'E' ∨ verb = 'f' ∨ verb = 'g' ∨ verb = 'G' then some verb
  else if verb = 'F' then some 'f'
  else if verb = 'v' ∨ verb = 's' then some 'G'
  else none

theorem fmtE_ne_nil (fmt : Char) (d : Dec) (ds : List Char) : fmtE fmt d ds ≠ [] := by
  unfold fmtE; simp

theorem appendL_ne_nil (d : Dec) (verb : Char) : appendL d verb ≠ [] := by
  unfold appendL
  cases d.form <;> simp only []
  · -- finite
    have hD := Digs.natDigits d.coeff
    have hne := natDigits_ne_nil d.coeff
    have hF : fmtF d (natDigits d.coeff) ≠ [] := by
      obtain ⟨c, t, h, _⟩ := fmtF_head d hD hne
      rw [h]; simp
    split_ifs <;> simp [hF, fmtE_ne_nil]
  all_goals simp

/-- without flags and width, `Format` writes exactly `Text(verb)` (`%v`, `%s` → `'G'`, `%F` → `'f'`) -/
theorem C14_format_plain (d : Dec) (verb v : Char) (hv : textVerb verb = some v) :
    Text.format d verb false false false false none = Text.append d v := by
  unfold Text.format Text.append
  congr 1
  unfold formatL
  unfold textVerb at hv
  simp only [hv]
  have hne := appendL_ne_nil d v
  cases h : appendL d v with
  | nil => exact absurd h hne
  | cons c t =>
    simp only [List.isEmpty_cons, Bool.false_eq_true, if_false]
    simp only [Bool.false_eq_true, if_false, List.replicate_zero, List.nil_append, List.append_nil,
      Bool.false_and]
    split
    · rename_i heq; simp at heq; simp [heq]
    · rename_i heq; simp at heq; simp [heq]
    · simp

/-- so the fmt verbs round-trip as well -/
theorem C13_roundtrip_format (d : Dec) (h : d.WF) (verb : Char)
    (hv : verb = 'v' ∨ verb = 's' ∨ verb = 'G' ∨ verb = 'g' ∨ verb = 'E' ∨ verb = 'e') :
    Text.parse (Text.format d verb false false false false none) = some (reparsed d) := by
  rcases hv with rfl | rfl | rfl | rfl | rfl | rfl
  · rw [C14_format_plain d 'v' 'G' (by decide)]; exact C13_roundtrip_G d h 'G' (by simp)
  · rw [C14_format_plain d 's' 'G' (by decide)]; exact C13_roundtrip_G d h 'G' (by simp)
  · rw [C14_format_plain d 'G' 'G' (by decide)]; exact C13_roundtrip_G d h 'G' (by simp)
  · rw [C14_format_plain d 'g' 'g' (by decide)]; exact C13_roundtrip_G d h 'g' (by simp)
  · rw [C14_format_plain d 'E' 'E' (by decide)]; exact C13_roundtrip_G d h 'E' (by simp)
  · rw [C14_format_plain d 'e' 'e' (by decide)]; exact C13_roundtrip_G d h 'e' (by simp)

/-- the field width: the output is the unpadded output (which does not depend on `-`, `0`) extended to
`max width len` characters … -/
theorem C14_format_width (d : Dec) (verb v : Char) (hv : textVerb verb = some v) (plus minus space zero : Bool) (w : Nat) :
    (formatL d verb plus minus space zero (some w)).length =
      max w (formatL d verb plus false space false none).length := by
  unfold formatL
  unfold textVerb at hv
  simp only [hv]
  split_ifs <;> simp <;> omega

/-- … with the padding on the right, in spaces, whenever `-` is given (`-` overrides `0`) … -/
theorem C14_format_minus (d : Dec) (verb v : Char) (hv : textVerb verb = some v) (plus space zero : Bool) (w : Nat) :
    formatL d verb plus true space zero (some w) =
      formatL d verb plus false space false none ++
        List.replicate (w - (formatL d verb plus false space false none).length) ' ' := by
  unfold formatL
  unfold textVerb at hv
  simp only [hv]
  simp

/-- … and otherwise on the left, in spaces unless `0` is given and the value is finite. -/
theorem C14_format_left (d : Dec) (verb v : Char) (hv : textVerb verb = some v) (plus space zero : Bool) (w : Nat)
    (hz : zero = false ∨ d.form ≠ .finite) :
    formatL d verb plus false space zero (some w) =
      List.replicate (w - (formatL d verb plus false space false none).length) ' ' ++
        formatL d verb plus false space false none := by
  unfold formatL
  unfold textVerb at hv
  simp only [hv]
  rcases hz with rfl | hz
  · simp
  · simp [hz]

#print axioms C14_parse_accepts_iff
#print axioms C14_setString_limits
#print axioms C14_setString_limits'
#print axioms C14_format_plain
#print axioms C13_roundtrip_format
#print axioms C14_format_width
#print axioms C14_format_minus
#print axioms C14_format_left

end Apd.Props
