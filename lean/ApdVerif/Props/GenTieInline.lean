import ApdVerif.Model.BigInt
import ApdVerif.Gen.Inline
/-!
# Regenerated tie for the uint64 fast-path helpers of bigint.go

`ApdVerif/Gen/Inline.lean` is re-extracted from the Go source on every run (harness/cmd/xlate);
`bits.Add64/Sub64/Mul64` and the wrapping `uint64` subtraction are the `Nat < 2^64` definitions of
`ApdVerif/Gen/Prelude.lean`.  The hand-written helpers of `ApdVerif/Model/BigInt.lean` (about which C16 is
proved) are equal to the generated ones on all `uint64` inputs.  If the Go source of one of these
functions changes, the regenerated definition changes and the theorem below stops checking.
-/
namespace Apd.Props
open Apd

theorem GenTie_addInline (xVal yVal : Nat) (xNeg yNeg : Bool)
    (hx : xVal < 2 ^ 64) (hy : yVal < 2 ^ 64) :
    Gen.addInline xVal yVal xNeg yNeg = BigInt.addInline xVal yVal xNeg yNeg := by
  unfold Gen.addInline BigInt.addInline Gen.add64 Gen.sub64 Gen.sub64w Gen.two64
  by_cases hs : xNeg = yNeg
  · subst hs
    have e : (xVal + yVal) / 2 ^ 64 = 0 ↔ xVal + yVal < 2 ^ 64 := by omega
    by_cases h : xVal + yVal < 2 ^ 64 <;> simp [h, e]
  · by_cases hlt : xVal < yVal
    · have h1 : ¬ (yVal ≤ xVal) := by omega
      have h2 : (yVal + 2 ^ 64 - xVal % 2 ^ 64) % 2 ^ 64 = yVal - xVal := by omega
      have h3 : ¬ (yVal - xVal = 0) := by omega
      simp [hs, hlt, h1, h2, h3]
    · have h1 : yVal ≤ xVal := by omega
      have h2 : (xVal - yVal = 0) ↔ (xVal = yVal) := by omega
      by_cases he : xVal = yVal <;> simp [hs, hlt, h1, h2, he]

theorem GenTie_mulInline (xVal yVal : Nat) (xNeg yNeg : Bool)
    (_hx : xVal < 2 ^ 64) (_hy : yVal < 2 ^ 64) :
    Gen.mulInline xVal yVal xNeg yNeg = BigInt.mulInline xVal yVal xNeg yNeg := by
  unfold Gen.mulInline BigInt.mulInline Gen.mul64 Gen.two64
  have e : (xVal * yVal) / 2 ^ 64 = 0 ↔ xVal * yVal < 2 ^ 64 := by
    generalize xVal * yVal = p; omega
  by_cases h : xVal * yVal < 2 ^ 64 <;> simp [h, e]

theorem GenTie_quoInline (xVal yVal : Nat) (xNeg yNeg : Bool)
    (_hx : xVal < 2 ^ 64) (_hy : yVal < 2 ^ 64) :
    Gen.quoInline xVal yVal xNeg yNeg = BigInt.quoInline xVal yVal xNeg yNeg := by
  rfl

theorem GenTie_remInline (xVal yVal : Nat) (xNeg yNeg : Bool)
    (_hx : xVal < 2 ^ 64) (_hy : yVal < 2 ^ 64) :
    Gen.remInline xVal yVal xNeg yNeg = BigInt.remInline xVal yVal xNeg yNeg := by
  rfl

#print axioms Apd.Props.GenTie_addInline
#print axioms Apd.Props.GenTie_mulInline
#print axioms Apd.Props.GenTie_quoInline
#print axioms Apd.Props.GenTie_remInline

end Apd.Props
