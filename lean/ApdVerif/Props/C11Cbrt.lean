import ApdVerif.Props.C11
import ApdVerif.Props.Rational
import ApdVerif.Props.RoundCore
import ApdVerif.Props.Mul
import ApdVerif.Props.Quo
import ApdVerif.Lemmas.SqrtIterLemmas
import ApdVerif.Lemmas.CbrtNewton
import ApdVerif.Lemmas.CbrtLemmas
import ApdVerif.Lemmas.CbrtTail
import ApdVerif.Lemmas.CbrtExact
/-!
# C11 — `Context.Cbrt`: a returned cube root is within one unit in the last place, and exact on perfect cubes

`Cbrt` iterates `z ← (2·z0 + |x|/z0²)/3` at `2·Precision+2` digits until two consecutive iterates differ by at
most one unit of the `(Precision+1)`-th digit (`loop.done`), then rounds half-even to `Precision` digits and
cubes the result to see whether it is exact.  Theorem: WHENEVER the call returns without error, the stopping
rule alone forces the last iterate to within `3·10^(-2·Precision)` (relative) of the real cube root — whatever
the first estimate was and however many rounds it took — so the rounded result is within one unit in the last
place, and is the exact root, with no condition raised, when the operand is a perfect cube whose root fits.

Proof layout: `Lemmas/CbrtNewton.lean` (real analysis: five rounded operations = exact Newton step × (1+θ), and the
stopping rule forces `(z(1-τ))³ ≤ |x| ≤ (z(1+τ))³`, `τ = 3·10^(-2P)`), `Lemmas/CbrtLemmas.lean` (backwards unfolding of
`cbrtOp`: every operation of a non-failed call is exact-rounded-once in the normal range, every iterate is a positive finite
decimal — including the first estimate, from the exit test of the second scaling loop —, `loop.done` in rationals;
`last_iter`), `Lemmas/CbrtTail.lean` (final half-even rounding vs `cbrtWithinUlp`), `Lemmas/CbrtExact.lean` (a value
within `τ` of a `P`-digit grid point rounds to it; the re-check's two multiplications at `3P` digits are exact).

NOT proved: that the call always returns without error (the loop gives up after `Precision+11` rounds with
"did not converge"; the check explores that, and the model's fuel is enough for that bound by construction).
-/
namespace Apd.Props
open Apd Apd.Oracle

/-- **C11, Cbrt, one ulp** -/
theorem C11_cbrt_within_ulp (c : Ctx) (hc : c.WF) (hp : c.prec * 3 + 2 ≤ 100000)
    (x : Dec) (hx : x.form = .finite) (h0 : x.coeff ≠ 0) (hw : x.WF)
    (o : Out) (ho : cbrtOp c x = some o) (he : o.err = .none) (hf : o.d.form = .finite) :
    cbrtWithinUlp c x o.d = true ∧ o.d.neg = x.neg := by
  obtain ⟨zf, fl0, hpos, hnd, hlo, hhi, hoeq⟩ := CbrtL.last_iter c hc hp x hx h0 o ho he
  have hI : CbrtT.Iter c x zf := ⟨hpos, hnd, hlo, hhi⟩
  rw [hoeq] at he hf ⊢
  obtain ⟨-, hd⟩ := CbrtT.tail_ok c x fl0 zf he
  rw [hd] at hf ⊢
  exact ⟨CbrtT.tail_within c hc hp x hx h0 hw zf hI hf x.neg, rfl⟩

/-- **C11, Cbrt, perfect cubes**: the exact root, no condition -/
theorem C11_cbrt_exact (c : Ctx) (hc : c.WF) (hp : c.prec * 3 + 2 ≤ 100000)
    (x : Dec) (hx : x.form = .finite) (h0 : x.coeff ≠ 0) (hw : x.WF)
    (o : Out) (ho : cbrtOp c x = some o) (he : o.err = .none)
    (r : Nat) (k : Int) (hpc : perfectCube x = some (r, k)) (hr : ndigits r ≤ c.prec)
    (hlo : c.emin ≤ k + (ndigits r : Int) - 1) (hhi : k + (ndigits r : Int) - 1 ≤ c.emax) :
    o.fl = {} ∧ o.d.form = .finite ∧ o.d.neg = x.neg ∧ |o.d.toRat| = (r : ℚ) * (10 : ℚ) ^ k := by
  obtain ⟨zf, fl0, hpos, hnd, hlo', hhi', hoeq⟩ := CbrtL.last_iter c hc hp x hx h0 o ho he
  have hI : CbrtT.Iter c x zf := ⟨hpos, hnd, hlo', hhi'⟩
  rw [hoeq] at he ⊢
  exact CbrtE.tail_exact c hc hp x hx h0 hw fl0 zf hI he r k hpc hr hlo hhi

#print axioms C11_cbrt_within_ulp
#print axioms C11_cbrt_exact

end Apd.Props
